#!/bin/sh
# Builds the framework from files on disk only (offline): the whole Coq development
# (full .vo), the extracted-model driver and the Rust harness against /repo.
set -e
V=$(cd "$(dirname "$0")" && pwd)
export CARGO_NET_OFFLINE=true
cd "$V"
for t in translators/*2coq.py; do [ -f "$t" ] && python3 "$t" /repo "$V/coq/Gen"; done
cd "$V/coq"
coq_makefile -f _CoqProject -o Makefile
timeout 3000 make -j16
"$V/ocaml/build.sh"
cd "$V/harness"
cp /repo/Cargo.lock Cargo.lock 2>/dev/null || true
cargo build --offline --features verif
echo setup-ok

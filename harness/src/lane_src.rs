// lane L6 (front part): the two string entry points of the library that do not go through
// Code::parse.  Same line format as ocaml/lane_src.ml.
//   (type-from-str "text")   Type::from_str      -> canonical type | reject
//   (value-from-str "text")  Variable::from_str  -> ok VALUE (hidden element types shown) | reject
//   (parse-ty "text")        Code::parse only (with stdlib) -> accept :: TYPE | reject VARIANT
//                            (tells a panic inside Code::parse from one at run time)
use crate::conv::{ty_to_string, val_to_string, variant_name, Ids};
use crate::sexp::Sexp;
use simplesl::variable::{ReturnType, Type, Variable};
use simplesl::{Code, Interpreter};
use std::str::FromStr;

pub fn handle(cmd: &str, args: &[Sexp]) -> Option<Result<String, String>> {
    match (cmd, args) {
        ("type-from-str", [Sexp::S(text)]) => Some(Ok(match Type::from_str(text) {
            Ok(t) => ty_to_string(&t),
            Err(_) => "reject".into(),
        })),
        ("value-from-str", [Sexp::S(text)]) => Some(Ok(match Variable::from_str(text) {
            Ok(v) => format!("ok {}", val_to_string(&v, true, &mut Ids::new(), 0)),
            Err(_) => "reject".into(),
        })),
        ("parse-ty", [Sexp::S(text)]) => {
            let interp = Interpreter::with_stdlib();
            Some(Ok(match Code::parse(&interp, text) {
                Ok(code) => format!("accept :: {}", ty_to_string(&code.return_type())),
                Err(e) => format!("reject {}", variant_name(&e)),
            }))
        }
        _ => None,
    }
}

// lane L5-print: how the implementation renders types and values as text, and how it
// reads that text back.  Same commands and line formats as ocaml/lane_print.ml.
//
//   (ty-print T)         -> "text"            format!("{}", t), t built as conv::ty_of_sexp does
//   (ty-print-parse T)   -> ok <canonical T'> | reject        Type::from_str(&t.to_string())
//   (ty-parse "text")    -> ok <canonical T>  | reject        Type::from_str(text)
//   (ty-roundtrip-eq T)  -> true | false | reject   Type::from_str(&t.to_string()) == Ok(t), judged by
//                                             the implementation's own `==`, 8 times (t rebuilt each time)
//   (val-id V)           -> typed canonical text of V itself
//   (val-debug V)        -> "text"            format!("{:?}", v)
//   (val-display V)      -> "text"            format!("{}", v)
//   (val-roundtrip V)    -> "debug text" => ok <typed canonical value> | reject <Variant>
//                                             Variable::from_str(&format!("{:?}", v))
//   (val-read "text")    -> ok <typed canonical value> | reject <Variant>   Variable::from_str(text)
//   (val-as-program V)   -> ok <typed canonical value> | reject <Variant> | err <Variant>
//                                             Code::parse(debug text).exec()
//   (run-text "text")    -> the same for an arbitrary program text
//   (esc-table)          -> lo-hi lo-hi ...   the code points c for which {:?} of the one-char
//                                             string differs from "c" (whole Unicode range)
//   (float-debug BITS) / (float-display BITS) -> "text"
//   (float-read "text")  -> ok BITS | reject   str::parse::<f64>
//
// V extends the value syntax of conv::val_of_sexp with
//   (mutv T V)                 a fresh cell of declared type T holding V
//   (funv ((name T) ...) R)    a native function value with those parameters and result R
use crate::conv::*;
use crate::sexp::{quote, Sexp};
use simplesl::function::{Function, Param, Params};
use simplesl::variable::{Mut, Type, Variable};
use simplesl::{Code, Interpreter};
use std::collections::HashMap;
use std::str::FromStr;
use std::sync::{Arc, RwLock};

fn native_body(_: &mut Interpreter) -> Result<Variable, simplesl::ExecError> {
    Ok(Variable::Void)
}

pub fn pval_of_sexp(s: &Sexp) -> Result<Variable, String> {
    use Sexp::*;
    if let L(items) = s {
        if let Some(A(head)) = items.first() {
            let rest = &items[1..];
            match head.as_str() {
                "mutv" => {
                    let (Some(t), Some(v)) = (rest.first(), rest.get(1)) else {
                        return Err("mutv".into());
                    };
                    return Ok(Variable::Mut(Arc::new(Mut {
                        var_type: ty_of_sexp(t)?,
                        variable: RwLock::new(pval_of_sexp(v)?),
                    })));
                }
                "funv" => {
                    let (Some(L(ps)), Some(r)) = (rest.first(), rest.get(1)) else {
                        return Err("funv".into());
                    };
                    let mut params = Vec::new();
                    for p in ps {
                        let L(kv) = p else { return Err("funv param".into()) };
                        let (Some(A(k)), Some(t)) = (kv.first(), kv.get(1)) else {
                            return Err("funv param".into());
                        };
                        params.push(Param { name: k.as_str().into(), var_type: ty_of_sexp(t)? });
                    }
                    let f = Function::new(Params(params.into()), native_body, ty_of_sexp(r)?);
                    return Ok(Variable::Function(Arc::new(f)));
                }
                "arr" => {
                    let vs: Vec<Variable> = rest.iter().map(pval_of_sexp).collect::<Result<_, _>>()?;
                    return Ok(Variable::from(vs));
                }
                "tup" => {
                    let vs: Arc<[Variable]> = rest.iter().map(pval_of_sexp).collect::<Result<_, _>>()?;
                    return Ok(Variable::Tuple(vs));
                }
                "struct" => {
                    let mut vm: HashMap<Arc<str>, Variable> = HashMap::new();
                    for f in rest {
                        let L(kv) = f else { return Err("field".into()) };
                        let (Some(A(k)), Some(v)) = (kv.first(), kv.get(1)) else {
                            return Err("field".into());
                        };
                        vm.insert(k.as_str().into(), pval_of_sexp(v)?);
                    }
                    return Ok(Variable::Struct(vm.into()));
                }
                _ => {}
            }
        }
    }
    val_of_sexp(s)
}

fn show_read(r: Result<Variable, simplesl::Error>) -> String {
    match r {
        Ok(v) => format!("ok {}", val_to_string(&v, true, &mut Ids::new(), 0)),
        Err(e) => format!("reject {}", variant_name(&e)),
    }
}

fn run_text(text: &str) -> String {
    let interp = Interpreter::with_stdlib();
    match Code::parse(&interp, text) {
        Err(e) => format!("reject {}", variant_name(&e)),
        Ok(code) => match code.exec() {
            Ok(v) => format!("ok {}", val_to_string(&v, true, &mut Ids::new(), 0)),
            Err(e) => format!("err {}", variant_name(&e)),
        },
    }
}

fn esc_table() -> String {
    let mut out: Vec<String> = Vec::new();
    let mut start: Option<u32> = None;
    let mut prev = 0u32;
    for cp in 0u32..0x110000 {
        let Some(c) = char::from_u32(cp) else {
            // surrogates: not scalar values, close any open range
            if let Some(s) = start.take() {
                out.push(format!("{s}-{prev}"));
            }
            continue;
        };
        let s = c.to_string();
        let esc = format!("{s:?}") != format!("\"{s}\"");
        if esc {
            if start.is_none() {
                start = Some(cp);
            }
            prev = cp;
        } else if let Some(s) = start.take() {
            out.push(format!("{s}-{prev}"));
        }
    }
    if let Some(s) = start.take() {
        out.push(format!("{s}-{prev}"));
    }
    out.join(" ")
}

const COMMANDS: &[&str] = &[
    "ty-print", "ty-print-parse", "ty-parse", "ty-roundtrip-eq", "val-id", "val-debug", "val-display", "val-roundtrip",
    "val-read", "val-as-program", "run-text", "esc-table", "float-debug", "float-display",
    "float-read",
];

/// None: not a command of this lane (the caller continues its dispatch chain)
pub fn handle(cmd: &str, args: &[Sexp]) -> Option<Result<String, String>> {
    use Sexp::*;
    if !COMMANDS.contains(&cmd) {
        return None;
    }
    Some((|| -> Result<String, String> {
        match (cmd, args) {
            ("ty-print", [t]) => Ok(quote(&ty_of_sexp(t)?.to_string())),
            ("ty-print-parse", [t]) => {
                let t = ty_of_sexp(t)?;
                Ok(match Type::from_str(&t.to_string()) {
                    Ok(u) => format!("ok {}", ty_to_string(&u)),
                    Err(_) => "reject".into(),
                })
            }
            ("ty-roundtrip-eq", [t]) => {
                let mut all = true;
                for _ in 0..8 {
                    let t = ty_of_sexp(t)?;
                    match Type::from_str(&t.to_string()) {
                        Ok(u) => all &= u == t && t == u,
                        Err(_) => return Ok("reject".into()),
                    }
                }
                Ok(all.to_string())
            }
            ("ty-parse", [S(text)]) => Ok(match Type::from_str(text) {
                Ok(u) => format!("ok {}", ty_to_string(&u)),
                Err(_) => "reject".into(),
            }),
            ("val-id", [v]) => Ok(val_to_string(&pval_of_sexp(v)?, true, &mut Ids::new(), 0)),
            ("val-debug", [v]) => Ok(quote(&format!("{:?}", pval_of_sexp(v)?))),
            ("val-display", [v]) => Ok(quote(&format!("{}", pval_of_sexp(v)?))),
            ("val-roundtrip", [v]) => {
                let text = format!("{:?}", pval_of_sexp(v)?);
                Ok(format!("{} => {}", quote(&text), show_read(Variable::from_str(&text))))
            }
            ("val-read", [S(text)]) => Ok(show_read(Variable::from_str(text))),
            ("val-as-program", [v]) => Ok(run_text(&format!("{:?}", pval_of_sexp(v)?))),
            ("run-text", [S(text)]) => Ok(run_text(text)),
            ("esc-table", []) => Ok(esc_table()),
            ("float-debug", [A(bits)]) => {
                let b = bits.parse::<u64>().map_err(|e| e.to_string())?;
                Ok(quote(&format!("{:?}", f64::from_bits(b))))
            }
            ("float-display", [A(bits)]) => {
                let b = bits.parse::<u64>().map_err(|e| e.to_string())?;
                Ok(quote(&format!("{}", f64::from_bits(b))))
            }
            ("float-read", [S(text)]) => Ok(match text.parse::<f64>() {
                Ok(f) if f.is_nan() => "ok nan".into(),
                Ok(f) => format!("ok {}", f.to_bits()),
                Err(_) => "reject".into(),
            }),
            _ => Err(format!("bad arguments for {cmd}")),
        }
    })())
}

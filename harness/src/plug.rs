// pluggable lane modules: add `mod lane_x;` + one line in `handle`
use crate::sexp::Sexp;

pub fn handle(cmd: &str, args: &[Sexp]) -> Result<String, String> {
    if let Some(r) = crate::lane_std::handle(cmd, args) {
        return r;
    }
    match cmd {
        "peg" => crate::lane_peg::peg(args),
        _ => match crate::lane_src::handle(cmd, args) {
            Some(r) => r,
            None => match crate::lane_print::handle(cmd, args) {
                Some(r) => r,
                None => Err(format!("unknown command {cmd}")),
            },
        },
    }
}

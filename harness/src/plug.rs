// pluggable lane modules: add `mod lane_x;` + one line in `handle`
use crate::sexp::Sexp;

pub fn handle(cmd: &str, args: &[Sexp]) -> Result<String, String> {
    match cmd {
        "peg" => crate::lane_peg::peg(args),
        _ => Err(format!("unknown command {cmd}")),
    }
}

// pluggable lane modules: add `mod lane_x;` + one line in `handle`
use crate::sexp::Sexp;

pub fn handle(cmd: &str, _args: &[Sexp]) -> Result<String, String> {
    Err(format!("unknown command {cmd}"))
}

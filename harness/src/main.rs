// harness: same case protocol as ocaml/driver.ml, run against the real crate.
mod conv;
mod lane_peg;
mod lane_print;
mod lane_src;
mod lane_std;
mod lanes;
mod plug;
mod sexp;
use conv::*;
use sexp::Sexp;
use simplesl::variable::{FunctionType, StructType, Type};
use std::io::{BufRead, Write};
use std::panic;

fn ty_query(name: &str, t: &simplesl::variable::Type, arg: Option<&Sexp>) -> Result<String, String> {
    let b = |x: bool| x.to_string();
    Ok(match (name, arg) {
        ("index_result", _) => opt_ty(t.index_result()),
        ("element_type", _) => opt_ty(t.element_type()),
        ("return_type", _) => opt_ty(t.return_type()),
        ("mut_element_type", _) => opt_ty(t.mut_element_type()),
        ("params", _) => t.params().map_or("none".into(), |p| tys_to_string(&p)),
        ("flatten_tuple", _) => t.clone().flatten_tuple().map_or("none".into(), |p| tys_to_string(&p)),
        ("is_function", _) => b(t.is_function()),
        ("is_tuple", _) => b(t.is_tuple()),
        ("is_mut", _) => b(t.is_mut()),
        ("is_iterator", _) => b(t.is_iterator()),
        ("is_struct", _) => b(t.is_struct()),
        ("can_be_indexed", _) => b(t.can_be_indexed()),
        ("tuple_len", _) => t.tuple_len().map_or("none".into(), |n| n.to_string()),
        ("min_tuple_len", _) => t.min_tuple_len().map_or("none".into(), |n| n.to_string()),
        ("iter_element", _) => opt_ty(t.iter_element()),
        ("tuple_element_at", Some(Sexp::A(i))) => {
            opt_ty(t.tuple_element_at(i.parse::<usize>().map_err(|e| e.to_string())?))
        }
        ("field_type", Some(Sexp::A(k))) => opt_ty(t.field_type(k)),
        ("has_field", Some(Sexp::A(k))) => b(t.has_field(k)),
        _ => return Err(format!("query {name}")),
    })
}

fn ty_laws(a: Type, b: Type, c: Type) -> String {
    let st1 = |t: &Type| Type::Struct(StructType::from([("x".into(), t.clone())]));
    let st2 = |t: &Type, u: &Type| {
        Type::Struct(StructType::from([("x".into(), t.clone()), ("y".into(), u.clone())]))
    };
    let f1 = |p: &Type, r: &Type| -> Type {
        FunctionType { params: [p.clone()].into(), return_type: r.clone() }.into()
    };
    let f0 = |r: &Type| -> Type { FunctionType { params: [].into(), return_type: r.clone() }.into() };
    let arr = |t: &Type| Type::Array(t.clone().into());
    let mt = |t: &Type| Type::Mut(t.clone().into());
    let tup = |t: &Type, u: &Type| Type::Tuple([t.clone(), u.clone()].into());
    let ab = a.clone().concat(b.clone());
    let ba = b.clone().concat(a.clone());
    let m = a.conjoin(&b);
    let laws = [
        a.matches(&a),
        Type::Never.matches(&a),
        a.matches(&Type::Any),
        !(a.matches(&b) && b.matches(&c)) || a.matches(&c),
        a.matches(&ab),
        b.matches(&ab),
        ab.matches(&c) == (a.matches(&c) && b.matches(&c)),
        m.matches(&a),
        m.matches(&b),
        arr(&a).matches(&arr(&b)) == a.matches(&b),
        tup(&a, &c).matches(&tup(&b, &c)) == a.matches(&b),
        st1(&a).matches(&st1(&b)) == a.matches(&b),
        st2(&a, &c).matches(&st1(&a)),
        f1(&a, &c).matches(&f1(&b, &c)) == b.matches(&a),
        f0(&a).matches(&f0(&b)) == a.matches(&b),
        mt(&a).matches(&mt(&b)) == (a == b),
        (a == b) == (b == a),
        !(a == b) || (a.matches(&b) && b.matches(&a)),
        ab == ba,
        a.clone().concat(a.clone()) == a,
    ];
    laws.iter().map(|x| if *x { "1" } else { "0" }).collect::<Vec<_>>().join(" ")
}

fn handle(s: &Sexp) -> Result<String, String> {
    use Sexp::*;
    let L(items) = s else { return Err("case".into()) };
    let Some(A(cmd)) = items.first() else { return Err("case head".into()) };
    let args = &items[1..];
    match (cmd.as_str(), args.len()) {
        ("ty-laws", 3) => Ok(ty_laws(ty_of_sexp(&args[0])?, ty_of_sexp(&args[1])?, ty_of_sexp(&args[2])?)),
        ("ty-id", 1) => Ok(ty_to_string(&ty_of_sexp(&args[0])?)),
        ("ty-eq", 2) => Ok((ty_of_sexp(&args[0])? == ty_of_sexp(&args[1])?).to_string()),
        ("ty-matches", 2) => Ok(ty_of_sexp(&args[0])?.matches(&ty_of_sexp(&args[1])?).to_string()),
        ("ty-concat", 2) => Ok(ty_to_string(&ty_of_sexp(&args[0])?.concat(ty_of_sexp(&args[1])?))),
        ("ty-conjoin", 2) => Ok(ty_to_string(&ty_of_sexp(&args[0])?.conjoin(&ty_of_sexp(&args[1])?))),
        ("ty-q", 2) | ("ty-q", 3) => {
            let A(name) = &args[0] else { return Err("query name".into()) };
            ty_query(name, &ty_of_sexp(&args[1])?, args.get(2))
        }
        _ => lanes::handle(cmd, args),
    }
}

fn main() {
    if lane_std::child_main() {
        return;
    }
    panic::set_hook(Box::new(|_| {}));
    let stdin = std::io::stdin();
    let stdout = std::io::stdout();
    let mut out = std::io::BufWriter::new(stdout.lock());
    for line in stdin.lock().lines() {
        let line = line.unwrap();
        if line.is_empty() {
            continue;
        }
        let res = panic::catch_unwind(|| match sexp::parse(&line) {
            Ok(s) => handle(&s).unwrap_or_else(|e| format!("!bad {e}")),
            Err(e) => format!("!parse {e}"),
        });
        let text = match res {
            Ok(t) => t,
            Err(p) => {
                let msg = p
                    .downcast_ref::<String>()
                    .cloned()
                    .or_else(|| p.downcast_ref::<&str>().map(|s| s.to_string()))
                    .unwrap_or_default();
                format!("!panic {}", msg.replace('\n', " "))
            }
        };
        writeln!(out, "{text}").unwrap();
    }
    out.flush().unwrap();
}

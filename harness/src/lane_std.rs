// lane L12 (C18): the standard library as the LIVE `std` value sees it.
//
//   (std-exports)
//       walks the struct `std` recursively and prints every leaf as `path :: TYPE`
//       (functions: their Function type = declared parameter and return types), sorted,
//       separated by " | ".
//   (std-child STDIN STDOUT CMD)
//       runs CMD — a `(run "..")` / `(call ".." ARG..)` command of lanes.rs — in a CHILD copy of
//       this binary whose stdin / stdout are under the lane's control, so that
//       * `std.io.cgetline` can be exercised at all (the parent holds the stdin lock while it
//         serves the protocol, a call in-process would deadlock), with stdin empty, holding a
//         given text / given bytes, or being a directory (read fails with EISDIR);
//       * `std.io.print*` cannot corrupt the line protocol on the parent's stdout.
//       STDIN  ::= null | dir | (text "..") | (bytes N..)
//       STDOUT ::= pipe | full            (full = /dev/full: every write fails with ENOSPC)
//       answer: `RESULT-OF-CMD ## out "captured stdout"`, or `!died ..` if the child crashed.
//
// The child is selected by the environment variable VERIF_STD_CHILD (see `child_main`, called
// first thing in main); it writes its one result line to stderr.
use crate::conv::*;
use crate::sexp::{self, Sexp};
use simplesl::variable::{Typed, Variable};
use simplesl::{Code, Interpreter};
use std::io::Write;
use std::process::{Command, Stdio};

fn walk(path: &str, v: &Variable, out: &mut Vec<String>) {
    match v {
        Variable::Struct(vm) => {
            for (k, x) in vm.iter() {
                walk(&format!("{path}.{k}"), x, out);
            }
        }
        other => out.push(format!("{path} :: {}", ty_to_string(&other.as_type()))),
    }
}

fn exports() -> Result<String, String> {
    let code = Code::parse(&Interpreter::with_stdlib(), "std").map_err(|e| format!("{e:?}"))?;
    let v = code.exec().map_err(|e| format!("{e:?}"))?;
    let mut out = Vec::new();
    walk("std", &v, &mut out);
    out.sort();
    Ok(format!("ok {}", out.join(" | ")))
}

/// Called first thing in `main`.  In a child process: run the one command, report on stderr.
pub fn child_main() -> bool {
    let Ok(cmd) = std::env::var("VERIF_STD_CHILD") else {
        return false;
    };
    std::panic::set_hook(Box::new(|_| {}));
    let res = std::panic::catch_unwind(|| match sexp::parse(&cmd) {
        Ok(Sexp::L(items)) => match items.first() {
            Some(Sexp::A(c)) => crate::lanes::handle(c, &items[1..]).unwrap_or_else(|e| format!("!bad {e}")),
            _ => "!bad child command".to_string(),
        },
        Ok(_) => "!bad child command".to_string(),
        Err(e) => format!("!parse {e}"),
    });
    let text = match res {
        Ok(t) => t,
        Err(p) => {
            let msg = p
                .downcast_ref::<String>()
                .cloned()
                .or_else(|| p.downcast_ref::<&str>().map(|s| s.to_string()))
                .unwrap_or_default();
            format!("!panic {}", msg.replace('\n', " "))
        }
    };
    let _ = writeln!(std::io::stderr(), "{text}");
    true
}

fn sexp_text(s: &Sexp) -> String {
    match s {
        Sexp::A(a) => a.clone(),
        Sexp::S(t) => sexp::quote(t),
        Sexp::L(items) => format!("({})", items.iter().map(sexp_text).collect::<Vec<_>>().join(" ")),
    }
}

fn child(stdin: &Sexp, stdout: &Sexp, cmd: &Sexp) -> Result<String, String> {
    use Sexp::*;
    let exe = std::env::current_exe().map_err(|e| e.to_string())?;
    let mut c = Command::new(exe);
    c.env("VERIF_STD_CHILD", sexp_text(cmd));
    c.stderr(Stdio::piped());
    let mut feed: Option<Vec<u8>> = None;
    match stdin {
        A(a) if a == "null" => {
            c.stdin(Stdio::null());
        }
        A(a) if a == "dir" => {
            let d = std::fs::File::open("/").map_err(|e| e.to_string())?;
            c.stdin(Stdio::from(d));
        }
        L(items) => match (items.first(), &items[1..]) {
            (Some(A(h)), [S(t)]) if h == "text" => {
                feed = Some(t.as_bytes().to_vec());
                c.stdin(Stdio::piped());
            }
            (Some(A(h)), bytes) if h == "bytes" => {
                let mut v = Vec::new();
                for b in bytes {
                    let A(n) = b else { return Err("byte".into()) };
                    v.push(n.parse::<u8>().map_err(|e| e.to_string())?);
                }
                feed = Some(v);
                c.stdin(Stdio::piped());
            }
            _ => return Err("stdin mode".into()),
        },
        _ => return Err("stdin mode".into()),
    }
    match stdout {
        A(a) if a == "pipe" => {
            c.stdout(Stdio::piped());
        }
        A(a) if a == "full" => {
            let f = std::fs::OpenOptions::new().write(true).open("/dev/full").map_err(|e| e.to_string())?;
            c.stdout(Stdio::from(f));
        }
        _ => return Err("stdout mode".into()),
    }
    let mut ch = c.spawn().map_err(|e| e.to_string())?;
    if let Some(data) = feed {
        if let Some(mut si) = ch.stdin.take() {
            let _ = si.write_all(&data);
        }
    }
    let out = ch.wait_with_output().map_err(|e| e.to_string())?;
    let err = String::from_utf8_lossy(&out.stderr);
    let line = err.lines().last().unwrap_or("").to_string();
    if line.is_empty() {
        return Ok(format!("!died {:?}", out.status.code()));
    }
    let so = String::from_utf8_lossy(&out.stdout);
    Ok(format!("{line} ## out {}", sexp::quote(&so)))
}

pub fn handle(cmd: &str, args: &[Sexp]) -> Option<Result<String, String>> {
    match (cmd, args) {
        ("std-exports", []) => Some(exports()),
        ("std-child", [i, o, c]) => Some(child(i, o, c)),
        _ => None,
    }
}

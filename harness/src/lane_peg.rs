// lane L6: (peg RULENAME "text") -> the pair forest pest's generated parser produces:
//   ok (rule start end child...) ...   |   fail
// Same line format as ocaml/lane_peg.ml.  Positions are converted from pest's byte
// offsets to offsets in Unicode scalar values.  Every rule of the grammar can be used
// as entry rule.
use crate::sexp::Sexp;
use pest::iterators::Pair;
use pest::Parser;
use simplesl_parser::{Rule, SimpleSLParser};
use std::fmt::Write;

// `Rule` derives Debug: the variant name is printed without the raw-identifier prefix
// (`r#type` prints as `type`), i.e. exactly the rule name of the grammar file.
fn rule_name(r: Rule) -> String {
    format!("{r:?}")
}

fn rule_by_name(name: &str) -> Option<Rule> {
    if name == "EOI" {
        return Some(Rule::EOI);
    }
    Rule::all_rules().iter().copied().find(|r| rule_name(*r) == name)
}

fn print_pair(out: &mut String, pair: Pair<'_, Rule>, off: &[usize]) {
    let span = pair.as_span();
    write!(out, "({} {} {}", rule_name(pair.as_rule()), off[span.start()], off[span.end()]).unwrap();
    for inner in pair.into_inner() {
        out.push(' ');
        print_pair(out, inner, off);
    }
    out.push(')');
}

pub fn peg(args: &[Sexp]) -> Result<String, String> {
    let (Some(Sexp::A(rule)), Some(Sexp::S(text))) = (args.first(), args.get(1)) else {
        return Err("peg RULE \"text\"".into());
    };
    let rule = rule_by_name(rule).ok_or_else(|| format!("peg: unknown rule {rule}"))?;
    // byte offset -> scalar-value offset (only char boundaries are ever looked up)
    let mut off = vec![0usize; text.len() + 1];
    let mut n = 0usize;
    for (i, c) in text.char_indices() {
        for k in 0..c.len_utf8() {
            off[i + k] = n;
        }
        n += 1;
    }
    off[text.len()] = n;
    match SimpleSLParser::parse(rule, text) {
        Ok(pairs) => {
            let mut out = String::from("ok");
            for pair in pairs {
                out.push(' ');
                print_pair(&mut out, pair, &off);
            }
            Ok(out)
        }
        Err(_) => Ok("fail".into()),
    }
}

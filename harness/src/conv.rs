// S-expression <-> simplesl data; canonical printing identical to ocaml/conv.ml.
use crate::sexp::Sexp;
use simplesl::variable::{FunctionType, StructType, Type};
use std::collections::HashMap;
use std::sync::Arc;

pub fn ty_of_sexp(s: &Sexp) -> Result<Type, String> {
    use Sexp::*;
    match s {
        A(a) => match a.as_str() {
            "bool" => Ok(Type::Bool),
            "int" => Ok(Type::Int),
            "float" => Ok(Type::Float),
            "string" => Ok(Type::String),
            "void" => Ok(Type::Void),
            "any" => Ok(Type::Any),
            "never" => Ok(Type::Never),
            _ => Err(format!("type atom {a}")),
        },
        L(items) => {
            let head = match items.first() {
                Some(A(h)) => h.as_str(),
                _ => return Err("type head".into()),
            };
            let rest = &items[1..];
            match head {
                "fun" => {
                    let (Some(L(ps)), Some(r)) = (rest.first(), rest.get(1)) else {
                        return Err("fun".into());
                    };
                    let params: Arc<[Type]> =
                        ps.iter().map(ty_of_sexp).collect::<Result<_, _>>()?;
                    Ok(FunctionType {
                        params,
                        return_type: ty_of_sexp(r)?,
                    }
                    .into())
                }
                "arr" => Ok(Type::Array(ty_of_sexp(&rest[0])?.into())),
                "mut" => Ok(Type::Mut(ty_of_sexp(&rest[0])?.into())),
                "tup" => {
                    let ts: Arc<[Type]> = rest.iter().map(ty_of_sexp).collect::<Result<_, _>>()?;
                    Ok(Type::Tuple(ts))
                }
                "multi" => {
                    let mut it = rest.iter().map(ty_of_sexp);
                    let mut acc = it.next().ok_or("empty multi")??;
                    for t in it {
                        acc = acc.concat(t?);
                    }
                    Ok(acc)
                }
                "struct" => {
                    let mut tm: HashMap<Arc<str>, Type> = HashMap::new();
                    for f in rest {
                        let L(kv) = f else { return Err("field".into()) };
                        let (Some(A(k)), Some(t)) = (kv.first(), kv.get(1)) else {
                            return Err("field".into());
                        };
                        tm.insert(k.as_str().into(), ty_of_sexp(t)?);
                    }
                    Ok(Type::Struct(StructType(Arc::new(tm))))
                }
                _ => Err(format!("type head {head}")),
            }
        }
        S(_) => Err("type string".into()),
    }
}

pub fn ty_to_string(t: &Type) -> String {
    match t {
        Type::Bool => "bool".into(),
        Type::Int => "int".into(),
        Type::Float => "float".into(),
        Type::String => "string".into(),
        Type::Void => "void".into(),
        Type::Any => "any".into(),
        Type::Never => "never".into(),
        Type::Function(f) => format!(
            "(fun ({}) {})",
            f.params.iter().map(ty_to_string).collect::<Vec<_>>().join(" "),
            ty_to_string(&f.return_type)
        ),
        Type::Array(e) => format!("(arr {})", ty_to_string(e)),
        Type::Mut(e) => format!("(mut {})", ty_to_string(e)),
        Type::Tuple(ts) => format!(
            "(tup{})",
            ts.iter().map(|t| format!(" {}", ty_to_string(t))).collect::<String>()
        ),
        Type::Multi(ms) => {
            let mut l: Vec<String> = ms.iter().map(ty_to_string).collect();
            l.sort();
            l.dedup();
            format!("(multi{})", l.iter().map(|t| format!(" {t}")).collect::<String>())
        }
        Type::Struct(st) => {
            let mut l: Vec<String> = st
                .0
                .iter()
                .map(|(k, v)| format!("({} {})", k, ty_to_string(v)))
                .collect();
            l.sort();
            format!("(struct{})", l.iter().map(|t| format!(" {t}")).collect::<String>())
        }
    }
}

pub fn opt_ty(t: Option<Type>) -> String {
    t.map_or("none".into(), |t| ty_to_string(&t))
}

pub fn tys_to_string(ts: &[Type]) -> String {
    format!("({})", ts.iter().map(ty_to_string).collect::<Vec<_>>().join(" "))
}

// ---------------- values ----------------
use simplesl::variable::Variable;

pub fn val_of_sexp(s: &Sexp) -> Result<Variable, String> {
    use Sexp::*;
    match s {
        A(a) if a == "void" => Ok(Variable::Void),
        L(items) => {
            let head = match items.first() {
                Some(A(h)) => h.as_str(),
                _ => return Err("value head".into()),
            };
            let rest = &items[1..];
            match head {
                "i" => match rest.first() {
                    Some(A(n)) => Ok(Variable::Int(n.parse::<i64>().map_err(|e| e.to_string())?)),
                    _ => Err("int".into()),
                },
                "f" => match rest.first() {
                    Some(A(n)) => Ok(Variable::Float(f64::from_bits(
                        n.parse::<u64>().map_err(|e| e.to_string())?,
                    ))),
                    _ => Err("float".into()),
                },
                "b" => match rest.first() {
                    Some(A(n)) => Ok(Variable::Bool(n == "true")),
                    _ => Err("bool".into()),
                },
                "s" => match rest.first() {
                    Some(S(st)) => Ok(Variable::String(st.as_str().into())),
                    _ => Err("string".into()),
                },
                "arr" => {
                    let vs: Vec<Variable> = rest.iter().map(val_of_sexp).collect::<Result<_, _>>()?;
                    Ok(Variable::from(vs))
                }
                "tup" => {
                    let vs: Arc<[Variable]> = rest.iter().map(val_of_sexp).collect::<Result<_, _>>()?;
                    Ok(Variable::Tuple(vs))
                }
                "struct" => {
                    let mut vm: HashMap<Arc<str>, Variable> = HashMap::new();
                    for f in rest {
                        let L(kv) = f else { return Err("field".into()) };
                        let (Some(A(k)), Some(v)) = (kv.first(), kv.get(1)) else {
                            return Err("field".into());
                        };
                        vm.insert(k.as_str().into(), val_of_sexp(v)?);
                    }
                    Ok(Variable::Struct(vm.into()))
                }
                _ => Err(format!("value head {head}")),
            }
        }
        _ => Err("value".into()),
    }
}

/// canonical value text; `types` adds the stored element type of arrays and the
/// declared type of cells.  Functions and cells are numbered in order of first
/// appearance (identity), via `ids`.
pub struct Ids {
    pub funs: Vec<*const ()>,
    pub muts: Vec<*const ()>,
}

impl Ids {
    pub fn new() -> Self {
        Ids { funs: vec![], muts: vec![] }
    }
    fn id(list: &mut Vec<*const ()>, p: *const ()) -> usize {
        if let Some(i) = list.iter().position(|x| *x == p) {
            i
        } else {
            list.push(p);
            list.len() - 1
        }
    }
}

pub fn val_to_string(v: &Variable, types: bool, ids: &mut Ids, depth: usize) -> String {
    if depth > 64 {
        return "(deep)".into();
    }
    match v {
        Variable::Bool(b) => format!("(b {b})"),
        Variable::Int(i) => format!("(i {i})"),
        Variable::Float(f) => {
            if f.is_nan() {
                "(f nan)".into()
            } else {
                format!("(f {})", f.to_bits())
            }
        }
        Variable::String(s) => format!("(s {})", crate::sexp::quote(s)),
        Variable::Function(f) => {
            let id = Ids::id(&mut ids.funs, Arc::as_ptr(f) as *const ());
            if types {
                use simplesl::variable::Typed;
                format!("(fun {} {})", id, ty_to_string(&f.as_type()))
            } else {
                format!("(fun {id})")
            }
        }
        Variable::Array(a) => {
            let elems: String = a.iter().map(|x| format!(" {}", val_to_string(x, types, ids, depth + 1))).collect();
            if types {
                format!("(arrt {}{})", ty_to_string(a.element_type()), elems)
            } else {
                format!("(arr{elems})")
            }
        }
        Variable::Tuple(t) => format!(
            "(tup{})",
            t.iter().map(|x| format!(" {}", val_to_string(x, types, ids, depth + 1))).collect::<String>()
        ),
        Variable::Mut(m) => {
            let id = Ids::id(&mut ids.muts, Arc::as_ptr(m) as *const ());
            let content = match m.variable.try_read() {
                Ok(g) => val_to_string(&g, types, ids, depth + 1),
                Err(_) => "(locked)".into(),
            };
            if types {
                format!("(mut {} {} {})", id, ty_to_string(&m.var_type), content)
            } else {
                format!("(mut {id} {content})")
            }
        }
        Variable::Struct(vm) => {
            // fields are visited in key order, so that functions and cells inside them are
            // numbered independently of the map's iteration order
            let mut fields: Vec<_> = vm.iter().collect();
            fields.sort_by(|a, b| a.0.cmp(b.0));
            let l: Vec<(String, String)> = fields
                .into_iter()
                .map(|(k, x)| (k.to_string(), val_to_string(x, types, ids, depth + 1)))
                .collect();
            format!("(struct{})", l.iter().map(|(k, x)| format!(" ({k} {x})")).collect::<String>())
        }
        Variable::Void => "void".into(),
    }
}

pub fn variant_name<T: std::fmt::Debug>(e: &T) -> String {
    let s = format!("{e:?}");
    s.chars().take_while(|c| c.is_alphanumeric() || *c == '_').collect()
}

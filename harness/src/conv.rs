// S-expression <-> simplesl data; canonical printing identical to ocaml/conv.ml.
use crate::sexp::Sexp;
use simplesl::variable::{FunctionType, StructType, Type};
use std::collections::HashMap;
use std::sync::Arc;

pub fn ty_of_sexp(s: &Sexp) -> Result<Type, String> {
    use Sexp::*;
    match s {
        A(a) => match a.as_str() {
            "bool" => Ok(Type::Bool),
            "int" => Ok(Type::Int),
            "float" => Ok(Type::Float),
            "string" => Ok(Type::String),
            "void" => Ok(Type::Void),
            "any" => Ok(Type::Any),
            "never" => Ok(Type::Never),
            _ => Err(format!("type atom {a}")),
        },
        L(items) => {
            let head = match items.first() {
                Some(A(h)) => h.as_str(),
                _ => return Err("type head".into()),
            };
            let rest = &items[1..];
            match head {
                "fun" => {
                    let (Some(L(ps)), Some(r)) = (rest.first(), rest.get(1)) else {
                        return Err("fun".into());
                    };
                    let params: Arc<[Type]> =
                        ps.iter().map(ty_of_sexp).collect::<Result<_, _>>()?;
                    Ok(FunctionType {
                        params,
                        return_type: ty_of_sexp(r)?,
                    }
                    .into())
                }
                "arr" => Ok(Type::Array(ty_of_sexp(&rest[0])?.into())),
                "mut" => Ok(Type::Mut(ty_of_sexp(&rest[0])?.into())),
                "tup" => {
                    let ts: Arc<[Type]> = rest.iter().map(ty_of_sexp).collect::<Result<_, _>>()?;
                    Ok(Type::Tuple(ts))
                }
                "multi" => {
                    let mut it = rest.iter().map(ty_of_sexp);
                    let mut acc = it.next().ok_or("empty multi")??;
                    for t in it {
                        acc = acc.concat(t?);
                    }
                    Ok(acc)
                }
                "struct" => {
                    let mut tm: HashMap<Arc<str>, Type> = HashMap::new();
                    for f in rest {
                        let L(kv) = f else { return Err("field".into()) };
                        let (Some(A(k)), Some(t)) = (kv.first(), kv.get(1)) else {
                            return Err("field".into());
                        };
                        tm.insert(k.as_str().into(), ty_of_sexp(t)?);
                    }
                    Ok(Type::Struct(StructType(Arc::new(tm))))
                }
                _ => Err(format!("type head {head}")),
            }
        }
        S(_) => Err("type string".into()),
    }
}

pub fn ty_to_string(t: &Type) -> String {
    match t {
        Type::Bool => "bool".into(),
        Type::Int => "int".into(),
        Type::Float => "float".into(),
        Type::String => "string".into(),
        Type::Void => "void".into(),
        Type::Any => "any".into(),
        Type::Never => "never".into(),
        Type::Function(f) => format!(
            "(fun ({}) {})",
            f.params.iter().map(ty_to_string).collect::<Vec<_>>().join(" "),
            ty_to_string(&f.return_type)
        ),
        Type::Array(e) => format!("(arr {})", ty_to_string(e)),
        Type::Mut(e) => format!("(mut {})", ty_to_string(e)),
        Type::Tuple(ts) => format!(
            "(tup{})",
            ts.iter().map(|t| format!(" {}", ty_to_string(t))).collect::<String>()
        ),
        Type::Multi(ms) => {
            let mut l: Vec<String> = ms.iter().map(ty_to_string).collect();
            l.sort();
            l.dedup();
            format!("(multi{})", l.iter().map(|t| format!(" {t}")).collect::<String>())
        }
        Type::Struct(st) => {
            let mut l: Vec<String> = st
                .0
                .iter()
                .map(|(k, v)| format!("({} {})", k, ty_to_string(v)))
                .collect();
            l.sort();
            format!("(struct{})", l.iter().map(|t| format!(" {t}")).collect::<String>())
        }
    }
}

pub fn opt_ty(t: Option<Type>) -> String {
    t.map_or("none".into(), |t| ty_to_string(&t))
}

pub fn tys_to_string(ts: &[Type]) -> String {
    format!("({})", ts.iter().map(ty_to_string).collect::<Vec<_>>().join(" "))
}

// commands of the later lanes; extended as the model grows
use crate::sexp::Sexp;
pub fn handle(cmd: &str, _args: &[Sexp]) -> Result<String, String> {
    Err(format!("unknown command {cmd}"))
}

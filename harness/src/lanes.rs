// commands of the program-level lanes
use crate::conv::*;
use crate::sexp::Sexp;
use simplesl::variable::{ReturnType, Variable};
use simplesl::{Code, Interpreter};

fn parse(prog: &str, stdlib: bool) -> Result<Code, String> {
    let interp = if stdlib { Interpreter::with_stdlib() } else { Interpreter::without_stdlib() };
    Code::parse(&interp, prog).map_err(|e| format!("reject {}", variant_name(&e)))
}

fn show(res: Result<Variable, simplesl::ExecError>, types: bool) -> String {
    match res {
        Ok(v) => format!("ok {}", val_to_string(&v, types, &mut Ids::new(), 0)),
        Err(e) => format!("err {}", variant_name(&e)),
    }
}

pub fn handle(cmd: &str, args: &[Sexp]) -> Result<String, String> {
    use Sexp::*;
    match (cmd, args) {
        // (run "program") : parse with stdlib, exec; value without hidden types
        ("run", [S(p)]) | ("run-t", [S(p)]) => {
            let code = match parse(p, true) {
                Ok(c) => c,
                Err(e) => return Ok(e),
            };
            Ok(show(code.exec(), cmd == "run-t"))
        }
        // (run-ty "program") : static type then result
        ("run-ty", [S(p)]) => {
            let code = match parse(p, true) {
                Ok(c) => c,
                Err(e) => return Ok(e),
            };
            let t = ty_to_string(&code.return_type());
            Ok(format!("{} :: {}", show(code.exec(), true), t))
        }
        // (call "program yielding a function" v1 v2 ..) : host call through create_call
        ("call", [S(p), vals @ ..]) | ("call-t", [S(p), vals @ ..]) => {
            let code = match parse(p, true) {
                Ok(c) => c,
                Err(e) => return Ok(e),
            };
            let f = match code.exec() {
                Ok(Variable::Function(f)) => f,
                Ok(_) => return Err("not a function".into()),
                Err(e) => return Ok(format!("err {}", variant_name(&e))),
            };
            let vs: Vec<Variable> = vals.iter().map(val_of_sexp).collect::<Result<_, _>>()?;
            let call = match f.create_call(vs) {
                Ok(c) => c,
                Err(e) => return Ok(format!("reject {}", variant_name(&e))),
            };
            Ok(show(call.exec(), cmd == "call-t"))
        }
        _ => crate::plug::handle(cmd, args),
    }
}

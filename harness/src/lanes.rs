// commands of the program-level lanes
use crate::conv::*;
use crate::sexp::Sexp;
use simplesl::variable::{ReturnType, Variable};
use simplesl::{Code, Interpreter};

fn parse(prog: &str, stdlib: bool) -> Result<Code, String> {
    let interp = if stdlib { Interpreter::with_stdlib() } else { Interpreter::without_stdlib() };
    Code::parse(&interp, prog).map_err(|e| format!("reject {}", variant_name(&e)))
}

fn show(res: Result<Variable, simplesl::ExecError>, types: bool) -> String {
    match res {
        Ok(v) => format!("ok {}", val_to_string(&v, types, &mut Ids::new(), 0)),
        Err(e) => format!("err {}", variant_name(&e)),
    }
}

pub fn handle(cmd: &str, args: &[Sexp]) -> Result<String, String> {
    use Sexp::*;
    match (cmd, args) {
        // (run "program") : parse with stdlib, exec; value without hidden types
        ("run", [S(p)]) | ("run-t", [S(p)]) => {
            let code = match parse(p, true) {
                Ok(c) => c,
                Err(e) => return Ok(e),
            };
            Ok(show(code.exec(), cmd == "run-t"))
        }
        // (run-ty "program") : static type then result
        ("run-ty", [S(p)]) => {
            let code = match parse(p, true) {
                Ok(c) => c,
                Err(e) => return Ok(e),
            };
            let t = ty_to_string(&code.return_type());
            Ok(format!("{} :: {}", show(code.exec(), true), t))
        }
        // (call "program yielding a function" v1 v2 ..) : host call through create_call
        ("call", [S(p), vals @ ..]) | ("call-t", [S(p), vals @ ..]) => {
            let code = match parse(p, true) {
                Ok(c) => c,
                Err(e) => return Ok(e),
            };
            let f = match code.exec() {
                Ok(Variable::Function(f)) => f,
                Ok(_) => return Err("not a function".into()),
                Err(e) => return Ok(format!("err {}", variant_name(&e))),
            };
            let vs: Vec<Variable> = vals.iter().map(val_of_sexp).collect::<Result<_, _>>()?;
            let call = match f.create_call(vs) {
                Ok(c) => c,
                Err(e) => return Ok(format!("reject {}", variant_name(&e))),
            };
            Ok(show(call.exec(), cmd == "call-t"))
        }
        _ => match handle2(cmd, args) {
            Some(r) => r,
            None => crate::plug::handle(cmd, args),
        },
    }
}

// ---------------- embedding API (C17), determinism helpers, threads (C16) ----------------
pub fn vars_to_string(interp: &Interpreter, names: &[String]) -> String {
    let mut ids = Ids::new();
    let mut out = Vec::new();
    for n in names {
        match interp.get_variable(n) {
            Some(v) => out.push(format!("({} {})", n, val_to_string(v, false, &mut ids, 0))),
            None => out.push(format!("({} unbound)", n)),
        }
    }
    format!("({})", out.join(" "))
}

pub fn handle2(cmd: &str, args: &[Sexp]) -> Option<Result<String, String>> {
    use Sexp::*;
    let strs = |a: &[Sexp]| -> Result<Vec<String>, String> {
        a.iter().map(|s| match s { S(x) => Ok(x.clone()), A(x) => Ok(x.clone()), _ => Err("string expected".to_string()) }).collect()
    };
    Some((|| -> Result<String, String> {
        match cmd {
            // (repl (names..) "stmt" "stmt" ..): one interpreter, parse + exec_unscoped per input (as the REPL does)
            "repl" => {
                let L(names) = &args[0] else { return Err("names".into()) };
                let names = strs(names)?;
                let inputs = strs(&args[1..])?;
                let mut interp = Interpreter::with_stdlib();
                let mut out = Vec::new();
                for inp in inputs {
                    let r = match Code::parse(&interp, &inp) {
                        Err(e) => format!("reject {}", variant_name(&e)),
                        Ok(code) => show(code.exec_unscoped(&mut interp), false),
                    };
                    out.push(format!("[{} {}]", r, vars_to_string(&interp, &names)));
                }
                Ok(out.join(" "))
            }
            // (batch (names..) "program"): parse whole, exec_unscoped on a fresh interpreter
            "batch" => {
                let L(names) = &args[0] else { return Err("names".into()) };
                let names = strs(names)?;
                let S(p) = &args[1] else { return Err("program".into()) };
                let parse_interp = Interpreter::with_stdlib();
                let code = match Code::parse(&parse_interp, p) {
                    Ok(c) => c,
                    Err(e) => return Ok(format!("reject {}", variant_name(&e))),
                };
                let mut interp = Interpreter::with_stdlib();
                let r = show(code.exec_unscoped(&mut interp), false);
                Ok(format!("[{} {}]", r, vars_to_string(&interp, &names)))
            }
            // (host-call-unscoped (names..) "prelude" fname v1 v2 ..): a host interpreter runs the prelude
            // unscoped (defining fname and the observed names), then the host calls fname through
            // Function::create_call(..).exec_unscoped(&mut host): result and the observed names afterwards
            "host-call-unscoped" => {
                let L(names) = &args[0] else { return Err("names".into()) };
                let names = strs(names)?;
                let S(p) = &args[1] else { return Err("prelude".into()) };
                let (A(fname) | S(fname)) = &args[2] else { return Err("function name".into()) };
                let mut interp = Interpreter::with_stdlib();
                let code = match Code::parse(&interp, p) {
                    Ok(c) => c,
                    Err(e) => return Ok(format!("reject {}", variant_name(&e))),
                };
                if let Err(e) = code.exec_unscoped(&mut interp) {
                    return Ok(format!("err {}", variant_name(&e)));
                }
                let before = vars_to_string(&interp, &names);
                let Some(Variable::Function(f)) = interp.get_variable(fname).cloned() else { return Err("not a function".into()) };
                let vs: Vec<Variable> = args[3..].iter().map(val_of_sexp).collect::<Result<_, _>>()?;
                let call = match f.create_call(vs) {
                    Ok(c) => c,
                    Err(e) => return Ok(format!("reject {}", variant_name(&e))),
                };
                let r = show(call.exec_unscoped(&mut interp), false);
                Ok(format!("{} || before {} || after {}", r, before, vars_to_string(&interp, &names)))
            }
            // (exec-twice "program"): exec is repeatable and does not touch the parse interpreter
            "exec-twice" => {
                let S(p) = &args[0] else { return Err("program".into()) };
                let mut parse_interp = Interpreter::with_stdlib();
                parse_interp.insert("probe".into(), Variable::Int(41));
                let code = match Code::parse(&parse_interp, p) {
                    Ok(c) => c,
                    Err(e) => return Ok(format!("reject {}", variant_name(&e))),
                };
                let a = show(code.exec(), false);
                let b = show(code.exec(), false);
                let probe_ok = matches!(parse_interp.get_variable("probe"), Some(Variable::Int(41)));
                let leaked = parse_interp.get_variable("leak").is_some();
                Ok(format!("{} || {} || probe={} leaked={}", a, b, probe_ok, leaked))
            }
            // (exec-threads T K "program"): ONE parsed Code executed K times by each of T threads and twice
            // sequentially before; prints every distinct result (the runs share nothing: all must be equal)
            "exec-threads" => {
                let (A(t), A(k), S(p)) = (&args[0], &args[1], &args[2]) else { return Err("exec-threads args".into()) };
                let (t, k): (usize, usize) = (t.parse().map_err(|_| "T")?, k.parse().map_err(|_| "K")?);
                let interp = Interpreter::with_stdlib();
                let code = match Code::parse(&interp, p) {
                    Ok(c) => std::sync::Arc::new(c),
                    Err(e) => return Ok(format!("reject {}", variant_name(&e))),
                };
                let first = show(code.exec(), false);
                let second = show(code.exec(), false);
                let mut seen: std::collections::BTreeSet<String> = std::collections::BTreeSet::new();
                seen.insert(second.clone());
                let handles: Vec<_> = (0..t).map(|_| {
                    let code = code.clone();
                    std::thread::spawn(move || {
                        let mut mine = std::collections::BTreeSet::new();
                        for _ in 0..k {
                            mine.insert(match std::panic::catch_unwind(std::panic::AssertUnwindSafe(|| show(code.exec(), false))) {
                                Ok(s) => s,
                                Err(_) => "(!panic)".to_string(),
                            });
                        }
                        mine
                    })
                }).collect();
                for h in handles {
                    match h.join() {
                        Ok(m) => seen.extend(m),
                        Err(_) => { seen.insert("(!panic)".into()); }
                    }
                }
                Ok(format!("first {} || others {}", first, seen.into_iter().collect::<Vec<_>>().join(" | ")))
            }
            // (threads T K "program yielding (f, cell..)"): call f from T threads K times each
            "threads" => {
                let (A(t), A(k), S(p)) = (&args[0], &args[1], &args[2]) else { return Err("threads args".into()) };
                let t: usize = t.parse().map_err(|_| "T")?;
                let k: usize = k.parse().map_err(|_| "K")?;
                let code = match parse(p, true) { Ok(c) => c, Err(e) => return Ok(e) };
                let v = match code.exec() { Ok(v) => v, Err(e) => return Ok(format!("err {}", variant_name(&e))) };
                let Variable::Tuple(parts) = &v else { return Err("program must yield (f, observed..)".into()) };
                let Variable::Function(f) = &parts[0] else { return Err("first component must be a function".into()) };
                let mut handles = Vec::new();
                for ti in 0..t {
                    let f = f.clone();
                    handles.push(std::thread::spawn(move || {
                        let mut outs = Vec::new();
                        for _ in 0..k {
                            let call = f.clone().create_call(vec![Variable::Int(ti as i64)]);
                            let r = match call { Ok(c) => show(c.exec(), false), Err(e) => format!("reject {}", variant_name(&e)) };
                            outs.push(r);
                        }
                        outs
                    }));
                }
                let mut per_thread = Vec::new();
                for h in handles {
                    match h.join() {
                        Ok(o) => per_thread.push(format!("({})", o.last().cloned().unwrap_or_default())),
                        Err(_) => per_thread.push("(!panic)".into()),
                    }
                }
                let mut ids = Ids::new();
                let observed: Vec<String> = parts[1..].iter().map(|x| val_to_string(x, false, &mut ids, 0)).collect();
                Ok(format!("threads {} || observed {}", per_thread.join(" "), observed.join(" ")))
            }
            _ => Err("\u{0}nocmd".into()),
        }
    })())
    .and_then(|r| match r { Err(e) if e == "\u{0}nocmd" => None, other => Some(other) })
}

// Minimal S-expressions shared with ocaml/sexp.ml.
#[derive(Debug, Clone, PartialEq)]
pub enum Sexp {
    A(String),
    S(String),
    L(Vec<Sexp>),
}

pub fn parse(s: &str) -> Result<Sexp, String> {
    let chars: Vec<char> = s.chars().collect();
    let mut pos = 0usize;
    let v = value(&chars, &mut pos)?;
    skip(&chars, &mut pos);
    if pos != chars.len() {
        return Err("trailing".into());
    }
    Ok(v)
}

fn skip(c: &[char], pos: &mut usize) {
    while *pos < c.len() && matches!(c[*pos], ' ' | '\t' | '\n' | '\r') {
        *pos += 1;
    }
}

fn value(c: &[char], pos: &mut usize) -> Result<Sexp, String> {
    skip(c, pos);
    if *pos >= c.len() {
        return Err("eof".into());
    }
    match c[*pos] {
        '(' => {
            *pos += 1;
            let mut items = Vec::new();
            loop {
                skip(c, pos);
                if *pos >= c.len() {
                    return Err("unclosed".into());
                }
                if c[*pos] == ')' {
                    *pos += 1;
                    break;
                }
                items.push(value(c, pos)?);
            }
            Ok(Sexp::L(items))
        }
        ')' => Err("unexpected )".into()),
        '"' => {
            *pos += 1;
            let mut out = String::new();
            loop {
                if *pos >= c.len() {
                    return Err("unclosed string".into());
                }
                let ch = c[*pos];
                *pos += 1;
                match ch {
                    '"' => break,
                    '\\' => {
                        let e = *c.get(*pos).ok_or("bad escape")?;
                        *pos += 1;
                        match e {
                            'n' => out.push('\n'),
                            't' => out.push('\t'),
                            'r' => out.push('\r'),
                            'u' => {
                                if c.get(*pos) != Some(&'{') {
                                    return Err("bad \\u".into());
                                }
                                *pos += 1;
                                let mut hex = String::new();
                                while *pos < c.len() && c[*pos] != '}' {
                                    hex.push(c[*pos]);
                                    *pos += 1;
                                }
                                *pos += 1;
                                let cp = u32::from_str_radix(&hex, 16).map_err(|e| e.to_string())?;
                                out.push(char::from_u32(cp).ok_or("bad code point")?);
                            }
                            other => out.push(other),
                        }
                    }
                    other => out.push(other),
                }
            }
            Ok(Sexp::S(out))
        }
        _ => {
            let st = *pos;
            while *pos < c.len() && !matches!(c[*pos], ' ' | '\t' | '\n' | '\r' | '(' | ')' | '"') {
                *pos += 1;
            }
            Ok(Sexp::A(c[st..*pos].iter().collect()))
        }
    }
}

pub fn quote(s: &str) -> String {
    let mut out = String::from("\"");
    for ch in s.chars() {
        let c = ch as u32;
        if c == 34 {
            out.push_str("\\\"");
        } else if c == 92 {
            out.push_str("\\\\");
        } else if (32..127).contains(&c) {
            out.push(ch);
        } else {
            out.push_str(&format!("\\u{{{:x}}}", c));
        }
    }
    out.push('"');
    out
}

(* Seq.v — indexing, slicing, len (M6): src/instruction/at.rs, slicing.rs,
   slyce::Slice::indices (i128 arithmetic = unbounded Z), stdlib::len. *)
From SSL.Model Require Import Base Ty Float Value.
Local Open Scope Z_scope.

Definition zlen {A} (l : list A) : Z := Z.of_nat (length l).

(* stdlib::len — arrays by elements, strings by Unicode scalar values *)
Definition len_exec (v : value) : outcome Z :=
  match v with
  | VArr _ vs => Ok (zlen vs)
  | VString s => Ok (zlen s)
  | _ => Panic
  end.

(* at::exec *)
Definition at_index (n i : Z) : option nat :=
  if 0 <=? i then (if i <? n then Some (Z.to_nat i) else None)
  else (if 0 <=? n + i then Some (Z.to_nat (n + i)) else None).

Definition at_exec (v : value) (index : value) : outcome value :=
  match index with
  | VInt i =>
      match v with
      | VString s =>
          match at_index (zlen s) i with
          | Some k => match nth_error s k with Some c => Ok (VString [c]) | None => Err E_IndexOutOfBounds end
          | None => Err E_IndexOutOfBounds
          end
      | VArr _ vs =>
          match at_index (zlen vs) i with
          | Some k => match nth_error vs k with Some x => Ok x | None => Err E_IndexOutOfBounds end
          | None => Err E_IndexOutOfBounds
          end
      | _ => Panic
      end
  | _ => Panic
  end.

(* ---- slyce ---- *)
Definition clampZ (n lo hi : Z) : Z := Z.min (Z.max n lo) hi.

(* Index::from(isize) followed by to_bound *)
Definition slyce_bound (len lo hi : Z) (i : option Z) (def : Z) : Z :=
  match i with
  | None => def
  | Some i => clampZ (if i <? 0 then len + i else i) lo hi
  end.

Fixpoint slyce_iter (fuel : nat) (i e st : Z) : list Z :=
  match fuel with
  | O => []
  | S f =>
      if (if 0 <=? st then i <? e else e <? i)
      then i :: slyce_iter f (i + st) e st
      else []
  end.

(* Slice::indices(len).collect(); the iterator yields at most len items, so fuel
   len+1 never cuts it short (slyce_iter_fuel_enough) *)
Definition slyce_indices (len : Z) (start stop step : option Z) : list Z :=
  let st := match step with None => 1 | Some s => s end in
  if st =? 0 then [] else
  let def_start := if 0 <=? st then 0 else len - 1 in
  let def_end := if 0 <=? st then len else -1 in
  let lo := if 0 <=? st then def_start else def_end in
  let hi := if 0 <=? st then def_end else def_start in
  slyce_iter (S (Z.to_nat len))
             (slyce_bound len lo hi start def_start)
             (slyce_bound len lo hi stop def_end) st.

(* ---- reference: CPython's PySlice_AdjustIndices + range ---- *)
Definition py_adjust (len step : Z) (i : Z) : Z :=
  if i <? 0 then
    (let j := i + len in if j <? 0 then (if step <? 0 then -1 else 0) else j)
  else if len <=? i then (if step <? 0 then len - 1 else len)
  else i.

Definition py_slice (len : Z) (start stop step : option Z) : list Z :=
  let st := match step with None => 1 | Some s => s end in
  if st =? 0 then [] else
  let s0 := match start with
            | None => if st <? 0 then len - 1 else 0
            | Some i => py_adjust len st i end in
  let e0 := match stop with
            | None => if st <? 0 then -1 else len
            | Some i => py_adjust len st i end in
  let count :=
    if st <? 0 then (if e0 <? s0 then (s0 - e0 - 1) / (- st) + 1 else 0)
    else (if s0 <? e0 then (e0 - s0 - 1) / st + 1 else 0) in
  map (fun k => s0 + Z.of_nat k * st) (seq 0 (Z.to_nat count)).

Definition select {A} (l : list A) (idx : list Z) : option (list A) :=
  fold_right (fun i acc => match nth_error l (Z.to_nat i), acc with
                           | Some x, Some r => if 0 <=? i then Some (x :: r) else None
                           | _, _ => None end) (Some []) idx.

Definition opt_int (v : option value) : outcome (option Z) :=
  match v with
  | None => Ok None
  | Some (VInt i) => Ok (Some i)
  | Some _ => Panic
  end.

(* Slicing::exec on already evaluated operands *)
Definition slice_exec (v : value) (start stop step : option value) : outcome value :=
  obind (opt_int start) (fun a =>
  obind (opt_int stop) (fun b =>
  obind (opt_int step) (fun c =>
  match v with
  | VString s =>
      match select s (slyce_indices (zlen s) a b c) with
      | Some r => Ok (VString r) | None => Panic end
  | VArr _ vs =>
      match select vs (slyce_indices (zlen vs) a b c) with
      | Some r => Ok (arr_of r) | None => Panic end
  | _ => Panic
  end))).

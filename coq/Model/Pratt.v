(* Pratt.v — model of pest's Pratt parser (pest 2.7.14, src/pratt_parser.rs), definitions only.

   pest                                         here
   ------------------------------------------   -------------------------------------------
   Affix::{Prefix, Postfix, Infix(Left|Right)}  affix
   PrattParser { prec, ops: BTreeMap<R,(Affix,Prec)> }   info : O -> option (affix * nat)
                                                (instance: table, an association list)
   PrattParser::new()  (prec = PREC_STEP)       table_of_levels: the counter starts at PREC_STEP
   .op(a | b | ..)     (prec += PREC_STEP; insert every operand with that prec)
                                                one inner list of [pratt_levels]
   PrattParserMap::parse(pairs) = expr(pairs,0) pratt_run / pratt_parse
   expr(pairs, rbp): lhs = nud; while rbp < lbp(peek) { lhs = led(lhs) }      pexpr / ploop
   nud: next pair; Prefix p => expr(p - 1); not in ops => primary; else panic   pexpr
   led: next pair; Infix(Left) p => expr(p); Infix(Right) p => expr(p - 1);
        Postfix => apply; else panic                                            ploop
   lbp: peek: None => 0; in ops => its prec (whatever the affix); else panic    ploop

   The model is generic in the payloads: atoms carry an [A], operator tokens an [O] (e.g. parse
   tree nodes), and [info] gives the table entry of an operator token (by whatever key the
   instantiation wants, e.g. the rule of the token).  The instance used for SimpleSL's table is
   at the end of the file: A = O = N (rule numbers), info = lookup in a [table].

   Tokens: [TAtom a] is a pair whose rule is not in the table (a primary), [TOp o] a pair whose
   rule is an operator.  ([TOp o] with [info o = None] does not arise — the grammar only produces
   operator rules that the table lists, theorem C14.pratt_covers_grammar — and is answered with
   [Panic] here; pest would treat it as a primary in nud and panic in lbp.)

   Results use Base.outcome: [Panic] for pest's panics, [OutOfFuel] for the model's own fuel
   (never confused with success; PrattLemmas.pratt_never_out_of_fuel).  pest's parse ignores
   pairs left over when the loop stops at rbp = 0; that only happens in front of an operator of
   precedence 0, which no table built with .op() contains (precedences start at 2 * PREC_STEP):
   [pratt_parse] answers [None] in that case, and PrattLemmas.pratt_run_consumes_all shows it never
   happens when all precedences are positive.  [p - 1] is truncated subtraction; pest's u32
   subtraction would overflow for p = 0, again excluded by positive precedences. *)
From SSL.Model Require Import Base.
From Coq Require Import NArith.

Inductive affix := Prefix | Postfix | InfixL | InfixR.

Section Pratt.
Variables A O : Type.
Variable info : O -> option (affix * nat).

Inductive tok := TAtom (a : A) | TOp (o : O).

Inductive ptree :=
| PAtom (a : A)
| PPre (o : O) (t : ptree)
| PPost (o : O) (t : ptree)
| PIn (o : O) (l r : ptree).

(* ---- the algorithm ---- *)
Definition pratt_res := outcome (ptree * list tok).

Fixpoint pexpr (fuel : nat) (rbp : nat) (toks : list tok) {struct fuel} : pratt_res :=
  match toks with
  | [] => Panic                                 (* "Pratt parsing expects non-empty Pairs" *)
  | tk :: rest =>
    match fuel with
    | 0 => OutOfFuel
    | S f =>
      match tk with
      | TAtom a => ploop f rbp (PAtom a) rest
      | TOp o =>
        match info o with
        | Some (Prefix, p) =>
          match pexpr f (p - 1) rest with
          | Ok (rhs, rest') => ploop f rbp (PPre o rhs) rest'
          | Err e => Err e | Panic => Panic | OutOfFuel => OutOfFuel
          end
        | _ => Panic                            (* "Expected prefix or primary expression" *)
        end
      end
    end
  end
with ploop (fuel : nat) (rbp : nat) (lhs : ptree) (toks : list tok) {struct fuel} : pratt_res :=
  match toks with
  | [] => Ok (lhs, [])                          (* lbp = 0 *)
  | TAtom _ :: _ => Panic                       (* "Expected operator" *)
  | TOp o :: rest =>
    match info o with
    | None => Panic
    | Some (af, p) =>
      if rbp <? p then
        match fuel with
        | 0 => OutOfFuel
        | S f =>
          match af with
          | InfixL =>
            match pexpr f p rest with
            | Ok (rhs, rest') => ploop f rbp (PIn o lhs rhs) rest'
            | Err e => Err e | Panic => Panic | OutOfFuel => OutOfFuel
            end
          | InfixR =>
            match pexpr f (p - 1) rest with
            | Ok (rhs, rest') => ploop f rbp (PIn o lhs rhs) rest'
            | Err e => Err e | Panic => Panic | OutOfFuel => OutOfFuel
            end
          | Postfix => ploop f rbp (PPost o lhs) rest
          | Prefix => Panic                     (* "Expected postfix or infix expression" *)
          end
        end
      else Ok (lhs, toks)
    end
  end.

Definition pratt_run (toks : list tok) : pratt_res := pexpr (length toks) 0 toks.

Definition pratt_parse (toks : list tok) : option ptree :=
  match pratt_run toks with
  | Ok (t, []) => Some t
  | _ => None
  end.

(* ---- vocabulary of the theorems ---- *)
Fixpoint yield (t : ptree) : list tok :=
  match t with
  | PAtom a => [TAtom a]
  | PPre o t => TOp o :: yield t
  | PPost o t => yield t ++ [TOp o]
  | PIn o l r => yield l ++ TOp o :: yield r
  end.

(* binding powers: prec_of (pest's lbp) = how strongly an infix/postfix operator pulls the operand
   on its left, rbp_of = how strongly a prefix/infix operator holds the operand on its right *)
Definition prec_of (o : O) : nat :=
  match info o with Some (_, p) => p | None => 0 end.

Definition rbp_of (o : O) : nat :=
  match info o with
  | Some (InfixL, p) => p
  | Some (InfixR, p) => p - 1
  | Some (Prefix, p) => p - 1
  | _ => 0
  end.

Definition affix_of (o : O) : option affix :=
  match info o with Some (a, _) => Some a | None => None end.

Definition is_infix (o : O) : bool :=
  match affix_of o with Some InfixL | Some InfixR => true | _ => false end.
Definition is_prefix (o : O) : bool :=
  match affix_of o with Some Prefix => true | _ => false end.
Definition is_postfix (o : O) : bool :=
  match affix_of o with Some Postfix => true | _ => false end.

(* every operator on the left edge of [t] (infix and postfix nodes whose left operand reaches
   the first token of [t]) pulls harder than [k] *)
Fixpoint lspine_gt (k : nat) (t : ptree) : Prop :=
  match t with
  | PIn o l _ => k < prec_of o /\ lspine_gt k l
  | PPost o l => k < prec_of o /\ lspine_gt k l
  | _ => True
  end.

(* every operator on the right edge of [t] (infix and prefix nodes whose right operand reaches
   the last token of [t]) holds its operand at least as hard as [k] *)
Fixpoint rspine_ge (k : nat) (t : ptree) : Prop :=
  match t with
  | PIn o _ r => k <= rbp_of o /\ rspine_ge k r
  | PPre o r => k <= rbp_of o /\ rspine_ge k r
  | _ => True
  end.

(* precedence-correct trees: at every node, no operator on the facing edge of an operand could
   have taken the node's place *)
Fixpoint wf_tree (t : ptree) : Prop :=
  match t with
  | PAtom _ => True
  | PPre o r => is_prefix o = true /\ wf_tree r /\ lspine_gt (rbp_of o) r
  | PPost o l => is_postfix o = true /\ wf_tree l /\ rspine_ge (prec_of o) l
  | PIn o l r => is_infix o = true /\ wf_tree l /\ wf_tree r /\
                 rspine_ge (prec_of o) l /\ lspine_gt (rbp_of o) r
  end.

(* well-formed token lists: OPERAND (infix OPERAND)...  where OPERAND = prefix... atom postfix... *)
Fixpoint wf_toks_from (expect_operand : bool) (toks : list tok) : bool :=
  match toks with
  | [] => negb expect_operand
  | TAtom _ :: rest => if expect_operand then wf_toks_from false rest else false
  | TOp o :: rest =>
    match affix_of o with
    | Some Prefix => if expect_operand then wf_toks_from true rest else false
    | Some Postfix => if expect_operand then false else wf_toks_from false rest
    | Some InfixL | Some InfixR => if expect_operand then false else wf_toks_from true rest
    | None => false
    end
  end.
Definition wf_toks (toks : list tok) : bool := wf_toks_from true toks.

Definition info_pos : Prop := forall o af p, info o = Some (af, p) -> 1 <= p.

(* which of two adjacent operators takes the operand between them:
   [o1] in {prefix, infix} stands left of the operand, [o2] in {infix, postfix} right of it;
   true = the left one groups first *)
Definition left_first (o1 o2 : O) : bool := prec_of o2 <=? rbp_of o1.

End Pratt.

Arguments TAtom {A O} a.
Arguments TOp {A O} o.
Arguments PAtom {A O} a.
Arguments PPre {A O} o t.
Arguments PPost {A O} o t.
Arguments PIn {A O} o l r.
Arguments pexpr {A O} info fuel rbp toks.
Arguments ploop {A O} info fuel rbp lhs toks.
Arguments pratt_run {A O} info toks.
Arguments pratt_parse {A O} info toks.
Arguments yield {A O} t.
Arguments prec_of {O} info o.
Arguments rbp_of {O} info o.
Arguments affix_of {O} info o.
Arguments is_infix {O} info o.
Arguments is_prefix {O} info o.
Arguments is_postfix {O} info o.
Arguments lspine_gt {A O} info k t.
Arguments rspine_ge {A O} info k t.
Arguments wf_tree {A O} info t.
Arguments wf_toks_from {A O} info expect_operand toks.
Arguments wf_toks {A O} info toks.
Arguments info_pos {O} info.
Arguments left_first {O} info o1 o2.

(* ================================================================================== *)
(* The instance for SimpleSL: atoms and operators are numbers (operators: the shared    *)
(* numbering of rules, Gen/GenOpMap.op_names), the table is an association list.        *)
(* ================================================================================== *)
Definition ntok := tok N N.
Definition nptree := ptree N N.

(* operator -> (affix, precedence); the first entry for an operator is the one in force
   (BTreeMap::insert overwrites: table_of_levels puts later insertions in front) *)
Definition table := list (N * (affix * nat)).

Fixpoint tlookup (tbl : table) (o : N) : option (affix * nat) :=
  match tbl with
  | [] => None
  | (o', e) :: tbl => if N.eqb o o' then Some e else tlookup tbl o
  end.

(* PrattParser::new().op(l1).op(l2)... *)
Definition PREC_STEP : nat := 10.

Definition add_level (acc : nat * table) (lv : list (N * affix)) : nat * table :=
  let prec := fst acc + PREC_STEP in
  (prec, fold_left (fun tb oa => (fst oa, (snd oa, prec)) :: tb) lv (snd acc)).

Definition table_of_levels (lvls : list (list (N * affix))) : table :=
  snd (fold_left add_level lvls (PREC_STEP, [])).

Definition table_pos (tbl : table) : Prop := info_pos (tlookup tbl).

Definition tpratt_parse (tbl : table) (toks : list ntok) : option nptree :=
  pratt_parse (tlookup tbl) toks.

Fixpoint ptree_eqb (a b : nptree) : bool :=
  match a, b with
  | PAtom x, PAtom y => N.eqb x y
  | PPre o t, PPre o' t' => N.eqb o o' && ptree_eqb t t'
  | PPost o t, PPost o' t' => N.eqb o o' && ptree_eqb t t'
  | PIn o l r, PIn o' l' r' => N.eqb o o' && ptree_eqb l l' && ptree_eqb r r'
  | _, _ => false
  end.

(* Conc.v — cells under concurrent threads (definitions only).

   A mutable cell of the language is an RwLock around a value.
     c op= v   takes the WRITE lock, reads the content, computes content op v,
               stores it, releases: ONE critical section        -> [Rmw c f]
     *c        takes the read lock for one read                 -> [Read c]
     c = v     one write section                                -> [Write c v]
   No step acquires a second lock while holding one, and no lock is held
   between steps; so a step of an unfinished thread is always enabled, and an
   execution is an interleaving of whole steps, chosen by a schedule (a list
   of thread indices).  Threads only interact through cells. *)
From Coq Require Import List ZArith Bool Arith.
Import ListNotations.

Inductive step : Type :=
| Rmw (c : nat) (f : Z -> Z)
| Read (c : nat)
| Write (c : nat) (v : Z).

Notation thread := (list step) (only parsing).
Notation cells := (list Z) (only parsing).
Notation config := (list Z * list (list step))%type (only parsing).

Definition get (c : nat) (m : cells) : Z := nth c m 0%Z.

(* total update: a store beyond the end pads with 0 (so get/upd obey the usual
   laws for every index) *)
Fixpoint upd (c : nat) (v : Z) (m : cells) : cells :=
  match c, m with
  | 0, [] => [v]
  | 0, _ :: t => v :: t
  | S c, [] => 0%Z :: upd c v []
  | S c, h :: t => h :: upd c v t
  end.

(* what an observer of the locks sees: who, which cell, which values *)
Inductive ev : Type :=
| EvRead (t c : nat) (v : Z)
| EvRmw (t c : nat) (old new : Z)
| EvWrite (t c : nat) (v : Z).

Definition ev_thread (e : ev) : nat :=
  match e with EvRead t _ _ | EvRmw t _ _ _ | EvWrite t _ _ => t end.

Definition step_cell (s : step) : nat :=
  match s with Rmw c _ | Read c | Write c _ => c end.

(* the content a step leaves in its cell, given the content it finds *)
Definition step_val (s : step) (old : Z) : Z :=
  match s with Rmw _ f => f old | Read _ => old | Write _ v => v end.

Definition step_mem (s : step) (m : cells) : cells :=
  match s with
  | Rmw c f => upd c (f (get c m)) m
  | Read _ => m
  | Write c v => upd c v m
  end.

Definition step_ev (t : nat) (s : step) (m : cells) : ev :=
  match s with
  | Rmw c f => EvRmw t c (get c m) (f (get c m))
  | Read c => EvRead t c (get c m)
  | Write c v => EvWrite t c v
  end.

Fixpoint set_nth {A} (n : nat) (x : A) (l : list A) : list A :=
  match n, l with
  | _, [] => []
  | 0, _ :: t => x :: t
  | S n, h :: t => h :: set_nth n x t
  end.

(* the scheduler picks thread t: its head step runs, atomically.  A finished
   (or non-existent) thread cannot be picked: None, the pick is skipped. *)
Definition pick (t : nat) (cfg : config) : option (config * ev) :=
  match nth_error (snd cfg) t with
  | Some (s :: rest) =>
      Some ((step_mem s (fst cfg), set_nth t rest (snd cfg)), step_ev t s (fst cfg))
  | _ => None
  end.

Fixpoint run (sched : list nat) (cfg : config) : config * list ev :=
  match sched with
  | [] => (cfg, [])
  | t :: sched =>
      match pick t cfg with
      | Some (cfg', e) => let (cfg'', es) := run sched cfg' in (cfg'', e :: es)
      | None => run sched cfg
      end
  end.

Definition finished (ths : list thread) : Prop := Forall (fun th => th = []) ths.
Definition finishedb (ths : list thread) : bool :=
  forallb (fun th => match th with [] => true | _ => false end) ths.

Definition total_steps (ths : list thread) : nat :=
  fold_right (fun th acc => length th + acc) 0 ths.

(* a schedule that names every thread at least as often as it has steps *)
Definition enough (sched : list nat) (ths : list thread) : Prop :=
  forall t, t < length ths -> length (nth t ths []) <= count_occ Nat.eq_dec sched t.

(* e.g. thread after thread *)
Fixpoint one_by_one (t : nat) (ths : list thread) : list nat :=
  match ths with
  | [] => []
  | th :: ths => repeat t (length th) ++ one_by_one (S t) ths
  end.

(* ---------- sequential reference ---------- *)
Fixpoint mem_after (th : thread) (m : cells) : cells :=
  match th with
  | [] => m
  | s :: th => mem_after th (step_mem s m)
  end.

(* the events thread t produces when it runs alone from m *)
Fixpoint seq_trace (t : nat) (th : thread) (m : cells) : list ev :=
  match th with
  | [] => []
  | s :: th => step_ev t s m :: seq_trace t th (step_mem s m)
  end.

(* all threads one after the other, in list order *)
Fixpoint mem_after_all (ths : list thread) (m : cells) : cells :=
  match ths with
  | [] => m
  | th :: ths => mem_after_all ths (mem_after th m)
  end.

Definition footprint (th : thread) : list nat := map step_cell th.
Definition disjoint (a b : thread) : Prop :=
  forall c, In c (footprint a) -> In c (footprint b) -> False.
Fixpoint pairwise_disjoint (ths : list thread) : Prop :=
  match ths with
  | [] => True
  | th :: ths => Forall (disjoint th) ths /\ pairwise_disjoint ths
  end.

Definition cells_eq (m m' : cells) : Prop := forall c, get c m = get c m'.

(* the events of thread t, in order *)
Definition proj (t : nat) (tr : list ev) : list ev :=
  filter (fun e => Nat.eqb (ev_thread e) t) tr.

(* ---------- linear history ---------- *)
Definition apply_ev (e : ev) (m : cells) : cells :=
  match e with
  | EvRead _ _ _ => m
  | EvRmw _ c _ new => upd c new m
  | EvWrite _ c v => upd c v m
  end.

Fixpoint replay (m : cells) (tr : list ev) : cells :=
  match tr with
  | [] => m
  | e :: tr => replay (apply_ev e m) tr
  end.

(* a trace is a legal sequential history of the cells from m: every read, and
   the read half of every read-modify-write, returns the content at that point *)
Fixpoint legal (m : cells) (tr : list ev) : Prop :=
  match tr with
  | [] => True
  | e :: tr =>
      match e with
      | EvRead _ c v => v = get c m
      | EvRmw _ c old _ => old = get c m
      | EvWrite _ _ _ => True
      end /\ legal (apply_ev e m) tr
  end.

(* ---------- updates that only add ---------- *)
Definition step_delta (s : step) : Z :=
  match s with Rmw _ f => f 0%Z | _ => 0%Z end.

Definition add_only (c : nat) (s : step) : Prop :=
  match s with
  | Rmw c' f => c' = c /\ forall x, f x = (x + f 0)%Z
  | _ => False
  end.

Definition thread_delta (th : thread) : Z :=
  fold_right (fun s acc => (step_delta s + acc)%Z) 0%Z th.
Definition total_delta (ths : list thread) : Z :=
  fold_right (fun th acc => (thread_delta th + acc)%Z) 0%Z ths.

Definition incr (c : nat) : step := Rmw c (fun x => (x + 1)%Z).

(* ---------- the BROKEN discipline: read and write in separate sections ----- *)
(* an increment is: load the cell into a thread-local register (read lock,
   released), then store register + 1 (write lock) *)
Inductive bstep : Type :=
| BLoad (c : nat)
| BStoreInc (c : nat).

Notation bthread := (Z * list bstep)%type (only parsing).   (* register, rest of the code *)

Definition bpick (t : nat) (cfg : cells * list bthread) : option (cells * list bthread) :=
  match nth_error (snd cfg) t with
  | Some (reg, s :: rest) =>
      match s with
      | BLoad c => Some (fst cfg, set_nth t (get c (fst cfg), rest) (snd cfg))
      | BStoreInc c => Some (upd c (reg + 1)%Z (fst cfg), set_nth t (reg, rest) (snd cfg))
      end
  | _ => None
  end.

Fixpoint brun (sched : list nat) (cfg : cells * list bthread) : cells * list bthread :=
  match sched with
  | [] => cfg
  | t :: sched =>
      match bpick t cfg with
      | Some cfg' => brun sched cfg'
      | None => brun sched cfg
      end
  end.

Definition split_incr (c : nat) : list bstep := [BLoad c; BStoreInc c].

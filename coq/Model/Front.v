(* Front.v — from pest's token tree to the checker's input (definitions only).

   Transcribes the parts of the interpreter that *read* the parse tree:
     src/variable/type.rs           impl From<Pair> for Type        -> [ty_of_tree]
       (+ function_type.rs, struct_type.rs)
     src/function/param.rs          impl From<Pair> for Param       -> [param_of_tree]
     src/variable.rs                impl TryFrom<Pair> for Variable -> [value_of_tree]
                                    impl FromStr for Variable       -> [parse_value_str]
                                    (unescaper 0.1.5 ::unescape     -> [unescape])
     src/variable/type.rs           impl FromStr for Type           -> [parse_type_str]
     pest 2.7.14 pratt_parser.rs    PrattParserMap::parse           -> [pratt_parse]
     parser/src/lib.rs              PRATT_PARSER                    -> [pratt_table]
     src/instruction.rs             InstructionWithStr::new / new_expression /
                                    create_primary, Instruction::new
     src/instruction/**             which children every create_instruction pops
                                                                    -> [fx_expr] [fx_primary] [fx_stm] [fx_line] [fx_arm]
     src/code.rs                    Code::parse (the parsing half)  -> [parse_program]

   The code creates *and checks* an instruction while it walks the tree; the model
   splits this in two: Front builds the surface AST of Check.v, Check.check_lines does
   the checking.  Conventions:
   - [Panic]: the code panics on this tree ([inner.next().unwrap()] without a child,
     [unexpected!(rule)], [unreachable!()], pest's "Expected ..." panics).
   - An [Error] the code returns while reading the tree ([IntegerOverflow],
     [CannotBeParsed], [CannotUnescapeString], and everything `import` can return) is a
     rejection.  With [eager = true] it is [Err E_Reject] on the spot.  With
     [eager = false] (what the drivers use) it is *deferred*: the place of the faulty
     literal is taken by [front_reject_x], an expression Check rejects whenever it gets
     to it, so the rejection happens at the same point of the left-to-right creation
     order as in the code (after everything the code creates and checks before it).
   - [OutOfFuel] only from the PEG model or when the fuel of the tree walk runs out
     (never with the fuel [parse_program] supplies). *)
From SSL.Model Require Import Base Ty Float Value Ops Syntax Peg Check.
From SSL.Gen Require Import GenGrammar.
Local Open Scope Z_scope.

Definition E_Reject : Z := 100.   (* = Check.E_Reject *)

(* ------------------------------------------------------------------ generic helpers *)

Fixpoint omap {A B} (f : A -> outcome B) (l : list A) : outcome (list B) :=
  match l with
  | [] => Ok []
  | x :: l => obind (f x) (fun y => obind (omap f l) (fun ys => Ok (y :: ys)))
  end.

Definition t_rule (t : tree) : N := match t with Node r _ _ _ => r end.
Definition t_kids (t : tree) : list tree := match t with Node _ _ _ k => k end.
Definition is_rule (r : N) (t : tree) : bool := N.eqb (t_rule t) r.

(* Pair::as_str *)
Definition text_of (input : list Z) (t : tree) : list Z :=
  match t with Node _ s e _ => firstn (e - s)%nat (skipn s input) end.

Fixpoint tree_size (t : tree) : nat :=
  match t with
  | Node _ _ _ kids =>
      S ((fix go (l : list tree) : nat :=
            match l with [] => O | x :: l => (tree_size x + go l)%nat end) kids)
  end.
Definition forest_size (l : list tree) : nat := fold_right (fun t n => (tree_size t + n)%nat) O l.

(* str::replace([' ', '_'], "") *)
Definition strip_sp_us (s : list Z) : list Z :=
  filter (fun c => negb (Z.eqb c 32 || Z.eqb c 95)) s.

(* ------------------------------------------------------------------ integers (core::num) *)

(* char::to_digit(radix), radix <= 36 *)
Definition digit_val (radix c : Z) : option Z :=
  let d := if (48 <=? c) && (c <=? 57) then Some (c - 48)
           else if (97 <=? c) && (c <=? 122) then Some (c - 97 + 10)
           else if (65 <=? c) && (c <=? 90) then Some (c - 65 + 10)
           else None in
  match d with
  | Some v => if v <? radix then Some v else None
  | None => None
  end.

Fixpoint digits_val (radix : Z) (l : list Z) (acc : Z) : option Z :=
  match l with
  | [] => Some acc
  | c :: l => match digit_val radix c with
              | Some d => digits_val radix l (acc * radix + d)
              | None => None
              end
  end.

(* <int>::from_str_radix: optional sign ('-' only for signed types), at least one digit,
   every character a digit of the radix, result within [lo, hi]; None = Err(ParseIntError) *)
Definition int_from_str_radix (signed : bool) (lo hi radix : Z) (s : list Z) : option Z :=
  match s with
  | [] => None
  | [c] => if Z.eqb c 43 || Z.eqb c 45 then None
           else match digit_val radix c with
                | Some v => if (lo <=? v) && (v <=? hi) then Some v else None
                | None => None
                end
  | c :: rest =>
      let '(neg, ds) := if Z.eqb c 43 then (false, rest)
                        else if Z.eqb c 45 && signed then (true, rest)
                        else (false, s) in
      match digits_val radix ds 0 with
      | None => None
      | Some v => let v := if neg then - v else v in
                  if (lo <=? v) && (v <=? hi) then Some v else None
      end
  end.

Definition i64_from_str_radix (radix : Z) (s : list Z) : option Z :=
  int_from_str_radix true MIN_INT MAX_INT radix s.
Definition u32_from_str_radix (radix : Z) (s : list Z) : option Z :=
  int_from_str_radix false 0 4294967295 radix s.
Definition u8_from_str_radix (radix : Z) (s : list Z) : option Z :=
  int_from_str_radix false 0 255 radix s.

(* char::from_u32 *)
Definition char_from_u32 (v : Z) : option Z :=
  if (v <=? 1114111) && negb ((55296 <=? v) && (v <=? 57343)) then Some v else None.

(* ------------------------------------------------------------------ unescaper::unescape *)

Definition is_octal_digit (c : Z) : bool := (48 <=? c) && (c <=? 55).

(* characters up to (and consuming) the first '}' — or all of them if there is none *)
Fixpoint take_until_brace (l : list Z) (acc : list Z) : list Z * list Z :=
  match l with
  | [] => (rev acc, [])
  | c :: l => if Z.eqb c 125 then (rev acc, l) else take_until_brace l (c :: acc)
  end.

(* try_push_next: take the next character if it is an octal digit *)
Definition try_push_octal (oct rest : list Z) : list Z * list Z :=
  match rest with
  | c :: rest' => if is_octal_digit c then (oct ++ [c], rest') else (oct, rest)
  | [] => (oct, rest)
  end.

Fixpoint unescape_f (fuel : nat) (l : list Z) (acc : list Z) : option (list Z) :=
  match fuel with
  | O => None
  | S fuel =>
    match l with
    | [] => Some (rev acc)
    | c :: l =>
      if negb (Z.eqb c 92) then unescape_f fuel l (c :: acc)
      else
        match l with
        | [] => None                                        (* IncompleteStr *)
        | e :: l =>
          if Z.eqb e 98 then unescape_f fuel l (8 :: acc)         (* \b *)
          else if Z.eqb e 102 then unescape_f fuel l (12 :: acc)  (* \f *)
          else if Z.eqb e 110 then unescape_f fuel l (10 :: acc)  (* \n *)
          else if Z.eqb e 114 then unescape_f fuel l (13 :: acc)  (* \r *)
          else if Z.eqb e 116 then unescape_f fuel l (9 :: acc)   (* \t *)
          else if Z.eqb e 39 || Z.eqb e 34 || Z.eqb e 92 || Z.eqb e 47
          then unescape_f fuel l (e :: acc)                        (* quote, double quote, backslash, slash: themselves *)
          else if Z.eqb e 117 then                                 (* \u *)
            match l with
            | [] => None                                           (* IncompleteStr *)
            | c1 :: l1 =>
              if Z.eqb c1 123 then
                let '(hex, rest) := take_until_brace l1 [] in
                match u32_from_str_radix 16 hex with
                | None => None
                | Some v => match char_from_u32 v with
                            | Some ch => unescape_f fuel rest (ch :: acc)
                            | None => None
                            end
                end
              else
                match l1 with
                | c2 :: c3 :: c4 :: rest =>
                    match u32_from_str_radix 16 [c1; c2; c3; c4] with
                    | None => None
                    | Some v => match char_from_u32 v with
                                | Some ch => unescape_f fuel rest (ch :: acc)
                                | None => None
                                end
                    end
                | _ => None                                        (* IncompleteStr *)
                end
            end
          else if Z.eqb e 120 then                                 (* \x *)
            match l with
            | c1 :: c2 :: rest =>
                match u8_from_str_radix 16 [c1; c2] with
                | Some v => unescape_f fuel rest (v :: acc)
                | None => None
                end
            | _ => None                                            (* IncompleteStr *)
            end
          else if (48 <=? e) && (e <=? 51) then                    (* \0..\3 + up to two octal digits *)
            let '(o1, r1) := try_push_octal [e] l in
            let '(o2, r2) := try_push_octal o1 r1 in
            match u8_from_str_radix 8 o2 with
            | Some v => unescape_f fuel r2 (v :: acc)
            | None => None
            end
          else if (52 <=? e) && (e <=? 55) then                    (* \4..\7 + up to one octal digit *)
            let '(o1, r1) := try_push_octal [e] l in
            match u8_from_str_radix 8 o1 with
            | Some v => unescape_f fuel r1 (v :: acc)
            | None => None
            end
          else None                                                (* InvalidChar *)
        end
    end
  end.

Definition unescape (s : list Z) : option (list Z) := unescape_f (S (length s)) s [].

(* ------------------------------------------------------------------ str::parse::<f64> (syntax) *)
(* core::num::dec2flt accepts  [+-]? ( digits [. digits*]? | . digits ) ([eE] [+-]? digits)?
   and  [+-]? (inf | infinity | nan)  (ASCII case-insensitive).  The value itself comes
   from the [parse_float] parameter (correctly rounded conversion of such a text). *)
Definition is_dec_digit (c : Z) : bool := (48 <=? c) && (c <=? 57).

Fixpoint skip_digits (l : list Z) : nat * list Z :=
  match l with
  | c :: l' => if is_dec_digit c then let '(n, r) := skip_digits l' in (S n, r) else (O, l)
  | [] => (O, [])
  end.

Definition lower_ascii (c : Z) : Z := if (65 <=? c) && (c <=? 90) then c + 32 else c.

Definition float_syntax_ok (s : list Z) : bool :=
  let s := match s with
           | c :: r => if Z.eqb c 43 || Z.eqb c 45 then r else s
           | [] => s
           end in
  let low := map lower_ascii s in
  if ident_eqb low [105; 110; 102] || ident_eqb low [105; 110; 102; 105; 110; 105; 116; 121]
     || ident_eqb low [110; 97; 110] then true
  else
    let '(n1, r1) := skip_digits s in
    let '(n2, r2) := match r1 with
                     | 46 :: r => skip_digits r
                     | _ => (O, r1)
                     end in
    if Nat.eqb (n1 + n2) 0 then false
    else
      match r2 with
      | [] => true
      | c :: r =>
          if Z.eqb c 101 || Z.eqb c 69 then
            let r := match r with
                     | d :: r' => if Z.eqb d 43 || Z.eqb d 45 then r' else r
                     | [] => r
                     end in
            let '(n3, r3) := skip_digits r in
            negb (Nat.eqb n3 0) && match r3 with [] => true | _ => false end
          else false
      end.

(* ------------------------------------------------------------------ Type::from(pair) *)

Fixpoint ty_of_tree (input : list Z) (t : tree) {struct t} : outcome ty :=
  match t with
  | Node r _ _ kids =>
    let tys := (fix go (l : list tree) : outcome (list ty) :=
                  match l with
                  | [] => Ok []
                  | x :: l => obind (ty_of_tree input x) (fun a => obind (go l) (fun b => Ok (a :: b)))
                  end) in
    if N.eqb r R_bool_type then Ok TBool
    else if N.eqb r R_int_type then Ok TInt
    else if N.eqb r R_float_type then Ok TFloat
    else if N.eqb r R_string_type then Ok TString
    else if N.eqb r R_void then Ok TVoid
    else if N.eqb r R_function_type then
      (* FunctionType::from: params = pairs.next().unwrap().into_inner(), then the result *)
      match kids with
      | [] => Panic
      | Node _ _ _ pk :: rest =>
          obind (tys pk) (fun ps =>
          match rest with
          | [] => Panic
          | rt :: _ => obind (ty_of_tree input rt) (fun r => Ok (TFun ps r))
          end)
      end
    else if N.eqb r R_array_type then
      match kids with
      | [] => Ok (TArr TNever)
      | x :: _ => obind (ty_of_tree input x) (fun e => Ok (TArr e))
      end
    else if N.eqb r R_tuple_type then obind (tys kids) (fun ts => Ok (TTup ts))
    else if N.eqb r R_multi then
      obind (tys kids) (fun ts => match concat_all ts with Some u => Ok u | None => Panic end)
    else if N.eqb r R_any then Ok TAny
    else if N.eqb r R_never then Ok TNever
    else if N.eqb r R_mut_type then
      match kids with
      | [] => Panic
      | x :: _ => obind (ty_of_tree input x) (fun e => Ok (TMut e))
      end
    else if N.eqb r R_struct_type then
      (* itertools::tuples(): (key, value) pairs, an odd trailing pair is dropped;
         collected into a HashMap: a later duplicate key overwrites *)
      obind ((fix st (l : list tree) (acc : list (ident * ty)) : outcome (list (ident * ty)) :=
                match l with
                | k :: v :: l' =>
                    obind (ty_of_tree input v) (fun tv =>
                    let key := text_of input k in
                    st l' (filter (fun kv => negb (ident_eqb key (fst kv))) acc ++ [(key, tv)]))
                | _ => Ok acc
                end) kids []) (fun fs => Ok (TStruct fs))
    else Panic   (* "Type cannot be built from rule" *)
  end.

(* Param::from(pair) *)
Definition param_of_tree (input : list Z) (t : tree) : outcome (name * ty) :=
  match t_kids t with
  | n :: ty :: _ => obind (ty_of_tree input ty) (fun u => Ok (text_of input n, u))
  | _ => Panic
  end.

(* ------------------------------------------------------------------ Variable::try_from(pair) *)

(* model bound on `[v; n]` in Variable::from_str: the code allocates n elements whatever n
   is; the model refuses (OutOfFuel) beyond this length instead of building the list *)
Definition REPEAT_LIMIT : Z := 1048576.

Section Literals.
Variable parse_float : list Z -> option fbits.
Variable input : list Z.

(* parse_int_with_radix: for `minus_int` the sign is parsed together with the digits *)
Definition int_with_radix (t : tree) (radix : Z) (negative : bool) : outcome Z :=
  match t_kids t with
  | [] => Panic
  | d :: _ =>
      let digits := strip_sp_us (text_of input d) in
      let s := if negative then 45 :: digits else digits in
      match i64_from_str_radix radix s with
      | Some v => Ok v
      | None => Err E_Reject            (* Error::IntegerOverflow *)
      end
  end.

(* parse_int: [t] is an `int` pair *)
Definition int_of_tree (t : tree) (negative : bool) : outcome Z :=
  match t_kids t with
  | [] => Panic
  | k :: _ =>
      let r := t_rule k in
      if N.eqb r R_binary_int then int_with_radix k 2 negative
      else if N.eqb r R_octal_int then int_with_radix k 8 negative
      else if N.eqb r R_decimal_int then int_with_radix k 10 negative
      else if N.eqb r R_hexadecimal_int then int_with_radix k 16 negative
      else Panic
  end.

Definition float_of_text (s : list Z) : outcome value :=
  let s := strip_sp_us s in
  if float_syntax_ok s then
    match parse_float s with
    | Some b => Ok (VFloat b)
    | None => Err E_Reject
    end
  else Err E_Reject.                              (* Error::CannotBeParsed *)

Definition struct_put {V} (k : ident) (v : V) (acc : list (ident * V)) : list (ident * V) :=
  filter (fun kv => negb (ident_eqb k (fst kv))) acc ++ [(k, v)].

Fixpoint value_of_tree (t : tree) {struct t} : outcome value :=
  match t with
  | Node r _ _ kids =>
    if N.eqb r R_true then Ok (VBool true)
    else if N.eqb r R_false then Ok (VBool false)
    else if N.eqb r R_minus_int then
      match kids with
      | [] => Panic
      | k :: _ => obind (int_of_tree k true) (fun v => Ok (VInt v))
      end
    else if N.eqb r R_int then obind (int_of_tree t false) (fun v => Ok (VInt v))
    else if N.eqb r R_minus_float then float_of_text (text_of input t)
    else if N.eqb r R_float then float_of_text (text_of input t)
    else if N.eqb r R_string then
      match kids with
      | [] => Panic
      | k :: _ => match unescape (text_of input k) with
                  | Some s => Ok (VString s)
                  | None => Err E_Reject          (* Error::CannotUnescapeString *)
                  end
      end
    else if N.eqb r R_array_from_str then
      obind ((fix go (l : list tree) : outcome (list value) :=
                match l with
                | [] => Ok []
                | x :: l => obind (value_of_tree x) (fun a => obind (go l) (fun b => Ok (a :: b)))
                end) kids) (fun vs => Ok (arr_of vs))
    else if N.eqb r R_tuple_from_str then
      obind ((fix go (l : list tree) : outcome (list value) :=
                match l with
                | [] => Ok []
                | x :: l => obind (value_of_tree x) (fun a => obind (go l) (fun b => Ok (a :: b)))
                end) kids) (fun vs => Ok (VTup vs))
    else if N.eqb r R_array_repeat_from_str then
      match kids with
      | v :: n :: _ =>
          obind (value_of_tree v) (fun x => obind (int_of_tree n false) (fun len =>
          if REPEAT_LIMIT <? len then OutOfFuel
          else Ok (VArr (as_type x) (repeat x (Z.to_nat len)))))
      | [v] => obind (value_of_tree v) (fun _ => Panic)
      | [] => Panic
      end
    else if N.eqb r R_struct_from_str then
      obind ((fix st (l : list tree) (acc : list (ident * value)) : outcome (list (ident * value)) :=
                match l with
                | k :: v :: l' =>
                    obind (value_of_tree v) (fun x => st l' (struct_put (text_of input k) x acc))
                | _ => Ok acc
                end) kids []) (fun fs => Ok (VStruct fs))
    else if N.eqb r R_void then Ok VVoid
    else Err E_Reject                              (* _ => Error::CannotBeParsed *)
  end.

End Literals.

(* ------------------------------------------------------------------ pest's Pratt parser *)

Inductive affix := AfPrefix | AfPostfix | AfInfixL | AfInfixR.

Section Pratt.
Variables A O : Type.
Variable info : O -> option (affix * nat).

Inductive tok := KAtom (a : A) | KOp (o : O).
Inductive ptree :=
| QAtom (a : A)
| QPre (o : O) (rhs : ptree)
| QIn (lhs : ptree) (o : O) (rhs : ptree)
| QPost (lhs : ptree) (o : O).

(* [pratt_expr] = nud followed by the led loop of PrattParserMap::expr; [pratt_loop] = the
   `while rbp < self.lbp(pairs)` loop.  None: one of pest's panics ("Pratt parsing expects
   non-empty Pairs", "Expected prefix or primary expression", "Expected operator",
   "Expected postfix or infix expression") — or the fuel ran out, which it does not with
   the fuel of [pratt_parse] (every call consumes a token, the depth is <= |toks| + 1). *)
Fixpoint pratt_expr (fuel : nat) (toks : list tok) (rbp : nat) {struct fuel} : option (ptree * list tok) :=
  match fuel with
  | Datatypes.O => None
  | S fuel =>
    match toks with
    | [] => None
    | KAtom a :: rest => pratt_loop fuel (QAtom a) rest rbp
    | KOp o :: rest =>
        match info o with
        | Some (AfPrefix, prec) =>
            match pratt_expr fuel rest (prec - 1)%nat with
            | Some (rhs, rest') => pratt_loop fuel (QPre o rhs) rest' rbp
            | None => None
            end
        | _ => None
        end
    end
  end
with pratt_loop (fuel : nat) (lhs : ptree) (toks : list tok) (rbp : nat) {struct fuel} : option (ptree * list tok) :=
  match fuel with
  | Datatypes.O => None
  | S fuel =>
    match toks with
    | [] => Some (lhs, [])                        (* lbp = 0 *)
    | KAtom _ :: _ => None                        (* "Expected operator" *)
    | KOp o :: rest =>
        match info o with
        | None => None
        | Some (af, prec) =>
            if Nat.ltb rbp prec then
              match af with
              | AfInfixL =>
                  match pratt_expr fuel rest prec with
                  | Some (rhs, rest') => pratt_loop fuel (QIn lhs o rhs) rest' rbp
                  | None => None
                  end
              | AfInfixR =>
                  match pratt_expr fuel rest (prec - 1)%nat with
                  | Some (rhs, rest') => pratt_loop fuel (QIn lhs o rhs) rest' rbp
                  | None => None
                  end
              | AfPostfix => pratt_loop fuel (QPost lhs o) rest rbp
              | AfPrefix => None                  (* "Expected postfix or infix expression" *)
              end
            else Some (lhs, toks)
        end
    end
  end.

Definition pratt_parse (toks : list tok) : option ptree :=
  match pratt_expr (2 * length toks + 2) toks 0 with
  | Some (p, _) => Some p
  | None => None
  end.
End Pratt.

Arguments KAtom {A O} a.
Arguments KOp {A O} o.
Arguments QAtom {A O} a.
Arguments QPre {A O} o rhs.
Arguments QIn {A O} lhs o rhs.
Arguments QPost {A O} lhs o.
Arguments pratt_parse {A O} info toks.

(* PRATT_PARSER of parser/src/lib.rs: PrattParser::new() starts at PREC_STEP = 10 and every
   .op(..) adds 10 *)
Definition pratt_table : list (N * (affix * nat)) :=
  let lvl := fun (p : nat) (af : affix) (rs : list N) => map (fun r => (r, (af, p))) rs in
  lvl 20%nat AfInfixR [R_assign; R_assign_add; R_assign_subtract; R_assing_multiply; R_assign_divide;
                  R_assign_modulo; R_assign_lshift; R_assign_rshift; R_assign_bitwise_and;
                  R_assign_bitwise_or; R_assign_xor; R_assign_pow]
  ++ lvl 30%nat AfInfixL [R_or]
  ++ lvl 40%nat AfInfixL [R_and]
  ++ lvl 50%nat AfInfixL [R_equal; R_not_equal; R_lower; R_lower_equal; R_greater; R_greater_equal]
  ++ lvl 60%nat AfInfixL [R_bitwise_or]
  ++ lvl 70%nat AfInfixL [R_xor]
  ++ lvl 80%nat AfInfixL [R_bitwise_and]
  ++ lvl 90%nat AfInfixL [R_lshift; R_rshift]
  ++ lvl 100%nat AfInfixL [R_add; R_subtract]
  ++ lvl 110%nat AfInfixL [R_multiply; R_divide; R_modulo]
  ++ lvl 120%nat AfInfixL [R_pow]
  ++ lvl 130%nat AfInfixL [R_map; R_filter; R_partition; R_reduce]
  ++ lvl 130%nat AfPostfix [R_sum; R_product; R_all; R_reduce_any; R_bitand_reduce; R_bitor_reduce;
                       R_collect; R_iter]
  ++ lvl 140%nat AfPrefix [R_not; R_unary_minus; R_indirection]
  ++ lvl 150%nat AfPostfix [R_at; R_slicing; R_type_filter; R_function_call; R_tuple_access; R_field_access].

(* BTreeMap::insert: the last entry for a rule wins *)
Definition pratt_info (r : N) : option (affix * nat) :=
  fold_left (fun acc kv => if N.eqb (fst kv) r then Some (snd kv) else acc) pratt_table None.

(* BinOperator::from(rule); None = unreachable!() *)
Definition binop_of_rule (r : N) : option binop :=
  let tbl := [(R_equal, Equal); (R_not_equal, NotEqual); (R_lshift, LShift); (R_rshift, RShift);
              (R_greater, Greater); (R_greater_equal, GreaterOrEqual); (R_lower, Lower);
              (R_lower_equal, LowerOrEqual); (R_and, And); (R_or, Or); (R_bitwise_and, BitwiseAnd);
              (R_bitwise_or, BitwiseOr); (R_xor, Xor); (R_pow, Pow); (R_multiply, Multiply);
              (R_divide, Divide); (R_add, Add); (R_subtract, Subtract); (R_modulo, Modulo);
              (R_map, Map); (R_filter, Filter); (R_assign, Assign); (R_assign_add, AssignAdd);
              (R_assign_subtract, AssignSubtract); (R_assing_multiply, AssignMultiply);
              (R_assign_divide, AssignDivide); (R_assign_modulo, AssignModulo);
              (R_assign_lshift, AssignLShift); (R_assign_rshift, AssignRShift);
              (R_assign_bitwise_and, AssignBitwiseAnd); (R_assign_bitwise_or, AssignBitwiseOr);
              (R_assign_xor, AssignXor); (R_assign_pow, AssignPow); (R_partition, Partition)] in
  fold_right (fun kv acc => if N.eqb (fst kv) r then Some (snd kv) else acc) None tbl.

(* ------------------------------------------------------------------ instructions *)

(* a name no program, helper or library can bind (U+0000 is not an identifier character) *)
Definition front_reject_name : name := [0].
(* deferred rejection: Check.check_x rejects an unknown identifier without looking further *)
Definition front_reject_x : sx := XIdent front_reject_name.

Section Front.
Variable parse_float : list Z -> option fbits.
Variable eager : bool.
Variable input : list Z.

Definition txt (t : tree) : list Z := text_of input t.

Definition rej_x : outcome sx := if eager then Err E_Reject else Ok front_reject_x.

(* create_primary for true / false / int / float / string / void *)
Definition const_of_tree (t : tree) : outcome sx :=
  match value_of_tree parse_float input t with
  | Ok v => Ok (XConst v)
  | Err _ => rej_x
  | Panic => Panic
  | OutOfFuel => OutOfFuel
  end.

(* create_prefix *)
Definition mk_prefix (o : tree) (rhs : sx) : outcome sx :=
  let r := t_rule o in
  if N.eqb r R_not then Ok (XPrefix Check.PNot rhs)
  else if N.eqb r R_unary_minus then Ok (XPrefix PNeg rhs)
  else if N.eqb r R_indirection then Ok (XPrefix PDeref rhs)
  else Panic.

(* TupleAccess::create_instruction: `.N`, N through Variable::try_from(int pair) as usize.
   The index is capped at |input| + 1024: no tuple type of a program of that size is as
   long (Check only compares it with min_tuple_len, then indexes below it). *)
Definition mk_tuple_access (lhs : sx) (o : tree) : outcome sx :=
  match t_kids o with
  | [] => Panic
  | k :: _ =>
      match value_of_tree parse_float input k with
      | Ok (VInt v) => Ok (XTupleAccess lhs (Z.to_nat (Z.min v (Z.of_nat (length input) + 1024))))
      | Ok _ => Panic                               (* .into_int().unwrap() *)
      | Err _ =>
          (* the code first rejects a non-tuple lhs, then the overflowing index: a field
             access to a name that does not exist is rejected at the same point *)
          if eager then Err E_Reject else Ok (XFieldAccess lhs front_reject_name)
      | Panic => Panic
      | OutOfFuel => OutOfFuel
      end
  end.

(* the surface AST has no `import`: always a rejection (the lanes use no files) *)
Definition import_stm (t : tree) : outcome sstm :=
  match t_kids t with
  | [] => Panic
  | _ :: _ => if eager then Err E_Reject else Ok (SExpr front_reject_x)
  end.

Definition unop_of_rule (r : N) : option unop :=
  if N.eqb r R_sum then Some USum
  else if N.eqb r R_product then Some UProduct
  else if N.eqb r R_all then Some UAll
  else if N.eqb r R_reduce_any then Some UAny
  else if N.eqb r R_bitand_reduce then Some UBitAnd
  else if N.eqb r R_bitor_reduce then Some UBitOr
  else if N.eqb r R_collect then Some UCollect
  else if N.eqb r R_iter then Some UIter
  else None.

Definition pinfo (t : tree) : option (affix * nat) := pratt_info (t_rule t).
Definition classify (t : tree) : tok tree tree :=
  match pinfo t with Some _ => KOp t | None => KAtom t end.

(* fx_expr kids      = PRATT_PARSER....parse(pairs)        (InstructionWithStr::new_expression(pair)
                                                            is fx_expr (t_kids pair), whatever pair's rule)
   fx_primary t      = create_primary(pair)
   fx_stm t          = InstructionWithStr::new(pair) / Instruction::new(pair) in statement position
   fx_line t         = InstructionWithStr::new(pair) for a pair of create_instructions / Code::parse
   fx_arm t          = MatchArm::new(pair) *)
Fixpoint fx_expr (fuel : nat) (kids : list tree) {struct fuel} : outcome sx :=
  match fuel with
  | O => OutOfFuel
  | S fuel =>
    (* InstructionWithStr::new(pair) where the surface AST wants an expression *)
    let new_x := fun (t : tree) => if is_rule R_expr t then fx_expr fuel (t_kids t) else Panic in
    match pratt_parse pinfo (map classify kids) with
    | None => Panic
    | Some pt =>
      (fix conv (p : ptree tree tree) : outcome sx :=
         match p with
         | QAtom a => fx_primary fuel a
         | QPre o rhs => obind (conv rhs) (fun r => mk_prefix o r)
         | QIn lhs o rhs =>
             obind (conv lhs) (fun l => obind (conv rhs) (fun r =>
             if is_rule R_reduce o then
               (* Reduce::create_instruction: new_expression(op pair) *)
               obind (fx_expr fuel (t_kids o)) (fun i => Ok (XReduce l i r))
             else match binop_of_rule (t_rule o) with
                  | Some b => Ok (XInfix b l r)
                  | None => Panic
                  end))
         | QPost lhs o =>
             obind (conv lhs) (fun l =>
             let r := t_rule o in
             let ks := t_kids o in
             if N.eqb r R_at then
               match ks with
               | [] => Panic
               | k :: _ => obind (fx_expr fuel (t_kids k)) (fun i => Ok (XAt l i))
               end
             else if N.eqb r R_type_filter then
               match ks with
               | [] => Panic
               | k :: _ => obind (ty_of_tree input k) (fun u => Ok (XTypeFilter l u))
               end
             else if N.eqb r R_function_call then
               obind (omap (fun k => fx_expr fuel (t_kids k)) ks) (fun args => Ok (XCall l args))
             else if N.eqb r R_tuple_access then mk_tuple_access l o
             else if N.eqb r R_field_access then
               match ks with
               | [] => Panic
               | k :: _ => Ok (XFieldAccess l (txt k))
               end
             else if N.eqb r R_slicing then
               (* Slicing::create: the triage on (inner.next(), inner.next(), inner.next()) *)
               let ex := fun (k : tree) => fx_expr fuel (t_kids k) in
               match ks with
               | a :: b :: c :: _ =>
                   obind (ex a) (fun x => obind (ex b) (fun y => obind (ex c) (fun z =>
                   Ok (XSlice l (Some x) (Some y) (Some z)))))
               | [a; b] =>
                   if is_rule R_start a && is_rule R_stop b then
                     obind (ex a) (fun x => obind (ex b) (fun y => Ok (XSlice l (Some x) (Some y) None)))
                   else if is_rule R_start a then
                     obind (ex a) (fun x => obind (ex b) (fun z => Ok (XSlice l (Some x) None (Some z))))
                   else
                     obind (ex a) (fun y => obind (ex b) (fun z => Ok (XSlice l None (Some y) (Some z))))
               | [a] =>
                   if is_rule R_start a then obind (ex a) (fun x => Ok (XSlice l (Some x) None None))
                   else if is_rule R_stop a then obind (ex a) (fun y => Ok (XSlice l None (Some y) None))
                   else obind (ex a) (fun z => Ok (XSlice l None None (Some z)))
               | [] => Ok (XSlice l None None None)
               end
             else match unop_of_rule r with
                  | Some u => Ok (XPostfix u l)
                  | None => Panic
                  end)
         end) pt
    end
  end

with fx_primary (fuel : nat) (t : tree) {struct fuel} : outcome sx :=
  match fuel with
  | O => OutOfFuel
  | S fuel =>
    let r := t_rule t in
    let ks := t_kids t in
    let ex := fun (k : tree) => fx_expr fuel (t_kids k) in     (* new_expression(k) *)
    if N.eqb r R_expr then fx_expr fuel ks
    else if N.eqb r R_ident then Ok (XIdent (txt t))
    else if N.eqb r R_true || N.eqb r R_false || N.eqb r R_int || N.eqb r R_float
            || N.eqb r R_string || N.eqb r R_void then const_of_tree t
    else if N.eqb r R_mut then
      match ks with
      | [] => Panic
      | p :: rest =>
          if is_rule R_expr p then obind (ex p) (fun e => Ok (XMut None e))
          else obind (ty_of_tree input p) (fun u =>
               match rest with
               | [] => Panic
               | q :: _ => obind (ex q) (fun e => Ok (XMut (Some u) e))
               end)
      end
    else if N.eqb r R_tuple then obind (omap ex ks) (fun es => Ok (XTuple es))
    else if N.eqb r R_array then obind (omap ex ks) (fun es => Ok (XArray es))
    else if N.eqb r R_array_repeat then
      match ks with
      | v :: n :: _ => obind (ex v) (fun x => obind (ex n) (fun y => Ok (XArrayRepeat x y)))
      | [v] => obind (ex v) (fun _ => Panic)
      | [] => Panic
      end
    else if N.eqb r R_function then
      obind (fx_fn fuel ks) (fun '(ps, ret, body) => Ok (XFunction ps ret body))
    else if N.eqb r R_struct then
      obind (omap (fun k =>
               if is_rule R_ident k then Ok (txt k, None)
               else match t_kids k with
                    | n :: e :: _ => obind (ex e) (fun x => Ok (txt n, Some x))
                    | _ => Panic
                    end) ks) (fun fs => Ok (XStruct fs))
    else if N.eqb r R_mod then
      match ks with
      | [] => Panic
      | b :: _ => obind (omap (fx_line fuel) (t_kids b)) (fun ls => Ok (XMod ls))
      end
    else Panic
  end

(* AnonymousFunction / FunctionDeclaration: [kids] are the children of a `function` pair *)
with fx_fn (fuel : nat) (kids : list tree) {struct fuel} : outcome (params * option ty * list sline) :=
  match fuel with
  | O => OutOfFuel
  | S fuel =>
    match kids with
    | [] => Panic
    | pp :: rest =>
        obind (omap (param_of_tree input) (t_kids pp)) (fun ps =>
        match rest with
        | d :: rest' =>
            if is_rule R_return_type_decl d then
              match t_kids d with
              | [] => Panic
              | u :: _ => obind (ty_of_tree input u) (fun rt =>
                          obind (omap (fx_line fuel) rest') (fun b => Ok (ps, Some rt, b)))
              end
            else obind (omap (fx_line fuel) rest) (fun b => Ok (ps, None, b))
        | [] => Ok (ps, None, [])
        end)
    end
  end

with fx_stm (fuel : nat) (t : tree) {struct fuel} : outcome sstm :=
  match fuel with
  | O => OutOfFuel
  | S fuel =>
    let r := t_rule t in
    let ks := t_kids t in
    let new_x := fun (k : tree) => if is_rule R_expr k then fx_expr fuel (t_kids k) else Panic in
    let opt_stm := fun (o : list tree) =>
        match o with
        | [] => Ok None
        | k :: _ => obind (fx_stm fuel k) (fun s => Ok (Some s))
        end in
    if N.eqb r R_expr then obind (fx_expr fuel ks) (fun e => Ok (SExpr e))
    else if N.eqb r R_block then obind (omap (fx_line fuel) ks) (fun ls => Ok (SBlock ls))
    else if N.eqb r R_import then import_stm t
    else if N.eqb r R_if_else then
      match ks with
      | c :: b :: rest =>
          obind (new_x c) (fun ce => obind (fx_stm fuel b) (fun bs => obind (opt_stm rest) (fun es =>
          Ok (SIfElse ce bs es))))
      | [c] => obind (new_x c) (fun _ => Panic)
      | [] => Panic
      end
    else if N.eqb r R_set_if_else then
      match ks with
      | n :: u :: x :: b :: rest =>
          obind (ty_of_tree input u) (fun ut => obind (new_x x) (fun xe =>
          obind (fx_stm fuel b) (fun bs => obind (opt_stm rest) (fun es =>
          Ok (SSetIfElse (txt n) ut xe bs es)))))
      | _ => Panic
      end
    else if N.eqb r R_match then
      match ks with
      | [] => Panic
      | x :: arms => obind (new_x x) (fun xe => obind (omap (fx_arm fuel) arms) (fun ars =>
                     Ok (SMatch xe ars)))
      end
    else if N.eqb r R_return then obind (opt_stm ks) (fun o => Ok (SRet o))
    else if N.eqb r R_loop then
      match ks with
      | [] => Panic
      | b :: _ => obind (fx_stm fuel b) (fun bs => Ok (SLoop bs))
      end
    else if N.eqb r R_while then
      match ks with
      | c :: b :: _ =>
          (* the condition goes through new_expression whatever its rule *)
          obind (fx_expr fuel (t_kids c)) (fun ce => obind (fx_stm fuel b) (fun bs => Ok (SWhile ce bs)))
      | _ => Panic
      end
    else if N.eqb r R_while_set then
      (* SetIfElse::create on the same children; a fifth child cannot occur *)
      match ks with
      | n :: u :: x :: b :: _ =>
          obind (ty_of_tree input u) (fun ut => obind (new_x x) (fun xe =>
          obind (fx_stm fuel b) (fun bs => Ok (SWhileSet (txt n) ut xe bs))))
      | _ => Panic
      end
    else if N.eqb r R_for then
      match ks with
      | n :: x :: b :: _ =>
          obind (new_x x) (fun xe => obind (fx_stm fuel b) (fun bs => Ok (SFor (txt n) xe bs)))
      | _ => Panic
      end
    else if N.eqb r R_break then Ok SBrk
    else if N.eqb r R_continue then Ok SCont
    else Panic      (* unexpected!(rule); set / destruct_tuple / function_declaration never
                       occur in statement position and have no sstm counterpart *)
  end

with fx_line (fuel : nat) (t : tree) {struct fuel} : outcome sline :=
  match fuel with
  | O => OutOfFuel
  | S fuel =>
    let r := t_rule t in
    let ks := t_kids t in
    if N.eqb r R_set then
      match ks with
      | n :: s :: _ => obind (fx_stm fuel s) (fun st => Ok (LSet (txt n) st))
      | _ => Panic
      end
    else if N.eqb r R_destruct_tuple then
      match ks with
      | ids :: s :: _ => obind (fx_stm fuel s) (fun st => Ok (LDestruct (map txt (t_kids ids)) st))
      | _ => Panic
      end
    else if N.eqb r R_function_declaration then
      match ks with
      | n :: f :: _ => obind (fx_fn fuel (t_kids f)) (fun '(ps, ret, body) => Ok (LFnDecl (txt n) ps ret body))
      | _ => Panic
      end
    else obind (fx_stm fuel t) (fun st => Ok (LStm st))
  end

with fx_arm (fuel : nat) (t : tree) {struct fuel} : outcome sarm :=
  match fuel with
  | O => OutOfFuel
  | S fuel =>
    let r := t_rule t in
    let new_x := fun (k : tree) => if is_rule R_expr k then fx_expr fuel (t_kids k) else Panic in
    match t_kids t with
    | [] => Panic                                     (* inner.next().unwrap() comes first *)
    | k1 :: rest =>
        if N.eqb r R_match_type then
          match rest with
          | u :: b :: _ => obind (ty_of_tree input u) (fun ut => obind (fx_stm fuel b) (fun bs =>
                           Ok (AType (txt k1) ut bs)))
          | _ => Panic
          end
        else if N.eqb r R_match_value then
          obind (omap new_x (t_kids k1)) (fun vs =>
          match rest with
          | b :: _ => obind (fx_stm fuel b) (fun bs => Ok (AValue vs bs))
          | [] => Panic
          end)
        else if N.eqb r R_match_other then obind (fx_stm fuel k1) (fun bs => Ok (AOther bs))
        else Panic
    end
  end.

Definition front_fuel (forest : list tree) : nat := (3 * forest_size forest + 8)%nat.

Definition lines_of_forest (forest : list tree) : outcome (list sline) :=
  omap (fx_line (front_fuel forest)) forest.

End Front.

(* ------------------------------------------------------------------ entry points *)

(* Code::parse, parsing half: SimpleSLParser::parse(Rule::input, script)? then one
   InstructionWithStr::new per top-level pair *)
Definition parse_program_with (parse_float : list Z -> option fbits) (eager : bool) (input : list Z)
  : outcome (list sline) :=
  match parse_rule grammar R_input input with
  | Ok (_, forest) => lines_of_forest parse_float eager input forest
  | Err _ => Err E_Reject
  | Panic => Panic
  | OutOfFuel => OutOfFuel
  end.

(* rejections deferred into the AST (exact creation order); see the header *)
Definition parse_program (parse_float : list Z -> option fbits) (input : list Z) : outcome (list sline) :=
  parse_program_with parse_float false input.
(* rejections reported at once *)
Definition parse_program_eager (parse_float : list Z -> option fbits) (input : list Z) : outcome (list sline) :=
  parse_program_with parse_float true input.

(* Type::from_str: rule `type` (no &EOI: a prefix of the text is enough), first pair *)
Definition parse_type_str (input : list Z) : outcome ty :=
  match parse_rule grammar R_type input with
  | Ok (_, t :: _) => ty_of_tree input t
  | Ok (_, []) => Panic
  | Err _ => Err E_Reject
  | Panic => Panic
  | OutOfFuel => OutOfFuel
  end.

(* char::is_whitespace (Unicode White_Space), as used by str::trim *)
Definition is_rust_whitespace (c : Z) : bool :=
  ((9 <=? c) && (c <=? 13)) || Z.eqb c 32 || Z.eqb c 133 || Z.eqb c 160 || Z.eqb c 5760
  || ((8192 <=? c) && (c <=? 8202)) || Z.eqb c 8232 || Z.eqb c 8233 || Z.eqb c 8239
  || Z.eqb c 8287 || Z.eqb c 12288.

Fixpoint trim_start (s : list Z) : list Z :=
  match s with
  | c :: r => if is_rust_whitespace c then trim_start r else s
  | [] => []
  end.
Definition rust_trim (s : list Z) : list Z := rev (trim_start (rev (trim_start s))).

(* Variable::from_str: trim, rule `only_var`, pairs[0] *)
Definition parse_value_str (parse_float : list Z -> option fbits) (s : list Z) : outcome value :=
  let input := rust_trim s in
  match parse_rule grammar R_only_var input with
  | Ok (_, t :: _) => value_of_tree parse_float input t
  | Ok (_, []) => Panic
  | Err _ => Err E_Reject
  | Panic => Panic
  | OutOfFuel => OutOfFuel
  end.

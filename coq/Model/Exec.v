(* Exec.v — the tree-walking interpreter (all `Exec` impls, function.rs,
   interpreter.rs; M13).  Fuel-indexed big-step function over an explicit store
   (closures, cells, effect log) and Interpreter layers (scopes).
   SPanic = a Rust panic/unwrap/unreachable;  SFuel = the model's fuel ran out. *)
From SSL.Model Require Import Base Ty Float Value Ops Seq Syntax Rt Recreate.
Local Open Scope Z_scope.

(* function ids of the helper closures the implementation keeps in lazy statics
   (MAP, FILTER, ITER and the prelude of stdlib/operators.rs) *)
Record prelude : Type := mkPrelude {
  p_map : nat; p_filter : nat; p_iter : nat;
  p_int_sum : nat; p_float_sum : nat; p_string_sum : nat;
  p_int_product : nat; p_float_product : nat
}.

Definition res := (store * scopes * signal)%type.

Definition alloc_fun (st : store) (c : closure) : store * nat :=
  (mkStore (s_funs st ++ [c]) (s_cells st) (s_log st), length (s_funs st)).

Definition alloc_cell (st : store) (v : value) : store * nat :=
  let loc := length (s_cells st) in
  (mkStore (s_funs st) (s_cells st ++ [v]) (EvAlloc loc v :: s_log st), loc).

(* Variable::of_type at run time: the default value of a type.  The default of a function type is a
   FRESH function `(p0: .., p1: ..) -> R { return <default of R> }` (Function::of_type), the default of a
   cell type a FRESH cell holding the default of its content; unions take their first member.
   [of_type] (Model/Value.v) is the same computation without the allocations (placeholders 0), used
   where only definedness matters. *)
Fixpoint dec_digits (fuel : nat) (z : Z) (acc : list Z) : list Z :=
  match fuel with
  | O => acc
  | S f => let acc' := (48 + z mod 10)%Z :: acc in
           if (z / 10 =? 0)%Z then acc' else dec_digits f (z / 10)%Z acc'
  end.
Definition param_name (i : nat) : name := 112%Z :: dec_digits 20 (Z.of_nat i) [].
Definition default_params (ps : list ty) : params :=
  (fix go (ps : list ty) (i : nat) : params :=
     match ps with [] => [] | p :: ps => (param_name i, p) :: go ps (S i) end) ps O.

Fixpoint alloc_default (t : ty) (st : store) : option (value * store) :=
  match t with
  | TBool => Some (VBool false, st)
  | TInt => Some (VInt 0, st)
  | TFloat => Some (VFloat F_ZERO, st)
  | TString => Some (VString [], st)
  | TFun ps r =>
      match alloc_default r st with
      | Some (d, st) =>
          let '(st, id) := alloc_fun st (mkClosure None (default_params ps) (BLang [IUn UReturn (IVar d)]) r) in
          Some (VFun id ps r, st)
      | None => None
      end
  | TArr e => Some (VArr e [], st)
  | TTup ts =>
      match (fix go (ts : list ty) (st : store) : option (list value * store) :=
               match ts with
               | [] => Some ([], st)
               | t :: ts => match alloc_default t st with
                            | Some (v, st) => match go ts st with
                                              | Some (vs, st) => Some (v :: vs, st) | None => None end
                            | None => None
                            end
               end) ts st with
      | Some (vs, st) => Some (VTup vs, st)
      | None => None
      end
  | TVoid => Some (VVoid, st)
  | TMulti ms => match ms with [] => None | m :: _ => alloc_default m st end
  | TMut e =>
      match alloc_default e st with
      | Some (d, st) => let '(st, loc) := alloc_cell st d in Some (VMut loc e, st)
      | None => None
      end
  | TStruct fs =>
      match (fix go (fs : list (ident * ty)) (st : store) : option (list (ident * value) * store) :=
               match fs with
               | [] => Some ([], st)
               | (k, t) :: fs => match alloc_default t st with
                                 | Some (v, st) => match go fs st with
                                                   | Some (vs, st) => Some ((k, v) :: vs, st) | None => None end
                                 | None => None
                                 end
               end) fs st with
      | Some (vs, st) => Some (VStruct vs, st)
      | None => None
      end
  | TAny => Some (VVoid, st)
  | TNever => None
  end.

Fixpoint list_set {A} (l : list A) (k : nat) (x : A) : list A :=
  match l, k with
  | [], _ => []
  | _ :: l, O => x :: l
  | y :: l, S k => y :: list_set l k x
  end.

Definition write_cell (st : store) (loc : nat) (v : value) : store :=
  mkStore (s_funs st) (list_set (s_cells st) loc v) (EvWrite loc v :: s_log st).

Definition log_event (st : store) (ev : event) : store :=
  mkStore (s_funs st) (s_cells st) (ev :: s_log st).

Definition struct_val_insert (k : ident) (v : value) (fs : list (ident * value)) : list (ident * value) :=
  filter (fun kv => negb (ident_eqb k (fst kv))) fs ++ [(k, v)].

Definition fun_t := TFun [] (TTup [TBool; TInt]).

(* static type of an operand as the implementation computes it (ReturnType is total) *)
Definition sty (x : instr) : ty := match rt x with Ok s => s | _ => TNever end.

Section WithPowf.
Variable powf : fbits -> fbits -> fbits.
Variable pre : prelude.

(* the closure `it ? T` creates (type_filter.rs template), with `iterator` and
   `default` already substituted as constants, exactly as Code::parse does *)
Definition n_res : name := [114; 101; 115].                 (* "res" *)
Definition n_con : name := [99; 111; 110].                  (* "con" *)
Definition n_value : name := [118; 97; 108; 117; 101].      (* "value" *)

Definition type_filter_body (iterator default : value) (t : ty) : list instr :=
  let rt_t := TTup [TBool; t] in
  let it_ret := match fn_return_type (as_type iterator) with Some r => r | None => TNever end in
  let ts := match flatten_tuple it_ret with Some ts => ts | None => [] end in
  let con_t := nth 0 ts TNever in
  let val_t := nth 1 ts TNever in
  [ ILoop (IBlock [
      ISet n_res (IBin FunctionCall (IVar iterator) (IVar (VTup [])));
      IDestruct [n_con; n_value] (ILocal n_res (LOther it_ret));
      IIfElse (IUn UNot (ILocal n_con (LOther con_t)))
              (IUn UReturn (ITuple [IVar (VBool false); IVar default]))
              (IVar VVoid);
      ISetIfElse n_value t (ILocal n_value (LOther val_t))
              (IUn UReturn (ITuple [IVar (VBool true); ILocal n_value (LOther t)]))
              (IVar VVoid) ]);
    IUn UReturn (IVar (VTup [VBool false; default])) ].

Definition sig_of_outcome {A} (o : outcome A) (k : A -> res) (st : store) (sc : scopes) : res :=
  match o with
  | Ok a => k a
  | Err e => (st, sc, SError e)
  | Panic => (st, sc, SPanic)
  | OutOfFuel => (st, sc, SFuel)
  end.

Fixpoint list_isize (l : list instr) : nat :=
  match l with [] => 0%nat | x :: l => (isize x + list_isize l)%nat end.

(* recreate_instructions(body, lenv) at closure creation *)
Definition recreate_body (sc : scopes) (e : lenv) (body : list instr) : outcome (list instr) :=
  obind (recreate powf (S (S (list_isize body))) sc e (IBlock body)) (fun '(i, _) =>
  match i with IBlock b => Ok b | _ => Panic end).

Definition is_false (v : value) : bool := val_eqb v (VBool false).

Fixpoint exec (fuel : nat) (st : store) (sc : scopes) (i : instr) {struct fuel} : res :=
  match fuel with
  | O => (st, sc, SFuel)
  | S fuel =>
    let ex := exec fuel in
    (* Interpreter::exec(&[..]): left to right, stop at the first non-value *)
    let ex_list :=
      fix go (l : list instr) (st : store) (sc : scopes) : store * scopes * outcome (list value) * signal :=
        match l with
        | [] => (st, sc, Ok [], SVal VVoid)
        | x :: l =>
            match ex st sc x with
            | (st, sc, SVal v) =>
                match go l st sc with
                | (st, sc, Ok vs, s) => (st, sc, Ok (v :: vs), s)
                | r => r
                end
            | (st, sc, s) => (st, sc, Panic, s)   (* the outcome slot is ignored when s is not SVal *)
            end
        end in
    let with_list := fun (l : list instr) (st : store) (sc : scopes) (k : store -> scopes -> list value -> res) =>
        match ex_list l st sc with
        | (st, sc, Ok vs, _) => k st sc vs
        | (st, sc, _, s) => (st, sc, s)
        end in
    let with_val := fun (x : instr) (st : store) (sc : scopes) (k : store -> scopes -> value -> res) =>
        match ex st sc x with
        | (st, sc, SVal v) => k st sc v
        | r => r
        end in
    (* Function::exec(&self, interpreter): run the body in the given scopes *)
    let run_body := fun (c : closure) (st : store) (sc : scopes) =>
        match c_body c with
        | BNative _ =>
            (* std.len *)
            match scopes_get [118;97;114;105;97;98;108;101] sc with   (* "variable" *)
            | Some v => match len_exec v with
                        | Ok n => (st, sc, SVal (VInt n))
                        | _ => (st, sc, SPanic) end
            | None => (st, sc, SPanic)
            end
        | BLang body =>
            match ex_list body st sc with
            | (st, sc, Ok _, _) => (st, sc, SVal VVoid)
            | (st, sc, _, SReturn v) => (st, sc, SVal v)
            | (st, sc, _, SError e) => (st, sc, SError e)
            | (st, sc, _, SBreak) | (st, sc, _, SContinue) => (st, sc, SPanic)
            | (st, sc, _, s) => (st, sc, s)
            end
        end in
    (* Function::exec_with_args: fresh interpreter holding self (if named) and the parameters *)
    let call := fun (fid : nat) (args : list value) (st : store) (sc : scopes) =>
        match nth_error (s_funs st) fid with
        | None => (st, sc, SPanic)
        | Some c =>
            let base : scope := match c_name c with
                                | Some n => [(n, VFun fid (map snd (c_params c)) (c_ret c))]
                                | None => [] end in
            let frame := (fix bind (ps : params) (args : list value) (s : scope) : scope :=
                            match ps, args with
                            | (n, _) :: ps, a :: args => bind ps args (scope_insert n a s)
                            | _, _ => s
                            end) (c_params c) args base in
            match run_body c (log_event st (EvCall fid args)) [frame] with
            | (st, _, s) => (st, sc, s)
            end
        end in
    let call_v := fun (f : value) (args : list value) (st : store) (sc : scopes) =>
        match f with
        | VFun fid _ _ => call fid args st sc
        | _ => (st, sc, SPanic)
        end in
    (* pull loop shared by $, $], \ : `while let Variable::Tuple(t) = iter()? { if t[0]==false break; .. }` *)
    let pull := fix pull (n : nat) (it : value) (st : store) (sc : scopes) (acc : list value)
                  : store * scopes * outcome (list value) * signal :=
        match n with
        | O => (st, sc, OutOfFuel, SFuel)
        | S n =>
            match call_v it [] st sc with
            | (st, sc, SVal (VTup (c :: rest))) =>
                if is_false c then (st, sc, Ok (rev acc), SVal VVoid)
                else match rest with
                     | x :: _ => pull n it st sc (x :: acc)
                     | [] => (st, sc, Panic, SPanic)     (* tuple[1] out of bounds *)
                     end
            | (st, sc, SVal (VTup [])) => (st, sc, Panic, SPanic)    (* tuple[0] out of bounds *)
            | (st, sc, SVal _) => (st, sc, Ok (rev acc), SVal VVoid) (* `while let` fails: loop ends *)
            | (st, sc, s) => (st, sc, Panic, s)
            end
        end in
    (* patched copy of a closure: `Arc::unwrap_or_clone(result); result.return_type = ..` *)
    let retyped := fun (f : value) (ret : ty) (st : store) (sc : scopes) =>
        match f with
        | VFun fid _ _ =>
            match nth_error (s_funs st) fid with
            | Some c =>
                let '(st, id) := alloc_fun st (mkClosure (c_name c) (c_params c) (c_body c) ret) in
                (st, sc, SVal (VFun id (map snd (c_params c)) ret))
            | None => (st, sc, SPanic)
            end
        | _ => (st, sc, SPanic)
        end in
    match i with
    | IVar v => (st, sc, SVal v)
    | ILocal n _ =>
        match scopes_get n sc with
        | Some v => (st, sc, SVal v)
        | None => (st, sc, SPanic)
        end
    | IBreak => (st, sc, SBreak)
    | IContinue => (st, sc, SContinue)
    | IAnonFn ps body ret =>
        sig_of_outcome (recreate_body sc [mkLayer (params_layer ps) None false] body) (fun body' =>
          let '(st, id) := alloc_fun st (mkClosure None ps (BLang body') ret) in
          (st, sc, SVal (VFun id (map snd ps) ret))) st sc
    | IFnDecl n ps body ret =>
        let lay := layer_insert n (LFunction ps ret) (mkLayer (params_layer ps) None false) in
        sig_of_outcome (recreate_body sc [lay] body) (fun body' =>
          let '(st, id) := alloc_fun st (mkClosure (Some n) ps (BLang body') ret) in
          let f := VFun id (map snd ps) ret in
          (st, scopes_insert n f sc, SVal f)) st sc
    | IArray es _ => with_list es st sc (fun st sc vs => (st, sc, SVal (arr_of vs)))
    | IArrayRepeat v len =>
        with_val v st sc (fun st sc x => with_val len st sc (fun st sc n =>
          match n with
          | VInt n => if n <? 0 then (st, sc, SError E_NegativeLength)
                      else (st, sc, SVal (repeat_value x n))
          | _ => (st, sc, SPanic)
          end))
    | IBlock body =>
        match ex_list body st ([] :: sc) with
        | (st, _, Ok vs, _) => (st, sc, SVal (last vs VVoid))
        | (st, _, _, s) => (st, sc, s)
        end
    | IDestruct ids x =>
        with_val x st sc (fun st sc v =>
          match v with
          | VTup vs =>
              let sc := (fix go (ids : list name) (vs : list value) (sc : scopes) : scopes :=
                           match ids, vs with
                           | n :: ids, v :: vs => go ids vs (scopes_insert n v sc)
                           | _, _ => sc
                           end) ids vs sc in
              (st, sc, SVal (VTup vs))
          | _ => (st, sc, SPanic)
          end)
    | IFieldAccess x f =>
        with_val x st sc (fun st sc v =>
          match v with
          | VStruct fs => match assoc f fs with
                          | Some r => (st, sc, SVal r) | None => (st, sc, SPanic) end
          | _ => (st, sc, SPanic)
          end)
    | IIfElse c t f =>
        with_val c st sc (fun st sc v =>
          match v with
          | VBool true => ex st sc t
          | VBool false => ex st sc f
          | _ => (st, sc, SPanic)
          end)
    | ILoop b =>
        (fix loop (n : nat) (st : store) (sc : scopes) : res :=
           match n with
           | O => (st, sc, SFuel)
           | S n =>
               match ex st sc b with
               | (st, sc, SVal _) | (st, sc, SContinue) => loop n st sc
               | (st, sc, SBreak) => (st, sc, SVal VVoid)
               | r => r
               end
           end) fuel st sc
    | IMatch x arms =>
        with_val x st sc (fun st sc v =>
          (fix go (l : list arm) (st : store) (sc : scopes) : res :=
             match l with
             | [] => (st, sc, SPanic)
             | ArmOther b :: _ => ex st sc b
             | ArmType n t b :: l =>
                 if matches (as_type v) t then
                   match ex st ([(n, v)] :: sc) b with
                   | (st, _, s) => (st, sc, s)
                   end
                 else go l st sc
             | ArmValue cands b :: l =>
                 (fix try (cs : list instr) (st : store) (sc : scopes) : res :=
                    match cs with
                    | [] => go l st sc
                    | c :: cs =>
                        match ex st sc c with
                        | (st, sc, SVal w) => if val_eqb w v then ex st sc b else try cs st sc
                        | r => r
                        end
                    end) cands st sc
             end) arms st sc)
    | IMut t x =>
        with_val x st sc (fun st sc v =>
          let '(st, loc) := alloc_cell st v in (st, sc, SVal (VMut loc t)))
    | IReduce it init f =>
        with_val it st sc (fun st sc itv => with_val init st sc (fun st sc initv =>
        with_val f st sc (fun st sc fv =>
          match itv, fv with
          | VFun _ _ _, VFun _ _ _ =>
              (fix red (n : nat) (st : store) (sc : scopes) (acc : value) : res :=
                 match n with
                 | O => (st, sc, SFuel)
                 | S n =>
                     match call_v itv [] st sc with
                     | (st, sc, SVal (VTup (c :: rest))) =>
                         if is_false c then (st, sc, SVal acc)
                         else match rest with
                              | x :: _ =>
                                  match call_v fv [acc; x] st sc with
                                  | (st, sc, SVal acc) => red n st sc acc
                                  | r => r
                                  end
                              | [] => (st, sc, SPanic)
                              end
                     | (st, sc, SVal (VTup [])) => (st, sc, SPanic)
                     | (st, sc, SVal _) => (st, sc, SVal acc)
                     | r => r
                     end
                 end) fuel st sc initv
          | _, _ => (st, sc, SPanic)
          end)))
    | ISet n x =>
        with_val x st sc (fun st sc v => (st, scopes_insert n v sc, SVal v))
    | ISetIfElse n t x ifm els =>
        with_val x st sc (fun st sc v =>
          if matches (as_type v) t then
            match ex st ([(n, v)] :: sc) ifm with
            | (st, _, s) => (st, sc, s)
            end
          else ex st sc els)
    | ISlicing l a b c =>
        let opt := fun (o : option instr) (st : store) (sc : scopes) (k : store -> scopes -> option value -> res) =>
            match o with
            | None => k st sc None
            | Some x => with_val x st sc (fun st sc v =>
                          match v with VInt _ => k st sc (Some v) | _ => (st, sc, SPanic) end)
            end in
        with_val l st sc (fun st sc lv =>
        opt a st sc (fun st sc av => opt b st sc (fun st sc bv => opt c st sc (fun st sc cv =>
          sig_of_outcome (slice_exec lv av bv cv) (fun r => (st, sc, SVal r)) st sc))))
    | IStruct fs =>
        (fix go (l : list (name * instr)) (st : store) (sc : scopes) (acc : list (ident * value)) : res :=
           match l with
           | [] => (st, sc, SVal (VStruct acc))
           | (k, x) :: l => with_val x st sc (fun st sc v => go l st sc (struct_val_insert k v acc))
           end) fs st sc []
    | ITuple es => with_list es st sc (fun st sc vs => (st, sc, SVal (VTup vs)))
    | ITupleAccess x k =>
        with_val x st sc (fun st sc v =>
          match v with
          | VTup vs => match nth_error vs k with
                       | Some r => (st, sc, SVal r) | None => (st, sc, SPanic) end
          | _ => (st, sc, SPanic)
          end)
    | ITypeFilter x t =>
        with_val x st sc (fun st sc itv =>
          match alloc_default t st with
          | None => (st, sc, SPanic)               (* Variable::of_type(..).unwrap() *)
          | Some (d, st) =>
              let '(st, id) := alloc_fun st (mkClosure None [] (BLang (type_filter_body itv d t)) (TTup [TBool; t])) in
              (st, sc, SVal (VFun id [] (TTup [TBool; t])))
          end)
    | IBin And l r =>
        with_val l st sc (fun st sc v =>
          match v with
          | VBool false => (st, sc, SVal (VBool false))
          | VBool true => ex st sc r
          | _ => (st, sc, SPanic)
          end)
    | IBin Or l r =>
        with_val l st sc (fun st sc v =>
          match v with
          | VBool true => (st, sc, SVal (VBool true))
          | VBool false => ex st sc r
          | _ => (st, sc, SPanic)
          end)
    | IBin op l r =>
        with_val l st sc (fun st sc lv => with_val r st sc (fun st sc rv =>
          match op with
          | At => sig_of_outcome (at_exec lv rv) (fun v => (st, sc, SVal v)) st sc
          | FunctionCall =>
              match rv with
              | VTup args => call_v lv args st sc
              | _ => (st, sc, SPanic)
              end
          | Map =>
              match fn_return_type (as_type rv) with
              | None => (st, sc, SPanic)
              | Some rty =>
                  match call (p_map pre) [lv; rv] st sc with
                  | (st, sc, SVal f) => retyped f (TTup [TBool; rty]) st sc
                  | r => r
                  end
              end
          | Filter =>
              match fn_return_type (as_type lv) with
              | None => (st, sc, SPanic)
              | Some ety =>
                  match call (p_filter pre) [lv; rv] st sc with
                  | (st, sc, SVal f) => retyped f ety st sc
                  | r => r
                  end
              end
          | Partition =>
              match lv, rv with
              | VFun _ _ _, VFun _ _ _ =>
                  (fix part (n : nat) (st : store) (sc : scopes) (yes no : list value) : res :=
                     match n with
                     | O => (st, sc, SFuel)
                     | S n =>
                         match call_v lv [] st sc with
                         | (st, sc, SVal (VTup (c :: rest))) =>
                             if is_false c then
                               match iter_element (as_type lv) with
                               | Some et => (st, sc, SVal (VTup [VArr et (rev yes); VArr et (rev no)]))
                               | None => (st, sc, SPanic)
                               end
                             else match rest with
                                  | x :: _ =>
                                      match call_v rv [x] st sc with
                                      | (st, sc, SVal (VBool true)) => part n st sc (x :: yes) no
                                      | (st, sc, SVal _) => part n st sc yes (x :: no)
                                      | r => r
                                      end
                                  | [] => (st, sc, SPanic)
                                  end
                         | (st, sc, SVal (VTup [])) => (st, sc, SPanic)
                         | (st, sc, SVal _) =>
                             match iter_element (as_type lv) with
                             | Some et => (st, sc, SVal (VTup [VArr et (rev yes); VArr et (rev no)]))
                             | None => (st, sc, SPanic)
                             end
                         | r => r
                         end
                     end) fuel st sc [] []
              | _, _ => (st, sc, SPanic)
              end
          | Assign =>
              match lv with
              | VMut loc _ =>
                  match nth_error (s_cells st) loc with
                  | Some _ => (write_cell st loc rv, sc, SVal rv)
                  | None => (st, sc, SPanic)
                  end
              | _ => (st, sc, SPanic)
              end
          | _ =>
              match assign_base op with
              | Some bop =>
                  match lv with
                  | VMut loc _ =>
                      match nth_error (s_cells st) loc with
                      | Some cur =>
                          sig_of_outcome (op_exec powf bop cur rv)
                            (fun v => (write_cell st loc v, sc, SVal v)) st sc
                      | None => (st, sc, SPanic)
                      end
                  | _ => (st, sc, SPanic)
                  end
              | None => sig_of_outcome (op_exec powf op lv rv) (fun v => (st, sc, SVal v)) st sc
              end
          end))
    | IUn op x =>
        with_val x st sc (fun st sc v =>
          match op with
          | UReturn => (st, sc, SReturn v)
          | UNot | UUnaryMinus => sig_of_outcome (unop_exec op v) (fun r => (st, sc, SVal r)) st sc
          | UIndirection =>
              match v with
              | VMut loc _ => match nth_error (s_cells st) loc with
                              | Some c => (st, sc, SVal c) | None => (st, sc, SPanic) end
              | _ => (st, sc, SPanic)
              end
          | UFunctionCall =>
              (* create_call: the body runs in the *current* interpreter *)
              match v with
              | VFun fid _ _ =>
                  match nth_error (s_funs st) fid with
                  | Some c => run_body c st sc
                  | None => (st, sc, SPanic)
                  end
              | _ => (st, sc, SPanic)
              end
          | UCollect =>
              match v with
              | VFun _ _ _ =>
                  match pull fuel v st sc [] with
                  | (st, sc, Ok vs, _) => (st, sc, SVal (arr_of vs))
                  | (st, sc, _, s) => (st, sc, s)
                  end
              | _ => (st, sc, SPanic)
              end
          | UIter =>
              match element_type (as_type v) with
              | None => (st, sc, SPanic)
              | Some et =>
                  let '(d, st) := match alloc_default et st with Some ds => ds | None => (VVoid, st) end in
                  match call (p_iter pre) [v; d] st sc with
                  | (st, sc, SVal f) => retyped f (TTup [TBool; et]) st sc
                  | (st, sc, SError _) => (st, sc, SPanic)     (* .unwrap() on the call result *)
                  | r => r
                  end
              end
          | USum | UProduct   (* planted as reducer calls by the checker: unreachable!() *)
          | UAll | UAny | UBitAnd | UBitOr => (st, sc, SPanic)
          end)
    end
  end.

End WithPowf.

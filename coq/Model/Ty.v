(* Ty.v — the type algebra of src/variable/{type,function_type,struct_type,multi_type}.rs
   Definitions only (M1 + M2 of DESIGN.md).

   HashSet / HashMap are lists; the order of the list stands for the iteration
   order the runtime happened to pick. *)
From SSL.Model Require Import Base.

Inductive ty : Type :=
| TBool | TInt | TFloat | TString | TVoid | TAny | TNever
| TFun (ps : list ty) (r : ty)
| TArr (e : ty)
| TTup (ts : list ty)
| TMulti (ms : list ty)
| TMut (e : ty)
| TStruct (fs : list (ident * ty)).

Definition sizes_with {A} (f : A -> nat) (l : list A) : nat :=
  fold_right (fun p acc => f p + acc) 0 l.

Fixpoint size (t : ty) : nat :=
  match t with
  | TFun ps r => S (sizes_with size ps + size r)
  | TArr e | TMut e => S (size e)
  | TTup ts | TMulti ts => S (sizes_with size ts)
  | TStruct fs => S (sizes_with (fun p => size (snd p)) fs)
  | _ => 1
  end.

Definition sizes (l : list ty) := sizes_with size l.
Definition fsizes (l : list (ident * ty)) := sizes_with (fun p => size (snd p)) l.

(* ---------- Rust `==` : unions compare as sets, structs as maps ---------- *)
Fixpoint eqb_f (n : nat) (a b : ty) : bool :=
  match n with
  | 0 => false
  | S n =>
    let sub := fun (l1 l2 : list ty) =>
      forallb (fun x => existsb (fun y => eqb_f n x y) l2) l1 in
    let fsub := fun (l1 l2 : list (ident * ty)) =>
      forallb (fun x => match assoc (fst x) l2 with
                        | Some t => eqb_f n (snd x) t | None => false end) l1 in
    match a, b with
    | TBool, TBool | TInt, TInt | TFloat, TFloat | TString, TString
    | TVoid, TVoid | TAny, TAny | TNever, TNever => true
    | TFun p1 r1, TFun p2 r2 => all2 (eqb_f n) p1 p2 && eqb_f n r1 r2
    | TArr e1, TArr e2 | TMut e1, TMut e2 => eqb_f n e1 e2
    | TTup t1, TTup t2 => all2 (eqb_f n) t1 t2
    | TMulti m1, TMulti m2 =>
        Nat.eqb (length m1) (length m2) && sub m1 m2 && sub m2 m1
    | TStruct f1, TStruct f2 =>
        Nat.eqb (length f1) (length f2) && fsub f1 f2 && fsub f2 f1
    | _, _ => false
    end
  end.

Definition ty_eqb (a b : ty) : bool := eqb_f (size a + size b) a b.

(* ---------- Type::matches, arm for arm ---------- *)
Fixpoint matches_f (n : nat) (a b : ty) : bool :=
  match n with
  | 0 => false
  | S n =>
    match a, b with
    | TNever, _ => true
    | TFun p1 r1, TFun p2 r2 =>
        (* FunctionType::matches: same arity, type2.matches(type1), results *)
        all2 (fun x y => matches_f n y x) p1 p2 && matches_f n r1 r2
    | TArr e1, TArr e2 => matches_f n e1 e2
    | TStruct f1, TStruct f2 =>
        (* StructType::matches: every field of other present in self and matching *)
        forallb (fun kv2 => match assoc (fst kv2) f1 with
                            | Some t1 => matches_f n t1 (snd kv2) | None => false end) f2
    | TMulti ms, _ => forallb (fun m => matches_f n m b) ms
    | _, TMulti ms => existsb (fun m => matches_f n a m) ms
    | _, TAny => true
    | TTup t1, TTup t2 => all2 (matches_f n) t1 t2
    | _, _ => ty_eqb a b
    end
  end.

Definition matches (a b : ty) : bool := matches_f (size a + size b) a b.

(* ---------- Type::concat (the `|` operator) ---------- *)
Definition is_multi (t : ty) : bool := match t with TMulti _ => true | _ => false end.
Definition mem_ty (x : ty) (l : list ty) : bool := existsb (ty_eqb x) l.

Definition concat (a b : ty) : ty :=
  match a, b with
  | TNever, o => o
  | o, TNever => o
  | TAny, _ => TAny
  | _, TAny => TAny
  | _, _ =>
    if ty_eqb a b then a else
    match a, b with
    | TMulti m1, TMulti m2 => TMulti (m1 ++ filter (fun x => negb (mem_ty x m1)) m2)
    | TMulti m1, t => if mem_ty t m1 then TMulti m1 else TMulti (m1 ++ [t])
    | t, TMulti m2 => if mem_ty t m2 then TMulti m2 else TMulti (m2 ++ [t])
    | _, _ => TMulti [a; b]
    end
  end.

(* reduce(Type::concat) over a non-empty iterator; None for the empty one *)
Definition concat_all (l : list ty) : option ty :=
  match l with
  | [] => None
  | x :: rest => Some (fold_left concat rest x)
  end.

(* ---------- Type::conjoin (meet used for parameters) ---------- *)
Fixpoint zip_with {A B C} (f : A -> B -> C) (l1 : list A) (l2 : list B) : list C :=
  match l1, l2 with
  | x :: l1, y :: l2 => f x y :: zip_with f l1 l2
  | _, _ => []
  end.

Fixpoint conjoin_f (n : nat) (a b : ty) : ty :=
  match n with
  | 0 => TNever
  | S n =>
    if ty_eqb a b then a else
    match a, b with
    | o, TAny => o
    | TAny, o => o
    | TArr e1, TArr e2 => TArr (conjoin_f n e1 e2)
    | TTup t1, TTup t2 =>
        if Nat.eqb (length t1) (length t2) then TTup (zip_with (conjoin_f n) t1 t2) else TNever
    | TMulti ms, o =>
        match concat_all (map (fun m => conjoin_f n m o) ms) with Some t => t | None => TNever end
    | o, TMulti ms =>
        match concat_all (map (fun m => conjoin_f n m o) ms) with Some t => t | None => TNever end
    | TFun p1 r1, TFun p2 r2 =>
        if Nat.eqb (length p1) (length p2) then
          let r := conjoin_f n r1 r2 in
          if ty_eqb r TNever then TNever else TFun (zip_with concat p1 p2) r
        else TNever
    | _, _ => TNever
    end
  end.

Definition conjoin (a b : ty) : ty := conjoin_f (size a + size b) a b.

(* ---------- the Option-returning queries (M2) ---------- *)
(* `first = iter.next().unwrap().q()?; iter.map(q).try_fold(first, |acc,c| Some(f acc c?))`
   The empty union (unreachable: see wf_ty) yields None here; theorems that use
   these queries carry wf_ty. *)
Definition fold_opt {A} (f : A -> A -> option A) (l : list (option A)) : option A :=
  match l with
  | [] => None
  | first :: rest =>
      fold_left (fun acc c => match acc, c with
                              | Some a, Some c => f a c
                              | _, _ => None end) rest first
  end.

Definition fold_concat (l : list (option ty)) : option ty :=
  fold_opt (fun a c => Some (concat a c)) l.

Fixpoint index_result (t : ty) : option ty :=
  match t with
  | TArr e => Some e
  | TMulti ms => fold_concat (map index_result ms)
  | TString => Some TString
  | _ => None
  end.

Fixpoint element_type (t : ty) : option ty :=
  match t with
  | TArr e => Some e
  | TMulti ms => fold_concat (map element_type ms)
  | _ => None
  end.

Fixpoint fn_return_type (t : ty) : option ty :=
  match t with
  | TFun _ r => Some r
  | TMulti ms => fold_concat (map fn_return_type ms)
  | _ => None
  end.

(* mut_element_type as coded: on a union the *first* member is asked for its
   element_type (array element!), the others for mut_element_type. *)
Fixpoint mut_element_type (t : ty) : option ty :=
  match t with
  | TMut e => Some e
  | TMulti ms =>
      match ms with
      | [] => None
      | m0 :: rest => fold_concat (element_type m0 :: map mut_element_type rest)
      end
  | _ => None
  end.

(* the evidently intended definition (used to state what the repair must give) *)
Fixpoint mut_element_type_spec (t : ty) : option ty :=
  match t with
  | TMut e => Some e
  | TMulti ms => fold_concat (map mut_element_type_spec ms)
  | _ => None
  end.

Fixpoint params (t : ty) : option (list ty) :=
  match t with
  | TFun ps _ => Some ps
  | TMulti ms =>
      fold_opt (fun acc c => if Nat.eqb (length acc) (length c)
                             then Some (zip_with conjoin acc c) else None)
               (map params ms)
  | _ => None
  end.

Fixpoint flatten_tuple (t : ty) : option (list ty) :=
  match t with
  | TTup ts => Some ts
  | TMulti ms =>
      fold_opt (fun acc c => if Nat.eqb (length acc) (length c)
                             then Some (zip_with concat acc c) else None)
               (map flatten_tuple ms)
  | _ => None
  end.

Fixpoint is_function (t : ty) : bool :=
  match t with TFun _ _ => true | TMulti ms => forallb is_function ms | _ => false end.
Fixpoint is_tuple (t : ty) : bool :=
  match t with TTup _ => true | TMulti ms => forallb is_tuple ms | _ => false end.
Fixpoint is_mut (t : ty) : bool :=
  match t with TMut _ => true | TMulti ms => forallb is_mut ms | _ => false end.

Definition ITERATOR_TYPE : ty := TFun [] (TTup [TBool; TAny]).
Definition is_iterator (t : ty) : bool := matches t ITERATOR_TYPE.
Definition is_struct (t : ty) : bool := matches t (TStruct []).
Definition can_be_indexed (t : ty) : bool := matches t (concat TString (TArr TAny)).

Fixpoint tuple_len (t : ty) : option nat :=
  match t with
  | TTup ts => Some (length ts)
  | TMulti ms =>
      fold_opt (fun acc c => if Nat.eqb acc c then Some acc else None) (map tuple_len ms)
  | _ => None
  end.

Definition min_tuple_len (t : ty) : option nat :=
  match t with
  | TMulti ms =>
      fold_opt (fun acc c => if Nat.ltb acc c then Some acc else Some c) (map tuple_len ms)
  | _ => tuple_len t
  end.

Fixpoint iter_element (t : ty) : option ty :=
  match t with
  | TFun ps r =>
      match ps with
      | _ :: _ => None
      | [] =>
        match flatten_tuple r with
        | Some [t0; t1] => if ty_eqb t0 TBool then Some t1 else None
        | _ => None
        end
      end
  | TMulti ms => fold_concat (map iter_element ms)
  | _ => None
  end.

Fixpoint tuple_element_at (i : nat) (t : ty) : option ty :=
  match t with
  | TTup ts => nth_error ts i
  | TMulti ms => fold_concat (map (tuple_element_at i) ms)
  | _ => None
  end.

Fixpoint field_type (k : ident) (t : ty) : option ty :=
  match t with
  | TStruct fs => assoc k fs
  | TMulti ms => fold_concat (map (field_type k) ms)
  | _ => None
  end.

Fixpoint has_field (k : ident) (t : ty) : bool :=
  match t with
  | TStruct fs => match assoc k fs with Some _ => true | None => false end
  | TMulti ms => forallb (has_field k) ms
  | _ => false
  end.

(* ---------- well-formedness: the invariant every Type built through the
   public API satisfies (unions only arise from concat) ---------- *)
Definition simple (t : ty) : bool :=
  match t with TMulti _ | TAny | TNever => false | _ => true end.

Fixpoint pairwise_neq (l : list ty) : bool :=
  match l with
  | [] => true
  | x :: l => negb (mem_ty x l) && pairwise_neq l
  end.

Fixpoint wf_ty (t : ty) : bool :=
  match t with
  | TFun ps r => forallb wf_ty ps && wf_ty r
  | TArr e | TMut e => wf_ty e
  | TTup ts => forallb wf_ty ts
  | TMulti ms => Nat.leb 2 (length ms) && forallb simple ms && forallb wf_ty ms && pairwise_neq ms
  | TStruct fs => nodup_keys fs && forallb (fun kv => wf_ty (snd kv)) fs
  | _ => true
  end.

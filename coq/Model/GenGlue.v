(* GenGlue.v — the small hand-written vocabulary that the regenerated description of the
   scalar operators (Gen/GenScalar.v, written by translators/scalar2coq.py on every run)
   is expressed in.  Definitions only.

   - [first_arm]: ordered-arm semantics of a Rust `match`: every arm is an `option`
     (None = the pattern or the guard did not accept), the first `Some` is the result;
   - Rust's range `contains` on i64;
   - the vocabulary of the dispatch tables (`match self.op { .. }` of BinOperation /
     UnaryOperation, exec and recreate) and their reading as functions. *)
From SSL.Model Require Import Base Ty Float Value Ops Syntax.
Local Open Scope Z_scope.

Fixpoint first_arm {A : Type} (arms : list (option A)) (default : A) : A :=
  match arms with
  | [] => default
  | Some a :: _ => a
  | None :: rest => first_arm rest default
  end.

(* (lo..=hi).contains(&x)  and  (lo..hi).contains(&x) *)
Definition range_incl_contains (lo hi x : Z) : bool := (lo <=? x) && (x <=? hi).
Definition range_excl_contains (lo hi x : Z) : bool := (lo <=? x) && (x <? hi).

(* ---- dispatch tables ---- *)
(* the Rust modules a table may call into *)
Inductive gmod : Type :=
| M_add | M_subtract | M_multiply | M_divide | M_modulo | M_pow
| M_equal | M_not_equal | M_greater | M_greater_equal | M_lower | M_lower_equal
| M_bitwise_and | M_bitwise_or | M_xor | M_lshift | M_rshift
| M_and | M_or | M_filter | M_map | M_at | M_call | M_partition
| M_not | M_unary_minus | M_indirection | M_sum | M_product | M_collect | M_iter.

(* exec | create_from_instructions (create_from_instruction for prefix operators) *)
Inductive gfn : Type := F_exec | F_create.
(* assign::exec | assign::try_exec *)
Inductive gwrap : Type := W_exec | W_try_exec.

(* the body of one arm; [q] = the call is followed by `?` *)
Inductive gcall : Type :=
| GCall (m : gmod) (f : gfn) (q : bool)                 (* m::f(operands)  /  m::f(operands)? *)
| GOkCall (m : gmod) (f : gfn)                          (* Ok(m::f(operands)) *)
| GAssign (w : gwrap) (q : bool) (m : gmod) (f : gfn)   (* assign::w(lhs, rhs, m::f)  [?] *)
| GAssignSnd (w : gwrap) (q : bool)                     (* assign::w(lhs, rhs, |_, b| b)  [?] *)
| GKeep                                                 (* rebuild the operation unchanged *)
| GUnreachable                                          (* unreachable!() *)
| GReturn                                               (* return Err(ExecStop::Return(var)) *)
| GCallFunction.                                        (* var.into_function().unwrap().exec(interpreter)? *)

Scheme Equality for binop.
Scheme Equality for unop.
Scheme Equality for gmod.
Scheme Equality for gfn.
Scheme Equality for gwrap.

(* a Rust match on a field-less enum: the first arm with the same constructor, else the catch-all *)
Fixpoint lookup_arm {K : Type} (eqb : K -> K -> bool) (k : K) (t : list (K * gcall))
    (default : option gcall) : option gcall :=
  match t with
  | [] => default
  | (k', c) :: t => if eqb k k' then Some c else lookup_arm eqb k t default
  end.

Section Dispatch.
Variables A B : Type.
Variable fn_of : gmod -> option (A -> A -> B).

(* what a table computes for operator [o] when the arm is a plain module call of [f] *)
Definition dispatch2 {K} (eqb : K -> K -> bool) (t : list (K * gcall)) (d : option gcall) (f : gfn)
    (o : K) (a b : A) : option B :=
  match lookup_arm eqb o t d with
  | Some (GCall m f' _) | Some (GOkCall m f') =>
      if gfn_beq f f' then option_map (fun g => g a b) (fn_of m) else None
  | _ => None
  end.

(* what a compound assignment applies to (current cell content, right operand) *)
Definition dispatch_assign {K} (eqb : K -> K -> bool) (t : list (K * gcall)) (d : option gcall)
    (o : K) (cur rhs : A) : option B :=
  match lookup_arm eqb o t d with
  | Some (GAssign _ _ m F_exec) => option_map (fun g => g cur rhs) (fn_of m)
  | _ => None
  end.
End Dispatch.

Section Dispatch1.
Variables A B : Type.
Variable fn_of : gmod -> option (A -> B).
Definition dispatch1 {K} (eqb : K -> K -> bool) (t : list (K * gcall)) (d : option gcall) (f : gfn)
    (o : K) (a : A) : option B :=
  match lookup_arm eqb o t d with
  | Some (GCall m f' _) | Some (GOkCall m f') =>
      if gfn_beq f f' then option_map (fun g => g a) (fn_of m) else None
  | _ => None
  end.
End Dispatch1.

(* wrapper and `?` of a compound assignment must fit the result type of the function applied:
   assign::exec takes FnOnce(..) -> Variable, assign::try_exec takes FnOnce(..) -> Result<..> *)
Definition returns_result (rr : list (gmod * gfn * bool)) (m : gmod) (f : gfn) : option bool :=
  match find (fun x => gmod_beq (fst (fst x)) m && gfn_beq (snd (fst x)) f) rr with
  | Some (_, _, b) => Some b
  | None => None
  end.

Definition wrapper_fits (rr : list (gmod * gfn * bool)) (c : gcall) : bool :=
  match c with
  | GAssign w q m f =>
      match returns_result rr m f with
      | Some r => Bool.eqb r q && Bool.eqb r (match w with W_try_exec => true | W_exec => false end)
      | None => false
      end
  | GCall m f q =>
      match returns_result rr m f with
      | Some r => if gfn_beq f F_exec then Bool.eqb r q else true
      | None => true      (* a module outside the translated files *)
      end
  | _ => true
  end.

(* the operators of Model/Ops.v that [op_exec] / [unop_exec] define *)
Definition pure_binop (o : binop) : bool :=
  match o with
  | Add | Subtract | Multiply | Divide | Modulo | Pow | Equal | NotEqual | Greater | GreaterOrEqual
  | Lower | LowerOrEqual | BitwiseAnd | BitwiseOr | Xor | LShift | RShift => true
  | _ => false
  end.
Definition pure_unop (o : unop) : bool :=
  match o with UNot | UUnaryMinus => true | _ => false end.
(* the binary operators with a create_from_instructions of their own in the translated files *)
Definition foldable_binop (o : binop) : bool :=
  match o with
  | Add | Subtract | Multiply | Divide | Modulo | Equal | NotEqual | Greater | GreaterOrEqual
  | Lower | LowerOrEqual | BitwiseAnd | BitwiseOr | Xor | LShift | RShift => true
  | _ => false
  end.

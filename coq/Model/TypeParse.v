(* TypeParse.v — `Type::from_str` of src/variable/type.rs on top of the PEG model
   (definitions only): run rule `type` of the regenerated grammar and convert the
   first pair as `impl From<Pair> for Type` / `FunctionType` / `StructType` do.
   A minimal, self-contained piece of M10 (Front.v): everything carries a tp_ prefix.

   - `Type::from_str` takes `pairs.next().unwrap()` and never looks at the rest of the
     input: a text that merely *starts* with a type is accepted.
   - [Panic] wherever the code unwraps a missing child or meets a rule it has no arm
     for (`panic!("Type cannot be built from rule")`). *)
From SSL.Model Require Import Base Ty Peg.
From SSL.Gen Require Import GenGrammar.

(* pair.as_str(): the slice [s, e) of the input *)
Definition tp_slice (input : list Z) (s e : nat) : list Z := firstn (e - s) (skipn s input).

(* HashMap::insert while collecting: a later duplicate key overwrites the value *)
Fixpoint tp_insert (k : ident) (v : ty) (l : list (ident * ty)) : list (ident * ty) :=
  match l with
  | [] => [(k, v)]
  | (k', v') :: l' => if ident_eqb k k' then (k', v) :: l' else (k', v') :: tp_insert k v l'
  end.

Fixpoint tp_ty_of_tree (input : list Z) (t : tree) {struct t} : outcome ty :=
  match t with
  | Node r s e kids =>
    let many :=
      fix many (l : list tree) : outcome (list ty) :=
        match l with
        | [] => Ok []
        | k :: l' =>
            obind (tp_ty_of_tree input k) (fun t => obind (many l') (fun ts => Ok (t :: ts)))
        end in
    (* itertools `.tuples()`: (key, value) pairs, an odd leftover is dropped *)
    let fields :=
      fix fields (l : list tree) (acc : list (ident * ty)) : outcome (list (ident * ty)) :=
        match l with
        | Node _ ks ke _ :: v :: l' =>
            obind (tp_ty_of_tree input v) (fun t =>
              fields l' (tp_insert (tp_slice input ks ke) t acc))
        | _ => Ok acc
        end in
    if N.eqb r R_bool_type then Ok TBool
    else if N.eqb r R_int_type then Ok TInt
    else if N.eqb r R_float_type then Ok TFloat
    else if N.eqb r R_string_type then Ok TString
    else if N.eqb r R_void then Ok TVoid
    else if N.eqb r R_function_type then
      (* FunctionType::from: pairs.next().unwrap().into_inner() are the parameters,
         pairs.next().unwrap() is the result *)
      match kids with
      | Node _ _ _ pkids :: rt :: _ =>
          obind (many pkids) (fun ps => obind (tp_ty_of_tree input rt) (fun r => Ok (TFun ps r)))
      | _ => Panic
      end
    else if N.eqb r R_array_type then
      match kids with
      | [] => Ok (TArr TNever)
      | k :: _ => obind (tp_ty_of_tree input k) (fun e => Ok (TArr e))
      end
    else if N.eqb r R_tuple_type then obind (many kids) (fun ts => Ok (TTup ts))
    else if N.eqb r R_multi then
      obind (many kids) (fun ts =>
        match concat_all ts with Some t => Ok t | None => Panic end)
    else if N.eqb r R_any then Ok TAny
    else if N.eqb r R_never then Ok TNever
    else if N.eqb r R_mut_type then
      match kids with
      | k :: _ => obind (tp_ty_of_tree input k) (fun e => Ok (TMut e))
      | [] => Panic
      end
    else if N.eqb r R_struct_type then obind (fields kids []) (fun fs => Ok (TStruct fs))
    else Panic
  end.

(* Type::from_str *)
Definition tp_parse_type (input : list Z) : outcome ty :=
  match parse_rule grammar R_type input with
  | Ok (_, t :: _) => tp_ty_of_tree input t
  | Ok (_, []) => Panic
  | Err e => Err e
  | Panic => Panic
  | OutOfFuel => OutOfFuel
  end.

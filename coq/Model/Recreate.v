(* Recreate.v — the constant folding / propagation / pruning pass (all `Recreate`
   impls, M12).  It is also how closures capture: free names are looked up in the
   creating interpreter's scopes and substituted as constants.
   Err e = the pass reports ExecError e;  Panic = a Rust panic. *)
From SSL.Model Require Import Base Ty Float Value Ops Seq Syntax Rt.
Local Open Scope Z_scope.

Section WithPowf.
Variable powf : fbits -> fbits -> fbits.

(* LocalVariable::from(&Instruction) *)
Definition lvar_of_instr (i : instr) : outcome lvar :=
  match i with
  | IAnonFn ps _ ret => Ok (LFunction ps ret)
  | ILocal _ lv => Ok lv
  | IVar v => Ok (LVariable v)
  | _ => obind (rt i) (fun t => Ok (LOther t))
  end.

Definition resolve_name (sc : scopes) (e : lenv) (n : name) : outcome instr :=
  match lenv_get n e with
  | Some (LVariable v) => Ok (IVar v)
  | Some lv => Ok (ILocal n lv)
  | None => match scopes_get n sc with
            | Some v => Ok (IVar v)
            | None => Panic       (* "Tried to get variable that doest exist" *)
            end
  end.

Definition all_vars (l : list instr) : option (list value) :=
  fold_right (fun i acc => match i, acc with IVar v, Some r => Some (v :: r) | _, _ => None end)
             (Some []) l.

Definition lift_val (o : outcome value) : outcome instr := obind o (fun v => Ok (IVar v)).

(* create_from_instructions of each binary operator, after both operands were recreated *)
Definition fold_bin (op : binop) (l r : instr) : outcome instr :=
  match op with
  | Add | Subtract | Multiply | Equal | NotEqual | Greater | GreaterOrEqual | Lower | LowerOrEqual
  | BitwiseAnd | BitwiseOr | Xor =>
      match l, r with
      | IVar a, IVar b => lift_val (op_exec powf op a b)
      | _, _ => Ok (IBin op l r)
      end
  | Divide | Modulo =>
      match l, r with
      | IVar a, IVar b => lift_val (op_exec powf op a b)
      | _, IVar (VInt 0) => Err (if match op with Divide => true | _ => false end
                                 then E_ZeroDivision else E_ZeroModulo)
      | _, _ => Ok (IBin op l r)
      end
  | LShift | RShift =>
      match l, r with
      | IVar a, IVar b => lift_val (op_exec powf op a b)
      | _, IVar (VInt s) => if (0 <=? s) && (s <=? 63) then Ok (IBin op l r) else Err E_OverflowShift
      | _, _ => Ok (IBin op l r)
      end
  | At =>
      match l, r with
      | IVar a, IVar b => lift_val (at_exec a b)
      | IArray es _, IVar (VInt i) =>
          let n := Z.of_nat (length es) in
          if (- n <=? i) && (i <? n) then Ok (IBin op l r) else Err E_IndexOutOfBounds
      | _, _ => Ok (IBin op l r)
      end
  | _ => Ok (IBin op l r)
  end.

Definition fold_un (op : unop) (i : instr) : outcome instr :=
  match op, i with
  | UNot, IVar v | UUnaryMinus, IVar v => lift_val (unop_exec op v)
  | _, _ => Ok (IUn op i)
  end.

Definition repeat_value (v : value) (len : Z) : value := VArr (as_type v) (repeat v (Z.to_nat len)).

Definition fold_repeat (v len : instr) : outcome instr :=
  match v, len with
  | _, IVar (VInt n) =>
      if n <? 0 then Err E_NegativeLength
      else match v with
           | IVar x => Ok (IVar (repeat_value x n))
           | _ => Ok (IArrayRepeat v len)
           end
  | _, _ => Ok (IArrayRepeat v len)
  end.

Definition zip_insert {A} (f : A -> outcome lvar) (ids : list name) (xs : list A) (e : lenv) : outcome lenv :=
  (fix go (ids : list name) (xs : list A) (e : lenv) : outcome lenv :=
     match ids, xs with
     | n :: ids, x :: xs => obind (f x) (fun lv => go ids xs (lenv_insert n lv e))
     | _, _ => Ok e
     end) ids xs e.

(* DestructTuple::insert_local_variables *)
Definition destruct_insert (ids : list name) (i : instr) (e : lenv) : outcome lenv :=
  match i with
  | IVar (VTup vs) => zip_insert (fun v => Ok (LVariable v)) ids vs e
  | ITuple es => zip_insert lvar_of_instr ids es e
  | _ => obind (rt i) (fun t =>
         match flatten_tuple t with
         | Some ts => zip_insert (fun t => Ok (LOther t)) ids ts e
         | None => zip_insert (fun t => Ok (LOther t)) ids (map (fun _ => TNever) ids) e
         end)
  end.

Definition R := outcome (instr * lenv).

Fixpoint recreate (fuel : nat) (sc : scopes) (e : lenv) (i : instr) {struct fuel} : R :=
  match fuel with
  | O => OutOfFuel
  | S fuel =>
    let rec := recreate fuel sc in
    (* recreate_instructions: left to right, threading the environment *)
    let rec_list :=
      fix go (l : list instr) (e : lenv) : outcome (list instr * lenv) :=
        match l with
        | [] => Ok ([], e)
        | x :: l => obind (rec e x) (fun '(x', e) =>
                    obind (go l e) (fun '(l', e) => Ok (x' :: l', e)))
        end in
    let rec_opt := fun (o : option instr) (e : lenv) =>
        match o with
        | None => Ok (None, e)
        | Some x => obind (rec e x) (fun '(x', e) => Ok (Some x', e))
        end in
    match i with
    | ILocal n _ => obind (resolve_name sc e n) (fun i' => Ok (i', e))
    | IVar _ | IBreak | IContinue => Ok (i, e)
    | IAnonFn ps body ret =>
        obind (rec_list body (lenv_push_fn (params_layer ps) None ret e)) (fun '(body', _) =>
        Ok (IAnonFn ps body' ret, e))
    | IFnDecl n ps body ret =>
        let e := lenv_insert n (LFunction ps ret) e in
        obind (rec_list body (lenv_push_fn (params_layer ps) (Some n) ret e)) (fun '(body', _) =>
        Ok (IFnDecl n ps body' ret, e))
    | IArray es et =>
        obind (rec_list es e) (fun '(es', e) =>
        match all_vars es' with
        | Some vs => Ok (IVar (arr_of vs), e)
        | None => Ok (IArray es' et, e)
        end)
    | IArrayRepeat v len =>
        obind (rec e v) (fun '(v', e) => obind (rec e len) (fun '(len', e) =>
        obind (fold_repeat v' len') (fun r => Ok (r, e))))
    | IBlock body =>
        obind (rec_list body (lenv_push e)) (fun '(body', _) => Ok (IBlock body', e))
    | IDestruct ids x =>
        obind (rec e x) (fun '(x', e) =>
        obind (destruct_insert ids x' e) (fun e => Ok (IDestruct ids x', e)))
    | IFieldAccess x f => obind (rec e x) (fun '(x', e) => Ok (IFieldAccess x' f, e))
    | IIfElse c t f =>
        obind (rec e c) (fun '(c', e) =>
        match c' with
        | IVar (VBool true) => rec e t
        | IVar (VBool false) => rec e f
        | _ => obind (rec e t) (fun '(t', e) => obind (rec e f) (fun '(f', e) =>
               Ok (IIfElse c' t' f', e)))
        end)
    | ILoop b => obind (rec e b) (fun '(b', e) => Ok (ILoop b', e))
    | IMatch x arms =>
        obind (rec e x) (fun '(x', e) =>
        obind ((fix go (l : list arm) (e : lenv) : outcome (list arm * lenv) :=
                  match l with
                  | [] => Ok ([], e)
                  | a :: l =>
                      obind (match a with
                             | ArmType n t b =>
                                 obind (rec (lenv_insert n (LOther t) (lenv_push e)) b) (fun '(b', _) =>
                                 Ok (ArmType n t b', e))
                             | ArmValue vs b =>
                                 obind (rec_list vs e) (fun '(vs', e) =>
                                 obind (rec e b) (fun '(b', e) => Ok (ArmValue vs' b', e)))
                             | ArmOther b => obind (rec e b) (fun '(b', e) => Ok (ArmOther b', e))
                             end) (fun '(a', e) =>
                      obind (go l e) (fun '(l', e) => Ok (a' :: l', e)))
                  end) arms e) (fun '(arms', e) => Ok (IMatch x' arms', e)))
    | IMut t x => obind (rec e x) (fun '(x', e) => Ok (IMut t x', e))
    | IReduce it init f =>
        obind (rec e it) (fun '(it', e) => obind (rec e init) (fun '(init', e) =>
        obind (rec e f) (fun '(f', e) => Ok (IReduce it' init' f', e))))
    | ISet n x =>
        obind (rec e x) (fun '(x', e) =>
        obind (lvar_of_instr x') (fun lv => Ok (ISet n x', lenv_insert n lv e)))
    | ISetIfElse n t x ifm els =>
        obind (rec e x) (fun '(x', e) =>
        obind (rec (lenv_insert n (LOther t) (lenv_push e)) ifm) (fun '(ifm', _) =>
        obind (rec e els) (fun '(els', e) => Ok (ISetIfElse n t x' ifm' els', e))))
    | ISlicing l a b c =>
        obind (rec e l) (fun '(l', e) => obind (rec_opt a e) (fun '(a', e) =>
        obind (rec_opt b e) (fun '(b', e) => obind (rec_opt c e) (fun '(c', e) =>
        Ok (ISlicing l' a' b' c', e)))))
    | IStruct fs =>
        obind ((fix go (l : list (name * instr)) (e : lenv) : outcome (list (name * instr) * lenv) :=
                  match l with
                  | [] => Ok ([], e)
                  | (k, x) :: l => obind (rec e x) (fun '(x', e) =>
                                   obind (go l e) (fun '(l', e) => Ok ((k, x') :: l', e)))
                  end) fs e) (fun '(fs', e) => Ok (IStruct fs', e))
    | ITuple es =>
        obind (rec_list es e) (fun '(es', e) =>
        match all_vars es' with
        | Some vs => Ok (IVar (VTup vs), e)
        | None => Ok (ITuple es', e)
        end)
    | ITupleAccess x k => obind (rec e x) (fun '(x', e) => Ok (ITupleAccess x' k, e))
    | ITypeFilter x t => obind (rec e x) (fun '(x', e) => Ok (ITypeFilter x' t, e))
    | IBin And l r =>
        obind (rec e l) (fun '(l', e) =>
        match l' with
        | IVar (VBool true) => rec e r
        | IVar _ => Ok (IVar (VBool false), e)
        | _ => obind (rec e r) (fun '(r', e) => Ok (IBin And l' r', e))
        end)
    | IBin Or l r =>
        obind (rec e l) (fun '(l', e) =>
        match l' with
        | IVar (VBool true) => Ok (IVar (VBool true), e)
        | IVar _ => rec e r
        | _ => obind (rec e r) (fun '(r', e) => Ok (IBin Or l' r', e))
        end)
    | IBin op l r =>
        obind (rec e l) (fun '(l', e) => obind (rec e r) (fun '(r', e) =>
        obind (fold_bin op l' r') (fun x => Ok (x, e))))
    | IUn op x =>
        obind (rec e x) (fun '(x', e) => obind (fold_un op x') (fun r => Ok (r, e)))
    end
  end.

End WithPowf.

Local Close Scope Z_scope.
(* a fuel that always suffices: the pass is structurally recursive *)
Fixpoint isize (i : instr) : nat :=
  let ls := fix ls (l : list instr) : nat := match l with [] => 0 | x :: l => isize x + ls l end in
  let os := fun (o : option instr) => match o with None => 0 | Some x => isize x end in
  S (match i with
     | IAnonFn _ body _ | IFnDecl _ _ body _ | IBlock body | IArray body _ | ITuple body => ls body
     | IArrayRepeat a b | IBin _ a b => isize a + isize b
     | IDestruct _ x | IFieldAccess x _ | ILoop x | IMut _ x | ISet _ x | ITupleAccess x _
     | ITypeFilter x _ | IUn _ x => isize x
     | IIfElse a b c | IReduce a b c => isize a + isize b + isize c
     | ISetIfElse _ _ a b c => isize a + isize b + isize c
     | ISlicing l a b c => isize l + os a + os b + os c
     | IStruct fs => (fix go (l : list (name * instr)) : nat :=
                        match l with [] => 0 | (_, x) :: l => isize x + go l end) fs
     | IMatch x arms =>
         isize x + (fix go (l : list arm) : nat :=
                      match l with
                      | [] => 0
                      | ArmType _ _ b :: l | ArmOther b :: l => S (isize b) + go l
                      | ArmValue vs b :: l => S (ls vs + isize b) + go l
                      end) arms
     | _ => 0
     end).

(* Rt.v — ReturnType::return_type for every instruction (the static type is not
   stored in the tree: it is recomputed from it).  Panic = an `unwrap()` on None. *)
From SSL.Model Require Import Base Ty Float Value Ops Syntax.

Definition oty := outcome ty.
(* `.unwrap_or(Type::Never)`: an operand of type `!` never yields a value, so the operation has type `!` *)
Definition lift_opt (o : option ty) : oty := match o with Some t => Ok t | None => Ok TNever end.

Definition bin_rt (op : binop) (l r : ty) : oty :=
  match op with
  | Add => add_return_type l r
  | Equal | NotEqual | And | Or | Greater | GreaterOrEqual | Lower | LowerOrEqual => Ok TBool
  | Subtract | Multiply | Divide | Pow | Filter | BitwiseAnd | BitwiseOr | Xor => Ok l
  | Partition =>
      match iter_element l with
      | Some e => Ok (TTup [TArr e; TArr e]) | None => Ok (TTup [TArr TNever; TArr TNever]) end
  | Map =>
      match fn_return_type r with
      | Some e => Ok (TFun [] (TTup [TBool; e])) | None => Ok (TFun [] (TTup [TBool; TNever])) end
  | At => lift_opt (index_result l)
  | FunctionCall => lift_opt (fn_return_type l)
  | Assign => Ok r
  | LShift | RShift | Modulo => Ok TInt
  | _ => lift_opt (mut_element_type_spec l)
  end.

Definition un_rt (op : unop) (t : ty) : oty :=
  match op with
  | UNot | UUnaryMinus => Ok t
  | UIndirection => lift_opt (mut_element_type_spec t)
  | UFunctionCall => lift_opt (fn_return_type t)
  | UCollect => match iter_element t with Some e => Ok (TArr e) | None => Ok (TArr TNever) end
  | UIter => match element_type t with Some e => Ok (TFun [] (TTup [TBool; e])) | None => Ok (TFun [] (TTup [TBool; TNever])) end
  | USum | UProduct | UAll | UAny | UBitAnd | UBitOr | UReturn => Ok TNever
  end.

(* HashMap collect: a later duplicate key overwrites *)
Definition struct_ty_insert (k : ident) (t : ty) (fs : list (ident * ty)) : list (ident * ty) :=
  filter (fun kv => negb (ident_eqb k (fst kv))) fs ++ [(k, t)].

Fixpoint rt (i : instr) : oty :=
  match i with
  | IVar v => Ok (as_type v)
  | ILocal _ lv => Ok (lvar_type lv)
  | IAnonFn ps _ ret => Ok (TFun (map snd ps) ret)
  | IFnDecl _ ps _ ret => Ok (TFun (map snd ps) ret)
  | IArray _ et => Ok (TArr et)
  | IArrayRepeat v _ => obind (rt v) (fun t => Ok (TArr t))
  | IBlock body =>
      (fix last (l : list instr) : oty :=
         match l with
         | [] => Ok TVoid
         | [x] => rt x
         | _ :: l => last l
         end) body
  | IBreak | IContinue => Ok TNever
  | IDestruct _ i => rt i
  | IFieldAccess i f => obind (rt i) (fun t => lift_opt (field_type f t))
  | IIfElse _ t f => obind (rt t) (fun a => obind (rt f) (fun b => Ok (concat a b)))
  | ILoop _ => Ok TVoid
  | IMatch _ arms =>
      (fix go (l : list arm) (acc : option ty) : oty :=
         match l with
         | [] => lift_opt acc
         | a :: l =>
             obind (match a with ArmType _ _ i | ArmValue _ i | ArmOther i => rt i end)
                   (fun t => go l (Some (match acc with Some u => concat u t | None => t end)))
         end) arms None
  | IMut t _ => Ok (TMut t)
  | IReduce _ init f =>
      obind (rt f) (fun ft => obind (lift_opt (fn_return_type ft)) (fun r =>
      obind (rt init) (fun it => Ok (concat r it))))
  | ISet _ i => rt i
  | ISetIfElse _ _ _ ifm els => obind (rt ifm) (fun a => obind (rt els) (fun b => Ok (concat a b)))
  | ISlicing l _ _ _ => rt l
  | IStruct fs =>
      (fix go (l : list (name * instr)) (acc : list (ident * ty)) : oty :=
         match l with
         | [] => Ok (TStruct acc)
         | (k, i) :: l => obind (rt i) (fun t => go l (struct_ty_insert k t acc))
         end) fs []
  | ITuple es =>
      obind ((fix go (l : list instr) : outcome (list ty) :=
         match l with
         | [] => Ok []
         | x :: l => obind (rt x) (fun t => obind (go l) (fun ts => Ok (t :: ts)))
         end) es) (fun ts => Ok (TTup ts))
  | ITupleAccess i k => obind (rt i) (fun t => lift_opt (tuple_element_at k t))
  | ITypeFilter _ t => Ok (TFun [] (TTup [TBool; t]))
  | IBin op l r => obind (rt l) (fun a => obind (rt r) (fun b => bin_rt op a b))
  | IUn op i => obind (rt i) (fun t => un_rt op t)
  end.

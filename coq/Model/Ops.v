(* Ops.v — value-level operators of src/instruction/bin_op/** and prefix_op.rs (M5).
   [op_exec] / [unop_exec] follow the `exec` functions arm for arm; [Panic] marks
   the panic!/unreachable! arms.  Rust integer primitives are modelled on unbounded
   Z with explicit wrap (trusted reading of core's i64 methods, held by lane L2). *)
From SSL.Model Require Import Base Ty Float Value.
Local Open Scope Z_scope.

(* ---- Rust i64 primitives ---- *)
Definition rs_wrapping_add (a b : Z) : Z := wrap64 (a + b).
Definition rs_wrapping_sub (a b : Z) : Z := wrap64 (a - b).
Definition rs_wrapping_mul (a b : Z) : Z := wrap64 (a * b).
Definition rs_wrapping_neg (a : Z) : Z := wrap64 (- a).
(* wrapping_div / wrapping_rem panic on a zero divisor in Rust; the callers test for
   zero first, and [op_exec_no_panic] shows the panicking case is never reached *)
Definition rs_wrapping_div (a b : Z) : Z := wrap64 (Z.quot a b).
Definition rs_wrapping_rem (a b : Z) : Z := wrap64 (Z.rem a b).
Definition rs_shl (a s : Z) : Z := wrap64 (a * 2 ^ s).       (* for 0 <= s <= 63 *)
Definition rs_shr (a s : Z) : Z := Z.shiftr a s.             (* arithmetic, 0 <= s <= 63 *)
Definition rs_not (a : Z) : Z := Z.lnot a.
Definition rs_as_u32 (a : Z) : Z := a mod 4294967296.
Definition rs_as_u64 (a : Z) : Z := a mod two64.

(* the exponentiation loop of math/pow.rs (square and multiply over a u64 exponent) *)
Fixpoint pow_loop (fuel : nat) (base exp acc : Z) : Z :=
  match fuel with
  | O => acc
  | S fuel =>
      if exp <=? 0 then acc
      else
        let acc := if Z.odd exp then rs_wrapping_mul acc base else acc in
        pow_loop fuel (rs_wrapping_mul base base) (Z.shiftr exp 1) acc
  end.
Definition rs_wrapping_pow_u64 (base exp : Z) : Z := pow_loop 64 base exp 1.
(* what `base.wrapping_pow(exp as u32)` computed before the repair *)
Definition rs_wrapping_pow_u32trunc (base exp : Z) : Z := wrap64 (base ^ (rs_as_u32 exp)).

Inductive binop : Type :=
| Add | Subtract | Multiply | Divide | Modulo | Pow
| Equal | NotEqual | Greater | GreaterOrEqual | Lower | LowerOrEqual
| And | Or | BitwiseAnd | BitwiseOr | Xor | LShift | RShift
| Filter | Map | At | FunctionCall
| Assign | AssignAdd | AssignSubtract | AssignMultiply | AssignDivide | AssignModulo
| AssignLShift | AssignRShift | AssignBitwiseAnd | AssignBitwiseOr | AssignXor | AssignPow
| Partition.

Inductive unop : Type :=
| UAll | UAny | UBitAnd | UBitOr | USum | UProduct | UNot | UUnaryMinus | UReturn
| UIndirection | UFunctionCall | UCollect | UIter.

(* Array::concat *)
Definition array_concat (t1 : ty) (l1 : list value) (t2 : ty) (l2 : list value) : value :=
  match l1, l2 with
  | [], _ => VArr t2 l2
  | _, [] => VArr t1 l1
  | _, _ => VArr (concat t1 t2) (l1 ++ l2)
  end.

Section WithPowf.
(* f64::powf is libm, not IEEE-specified: external *)
Variable powf : fbits -> fbits -> fbits.

(* the pure binary operators (no interpreter needed) *)
Definition op_exec (op : binop) (lhs rhs : value) : outcome value :=
  match op with
  | Add =>
      match lhs, rhs with
      | VInt a, VInt b => Ok (VInt (rs_wrapping_add a b))
      | VFloat a, VFloat b => Ok (VFloat (fadd a b))
      | VString a, VString b => Ok (VString (a ++ b))
      | VArr t1 l1, VArr t2 l2 => Ok (array_concat t1 l1 t2 l2)
      | _, _ => Panic
      end
  | Subtract =>
      match lhs, rhs with
      | VInt a, VInt b => Ok (VInt (rs_wrapping_sub a b))
      | VFloat a, VFloat b => Ok (VFloat (fsub a b))
      | _, _ => Panic
      end
  | Multiply =>
      match lhs, rhs with
      | VInt a, VInt b => Ok (VInt (rs_wrapping_mul a b))
      | VFloat a, VFloat b => Ok (VFloat (fmul a b))
      | _, _ => Panic
      end
  | Divide =>
      match lhs, rhs with
      | _, VInt 0 => Err E_ZeroDivision
      | VInt a, VInt b => Ok (VInt (rs_wrapping_div a b))
      | VFloat a, VFloat b => Ok (VFloat (fdiv a b))
      | _, _ => Panic
      end
  | Modulo =>
      match lhs, rhs with
      | _, VInt 0 => Err E_ZeroModulo
      | VInt a, VInt b => Ok (VInt (rs_wrapping_rem a b))
      | _, _ => Panic
      end
  | Pow =>
      match lhs, rhs with
      | VInt a, VInt e =>
          if e <? 0 then Err E_NegativeExponent else Ok (VInt (rs_wrapping_pow_u64 a (rs_as_u64 e)))
      | _, VInt e => if e <? 0 then Err E_NegativeExponent else Panic
      | VFloat a, VFloat b => Ok (VFloat (powf a b))
      | _, _ => Panic
      end
  | Equal => Ok (VBool (val_eqb lhs rhs))
  | NotEqual => Ok (VBool (negb (val_eqb lhs rhs)))
  | Greater =>
      match lhs, rhs with
      | VInt a, VInt b => Ok (VBool (b <? a))
      | VFloat a, VFloat b => Ok (VBool (fgt a b))
      | _, _ => Panic
      end
  | GreaterOrEqual =>
      match lhs, rhs with
      | VInt a, VInt b => Ok (VBool (b <=? a))
      | VFloat a, VFloat b => Ok (VBool (fge a b))
      | _, _ => Panic
      end
  | Lower =>
      match lhs, rhs with
      | VInt a, VInt b => Ok (VBool (a <? b))
      | VFloat a, VFloat b => Ok (VBool (flt a b))
      | _, _ => Panic
      end
  | LowerOrEqual =>
      match lhs, rhs with
      | VInt a, VInt b => Ok (VBool (a <=? b))
      | VFloat a, VFloat b => Ok (VBool (fle a b))
      | _, _ => Panic
      end
  | BitwiseAnd =>
      match lhs, rhs with
      | VInt a, VInt b => Ok (VInt (Z.land a b))
      | VBool a, VBool b => Ok (VBool (andb a b))
      | _, _ => Panic
      end
  | BitwiseOr =>
      match lhs, rhs with
      | VInt a, VInt b => Ok (VInt (Z.lor a b))
      | VBool a, VBool b => Ok (VBool (orb a b))
      | _, _ => Panic
      end
  | Xor =>
      match lhs, rhs with
      | VInt a, VInt b => Ok (VInt (Z.lxor a b))
      | VBool a, VBool b => Ok (VBool (xorb a b))
      | _, _ => Panic
      end
  | LShift =>
      match lhs, rhs with
      | VInt a, VInt s =>
          if (0 <=? s) && (s <=? 63) then Ok (VInt (rs_shl a s)) else Err E_OverflowShift
      | _, _ => Panic
      end
  | RShift =>
      match lhs, rhs with
      | VInt a, VInt s =>
          if (0 <=? s) && (s <=? 63) then Ok (VInt (rs_shr a s)) else Err E_OverflowShift
      | _, _ => Panic
      end
  | _ => Panic   (* not a pure value-level operator: handled by Seq / Exec / Cells *)
  end.

Definition unop_exec (op : unop) (v : value) : outcome value :=
  match op with
  | UNot =>
      match v with
      | VBool b => Ok (VBool (negb b))
      | VInt a => Ok (VInt (rs_not a))
      | _ => Panic
      end
  | UUnaryMinus =>
      match v with
      | VInt a => Ok (VInt (rs_wrapping_neg a))
      | VFloat a => Ok (VFloat (fneg a))
      | _ => Panic
      end
  | _ => Panic
  end.

End WithPowf.

(* the operator each compound assignment applies *)
Definition assign_base (op : binop) : option binop :=
  match op with
  | AssignAdd => Some Add | AssignSubtract => Some Subtract | AssignMultiply => Some Multiply
  | AssignDivide => Some Divide | AssignModulo => Some Modulo | AssignLShift => Some LShift
  | AssignRShift => Some RShift | AssignBitwiseAnd => Some BitwiseAnd
  | AssignBitwiseOr => Some BitwiseOr | AssignXor => Some Xor | AssignPow => Some Pow
  | _ => None
  end.

(* ---- admissibility tests and result types (creation-time checks) ---- *)
Definition pair_ty (a b : ty) : ty := TTup [a; b].
Definition ACC_INT : ty := pair_ty TInt TInt.
Definition ACC_NUM : ty := concat (pair_ty TInt TInt) (pair_ty TFloat TFloat).
Definition ACC_ADD : ty :=
  concat (concat (concat (pair_ty TInt TInt) (pair_ty TFloat TFloat)) (pair_ty TString TString))
         (pair_ty (TArr TAny) (TArr TAny)).
Definition ACC_BIT : ty := concat (pair_ty TInt TInt) (pair_ty TBool TBool).

Definition can_be_used_int (l r : ty) : bool := matches (pair_ty l r) ACC_INT.
Definition can_be_used_num (l r : ty) : bool := matches (pair_ty l r) ACC_NUM.
Definition can_be_used_add (l r : ty) : bool := matches (pair_ty l r) ACC_ADD.
Definition can_be_used_bit (l r : ty) : bool := matches (pair_ty l r) ACC_BIT.

Definition add_return_type (l r : ty) : outcome ty :=
  match element_type l with
  | None => Ok l
  | Some le => match element_type r with
               | Some re => Ok (TArr (concat le re))
               | None => Ok (TArr (concat le TNever))   (* unwrap_or(Type::Never) *)
               end
  end.

(* Check.v — creation = checking: Instruction::new / new_expression and every
   create_instruction (M11), from the surface AST (post-Pratt) to the instruction
   tree, with LocalVariables threaded exactly as the code threads `&mut`.
   Err E_Reject = the checker returns an Error (variant not modelled);
   Panic = the checker panics. *)
From SSL.Model Require Import Base Ty Float Value Ops Seq Syntax Rt Recreate.
Local Open Scope Z_scope.

Definition E_Reject : Z := 100.
Definition reject {A} : outcome A := Err E_Reject.

Inductive prefix_op := PNot | PNeg | PDeref.

(* surface syntax after the Pratt parser *)
Inductive sx : Type :=
| XIdent (n : name)
| XConst (v : value)
| XMut (t : option ty) (e : sx)
| XTuple (es : list sx)
| XArray (es : list sx)
| XArrayRepeat (v len : sx)
| XFunction (ps : params) (ret : option ty) (body : list sline)
| XStruct (fs : list (name * option sx))
| XMod (body : list sline)
| XPrefix (op : prefix_op) (e : sx)
| XInfix (op : binop) (l r : sx)
| XReduce (it init f : sx)
| XAt (e i : sx)
| XSlice (e : sx) (a b c : option sx)
| XCall (f : sx) (args : list sx)
| XTupleAccess (e : sx) (k : nat)
| XFieldAccess (e : sx) (f : name)
| XTypeFilter (e : sx) (t : ty)
| XPostfix (op : unop) (e : sx)
with sstm : Type :=
| SExpr (e : sx)
| SBlock (body : list sline)
| SIfElse (c : sx) (t : sstm) (f : option sstm)
| SSetIfElse (n : name) (t : ty) (e : sx) (ifm : sstm) (els : option sstm)
| SMatch (e : sx) (arms : list sarm)
| SRet (e : option sstm)
| SLoop (b : sstm)
| SWhile (c : sx) (b : sstm)
| SWhileSet (n : name) (t : ty) (e : sx) (b : sstm)
| SFor (n : name) (e : sx) (b : sstm)
| SBrk
| SCont
with sline : Type :=
| LFnDecl (n : name) (ps : params) (ret : option ty) (body : list sline)
| LSet (n : name) (s : sstm)
| LDestruct (ids : list name) (s : sstm)
| LStm (s : sstm)
with sarm : Type :=
| AType (n : name) (t : ty) (b : sstm)
| AValue (vs : list sx) (b : sstm)
| AOther (b : sstm).

(* function values the checker plants for `$&& $|| $& $|` *)
Record reducers : Type := mkReducers { r_all : value; r_any : value; r_and : value; r_or : value;
  (* `$+` / `$*`: (accepted iterator type, reducer) in the order the implementation lists them *)
  r_sums : list (ty * value); r_products : list (ty * value) }.

(* reduce.rs::plant — the reducer call chosen by the STATIC type yt of the iterator yi: the reducer
   whose iterator type yt admits; a `match` over the admitted ones when there are several; the
   first reducer of the list when yt admits none (element type `!`) *)
Definition n_plant : name := [105; 116; 101; 114].   (* "iter" *)
Definition plant_call (f : value) (yi : instr) : instr := IBin FunctionCall (IVar f) (ITuple [yi]).
Definition plant_reducer (rs : list (ty * value)) (yi : instr) (yt : ty) : outcome instr :=
  match filter (fun kf => matches (fst kf) yt) rs with
  | [] => match rs with (_, f) :: _ => Ok (plant_call f yi) | [] => Panic end
  | [(_, f)] => Ok (plant_call f yi)
  | adm => Ok (IMatch yi (map (fun kf => ArmType n_plant (fst kf)
                                  (plant_call (snd kf) (ILocal n_plant (LOther (fst kf))))) adm))
  end.

(* ---- admissibility of binary operators (bin_op.rs::can_be_used) ---- *)
Definition assign_ok_single (lhs rhs : ty) (cbu : ty -> ty -> bool) (rtf : ty -> ty -> outcome ty) : outcome bool :=
  match mut_element_type_spec lhs with
  | None => Ok false
  | Some vt =>
      let c := cbu vt rhs in
      obind (rtf vt rhs) (fun r => Ok (c && matches r vt))
  end.

(* cells are invariant: a target of type `mut A | mut B` must admit the assignment member by member *)
Definition assign_ok (lhs rhs : ty) (cbu : ty -> ty -> bool) (rtf : ty -> ty -> outcome ty) : outcome bool :=
  match lhs with
  | TMulti ms =>
      fold_left (fun (acc : outcome bool) (m : ty) =>
                   obind acc (fun a : bool => if a then assign_ok_single m rhs cbu rtf else Ok false))
                ms (Ok true)
  | _ => assign_ok_single lhs rhs cbu rtf
  end.

Definition arith_assign_rt (l r : ty) : outcome ty :=
  if matches (TArr TNever) l then Ok l else Ok r.

Definition filter_ok (l r : ty) : bool :=
  match iter_element l with
  | None => false
  | Some e => matches r (TFun [e] TBool)
  end.
Definition map_ok (l r : ty) : bool :=
  match iter_element l with
  | None => false
  | Some e => matches r (TFun [e] TAny)
  end.

Definition can_be_used (op : binop) (l r : ty) : outcome bool :=
  match op with
  | Add => Ok (can_be_used_add l r)
  | Subtract | Multiply | Divide | Pow | Lower | LowerOrEqual | Greater | GreaterOrEqual =>
      Ok (can_be_used_num l r)
  | LShift | RShift | Modulo => Ok (can_be_used_int l r)
  | Equal | NotEqual | At | FunctionCall => Ok true
  | And | Or => Ok (ty_eqb l TBool && ty_eqb r TBool)
  | BitwiseAnd | BitwiseOr | Xor => Ok (can_be_used_bit l r)
  | Filter | Partition => Ok (filter_ok l r)
  | Map => Ok (map_ok l r)
  | Assign => assign_ok l r (fun _ _ => true) (fun _ x => Ok x)
  | AssignAdd => assign_ok l r can_be_used_add add_return_type
  | AssignSubtract | AssignMultiply | AssignDivide | AssignPow =>
      assign_ok l r can_be_used_num arith_assign_rt
  | AssignModulo | AssignLShift | AssignRShift => assign_ok l r can_be_used_int arith_assign_rt
  | AssignBitwiseAnd | AssignBitwiseOr | AssignXor => assign_ok l r can_be_used_bit arith_assign_rt
  end.

Definition ACC_NOT : ty := concat TInt TBool.
Definition ACC_NEG : ty := concat TInt TFloat.
Definition ACC_SUM : ty :=
  concat (concat (TFun [] (TTup [TBool; TInt])) (TFun [] (TTup [TBool; TFloat])))
         (TFun [] (TTup [TBool; TString])).
Definition ACC_PRODUCT : ty := concat (TFun [] (TTup [TBool; TInt])) (TFun [] (TTup [TBool; TFloat])).

Definition args_ok (ps : list ty) (args : list ty) : bool :=
  Nat.eqb (length ps) (length args) && all2 (fun a p => matches a p) args ps.

(* Match::is_covering_type *)
Definition arm_covers (arms : list arm) (t : ty) : bool :=
  existsb (fun a => match a with
                    | ArmValue _ _ => false
                    | ArmOther _ => true
                    | ArmType _ vt _ => matches t vt
                    end) arms.
Definition match_covers (arms : list arm) (t : ty) : bool :=
  match t with
  | TMulti ms =>
      (* members of a union are never unions themselves *)
      forallb (fun m => match m with
                        | TMulti ms' => forallb (arm_covers arms) ms'
                        | _ => arm_covers arms m end) ms
  | _ => arm_covers arms t
  end.

Definition n_iter : name := [36; 105; 116; 101; 114].   (* "$iter" *)
Definition n_conv : name := [36; 99; 111; 110].          (* "$con" *)

Definition is_const (i : instr) : bool := match i with IVar _ => true | _ => false end.

(* LocalVariables::create_instructions: non-last constant statements are dropped *)
Definition drop_consts (l : list instr) : list instr :=
  match rev l with
  | [] => []
  | lst :: front => rev (filter (fun i => negb (is_const i)) front) ++ [lst]
  end.

Definition C := outcome (instr * lenv).

(* `body.iter().map(return_type).any(|t| t == Never)`: lazy, left to right *)
Fixpoint has_never (l : list instr) : outcome bool :=
  match l with
  | [] => Ok false
  | y :: l => obind (rt y) (fun t => if ty_eqb t TNever then Ok true else has_never l)
  end.

Definition missing_return (r : ty) (body : list instr) : outcome bool :=
  if matches TVoid r then Ok false else obind (has_never body) (fun h => Ok (negb h)).

Section WithPre.
Variable red : reducers.

Fixpoint check_x (fuel : nat) (sc : scopes) (e : lenv) (x : sx) {struct fuel} : outcome instr :=
  match fuel with
  | O => OutOfFuel
  | S fuel =>
    let cx := check_x fuel sc e in
    let cx_list := fix go (l : list sx) : outcome (list instr) :=
        match l with
        | [] => Ok []
        | y :: l => obind (cx y) (fun i => obind (go l) (fun is => Ok (i :: is)))
        end in
    let cx_opt := fun (o : option sx) =>
        match o with None => Ok None | Some y => obind (cx y) (fun i => Ok (Some i)) end in
    let rts := fix go (l : list instr) : outcome (list ty) :=
        match l with
        | [] => Ok []
        | y :: l => obind (rt y) (fun t => obind (go l) (fun ts => Ok (t :: ts)))
        end in
    match x with
    | XIdent n =>
        match lenv_get n e with
        | Some (LVariable v) => Ok (IVar v)
        | Some lv => Ok (ILocal n lv)
        | None => match scopes_get n sc with Some v => Ok (IVar v) | None => reject end
        end
    | XConst v => Ok (IVar v)
    | XMut None y => obind (cx y) (fun i => obind (rt i) (fun t => Ok (IMut t i)))
    | XMut (Some t) y =>
        obind (cx y) (fun i => obind (rt i) (fun it =>
        if matches it t then Ok (IMut t i) else reject))
    | XTuple es => obind (cx_list es) (fun is => Ok (ITuple is))
    | XArray es =>
        obind (cx_list es) (fun is => obind (rts is) (fun ts =>
        Ok (IArray is (match concat_all ts with Some t => t | None => TNever end))))
    | XArrayRepeat v len =>
        obind (cx v) (fun vi => obind (cx len) (fun li => obind (rt li) (fun lt =>
        if matches lt TInt then Ok (IArrayRepeat vi li) else reject)))
    | XFunction ps ret body =>
        let r := match ret with Some t => t | None => TVoid end in
        obind (check_lines fuel sc (lenv_push_fn (params_layer ps) None r e) body) (fun '(is, _) =>
        let is := drop_consts is in
        obind (missing_return r is) (fun miss =>
        if miss then reject else Ok (IAnonFn ps is r)))
    | XStruct fs =>
        obind ((fix go (l : list (name * option sx)) : outcome (list (name * instr)) :=
                  match l with
                  | [] => Ok []
                  | (k, None) :: l => obind (cx (XIdent k)) (fun i => obind (go l) (fun r => Ok ((k, i) :: r)))
                  | (k, Some y) :: l => obind (cx y) (fun i => obind (go l) (fun r => Ok ((k, i) :: r)))
                  end) fs) (fun fs' => Ok (IStruct fs'))
    | XMod body =>
        obind (check_lines fuel sc (lenv_push e) body) (fun '(is, e') =>
        let lay := match e' with l :: _ => l_vars l | [] => [] end in
        Ok (IBlock (drop_consts is ++ [IStruct (map (fun kv => (fst kv, ILocal (fst kv) (snd kv))) (rev lay))])))
    | XPrefix op y =>
        obind (cx y) (fun i => obind (rt i) (fun t =>
        match op with
        | PNot => if matches t ACC_NOT then Ok (IUn UNot i) else reject
        | PNeg => if matches t ACC_NEG then Ok (IUn UUnaryMinus i) else reject
        | PDeref => if is_mut t then Ok (IUn UIndirection i) else reject
        end))
    | XInfix op l r =>
        obind (cx l) (fun li => obind (cx r) (fun ri =>
        obind (rt li) (fun lt => obind (rt ri) (fun rtt =>
        obind (can_be_used op lt rtt) (fun ok =>
        if ok then Ok (IBin op li ri) else reject)))))
    | XReduce it init f =>
        (* create_infix builds lhs and rhs first, then Reduce::create_instruction the initial value *)
        obind (cx it) (fun iti => obind (cx f) (fun fi => obind (cx init) (fun ini =>
        obind (rt iti) (fun itt =>
        match iter_element itt with
        | None => reject
        | Some el =>
            obind (rt fi) (fun ft =>
            match fn_return_type ft with
            | None => reject
            | Some r =>
                obind (rt ini) (fun int_ =>
                let acc := concat (concat int_ el) r in
                if matches ft (TFun [acc; el] r) then Ok (IReduce iti ini fi) else reject)
            end)
        end))))
    | XAt y i =>
        obind (cx y) (fun yi => obind (cx i) (fun ii =>
        obind (rt yi) (fun yt => obind (rt ii) (fun it =>
        if negb (ty_eqb it TInt) then reject
        else if ty_eqb yt TNever || negb (can_be_indexed yt) then reject
        else Ok (IBin At yi ii)))))
    | XSlice y a b c =>
        obind (cx y) (fun yi => obind (rt yi) (fun yt =>
        if negb (can_be_indexed yt) then reject else
        obind (cx_opt a) (fun ai => obind (cx_opt b) (fun bi => obind (cx_opt c) (fun ci =>
        match ai, bi, ci with
        | None, None, None => Ok yi
        | _, _, _ =>
            let chk := fun (o : option instr) =>
                match o with
                | None => Ok true
                | Some i => obind (rt i) (fun t => Ok (ty_eqb t TInt))
                end in
            obind (chk ai) (fun oa => obind (chk bi) (fun ob => obind (chk ci) (fun oc =>
            if oa && ob && oc then Ok (ISlicing yi ai bi ci) else reject)))
        end)))))
    | XCall f args =>
        obind (cx f) (fun fi => obind (cx_list args) (fun ais => obind (rts ais) (fun ats =>
        let build := Ok (IBin FunctionCall fi (ITuple ais)) in
        match fi with
        | IVar (VFun _ ps _) => if args_ok ps ats then build else reject
        | ILocal _ (LFunction ps _) => if args_ok (map snd ps) ats then build else reject
        | IAnonFn ps _ _ => if args_ok (map snd ps) ats then build else reject
        | _ =>
            obind (rt fi) (fun ft =>
            if negb (is_function ft) then reject else
            match Ty.params ft with
            | None => reject
            | Some ps => if args_ok ps ats then build else reject
            end)
        end)))
    | XTupleAccess y k =>
        obind (cx y) (fun yi => obind (rt yi) (fun yt =>
        if negb (is_tuple yt) then reject else
        match min_tuple_len yt with
        | None => Panic
        | Some len => if Nat.leb len k then reject else Ok (ITupleAccess yi k)
        end))
    | XFieldAccess y f =>
        obind (cx y) (fun yi => obind (rt yi) (fun yt =>
        if negb (is_struct yt) then reject
        else if negb (has_field f yt) then reject
        else Ok (IFieldAccess yi f)))
    | XTypeFilter y t =>
        obind (cx y) (fun yi => obind (rt yi) (fun yt =>
        if is_iterator yt && (match of_type t with Some _ => true | None => false end)
        then Ok (ITypeFilter yi t) else reject))
    | XPostfix op y =>
        obind (cx y) (fun yi => obind (rt yi) (fun yt =>
        let plant := fun (f : value) => Ok (IBin FunctionCall (IVar f) (ITuple [yi])) in
        let never := ty_eqb yt TNever in
        let noelem := match iter_element yt with Some _ => false | None => true end in
        match op with
        | USum => if negb noelem && matches yt ACC_SUM then plant_reducer (r_sums red) yi yt else reject
        | UProduct => if negb noelem && matches yt ACC_PRODUCT then plant_reducer (r_products red) yi yt else reject
        | UAll => if matches yt (TFun [] (TTup [TBool; TBool])) then plant (r_all red) else reject
        | UAny => if matches yt (TFun [] (TTup [TBool; TBool])) then plant (r_any red) else reject
        | UBitAnd => if matches yt (TFun [] (TTup [TBool; TInt])) then plant (r_and red) else reject
        | UBitOr => if matches yt (TFun [] (TTup [TBool; TInt])) then plant (r_or red) else reject
        | UCollect => if negb noelem && matches yt ITERATOR_TYPE then Ok (IUn UCollect yi) else reject
        | UIter => if negb never && matches yt (TArr TAny) then Ok (IUn UIter yi) else reject
        | _ => Panic
        end))
    end
  end

with check_s (fuel : nat) (sc : scopes) (e : lenv) (s : sstm) {struct fuel} : C :=
  match fuel with
  | O => OutOfFuel
  | S fuel =>
    let cs := check_s fuel sc in
    let cx := check_x fuel sc in
    match s with
    | SExpr x => obind (cx e x) (fun i => Ok (i, e))
    | SBlock body =>
        obind (check_lines fuel sc (lenv_push e) body) (fun '(is, _) => Ok (IBlock (drop_consts is), e))
    | SBrk => if lenv_in_loop e then Ok (IBreak, e) else reject
    | SCont => if lenv_in_loop e then Ok (IContinue, e) else reject
    | SIfElse c t f =>
        obind (cx e c) (fun ci => obind (rt ci) (fun ct =>
        if negb (ty_eqb ct TBool) then reject else
        obind (cs e t) (fun '(ti, e) =>
        obind (match f with
               | None => Ok (IVar VVoid, e)
               | Some f => cs e f end) (fun '(fi, e) => Ok (IIfElse ci ti fi, e)))))
    | SSetIfElse n t x ifm els =>
        obind (cx e x) (fun xi =>
        obind (cs (lenv_insert n (LOther t) (lenv_push e)) ifm) (fun '(mi, _) =>
        obind (match els with
               | None => Ok (IVar VVoid, e)
               | Some f => cs e f end) (fun '(ei, e) => Ok (ISetIfElse n t xi mi ei, e))))
    | SMatch x arms =>
        obind (cx e x) (fun xi => obind (rt xi) (fun xt =>
        obind ((fix go (l : list sarm) (e : lenv) : outcome (list arm * lenv) :=
                  match l with
                  | [] => Ok ([], e)
                  | a :: l =>
                      obind (match a with
                             | AType n t b =>
                                 obind (cs (lenv_insert n (LOther t) (lenv_push e)) b) (fun '(bi, _) =>
                                 Ok (ArmType n t bi, e))
                             | AValue vs b =>
                                 obind ((fix gv (l : list sx) : outcome (list instr) :=
                                           match l with
                                           | [] => Ok []
                                           | y :: l => obind (cx e y) (fun i => obind (gv l) (fun r => Ok (i :: r)))
                                           end) vs) (fun vis =>
                                 obind (cs e b) (fun '(bi, e) => Ok (ArmValue vis bi, e)))
                             | AOther b => obind (cs e b) (fun '(bi, e) => Ok (ArmOther bi, e))
                             end) (fun '(a', e) => obind (go l e) (fun '(l', e) => Ok (a' :: l', e)))
                  end) arms e) (fun '(arms', e) =>
        if match_covers arms' xt then Ok (IMatch xi arms', e) else reject)))
    | SRet r =>
        match lenv_function e with
        | None => reject
        | Some (_, fret) =>
            obind (match r with
                   | None => Ok (IVar VVoid, e)
                   | Some s => cs e s end) (fun '(ri, e) =>
            obind (rt ri) (fun t =>
            if matches t fret then Ok (IUn UReturn ri, e) else reject))
        end
    | SLoop b =>
        let old := lenv_in_loop e in
        obind (cs (lenv_set_loop true e) b) (fun '(bi, e) => Ok (ILoop bi, lenv_set_loop old e))
    | SWhile c b =>
        obind (cx e c) (fun ci => obind (rt ci) (fun ct =>
        if negb (ty_eqb ct TBool) then reject else
        let old := lenv_in_loop e in
        obind (cs (lenv_set_loop true e) b) (fun '(bi, e) =>
        let e := lenv_set_loop old e in
        match ci with
        | IVar v => if val_eqb v (VBool true) then Ok (ILoop bi, e) else Ok (IVar VVoid, e)
        | _ => Ok (ILoop (IIfElse ci bi IBreak), e)
        end)))
    | SWhileSet n t x b =>
        let old := lenv_in_loop e in
        let e1 := lenv_set_loop true e in
        obind (cx e1 x) (fun xi =>
        obind (cs (lenv_insert n (LOther t) (lenv_push e1)) b) (fun '(bi, _) =>
        Ok (ILoop (ISetIfElse n t xi bi IBreak), lenv_set_loop old e1)))
    | SFor n x b =>
        obind (cx e x) (fun xi => obind (rt xi) (fun xt =>
        match iter_element xt with
        | None => reject
        | Some el =>
            let e1 := lenv_insert n (LOther el) (lenv_set_loop true (lenv_push e)) in
            obind (cs e1 b) (fun '(bi, _) =>
            let call := IBin FunctionCall (ILocal n_iter (LOther (TFun [] (TTup [TBool; TAny])))) (IVar (VTup [])) in
            Ok (IBlock [ISet n_iter xi;
                        ILoop (IBlock [IDestruct [n_conv; n] call;
                                       IIfElse (ILocal n_conv (LOther TBool)) bi IBreak])], e))
        end))
    end
  end

with check_lines (fuel : nat) (sc : scopes) (e : lenv) (l : list sline) {struct fuel}
  : outcome (list instr * lenv) :=
  match fuel with
  | O => OutOfFuel
  | S fuel =>
    match l with
    | [] => Ok ([], e)
    | ln :: l =>
        obind (match ln with
               | LStm s => check_s fuel sc e s
               | LSet n s =>
                   obind (check_s fuel sc e s) (fun '(i, e) =>
                   obind (lvar_of_instr i) (fun lv => Ok (ISet n i, lenv_insert n lv e)))
               | LDestruct ids s =>
                   obind (check_s fuel sc e s) (fun '(i, e) => obind (rt i) (fun t =>
                   if negb (is_tuple t) then reject else
                   match tuple_len t with
                   | None => reject
                   | Some len =>
                       if negb (Nat.eqb len (length ids)) then reject else
                       obind (destruct_insert ids i e) (fun e => Ok (IDestruct ids i, e))
                   end))
               | LFnDecl n ps ret body =>
                   let r := match ret with Some t => t | None => TVoid end in
                   let e := lenv_insert n (LFunction ps r) e in
                   obind (check_lines fuel sc (lenv_push_fn (params_layer ps) (Some n) r e) body) (fun '(is, _) =>
                   let is := drop_consts is in
                   obind (missing_return r is) (fun miss =>
                   if miss then reject else Ok (IFnDecl n ps is r, e)))
               end) (fun '(i, e) =>
        obind (check_lines fuel sc e l) (fun '(is, e) => Ok (i :: is, e)))
    end
  end.

End WithPre.

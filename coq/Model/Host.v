(* Host.v — the embedding API of src/function.rs / call.rs: Function::create_call. *)
From SSL.Model Require Import Base Ty Float Value Ops Syntax Check.

(* call::create_from_variables: arity, then each argument's runtime type against the parameter *)
Definition host_call_ok (ps : list ty) (args : list value) : bool :=
  Nat.eqb (length ps) (length args) && all2 (fun a p => matches (as_type a) p) args ps.

(* the instructions create_call builds (after the repair: own name first, then parameters,
   then the in-place call), to be run as one Block in a fresh interpreter *)
Definition host_call_instrs (f : value) (fname : name) (ps : params) (args : list value) : list instr :=
  ISet fname (IVar f)
  :: (fix go (ps : params) (args : list value) : list instr :=
        match ps, args with
        | (n, _) :: ps, a :: args => ISet n (IVar a) :: go ps args
        | _, _ => []
        end) ps args
  ++ [IUn UFunctionCall (IVar f)].

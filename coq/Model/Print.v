(* Print.v — how types and values are rendered as text (M7 of DESIGN.md).
   Definitions only.

   Mirrors
   - `Display for Type`            src/variable/type.rs (the #[display] attributes),
     function_type.rs, multi_type.rs, struct_type.rs, lib.rs (`join_with`)
   - `Variable::string(depth)` / `Variable::debug(depth)`   src/variable.rs,
     `Array::string`, `Mut::string`, `Display for Function` / `Param` / `Params`
   - Rust's `impl Debug for str` (core::fmt, char::escape_debug_ext with
     escape_grapheme_extended = true, escape_single_quote = false,
     escape_double_quote = true) and `debug_string` of src/variable.rs on top of it
   - `Display`/`Debug` for i64 (decimal digits, leading '-')

   Text is `list Z` (Unicode scalar values).  Union members and struct fields are
   printed in LIST order: the list order stands for the iteration order of the
   HashSet / HashMap, so a statement quantified over all permutations of those lists
   is a statement about all print orders.

   What is external to SimpleSL enters as Section variables:
   - [P c]: 'Rust escapes c as \u{..} in a str Debug' (= grapheme-extend or not
     printable according to core::unicode tables); it is consulted only after the
     table-independent escapes \0 \t \r \n \\ and backslash-dquote exactly as escape_debug_ext does;
   - [dbg_float] / [disp_float]: `{:?}` and `{}` of an f64;
   - [fnames id]: the parameter names of function [id] ([value] carries only the
     parameter *types* of a function; the names are needed by `Display for Function`);
   - [cell loc]: the current content of cell [loc] ([VMut] is a reference). *)
From SSL.Model Require Import Base Ty Float Value.

Local Open Scope Z_scope.

(* ---------------------------------------------------------------- text helpers *)

(* slice::join / itertools::join *)
Fixpoint join_with (sep : list Z) (l : list (list Z)) : list Z :=
  match l with
  | [] => []
  | [x] => x
  | x :: rest => x ++ sep ++ join_with sep rest
  end.

Definition s_comma : list Z := [44; 32].          (* ', ' *)
Definition s_bar : list Z := [124].               (* '|'  *)
Definition s_arrow : list Z := [45; 62].          (* '->' *)
Definition s_bool : list Z := [98; 111; 111; 108].
Definition s_int : list Z := [105; 110; 116].
Definition s_float : list Z := [102; 108; 111; 97; 116].
Definition s_string : list Z := [115; 116; 114; 105; 110; 103].
Definition s_any : list Z := [97; 110; 121].
Definition s_never : list Z := [33].              (* '!' *)
Definition s_void : list Z := [40; 41].           (* '()' *)
Definition s_mut : list Z := [109; 117; 116; 32]. (* 'mut ' *)
Definition s_struct_open : list Z := [115; 116; 114; 117; 99; 116; 123]. (* 'struct{' *)
Definition s_true : list Z := [116; 114; 117; 101].
Definition s_false : list Z := [102; 97; 108; 115; 101].
Definition s_dots : list Z := [46; 46].           (* '..' *)

Definition paren (s : list Z) : list Z := 40 :: s ++ [41].

(* ---------------------------------------------------------------- Display for Type *)

Fixpoint print_ty (t : ty) : list Z :=
  match t with
  | TBool => s_bool
  | TInt => s_int
  | TFloat => s_float
  | TString => s_string
  | TVoid => s_void
  | TAny => s_any
  | TNever => s_never
  | TFun ps r =>
      (* '({})->{}', join_with(params, ', '), result parenthesised iff it is a union *)
      paren (join_with s_comma (map print_ty ps)) ++ s_arrow ++
      (if is_multi r then paren (print_ty r) else print_ty r)
  | TArr e =>
      (* '[{}]', '' if the element type matches `!` *)
      91 :: (if matches e TNever then [] else print_ty e) ++ [93]
  | TTup ts => paren (join_with s_comma (map print_ty ts))
  | TMulti ms => join_with s_bar (map print_ty ms)
  | TMut e =>
      (* 'mut {}', content parenthesised iff it is a union *)
      s_mut ++ (if is_multi e then paren (print_ty e) else print_ty e)
  | TStruct fs =>
      (* 'struct{{{}}}', '{key}: {value}' joined by ', ' *)
      s_struct_open ++
      join_with s_comma (map (fun kv => fst kv ++ [58; 32] ++ print_ty (snd kv)) fs) ++ [125]
  end.

(* ---------------------------------------------------------------- integers *)

Definition digit_char (d : Z) : Z := if d <? 10 then 48 + d else 87 + d.  (* 0-9 a-z *)

(* most significant digit first; [fuel] bounds the number of digits *)
Fixpoint digits_f (fuel : nat) (base n : Z) (acc : list Z) : list Z :=
  match fuel with
  | O => acc
  | S f =>
      let acc' := digit_char (n mod base) :: acc in
      if n <? base then acc' else digits_f f base (n / base) acc'
  end.

(* digits of a non-negative number in base 2..36 (a number < 2^k has <= k digits) *)
Definition print_radix (base n : Z) : list Z :=
  digits_f (S (Z.to_nat (Z.log2 n))) base n [].

Definition print_i64 (z : Z) : list Z :=
  if z <? 0 then 45 :: print_radix 10 (- z) else print_radix 10 z.

Definition print_nat (n : nat) : list Z := print_radix 10 (Z.of_nat n).

(* the straightforward readers the theorems are stated against *)
Definition digit_value (c : Z) : option Z :=
  if (48 <=? c) && (c <=? 57) then Some (c - 48)
  else if (97 <=? c) && (c <=? 122) then Some (c - 87)
  else if (65 <=? c) && (c <=? 90) then Some (c - 55)
  else None.

(* fold the digits; None on a character that is not a digit of the base or on '' *)
Fixpoint parse_radix_acc (base : Z) (s : list Z) (acc : Z) : option Z :=
  match s with
  | [] => Some acc
  | c :: s' =>
      match digit_value c with
      | Some d => if d <? base then parse_radix_acc base s' (acc * base + d) else None
      | None => None
      end
  end.

Definition parse_radix (base : Z) (s : list Z) : option Z :=
  match s with [] => None | _ => parse_radix_acc base s 0 end.

Definition parse_decimal (s : list Z) : option Z :=
  match s with
  | 45 :: s' => option_map Z.opp (parse_radix 10 s')
  | _ => parse_radix 10 s
  end.

(* `.replace([' ', '_'], '')` of parse_int_with_radix *)
Definition strip_sep (s : list Z) : list Z :=
  filter (fun c => negb (Z.eqb c 32 || Z.eqb c 95)) s.

(* parse_int_with_radix: i64::from_str_radix on the stripped digits, with a '-' put in front
   of them when the literal is a `minus_int` (no other sign can get here: the grammar gives
   digits and '_' only): the mathematical value, or None = IntegerOverflow *)
Definition read_int_lit (base : Z) (negative : bool) (s : list Z) : option Z :=
  match parse_radix base (strip_sep s) with
  | Some v =>
      if negative then (if v <=? two63 then Some (- v) else None)
      else (if v <=? MAX_INT then Some v else None)
  | None => None
  end.

(* Rule::minus_int in TryFrom<Pair> for Variable *)
Definition read_minus_int (digits : list Z) : option Z := read_int_lit 10 true digits.

(* the same before the repair fa6d4dd: the magnitude was parsed as an i64, then negated *)
Definition read_minus_int_old (digits : list Z) : option Z :=
  option_map Z.opp (read_int_lit 10 false digits).

(* the text '-ddd' / 'ddd' as `Variable::from_str` reads it *)
Definition read_int_text (s : list Z) : option Z :=
  match s with
  | 45 :: s' => read_minus_int s'
  | _ => read_int_lit 10 false s
  end.

Definition read_int_text_old (s : list Z) : option Z :=
  match s with
  | 45 :: s' => read_minus_int_old s'
  | _ => read_int_lit 10 false s
  end.

(* ---------------------------------------------------------------- str Debug *)

Section Printer.
  Variable P : Z -> bool.
  Variable dbg_float : fbits -> list Z.
  Variable disp_float : fbits -> list Z.
  Variable fnames : nat -> list ident.
  Variable cell : nat -> option value.

  (* char::escape_debug_ext, arm for arm *)
  Definition escape_char_rust (c : Z) : list Z :=
    if c =? 0 then [92; 48]            (* \0 *)
    else if c =? 9 then [92; 116]      (* \t *)
    else if c =? 13 then [92; 114]     (* \r *)
    else if c =? 10 then [92; 110]     (* \n *)
    else if c =? 92 then [92; 92]      (* \\ *)
    else if c =? 34 then [92; 34]      (* backslash dquote *)
    else if P c then [92; 117; 123] ++ print_radix 16 c ++ [125]   (* \u{hex} *)
    else [c].

  (* `impl Debug for str`: what Rust's {:?} prints *)
  Definition escape_debug_rust_body (s : list Z) : list Z := flat_map escape_char_rust s.
  Definition escape_debug_rust (s : list Z) : list Z := 34 :: escape_debug_rust_body s ++ [34].

  (* `debug_string` of src/variable.rs (repair 1aee34b): the Rust text is scanned once more;
     a backslash and the character after it are copied, except that the escape \0 becomes
     \u{0} *)
  Fixpoint fix_nul (s : list Z) : list Z :=
    match s with
    | [] => []
    | c :: s1 =>
        if negb (c =? 92) then c :: fix_nul s1
        else match s1 with
             | [] => [92]
             | e :: s2 =>
                 if e =? 48 then [92; 117; 123; 48; 125] ++ fix_nul s2
                 else 92 :: e :: fix_nul s2
             end
    end.

  Definition debug_string (s : list Z) : list Z := fix_nul (escape_debug_rust s).

  (* the same text defined directly (proved equal in Lemmas/PrintLemmas.v) *)
  Definition escape_char (c : Z) : list Z :=
    if c =? 0 then [92; 117; 123; 48; 125] else escape_char_rust c.
  Definition escape_debug_body (s : list Z) : list Z := flat_map escape_char s.
  Definition escape_debug (s : list Z) : list Z := 34 :: escape_debug_body s ++ [34].

  (* ---------------------------------------------------------------- values *)

  (* '{name}: {type}' for each parameter; the names come from [fnames] *)
  Fixpoint print_params (names : list ident) (ps : list ty) : list (list Z) :=
    match ps with
    | [] => []
    | p :: ps' =>
        match names with
        | n :: names' => (n ++ [58; 32] ++ print_ty p) :: print_params names' ps'
        | [] => ([58; 32] ++ print_ty p) :: print_params [] ps'
        end
    end.

  Definition print_bool (b : bool) : list Z := if b then s_true else s_false.

  (* [val_text k dbg v]: Variable::debug(depth) if [dbg], Variable::string(depth)
     otherwise, where k = 6 - depth (k = 0 stands for every depth > 5).
     - string(depth) answers '..' when depth > 5, BEFORE looking at the value;
     - debug(depth) prints ints and floats with {:?} and strings with debug_string at
       ANY depth, and delegates to string(depth) otherwise;
     - arrays, tuples and cells show their contents at depth + 1, structs at the
       SAME depth. *)
  Fixpoint val_text (k : nat) : bool -> value -> list Z :=
    fix go (dbg : bool) (v : value) {struct v} : list Z :=
      let str : list Z :=
        match k with
        | O => s_dots
        | S k' =>
            match v with
            | VBool b => print_bool b
            | VInt z => print_i64 z
            | VFloat f => disp_float f
            | VString s => s
            | VFun id ps r =>
                (* Display for Function: '({params})->{return_type}', the result is
                   NOT parenthesised here *)
                paren (join_with s_comma (print_params (fnames id) ps)) ++ s_arrow ++ print_ty r
            | VArr _ vs => 91 :: join_with s_comma (map (val_text k' true) vs) ++ [93]
            | VTup vs => paren (join_with s_comma (map (val_text k' true) vs))
            | VMut loc t =>
                s_mut ++ print_ty t ++ [32] ++
                match cell loc with Some c => val_text k' true c | None => [] end
            | VStruct fs =>
                s_struct_open ++
                join_with s_comma (map (fun kv => fst kv ++ [61] ++ go true (snd kv)) fs) ++ [125]
            | VVoid => s_void
            end
        end in
      if dbg then
        match v with
        | VInt z => print_i64 z
        | VFloat f => dbg_float f
        | VString s => debug_string s
        | _ => str
        end
      else str.

  (* `{:?}` and `{}` of a Variable (depth 0) *)
  Definition debug_val (v : value) : list Z := val_text 6 true v.
  Definition display_val (v : value) : list Z := val_text 6 false v.
End Printer.

(* Top.v — Code::parse and Code::exec over the surface AST (src/code.rs). *)
From SSL.Model Require Import Base Ty Float Value Ops Seq Syntax Rt Recreate Exec Check.

Section WithEnv.
Variable powf : fbits -> fbits -> fbits.
Variable pre : prelude.
Variable red : reducers.

(* Code::parse: every top-level statement is created in a scratch layer (dropped) and then
   recreated against the base LocalVariables (the parse interpreter's variables are [sc]) *)
Fixpoint parse_top (fuel : nat) (sc : scopes) (e : lenv) (l : list sline) : outcome (list instr * lenv) :=
  match l with
  | [] => Ok ([], e)
  | ln :: l =>
      obind (check_lines red fuel sc (lenv_push e) [ln]) (fun '(is, _) =>
      match is with
      | [i] =>
          obind (recreate powf fuel sc e i) (fun '(i', e) =>
          obind (parse_top fuel sc e l) (fun '(is', e) => Ok (i' :: is', e)))
      | _ => Panic
      end)
  end.

(* Code::exec_unscoped: statements in order, stopping at the first runtime error *)
Fixpoint run_code (fuel : nat) (st : store) (sc : scopes) (l : list instr) (last : value) : res :=
  match l with
  | [] => (st, sc, SVal last)
  | i :: l =>
      match exec powf pre fuel st sc i with
      | (st, sc, SVal v) => run_code fuel st sc l v
      | (st, sc, SError e) => (st, sc, SError e)
      | (st, sc, SFuel) => (st, sc, SFuel)
      | (st, sc, _) => (st, sc, SPanic)   (* "Return statement outside of function body" etc. *)
      end
  end.

(* static type of a parsed program *)
Definition code_rt (l : list instr) : outcome ty :=
  match rev l with
  | [] => Ok TVoid
  | i :: _ => rt i
  end.

End WithEnv.

(* Peg.v — executable model of the parser that pest 2.7 generates from a grammar
   (definitions only).  It transcribes pest_generator/src/generator.rs (how a rule
   body becomes calls on ParserState) and pest/src/parser_state.rs (what those calls
   do to the position and to the token queue).  Only acceptance and the token tree
   are modelled, not pest's error positions / messages.

   Conventions
   - input: [list Z] of Unicode scalar values; positions are counted in scalar values
     (pest counts bytes; the harness converts).
   - a grammar is data produced by translators/pest2coq.py (Gen/GenGrammar.v).
   - every failing construct of pest restores the position and truncates the token
     queue to where the construct started (match_* do not move on failure, [sequence]
     and [lookahead] restore explicitly, [rule] truncates the queue, choice / optional /
     repeat only ever see restored states).  The model is therefore functional: a
     failure is [PFail] and the caller simply keeps its own state.
   - tokens: the queue of Start/End tokens of pest is kept as a forest; [acc] is the
     reversed list of trees produced so far at the current nesting level. *)
From SSL.Model Require Import Base.

(* ---------------------------------------------------------------- grammar data *)

Inductive builtin :=
| B_ANY                       (* state.skip(1): one Unicode scalar value *)
| B_SOI | B_EOI               (* EOI is a *rule* in pest: it emits a token (rule g_eoi) *)
| B_NEWLINE                   (* "\n" | "\r\n" | "\r" *)
| B_ASCII_DIGIT | B_ASCII_NONZERO_DIGIT | B_ASCII_BIN_DIGIT | B_ASCII_OCT_DIGIT
| B_ASCII_HEX_DIGIT | B_ASCII_ALPHA_LOWER | B_ASCII_ALPHA_UPPER | B_ASCII_ALPHA
| B_ASCII_ALPHANUMERIC | B_ASCII.

Inductive peg :=
| PLit (s : list Z)           (* "..."  exact code points *)
| PInsens (s : list Z)        (* ^"..." ASCII case-insensitive *)
| PRange (lo hi : Z)          (* 'a'..'z' inclusive *)
| PSeq (a b : peg)            (* a ~ b *)
| PChoice (a b : peg)         (* a | b, ordered *)
| PStar (a : peg)             (* a* *)
| PPlus (a : peg)             (* a+  == a ~ a*  (pest_meta unrolls it: grammar-extras is off) *)
| POpt (a : peg)              (* a? *)
| PNot (a : peg)              (* !a *)
| PAnd (a : peg)              (* &a *)
| PCall (r : N)               (* rule call *)
| PBuiltin (b : builtin).

Inductive modifier := Normal | Silent | Atomic | CompoundAtomic | NonAtomic.

Record peg_grammar := mk_peg_grammar {
  g_rules : list (N * (modifier * peg));
  g_whitespace : option N;    (* the rule called WHITESPACE, if any *)
  g_comment : option N;       (* the rule called COMMENT, if any *)
  g_eoi : N                   (* rule number used for pest's EOI token *)
}.

(* token tree: pest's Pair — rule, start, end (in scalar values), inner pairs *)
Inductive tree := Node (rule : N) (s e : nat) (children : list tree).

Definition E_Parse : Z := (-1)%Z.   (* [Err E_Parse]: the input is rejected *)

(* ---------------------------------------------------------------- rule table *)

Inductive ptrie (A : Type) :=
| PTLeaf
| PTNode (v : option A) (l r : ptrie A).
Arguments PTLeaf {A}.
Arguments PTNode {A} v l r.

Fixpoint pt_find {A} (p : positive) (t : ptrie A) : option A :=
  match t with
  | PTLeaf => None
  | PTNode v l r =>
      match p with
      | xH => v
      | xO q => pt_find q l
      | xI q => pt_find q r
      end
  end.

Fixpoint pt_add {A} (p : positive) (a : A) (t : ptrie A) : ptrie A :=
  match p with
  | xH => match t with PTLeaf => PTNode (Some a) PTLeaf PTLeaf | PTNode _ l r => PTNode (Some a) l r end
  | xO q => match t with
            | PTLeaf => PTNode None (pt_add q a PTLeaf) PTLeaf
            | PTNode v l r => PTNode v (pt_add q a l) r
            end
  | xI q => match t with
            | PTLeaf => PTNode None PTLeaf (pt_add q a PTLeaf)
            | PTNode v l r => PTNode v l (pt_add q a r)
            end
  end.

(* first definition of a rule number wins (the translator never emits duplicates) *)
Definition peg_rule_table (rs : list (N * (modifier * peg))) : ptrie (modifier * peg) :=
  fold_right (fun kv t => pt_add (N.succ_pos (fst kv)) (snd kv) t) PTLeaf rs.

Definition peg_rule_find (t : ptrie (modifier * peg)) (r : N) : option (modifier * peg) :=
  pt_find (N.succ_pos r) t.

(* ---------------------------------------------------------------- primitives *)

(* pest::Atomicity — dynamic state, set by @ / $ / ! rules, inherited otherwise *)
Inductive atomicity := AtAtomic | AtCompound | AtNonAtomic.

Inductive pres :=
| PFail
| PFuel
| POk (rest : list Z) (pos : nat) (acc : list tree).

Definition peg_is_atomic (a : atomicity) : bool :=
  match a with AtAtomic => true | _ => false end.

Fixpoint peg_match_lit (s rest : list Z) (pos : nat) : option (list Z * nat) :=
  match s with
  | [] => Some (rest, pos)
  | c :: s' =>
      match rest with
      | [] => None
      | d :: rest' => if Z.eqb c d then peg_match_lit s' rest' (S pos) else None
      end
  end.

Definition peg_ascii_lower (c : Z) : Z :=
  if (65 <=? c)%Z && (c <=? 90)%Z then (c + 32)%Z else c.

Fixpoint peg_match_insens (s rest : list Z) (pos : nat) : option (list Z * nat) :=
  match s with
  | [] => Some (rest, pos)
  | c :: s' =>
      match rest with
      | [] => None
      | d :: rest' =>
          if Z.eqb (peg_ascii_lower c) (peg_ascii_lower d) then peg_match_insens s' rest' (S pos) else None
      end
  end.

Definition peg_in_range (lo hi c : Z) : bool := (lo <=? c)%Z && (c <=? hi)%Z.

Definition peg_builtin_char (b : builtin) (c : Z) : bool :=
  match b with
  | B_ANY => true
  | B_ASCII_DIGIT => peg_in_range 48 57 c
  | B_ASCII_NONZERO_DIGIT => peg_in_range 49 57 c
  | B_ASCII_BIN_DIGIT => peg_in_range 48 49 c
  | B_ASCII_OCT_DIGIT => peg_in_range 48 55 c
  | B_ASCII_HEX_DIGIT => peg_in_range 48 57 c || peg_in_range 97 102 c || peg_in_range 65 70 c
  | B_ASCII_ALPHA_LOWER => peg_in_range 97 122 c
  | B_ASCII_ALPHA_UPPER => peg_in_range 65 90 c
  | B_ASCII_ALPHA => peg_in_range 97 122 c || peg_in_range 65 90 c
  | B_ASCII_ALPHANUMERIC => peg_in_range 97 122 c || peg_in_range 65 90 c || peg_in_range 48 57 c
  | B_ASCII => peg_in_range 0 127 c
  | B_SOI | B_EOI | B_NEWLINE => false
  end.

Definition peg_match_char (ok : Z -> bool) (rest : list Z) (pos : nat) (acc : list tree) : pres :=
  match rest with
  | c :: rest' => if ok c then POk rest' (S pos) acc else PFail
  | [] => PFail
  end.

Definition peg_of_match (m : option (list Z * nat)) (acc : list tree) : pres :=
  match m with
  | Some (rest', pos') => POk rest' pos' acc
  | None => PFail
  end.

(* NEWLINE = "\n" | "\r\n" | "\r" *)
Definition peg_match_newline (rest : list Z) (pos : nat) (acc : list tree) : pres :=
  match rest with
  | 10%Z :: r => POk r (S pos) acc
  | 13%Z :: 10%Z :: r => POk r (S (S pos)) acc
  | 13%Z :: r => POk r (S pos) acc
  | _ => PFail
  end.

(* ParserState::repeat — run [body] until it fails; always succeeds.  pest has no
   progress check (its grammar validator rejects non-progressing repetitions); the
   model stops with PFuel after [k] iterations instead of looping. *)
Fixpoint peg_rep_loop (k : nat) (body : list Z -> nat -> list tree -> pres)
         (rest : list Z) (pos : nat) (acc : list tree) : pres :=
  match k with
  | O => PFuel
  | S k' =>
      match body rest pos acc with
      | PFail => POk rest pos acc
      | PFuel => PFuel
      | POk rest' pos' acc' => peg_rep_loop k' body rest' pos' acc'
      end
  end.

Definition pres_bind (r : pres) (f : list Z -> nat -> list tree -> pres) : pres :=
  match r with
  | POk rest pos acc => f rest pos acc
  | PFail => PFail
  | PFuel => PFuel
  end.

(* ---------------------------------------------------------------- interpreter *)

Section Run.
  Variable g : peg_grammar.
  Variable tbl : ptrie (modifier * peg).

  Definition peg_is_skip_rule (r : N) : bool :=
    match g_whitespace g with Some w => N.eqb r w | None => false end
    || match g_comment g with Some c => N.eqb r c | None => false end.

  (* hidden::skip of the generated parser, given how to call a rule *)
  Definition peg_skip_with (k : nat) (callr : N -> list Z -> nat -> list tree -> pres)
             (atom : atomicity) (rest : list Z) (pos : nat) (acc : list tree) : pres :=
    match atom with
    | AtNonAtomic =>
        match g_whitespace g, g_comment g with
        | None, None => POk rest pos acc
        | Some w, None => peg_rep_loop k (callr w) rest pos acc
        | None, Some c => peg_rep_loop k (callr c) rest pos acc
        | Some w, Some c =>
            pres_bind (peg_rep_loop k (callr w) rest pos acc) (fun r1 p1 a1 =>
              peg_rep_loop k (fun r p a =>
                            pres_bind (callr c r p a) (fun r2 p2 a2 =>
                              peg_rep_loop k (callr w) r2 p2 a2))
                       r1 p1 a1)
        end
    | _ => POk rest pos acc
    end.

  (* [peg_call fuel r atom look rest pos acc]: run rule [r] as the generated function
     rules::r(state) does.  [atom] is the caller's atomicity, [look] whether we are
     inside a predicate (Lookahead != None: no tokens are queued).
     Fuel decreases on rule calls only; loops are bounded by the same number. *)
  Fixpoint peg_call (fuel : nat) (r : N) (atom : atomicity) (look : bool)
           (rest : list Z) (pos : nat) (acc : list tree) {struct fuel} : pres :=
    match fuel with
    | O => PFuel
    | S f =>
      match peg_rule_find tbl r with
      | None => PFail
      | Some (m, body) =>
        (* generate_rule: which code generator is used for the body, and the
           atomicity the body runs in *)
        let sk := peg_is_skip_rule r in
        let na :=                       (* generate_expr (implicit skips) vs generate_expr_atomic *)
          match m with
          | Atomic | CompoundAtomic => false
          | Normal | Silent | NonAtomic => negb sk
          end in
        let atom_rule :=                (* atomicity seen by state.rule(..) *)
          match m with
          | CompoundAtomic => AtCompound
          | NonAtomic => AtNonAtomic
          | Normal | Silent | Atomic => atom
          end in
        let atom_body :=
          match m with
          | Atomic => AtAtomic
          | CompoundAtomic => AtCompound
          | Normal | Silent | NonAtomic => if sk then AtAtomic else atom_rule
          end in
        let token :=
          match m with
          | Silent => false
          | _ => negb look && negb (peg_is_atomic atom_rule)
          end in
        (* the skip the code generator inserts (only generate_expr does) *)
        let skip (look : bool) (rest : list Z) (pos : nat) (acc : list tree) : pres :=
          if na then peg_skip_with f (fun w => peg_call f w atom_body look) atom_body rest pos acc
          else POk rest pos acc in
        let run_body :=
          fix go (e : peg) (look : bool) (rest : list Z) (pos : nat) (acc : list tree)
              {struct e} : pres :=
            match e with
            | PLit s => peg_of_match (peg_match_lit s rest pos) acc
            | PInsens s => peg_of_match (peg_match_insens s rest pos) acc
            | PRange lo hi => peg_match_char (peg_in_range lo hi) rest pos acc
            | PSeq a b =>
                pres_bind (go a look rest pos acc) (fun r1 p1 a1 =>
                  pres_bind (skip look r1 p1 a1) (fun r2 p2 a2 => go b look r2 p2 a2))
            | PChoice a b =>
                match go a look rest pos acc with
                | PFail => go b look rest pos acc
                | x => x
                end
            | POpt a =>
                match go a look rest pos acc with
                | PFail => POk rest pos acc
                | x => x
                end
            | PStar a =>
                if na then
                  (* optional(a . repeat(sequence(skip . a))) *)
                  match go a look rest pos acc with
                  | PFail => POk rest pos acc
                  | PFuel => PFuel
                  | POk r1 p1 a1 =>
                      peg_rep_loop f (fun r p ac =>
                                    pres_bind (skip look r p ac)
                                              (fun r2 p2 a2 => go a look r2 p2 a2))
                               r1 p1 a1
                  end
                else peg_rep_loop f (go a look) rest pos acc
            | PPlus a =>
                (* a ~ a* *)
                pres_bind (go a look rest pos acc) (fun r0 p0 a0 =>
                  if na then
                    pres_bind (skip look r0 p0 a0)
                      (fun r0' p0' a0' =>
                         match go a look r0' p0' a0' with
                         | PFail => POk r0' p0' a0'
                         | PFuel => PFuel
                         | POk r1 p1 a1 =>
                             peg_rep_loop f (fun r p ac =>
                                           pres_bind (skip look r p ac)
                                                     (fun r2 p2 a2 => go a look r2 p2 a2))
                                      r1 p1 a1
                         end)
                  else peg_rep_loop f (go a look) r0 p0 a0)
            | PNot a =>
                match go a true rest pos [] with
                | PFail => POk rest pos acc
                | PFuel => PFuel
                | POk _ _ _ => PFail
                end
            | PAnd a =>
                match go a true rest pos [] with
                | POk _ _ _ => POk rest pos acc
                | x => x
                end
            | PCall r' => peg_call f r' atom_body look rest pos acc
            | PBuiltin B_SOI => match pos with O => POk rest pos acc | S _ => PFail end
            | PBuiltin B_EOI =>
                (* state.rule(Rule::EOI, end_of_input) *)
                match rest with
                | [] => if negb look && negb (peg_is_atomic atom_body)
                        then POk rest pos (Node (g_eoi g) pos pos [] :: acc)
                        else POk rest pos acc
                | _ :: _ => PFail
                end
            | PBuiltin B_NEWLINE => peg_match_newline rest pos acc
            | PBuiltin b => peg_match_char (peg_builtin_char b) rest pos acc
            end in
        if token then
          match run_body body look rest pos [] with
          | POk rest' pos' kids => POk rest' pos' (Node r pos pos' (rev' kids) :: acc)
          | x => x
          end
        else run_body body look rest pos acc
      end
    end.
End Run.

(* ---------------------------------------------------------------- entry points *)

Definition peg_run (g : peg_grammar) (fuel : nat) (entry : N) (input : list Z)
  : outcome (nat * list tree) :=
  match peg_call g (peg_rule_table (g_rules g)) fuel entry AtNonAtomic false input O [] with
  | POk _ pos acc => Ok (pos, rev' acc)
  | PFail => Err E_Parse
  | PFuel => OutOfFuel
  end.

(* Fuel bounds the depth of nested rule calls and the number of iterations of one
   repetition.  A chain of nested calls that does not consume input cannot contain the
   same rule twice (pest rejects left-recursive grammars), and a repetition consumes at
   least one scalar value per iteration, so (|input| + 2) * (|rules| + 2) is enough for
   any grammar pest accepts. *)
Definition fuel_for (input : list Z) (g : peg_grammar) : nat :=
  (length input + 2) * (length (g_rules g) + 2).

Definition parse_rule (g : peg_grammar) (entry : N) (input : list Z)
  : outcome (nat * list tree) :=
  peg_run g (fuel_for input g) entry input.

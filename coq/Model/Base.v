(* Base.v — shared vocabulary of the SimpleSL model (definitions only). *)
From Coq Require Export List ZArith Bool Arith Lia.
Export ListNotations.

(* Identifiers and strings are sequences of Unicode scalar values. *)
Definition ident := list Z.

Fixpoint ident_eqb (a b : ident) : bool :=
  match a, b with
  | [], [] => true
  | x :: a, y :: b => Z.eqb x y && ident_eqb a b
  | _, _ => false
  end.

(* Outcome of a modelled computation.  [Panic] stands for every Rust
   panic/unwrap/unreachable reached by the code; [OutOfFuel] for the model's
   own fuel running out (never a normal-looking value). *)
Inductive outcome (A : Type) : Type :=
| Ok (a : A)
| Err (e : Z)          (* an ExecError, numbered as in GenErrors *)
| Panic
| OutOfFuel.
Arguments Ok {A} a.
Arguments Err {A} e.
Arguments Panic {A}.
Arguments OutOfFuel {A}.

Definition obind {A B} (o : outcome A) (f : A -> outcome B) : outcome B :=
  match o with Ok a => f a | Err e => Err e | Panic => Panic | OutOfFuel => OutOfFuel end.

(* The six documented runtime errors (order of src/errors/exec_error.rs). *)
Definition E_IndexOutOfBounds : Z := 0.
Definition E_NegativeLength   : Z := 1.
Definition E_NegativeExponent : Z := 2.
Definition E_ZeroDivision     : Z := 3.
Definition E_ZeroModulo       : Z := 4.
Definition E_OverflowShift    : Z := 5.

Fixpoint all2 {A B} (f : A -> B -> bool) (l1 : list A) (l2 : list B) : bool :=
  match l1, l2 with
  | [], [] => true
  | x :: l1, y :: l2 => f x y && all2 f l1 l2
  | _, _ => false
  end.

Fixpoint assoc {V} (k : ident) (l : list (ident * V)) : option V :=
  match l with
  | [] => None
  | (k', v) :: l => if ident_eqb k k' then Some v else assoc k l
  end.

Fixpoint nodup_keys {V} (l : list (ident * V)) : bool :=
  match l with
  | [] => true
  | (k, _) :: l => negb (existsb (fun kv => ident_eqb k (fst kv)) l) && nodup_keys l
  end.

(* i64 *)
Definition two63 : Z := 9223372036854775808.
Definition two64 : Z := 18446744073709551616.
Definition MIN_INT : Z := - two63.
Definition MAX_INT : Z := two63 - 1.
Definition in_i64 (z : Z) : Prop := (MIN_INT <= z <= MAX_INT)%Z.
Definition in_i64b (z : Z) : bool := (MIN_INT <=? z)%Z && (z <=? MAX_INT)%Z.
(* two's-complement wrap of an unbounded integer into i64 *)
Definition wrap64 (z : Z) : Z := ((z + two63) mod two64 - two63)%Z.

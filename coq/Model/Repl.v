(* Repl.v — the two routes of the embedding API that property C17 compares (definitions only,
   executable):

   the REPL route (src/main.rs run_shell; harness command `repl`): ONE interpreter; every
   input is parsed AGAINST THE CURRENT INTERPRETER — `Code::parse(&interpreter, text)`:
   LocalVariables::new(interpreter) is a fresh environment whose creating scopes are the
   interpreter's current scopes, so every name bound so far is a CONSTANT (its actual value)
   for the checker and for the folding pass — and then run unscoped in that same interpreter
   (`code.exec_unscoped(&mut interpreter)`): bindings, cells and closures persist;

   the batch route (harness command `batch`; `Code::exec` is the same with a fresh
   interpreter): the whole text is parsed once against the start interpreter, then run
   unscoped in an interpreter in the start state.

   An interpreter is a store (closures, cells, effect log) and scopes.  Fuel: [pfuel] for
   checker + pass (structural, any large number), [fuel] for execution. *)
From SSL.Model Require Import Base Ty Float Value Ops Seq Syntax Rt Recreate Exec Check Top.

Record istate : Type := mkI { i_store : store; i_scopes : scopes }.

(* LocalVariables::new(interpreter) *)
Definition e_new : lenv := [mkLayer [] None false].

(* what one input did *)
Inductive outcome_of_input : Type :=
| InRejected (e : Z)        (* Code::parse returned an error: nothing ran *)
| InParsePanic              (* Code::parse panicked *)
| InParseFuel               (* the model's structural fuel was too small *)
| InRan (s : signal).       (* exec_unscoped: SVal v = Ok(v), SError e = Err(e) *)

Section WithEnv.
Variable powf : fbits -> fbits -> fbits.
Variable pre : prelude.
Variable red : reducers.

(* Code::parse(&interpreter, input) *)
Definition parse_in (pfuel : nat) (it : istate) (input : list sline) : outcome (list instr * lenv) :=
  parse_top powf red pfuel (i_scopes it) e_new input.

(* Code::parse(&interpreter, input).and_then(|code| code.exec_unscoped(&mut interpreter)) *)
Definition repl_step (pfuel fuel : nat) (it : istate) (input : list sline) : outcome_of_input * istate :=
  match parse_in pfuel it input with
  | Ok (is, _) =>
      match run_code powf pre fuel (i_store it) (i_scopes it) is VVoid with
      | (st, sc, s) => (InRan s, mkI st sc)
      end
  | Err x => (InRejected x, it)
  | Panic => (InParsePanic, it)
  | OutOfFuel => (InParseFuel, it)
  end.

(* the session: after each input, what it did and the interpreter *)
Fixpoint repl_run (pfuel fuel : nat) (it : istate) (inputs : list (list sline))
  : list (outcome_of_input * istate) :=
  match inputs with
  | [] => []
  | input :: rest =>
      let '(o, it') := repl_step pfuel fuel it input in
      (o, it') :: repl_run pfuel fuel it' rest
  end.

(* the batch route on the whole text: parse against [it], run in (a copy of) [it] *)
Definition batch_run (pfuel fuel : nat) (it : istate) (text : list sline) : outcome_of_input * istate :=
  repl_step pfuel fuel it text.

(* the batch route on every prefix of a session *)
Fixpoint prefixes {A} (l : list (list A)) : list (list A) :=
  match l with
  | [] => []
  | x :: l => x :: map (fun p => x ++ p) (prefixes l)
  end.

Definition batch_prefixes (pfuel fuel : nat) (it : istate) (inputs : list (list sline))
  : list (outcome_of_input * istate) :=
  map (batch_run pfuel fuel it) (prefixes inputs).

(* what L9 observes of an interpreter: the values of the given top-level names *)
Definition observe (names : list name) (it : istate) : list (option value) :=
  map (fun n => scopes_get n (i_scopes it)) names.

End WithEnv.

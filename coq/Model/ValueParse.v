(* ValueParse.v — `Variable::from_str` of src/variable.rs on top of the PEG model, and
   the `unescaper` crate (0.1.5) it calls for string literals.  Definitions only; a
   minimal, self-contained piece of M10 with a vp_ / pr_ prefix.

   - `Variable::from_str(s)`: `s.trim()`, parse rule `only_var`, `try_from(pairs[0])`.
   - `TryFrom<Pair> for Variable` arm for arm (with the `tuple_from_str` arm added by
     repair c639add and the sign handed to `from_str_radix` by repair fa6d4dd).
   - `str::parse::<f64>` is a Section variable [parse_float] (applied to the text of the
     pair after the removal of ' ' and '_'). *)
From SSL.Model Require Import Base Ty Float Value Peg Print.
From SSL.Gen Require Import GenGrammar.

Local Open Scope Z_scope.

Definition E_IntegerOverflow : Z := -2.
Definition E_CannotBeParsed : Z := -3.
Definition E_CannotUnescape : Z := -4.

(* ---------------------------------------------------------------- unescaper *)

(* {u32,u8}::from_str_radix: optional leading '+', at least one digit, every character a
   digit of the radix (either case), value below 2^bits *)
Definition pr_from_str_radix (bits base : Z) (s : list Z) : option Z :=
  let digits :=
    match s with
    | [43] => []                 (* a lone sign: InvalidDigit *)
    | 43 :: r => r
    | _ => s
    end in
  match parse_radix base digits with
  | Some v => if v <? 2 ^ bits then Some v else None
  | None => None
  end.

(* char::from_u32 *)
Definition pr_is_scalar (v : Z) : bool :=
  ((0 <=? v) && (v <? 55296)) || ((57344 <=? v) && (v <=? 1114111)).

Definition pr_is_octal (c : Z) : bool := (48 <=? c) && (c <=? 55).

(* `while let Some(n) = pop { if n == '}' { break } push(n) }`: everything up to the first
   '}' (or to the end of the text when there is none) *)
Fixpoint pr_until_close (s : list Z) : list Z * list Z :=
  match s with
  | [] => ([], [])
  | c :: r => if c =? 125 then ([], r)
              else let (h, t) := pr_until_close r in (c :: h, t)
  end.

(* unescape_unicode_internal, after "\u" *)
Definition pr_unicode (s : list Z) : option (Z * list Z) :=
  match s with
  | [] => None                                        (* IncompleteStr *)
  | c :: r =>
      let hr : option (list Z * list Z) :=
        if c =? 123 then Some (pr_until_close r)      (* \u{...} *)
        else match r with                             (* \uXXXX *)
             | c1 :: c2 :: c3 :: r' => Some ([c; c1; c2; c3], r')
             | _ => None
             end in
      match hr with
      | None => None
      | Some (hex, rest) =>
          match pr_from_str_radix 32 16 hex with
          | Some v => if pr_is_scalar v then Some (v, rest) else None
          | None => None
          end
      end
  end.

(* unescape_byte_internal, after "\x": exactly two characters *)
Definition pr_byte (s : list Z) : option (Z * list Z) :=
  match s with
  | c1 :: c2 :: r =>
      match pr_from_str_radix 8 16 [c1; c2] with Some v => Some (v, r) | None => None end
  | _ => None
  end.

(* try_push_next: take the next character if it is an octal digit *)
Definition pr_push_next (oct s : list Z) : list Z * list Z :=
  match s with
  | c :: r => if pr_is_octal c then (oct ++ [c], r) else (oct, s)
  | [] => (oct, s)
  end.

(* unescape_octal_internal c: the character after the backslash was [c] *)
Definition pr_octal (c : Z) (s : list Z) : option (Z * list Z) :=
  if (48 <=? c) && (c <=? 51) then          (* 0..3: up to two more digits *)
    let (o1, s1) := pr_push_next [c] s in
    let (o2, s2) := pr_push_next o1 s1 in
    match pr_from_str_radix 8 8 o2 with Some v => Some (v, s2) | None => None end
  else if (52 <=? c) && (c <=? 55) then     (* 4..7: up to one more digit *)
    let (o1, s1) := pr_push_next [c] s in
    match pr_from_str_radix 8 8 o1 with Some v => Some (v, s1) | None => None end
  else None.                                (* InvalidChar *)

(* the character after a backslash is [e], the text after it [s] *)
Definition pr_escape (e : Z) (s : list Z) : option (Z * list Z) :=
  if e =? 98 then Some (8, s)               (* \b *)
  else if e =? 102 then Some (12, s)        (* \f *)
  else if e =? 110 then Some (10, s)        (* \n *)
  else if e =? 114 then Some (13, s)        (* \r *)
  else if e =? 116 then Some (9, s)         (* \t *)
  else if (e =? 39) || (e =? 34) || (e =? 92) || (e =? 47) then Some (e, s)
  else if e =? 117 then pr_unicode s        (* \u *)
  else if e =? 120 then pr_byte s           (* \x *)
  else pr_octal e s.

Fixpoint pr_unescape_f (fuel : nat) (s : list Z) : option (list Z) :=
  match fuel with
  | O => None
  | S f =>
      match s with
      | [] => Some []
      | c :: s1 =>
          if negb (c =? 92) then option_map (cons c) (pr_unescape_f f s1)
          else match s1 with
               | [] => None                 (* IncompleteStr *)
               | e :: s2 =>
                   match pr_escape e s2 with
                   | Some (ch, rest) => option_map (cons ch) (pr_unescape_f f rest)
                   | None => None
                   end
               end
      end
  end.

(* every step consumes at least one character *)
Definition pr_unescape (s : list Z) : option (list Z) := pr_unescape_f (S (length s)) s.

(* ---------------------------------------------------------------- str::trim *)

(* char::is_whitespace (the White_Space property) *)
Definition vp_is_space (c : Z) : bool :=
  ((9 <=? c) && (c <=? 13)) || (c =? 32) || (c =? 133) || (c =? 160) || (c =? 5760)
  || ((8192 <=? c) && (c <=? 8202)) || (c =? 8232) || (c =? 8233) || (c =? 8239)
  || (c =? 8287) || (c =? 12288).

Fixpoint vp_trim_start (s : list Z) : list Z :=
  match s with
  | c :: r => if vp_is_space c then vp_trim_start r else s
  | [] => []
  end.

Definition vp_trim (s : list Z) : list Z := rev (vp_trim_start (rev (vp_trim_start s))).

(* ---------------------------------------------------------------- TryFrom<Pair> *)

Section ValueParse.
  Variable parse_float : list Z -> option fbits.

  Definition vp_slice (input : list Z) (s e : nat) : list Z := firstn (e - s) (skipn s input).

  (* parse_int_with_radix: the text of the first inner pair without ' ' and '_' *)
  Definition vp_radix_pair (input : list Z) (radix : Z) (negative : bool) (t : tree) : outcome Z :=
    match t with
    | Node _ _ _ (Node _ s e _ :: _) =>
        match read_int_lit radix negative (vp_slice input s e) with
        | Some v => Ok v
        | None => Err E_IntegerOverflow
        end
    | _ => Panic
    end.

  (* parse_int(pair, negative): the pair is an `int` *)
  Definition vp_int_pair (input : list Z) (negative : bool) (t : tree) : outcome Z :=
    match t with
    | Node _ _ _ (Node r s e k :: _) =>
        let p := Node r s e k in
        if N.eqb r R_binary_int then vp_radix_pair input 2 negative p
        else if N.eqb r R_octal_int then vp_radix_pair input 8 negative p
        else if N.eqb r R_decimal_int then vp_radix_pair input 10 negative p
        else if N.eqb r R_hexadecimal_int then vp_radix_pair input 16 negative p
        else Panic                          (* unexpected!(rule) *)
    | _ => Panic
    end.

  Fixpoint vp_insert (k : ident) (v : value) (l : list (ident * value)) : list (ident * value) :=
    match l with
    | [] => [(k, v)]
    | (k', v') :: l' => if ident_eqb k k' then (k', v) :: l' else (k', v') :: vp_insert k v l'
    end.

  Definition vp_float_text (input : list Z) (s e : nat) : outcome value :=
    match parse_float (strip_sep (vp_slice input s e)) with
    | Some f => Ok (VFloat f)
    | None => Err E_CannotBeParsed
    end.

  Fixpoint vp_value_of_tree (input : list Z) (t : tree) {struct t} : outcome value :=
    match t with
    | Node r s e kids =>
      let many :=
        fix many (l : list tree) : outcome (list value) :=
          match l with
          | [] => Ok []
          | k :: l' =>
              obind (vp_value_of_tree input k) (fun v => obind (many l') (fun vs => Ok (v :: vs)))
          end in
      let fields :=
        fix fields (l : list tree) (acc : list (ident * value)) : outcome (list (ident * value)) :=
          match l with
          | Node _ ks ke _ :: v :: l' =>
              obind (vp_value_of_tree input v) (fun x =>
                fields l' (vp_insert (vp_slice input ks ke) x acc))
          | _ => Ok acc
          end in
      if N.eqb r R_true then Ok (VBool true)
      else if N.eqb r R_false then Ok (VBool false)
      else if N.eqb r R_minus_int then
        match kids with
        | k :: _ => obind (vp_int_pair input true k) (fun v => Ok (VInt v))
        | [] => Panic
        end
      else if N.eqb r R_int then obind (vp_int_pair input false t) (fun v => Ok (VInt v))
      else if N.eqb r R_minus_float then vp_float_text input s e
      else if N.eqb r R_float then vp_float_text input s e
      else if N.eqb r R_string then
        match kids with
        | Node _ ks ke _ :: _ =>
            match pr_unescape (vp_slice input ks ke) with
            | Some str => Ok (VString str)
            | None => Err E_CannotUnescape
            end
        | [] => Panic
        end
      else if N.eqb r R_array_from_str then obind (many kids) (fun vs => Ok (arr_of vs))
      else if N.eqb r R_tuple_from_str then obind (many kids) (fun vs => Ok (VTup vs))
      else if N.eqb r R_array_repeat_from_str then
        match kids with
        | v :: n :: _ =>
            obind (vp_value_of_tree input v) (fun x =>
              obind (vp_int_pair input false n) (fun len =>
                Ok (VArr (as_type x) (repeat x (Z.to_nat len)))))
        | _ => Panic
        end
      else if N.eqb r R_struct_from_str then obind (fields kids []) (fun fs => Ok (VStruct fs))
      else if N.eqb r R_void then Ok VVoid
      else Err E_CannotBeParsed
    end.

  (* Variable::from_str *)
  Definition vp_parse_value (text : list Z) : outcome value :=
    let input := vp_trim text in
    match parse_rule grammar R_only_var input with
    | Ok (_, t :: _) => vp_value_of_tree input t
    | Ok (_, []) => Panic
    | Err e => Err e
    | Panic => Panic
    | OutOfFuel => OutOfFuel
    end.
End ValueParse.

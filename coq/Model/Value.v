(* Value.v — runtime values of src/variable.rs (M3).  Definitions only.
   Functions and cells are references (identity) carrying their immutable type
   parts, so that as_type needs no store. *)
From SSL.Model Require Import Base Ty Float.

Local Open Scope Z_scope.
Inductive value : Type :=
| VBool (b : bool)
| VInt (z : Z)
| VFloat (f : fbits)
| VString (s : list Z)
| VFun (id : nat) (ps : list ty) (r : ty)
| VArr (et : ty) (vs : list value)
| VTup (vs : list value)
| VMut (loc : nat) (t : ty)
| VStruct (fs : list (ident * value))
| VVoid.

(* Typed::as_type *)
Fixpoint as_type (v : value) : ty :=
  match v with
  | VBool _ => TBool | VInt _ => TInt | VFloat _ => TFloat | VString _ => TString
  | VFun _ ps r => TFun ps r
  | VArr et _ => TArr et
  | VTup vs => TTup (map as_type vs)
  | VMut _ t => TMut t
  | VStruct fs => TStruct (map (fun kv => (fst kv, as_type (snd kv))) fs)
  | VVoid => TVoid
  end.

(* Array::from(elements): element type = reduce(concat) of the elements' types, ! if empty *)
Definition arr_of (vs : list value) : value :=
  VArr (match concat_all (map as_type vs) with Some t => t | None => TNever end) vs.

(* PartialEq for Variable: by content; functions and cells by identity;
   arrays element-wise (the stored element type is not part of the value's identity). *)
Fixpoint val_eqb (a b : value) : bool :=
  match a, b with
  | VBool x, VBool y => Bool.eqb x y
  | VInt x, VInt y => Z.eqb x y
  | VFloat x, VFloat y => feq x y
  | VString x, VString y => ident_eqb x y
  | VFun i _ _, VFun j _ _ => Nat.eqb i j
  | VMut i _, VMut j _ => Nat.eqb i j
  | VArr _ l1, VArr _ l2 | VTup l1, VTup l2 =>
      (fix go (l1 l2 : list value) : bool :=
         match l1, l2 with
         | [], [] => true
         | x :: l1, y :: l2 => val_eqb x y && go l1 l2
         | _, _ => false
         end) l1 l2
  | VStruct f1, VStruct f2 =>
      Nat.eqb (length f1) (length f2) &&
      forallb (fun kv => match assoc (fst kv) f2 with
                         | Some w => val_eqb (snd kv) w | None => false end) f1
  | VVoid, VVoid => true
  | _, _ => false
  end.

(* the equality the *derived* PartialEq of Array gave before the repair: it also
   compared the hidden element type (kept to state what was refuted) *)
Fixpoint val_eqb_derived (a b : value) : bool :=
  match a, b with
  | VBool x, VBool y => Bool.eqb x y
  | VInt x, VInt y => Z.eqb x y
  | VFloat x, VFloat y => feq x y
  | VString x, VString y => ident_eqb x y
  | VFun i _ _, VFun j _ _ => Nat.eqb i j
  | VMut i _, VMut j _ => Nat.eqb i j
  | VArr t1 l1, VArr t2 l2 =>
      ty_eqb t1 t2 &&
      (fix go (l1 l2 : list value) : bool :=
         match l1, l2 with
         | [], [] => true
         | x :: l1, y :: l2 => val_eqb_derived x y && go l1 l2
         | _, _ => false
         end) l1 l2
  | VTup l1, VTup l2 =>
      (fix go (l1 l2 : list value) : bool :=
         match l1, l2 with
         | [], [] => true
         | x :: l1, y :: l2 => val_eqb_derived x y && go l1 l2
         | _, _ => false
         end) l1 l2
  | VStruct f1, VStruct f2 =>
      Nat.eqb (length f1) (length f2) &&
      forallb (fun kv => match assoc (fst kv) f2 with
                         | Some w => val_eqb_derived (snd kv) w | None => false end) f1
  | VVoid, VVoid => true
  | _, _ => false
  end.

(* membership by contents, recursively (the "actual contents" half of C01/C10) *)
Fixpoint content_in (v : value) : ty -> bool :=
  fix inner (t : ty) : bool :=
    match t with
    | TAny => true
    | TMulti ms => existsb inner ms
    | _ =>
      match v, t with
      | VBool _, TBool | VInt _, TInt | VFloat _, TFloat | VString _, TString
      | VVoid, TVoid => true
      | VFun _ ps r, TFun _ _ => matches (TFun ps r) t
      | VMut _ ct, TMut e => ty_eqb ct e
      | VArr _ vs, TArr e => forallb (fun x => content_in x e) vs
      | VTup vs, TTup ts =>
          (fix go (vs : list value) (ts : list ty) : bool :=
             match vs, ts with
             | [], [] => true
             | x :: vs, t :: ts => content_in x t && go vs ts
             | _, _ => false
             end) vs ts
      | VStruct fs, TStruct fts =>
          forallb (fun kt =>
            (fix look (fs : list (ident * value)) : bool :=
               match fs with
               | [] => false
               | (k, x) :: fs => if ident_eqb (fst kt) k then content_in x (snd kt) else look fs
               end) fs) fts
      | _, _ => false
      end
    end.

(* a value belongs to a type: by its runtime tag AND by its contents *)
Definition has_type (v : value) (t : ty) : bool := matches (as_type v) t && content_in v t.

(* internal consistency of a value: its contents inhabit its own tag *)
Definition wf_val (v : value) : bool := content_in v (as_type v).

(* Variable::of_type — default values (first union member in list order) *)
Fixpoint of_type (t : ty) : option value :=
  match t with
  | TBool => Some (VBool false)
  | TInt => Some (VInt 0)
  | TFloat => Some (VFloat F_ZERO)
  | TString => Some (VString [])
  | TFun ps r =>
      (* Function::of_type: a function returning the default of its result type; identity 0 = "default function" *)
      option_map (fun _ => VFun 0 ps r) (of_type r)
  | TArr e => Some (VArr e [])
  | TTup ts =>
      option_map VTup
      ((fix go (ts : list ty) : option (list value) :=
         match ts with
         | [] => Some []
         | t :: ts => match of_type t, go ts with
                      | Some v, Some vs => Some (v :: vs) | _, _ => None end
         end) ts)
  | TVoid => Some VVoid
  | TMulti ms => match ms with [] => None | m :: _ => of_type m end
  | TMut e => option_map (fun _ => VMut 0 e) (of_type e)
  | TStruct fs =>
      option_map VStruct
      ((fix go (fs : list (ident * ty)) : option (list (ident * value)) :=
         match fs with
         | [] => Some []
         | (k, t) :: fs => match of_type t, go fs with
                           | Some v, Some vs => Some ((k, v) :: vs) | _, _ => None end
         end) fs)
  | TAny => Some VVoid
  | TNever => None
  end.

(* Stdlib.v — the standard library of src/stdlib.rs, src/stdlib/*.rs as seen through the
   `#[export]` glue of macros/src/export.rs.  Definitions only (proofs: Lemmas/StdlibLemmas.v).

   A. what each argument conversion of the glue accepts without panicking;
   B. the image of `Into<Variable>` for each Rust return type;
   C. executable models of the pure helpers on Z / code-point lists / float bit patterns.

   The table of exports itself is Gen/GenStdlib.v (regenerated from the sources). *)
From SSL.Model Require Import Base Ty Float Value.
From SSL.Gen Require Import GenStdlib.
From Flocq Require Import IEEE754.Binary IEEE754.Bits IEEE754.BinarySingleNaN.
From Coq Require String Ascii.


Local Open Scope Z_scope.

(* ================================================================= *)
(* A.  Argument conversions                                          *)
(* ================================================================= *)
Definition tag_of (v : value) : vtag :=
  match v with
  | VBool _ => KBool | VInt _ => KInt | VFloat _ => KFloat | VString _ => KString
  | VFun _ _ _ => KFun | VArr _ _ => KArr | VTup _ => KTup | VMut _ _ => KMut
  | VStruct _ => KStruct | VVoid => KVoid
  end.

Definition vtag_eqb (a b : vtag) : bool :=
  match a, b with
  | KBool, KBool | KInt, KInt | KFloat, KFloat | KString, KString | KFun, KFun
  | KArr, KArr | KTup, KTup | KMut, KMut | KStruct, KStruct | KVoid, KVoid => true
  | _, _ => false
  end.

(* `get_variable(name).unwrap().try_into().unwrap()`: the TryFrom<&Variable> impls of
   src/variable/try_from.rs are `value.as_K().ok_or(())`; `&Variable` is the reflexive From. *)
Definition conv_accepts (c : conv) (v : value) : bool :=
  match c with
  | CvBool => vtag_eqb (tag_of v) KBool
  | CvI64 => vtag_eqb (tag_of v) KInt
  | CvF64 => vtag_eqb (tag_of v) KFloat
  | CvArcStr | CvRefStr => vtag_eqb (tag_of v) KString
  | CvArcArray | CvRefArray | CvRefSlice => vtag_eqb (tag_of v) KArr
  | CvRefVariable => true
  end.

(* the partial idioms of the function bodies *)
Definition demand_accepts (d : demand) (v : value) : bool :=
  match d with
  | DNone => true
  | DTags ks => existsb (vtag_eqb (tag_of v)) ks
  | DElems k =>
      match v with
      | VArr _ vs => forallb (fun x => vtag_eqb (tag_of x) k) vs
      | _ => false
      end
  end.

(* no `unwrap` / `unreachable!` is reached for this argument *)
Definition param_accepts (p : param) (v : value) : bool :=
  conv_accepts (p_conv p) v && demand_accepts (p_demand p) v.

(* ================================================================= *)
(* B.  Into<Variable>                                                *)
(* ================================================================= *)
Definition ERROR_CODE : ident := [101; 114; 114; 111; 114; 95; 99; 111; 100; 101].
Definition MSG : ident := [109; 115; 103].
Definition io_error_ty : ty := TStruct [(ERROR_CODE, TInt); (MSG, TString)].
(* From<io::Error>: var!(struct{error_code, msg}), error_code = (kind as i64) *)
Definition io_error_val (code : Z) (msg : list Z) : value :=
  VStruct [(ERROR_CODE, VInt code); (MSG, VString msg)].

Definition two31 : Z := 2147483648.
Definition two32 : Z := 4294967296.

(* The set of Variables `value.into()` can produce from a Rust value of the given type.
   [elems]: for slices built by the body, the tag of every element (recorded by the translator
   from the `.map(..).collect()` of the body), None when unknown. *)
Fixpoint into_image (r : rty) (elems : option vtag) (v : value) : Prop :=
  match r with
  | RUnit => v = VVoid
  | RBool => exists b, v = VBool b
  | RI32 => exists z, v = VInt z /\ - two31 <= z < two31
  | RI64 => exists z, v = VInt z /\ in_i64 z
  | RU32 => exists z, v = VInt z /\ 0 <= z < two32
  (* From<usize>: `value as i64` — two's-complement reinterpretation of a 64-bit length;
     lengths of slices and strings are below 2^63, so the value is the length itself
     (see [len_nonneg] for the modelled `len`) *)
  | RUsize => exists z, v = VInt z /\ in_i64 z
  | RF64 => exists f, v = VFloat f
  | RRefStr | RArcStr | RString | RArcRefStr => exists s, v = VString s
  | RArcArray | RArray | RRefArray => exists et vs, v = VArr et vs
  (* From<Arc<[Variable]>> = Array::from: the element type is computed from the elements *)
  | RRefSlice | RArcSlice =>
      exists vs, v = arr_of vs /\
                 match elems with
                 | Some k => forallb (fun x => vtag_eqb (tag_of x) k) vs = true
                 | None => True
                 end
  | RRefVariable | RVariable => True
  | RIoError => exists code msg, v = io_error_val code msg
  | ROption t => v = VVoid \/ into_image t elems v
  | RResult t e => into_image t elems v \/ into_image e elems v
  | RResultExec t => into_image t elems v
  end.

(* <R as TypeOf>::type_of(): the table, then the generic `Result<T,S>` rule *)
Fixpoint rty_eqb (a b : rty) : bool :=
  match a, b with
  | RUnit, RUnit | RBool, RBool | RI32, RI32 | RI64, RI64 | RU32, RU32 | RUsize, RUsize
  | RF64, RF64 | RRefStr, RRefStr | RArcStr, RArcStr | RString, RString
  | RArcRefStr, RArcRefStr | RArcArray, RArcArray | RArray, RArray | RRefArray, RRefArray
  | RRefSlice, RRefSlice | RArcSlice, RArcSlice | RRefVariable, RRefVariable
  | RVariable, RVariable | RIoError, RIoError => true
  | ROption x, ROption y | RResultExec x, RResultExec y => rty_eqb x y
  | RResult x1 x2, RResult y1 y2 => rty_eqb x1 y1 && rty_eqb x2 y2
  | _, _ => false
  end.

Fixpoint lookup_rty (r : rty) (tbl : list (rty * ty)) : option ty :=
  match tbl with
  | [] => None
  | (k, t) :: tbl => if rty_eqb r k then Some t else lookup_rty r tbl
  end.

Fixpoint type_of_rty (tbl : list (rty * ty)) (r : rty) : option ty :=
  match lookup_rty r tbl with
  | Some t => Some t
  | None =>
      match r with
      | RResult t e =>
          match type_of_rty tbl t, type_of_rty tbl e with
          | Some a, Some b => Some (ty_union [a; b])
          | _, _ => None
          end
      | _ => None
      end
  end.

(* constants: `(CONST).into()` *)
Definition const_value (c : cvalue) : value :=
  match c with CInt z => VInt z | CFloat b => VFloat b end.

(* ================================================================= *)
(* C.  Pure helpers                                                  *)
(* ================================================================= *)

(* ---------- len ---------- *)
Definition len_string (s : list Z) : Z := Z.of_nat (length s).      (* chars().count() *)
Definition std_len (v : value) : option Z :=
  match v with
  | VArr _ vs => Some (Z.of_nat (length vs))
  | VString s => Some (len_string s)
  | _ => None                                                        (* unreachable!() *)
  end.

(* ---------- bit counting on i64 (two's complement, 64 positions) ---------- *)
Definition u64 (z : Z) : Z := z mod two64.

(* number of positions i < n whose bit equals b *)
Fixpoint count_bits (b : bool) (u : Z) (n : nat) : Z :=
  match n with
  | O => 0
  | S n => (if Bool.eqb (Z.testbit u (Z.of_nat n)) b then 1 else 0) + count_bits b u n
  end.

(* length of the run of b starting at position n-1 and going down *)
Fixpoint leading_run (b : bool) (u : Z) (n : nat) : Z :=
  match n with
  | O => 0
  | S n => if Bool.eqb (Z.testbit u (Z.of_nat n)) b then 1 + leading_run b u n else 0
  end.

(* length of the run of b starting at position k and going up, at most n long *)
Fixpoint trailing_run (b : bool) (u : Z) (k : Z) (n : nat) : Z :=
  match n with
  | O => 0
  | S n => if Bool.eqb (Z.testbit u k) b then 1 + trailing_run b u (k + 1) n else 0
  end.

Definition count_ones (z : Z) : Z := count_bits true (u64 z) 64.
Definition count_zeros (z : Z) : Z := count_bits false (u64 z) 64.
Definition leading_zeroes (z : Z) : Z := leading_run false (u64 z) 64.
Definition leading_ones (z : Z) : Z := leading_run true (u64 z) 64.
Definition trailing_zeroes (z : Z) : Z := trailing_run false (u64 z) 0 64.
Definition trailing_ones (z : Z) : Z := trailing_run true (u64 z) 0 64.

(* the number below 2^n whose bit i is f i *)
Fixpoint build_bits (f : Z -> bool) (n : nat) : Z :=
  match n with
  | O => 0
  | S n => if f (Z.of_nat n) then Z.setbit (build_bits f n) (Z.of_nat n) else build_bits f n
  end.

Definition reverse_bits (z : Z) : Z :=
  wrap64 (build_bits (fun i => Z.testbit (u64 z) (63 - i)) 64).
Definition swap_bytes (z : Z) : Z :=
  wrap64 (build_bits (fun i => Z.testbit (u64 z) (8 * (7 - i / 8) + i mod 8)) 64).

(* ---------- integer logarithms (i64::checked_ilog, checked_ilog2, checked_ilog10) ---------- *)
Fixpoint ilog_loop (fuel : nat) (n b : Z) : Z :=
  match fuel with
  | O => 0
  | S fuel => if n <? b then 0 else 1 + ilog_loop fuel (n / b) b
  end.

(* None for non-positive numbers and for base < 2 *)
Definition ilog (n b : Z) : option Z :=
  if (n <=? 0) || (b <? 2) then None
  else Some (ilog_loop (S (Z.to_nat (Z.log2 n))) n b).
Definition ilog2 (n : Z) : option Z := if n <=? 0 then None else Some (Z.log2 n).
Definition ilog10 (n : Z) : option Z := ilog n 10.

(* ---------- parse_int: str::parse::<i64> ---------- *)
Definition is_digit (c : Z) : bool := (48 <=? c) && (c <=? 57).

Fixpoint digits_value (acc : Z) (l : list Z) : option Z :=
  match l with
  | [] => Some acc
  | c :: l => if is_digit c then digits_value (acc * 10 + (c - 48)) l else None
  end.

(* optional single `+` or `-`, then at least one ASCII digit, nothing else; overflow -> None *)
Definition parse_int (s : list Z) : option Z :=
  let '(neg, ds) :=
    match s with
    | c :: r => if c =? 45 then (true, r) else if c =? 43 then (false, r) else (false, s)
    | [] => (false, s)
    end in
  match ds with
  | [] => None
  | _ =>
      match digits_value 0 ds with
      | None => None
      | Some m => let z := if neg then - m else m in
                  if in_i64b z then Some z else None
      end
  end.

(* decimal printing of an integer (Display for i64), for the round-trip statement *)
Fixpoint print_digits (fuel : nat) (n : Z) (acc : list Z) : list Z :=
  match fuel with
  | O => acc
  | S fuel => let acc := (48 + n mod 10) :: acc in
              if n <? 10 then acc else print_digits fuel (n / 10) acc
  end.
Definition print_nat_z (n : Z) : list Z := print_digits (S (Z.to_nat (Z.log2 n))) n [].
Definition print_int (z : Z) : list Z :=
  if z <? 0 then 45 :: print_nat_z (- z) else print_nat_z z.

(* ---------- strings as code-point lists ---------- *)
Fixpoint starts_with_l (p s : list Z) : bool :=   (* p is a prefix of s *)
  match p, s with
  | [], _ => true
  | x :: p, y :: s => Z.eqb x y && starts_with_l p s
  | _ :: _, [] => false
  end.

Definition starts_with (s p : list Z) : bool := starts_with_l p s.
Definition ends_with (s p : list Z) : bool := starts_with_l (rev p) (rev s).

Fixpoint contains (s p : list Z) : bool :=
  starts_with_l p s || match s with [] => false | _ :: s' => contains s' p end.

(* str::split with a NON-EMPTY string pattern: leftmost, non-overlapping matches.
   [cur] is the current piece, reversed.  With fuel 0 the remainder is returned whole,
   so that joining the pieces gives the input back for every fuel. *)
Fixpoint split_f (fuel : nat) (p cur s : list Z) : list (list Z) :=
  match fuel with
  | O => [rev cur ++ s]
  | S fuel =>
      match s with
      | [] => [rev cur]
      | c :: s' =>
          if starts_with_l p s then rev cur :: split_f fuel p [] (skipn (length p) s)
          else split_f fuel p (c :: cur) s'
      end
  end.

(* the empty pattern matches at every char boundary, including both ends:
   "abc".split("") = ["", "a", "b", "c", ""] *)
Definition split (s p : list Z) : list (list Z) :=
  match p with
  | [] => [] :: map (fun c => [c]) s ++ [[]]
  | _ => split_f (length s) p [] s
  end.

Fixpoint join (sep : list Z) (l : list (list Z)) : list Z :=
  match l with
  | [] => []
  | [x] => x
  | x :: rest => x ++ sep ++ join sep rest
  end.

(* str::replace: the same matches as split, the pieces glued with [to] *)
Definition replace (s from to : list Z) : list Z := join to (split s from).

Definition chars (s : list Z) : list (list Z) := map (fun c => [c]) s.

(* UTF-8 *)
Definition is_scalar (c : Z) : bool :=
  ((0 <=? c) && (c <? 55296)) || ((57344 <=? c) && (c <? 1114112)).

Definition utf8_encode (c : Z) : list Z :=
  if c <? 128 then [c]
  else if c <? 2048 then [192 + c / 64; 128 + c mod 64]
  else if c <? 65536 then [224 + c / 4096; 128 + (c / 64) mod 64; 128 + c mod 64]
  else [240 + c / 262144; 128 + (c / 4096) mod 64; 128 + (c / 64) mod 64; 128 + c mod 64].

Definition bytes (s : list Z) : list Z := flat_map utf8_encode s.

Definition is_cont (b : Z) : bool := (128 <=? b) && (b <=? 191).
Definition in_range (lo hi b : Z) : bool := (lo <=? b) && (b <=? hi).

(* admissible range of the second byte (Unicode Table 3-7, as in core::str::validations) *)
Definition second3 (b0 b1 : Z) : bool :=
  if b0 =? 224 then in_range 160 191 b1
  else if b0 =? 237 then in_range 128 159 b1
  else in_range 128 191 b1.
Definition second4 (b0 b1 : Z) : bool :=
  if b0 =? 240 then in_range 144 191 b1
  else if b0 =? 244 then in_range 128 143 b1
  else in_range 128 191 b1.

(* String::from_utf8: strict *)
Fixpoint utf8_decode (bs : list Z) : option (list Z) :=
  match bs with
  | [] => Some []
  | b0 :: r =>
      if in_range 0 127 b0 then option_map (cons b0) (utf8_decode r)
      else if in_range 194 223 b0 then
        match r with
        | b1 :: r1 =>
            if is_cont b1 then option_map (cons ((b0 - 192) * 64 + (b1 - 128))) (utf8_decode r1)
            else None
        | _ => None
        end
      else if in_range 224 239 b0 then
        match r with
        | b1 :: b2 :: r2 =>
            if second3 b0 b1 && is_cont b2 then
              option_map (cons ((b0 - 224) * 4096 + (b1 - 128) * 64 + (b2 - 128))) (utf8_decode r2)
            else None
        | _ => None
        end
      else if in_range 240 244 b0 then
        match r with
        | b1 :: b2 :: b3 :: r3 =>
            if second4 b0 b1 && is_cont b2 && is_cont b3 then
              option_map (cons ((b0 - 240) * 262144 + (b1 - 128) * 4096 + (b2 - 128) * 64 + (b3 - 128)))
                         (utf8_decode r3)
            else None
        | _ => None
        end
      else None
  end.

Definition REPLACEMENT : Z := 65533.

(* String::from_utf8_lossy (core::str::lossy::Utf8Chunks): each maximal invalid prefix of a
   sequence — the lead byte plus the continuation bytes accepted before the failure — becomes
   one U+FFFD *)
Fixpoint utf8_decode_lossy (bs : list Z) : list Z :=
  match bs with
  | [] => []
  | b0 :: r =>
      if in_range 0 127 b0 then b0 :: utf8_decode_lossy r
      else if in_range 194 223 b0 then
        match r with
        | b1 :: r1 =>
            if is_cont b1 then ((b0 - 192) * 64 + (b1 - 128)) :: utf8_decode_lossy r1
            else REPLACEMENT :: utf8_decode_lossy r
        | [] => [REPLACEMENT]
        end
      else if in_range 224 239 b0 then
        match r with
        | b1 :: r1 =>
            if second3 b0 b1 then
              match r1 with
              | b2 :: r2 =>
                  if is_cont b2 then
                    ((b0 - 224) * 4096 + (b1 - 128) * 64 + (b2 - 128)) :: utf8_decode_lossy r2
                  else REPLACEMENT :: utf8_decode_lossy r1
              | [] => [REPLACEMENT]
              end
            else REPLACEMENT :: utf8_decode_lossy r
        | [] => [REPLACEMENT]
        end
      else if in_range 240 244 b0 then
        match r with
        | b1 :: r1 =>
            if second4 b0 b1 then
              match r1 with
              | b2 :: r2 =>
                  if is_cont b2 then
                    match r2 with
                    | b3 :: r3 =>
                        if is_cont b3 then
                          ((b0 - 240) * 262144 + (b1 - 128) * 4096 + (b2 - 128) * 64 + (b3 - 128))
                            :: utf8_decode_lossy r3
                        else REPLACEMENT :: utf8_decode_lossy r2
                    | [] => [REPLACEMENT]
                    end
                  else REPLACEMENT :: utf8_decode_lossy r1
              | [] => [REPLACEMENT]
              end
            else REPLACEMENT :: utf8_decode_lossy r
        | [] => [REPLACEMENT]
        end
      else REPLACEMENT :: utf8_decode_lossy r
  end.

(* `*val as u8`: truncation of an arbitrary i64 to its low byte — [256+65] decodes as "A" *)
Definition as_u8 (z : Z) : Z := z mod 256.
Definition str_from_utf8 (ints : list Z) : option (list Z) := utf8_decode (map as_u8 ints).
Definition str_from_utf8_lossy (ints : list Z) : list Z := utf8_decode_lossy (map as_u8 ints).

(* char::is_whitespace = Unicode White_Space *)
Definition is_whitespace (c : Z) : bool :=
  in_range 9 13 c || (c =? 32) || (c =? 133) || (c =? 160) || (c =? 5760)
  || in_range 8192 8202 c || (c =? 8232) || (c =? 8233) || (c =? 8239) || (c =? 8287)
  || (c =? 12288).

Fixpoint drop_while (f : Z -> bool) (s : list Z) : list Z :=
  match s with
  | [] => []
  | c :: s' => if f c then drop_while f s' else s
  end.

Definition trim_start (s : list Z) : list Z := drop_while is_whitespace s.
Definition trim_end (s : list Z) : list Z := rev (drop_while is_whitespace (rev s)).
Definition trim (s : list Z) : list Z := trim_end (trim_start s).

(* ---------- floats: classification and raw bits ---------- *)
Definition f_exp_field (f : fbits) : Z := (f / 4503599627370496) mod 2048.     (* bits 52..62 *)
Definition f_mant_field (f : fbits) : Z := f mod 4503599627370496.              (* bits 0..51 *)
Definition f_sign_bit (f : fbits) : bool := Z.testbit f 63.

Definition std_is_nan (f : fbits) : bool := (f_exp_field f =? 2047) && negb (f_mant_field f =? 0).
Definition std_is_infinite (f : fbits) : bool := (f_exp_field f =? 2047) && (f_mant_field f =? 0).
Definition std_is_finite (f : fbits) : bool := negb (f_exp_field f =? 2047).
Definition std_is_subnormal (f : fbits) : bool := (f_exp_field f =? 0) && negb (f_mant_field f =? 0).
Definition std_is_normal (f : fbits) : bool :=
  negb (f_exp_field f =? 0) && negb (f_exp_field f =? 2047).
(* the sign of a NaN is not tracked by the model (NaNs are canonicalised): stated for non-NaN *)
Definition std_is_sign_negative (f : fbits) : bool := f_sign_bit f.
Definition std_is_sign_positive (f : fbits) : bool := negb (f_sign_bit f).

(* to_bits: `num.to_bits() as i64`; from_bits: `f64::from_bits(num as u64)` *)
Definition std_to_bits (f : fbits) : Z := wrap64 f.
Definition std_from_bits (z : Z) : fbits := fcanon (u64 z).

(* ---------- casts ---------- *)
Definition Hprec64 : FLX.Prec_gt_0 53 := eq_refl.
Definition Hmax64 : Prec_lt_emax 53 1024 := eq_refl.

(* truncation toward zero of a finite float  (-1)^s * m * 2^e *)
Definition trunc_finite (s : bool) (m : positive) (e : Z) : Z :=
  let a := if 0 <=? e then Z.pos m * 2 ^ e else Z.pos m / 2 ^ (- e) in
  if s then - a else a.

Definition clamp_i64 (z : Z) : Z :=
  if z <? MIN_INT then MIN_INT else if MAX_INT <? z then MAX_INT else z.

(* Rust `f as i64`: NaN -> 0, saturating at MIN/MAX, fraction dropped *)
Definition float_to_int (f : fbits) : Z :=
  match f_of_bits f with
  | Binary.B754_nan _ _ _ _ _ => 0
  | Binary.B754_zero _ _ _ => 0
  | Binary.B754_infinity _ _ s => if s then MIN_INT else MAX_INT
  | Binary.B754_finite _ _ s m e _ => clamp_i64 (trunc_finite s m e)
  end.

(* Rust `i as f64`: round to nearest, ties to even *)
Definition int_to_float (z : Z) : fbits :=
  bits_of_f (Binary.binary_normalize 53 1024 Hprec64 Hmax64 mode_NE z 0 false).

(* convert.to_int / convert.to_float on int|float *)
Definition std_to_int (v : value) : option Z :=
  match v with VInt z => Some z | VFloat f => Some (float_to_int f) | _ => None end.
Definition std_to_float (v : value) : option fbits :=
  match v with VInt z => Some (int_to_float z) | VFloat f => Some f | _ => None end.

(* ---------- floor / ceil / trunc / round / round_ties_even / fract ---------- *)
Definition f_nearby (m : mode) (f : fbits) : fbits :=
  bits_of_f (Binary.Bnearbyint 53 1024 Hmax64 unop_nan_pl64 m (f_of_bits f)).
Definition std_floor := f_nearby mode_DN.
Definition std_ceil := f_nearby mode_UP.
Definition std_trunc := f_nearby mode_ZR.
Definition std_round := f_nearby mode_NA.
Definition std_round_ties_even := f_nearby mode_NE.
Definition std_fract (f : fbits) : fbits := fsub f (std_trunc f).

(* ================================================================= *)
(* D.  One evaluation function for the modelled exports               *)
(* ================================================================= *)
(* What is outside the model: libm (ln, sin, ..), Unicode case mapping, decimal float parsing,
   Display of values, the operating system.  They enter as parameters and are only claimed
   total and well-typed. *)
Import String Ascii.
Local Open Scope string_scope.
Definition zs (s : String.string) : ident :=
  map (fun a => Z.of_N (Ascii.N_of_ascii a)) (String.list_ascii_of_string s).

Definition vstrings (l : list (list Z)) : value := arr_of (map VString l).
Definition vints (l : list Z) : value := arr_of (map VInt l).
Definition vopt {A} (f : A -> value) (o : option A) : value :=
  match o with Some x => f x | None => VVoid end.

(* `.map(Variable::as_int).map(Option::unwrap)` *)
Fixpoint ints_of (vs : list value) : option (list Z) :=
  match vs with
  | [] => Some []
  | VInt z :: vs => option_map (cons z) (ints_of vs)
  | _ :: _ => None
  end.

Definition E_BITS : fbits := 4613303445314885481.    (* 0x4005BF0A8B145769 *)
Definition PI_BITS : fbits := 4614256656552045848.   (* 0x400921FB54442D18 *)

(* export names as code points (computed once, so that the extracted model needs no Coq strings) *)
Definition n_E : ident := Eval vm_compute in zs "E".
Definition n_MAX_INT : ident := Eval vm_compute in zs "MAX_INT".
Definition n_MIN_INT : ident := Eval vm_compute in zs "MIN_INT".
Definition n_PI : ident := Eval vm_compute in zs "PI".
Definition n_acos : ident := Eval vm_compute in zs "acos".
Definition n_acosh : ident := Eval vm_compute in zs "acosh".
Definition n_asin : ident := Eval vm_compute in zs "asin".
Definition n_asinh : ident := Eval vm_compute in zs "asinh".
Definition n_atan : ident := Eval vm_compute in zs "atan".
Definition n_atan2 : ident := Eval vm_compute in zs "atan2".
Definition n_atanh : ident := Eval vm_compute in zs "atanh".
Definition n_bytes : ident := Eval vm_compute in zs "bytes".
Definition n_ceil : ident := Eval vm_compute in zs "ceil".
Definition n_chars : ident := Eval vm_compute in zs "chars".
Definition n_contains : ident := Eval vm_compute in zs "contains".
Definition n_convert : ident := Eval vm_compute in zs "convert".
Definition n_cos : ident := Eval vm_compute in zs "cos".
Definition n_cosh : ident := Eval vm_compute in zs "cosh".
Definition n_count_ones : ident := Eval vm_compute in zs "count_ones".
Definition n_count_zeros : ident := Eval vm_compute in zs "count_zeros".
Definition n_ends_with : ident := Eval vm_compute in zs "ends_with".
Definition n_exp_m1 : ident := Eval vm_compute in zs "exp_m1".
Definition n_floor : ident := Eval vm_compute in zs "floor".
Definition n_fract : ident := Eval vm_compute in zs "fract".
Definition n_from_bits : ident := Eval vm_compute in zs "from_bits".
Definition n_ilog : ident := Eval vm_compute in zs "ilog".
Definition n_ilog10 : ident := Eval vm_compute in zs "ilog10".
Definition n_ilog2 : ident := Eval vm_compute in zs "ilog2".
Definition n_is_finite : ident := Eval vm_compute in zs "is_finite".
Definition n_is_infinite : ident := Eval vm_compute in zs "is_infinite".
Definition n_is_nan : ident := Eval vm_compute in zs "is_nan".
Definition n_is_normal : ident := Eval vm_compute in zs "is_normal".
Definition n_is_sign_negative : ident := Eval vm_compute in zs "is_sign_negative".
Definition n_is_sign_positive : ident := Eval vm_compute in zs "is_sign_positive".
Definition n_is_subnormal : ident := Eval vm_compute in zs "is_subnormal".
Definition n_leading_ones : ident := Eval vm_compute in zs "leading_ones".
Definition n_leading_zeroes : ident := Eval vm_compute in zs "leading_zeroes".
Definition n_len : ident := Eval vm_compute in zs "len".
Definition n_ln : ident := Eval vm_compute in zs "ln".
Definition n_ln_1p : ident := Eval vm_compute in zs "ln_1p".
Definition n_log : ident := Eval vm_compute in zs "log".
Definition n_log10 : ident := Eval vm_compute in zs "log10".
Definition n_log2 : ident := Eval vm_compute in zs "log2".
Definition n_math : ident := Eval vm_compute in zs "math".
Definition n_parse_float : ident := Eval vm_compute in zs "parse_float".
Definition n_parse_int : ident := Eval vm_compute in zs "parse_int".
Definition n_replace : ident := Eval vm_compute in zs "replace".
Definition n_reverse_bits : ident := Eval vm_compute in zs "reverse_bits".
Definition n_round : ident := Eval vm_compute in zs "round".
Definition n_round_ties_even : ident := Eval vm_compute in zs "round_ties_even".
Definition n_sin : ident := Eval vm_compute in zs "sin".
Definition n_sinh : ident := Eval vm_compute in zs "sinh".
Definition n_split : ident := Eval vm_compute in zs "split".
Definition n_starts_with : ident := Eval vm_compute in zs "starts_with".
Definition n_std : ident := Eval vm_compute in zs "std".
Definition n_str_from_utf8 : ident := Eval vm_compute in zs "str_from_utf8".
Definition n_str_from_utf8_lossy : ident := Eval vm_compute in zs "str_from_utf8_lossy".
Definition n_string : ident := Eval vm_compute in zs "string".
Definition n_swap_bytes : ident := Eval vm_compute in zs "swap_bytes".
Definition n_tan : ident := Eval vm_compute in zs "tan".
Definition n_tanh : ident := Eval vm_compute in zs "tanh".
Definition n_to_bits : ident := Eval vm_compute in zs "to_bits".
Definition n_to_float : ident := Eval vm_compute in zs "to_float".
Definition n_to_int : ident := Eval vm_compute in zs "to_int".
Definition n_to_lowercase : ident := Eval vm_compute in zs "to_lowercase".
Definition n_to_string : ident := Eval vm_compute in zs "to_string".
Definition n_to_uppercase : ident := Eval vm_compute in zs "to_uppercase".
Definition n_trailing_ones : ident := Eval vm_compute in zs "trailing_ones".
Definition n_trailing_zeroes : ident := Eval vm_compute in zs "trailing_zeroes".
Definition n_trim : ident := Eval vm_compute in zs "trim".
Definition n_trim_end : ident := Eval vm_compute in zs "trim_end".
Definition n_trim_start : ident := Eval vm_compute in zs "trim_start".
Definition n_trunc : ident := Eval vm_compute in zs "trunc".

Section Eval.
  Variable libm1 : ident -> fbits -> fbits.                (* ln log2 log10 sin cos .. *)
  Variable libm2 : ident -> fbits -> fbits -> fbits.       (* log atan2 *)
  Variable to_lower to_upper : list Z -> list Z.
  Variable parse_float : list Z -> option fbits.
  Variable display : value -> list Z.

  Definition libm1_names : list ident :=
    [n_ln; n_log2; n_log10; n_sin; n_cos; n_tan; n_asin; n_acos; n_atan; n_exp_m1; n_ln_1p; n_sinh; n_cosh; n_tanh; n_asinh; n_acosh; n_atanh].

  (* the modelled exports, by the name of the enclosing struct ("std" for len) and their name;
     None = not a (non-file-system, non-io) Rust export, or arguments on which the
     implementation reaches an unwrap / unreachable!() *)
  Definition std_eval (module name : ident) (args : list value) : option value :=
    let is := fun (m n : ident) => ident_eqb module m && ident_eqb name n in
    if is n_convert n_to_string then
      match args with [v] => Some (VString (display v)) | _ => None end
    else if is n_std n_len then
      match args with [v] => option_map VInt (std_len v) | _ => None end
    else
    match args with
    | [] =>
        if is n_math n_MIN_INT then Some (VInt MIN_INT)
        else if is n_math n_MAX_INT then Some (VInt MAX_INT)
        else if is n_math n_E then Some (VFloat E_BITS)
        else if is n_math n_PI then Some (VFloat PI_BITS)
        else None
    | [VInt z] =>
        if is n_math n_count_ones then Some (VInt (count_ones z))
        else if is n_math n_count_zeros then Some (VInt (count_zeros z))
        else if is n_math n_leading_zeroes then Some (VInt (leading_zeroes z))
        else if is n_math n_trailing_zeroes then Some (VInt (trailing_zeroes z))
        else if is n_math n_leading_ones then Some (VInt (leading_ones z))
        else if is n_math n_trailing_ones then Some (VInt (trailing_ones z))
        else if is n_math n_swap_bytes then Some (VInt (swap_bytes z))
        else if is n_math n_reverse_bits then Some (VInt (reverse_bits z))
        else if is n_math n_ilog2 then Some (vopt VInt (ilog2 z))
        else if is n_math n_ilog10 then Some (vopt VInt (ilog10 z))
        else if is n_math n_from_bits then Some (VFloat (std_from_bits z))
        else if is n_convert n_to_int then Some (VInt z)
        else if is n_convert n_to_float then Some (VFloat (int_to_float z))
        else None
    | [VInt z; VInt b] =>
        if is n_math n_ilog then Some (vopt VInt (ilog z b)) else None
    | [VFloat f] =>
        if is n_convert n_to_int then Some (VInt (float_to_int f))
        else if is n_convert n_to_float then Some (VFloat f)
        else if is n_math n_is_nan then Some (VBool (std_is_nan f))
        else if is n_math n_is_infinite then Some (VBool (std_is_infinite f))
        else if is n_math n_is_finite then Some (VBool (std_is_finite f))
        else if is n_math n_is_normal then Some (VBool (std_is_normal f))
        else if is n_math n_is_subnormal then Some (VBool (std_is_subnormal f))
        else if is n_math n_is_sign_positive then Some (VBool (std_is_sign_positive f))
        else if is n_math n_is_sign_negative then Some (VBool (std_is_sign_negative f))
        else if is n_math n_to_bits then Some (VInt (std_to_bits f))
        else if is n_math n_floor then Some (VFloat (std_floor f))
        else if is n_math n_ceil then Some (VFloat (std_ceil f))
        else if is n_math n_trunc then Some (VFloat (std_trunc f))
        else if is n_math n_round then Some (VFloat (std_round f))
        else if is n_math n_round_ties_even then Some (VFloat (std_round_ties_even f))
        else if is n_math n_fract then Some (VFloat (std_fract f))
        else if ident_eqb module n_math && existsb (ident_eqb name) libm1_names
        then Some (VFloat (libm1 name f))
        else None
    | [VFloat f; VFloat g] =>
        if is n_math n_log || is n_math n_atan2 then Some (VFloat (libm2 name f g)) else None
    | [VString s] =>
        if is n_convert n_parse_int then Some (vopt VInt (parse_int s))
        else if is n_convert n_parse_float then Some (vopt VFloat (parse_float s))
        else if is n_string n_chars then Some (vstrings (chars s))
        else if is n_string n_bytes then Some (vints (bytes s))
        else if is n_string n_to_lowercase then Some (VString (to_lower s))
        else if is n_string n_to_uppercase then Some (VString (to_upper s))
        else if is n_string n_trim then Some (VString (trim s))
        else if is n_string n_trim_start then Some (VString (trim_start s))
        else if is n_string n_trim_end then Some (VString (trim_end s))
        else None
    | [VString s; VString p] =>
        if is n_string n_split then Some (vstrings (split s p))
        else if is n_string n_contains then Some (VBool (contains s p))
        else if is n_string n_starts_with then Some (VBool (starts_with s p))
        else if is n_string n_ends_with then Some (VBool (ends_with s p))
        else None
    | [VString s; VString f; VString t] =>
        if is n_string n_replace then Some (VString (replace s f t)) else None
    | [VArr et vs] =>
        if is n_string n_str_from_utf8 then
          option_map (fun l => vopt VString (str_from_utf8 l)) (ints_of vs)
        else if is n_string n_str_from_utf8_lossy then
          option_map (fun l => VString (str_from_utf8_lossy l)) (ints_of vs)
        else None
    | _ => None
    end.
End Eval.

(* Syntax.v — the instruction tree of src/instruction.rs (enum Instruction), the
   LocalVariables environment of creation/recreate, closures and the run-time store.
   Definitions only (M11). *)
From SSL.Model Require Import Base Ty Float Value Ops.

Definition name := ident.
Definition params := list (name * ty).

(* LocalVariable *)
Inductive lvar : Type :=
| LFunction (ps : params) (r : ty)
| LVariable (v : value)
| LOther (t : ty).

Inductive instr : Type :=
| IAnonFn (ps : params) (body : list instr) (ret : ty)
| IArray (es : list instr) (et : ty)
| IArrayRepeat (v len : instr)
| IBlock (body : list instr)
| IBreak
| IContinue
| IDestruct (ids : list name) (i : instr)
| IFieldAccess (i : instr) (f : name)
| IFnDecl (n : name) (ps : params) (body : list instr) (ret : ty)
| IIfElse (c t f : instr)
| ILocal (n : name) (lv : lvar)
| ILoop (b : instr)
| IMatch (e : instr) (arms : list arm)
| IMut (t : ty) (i : instr)
| IReduce (it init f : instr)
| ISet (n : name) (i : instr)
| ISetIfElse (n : name) (t : ty) (e ifm els : instr)
| ISlicing (l : instr) (a b c : option instr)
| IStruct (fs : list (name * instr))
| ITuple (es : list instr)
| ITupleAccess (i : instr) (k : nat)
| ITypeFilter (i : instr) (t : ty)
| IVar (v : value)
| IBin (op : binop) (l r : instr)
| IUn (op : unop) (i : instr)
with arm : Type :=
| ArmType (n : name) (t : ty) (i : instr)
| ArmValue (vs : list instr) (i : instr)
| ArmOther (i : instr).

(* ---- LocalVariables: layers, innermost first ---- *)
Record layer : Type := mkLayer {
  l_vars : list (name * lvar);
  l_fn : option (option name * ty);     (* FunctionInfo of a function layer *)
  l_loop : bool
}.
Definition lenv := list layer.

Fixpoint lenv_get (n : name) (e : lenv) : option lvar :=
  match e with
  | [] => None
  | l :: e => match assoc n (l_vars l) with Some v => Some v | None => lenv_get n e end
  end.

Definition layer_insert (n : name) (v : lvar) (l : layer) : layer :=
  mkLayer ((n, v) :: filter (fun kv => negb (ident_eqb n (fst kv))) (l_vars l)) (l_fn l) (l_loop l).

Definition lenv_insert (n : name) (v : lvar) (e : lenv) : lenv :=
  match e with
  | [] => [mkLayer [(n, v)] None false]
  | l :: e => layer_insert n v l :: e
  end.

Definition lenv_in_loop (e : lenv) : bool :=
  match e with [] => false | l :: _ => l_loop l end.
Definition lenv_set_loop (b : bool) (e : lenv) : lenv :=
  match e with [] => [mkLayer [] None b] | l :: e => mkLayer (l_vars l) (l_fn l) b :: e end.

(* create_layer copies in_loop; function_layer resets it *)
Definition lenv_push (e : lenv) : lenv := mkLayer [] None (lenv_in_loop e) :: e.
Definition lenv_push_fn (vars : list (name * lvar)) (fname : option name) (ret : ty) (e : lenv) : lenv :=
  mkLayer vars (Some (fname, ret)) false :: e.
Definition lenv_pop (e : lenv) : lenv := match e with [] => [] | _ :: e => e end.

Fixpoint lenv_function (e : lenv) : option (option name * ty) :=
  match e with
  | [] => None
  | l :: e => match l_fn l with Some f => Some f | None => lenv_function e end
  end.

Definition lvar_type (lv : lvar) : ty :=
  match lv with
  | LFunction ps r => TFun (map snd ps) r
  | LVariable v => as_type v
  | LOther t => t
  end.

Definition params_layer (ps : params) : list (name * lvar) :=
  (* HashMap::from iterator: a later duplicate name overwrites an earlier one *)
  fold_left (fun acc p => (fst p, LOther (snd p)) :: filter (fun kv => negb (ident_eqb (fst p) (fst kv))) acc) ps [].

(* ---- run time: closures, store, scopes ---- *)
Inductive cbody : Type :=
| BLang (body : list instr)
| BNative (id : nat).           (* std functions the model knows: see Exec.native *)

Record closure : Type := mkClosure {
  c_name : option name;
  c_params : params;
  c_body : cbody;
  c_ret : ty
}.

(* effects that properties talk about *)
Inductive event : Type :=
| EvWrite (loc : nat) (v : value)       (* a cell was assigned *)
| EvAlloc (loc : nat) (v : value)       (* a cell was created *)
| EvCall (fid : nat) (args : list value) (* a language-level function was entered *).

Record store : Type := mkStore {
  s_funs : list closure;
  s_cells : list value;
  s_log : list event                     (* most recent first *)
}.

Definition scope := list (name * value).
Definition scopes := list scope.          (* innermost first; Interpreter layers *)

Fixpoint scopes_get (n : name) (sc : scopes) : option value :=
  match sc with
  | [] => None
  | s :: sc => match assoc n s with Some v => Some v | None => scopes_get n sc end
  end.

Definition scope_insert (n : name) (v : value) (s : scope) : scope :=
  (n, v) :: filter (fun kv => negb (ident_eqb n (fst kv))) s.

Definition scopes_insert (n : name) (v : value) (sc : scopes) : scopes :=
  match sc with
  | [] => [[(n, v)]]
  | s :: sc => scope_insert n v s :: sc
  end.

Inductive signal : Type :=
| SVal (v : value)
| SBreak
| SContinue
| SReturn (v : value)
| SError (e : Z)
| SPanic
| SFuel.

(* Iter.v — SimpleSL iterators and the operators over them (definitions only).

   An iterator of the language is a zero-argument closure returning (bool, T):
   (true, x) = next element, (false, d) = exhausted (d is a dummy that no
   operator looks at).  Calling the closure may change cells and perform
   effects, so everything is state passing over ONE world state [W] (iterator
   cursors, cells, effect log).

   [step] is the result of calling an iterator once:
     Yield x w   (true, x), world afterwards w
     Done w      (false, _), world afterwards w
     NoFuel      the MODEL ran out of fuel inside the call (only the filter
                 loop can do that); never confused with an answer.
   Loops of the implementation that are not structurally recursive take
   [fuel : nat]; they return [None] / [NoFuel] when it runs out. *)
From Coq Require Import List ZArith Bool Arith.
Import ListNotations.

Inductive step (W A : Type) : Type :=
| Yield (x : A) (w : W)
| Done (w : W)
| NoFuel.
Arguments Yield {W A} x w.
Arguments Done {W A} w.
Arguments NoFuel {W A}.

Definition iter (W A : Type) : Type := W -> step W A.

(* a callback: pure result + effects on the world *)
Definition cb (W A B : Type) : Type := A -> W -> B * W.
Definition cb2 (W S A : Type) : Type := S -> A -> W -> S * W.
Definition pure {W A B} (f : A -> B) : cb W A B := fun x w => (f x, w).
Definition pure2 {W S A} (f : S -> A -> S) : cb2 W S A := fun s x w => (f s x, w).

(* what the body of a `for` tells its loop; `continue` just ends the body
   early, so it is [Next] as far as the loop is concerned *)
Inductive ctl : Type := Next | Break.

Section Ops.
Context {W : Type}.

(* ---------- how a source behaves ---------- *)
(* [pulls it w xs w1]: calling [it] |xs| times from [w] gives xs, reaching w1
   (says nothing about what comes next) *)
Inductive pulls {A} (it : iter W A) : W -> list A -> W -> Prop :=
| pulls_nil : forall w, pulls it w [] w
| pulls_cons : forall w x w1 xs w',
    it w = Yield x w1 -> pulls it w1 xs w' -> pulls it w (x :: xs) w'.

(* [yields it w xs w']: from [w] the iterator produces exactly xs and then
   reports exhaustion, ending in w'.  n+1 calls for n elements. *)
Inductive yields {A} (it : iter W A) : W -> list A -> W -> Prop :=
| yields_nil : forall w w', it w = Done w' -> yields it w [] w'
| yields_cons : forall w x w1 xs w',
    it w = Yield x w1 -> yields it w1 xs w' -> yields it w (x :: xs) w'.

(* the same, with a callback run after every element, on the world the source
   left, before the source is stepped again: [bs] are the callback's results.
   "k applied exactly once per element, in order" is built into the relation;
   the instrumented worlds below turn it into an equation on a log. *)
Inductive pruns {A B} (it : iter W A) (k : cb W A B) : W -> list A -> list B -> W -> Prop :=
| pruns_nil : forall w, pruns it k w [] [] w
| pruns_cons : forall w x w1 b w2 xs bs w',
    it w = Yield x w1 -> k x w1 = (b, w2) -> pruns it k w2 xs bs w' ->
    pruns it k w (x :: xs) (b :: bs) w'.

Inductive runs {A B} (it : iter W A) (k : cb W A B) : W -> list A -> list B -> W -> Prop :=
| runs_nil : forall w w', it w = Done w' -> runs it k w [] [] w'
| runs_cons : forall w x w1 b w2 xs bs w',
    it w = Yield x w1 -> k x w1 = (b, w2) -> runs it k w2 xs bs w' ->
    runs it k w (x :: xs) (b :: bs) w'.

(* ... and with an accumulator-dependent callback (reduce) *)
Inductive folds {A S} (it : iter W A) (f : cb2 W S A) : S -> W -> list A -> S -> W -> Prop :=
| folds_nil : forall s w w', it w = Done w' -> folds it f s w [] s w'
| folds_cons : forall s w x w1 s2 w2 xs s' w',
    it w = Yield x w1 -> f s x w1 = (s2, w2) -> folds it f s2 w2 xs s' w' ->
    folds it f s w (x :: xs) s' w'.

(* sequential application of an effectful callback to a list (mapM) and the
   effectful left fold: the "sequence definitions" for effectful callbacks
   when the source itself is a list *)
Fixpoint mapM {A B} (k : cb W A B) (xs : list A) (w : W) : list B * W :=
  match xs with
  | [] => ([], w)
  | x :: xs => let (b, w1) := k x w in
               let (bs, w2) := mapM k xs w1 in (b :: bs, w2)
  end.

Fixpoint foldM {A S} (f : cb2 W S A) (xs : list A) (s : S) (w : W) : S * W :=
  match xs with
  | [] => (s, w)
  | x :: xs => let (s1, w1) := f s x w in foldM f xs s1 w1
  end.

(* keep the xs whose flag is set *)
Fixpoint select {A} (xs : list A) (bs : list bool) : list A :=
  match xs, bs with
  | x :: xs, b :: bs => if b then x :: select xs bs else select xs bs
  | _, _ => []
  end.

(* ---------- the operators ---------- *)
(* it $] : vec = []; loop { (c, x) = it(); if !c break; vec.push(x) } *)
Fixpoint collect_loop {A} (fuel : nat) (it : iter W A) (vec : list A) (w : W)
  : option (list A * W) :=
  match fuel with
  | 0 => None
  | S n => match it w with
           | Yield x w1 => collect_loop n it (vec ++ [x]) w1
           | Done w' => Some (vec, w')
           | NoFuel => None
           end
  end.
Definition collect {A} (fuel : nat) (it : iter W A) (w : W) := collect_loop fuel it [] w.

(* it @ f : res = it(); (c, x) = res; if !c return res; return (true, f(x)) *)
Definition map_iter {A B} (f : cb W A B) (it : iter W A) : iter W B :=
  fun w => match it w with
           | Yield x w1 => let (y, w2) := f x w1 in Yield y w2
           | Done w' => Done w'
           | NoFuel => NoFuel
           end.

(* it ? p : loop { res = it(); (c, x) = res; if !c || p(x) return res } *)
Fixpoint filter_iter {A} (fuel : nat) (p : cb W A bool) (it : iter W A) (w : W) : step W A :=
  match fuel with
  | 0 => NoFuel
  | S n => match it w with
           | Yield x w1 => let (b, w2) := p x w1 in
                           if b then Yield x w2 else filter_iter n p it w2
           | Done w' => Done w'
           | NoFuel => NoFuel
           end
  end.

(* it ? T : filter by the runtime type of the element *)
Definition type_filter {A} (fuel : nat) (tag_ok : A -> bool) (it : iter W A) : iter W A :=
  filter_iter fuel (pure tag_ok) it.

(* it \ p *)
Fixpoint partition_loop {A} (fuel : nat) (p : cb W A bool) (it : iter W A)
  (left right : list A) (w : W) : option ((list A * list A) * W) :=
  match fuel with
  | 0 => None
  | S n => match it w with
           | Yield x w1 => let (b, w2) := p x w1 in
                           if b then partition_loop n p it (left ++ [x]) right w2
                           else partition_loop n p it left (right ++ [x]) w2
           | Done w' => Some ((left, right), w')
           | NoFuel => None
           end
  end.
Definition partition_iter {A} (fuel : nat) (p : cb W A bool) (it : iter W A) (w : W) :=
  partition_loop fuel p it [] [] w.

(* it $ init f *)
Fixpoint reduce {A S} (fuel : nat) (f : cb2 W S A) (acc : S) (it : iter W A) (w : W)
  : option (S * W) :=
  match fuel with
  | 0 => None
  | S n => match it w with
           | Yield x w1 => let (acc', w2) := f acc x w1 in reduce n f acc' it w2
           | Done w' => Some (acc, w')
           | NoFuel => None
           end
  end.

Definition sum_iter (fuel : nat) (it : iter W Z) := reduce fuel (pure2 Z.add) 0%Z it.
Definition product_iter (fuel : nat) (it : iter W Z) := reduce fuel (pure2 Z.mul) 1%Z it.
Definition bitand_iter (fuel : nat) (it : iter W Z) := reduce fuel (pure2 Z.land) (-1)%Z it.
Definition bitor_iter (fuel : nat) (it : iter W Z) := reduce fuel (pure2 Z.lor) 0%Z it.

(* $&& : loop { (c, v) = it(); if !c break; if !v return false }; true *)
Fixpoint all_iter (fuel : nat) (it : iter W bool) (w : W) : option (bool * W) :=
  match fuel with
  | 0 => None
  | S n => match it w with
           | Yield v w1 => if v then all_iter n it w1 else Some (false, w1)
           | Done w' => Some (true, w')
           | NoFuel => None
           end
  end.

(* $|| *)
Fixpoint any_iter (fuel : nat) (it : iter W bool) (w : W) : option (bool * W) :=
  match fuel with
  | 0 => None
  | S n => match it w with
           | Yield v w1 => if v then Some (true, w1) else any_iter n it w1
           | Done w' => Some (false, w')
           | NoFuel => None
           end
  end.

(* for x in it body : loop { (c, x) = it(); if c body(x) else break } *)
Fixpoint for_loop {A} (fuel : nat) (body : cb W A ctl) (it : iter W A) (w : W) : option W :=
  match fuel with
  | 0 => None
  | S n => match it w with
           | Yield x w1 => let (c, w2) := body x w1 in
                           match c with Next => for_loop n body it w2 | Break => Some w2 end
           | Done w' => Some w'
           | NoFuel => None
           end
  end.

(* a~ : closure over a counter cell starting at -1:
     i += 1; if *i < len return (true, a[*i]); return (false, default)
   The cell is reached through [getc]/[setc]. *)
Section ArrayIter.
Variable getc : W -> Z.
Variable setc : Z -> W -> W.

Definition tick (w : W) : W := setc (getc w + 1)%Z w.

Definition array_iter {A} (a : list A) : iter W A :=
  fun w =>
    let i := (getc w + 1)%Z in
    let w1 := setc i w in
    if ((0 <=? i) && (i <? Z.of_nat (length a)))%Z then
      match nth_error a (Z.to_nat i) with
      | Some x => Yield x w1
      | None => Done w1
      end
    else Done w1.
End ArrayIter.

End Ops.

(* ---------- separated state ---------- *)
(* The world is a pair: the source lives on the first component (its cursor),
   the callback on the second (cells, log).  Then the interleaved run is the
   source's own run next to the sequential application (mapM / foldM) of the
   callback to the elements. *)
Definition src_on_fst {S L A} (it : iter S A) : iter (S * L) A :=
  fun w => match it (fst w) with
           | Yield x s => Yield x (s, snd w)
           | Done s => Done (s, snd w)
           | NoFuel => NoFuel
           end.
Definition cb_on_snd {S L A B} (k : cb L A B) : cb (S * L) A B :=
  fun x w => let (b, l) := k x (snd w) in (b, (fst w, l)).
Definition cb2_on_snd {S L T A} (f : cb2 L T A) : cb2 (S * L) T A :=
  fun t x w => let (t', l) := f t x (snd w) in (t', (fst w, l)).

(* ---------- instrumented worlds: "how often, in which order" as a log ------ *)
(* Every operator is polymorphic in the world, so it can be run on a world
   extended with a trace of the calls made to the source and to the callback. *)
Inductive event (A : Type) : Type :=
| EStep                 (* the source was called *)
| ECall (x : A).        (* the callback was called on x *)
Arguments EStep {A}.
Arguments ECall {A} x.

Definition traced_it {W A E} (it : iter W A) : iter (W * list (event E)) A :=
  fun wl => match it (fst wl) with
            | Yield x w1 => Yield x (w1, snd wl ++ [EStep])
            | Done w' => Done (w', snd wl ++ [EStep])
            | NoFuel => NoFuel
            end.

Definition traced_cb {W A B} (k : cb W A B) : cb (W * list (event A)) A B :=
  fun x wl => let (b, w1) := k x (fst wl) in (b, (w1, snd wl ++ [ECall x])).

Definition traced_cb2 {W S A} (f : cb2 W S A) : cb2 (W * list (event A)) S A :=
  fun s x wl => let (s1, w1) := f s x (fst wl) in (s1, (w1, snd wl ++ [ECall x])).

(* the trace an eager consumer with a callback must leave for xs *)
Definition full_trace {A} (xs : list A) : list (event A) :=
  flat_map (fun x => [EStep; ECall x]) xs ++ [EStep].

(* ---------- a concrete world for examples ---------- *)
Record world : Type := mkWorld { cursors : list Z; wlog : list Z }.

Fixpoint upd (c : nat) (v : Z) (l : list Z) : list Z :=
  match c, l with
  | 0, [] => [v]
  | 0, _ :: t => v :: t
  | S c, [] => 0%Z :: upd c v []
  | S c, h :: t => h :: upd c v t
  end.

Definition get_cursor (c : nat) (w : world) : Z := nth c (cursors w) 0%Z.
Definition set_cursor (c : nat) (v : Z) (w : world) : world :=
  mkWorld (upd c v (cursors w)) (wlog w).
Definition say (z : Z) (w : world) : world := mkWorld (cursors w) (wlog w ++ [z]).

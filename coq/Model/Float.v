(* Float.v — f64 arithmetic as IEEE-754 binary64 (Flocq), on bit patterns.
   A float value of the model is its 64-bit pattern (a Z in [0, 2^64)), with every
   NaN canonicalised to CANON_NAN; Rust leaves NaN sign/payload unspecified, and
   the lanes identify all NaNs. *)
From SSL.Model Require Import Base.
From Flocq Require Import IEEE754.Binary IEEE754.Bits IEEE754.BinarySingleNaN.

Local Open Scope Z_scope.
Definition fbits := Z.
Definition CANON_NAN : fbits := 9221120237041090560. (* 0x7FF8000000000000 *)

Definition f_of_bits (x : fbits) : binary64 := b64_of_bits x.
Definition bits_of_f (f : binary64) : fbits :=
  if Binary.is_nan 53 1024 f then CANON_NAN else bits_of_b64 f.

Definition f_is_nan (x : fbits) : bool := Binary.is_nan 53 1024 (f_of_bits x).
Definition fcanon (x : fbits) : fbits := bits_of_f (f_of_bits x).

Definition fadd (x y : fbits) : fbits := bits_of_f (b64_plus mode_NE (f_of_bits x) (f_of_bits y)).
Definition fsub (x y : fbits) : fbits := bits_of_f (b64_minus mode_NE (f_of_bits x) (f_of_bits y)).
Definition fmul (x y : fbits) : fbits := bits_of_f (b64_mult mode_NE (f_of_bits x) (f_of_bits y)).
Definition fdiv (x y : fbits) : fbits := bits_of_f (b64_div mode_NE (f_of_bits x) (f_of_bits y)).
Definition fneg (x : fbits) : fbits := bits_of_f (b64_opp (f_of_bits x)).

Definition fcmp (x y : fbits) : option comparison := b64_compare (f_of_bits x) (f_of_bits y).
Definition feq (x y : fbits) : bool := match fcmp x y with Some Eq => true | _ => false end.
Definition flt (x y : fbits) : bool := match fcmp x y with Some Lt => true | _ => false end.
Definition fle (x y : fbits) : bool := match fcmp x y with Some Lt | Some Eq => true | _ => false end.
Definition fgt (x y : fbits) : bool := match fcmp x y with Some Gt => true | _ => false end.
Definition fge (x y : fbits) : bool := match fcmp x y with Some Gt | Some Eq => true | _ => false end.

Definition F_ZERO : fbits := 0.
Definition F_ONE : fbits := 4607182418800017408.

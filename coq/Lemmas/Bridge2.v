(* Bridge2.v — end to end: what Code::parse (Top.parse_top) accepts is a typed statement
   list, so running it (Top.run_code) never panics, yields values of the static types and
   only the documented errors (composition with layer 3, Lemmas/Soundness.v).

   Code::parse checks each top-level line in the LocalVariables the constant-propagation
   pass has built so far, then recreates it.  [tinv e G]: those LocalVariables against the
   typing environment of the RECREATED program: [cenv], top-level context, and every name
   of G is a constant of its type, a local of exactly its type, or a good scope value. *)
From SSL.Model Require Import Base Ty Float Value Ops Seq Syntax Rt Recreate Exec Check Top.
From SSL.Lemmas Require Import TyLemmas ValueLemmas SeqLemmas ExecLemmas SoundLemmas CellLemmas
  SoundDefs SoundVals SoundTyping Sound1 Sound5 Soundness SoundRec2 SoundRec3
  CheckUnfold CheckBase CheckTotal RecreateTotal Bridge1.
From SSL.Lemmas Require TyFuel TyEq TyMatches TyJoin TyQuery.
Import TyFuel TyEq TyMatches TyJoin TyQuery.

(* destructuring is not handled at the TOP level (it is inside blocks and functions) *)
Definition top_ok (ln : sline) : bool := match ln with LDestruct _ _ => false | _ => true end.

Section EndToEnd.
Existing Instance all_policy.
Variable powf : fbits -> fbits -> fbits.
Variable pre : prelude.
Variable red : reducers.
Variable W : sty.
Variable sc : scopes.
Hypothesis Ssc : sgood W sc.

Definition apol : forall W1 G1 nm1 ps1 body1 r1, @closure_ok all_policy W1 G1 nm1 ps1 body1 r1 :=
  fun _ _ _ _ _ _ => I.
Definition KT : kctx := mkK false None.

Definition tinv (e : lenv) (G : genv) : Prop :=
  cenv W e G /\ kof e = KT /\
  forall n T, assoc n G = Some T ->
    match lenv_get n e with
    | Some (LVariable v) => gv W v T
    | Some lv => lvar_type lv = T
    | None => exists v, scopes_get n sc = Some v /\ gv W v T
    end.

Lemma tinv_renv e G : tinv e G -> renv W sc e G G.
Proof.
  intros [[Wg Hc] [_ H]]. split; [exact Wg|]. split; [exact Wg|]. intros n T Hn.
  pose proof (H n T Hn) as Hm. destruct (lenv_get n e) as [[| |]|] eqn:E; try exact Hm;
    rewrite Hm; (split; [exact Hn|apply matches_refl, (Wg n T Hn)]).
Qed.

(* the pass on a typed instruction / line (SoundRec3.rec_all_fuel, as in Props/C01b.v) *)
Lemma rec_typed n G K i T e G2 :
  typed W G K i T -> renv W sc e G G2 ->
  match recreate powf n sc e i with
  | Ok (i', e') => e' = e /\ exists T', typed W G2 K i' T' /\ matches T' T = true
  | Err x => doc_err x
  | Panic => False
  | OutOfFuel => True
  end.
Proof.
  intros Ht HR.
  pose proof (proj1 (@rec_all_fuel all_policy apol powf sc W n) W G K i T Ht (ext_refl W) e G2 HR) as C.
  destruct (recreate powf n sc e i) as [[i' e']| | |]; exact C.
Qed.

Lemma rec_line_typed n G K i T G' e G2 :
  typed_line W G K i T G' -> renv W sc e G G2 ->
  match recreate powf n sc e i with
  | Ok (i', e') => exists T' G2', typed_line W G2 K i' T' G2' /\ matches T' T = true
  | Err x => doc_err x
  | Panic => False
  | OutOfFuel => True
  end.
Proof.
  intros Ht HR.
  pose proof (proj2 (@rec_all_fuel all_policy apol powf sc W n) W G K i T G' Ht (ext_refl W) e G2 HR) as C.
  destruct (recreate powf n sc e i) as [[i' e']| | |]; try exact C.
  destruct C as [T' [G2' [A [B _]]]]. eauto.
Qed.

Lemma tinv_insert n lv T e G :
  tinv e G -> wf_ty T = true -> lv_ok W lv T ->
  match lv with LVariable v => gv W v T | _ => True end ->
  tinv (lenv_insert n lv e) ((n, T) :: G).
Proof.
  intros [HC [HK H]] Wt Hl Hg. split; [apply cenv_insert; assumption|].
  split; [rewrite kof_insert; exact HK|].
  intros m T0 Hm. rewrite lenv_get_insert. cbn [assoc] in Hm. destruct (ident_eqb m n).
  - injection Hm as <-. destruct lv; try exact Hg; exact Hl.
  - apply H, Hm.
Qed.

Definition line_res (G : genv) (o : outcome (instr * lenv)) : Prop :=
  match o with
  | Ok (i', e') => exists T' G', typed_line W G KT i' T' G' /\ tinv e' G'
  | Err x => doc_err x
  | Panic => False
  | OutOfFuel => True
  end.

Lemma top_line fuel e G ln is e1 :
  tinv e G -> wf_sline ln = true -> blfrag ln = true -> top_ok ln = true ->
  check_lines red fuel sc (lenv_push e) [ln] = Ok (is, e1) ->
  exists i, is = [i] /\ line_res G (recreate powf fuel sc e i).
Proof.
  intros TI Wl Fl Tk H. pose proof TI as [HC [HK HT]]. pose proof HC as [Wg _].
  pose proof (tinv_renv e G TI) as HR.
  destruct (@check_line_typed all_policy apol W red fuel sc (lenv_push e) G ln is e1 Ssc
              (cenv_leq W _ e G (leq_push e) HC) Wl Fl H) as [i [T [G1 [-> [Hl [Hk _]]]]]].
  rewrite kof_push, HK in Hl, Hk. exists i. split; [reflexivity|].
  destruct Hk as [[Ht ->]|[[n [xi [-> [Hx ->]]]]|[[n [ps [b [r [-> [-> ->]]]]]]|[ids [s [xi [-> _]]]]]]].
  - (* a statement *)
    pose proof (rec_typed fuel G KT i T e G Ht HR) as C.
    destruct (recreate powf fuel sc e i) as [[i' e']| | |]; cbn [line_res]; try exact C.
    destruct C as [-> [T' [Ht' _]]]. exists T', G. split; [apply Ln_stm, Ht'|exact TI].
  - (* x := e *)
    destruct fuel as [|m]; [exact I|]. rewrite rec_set.
    pose proof (rec_typed m G KT xi T e G Hx HR) as C.
    destruct (recreate powf m sc e xi) as [[x' e']| | |] eqn:Ex; cbn [obind line_res]; try exact C.
    destruct C as [-> [T' [Hx' _]]].
    destruct (lvar_of_instr_total x') as [lv' El]. rewrite El. cbn [obind].
    pose proof (typed_wf _ _ _ _ _ Hx' Wg) as Wt'.
    pose proof (typed_cinv W _ _ _ _ Hx') as Cv.
    pose proof (lvar_of_instr_spec W x' T' lv' (typed_rt _ _ _ _ _ Hx') Cv El) as Hlv.
    exists T', ((n, T') :: G). split; [apply Ln_set, Hx'|].
    apply tinv_insert; try assumption.
    destruct lv'; try exact I. destruct Cv as [Cv Nl].
    pose proof (lvar_of_instr_var x' _ v Nl El eq_refl) as ->.
    pose proof (typed_rt _ _ _ _ _ Hx') as R. cbn [rt] in R. injection R as <-.
    split; [apply (vgood_self W), Hlv|exact Hlv].
  - (* f := (..) {..} *)
    pose proof (rec_line_typed fuel G KT _ _ _ e G Hl HR) as C.
    destruct fuel as [|m]; [exact I|]. rewrite rec_fndecl in C |- *.
    destruct (rl_def (recreate powf m sc) b _) as [[b' e2]| | |]; cbn [obind line_res] in *; try exact C.
    destruct C as [T' [G2' [Hl' _]]].
    inversion Hl' as [? ? ? ? Hbad| | |]; subst; [inversion Hbad|].
    eexists _, _. split; [exact Hl'|].
    apply tinv_insert; [exact TI|assumption|reflexivity|exact I].
  - discriminate Tk.
Qed.

(* Code::parse: the recreated program is a typed statement list *)
Theorem parse_top_typed fuel : forall l e G is e',
  tinv e G -> forallb wf_sline l = true -> forallb blfrag l = true -> forallb top_ok l = true ->
  parse_top powf red fuel sc e l = Ok (is, e') ->
  exists G' Ts, typed_list W G KT is G' Ts /\ tinv e' G'.
Proof.
  induction l as [|ln l IH]; intros e G is e' TI Wl Fl Tl H.
  - injection H as <- <-. exists G, []. split; [constructor|exact TI].
  - cbn [forallb] in Wl, Fl, Tl. andb_split Wl. andb_split Fl. andb_split Tl.
    cbn [parse_top] in H. apply obind_ok in H. destruct H as [[is0 e1] [Ec H]].
    destruct (top_line fuel e G ln is0 e1 TI Wl Fl Tl Ec) as [i [-> R]].
    apply obind_ok in H. destruct H as [[i' e2] [Er H]].
    apply obind_ok in H. destruct H as [[is' e3] [Ep H]]. injection H as <- <-.
    rewrite Er in R. destruct R as [T' [G1 [Hl TI1]]].
    destruct (IH e2 G1 is' e3 TI1 Wl0 Fl0 Tl0 Ep) as [G' [Ts [Hls TI']]].
    exists G', (T' :: Ts). split; [econstructor; eassumption|exact TI'].
Qed.

(* ... and Code::parse itself does not panic after the checker accepted a line: the pass
   reports a documented error or succeeds (fuel aside) *)
Theorem parse_top_recreate_errors fuel e G ln is e1 :
  tinv e G -> wf_sline ln = true -> blfrag ln = true -> top_ok ln = true ->
  check_lines red fuel sc (lenv_push e) [ln] = Ok (is, e1) ->
  exists i, is = [i] /\ recreate powf fuel sc e i <> Panic /\
            forall x, recreate powf fuel sc e i = Err x -> doc_err x.
Proof.
  intros TI Wl Fl Tk H. destruct (top_line fuel e G ln is e1 TI Wl Fl Tk H) as [i [-> R]].
  exists i. split; [reflexivity|].
  destruct (recreate powf fuel sc e i) as [[i' e']| | |]; cbn [line_res] in R.
  - split; [discriminate|intros x E; discriminate E].
  - split; [discriminate|intros x E; injection E as <-; exact R].
  - contradiction.
  - split; [discriminate|intros x E; discriminate E].
Qed.

(* END TO END: run what Code::parse returned *)
Theorem parse_run_sound fuel n l e G is e' :
  tinv e G -> forallb wf_sline l = true -> forallb blfrag l = true -> forallb top_ok l = true ->
  parse_top powf red fuel sc e l = Ok (is, e') ->
  exists G' Ts, typed_list W G KT is G' Ts /\
  forall W1 st rsc last Tl, ext W W1 -> store_ok W1 st -> env_ok W1 rsc G -> gv W1 last Tl ->
  exists W', ext W1 W' /\ store_ok W' (sto (run_code powf pre n st rsc is last)) /\
    match sig (run_code powf pre n st rsc is last) with
    | SVal v => gv W' v (List.last Ts Tl) /\
                env_ok W' (scs (run_code powf pre n st rsc is last)) G'
    | SError x => doc_err x
    | SFuel => True
    | _ => False
    end.
Proof.
  intros TI Wl Fl Tl H.
  destruct (parse_top_typed fuel l e G is e' TI Wl Fl Tl H) as [G' [Ts [Hl _]]].
  exists G', Ts. split; [exact Hl|]. intros W1 st rsc last Tl0 HE HS HG Hlast.
  apply (@run_code_sound all_policy powf pre (recreate_ok_all powf) n W G is G' Ts Hl
           W1 st rsc last Tl0 HE HS HG Hlast).
Qed.

Lemma tinv_empty : tinv [mkLayer [] None false] [].
Proof.
  split; [split; [intros n T H; discriminate H|intros n lv H; discriminate H]|].
  split; [reflexivity|intros n T H; discriminate H].
Qed.

End EndToEnd.

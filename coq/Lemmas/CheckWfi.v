(* CheckWfi.v — what the checker builds on the fragment of ReplFrag.v obeys the binder
   discipline of the preservation theorems: `x := e`, destructurings and function declarations
   only as lines ([wfi true]); an expression statement never changes the bindings of the
   checker's environment ([leq]); a local-variable node never carries a constant ([nc1]). *)
From SSL.Model Require Import Base Ty Float Value Ops Seq Syntax Rt Recreate Exec Check.
From SSL.Lemmas Require Import CheckUnfold RecrUnfold RecrMono RecrDefs RecrSim1 ReplFrag.

Arguments matches : simpl never.

Definition leq (e1 e2 : lenv) : Prop := forall n, lenv_get n e1 = lenv_get n e2.
Lemma leq_refl e : leq e e.
Proof. intros n. reflexivity. Qed.
Lemma leq_trans e1 e2 e3 : leq e1 e2 -> leq e2 e3 -> leq e1 e3.
Proof. intros A B n. rewrite A. apply B. Qed.
Lemma leq_set_loop b e : leq (lenv_set_loop b e) e.
Proof. intros n. destruct e; reflexivity. Qed.

Lemma forallb_app_true {A} (f : A -> bool) l1 l2 :
  forallb f l1 = true -> forallb f l2 = true -> forallb f (l1 ++ l2) = true.
Proof. intros A1 A2. rewrite forallb_app, A1, A2. reflexivity. Qed.

Lemma forallb_rev_true {A} (f : A -> bool) l : forallb f l = true -> forallb f (rev l) = true.
Proof.
  intros H. apply forallb_forall. intros x Hx. apply in_rev in Hx.
  rewrite forallb_forall in H. apply H. exact Hx.
Qed.

Lemma forallb_filter_true {A} (f g : A -> bool) l : forallb f l = true -> forallb f (filter g l) = true.
Proof.
  intros H. apply forallb_forall. intros x Hx. apply filter_In in Hx.
  rewrite forallb_forall in H. apply H. apply Hx.
Qed.

Lemma drop_consts_forallb (f : instr -> bool) l : forallb f l = true -> forallb f (drop_consts l) = true.
Proof.
  intros H. unfold drop_consts. pose proof (forallb_rev_true f l H) as Hr.
  destruct (rev l) as [|lst front]; [reflexivity|].
  cbn [forallb] in Hr. apply andb_true_iff in Hr. destruct Hr as [Hl Hf].
  apply forallb_app_true; [apply forallb_rev_true, forallb_filter_true; exact Hf|].
  cbn [forallb]. rewrite Hl. reflexivity.
Qed.

Ltac ib H := let a := fresh "a" in let Ha := fresh "Ha" in inv_bind H a Ha.

Section Wfi.
Variable red : reducers.

Definition Px (n : nat) : Prop := forall sc e x i,
  rfx x = true -> check_x red n sc e x = Ok i -> wfi true false i = true /\ nc1 i.
Definition Ps (n : nat) : Prop := forall sc e s i e',
  rfs s = true -> check_s red n sc e s = Ok (i, e') -> wfi true false i = true /\ nc1 i /\ leq e' e.
Definition Pl (n : nat) : Prop := forall sc e l is e',
  forallb rfl l = true -> check_lines red n sc e l = Ok (is, e') -> forallb (wfi true true) is = true.

Lemma Pxl n (IH : Px n) sc e : forall l is, forallb rfx l = true ->
  cxl_def (check_x red n sc e) l = Ok is -> forallb (wfi true false) is = true.
Proof.
  induction l as [|y l IHl]; intros is F H; [injection H as <-; reflexivity|].
  cbn [cxl_def] in H. fold (cxl_def (check_x red n sc e)) in H.
  ib H. ib H. injection H as <-. cbn [forallb] in F |- *. apply andb_true_iff in F. destruct F as [Fy Fl].
  rewrite (proj1 (IH _ _ _ _ Fy Ha)), (IHl _ Fl Ha0). reflexivity.
Qed.

Lemma Pxf n (IH : Px n) sc e : forall l fs, forallb rf_field l = true ->
  cxf_def (check_x red n sc e) l = Ok fs -> forallb (fun kv => wfi true false (snd kv)) fs = true.
Proof.
  induction l as [|[k [y|]] l IHl]; intros fs F H; [injection H as <-; reflexivity| |];
    cbn [cxf_def] in H; fold (cxf_def (check_x red n sc e)) in H;
    ib H; ib H; injection H as <-; cbn [forallb snd] in F |- *; apply andb_true_iff in F; destruct F as [Fy Fl];
    rewrite (IHl _ Fl Ha0).
  - cbn [rf_field] in Fy. rewrite (proj1 (IH _ _ _ _ Fy Ha)). reflexivity.
  - rewrite (proj1 (IH sc e (XIdent k) _ eq_refl Ha)). reflexivity.
Qed.

Lemma Pxo n (IH : Px n) sc e o oi : opt_all rfx o = true ->
  cxo_def (check_x red n sc e) o = Ok oi -> wf_opt true oi = true.
Proof.
  destruct o as [y|]; cbn [cxo_def opt_all]; intros F H; [|injection H as <-; reflexivity].
  ib H. injection H as <-. cbn [wf_opt]. apply (IH _ _ _ _ F Ha).
Qed.

Lemma xcall_result (fi : instr) (ais : list instr) (ats : list ty) i :
  (let build := Ok (IBin FunctionCall fi (ITuple ais)) in
   match fi with
   | IVar (VFun _ ps _) => if args_ok ps ats then build else reject
   | ILocal _ (LFunction ps _) => if args_ok (map snd ps) ats then build else reject
   | IAnonFn ps _ _ => if args_ok (map snd ps) ats then build else reject
   | _ =>
       obind (rt fi) (fun ft =>
       if negb (is_function ft) then reject else
       match Ty.params ft with
       | None => reject
       | Some ps => if args_ok ps ats then build else reject
       end)
   end) = Ok i -> i = IBin FunctionCall fi (ITuple ais).
Proof.
  cbv zeta. intros H.
  assert (G : forall (b : bool), (if b then Ok (IBin FunctionCall fi (ITuple ais)) else reject) = Ok i ->
              i = IBin FunctionCall fi (ITuple ais)).
  { intros [|] E; [injection E as <-; reflexivity|discriminate E]. }
  assert (G2 : obind (rt fi) (fun ft =>
       if negb (is_function ft) then reject else
       match Ty.params ft with
       | None => reject
       | Some ps => if args_ok ps ats then Ok (IBin FunctionCall fi (ITuple ais)) else reject
       end) = Ok i -> i = IBin FunctionCall fi (ITuple ais)).
  { intros E. ib E. destruct (negb (is_function a)); [discriminate E|].
    destruct (Ty.params a); [|discriminate E]. apply (G _ E). }
  destruct fi; try exact (G2 H); try exact (G _ H).
  - destruct lv; try exact (G2 H); exact (G _ H).
  - destruct v; try exact (G2 H); exact (G _ H).
Qed.

Lemma Px_S n : Px n -> Pl n -> Px (S n).
Proof.
  intros IH IHl sc e x i F H. rewrite check_x_S in H. destruct x; cbn [x_body rfx] in H, F; try discriminate F.
  - (* XIdent *)
    destruct (lenv_get n0 e) as [[ps r|v|t]|]; try (injection H as <-; split; [reflexivity|exact I]).
    destruct (scopes_get n0 sc); [injection H as <-; split; [reflexivity|exact I]|discriminate H].
  - injection H as <-. split; [reflexivity|exact I].
  - (* XMut *) destruct t as [t|]; ib H; ib H.
    + destruct (matches a0 t); [|discriminate H]. injection H as <-.
      split; [apply (IH _ _ _ _ F Ha)|exact I].
    + injection H as <-. split; [apply (IH _ _ _ _ F Ha)|exact I].
  - (* XTuple *) ib H. injection H as <-. split; [apply (Pxl n IH sc e _ _ F Ha)|exact I].
  - (* XArray *) ib H. ib H. injection H as <-. split; [apply (Pxl n IH sc e _ _ F Ha)|exact I].
  - (* XArrayRepeat *) apply andb_true_iff in F. destruct F as [F1 F2]. ib H. ib H. ib H.
    destruct (matches a1 TInt); [|discriminate H]. injection H as <-.
    split; [|exact I]. cbn [wfi]. rewrite (proj1 (IH _ _ _ _ F1 Ha)), (proj1 (IH _ _ _ _ F2 Ha0)). reflexivity.
  - (* XFunction *) apply andb_true_iff in F. destruct F as [F1 _]. ib H. destruct a as [is e1].
    ib H. destruct a; [discriminate H|]. injection H as <-. split; [|exact I].
    cbn [wfi andb]. apply drop_consts_forallb. apply (IHl _ _ _ _ _ F1 Ha).
  - (* XStruct *) ib H. injection H as <-. split; [|exact I]. apply (Pxf n IH sc e _ _ F Ha).
  - (* XPrefix *) ib H. ib H.
    destruct op; (match type of H with (if ?c then _ else _) = _ => destruct c; [|discriminate H] end);
      injection H as <-; (split; [|exact I]); cbn [wfi un_ok andb]; apply (IH _ _ _ _ F Ha).
  - (* XInfix *) apply andb_true_iff in F. destruct F as [F1 F2]. ib H. ib H. ib H. ib H. ib H.
    destruct a3; [|discriminate H]. injection H as <-. split; [|exact I].
    cbn [wfi]. rewrite (proj1 (IH _ _ _ _ F1 Ha)), (proj1 (IH _ _ _ _ F2 Ha0)). reflexivity.
  - (* XAt *) apply andb_true_iff in F. destruct F as [F1 F2]. ib H. ib H. ib H. ib H.
    destruct (negb (ty_eqb a2 TInt)); [discriminate H|].
    destruct (ty_eqb a1 TNever || negb (can_be_indexed a1)); [discriminate H|]. injection H as <-.
    split; [|exact I]. cbn [wfi]. rewrite (proj1 (IH _ _ _ _ F1 Ha)), (proj1 (IH _ _ _ _ F2 Ha0)). reflexivity.
  - (* XSlice *) repeat rewrite andb_true_iff in F. destruct F as [[[[F0 Fy] Fa] Fb] Fc].
    inv_bind H yi Hyi. inv_bind H yt Hyt. destruct (negb (can_be_indexed yt)); [discriminate H|].
    inv_bind H ai Hai. inv_bind H bi Hbi. inv_bind H ci Hci.
    assert (G : obind (chk_int ai) (fun oa => obind (chk_int bi) (fun ob => obind (chk_int ci) (fun oc =>
                  if oa && ob && oc then Ok (ISlicing yi ai bi ci) else reject))) = Ok i ->
                wfi true false i = true /\ nc1 i).
    { intros E. inv_bind E oa Hoa. inv_bind E ob Hob. inv_bind E oc Hoc.
      destruct (oa && ob && oc); [|discriminate E]. injection E as <-.
      split; [|exact I]. cbn [wfi].
      change (match ai with Some x => wfi true false x | None => true end) with (wf_opt true ai).
      change (match bi with Some x => wfi true false x | None => true end) with (wf_opt true bi).
      change (match ci with Some x => wfi true false x | None => true end) with (wf_opt true ci).
      rewrite (proj1 (IH _ _ _ _ Fy Hyi)), (Pxo n IH sc e a ai Fa Hai), (Pxo n IH sc e b bi Fb Hbi),
        (Pxo n IH sc e c ci Fc Hci). reflexivity. }
    destruct a, b, c; try discriminate F0; cbn [cxo_def] in Hai, Hbi, Hci;
      repeat match goal with E : obind _ _ = Ok _ |- _ => ib E end;
      repeat match goal with E : Ok _ = Ok _ |- _ => injection E as <- end; exact (G H).
  - (* XCall *) apply andb_true_iff in F. destruct F as [F1 F2]. ib H. ib H. ib H.
    apply xcall_result in H. subst i. split; [|exact I].
    cbn [wfi]. rewrite (proj1 (IH _ _ _ _ F1 Ha)), (Pxl n IH sc e _ _ F2 Ha0). reflexivity.
  - (* XTupleAccess *) ib H. ib H. destruct (negb (is_tuple a0)); [discriminate H|].
    destruct (min_tuple_len a0); [|discriminate H]. destruct (Nat.leb n0 k); [discriminate H|].
    injection H as <-. split; [apply (IH _ _ _ _ F Ha)|exact I].
  - (* XFieldAccess *) ib H. ib H. destruct (negb (is_struct a0)); [discriminate H|].
    destruct (negb (has_field f a0)); [discriminate H|]. injection H as <-.
    split; [apply (IH _ _ _ _ F Ha)|exact I].
Qed.

Lemma Pelse n (IH : Ps n) sc e f i e' : opt_all rfs f = true ->
  else_def (check_s red n sc) e f = Ok (i, e') -> wfi true false i = true /\ leq e' e.
Proof.
  destruct f as [s|]; cbn [else_def opt_all]; intros F H.
  - destruct (IH _ _ _ _ _ F H) as [A [_ B]]. auto.
  - injection H as <- <-. split; [reflexivity|apply leq_refl].
Qed.

Lemma Parm n (IHx : Px n) (IHs : Ps n) sc a e a' e' : rfa a = true ->
  arm_def (check_x red n sc) (check_s red n sc) e a = Ok (a', e') -> wf_arm true a' = true /\ leq e' e.
Proof.
  destruct a as [nm t b|vs b|b]; cbn [arm_def rfa]; intros F H.
  - ib H. destruct a as [bi e1]. injection H as <- <-. cbn [wf_arm].
    split; [apply (IHs _ _ _ _ _ F Ha)|apply leq_refl].
  - apply andb_true_iff in F. destruct F as [F1 F2]. ib H. ib H. destruct a0 as [bi e1]. injection H as <- <-.
    cbn [wf_arm]. rewrite (Pxl n IHx sc e _ _ F1 Ha). destruct (IHs _ _ _ _ _ F2 Ha0) as [A [_ B]]. auto.
  - ib H. destruct a as [bi e1]. injection H as <- <-. cbn [wf_arm].
    destruct (IHs _ _ _ _ _ F Ha) as [A [_ B]]. auto.
Qed.

Lemma Parms n (IHx : Px n) (IHs : Ps n) sc : forall l e l' e', forallb rfa l = true ->
  arms_def (check_x red n sc) (check_s red n sc) l e = Ok (l', e') ->
  forallb (wf_arm true) l' = true /\ leq e' e.
Proof.
  induction l as [|a l IHl]; intros e l' e' F H.
  - injection H as <- <-. split; [reflexivity|apply leq_refl].
  - cbn [arms_def] in H. fold (arms_def (check_x red n sc) (check_s red n sc)) in H.
    cbn [forallb] in F. apply andb_true_iff in F. destruct F as [Fa Fl].
    ib H. destruct a0 as [a' e1]. ib H. destruct a0 as [l1 e2]. injection H as <- <-.
    destruct (Parm n IHx IHs sc _ _ _ _ Fa Ha) as [A1 B1]. destruct (IHl _ _ _ Fl Ha0) as [A2 B2].
    cbn [forallb]. rewrite A1, A2. split; [reflexivity|eapply leq_trans; eassumption].
Qed.

Lemma Ps_S n : Px n -> Ps n -> Pl n -> Ps (S n).
Proof.
  intros IHx IH IHl sc e s i e' F H. rewrite check_s_S in H. destruct s; cbn [s_body rfs] in H, F; try discriminate F.
  - (* SExpr *) ib H. injection H as <- <-. destruct (IHx _ _ _ _ F Ha) as [A B]. split; [exact A|].
    split; [exact B|apply leq_refl].
  - (* SBlock *) apply andb_true_iff in F. destruct F as [F1 _]. ib H. destruct a as [is e1].
    injection H as <- <-. split; [|split; [exact I|apply leq_refl]].
    cbn [wfi]. apply drop_consts_forallb. apply (IHl _ _ _ _ _ F1 Ha).
  - (* SIfElse *) repeat rewrite andb_true_iff in F. destruct F as [[Fc Ft] Ff].
    ib H. ib H. destruct (negb (ty_eqb a0 TBool)); [discriminate H|].
    ib H. destruct a1 as [ti e1]. ib H. destruct a1 as [fi e2]. injection H as <- <-.
    destruct (IH _ _ _ _ _ Ft Ha1) as [A1 [_ B1]]. destruct (Pelse n IH sc _ _ _ _ Ff Ha2) as [A2 B2].
    split; [|split; [exact I|eapply leq_trans; eassumption]].
    cbn [wfi]. rewrite (proj1 (IHx _ _ _ _ Fc Ha)), A1, A2. reflexivity.
  - (* SSetIfElse *) repeat rewrite andb_true_iff in F. destruct F as [[Fx Fi] Fe].
    ib H. ib H. destruct a0 as [mi e1]. ib H. destruct a0 as [ei e2]. injection H as <- <-.
    destruct (IH _ _ _ _ _ Fi Ha0) as [A1 _]. destruct (Pelse n IH sc _ _ _ _ Fe Ha1) as [A2 B2].
    split; [|split; [exact I|exact B2]].
    cbn [wfi]. rewrite (proj1 (IHx _ _ _ _ Fx Ha)), A1, A2. reflexivity.
  - (* SMatch *) apply andb_true_iff in F. destruct F as [Fx Fa].
    ib H. ib H. ib H. destruct a1 as [arms' e1]. destruct (match_covers arms' a0); [|discriminate H].
    injection H as <- <-. destruct (Parms n IHx IH sc _ _ _ _ Fa Ha1) as [A B].
    split; [|split; [exact I|exact B]]. cbn [wfi]. fold (wf_arm true).
    rewrite (proj1 (IHx _ _ _ _ Fx Ha)), A. reflexivity.
  - (* SRet *) destruct (lenv_function e) as [[fn fret]|]; [|discriminate H].
    ib H. destruct a as [ri e1]. ib H. destruct (matches a fret); [|discriminate H]. injection H as <- <-.
    destruct (Pelse n IH sc _ _ _ _ F Ha) as [A B].
    split; [|split; [exact I|exact B]]. cbn [wfi un_ok andb]. exact A.
  - (* SLoop *) ib H. destruct a as [bi e1]. injection H as <- <-.
    destruct (IH _ _ _ _ _ F Ha) as [A [_ B]]. split; [exact A|]. split; [exact I|].
    eapply leq_trans; [apply leq_set_loop|]. eapply leq_trans; [exact B|apply leq_set_loop].
  - (* SWhile *) repeat rewrite andb_true_iff in F. destruct F as [[_ Fc] Fb].
    ib H. ib H. destruct (negb (ty_eqb a0 TBool)); [discriminate H|]. ib H. destruct a1 as [bi e1].
    destruct (IH _ _ _ _ _ Fb Ha1) as [A [_ B]].
    assert (L : leq (lenv_set_loop (lenv_in_loop e) e1) e).
    { eapply leq_trans; [apply leq_set_loop|]. eapply leq_trans; [exact B|apply leq_set_loop]. }
    assert (G : Ok (ILoop (IIfElse a bi IBreak), lenv_set_loop (lenv_in_loop e) e1) = Ok (i, e') ->
                wfi true false i = true /\ nc1 i /\ leq e' e).
    { intros E. injection E as <- <-. split; [|split; [exact I|exact L]].
      cbn [wfi]. rewrite (proj1 (IHx _ _ _ _ Fc Ha)), A. reflexivity. }
    destruct a; try exact (G H).
    destruct (val_eqb v (VBool true)); injection H as <- <-; (split; [|split; [exact I|exact L]]);
      [exact A|reflexivity].
  - (* SWhileSet *) apply andb_true_iff in F. destruct F as [Fc Fb].
    ib H. ib H. destruct a0 as [bi e1]. injection H as <- <-.
    destruct (IH _ _ _ _ _ Fb Ha0) as [A _].
    split; [|split; [exact I|eapply leq_trans; apply leq_set_loop]].
    cbn [wfi andb]. rewrite (proj1 (IHx _ _ _ _ Fc Ha)), A. reflexivity.
  - (* SBrk *) destruct (lenv_in_loop e); [|discriminate H]. injection H as <- <-.
    split; [reflexivity|split; [exact I|apply leq_refl]].
  - destruct (lenv_in_loop e); [|discriminate H]. injection H as <- <-.
    split; [reflexivity|split; [exact I|apply leq_refl]].
Qed.

Lemma Pline n (IHs : Ps n) (IHl : Pl n) sc e ln i e' : rfl ln = true ->
  line_body (check_s red n) (check_lines red n) sc e ln = Ok (i, e') -> wfi true true i = true.
Proof.
  intros F H. destruct ln; cbn [line_body rfl] in H, F.
  - apply andb_true_iff in F. destruct F as [F1 _]. ib H. destruct a as [is e1].
    ib H. destruct a; [discriminate H|]. injection H as <- <-.
    cbn [wfi andb]. apply drop_consts_forallb. apply (IHl _ _ _ _ _ F1 Ha).
  - ib H. destruct a as [i0 e1]. ib H. injection H as <- <-. cbn [wfi andb]. apply (IHs _ _ _ _ _ F Ha).
  - discriminate F.
  - apply wfi_line. apply (IHs _ _ _ _ _ F H).
Qed.

Lemma Pl_S n : Ps n -> Pl n -> Pl (S n).
Proof.
  intros IHs IHl sc e l is e' F H. rewrite check_lines_S in H. destruct l as [|ln l]; cbn [l_body] in H.
  - injection H as <- <-. reflexivity.
  - cbn [forallb] in F. apply andb_true_iff in F. destruct F as [F1 F2].
    ib H. destruct a as [i e1]. ib H. destruct a as [is' e2]. injection H as <- <-.
    cbn [forallb]. rewrite (Pline n IHs IHl _ _ _ _ _ F1 Ha), (IHl _ _ _ _ _ F2 Ha0). reflexivity.
Qed.

Theorem check_wfi_all : forall n, Px n /\ Ps n /\ Pl n.
Proof.
  induction n as [|n [IHx [IHs IHl]]].
  - split; [|split]; intros ? ? ? ?; intros; discriminate.
  - split; [apply Px_S; assumption|]. split; [apply Ps_S; assumption|apply Pl_S; assumption].
Qed.

End Wfi.

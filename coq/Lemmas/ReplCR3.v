(* ReplCR3.v — two checker runs, one pass: the induction over the checker.

   For every expression, statement and line list of the fragment (ReplFrag.v) that BOTH runs
   accept, in environments with [consT eA eB]:
     - the two instructions have the same static type, and (unless the source is a bare name)
       one is a constant iff the other is the same constant — independently of the pass;
     - for every environment e2 of the pass with [cons3 eA eB e2], they are [req]-related:
       the pass gives the same result on both ([CR_all]). *)
From SSL.Model Require Import Base Ty Float Value Ops Seq Syntax Rt Recreate Exec Check.
From SSL.Lemmas Require Import CheckUnfold RecrUnfold RecrMono RecrDefs RecrSim1 RecrSim2 RecrSyn ReplFrag
  CheckWfi ReplCR1 ReplCR2.

Arguments matches : simpl never.

Section CR.
Variable powf : fbits -> fbits -> fbits.
Variable red : reducers.
Variable sc scA scB : scopes.
Notation RC g := (recreate powf g sc).
Notation req := (req powf sc).
Notation lreq := (lreq powf sc).
Notation cons3 := (cons3 sc scA scB).
Notation consT := (consT scA scB).
Notation cx_wfi := (cx_wfi red).
Notation cs_wfi := (cs_wfi red).
Notation cs_nc1 := (cs_nc1 red).
Notation cs_leq := (cs_leq red).

Definition P3 (eA eB : lenv) (iA iB : instr) : Prop :=
  rt iA = rt iB /\ forall e2, cons3 eA eB e2 -> req e2 iA iB.

Definition bare_s (s : sstm) : bool := match s with SExpr x => is_xident x | _ => false end.

Definition CRx (n : nat) : Prop := forall eA eB x iA iB,
  consT eA eB -> rfx x = true ->
  check_x red n scA eA x = Ok iA -> check_x red n scB eB x = Ok iB ->
  P3 eA eB iA iB /\ (is_xident x = false -> ceq iA iB).

Definition CRs (n : nat) : Prop := forall eA eB s iA iB eA' eB',
  consT eA eB -> rfs s = true ->
  check_s red n scA eA s = Ok (iA, eA') -> check_s red n scB eB s = Ok (iB, eB') ->
  P3 eA eB iA iB /\ (bare_s s = false -> ceq iA iB).

Definition CRl (n : nat) : Prop := forall l eA eB isA isB eA' eB',
  consT eA eB -> forallb rfl l = true ->
  check_lines red n scA eA l = Ok (isA, eA') -> check_lines red n scB eB l = Ok (isB, eB') ->
  (nobare l = true -> cagree isA isB) /\ (forall e2, cons3 eA eB e2 -> lreq e2 isA isB).

Lemma P3_at eA eB e2 a b : cons3 eA eB e2 -> P3 eA eB a b -> req e2 a b.
Proof. intros C [_ H]. apply H. exact C. Qed.

Lemma P3_leq eA eB eA' eB' a b : leq eA' eA -> leq eB' eB -> P3 eA' eB' a b -> P3 eA eB a b.
Proof.
  intros LA LB [Hrt H]. split; [exact Hrt|]. intros e2 C. apply H.
  apply (cons3_leq sc scA scB _ _ _ _ _ _ LA LB (leq_refl e2) C).
Qed.

Lemma P3l_at eA eB e2 la lb : cons3 eA eB e2 -> Forall2 (P3 eA eB) la lb -> Forall2 (req e2) la lb.
Proof. intros C H. induction H; constructor; [apply (P3_at _ _ _ _ _ C); assumption|assumption]. Qed.

Lemma P3l_rtl eA eB la lb : Forall2 (P3 eA eB) la lb -> rtl_def la = rtl_def lb.
Proof.
  induction 1 as [|a b la lb H _ IH]; [reflexivity|]. cbn [rtl_def]. fold rtl_def.
  rewrite (proj1 H), IH. reflexivity.
Qed.

Lemma cxl_wfi n scX eX l is : forallb rfx l = true ->
  cxl_def (check_x red n scX eX) l = Ok is -> forallb (wfi true false) is = true.
Proof. apply (Pxl red n (proj1 (check_wfi_all red n))). Qed.
Lemma cxo_wfi n scX eX o oi : opt_all rfx o = true ->
  cxo_def (check_x red n scX eX) o = Ok oi -> wf_opt true oi = true.
Proof. apply (Pxo red n (proj1 (check_wfi_all red n))). Qed.
Lemma cxf_wfi n scX eX l fs : forallb rf_field l = true ->
  cxf_def (check_x red n scX eX) l = Ok fs -> forallb (fun kv => wfi true false (snd kv)) fs = true.
Proof. apply (Pxf red n (proj1 (check_wfi_all red n))). Qed.

Lemma CRxl n (IH : CRx n) eA eB : consT eA eB -> forall l isA isB, forallb rfx l = true ->
  cxl_def (check_x red n scA eA) l = Ok isA -> cxl_def (check_x red n scB eB) l = Ok isB ->
  Forall2 (P3 eA eB) isA isB.
Proof.
  intros C. induction l as [|y l IHl]; intros isA isB F HA HB.
  - injection HA as <-. injection HB as <-. constructor.
  - cbn [cxl_def] in HA, HB. fold (cxl_def (check_x red n scA eA)) in HA. fold (cxl_def (check_x red n scB eB)) in HB.
    cbn [forallb] in F. apply andb_true_iff in F. destruct F as [Fy Fl].
    inv_bind HA yA HyA. inv_bind HA lA HlA. injection HA as <-.
    inv_bind HB yB HyB. inv_bind HB lB HlB. injection HB as <-.
    constructor; [apply (IH _ _ _ _ _ C Fy HyA HyB)|apply (IHl _ _ Fl HlA HlB)].
Qed.

Definition oP3 (eA eB : lenv) (a b : option instr) : Prop :=
  match a, b with
  | None, None => True
  | Some x, Some y => P3 eA eB x y
  | _, _ => False
  end.
Lemma oP3_at eA eB e2 a b : cons3 eA eB e2 -> oP3 eA eB a b -> oreq powf sc e2 a b.
Proof. intros C. destruct a, b; cbn [oP3 oreq]; auto. apply P3_at. exact C. Qed.

Lemma CRxo n (IH : CRx n) eA eB : consT eA eB -> forall o oA oB, opt_all rfx o = true ->
  cxo_def (check_x red n scA eA) o = Ok oA -> cxo_def (check_x red n scB eB) o = Ok oB ->
  oP3 eA eB oA oB.
Proof.
  intros C [y|] oA oB F HA HB; cbn [cxo_def opt_all] in *.
  - inv_bind HA yA HyA. injection HA as <-. inv_bind HB yB HyB. injection HB as <-.
    cbn [oP3]. apply (IH _ _ _ _ _ C F HyA HyB).
  - injection HA as <-. injection HB as <-. exact I.
Qed.

Inductive fP3 (eA eB : lenv) : list (name * instr) -> list (name * instr) -> Prop :=
| FP_nil : fP3 eA eB [] []
| FP_cons k a b la lb : P3 eA eB a b -> fP3 eA eB la lb -> fP3 eA eB ((k, a) :: la) ((k, b) :: lb).
Lemma fP3_at eA eB e2 la lb : cons3 eA eB e2 -> fP3 eA eB la lb -> freq powf sc e2 la lb.
Proof. intros C H. induction H; constructor; [apply (P3_at _ _ _ _ _ C); assumption|assumption]. Qed.
Lemma fP3_rt eA eB la lb : fP3 eA eB la lb -> forall acc, rt_fields la acc = rt_fields lb acc.
Proof.
  induction 1 as [|k a b la lb H _ IH]; intros acc; [reflexivity|]. cbn [rt_fields].
  rewrite (proj1 H). destruct (rt b); cbn [obind]; try reflexivity. apply IH.
Qed.

Lemma nonvar_ceq a b : is_const a = false -> is_const b = false -> ceq a b.
Proof. intros A B. apply ceq_nonconst; intros v ->; discriminate. Qed.

Ltac nv := intros _; apply nonvar_ceq; reflexivity.

Lemma ok_inj {A} (x y : A) : @Ok A x = Ok y -> x = y.
Proof. intros H. injection H as ->. reflexivity. Qed.

Ltac same_ty HA HB := let E := fresh "E" in
  match type of HA with rt ?a = Ok ?t =>
    match type of HB with rt ?b = Ok ?u =>
      assert (E : t = u) by (apply ok_inj; rewrite <- HA, <- HB; assumption); subst u
    end end.

(* build a P3 from its static-type part and a congruence of [req] *)
Ltac mk3 := split; [|intros e2 C3].

Lemma CRx_S n : CRx n -> CRl n -> CRx (S n).
Proof.
  intros IH IHl eA eB x iA iB C F HA HB.
  destruct x; try (cbn [rfx] in F; discriminate F).
  - (* XIdent *) rewrite (check_ident red) in HA, HB.
    destruct (res1 scA eA n0) as [a|] eqn:RA; [|discriminate HA].
    destruct (res1 scB eB n0) as [b|] eqn:RB; [|discriminate HB].
    injection HA as <-. injection HB as <-. split; [|intros E; discriminate E].
    mk3; [apply (C _ _ _ RA RB)|apply (cons3_req powf sc scA scB _ _ _ _ _ _ C3 RA RB)].
  - (* XConst *) rewrite check_x_S in HA, HB. cbn [x_body] in HA, HB. injection HA as <-. injection HB as <-.
    split; [mk3; [reflexivity|apply req_refl]|intros _ w; reflexivity].
  - (* XMut *) rewrite check_x_S in HA, HB. cbn [x_body rfx] in HA, HB, F. destruct t as [t|].
    + inv_bind HA yA HyA. inv_bind HA tA HtA. inv_bind HB yB HyB. inv_bind HB tB HtB.
      destruct (matches tA t); [|discriminate HA]. destruct (matches tB t); [|discriminate HB].
      injection HA as <-. injection HB as <-. destruct (IH _ _ _ _ _ C F HyA HyB) as [R _].
      split; [|nv]. mk3; [reflexivity|apply req_mut; apply (P3_at _ _ _ _ _ C3 R)].
    + inv_bind HA yA HyA. inv_bind HA tA HtA. inv_bind HB yB HyB. inv_bind HB tB HtB.
      injection HA as <-. injection HB as <-.
      destruct (IH _ _ _ _ _ C F HyA HyB) as [R _]. pose proof (proj1 R) as Rt. same_ty HtA HtB.
      split; [|nv]. mk3; [reflexivity|apply req_mut; apply (P3_at _ _ _ _ _ C3 R)].
  - (* XTuple *) rewrite check_x_S in HA, HB. cbn [x_body rfx] in HA, HB, F.
    inv_bind HA la Hla. injection HA as <-. inv_bind HB lb Hlb. injection HB as <-.
    pose proof (CRxl n IH _ _ C _ _ _ F Hla Hlb) as R. split; [|nv]. mk3.
    + change (rt (ITuple la)) with (obind (rtl_def la) (fun ts => Ok (TTup ts))).
      change (rt (ITuple lb)) with (obind (rtl_def lb) (fun ts => Ok (TTup ts))).
      rewrite (P3l_rtl _ _ _ _ R). reflexivity.
    + apply req_tuple; [apply (cxl_wfi _ _ _ _ _ F Hlb)|apply (P3l_at _ _ _ _ _ C3 R)].
  - (* XArray *) rewrite check_x_S in HA, HB. cbn [x_body rfx] in HA, HB, F.
    inv_bind HA la Hla. inv_bind HA tsA HtsA. injection HA as <-.
    inv_bind HB lb Hlb. inv_bind HB tsB HtsB. injection HB as <-.
    pose proof (CRxl n IH _ _ C _ _ _ F Hla Hlb) as R.
    assert (E : tsA = tsB) by (apply ok_inj; rewrite <- HtsA, <- HtsB; apply (P3l_rtl _ _ _ _ R)). subst tsB.
    split; [|nv]. mk3; [reflexivity|].
    apply req_array; [apply (cxl_wfi _ _ _ _ _ F Hlb)|apply (P3l_at _ _ _ _ _ C3 R)].
  - (* XArrayRepeat *) rewrite check_x_S in HA, HB. cbn [x_body rfx] in HA, HB, F.
    apply andb_true_iff in F. destruct F as [F1 F2].
    inv_bind HA vA HvA. inv_bind HA lA HlA. inv_bind HA tA HtA. destruct (matches tA TInt); [|discriminate HA].
    inv_bind HB vB HvB. inv_bind HB lB HlB. inv_bind HB tB HtB. destruct (matches tB TInt); [|discriminate HB].
    injection HA as <-. injection HB as <-.
    destruct (IH _ _ _ _ _ C F1 HvA HvB) as [Rv _]. destruct (IH _ _ _ _ _ C F2 HlA HlB) as [Rl _].
    split; [|nv]. mk3; [cbn [rt]; rewrite (proj1 Rv); reflexivity|].
    apply req_repeat; [apply (cx_wfi _ _ _ _ _ F1 HvB)|apply (P3_at _ _ _ _ _ C3 Rv)|apply (P3_at _ _ _ _ _ C3 Rl)].
  - (* XFunction *) rewrite check_x_S in HA, HB. cbn [x_body rfx] in HA, HB, F.
    apply andb_true_iff in F. destruct F as [F1 F2].
    inv_bind HA pA HpA. destruct pA as [isA eA1]. inv_bind HA mA HmA. destruct mA; [discriminate HA|].
    inv_bind HB pB HpB. destruct pB as [isB eB1]. inv_bind HB mB HmB. destruct mB; [discriminate HB|].
    injection HA as <-. injection HB as <-. split; [|nv].
    destruct (IHl body _ _ _ _ _ _
                (consT_push_fn scA scB eA eB (params_layer ps) None None _ _ C) F1 HpA HpB) as [Ca L].
    mk3; [reflexivity|]. apply req_anonfn; [apply Ca; exact F2|].
    apply L. apply cons3_push_fn. exact C3.
  - (* XStruct *) rewrite check_x_S in HA, HB. cbn [x_body rfx] in HA, HB, F.
    inv_bind HA fA HfA. injection HA as <-. inv_bind HB fB HfB. injection HB as <-. split; [|nv].
    assert (G : forall l fA fB, forallb rf_field l = true ->
      cxf_def (check_x red n scA eA) l = Ok fA -> cxf_def (check_x red n scB eB) l = Ok fB ->
      fP3 eA eB fA fB).
    { induction l as [|[k [y|]] l IHf]; intros gA gB Fl GA GB.
      - injection GA as <-. injection GB as <-. constructor.
      - cbn [cxf_def] in GA, GB. fold (cxf_def (check_x red n scA eA)) in GA. fold (cxf_def (check_x red n scB eB)) in GB.
        cbn [forallb] in Fl. apply andb_true_iff in Fl. destruct Fl as [Fy Fl]. cbn [rf_field] in Fy.
        inv_bind GA yA HyA. inv_bind GA lA HlA. injection GA as <-.
        inv_bind GB yB HyB. inv_bind GB lB HlB. injection GB as <-.
        constructor; [apply (IH _ _ _ _ _ C Fy HyA HyB)|apply (IHf _ _ Fl HlA HlB)].
      - cbn [cxf_def] in GA, GB. fold (cxf_def (check_x red n scA eA)) in GA. fold (cxf_def (check_x red n scB eB)) in GB.
        cbn [forallb] in Fl. apply andb_true_iff in Fl. destruct Fl as [_ Fl].
        inv_bind GA yA HyA. inv_bind GA lA HlA. injection GA as <-.
        inv_bind GB yB HyB. inv_bind GB lB HlB. injection GB as <-.
        constructor; [apply (IH _ _ (XIdent k) _ _ C eq_refl HyA HyB)|apply (IHf _ _ Fl HlA HlB)]. }
    pose proof (G _ _ _ F HfA HfB) as R.
    mk3; [rewrite !rt_IStruct_fields; apply (fP3_rt _ _ _ _ R)|].
    apply req_struct; [apply (cxf_wfi _ _ _ _ _ F HfB)|apply (fP3_at _ _ _ _ _ C3 R)].
  - (* XPrefix *) rewrite check_x_S in HA, HB. cbn [x_body rfx] in HA, HB, F.
    inv_bind HA yA HyA. inv_bind HA tA HtA. inv_bind HB yB HyB. inv_bind HB tB HtB.
    destruct (IH _ _ _ _ _ C F HyA HyB) as [R _].
    destruct op;
      (match type of HA with (if ?c then _ else _) = _ => destruct c; [|discriminate HA] end);
      (match type of HB with (if ?c then _ else _) = _ => destruct c; [|discriminate HB] end);
      injection HA as <-; injection HB as <-;
      (split; [mk3; [cbn [rt]; rewrite (proj1 R); reflexivity|apply req_un; apply (P3_at _ _ _ _ _ C3 R)]|nv]).
  - (* XInfix *) rewrite check_x_S in HA, HB. cbn [x_body rfx] in HA, HB, F.
    apply andb_true_iff in F. destruct F as [F1 F2].
    inv_bind HA lA HlA. inv_bind HA rA HrA. inv_bind HA t1 Ht1. inv_bind HA t2 Ht2. inv_bind HA okA HokA.
    destruct okA; [|discriminate HA].
    inv_bind HB lB HlB. inv_bind HB rB HrB. inv_bind HB u1 Hu1. inv_bind HB u2 Hu2. inv_bind HB okB HokB.
    destruct okB; [|discriminate HB].
    injection HA as <-. injection HB as <-.
    destruct (IH _ _ _ _ _ C F1 HlA HlB) as [Rl _]. destruct (IH _ _ _ _ _ C F2 HrA HrB) as [Rr _].
    split; [|nv]. mk3; [cbn [rt]; rewrite (proj1 Rl), (proj1 Rr); reflexivity|].
    apply req_bin; [apply (cx_wfi _ _ _ _ _ F1 HlB)|apply (P3_at _ _ _ _ _ C3 Rl)|apply (P3_at _ _ _ _ _ C3 Rr)].
  - (* XAt *) rewrite check_x_S in HA, HB. cbn [x_body rfx] in HA, HB, F.
    apply andb_true_iff in F. destruct F as [F1 F2].
    inv_bind HA lA HlA. inv_bind HA rA HrA. inv_bind HA t1 Ht1. inv_bind HA t2 Ht2.
    destruct (negb (ty_eqb t2 TInt)); [discriminate HA|].
    destruct (ty_eqb t1 TNever || negb (can_be_indexed t1)); [discriminate HA|].
    inv_bind HB lB HlB. inv_bind HB rB HrB. inv_bind HB u1 Hu1. inv_bind HB u2 Hu2.
    destruct (negb (ty_eqb u2 TInt)); [discriminate HB|].
    destruct (ty_eqb u1 TNever || negb (can_be_indexed u1)); [discriminate HB|].
    injection HA as <-. injection HB as <-.
    destruct (IH _ _ _ _ _ C F1 HlA HlB) as [Rl _]. destruct (IH _ _ _ _ _ C F2 HrA HrB) as [Rr _].
    split; [|nv]. mk3; [cbn [rt]; rewrite (proj1 Rl), (proj1 Rr); reflexivity|].
    apply req_bin; [apply (cx_wfi _ _ _ _ _ F1 HlB)|apply (P3_at _ _ _ _ _ C3 Rl)|apply (P3_at _ _ _ _ _ C3 Rr)].
  - (* XSlice *) rewrite check_x_S in HA, HB. cbn [x_body rfx] in HA, HB, F.
    repeat rewrite andb_true_iff in F. destruct F as [[[[F0 Fy] Fa] Fb] Fc].
    inv_bind HA yA HyA. inv_bind HA tA HtA. destruct (negb (can_be_indexed tA)); [discriminate HA|].
    inv_bind HA aA HaA. inv_bind HA bA HbA. inv_bind HA cA HcA.
    inv_bind HB yB HyB. inv_bind HB tB HtB. destruct (negb (can_be_indexed tB)); [discriminate HB|].
    inv_bind HB aB HaB. inv_bind HB bB HbB. inv_bind HB cB HcB.
    pose proof (CRxo n IH _ _ C _ _ _ Fa HaA HaB) as Ra.
    pose proof (CRxo n IH _ _ C _ _ _ Fb HbA HbB) as Rb.
    pose proof (CRxo n IH _ _ C _ _ _ Fc HcA HcB) as Rc.
    destruct (IH _ _ _ _ _ C Fy HyA HyB) as [Ry _].
    assert (GA : obind (chk_int aA) (fun oa => obind (chk_int bA) (fun ob => obind (chk_int cA) (fun oc =>
                   if oa && ob && oc then Ok (ISlicing yA aA bA cA) else reject))) = Ok iA).
    { destruct a, b, c; try discriminate F0; cbn [cxo_def] in HaA, HbA, HcA;
        repeat match goal with E : obind _ _ = Ok _ |- _ => let z := fresh "z" in let Hz := fresh "Hz" in inv_bind E z Hz end;
        repeat match goal with E : Ok _ = Ok _ |- _ => injection E as <- end; exact HA. }
    assert (GB : obind (chk_int aB) (fun oa => obind (chk_int bB) (fun ob => obind (chk_int cB) (fun oc =>
                   if oa && ob && oc then Ok (ISlicing yB aB bB cB) else reject))) = Ok iB).
    { destruct a, b, c; try discriminate F0; cbn [cxo_def] in HaB, HbB, HcB;
        repeat match goal with E : obind _ _ = Ok _ |- _ => let z := fresh "z" in let Hz := fresh "Hz" in inv_bind E z Hz end;
        repeat match goal with E : Ok _ = Ok _ |- _ => injection E as <- end; exact HB. }
    clear HA HB.
    inv_bind GA o1 Ho1. inv_bind GA o2 Ho2. inv_bind GA o3 Ho3. destruct (o1 && o2 && o3); [|discriminate GA].
    inv_bind GB p1 Hp1. inv_bind GB p2 Hp2. inv_bind GB p3 Hp3. destruct (p1 && p2 && p3); [|discriminate GB].
    injection GA as <-. injection GB as <-. split; [|nv]. mk3; [exact (proj1 Ry)|].
    apply req_slicing; [apply (cx_wfi _ _ _ _ _ Fy HyB)|apply (cxo_wfi _ _ _ _ _ Fa HaB)|apply (cxo_wfi _ _ _ _ _ Fb HbB)
                       |apply (P3_at _ _ _ _ _ C3 Ry)|apply (oP3_at _ _ _ _ _ C3 Ra)|apply (oP3_at _ _ _ _ _ C3 Rb)
                       |apply (oP3_at _ _ _ _ _ C3 Rc)].
  - (* XCall *) rewrite check_x_S in HA, HB. cbn [x_body rfx] in HA, HB, F.
    apply andb_true_iff in F. destruct F as [F1 F2].
    inv_bind HA fA HfA. inv_bind HA lA HlA. inv_bind HA tsA HtsA. apply xcall_result in HA. subst iA.
    inv_bind HB fB HfB. inv_bind HB lB HlB. inv_bind HB tsB HtsB. apply xcall_result in HB. subst iB.
    destruct (IH _ _ _ _ _ C F1 HfA HfB) as [Rf _]. pose proof (CRxl n IH _ _ C _ _ _ F2 HlA HlB) as Rl.
    split; [|nv]. mk3.
    + assert (Et : rt (ITuple lA) = rt (ITuple lB)).
      { change (rt (ITuple lA)) with (obind (rtl_def lA) (fun ts => Ok (TTup ts))).
        change (rt (ITuple lB)) with (obind (rtl_def lB) (fun ts => Ok (TTup ts))).
        rewrite (P3l_rtl _ _ _ _ Rl). reflexivity. }
      change (rt (IBin FunctionCall fA (ITuple lA))) with
        (obind (rt fA) (fun a => obind (rt (ITuple lA)) (fun b => bin_rt FunctionCall a b))).
      change (rt (IBin FunctionCall fB (ITuple lB))) with
        (obind (rt fB) (fun a => obind (rt (ITuple lB)) (fun b => bin_rt FunctionCall a b))).
      rewrite (proj1 Rf), Et. reflexivity.
    + apply req_call; [apply (cx_wfi _ _ _ _ _ F1 HfB)|apply (cxl_wfi _ _ _ _ _ F2 HlB)
                      |apply (P3_at _ _ _ _ _ C3 Rf)|apply (P3l_at _ _ _ _ _ C3 Rl)].
  - (* XTupleAccess *) rewrite check_x_S in HA, HB. cbn [x_body rfx] in HA, HB, F.
    inv_bind HA yA HyA. inv_bind HA tA HtA. destruct (negb (is_tuple tA)); [discriminate HA|].
    destruct (min_tuple_len tA) as [mA|]; [|discriminate HA]. destruct (Nat.leb mA k); [discriminate HA|].
    inv_bind HB yB HyB. inv_bind HB tB HtB. destruct (negb (is_tuple tB)); [discriminate HB|].
    destruct (min_tuple_len tB) as [mB|]; [|discriminate HB]. destruct (Nat.leb mB k); [discriminate HB|].
    injection HA as <-. injection HB as <-. destruct (IH _ _ _ _ _ C F HyA HyB) as [R _].
    split; [|nv]. mk3; [cbn [rt]; rewrite (proj1 R); reflexivity|apply req_tacc; apply (P3_at _ _ _ _ _ C3 R)].
  - (* XFieldAccess *) rewrite check_x_S in HA, HB. cbn [x_body rfx] in HA, HB, F.
    inv_bind HA yA HyA. inv_bind HA tA HtA. destruct (negb (is_struct tA)); [discriminate HA|].
    destruct (negb (has_field f tA)); [discriminate HA|].
    inv_bind HB yB HyB. inv_bind HB tB HtB. destruct (negb (is_struct tB)); [discriminate HB|].
    destruct (negb (has_field f tB)); [discriminate HB|].
    injection HA as <-. injection HB as <-. destruct (IH _ _ _ _ _ C F HyA HyB) as [R _].
    split; [|nv]. mk3; [cbn [rt]; rewrite (proj1 R); reflexivity|apply req_field; apply (P3_at _ _ _ _ _ C3 R)].
Qed.


(* ---- statements ---- *)
Lemma else_wfi n scX eX f i e' : opt_all rfs f = true ->
  else_def (check_s red n scX) eX f = Ok (i, e') -> wfi true false i = true /\ leq e' eX.
Proof. apply (Pelse red n (proj1 (proj2 (check_wfi_all red n)))). Qed.

Lemma CRelse n (IH : CRs n) eA eB f iA iB eA' eB' : consT eA eB -> opt_all rfs f = true ->
  else_def (check_s red n scA) eA f = Ok (iA, eA') -> else_def (check_s red n scB) eB f = Ok (iB, eB') ->
  P3 eA eB iA iB.
Proof.
  intros C F HA HB. destruct f as [s|]; cbn [else_def opt_all] in *.
  - apply (IH _ _ _ _ _ _ _ C F HA HB).
  - injection HA as <- <-. injection HB as <- <-. split; [reflexivity|intros; apply req_refl].
Qed.

Definition aP3 (eA eB : lenv) (a b : arm) : Prop :=
  arm_rt a = arm_rt b /\ forall e2, cons3 eA eB e2 -> areq powf sc e2 a b.

Lemma aP3_rt eA eB la lb : Forall2 (aP3 eA eB) la lb -> forall acc, rt_arms la acc = rt_arms lb acc.
Proof.
  induction 1 as [|a b la lb H _ IH]; intros acc; [reflexivity|]. cbn [rt_arms].
  rewrite (proj1 H). destruct (arm_rt b); cbn [obind]; try reflexivity. apply IH.
Qed.
Lemma aP3_at eA eB e2 la lb : cons3 eA eB e2 -> Forall2 (aP3 eA eB) la lb -> Forall2 (areq powf sc e2) la lb.
Proof. intros C H. induction H as [|a b la lb Hab _ IH]; constructor; [apply Hab; exact C|exact IH]. Qed.
Lemma aP3_leq eA eB eA' eB' a b : leq eA' eA -> leq eB' eB -> aP3 eA' eB' a b -> aP3 eA eB a b.
Proof.
  intros LA LB [Hrt H]. split; [exact Hrt|]. intros e2 C. apply H.
  apply (cons3_leq sc scA scB _ _ _ _ _ _ LA LB (leq_refl e2) C).
Qed.

Lemma CRarm n (IHx : CRx n) (IHs : CRs n) eA eB a aA aB eA' eB' : consT eA eB -> rfa a = true ->
  arm_def (check_x red n scA) (check_s red n scA) eA a = Ok (aA, eA') ->
  arm_def (check_x red n scB) (check_s red n scB) eB a = Ok (aB, eB') ->
  aP3 eA eB aA aB.
Proof.
  intros C F HA HB. destruct a as [nm t b|vs b|b]; cbn [arm_def rfa] in *.
  - inv_bind HA pA HpA. destruct pA as [bA e1]. injection HA as <- <-.
    inv_bind HB pB HpB. destruct pB as [bB e1']. injection HB as <- <-.
    destruct (IHs _ _ _ _ _ _ _ (consT_bind scA scB _ _ nm t C) F HpA HpB) as [R _].
    split; [exact (proj1 R)|]. intros e2 C3. cbn [areq]. split; [reflexivity|]. split; [reflexivity|].
    apply (proj2 R). apply cons3_bind. exact C3.
  - apply andb_true_iff in F. destruct F as [F1 F2].
    inv_bind HA vA HvA. inv_bind HA pA HpA. destruct pA as [bA e1]. injection HA as <- <-.
    inv_bind HB vB HvB. inv_bind HB pB HpB. destruct pB as [bB e1']. injection HB as <- <-.
    destruct (IHs _ _ _ _ _ _ _ C F2 HpA HpB) as [R _]. pose proof (CRxl n IHx _ _ C _ _ _ F1 HvA HvB) as Rv.
    split; [exact (proj1 R)|]. intros e2 C3. cbn [areq].
    split; [apply (P3l_at _ _ _ _ _ C3 Rv)|apply (P3_at _ _ _ _ _ C3 R)].
  - inv_bind HA pA HpA. destruct pA as [bA e1]. injection HA as <- <-.
    inv_bind HB pB HpB. destruct pB as [bB e1']. injection HB as <- <-.
    destruct (IHs _ _ _ _ _ _ _ C F HpA HpB) as [R _].
    split; [exact (proj1 R)|]. intros e2 C3. cbn [areq]. apply (P3_at _ _ _ _ _ C3 R).
Qed.

Lemma arm_wfi n scX eX a a' e' : rfa a = true ->
  arm_def (check_x red n scX) (check_s red n scX) eX a = Ok (a', e') -> wf_arm true a' = true /\ leq e' eX.
Proof. apply (Parm red n (proj1 (check_wfi_all red n)) (proj1 (proj2 (check_wfi_all red n)))). Qed.
Lemma arms_wfi n scX : forall l eX l' e', forallb rfa l = true ->
  arms_def (check_x red n scX) (check_s red n scX) l eX = Ok (l', e') ->
  forallb (wf_arm true) l' = true /\ leq e' eX.
Proof. apply (Parms red n (proj1 (check_wfi_all red n)) (proj1 (proj2 (check_wfi_all red n)))). Qed.

Lemma CRarms n (IHx : CRx n) (IHs : CRs n) : forall l eA eB lA lB eA' eB', consT eA eB ->
  forallb rfa l = true ->
  arms_def (check_x red n scA) (check_s red n scA) l eA = Ok (lA, eA') ->
  arms_def (check_x red n scB) (check_s red n scB) l eB = Ok (lB, eB') ->
  Forall2 (aP3 eA eB) lA lB.
Proof.
  induction l as [|a l IHl]; intros eA eB lA lB eA' eB' C F HA HB.
  - injection HA as <- <-. injection HB as <- <-. constructor.
  - cbn [arms_def] in HA, HB.
    fold (arms_def (check_x red n scA) (check_s red n scA)) in HA.
    fold (arms_def (check_x red n scB) (check_s red n scB)) in HB.
    cbn [forallb] in F. apply andb_true_iff in F. destruct F as [Fa Fl].
    inv_bind HA pA HpA. destruct pA as [aA e1]. inv_bind HA qA HqA. destruct qA as [lA' e2A]. injection HA as <- <-.
    inv_bind HB pB HpB. destruct pB as [aB e1']. inv_bind HB qB HqB. destruct qB as [lB' e2B]. injection HB as <- <-.
    pose proof (proj2 (arm_wfi _ _ _ _ _ _ Fa HpA)) as LA. pose proof (proj2 (arm_wfi _ _ _ _ _ _ Fa HpB)) as LB.
    constructor; [apply (CRarm n IHx IHs _ _ _ _ _ _ _ C Fa HpA HpB)|].
    pose proof (IHl _ _ _ _ _ _ (consT_leq scA scB _ _ _ _ LA LB C) Fl HqA HqB) as R.
    clear -R LA LB. induction R; constructor; [apply (aP3_leq _ _ _ _ _ _ LA LB); assumption|assumption].
Qed.

Lemma CRs_S n : CRx n -> CRs n -> CRl n -> CRs (S n).
Proof.
  intros IHx IH IHl eA eB s iA iB eA' eB' C F HA HB.
  rewrite check_s_S in HA, HB. destruct s; cbn [s_body rfs] in HA, HB, F; try discriminate F.
  - (* SExpr *) inv_bind HA xA HxA. injection HA as <- <-. inv_bind HB xB HxB. injection HB as <- <-.
    apply (IHx _ _ _ _ _ C F HxA HxB).
  - (* SBlock *) apply andb_true_iff in F. destruct F as [F1 F2].
    inv_bind HA pA HpA. destruct pA as [isA e1]. injection HA as <- <-.
    inv_bind HB pB HpB. destruct pB as [isB e1']. injection HB as <- <-.
    destruct (IHl body _ _ _ _ _ _ (consT_push scA scB _ _ C) F1 HpA HpB) as [Ca L].
    split; [|nv]. mk3; [rewrite !rt_IBlock_last; apply rt_last_drop; apply Ca; exact F2|].
    apply req_block; [apply Ca; exact F2|]. apply L. apply cons3_push. exact C3.
  - (* SIfElse *) repeat rewrite andb_true_iff in F. destruct F as [[Fc Ft] Ff].
    inv_bind HA cA HcA. inv_bind HA tyA HtyA. destruct (negb (ty_eqb tyA TBool)); [discriminate HA|].
    inv_bind HA pA HpA. destruct pA as [tA e1]. inv_bind HA qA HqA. destruct qA as [fA e2A]. injection HA as <- <-.
    inv_bind HB cB HcB. inv_bind HB tyB HtyB. destruct (negb (ty_eqb tyB TBool)); [discriminate HB|].
    inv_bind HB pB HpB. destruct pB as [tB e1']. inv_bind HB qB HqB. destruct qB as [fB e2B]. injection HB as <- <-.
    destruct (IHx _ _ _ _ _ C Fc HcA HcB) as [Rc _]. destruct (IH _ _ _ _ _ _ _ C Ft HpA HpB) as [Rt _].
    pose proof (cs_leq _ _ _ _ _ _ Ft HpA) as LA. pose proof (cs_leq _ _ _ _ _ _ Ft HpB) as LB.
    pose proof (P3_leq _ _ _ _ _ _ LA LB (CRelse n IH _ _ _ _ _ _ _ (consT_leq scA scB _ _ _ _ LA LB C) Ff HqA HqB)) as Rf.
    split; [|nv]. mk3; [cbn [rt]; rewrite (proj1 Rt), (proj1 Rf); reflexivity|].
    apply req_if; [apply (cx_wfi _ _ _ _ _ Fc HcB)|apply (cs_wfi _ _ _ _ _ _ Ft HpB)|apply (P3_at _ _ _ _ _ C3 Rc)
                  |apply (P3_at _ _ _ _ _ C3 Rt)|apply (P3_at _ _ _ _ _ C3 Rf)].
  - (* SSetIfElse *) repeat rewrite andb_true_iff in F. destruct F as [[Fx Fi] Fe].
    inv_bind HA xA HxA. inv_bind HA pA HpA. destruct pA as [mA e1]. inv_bind HA qA HqA. destruct qA as [elA e2A].
    injection HA as <- <-.
    inv_bind HB xB HxB. inv_bind HB pB HpB. destruct pB as [mB e1']. inv_bind HB qB HqB. destruct qB as [elB e2B].
    injection HB as <- <-.
    destruct (IHx _ _ _ _ _ C Fx HxA HxB) as [Rx _].
    destruct (IH _ _ _ _ _ _ _ (consT_bind scA scB _ _ n0 t C) Fi HpA HpB) as [Rm _].
    pose proof (CRelse n IH _ _ _ _ _ _ _ C Fe HqA HqB) as Re.
    split; [|nv]. mk3; [cbn [rt]; rewrite (proj1 Rm), (proj1 Re); reflexivity|].
    apply req_setif; [apply (cx_wfi _ _ _ _ _ Fx HxB)|apply (P3_at _ _ _ _ _ C3 Rx)
                     |apply (proj2 Rm); apply cons3_bind; exact C3|apply (P3_at _ _ _ _ _ C3 Re)].
  - (* SMatch *) apply andb_true_iff in F. destruct F as [Fx Fa].
    inv_bind HA xA HxA. inv_bind HA tA HtA. inv_bind HA pA HpA. destruct pA as [lA e1].
    destruct (match_covers lA tA); [|discriminate HA]. injection HA as <- <-.
    inv_bind HB xB HxB. inv_bind HB tB HtB. inv_bind HB pB HpB. destruct pB as [lB e1'].
    destruct (match_covers lB tB); [|discriminate HB]. injection HB as <- <-.
    destruct (IHx _ _ _ _ _ C Fx HxA HxB) as [Rx _].
    pose proof (CRarms n IHx IH _ _ _ _ _ _ _ C Fa HpA HpB) as Ra.
    split; [|nv]. mk3; [rewrite !rt_IMatch_arms; apply (aP3_rt _ _ _ _ Ra)|].
    apply req_match; [apply (cx_wfi _ _ _ _ _ Fx HxB)|apply (proj1 (arms_wfi _ _ _ _ _ _ Fa HpB))
                     |apply (P3_at _ _ _ _ _ C3 Rx)|apply (aP3_at _ _ _ _ _ C3 Ra)].
  - (* SRet *) destruct (lenv_function eA) as [[fnA frA]|]; [|discriminate HA].
    destruct (lenv_function eB) as [[fnB frB]|]; [|discriminate HB].
    inv_bind HA pA HpA. destruct pA as [rA e1]. inv_bind HA tA HtA. destruct (matches tA frA); [|discriminate HA].
    injection HA as <- <-.
    inv_bind HB pB HpB. destruct pB as [rB e1']. inv_bind HB tB HtB. destruct (matches tB frB); [|discriminate HB].
    injection HB as <- <-.
    pose proof (CRelse n IH _ _ _ _ _ _ _ C F HpA HpB) as R.
    split; [|nv]. mk3; [cbn [rt]; rewrite (proj1 R); reflexivity|apply req_un; apply (P3_at _ _ _ _ _ C3 R)].
  - (* SLoop *) inv_bind HA pA HpA. destruct pA as [bA e1]. injection HA as <- <-.
    inv_bind HB pB HpB. destruct pB as [bB e1']. injection HB as <- <-.
    pose proof (P3_leq _ _ _ _ _ _ (leq_set_loop true eA) (leq_set_loop true eB)
                  (proj1 (IH _ _ _ _ _ _ _ (consT_leq scA scB _ _ _ _ (leq_set_loop true eA) (leq_set_loop true eB) C)
                            F HpA HpB))) as R.
    split; [|nv]. mk3; [reflexivity|apply req_loop; apply (P3_at _ _ _ _ _ C3 R)].
  - (* SWhile *) repeat rewrite andb_true_iff in F. destruct F as [[Fi Fc] Fb].
    apply negb_true_iff in Fi.
    inv_bind HA cA HcA. inv_bind HA tyA HtyA. destruct (negb (ty_eqb tyA TBool)); [discriminate HA|].
    inv_bind HA pA HpA. destruct pA as [bA e1].
    inv_bind HB cB HcB. inv_bind HB tyB HtyB. destruct (negb (ty_eqb tyB TBool)); [discriminate HB|].
    inv_bind HB pB HpB. destruct pB as [bB e1'].
    destruct (IHx _ _ _ _ _ C Fc HcA HcB) as [Rc Cc]. specialize (Cc Fi).
    pose proof (P3_leq _ _ _ _ _ _ (leq_set_loop true eA) (leq_set_loop true eB)
                  (proj1 (IH _ _ _ _ _ _ _ (consT_leq scA scB _ _ _ _ (leq_set_loop true eA) (leq_set_loop true eB) C)
                            Fb HpA HpB))) as Rb.
    assert (GG : forall (H1 : Ok (ILoop (IIfElse cA bA IBreak), lenv_set_loop (lenv_in_loop eA) e1) = Ok (iA, eA'))
                        (H2 : Ok (ILoop (IIfElse cB bB IBreak), lenv_set_loop (lenv_in_loop eB) e1') = Ok (iB, eB')),
                 P3 eA eB iA iB /\ (false = false -> ceq iA iB)).
    { intros H1 H2. injection H1 as <- <-. injection H2 as <- <-. split; [|nv]. mk3; [reflexivity|].
      apply req_loop. apply req_if; [apply (cx_wfi _ _ _ _ _ Fc HcB)|apply (cs_wfi _ _ _ _ _ _ Fb HpB)
                                    |apply (P3_at _ _ _ _ _ C3 Rc)|apply (P3_at _ _ _ _ _ C3 Rb)|apply req_refl]. }
    destruct cA as [ | | | | | | | | | | | | | | | | | | | | | |vA| | ];
      destruct cB as [ | | | | | | | | | | | | | | | | | | | | | |vB| | ];
      try exact (GG HA HB);
      try (exfalso; pose proof (proj1 (Cc _) eq_refl) as X; discriminate X);
      try (exfalso; pose proof (proj2 (Cc _) eq_refl) as X; discriminate X).
    match goal with Hc : ceq (IVar ?u) (IVar ?w) |- _ => pose proof (proj1 (Hc u) eq_refl) as X end. injection X as <-.
    match type of HA with (if ?c then _ else _) = _ => destruct c end; injection HA as <- <-; injection HB as <- <-.
    + split; [|nv]. mk3; [reflexivity|apply req_loop; apply (P3_at _ _ _ _ _ C3 Rb)].
    + split; [mk3; [reflexivity|apply req_refl]|intros _ w; reflexivity].
  - (* SWhileSet *) apply andb_true_iff in F. destruct F as [Fc Fb].
    inv_bind HA xA HxA. inv_bind HA pA HpA. destruct pA as [bA e1]. injection HA as <- <-.
    inv_bind HB xB HxB. inv_bind HB pB HpB. destruct pB as [bB e1']. injection HB as <- <-.
    pose proof (consT_leq scA scB _ _ _ _ (leq_set_loop true eA) (leq_set_loop true eB) C) as C1.
    destruct (IHx _ _ _ _ _ C1 Fc HxA HxB) as [Rx _].
    destruct (IH _ _ _ _ _ _ _ (consT_bind scA scB _ _ n0 t C1) Fb HpA HpB) as [Rb _].
    split; [|nv]. mk3; [reflexivity|].
    pose proof (cons3_leq sc scA scB _ _ _ _ _ _ (leq_set_loop true eA) (leq_set_loop true eB) (leq_refl e2) C3) as C31.
    apply req_loop. apply req_setif; [apply (cx_wfi _ _ _ _ _ Fc HxB)|apply (P3_at _ _ _ _ _ C31 Rx)
                                     |apply (proj2 Rb); apply cons3_bind; exact C31|apply req_refl].
  - (* SBrk *) destruct (lenv_in_loop eA); [|discriminate HA]. destruct (lenv_in_loop eB); [|discriminate HB].
    injection HA as <- <-. injection HB as <- <-. split; [mk3; [reflexivity|apply req_refl]|nv].
  - destruct (lenv_in_loop eA); [|discriminate HA]. destruct (lenv_in_loop eB); [|discriminate HB].
    injection HA as <- <-. injection HB as <- <-. split; [mk3; [reflexivity|apply req_refl]|nv].
Qed.


(* ---- lines ---- *)
Lemma lvar_of_instr_type i lv : lvar_of_instr i = Ok lv -> rt i = Ok (lvar_type lv).
Proof.
  destruct i; cbn [lvar_of_instr]; intros H;
    try (inv_bind H T HT; injection H as <-; exact HT);
    injection H as <-; reflexivity.
Qed.

Lemma same2' g e2 i i' e' : RC g e2 i = Ok (i', e') -> wfi true false i = true -> e' = e2.
Proof. apply (rec_same_env powf sc true g). Qed.

(* after one line: the three environments are related as soon as the pass accepted it *)
Definition line_post (e2 : lenv) (iA : instr) (eA1 eB1 : lenv) : Prop :=
  forall g a' e2', RC g e2 iA = Ok (a', e2') -> cons3 eA1 eB1 e2'.

Lemma CRline n (IHs : CRs n) (IHl : CRl n) eA eB ln iA iB eA1 eB1 : consT eA eB -> rfl ln = true ->
  line_body (check_s red n) (check_lines red n) scA eA ln = Ok (iA, eA1) ->
  line_body (check_s red n) (check_lines red n) scB eB ln = Ok (iB, eB1) ->
  rt iA = rt iB /\ (bare ln = false -> ceq iA iB) /\ consT eA1 eB1 /\
  forall e2, cons3 eA eB e2 -> req e2 iA iB /\ line_post e2 iA eA1 eB1.
Proof.
  intros C F HA HB. destruct ln; cbn [line_body rfl] in HA, HB, F; try discriminate F.
  - (* LFnDecl *) apply andb_true_iff in F. destruct F as [F1 F2].
    inv_bind HA pA HpA. destruct pA as [isA e1]. inv_bind HA mA HmA. destruct mA; [discriminate HA|]. injection HA as <- <-.
    inv_bind HB pB HpB. destruct pB as [isB e1']. inv_bind HB mB HmB. destruct mB; [discriminate HB|]. injection HB as <- <-.
    set (r := match ret with Some t => t | None => TVoid end) in *.
    assert (C1 : consT (lenv_insert n0 (LFunction ps r) eA) (lenv_insert n0 (LFunction ps r) eB))
      by (apply consT_insert; [reflexivity|exact C]).
    destruct (IHl body _ _ _ _ _ _ (consT_push_fn scA scB _ _ (params_layer ps) (Some n0) (Some n0) r r C1) F1 HpA HpB)
      as [Ca L].
    split; [reflexivity|]. split; [nv|]. split; [exact C1|].
    intros e2 C3.
    assert (C31 : cons3 (lenv_insert n0 (LFunction ps r) eA) (lenv_insert n0 (LFunction ps r) eB)
                        (lenv_insert n0 (LFunction ps r) e2)).
    { apply cons3_insert; [|exact C3]. split; [reflexivity|]. split; intros v E; discriminate E. }
    split.
    + apply req_fndecl; [apply Ca; exact F2|]. apply L. apply cons3_push_fn. exact C31.
    + intros g a' e2' E. destruct g as [|g]; [discriminate E|]. rewrite recreate_S_IFnDecl in E.
      inv_bind E q Hq. destruct q as [b' ex]. injection E as _ <-. exact C31.
  - (* LSet *) inv_bind HA pA HpA. destruct pA as [xA e1]. inv_bind HA lvA HlvA. injection HA as <- <-.
    inv_bind HB pB HpB. destruct pB as [xB e1']. inv_bind HB lvB HlvB. injection HB as <- <-.
    destruct (IHs _ _ _ _ _ _ _ C F HpA HpB) as [R _].
    pose proof (cs_leq _ _ _ _ _ _ F HpA) as LA. pose proof (cs_leq _ _ _ _ _ _ F HpB) as LB.
    assert (Ety : lvar_type lvA = lvar_type lvB).
    { apply ok_inj. rewrite <- (lvar_of_instr_type _ _ HlvA), <- (lvar_of_instr_type _ _ HlvB). apply R. }
    split; [exact (proj1 R)|]. split; [nv|].
    split; [apply consT_insert; [exact Ety|apply (consT_leq scA scB _ _ _ _ LA LB C)]|].
    intros e2 C3. pose proof (P3_at _ _ _ _ _ C3 R) as Rq. split; [apply req_set; exact Rq|].
    intros g a' e2' E. destruct g as [|g]; [discriminate E|]. rewrite recreate_S_ISet in E.
    inv_bind E q Hq. destruct q as [x' ex]. inv_bind E lv2 Hlv2. injection E as _ <-.
    pose proof (same2' _ _ _ _ _ Hq (cs_wfi _ _ _ _ _ _ F HpA)) as ->.
    apply cons3_insert; [|apply (cons3_leq sc scA scB _ _ _ _ _ _ LA LB (leq_refl e2) C3)].
    split; [exact Ety|split].
    + intros v ->. pose proof (lvar_of_instr_const _ _ _ (cs_nc1 _ _ _ _ _ _ F HpA) HlvA eq_refl) as ->.
      destruct g as [|g]; [discriminate Hq|]. rewrite recreate_S_IVar in Hq. injection Hq as <-.
      cbn [lvar_of_instr] in Hlv2. injection Hlv2 as <-. reflexivity.
    + intros v ->. pose proof (lvar_of_instr_const _ _ _ (cs_nc1 _ _ _ _ _ _ F HpB) HlvB eq_refl) as ->.
      rewrite (proj2 Rq g) in Hq.
      destruct g as [|g]; [discriminate Hq|]. rewrite recreate_S_IVar in Hq. injection Hq as <-.
      cbn [lvar_of_instr] in Hlv2. injection Hlv2 as <-. reflexivity.
  - (* LStm *) destruct (IHs _ _ _ _ _ _ _ C F HA HB) as [R Ce].
    pose proof (cs_leq _ _ _ _ _ _ F HA) as LA. pose proof (cs_leq _ _ _ _ _ _ F HB) as LB.
    split; [exact (proj1 R)|]. split; [exact Ce|]. split; [apply (consT_leq scA scB _ _ _ _ LA LB C)|].
    intros e2 C3. split; [apply (P3_at _ _ _ _ _ C3 R)|].
    intros g a' e2' E. pose proof (same2' _ _ _ _ _ E (cs_wfi _ _ _ _ _ _ F HA)) as ->.
    apply (cons3_leq sc scA scB _ _ _ _ _ _ LA LB (leq_refl e2) C3).
Qed.

Lemma CRl_S n : CRs n -> CRl n -> CRl (S n).
Proof.
  intros IHs IHl l eA eB isA isB eA' eB' C F HA HB.
  rewrite check_lines_S in HA, HB. destruct l as [|ln l]; cbn [l_body] in HA, HB.
  - injection HA as <- <-. injection HB as <- <-. split; [intros _; constructor|intros; constructor].
  - cbn [forallb] in F. apply andb_true_iff in F. destruct F as [F1 F2].
    inv_bind HA pA HpA. destruct pA as [iA eA1]. inv_bind HA qA HqA. destruct qA as [lA eA2]. injection HA as <- <-.
    inv_bind HB pB HpB. destruct pB as [iB eB1]. inv_bind HB qB HqB. destruct qB as [lB eB2]. injection HB as <- <-.
    destruct (CRline n IHs IHl _ _ _ _ _ _ _ C F1 HpA HpB) as [Rt [Ce [C1 R]]].
    destruct (IHl l _ _ _ _ _ _ C1 F2 HqA HqB) as [Ca L].
    split.
    + intros Nb. destruct l as [|ln2 l].
      * destruct n as [|n]; [discriminate HqA|]. rewrite check_lines_S in HqA, HqB. cbn [l_body] in HqA, HqB.
        injection HqA as <- <-. injection HqB as <- <-. constructor. exact Rt.
      * cbn [nobare] in Nb. apply andb_true_iff in Nb. destruct Nb as [Nb1 Nb2]. apply negb_true_iff in Nb1.
        assert (NE : lA <> []).
        { destruct n as [|n]; [discriminate HqA|]. rewrite check_lines_S in HqA. cbn [l_body] in HqA.
          inv_bind HqA z Hz. destruct z. inv_bind HqA z2 Hz2. destruct z2. injection HqA as <- _. discriminate. }
        constructor; [apply Ce; exact Nb1|exact NE|apply Ca; exact Nb2].
    + intros e2 C3. destruct (R e2 C3) as [Rq Post]. constructor; [exact Rq|].
      intros g a' e2' E. apply L. apply (Post g a' e2' E).
Qed.

Theorem CR_all : forall n, CRx n /\ CRs n /\ CRl n.
Proof.
  induction n as [|n [IHx [IHs IHl]]].
  - split; [|split]; intros ? ? ? ?; intros; discriminate.
  - split; [apply CRx_S; assumption|]. split; [apply CRs_S; assumption|apply CRl_S; assumption].
Qed.

(* one top-level line, as Code::parse checks it *)
Theorem CR_top_line n eA eB ln iA iB eA1 eB1 e2 :
  cons3 eA eB e2 -> rfl ln = true ->
  check_lines red n scA eA [ln] = Ok ([iA], eA1) -> check_lines red n scB eB [ln] = Ok ([iB], eB1) ->
  req e2 iA iB.
Proof.
  intros C3 F HA HB.
  destruct (proj2 (proj2 (CR_all n)) [ln] _ _ _ _ _ _ (cons3_T sc scA scB _ _ _ C3)
              ltac:(cbn [forallb]; rewrite F; reflexivity) HA HB) as [_ L].
  specialize (L e2 C3). inversion L; subst. assumption.
Qed.

End CR.

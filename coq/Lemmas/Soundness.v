(* Soundness.v — layer 3: execution preserves typing.

   [sound_all]   by induction on the fuel of the interpreter, from the per-construct
                 lemmas of Sound1..Sound5: every typed instruction / statement, run
                 in a typed configuration, ends in a typed configuration with a signal
                 that its type and context allow.
   [exec_sound], [exec_sound_line], [exec_sound_list], [run_code_sound]
                 the same, spelled out on the equation  exec .. = (st', sc', s).
   The theorems of this file are parametric in the closure policy [FL : Policy] and in
   [Hpol : policy_ok powf] ("the constant-propagation pass behaves on the closure
   literals the policy accepts"); Props/C01b.v instantiates them with the empty policy
   (no hypothesis left) and with an arbitrary policy under that named hypothesis. *)
From SSL.Model Require Import Base Ty Float Value Ops Seq Syntax Rt Recreate Exec Check Top.
From SSL.Lemmas Require Import TyLemmas ValueLemmas SeqLemmas ExecLemmas SoundLemmas CellLemmas
  SoundDefs SoundVals SoundTyping Sound1 Sound2 Sound3 Sound4 Sound5 SoundRec1 Sound6.

Arguments matches : simpl never.
Arguments ty_eqb : simpl never.
Arguments concat : simpl never.

Local Open Scope Z_scope.

Section WithFlag.
Context {FL : Policy}.

Section Sound.
Variable powf : fbits -> fbits -> fbits.
Variable pre : prelude.
Hypothesis Hpol : policy_ok powf.
Notation E := (exec powf pre).
Notation sound_at := (sound_at powf pre).
Notation sound_line_at := (sound_line_at powf pre).

Lemma sound_O : sound_at 0.
Proof.
  intros W0 G K i T _ W st sc HC. rewrite exec_O.
  apply concl_intro; [apply (ctx_store _ _ _ _ _ HC)|exact I].
Qed.

Lemma sound_S n : sound_at n -> sound_line_at n -> sound_at (S n).
Proof.
  intros IH IHl W0 G K i T H.
  destruct H; intros W st sc HC.
  - eapply case_var; eassumption.
  - eapply case_local; eassumption.
  - eapply case_tuple; eassumption.
  - eapply case_array; eassumption.
  - eapply case_repeat; eassumption.
  - eapply case_struct; eassumption.
  - eapply case_tuple_access; eassumption.
  - eapply case_field_access; eassumption.
  - eapply case_bin_pure; eassumption.
  - eapply case_at; eassumption.
  - eapply case_logic; eassumption.
  - eapply case_not; eassumption.
  - eapply case_neg; eassumption.
  - eapply case_slice; eassumption.
  - eapply case_block; eassumption.
  - eapply case_if; eassumption.
  - eapply case_setif; eassumption.
  - eapply case_match; eassumption.
  - eapply case_loop; eassumption.
  - eapply case_break; eassumption.
  - eapply case_continue; eassumption.
  - eapply case_return; eassumption.
  - eapply case_mut; eassumption.
  - eapply case_deref; eassumption.
  - eapply case_assign; eassumption.
  - eapply case_opassign; eassumption.
  - eapply case_call; eassumption.
  - eapply case_anonfn; try eassumption. eapply (Hpol _ _ None); try eassumption. exact I.
  - eapply case_collect; eassumption.
  - eapply case_reduce; eassumption.
  - eapply case_type_filter; eassumption.
  - eapply case_partition; eassumption.
Qed.

Lemma fndecl_sound_all n : fndecl_sound_at powf pre n.
Proof. exact (fndecl_sound powf pre Hpol n). Qed.

Theorem sound_all : forall n, sound_at n /\ sound_line_at n.
Proof.
  induction n as [|n [IH IHl]].
  - split; [exact sound_O|apply line_sound_O].
  - pose proof (sound_S n IH IHl) as S1. split; [exact S1|].
    apply line_sound_S; [exact IH|exact S1|apply fndecl_sound_all].
Qed.

(* ================================================================= *)
(* spelled out                                                        *)
(* ================================================================= *)
(* what may be said of a signal, in terms of Model/Value.v only *)
Definition signal_ok (W : sty) (K : kctx) (T : ty) (s : signal) : Prop :=
  s <> SPanic /\
  (forall v, s = SVal v -> has_type v T = true /\ vgood W v) /\
  (forall e, s = SError e -> doc_err e) /\
  (s = SBreak \/ s = SContinue -> in_loop K = true) /\
  (forall v, s = SReturn v -> exists Tr, ret K = Some Tr /\ has_type v Tr = true /\ vgood W v).

Lemma sig_ok_signal_ok W K T s : sig_ok W K T s -> signal_ok W K T s.
Proof.
  intros H. unfold signal_ok. destruct s; cbn [sig_ok] in H;
    (split; [first [discriminate|intros _; exact H]|]);
    (split; [intros w Ew; first [discriminate Ew|injection Ew as <-; exact H]|]);
    (split; [intros w Ew; first [discriminate Ew|injection Ew as <-; exact H]|]);
    (split; [intros [Ew|Ew]; first [discriminate Ew|exact H]|]);
    intros w Ew; try discriminate Ew.
  injection Ew as <-. destruct H as [Tr [Er [Hv Hg]]]. exists Tr. auto.
Qed.

Theorem exec_sound n W0 G K i T W st sc st' sc' s :
  typed W0 G K i T -> ext W0 W -> store_ok W st -> env_ok W sc G ->
  E n st sc i = (st', sc', s) ->
  sc' = sc /\
  exists W', ext W W' /\ store_ok W' st' /\ env_ok W' sc' G /\ signal_ok W' K T s.
Proof.
  intros Ht HE HS HG Hex.
  assert (HC : ctx_ok W0 W st sc G) by (split; [exact HE|split; assumption]).
  destruct (proj1 (sound_all n) _ _ _ _ _ Ht _ _ _ HC) as [Hsc [W' [HE' [HS' Hs]]]].
  rewrite Hex in *. unfold scs, sto, sig in *. cbn [fst snd] in *. subst sc'.
  split; [reflexivity|]. exists W'. split; [exact HE'|]. split; [exact HS'|].
  split; [apply (env_ok_mono W W'); assumption|]. apply sig_ok_signal_ok. exact Hs.
Qed.

(* a statement of a list: `x := e`, `(a, b) := e`, `f := (..) {..}` extend the environment *)
Theorem exec_sound_line n W0 G K i T G' W st sc st' sc' s :
  typed_line W0 G K i T G' -> ext W0 W -> store_ok W st -> env_ok W sc G ->
  E n st sc i = (st', sc', s) ->
  exists W', ext W W' /\ store_ok W' st' /\ signal_ok W' K T s /\
    (forall v, s = SVal v -> env_ok W' sc' G').
Proof.
  intros Ht HE HS HG Hex.
  assert (HC : ctx_ok W0 W st sc G) by (split; [exact HE|split; assumption]).
  destruct (proj2 (sound_all n) _ _ _ _ _ _ Ht _ _ _ HC) as [W' [HE' [HS' Hs]]].
  rewrite Hex in *. unfold scs, sto, sig in *. cbn [fst snd] in *.
  exists W'. split; [exact HE'|]. split; [exact HS'|]. split.
  - apply sig_ok_signal_ok. destruct s; try exact Hs. apply Hs.
  - intros v ->. apply Hs.
Qed.

(* a statement list, as run by blocks, function bodies and Code::exec *)
Theorem exec_sound_list n W0 G K l G' Ts W st sc st' sc' o s :
  typed_list W0 G K l G' Ts -> ext W0 W -> store_ok W st -> env_ok W sc G ->
  ex_list_def (E n) l st sc = (st', sc', o, s) ->
  exists W', ext W W' /\ store_ok W' st' /\
    match o with
    | Ok vs => Forall2 (gv W') vs Ts /\ env_ok W' sc' G'
    | _ => nonval s /\ signal_ok W' K TNever s
    end.
Proof.
  intros Ht HE HS HG Hex.
  assert (HC : ctx_ok W0 W st sc G) by (split; [exact HE|split; assumption]).
  pose proof (stmts_sound powf pre n (proj2 (sound_all n)) _ _ _ _ _ _ Ht _ _ _ HC) as C.
  rewrite Hex in C. destruct C as [W' [HE' [HS' Ho]]].
  exists W'. split; [exact HE'|]. split; [exact HS'|].
  destruct o; try exact Ho; (split; [apply Ho|apply sig_ok_signal_ok; apply Ho]).
Qed.

(* Code::exec_unscoped: a typed top-level program (no loop, no function around it)
   never ends in a panic — in particular no "Return statement outside of function body" *)
Lemma last_nonempty_indep {A} (l : list A) : forall x a b, List.last (x :: l) a = List.last (x :: l) b.
Proof. induction l as [|y l IH]; intros x a b; [reflexivity|]. exact (IH y a b). Qed.

Theorem run_code_sound n W0 G l G' Ts : typed_list W0 G (mkK false None) l G' Ts ->
  forall W st sc last Tl, ext W0 W -> store_ok W st -> env_ok W sc G -> gv W last Tl ->
  exists W', ext W W' /\ store_ok W' (sto (run_code powf pre n st sc l last)) /\
    match sig (run_code powf pre n st sc l last) with
    | SVal v => gv W' v (List.last Ts Tl) /\
                env_ok W' (scs (run_code powf pre n st sc l last)) G'
    | SError e => doc_err e
    | SFuel => True
    | _ => False
    end.
Proof.
  intros H. remember (mkK false None) as K0 eqn:EK.
  induction H as [G K|G K x l T G1 G' Ts Hx Hl IHlist];
    intros W st sc lst Tl HE HS HG Hlast; subst K.
  - cbn [run_code]. exists W. split; [apply ext_refl|]. split; [exact HS|].
    unfold sig, scs. cbn [fst snd List.last]. split; assumption.
  - cbn [run_code].
    assert (HC : ctx_ok W0 W st sc G) by (split; [exact HE|split; assumption]).
    destruct (proj2 (sound_all n) _ _ _ _ _ _ Hx _ _ _ HC) as [W1 [HE1 [HS1 Hs]]].
    destruct (E n st sc x) as [[st1 sc1] s1]. unfold scs, sto, sig in *. cbn [fst snd] in *.
    destruct s1 as [v| | |v|e| |]; cbn [sig_ok in_loop ret] in Hs; try discriminate Hs;
      try contradiction;
      try (exists W1; split; [exact HE1|]; split; [exact HS1|exact Hs]).
    + destruct Hs as [Hv HG1].
      destruct (IHlist eq_refl W1 st1 sc1 v T (ext_trans _ _ _ HE HE1) HS1 HG1 Hv) as [W2 [HE2 [HS2 Hr]]].
      exists W2. split; [apply (ext_trans W W1 W2); assumption|]. split; [exact HS2|].
      destruct (run_code powf pre n st1 sc1 l v) as [[st2 sc2] s2].
      unfold scs, sto, sig in *. cbn [fst snd] in *.
      destruct s2; try exact Hr. destruct Hr as [Hg HG']. split; [|exact HG'].
      destruct Ts as [|U Ts]; [exact Hg|].
      change (List.last (T :: U :: Ts) Tl) with (List.last (U :: Ts) Tl).
      rewrite (last_nonempty_indep Ts U Tl T). exact Hg.
    + destruct Hs as [Tr [Er _]]. discriminate Er.
Qed.

End Sound.

End WithFlag.

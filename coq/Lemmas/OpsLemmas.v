(* Lemmas about Model/Ops.v (scalar operators) *)
From SSL.Model Require Import Base Ty Float Value Ops.
From Coq Require Import ZArith Lia Bool.
Local Open Scope Z_scope.

Lemma two64_pos : 0 < two64. Proof. reflexivity. Qed.

Lemma wrap64_range z : in_i64 (wrap64 z).
Proof.
  unfold in_i64, wrap64, MIN_INT, MAX_INT.
  pose proof (Z.mod_pos_bound (z + two63) two64 two64_pos) as H.
  unfold two64, two63 in *. lia.
Qed.

Lemma wrap64_id z : in_i64 z -> wrap64 z = z.
Proof.
  unfold in_i64, wrap64, MIN_INT, MAX_INT. intros H.
  rewrite Z.mod_small; unfold two64, two63 in *; lia.
Qed.

Lemma wrap64_congr z : (wrap64 z - z) mod two64 = 0.
Proof.
  unfold wrap64.
  replace ((z + two63) mod two64 - two63 - z) with ((z + two63) mod two64 - (z + two63)) by lia.
  rewrite Zminus_mod, Z.mod_mod by (unfold two64; lia).
  rewrite Z.sub_diag. reflexivity.
Qed.

Section WithPowf.
Variable powf : fbits -> fbits -> fbits.
Notation op := (op_exec powf).

Lemma add_wraps a b : op Add (VInt a) (VInt b) = Ok (VInt (wrap64 (a + b))).
Proof. reflexivity. Qed.
Lemma sub_wraps a b : op Subtract (VInt a) (VInt b) = Ok (VInt (wrap64 (a - b))).
Proof. reflexivity. Qed.
Lemma mul_wraps a b : op Multiply (VInt a) (VInt b) = Ok (VInt (wrap64 (a * b))).
Proof. reflexivity. Qed.
Lemma neg_wraps a : unop_exec UUnaryMinus (VInt a) = Ok (VInt (wrap64 (- a))).
Proof. reflexivity. Qed.
Lemma neg_min : unop_exec UUnaryMinus (VInt MIN_INT) = Ok (VInt MIN_INT).
Proof. reflexivity. Qed.

Lemma div_zero a : op Divide (VInt a) (VInt 0) = Err E_ZeroDivision.
Proof. reflexivity. Qed.
Lemma mod_zero a : op Modulo (VInt a) (VInt 0) = Err E_ZeroModulo.
Proof. reflexivity. Qed.

Lemma div_nonzero a b : b <> 0 -> op Divide (VInt a) (VInt b) = Ok (VInt (wrap64 (Z.quot a b))).
Proof. intros H. destruct b; [contradiction| |]; reflexivity. Qed.
Lemma mod_nonzero a b : b <> 0 -> op Modulo (VInt a) (VInt b) = Ok (VInt (wrap64 (Z.rem a b))).
Proof. intros H. destruct b; [contradiction| |]; reflexivity. Qed.

Lemma div_min_m1 : op Divide (VInt MIN_INT) (VInt (-1)) = Ok (VInt MIN_INT).
Proof. reflexivity. Qed.
Lemma mod_min_m1 : op Modulo (VInt MIN_INT) (VInt (-1)) = Ok (VInt 0).
Proof. reflexivity. Qed.

Lemma rem_in_range a b : in_i64 a -> in_i64 b -> b <> 0 -> in_i64 (Z.rem a b).
Proof.
  unfold in_i64, MIN_INT, MAX_INT, two63. intros Ha Hb Hb0.
  pose proof (Z.rem_bound_abs a b Hb0) as Hbd.
  pose proof (Z.rem_sign_mul a b Hb0) as Hs.
  lia.
Qed.

Lemma pow_neg b e : e < 0 -> op Pow (VInt b) (VInt e) = Err E_NegativeExponent.
Proof. intros H. cbn [op_exec]. apply Z.ltb_lt in H. rewrite H. reflexivity. Qed.

Lemma shl_in a s : 0 <= s <= 63 -> op LShift (VInt a) (VInt s) = Ok (VInt (wrap64 (a * 2 ^ s))).
Proof.
  intros [H1 H2]. cbn [op_exec]. apply Z.leb_le in H1, H2. rewrite H1, H2. reflexivity.
Qed.
Lemma shr_in a s : 0 <= s <= 63 -> op RShift (VInt a) (VInt s) = Ok (VInt (a / 2 ^ s)).
Proof.
  intros [H1 H2]. cbn [op_exec]. pose proof H1 as H1'. apply Z.leb_le in H1, H2. rewrite H1, H2. cbn [andb].
  unfold rs_shr. rewrite Z.shiftr_div_pow2 by assumption. reflexivity.
Qed.
Lemma shift_out a s : ~ (0 <= s <= 63) ->
  op LShift (VInt a) (VInt s) = Err E_OverflowShift /\ op RShift (VInt a) (VInt s) = Err E_OverflowShift.
Proof.
  intros H. cbn [op_exec].
  destruct (0 <=? s) eqn:E1; destruct (s <=? 63) eqn:E2; cbn [andb]; auto.
  apply Z.leb_le in E1, E2. lia.
Qed.

Lemma cmp_int a b :
  op Lower (VInt a) (VInt b) = Ok (VBool (a <? b)) /\
  op LowerOrEqual (VInt a) (VInt b) = Ok (VBool (a <=? b)) /\
  op Greater (VInt a) (VInt b) = Ok (VBool (b <? a)) /\
  op GreaterOrEqual (VInt a) (VInt b) = Ok (VBool (b <=? a)) /\
  op Equal (VInt a) (VInt b) = Ok (VBool (a =? b)) /\
  op NotEqual (VInt a) (VInt b) = Ok (VBool (negb (a =? b))).
Proof. repeat split; reflexivity. Qed.

Lemma bool_ops a b :
  op BitwiseAnd (VBool a) (VBool b) = Ok (VBool (a && b)) /\
  op BitwiseOr (VBool a) (VBool b) = Ok (VBool (a || b)) /\
  op Xor (VBool a) (VBool b) = Ok (VBool (xorb a b)) /\
  unop_exec UNot (VBool a) = Ok (VBool (negb a)).
Proof. repeat split; reflexivity. Qed.

Lemma bit_ops a b :
  op BitwiseAnd (VInt a) (VInt b) = Ok (VInt (Z.land a b)) /\
  op BitwiseOr (VInt a) (VInt b) = Ok (VInt (Z.lor a b)) /\
  op Xor (VInt a) (VInt b) = Ok (VInt (Z.lxor a b)) /\
  unop_exec UNot (VInt a) = Ok (VInt (Z.lnot a)).
Proof. repeat split; reflexivity. Qed.

(* exactly the documented conditions produce errors on int operands *)
Lemma int_errors o a b e : op o (VInt a) (VInt b) = Err e ->
  (o = Divide /\ b = 0 /\ e = E_ZeroDivision) \/
  (o = Modulo /\ b = 0 /\ e = E_ZeroModulo) \/
  (o = Pow /\ b < 0 /\ e = E_NegativeExponent) \/
  ((o = LShift \/ o = RShift) /\ ~ (0 <= b <= 63) /\ e = E_OverflowShift).
Proof.
  destruct o; cbn [op_exec]; try discriminate.
  - destruct b; try discriminate. intros H; inversion H; auto.
  - destruct b; try discriminate. intros H; inversion H; auto 6.
  - destruct (b <? 0) eqn:E; try discriminate. intros H; inversion H.
    apply Z.ltb_lt in E. auto 8.
  - destruct (0 <=? b) eqn:E1; destruct (b <=? 63) eqn:E2; cbn [andb]; try discriminate;
      intros H; inversion H; right; right; right; (split; [auto|split; [|reflexivity]]);
      try apply Z.leb_gt in E1; try apply Z.leb_gt in E2; lia.
  - destruct (0 <=? b) eqn:E1; destruct (b <=? 63) eqn:E2; cbn [andb]; try discriminate;
      intros H; inversion H; right; right; right; (split; [auto|split; [|reflexivity]]);
      try apply Z.leb_gt in E1; try apply Z.leb_gt in E2; lia.
Qed.

Definition scalar_binop (o : binop) : bool :=
  match o with
  | Add | Subtract | Multiply | Divide | Modulo | Pow | Equal | NotEqual | Greater
  | GreaterOrEqual | Lower | LowerOrEqual | BitwiseAnd | BitwiseOr | Xor | LShift | RShift => true
  | _ => false
  end.

Lemma int_ops_no_panic o a b : scalar_binop o = true -> op o (VInt a) (VInt b) <> Panic.
Proof.
  destruct o; cbn [op_exec scalar_binop]; try discriminate; intros _.
  - destruct b; discriminate.
  - destruct b; discriminate.
  - destruct (b <? 0); discriminate.
  - destruct (0 <=? b); destruct (b <=? 63); cbn [andb]; discriminate.
  - destruct (0 <=? b); destruct (b <=? 63); cbn [andb]; discriminate.
Qed.

End WithPowf.

(* ExecLemmas.v — lemmas about Model/Exec.v (the fuel-indexed interpreter):
   A. standalone copies of the local helpers of [exec] and, once per instruction
      form, an unfolding equation proved by [reflexivity];
   B. control flow (C12), scoping (C06) and evaluation order (C07) lemmas, all
      derived from the unfolding equations ([exec] itself is never simplified). *)
From SSL.Model Require Import Base Ty Float Value Ops Seq Syntax Rt Recreate Exec.

Arguments matches : simpl never.
Arguments val_eqb : simpl never.
Arguments op_exec : simpl never.
Arguments unop_exec : simpl never.
Arguments slice_exec : simpl never.
Arguments at_exec : simpl never.
Arguments recreate_body : simpl never.

(* ================================================================= *)
(* A. Standalone helpers                                              *)
(* ================================================================= *)
Section Defs.
Variable powf : fbits -> fbits -> fbits.
Variable pre : prelude.
(* [ex] stands for [exec powf pre n], the interpreter one fuel unit below *)
Variable ex : store -> scopes -> instr -> res.

Definition lres := (store * scopes * outcome (list value) * signal)%type.

Definition ex_list_def : list instr -> store -> scopes -> lres :=
  fix go (l : list instr) (st : store) (sc : scopes) : lres :=
    match l with
    | [] => (st, sc, Ok [], SVal VVoid)
    | x :: l =>
        match ex st sc x with
        | (st, sc, SVal v) =>
            match go l st sc with
            | (st, sc, Ok vs, s) => (st, sc, Ok (v :: vs), s)
            | r => r
            end
        | (st, sc, s) => (st, sc, Panic, s)
        end
    end.

Definition with_list_def (l : list instr) (st : store) (sc : scopes)
    (k : store -> scopes -> list value -> res) : res :=
  match ex_list_def l st sc with
  | (st, sc, Ok vs, _) => k st sc vs
  | (st, sc, _, s) => (st, sc, s)
  end.

Definition with_val_def (x : instr) (st : store) (sc : scopes)
    (k : store -> scopes -> value -> res) : res :=
  match ex st sc x with
  | (st, sc, SVal v) => k st sc v
  | r => r
  end.

Definition n_variable : name := [118;97;114;105;97;98;108;101]%Z.

Definition run_body_def (c : closure) (st : store) (sc : scopes) : res :=
  match c_body c with
  | BNative _ =>
      match scopes_get n_variable sc with
      | Some v => match len_exec v with
                  | Ok n => (st, sc, SVal (VInt n))
                  | _ => (st, sc, SPanic) end
      | None => (st, sc, SPanic)
      end
  | BLang body =>
      match ex_list_def body st sc with
      | (st, sc, Ok _, _) => (st, sc, SVal VVoid)
      | (st, sc, _, SReturn v) => (st, sc, SVal v)
      | (st, sc, _, SError e) => (st, sc, SError e)
      | (st, sc, _, SBreak) | (st, sc, _, SContinue) => (st, sc, SPanic)
      | (st, sc, _, s) => (st, sc, s)
      end
  end.

Definition bind_def : params -> list value -> scope -> scope :=
  fix bind (ps : params) (args : list value) (s : scope) : scope :=
    match ps, args with
    | (n, _) :: ps, a :: args => bind ps args (scope_insert n a s)
    | _, _ => s
    end.

Definition base_def (fid : nat) (c : closure) : scope :=
  match c_name c with
  | Some n => [(n, VFun fid (map snd (c_params c)) (c_ret c))]
  | None => []
  end.

(* the single layer a callee runs in *)
Definition frame_def (fid : nat) (c : closure) (args : list value) : scope :=
  bind_def (c_params c) args (base_def fid c).

Definition call_def (fid : nat) (args : list value) (st : store) (sc : scopes) : res :=
  match nth_error (s_funs st) fid with
  | None => (st, sc, SPanic)
  | Some c =>
      match run_body_def c (log_event st (EvCall fid args)) [frame_def fid c args] with
      | (st, _, s) => (st, sc, s)
      end
  end.

Definition call_v_def (f : value) (args : list value) (st : store) (sc : scopes) : res :=
  match f with
  | VFun fid _ _ => call_def fid args st sc
  | _ => (st, sc, SPanic)
  end.

Definition pull_def : nat -> value -> store -> scopes -> list value -> lres :=
  fix pull (n : nat) (it : value) (st : store) (sc : scopes) (acc : list value) : lres :=
    match n with
    | O => (st, sc, OutOfFuel, SFuel)
    | S n =>
        match call_v_def it [] st sc with
        | (st, sc, SVal (VTup (c :: rest))) =>
            if is_false c then (st, sc, Ok (rev acc), SVal VVoid)
            else match rest with
                 | x :: _ => pull n it st sc (x :: acc)
                 | [] => (st, sc, Panic, SPanic)
                 end
        | (st, sc, SVal (VTup [])) => (st, sc, Panic, SPanic)
        | (st, sc, SVal _) => (st, sc, Ok (rev acc), SVal VVoid)
        | (st, sc, s) => (st, sc, Panic, s)
        end
    end.

Definition retyped_def (f : value) (ret : ty) (st : store) (sc : scopes) : res :=
  match f with
  | VFun fid _ _ =>
      match nth_error (s_funs st) fid with
      | Some c =>
          let '(st, id) := alloc_fun st (mkClosure (c_name c) (c_params c) (c_body c) ret) in
          (st, sc, SVal (VFun id (map snd (c_params c)) ret))
      | None => (st, sc, SPanic)
      end
  | _ => (st, sc, SPanic)
  end.

Definition destruct_bind_def : list name -> list value -> scopes -> scopes :=
  fix go (ids : list name) (vs : list value) (sc : scopes) : scopes :=
    match ids, vs with
    | n :: ids, v :: vs => go ids vs (scopes_insert n v sc)
    | _, _ => sc
    end.

Definition loop_def (b : instr) : nat -> store -> scopes -> res :=
  fix loop (n : nat) (st : store) (sc : scopes) : res :=
    match n with
    | O => (st, sc, SFuel)
    | S n =>
        match ex st sc b with
        | (st, sc, SVal _) | (st, sc, SContinue) => loop n st sc
        | (st, sc, SBreak) => (st, sc, SVal VVoid)
        | r => r
        end
    end.

(* candidates of a value arm, left to right; [k] = the remaining arms *)
Definition match_cands_def (v : value) (b : instr) (k : store -> scopes -> res)
    : list instr -> store -> scopes -> res :=
  fix try (cs : list instr) (st : store) (sc : scopes) : res :=
    match cs with
    | [] => k st sc
    | c :: cs =>
        match ex st sc c with
        | (st, sc, SVal w) => if val_eqb w v then ex st sc b else try cs st sc
        | r => r
        end
    end.

Definition match_arms_def (v : value) : list arm -> store -> scopes -> res :=
  fix go (l : list arm) (st : store) (sc : scopes) : res :=
    match l with
    | [] => (st, sc, SPanic)
    | ArmOther b :: _ => ex st sc b
    | ArmType n t b :: l =>
        if matches (as_type v) t then
          match ex st ([(n, v)] :: sc) b with
          | (st, _, s) => (st, sc, s)
          end
        else go l st sc
    | ArmValue cands b :: l => match_cands_def v b (go l) cands st sc
    end.

Definition reduce_def (itv fv : value) : nat -> store -> scopes -> value -> res :=
  fix red (n : nat) (st : store) (sc : scopes) (acc : value) : res :=
    match n with
    | O => (st, sc, SFuel)
    | S n =>
        match call_v_def itv [] st sc with
        | (st, sc, SVal (VTup (c :: rest))) =>
            if is_false c then (st, sc, SVal acc)
            else match rest with
                 | x :: _ =>
                     match call_v_def fv [acc; x] st sc with
                     | (st, sc, SVal acc) => red n st sc acc
                     | r => r
                     end
                 | [] => (st, sc, SPanic)
                 end
        | (st, sc, SVal (VTup [])) => (st, sc, SPanic)
        | (st, sc, SVal _) => (st, sc, SVal acc)
        | r => r
        end
    end.

Definition opt_def (o : option instr) (st : store) (sc : scopes)
    (k : store -> scopes -> option value -> res) : res :=
  match o with
  | None => k st sc None
  | Some x => with_val_def x st sc (fun st sc v =>
                match v with VInt _ => k st sc (Some v) | _ => (st, sc, SPanic) end)
  end.

Definition struct_def : list (name * instr) -> store -> scopes -> list (ident * value) -> res :=
  fix go (l : list (name * instr)) (st : store) (sc : scopes) (acc : list (ident * value)) : res :=
    match l with
    | [] => (st, sc, SVal (VStruct acc))
    | (k, x) :: l => with_val_def x st sc (fun st sc v => go l st sc (struct_val_insert k v acc))
    end.

Definition part_def (lv rv : value) : nat -> store -> scopes -> list value -> list value -> res :=
  fix part (n : nat) (st : store) (sc : scopes) (yes no : list value) : res :=
    match n with
    | O => (st, sc, SFuel)
    | S n =>
        match call_v_def lv [] st sc with
        | (st, sc, SVal (VTup (c :: rest))) =>
            if is_false c then
              match iter_element (as_type lv) with
              | Some et => (st, sc, SVal (VTup [VArr et (rev yes); VArr et (rev no)]))
              | None => (st, sc, SPanic)
              end
            else match rest with
                 | x :: _ =>
                     match call_v_def rv [x] st sc with
                     | (st, sc, SVal (VBool true)) => part n st sc (x :: yes) no
                     | (st, sc, SVal _) => part n st sc yes (x :: no)
                     | r => r
                     end
                 | [] => (st, sc, SPanic)
                 end
        | (st, sc, SVal (VTup [])) => (st, sc, SPanic)
        | (st, sc, SVal _) =>
            match iter_element (as_type lv) with
            | Some et => (st, sc, SVal (VTup [VArr et (rev yes); VArr et (rev no)]))
            | None => (st, sc, SPanic)
            end
        | r => r
        end
    end.

(* what a binary operator other than And/Or does once both operands are values;
   [fuel] bounds the pull loop of Partition *)
Definition bin_dispatch (fuel : nat) (op : binop) (lv rv : value) (st : store) (sc : scopes) : res :=
  match op with
  | At => sig_of_outcome (at_exec lv rv) (fun v => (st, sc, SVal v)) st sc
  | FunctionCall =>
      match rv with
      | VTup args => call_v_def lv args st sc
      | _ => (st, sc, SPanic)
      end
  | Map =>
      match fn_return_type (as_type rv) with
      | None => (st, sc, SPanic)
      | Some rty =>
          match call_def (p_map pre) [lv; rv] st sc with
          | (st, sc, SVal f) => retyped_def f (TTup [TBool; rty]) st sc
          | r => r
          end
      end
  | Filter =>
      match fn_return_type (as_type lv) with
      | None => (st, sc, SPanic)
      | Some ety =>
          match call_def (p_filter pre) [lv; rv] st sc with
          | (st, sc, SVal f) => retyped_def f ety st sc
          | r => r
          end
      end
  | Partition =>
      match lv, rv with
      | VFun _ _ _, VFun _ _ _ => part_def lv rv fuel st sc [] []
      | _, _ => (st, sc, SPanic)
      end
  | Assign =>
      match lv with
      | VMut loc _ =>
          match nth_error (s_cells st) loc with
          | Some _ => (write_cell st loc rv, sc, SVal rv)
          | None => (st, sc, SPanic)
          end
      | _ => (st, sc, SPanic)
      end
  | _ =>
      match assign_base op with
      | Some bop =>
          match lv with
          | VMut loc _ =>
              match nth_error (s_cells st) loc with
              | Some cur =>
                  sig_of_outcome (op_exec powf bop cur rv)
                    (fun v => (write_cell st loc v, sc, SVal v)) st sc
              | None => (st, sc, SPanic)
              end
          | _ => (st, sc, SPanic)
          end
      | None => sig_of_outcome (op_exec powf op lv rv) (fun v => (st, sc, SVal v)) st sc
      end
  end.

Definition un_dispatch (fuel : nat) (sx : ty) (op : unop) (v : value) (st : store) (sc : scopes) : res :=
  match op with
  | UReturn => (st, sc, SReturn v)
  | UNot | UUnaryMinus => sig_of_outcome (unop_exec op v) (fun r => (st, sc, SVal r)) st sc
  | UIndirection =>
      match v with
      | VMut loc _ => match nth_error (s_cells st) loc with
                      | Some c => (st, sc, SVal c) | None => (st, sc, SPanic) end
      | _ => (st, sc, SPanic)
      end
  | UFunctionCall =>
      match v with
      | VFun fid _ _ =>
          match nth_error (s_funs st) fid with
          | Some c => run_body_def c st sc
          | None => (st, sc, SPanic)
          end
      | _ => (st, sc, SPanic)
      end
  | UCollect =>
      match v with
      | VFun _ _ _ =>
          match pull_def fuel v st sc [] with
          | (st, sc, Ok vs, _) => (st, sc, SVal (arr_of vs))
          | (st, sc, _, s) => (st, sc, s)
          end
      | _ => (st, sc, SPanic)
      end
  | UIter =>
      match element_type (as_type v) with
      | None => (st, sc, SPanic)
      | Some et =>
          let '(d, st) := match alloc_default et st with Some ds => ds | None => (VVoid, st) end in
          match call_def (p_iter pre) [v; d] st sc with
          | (st, sc, SVal f) => retyped_def f (TTup [TBool; et]) st sc
          | (st, sc, SError _) => (st, sc, SPanic)
          | r => r
          end
      end
  | USum | UProduct
  | UAll | UAny | UBitAnd | UBitOr => (st, sc, SPanic)
  end.

Definition bool_branch_def (v : value) (kt kf : res) (st : store) (sc : scopes) : res :=
  match v with
  | VBool true => kt
  | VBool false => kf
  | _ => (st, sc, SPanic)
  end.

End Defs.

(* ================================================================= *)
(* A'. Unfolding equations (one per instruction form)                 *)
(* ================================================================= *)
Section Unfold.
Variable powf : fbits -> fbits -> fbits.
Variable pre : prelude.
Notation E := (exec powf pre).

Lemma exec_O : forall st sc i, E 0 st sc i = (st, sc, SFuel).
Proof. reflexivity. Qed.

Lemma exec_S_IVar : forall n st sc v, E (S n) st sc (IVar v) = (st, sc, SVal v).
Proof. reflexivity. Qed.

Lemma exec_S_ILocal : forall n st sc nm lv,
  E (S n) st sc (ILocal nm lv) =
  match scopes_get nm sc with Some v => (st, sc, SVal v) | None => (st, sc, SPanic) end.
Proof. reflexivity. Qed.

Lemma exec_S_IBreak : forall n st sc, E (S n) st sc IBreak = (st, sc, SBreak).
Proof. reflexivity. Qed.

Lemma exec_S_IContinue : forall n st sc, E (S n) st sc IContinue = (st, sc, SContinue).
Proof. reflexivity. Qed.

Lemma exec_S_IAnonFn : forall n st sc ps body ret,
  E (S n) st sc (IAnonFn ps body ret) =
  sig_of_outcome (recreate_body powf sc [mkLayer (params_layer ps) None false] body) (fun body' =>
    let '(st, id) := alloc_fun st (mkClosure None ps (BLang body') ret) in
    (st, sc, SVal (VFun id (map snd ps) ret))) st sc.
Proof. reflexivity. Qed.

Lemma exec_S_IFnDecl : forall n st sc nm ps body ret,
  E (S n) st sc (IFnDecl nm ps body ret) =
  sig_of_outcome
    (recreate_body powf sc [layer_insert nm (LFunction ps ret) (mkLayer (params_layer ps) None false)] body)
    (fun body' =>
      let '(st, id) := alloc_fun st (mkClosure (Some nm) ps (BLang body') ret) in
      let f := VFun id (map snd ps) ret in
      (st, scopes_insert nm f sc, SVal f)) st sc.
Proof. reflexivity. Qed.

Lemma exec_S_IArray : forall n st sc es et,
  E (S n) st sc (IArray es et) =
  with_list_def (E n) es st sc (fun st sc vs => (st, sc, SVal (arr_of vs))).
Proof. reflexivity. Qed.

Lemma exec_S_ITuple : forall n st sc es,
  E (S n) st sc (ITuple es) =
  with_list_def (E n) es st sc (fun st sc vs => (st, sc, SVal (VTup vs))).
Proof. reflexivity. Qed.

Lemma exec_S_IArrayRepeat : forall n st sc v len,
  E (S n) st sc (IArrayRepeat v len) =
  with_val_def (E n) v st sc (fun st sc x => with_val_def (E n) len st sc (fun st sc k =>
    match k with
    | VInt k => if (k <? 0)%Z then (st, sc, SError E_NegativeLength)
                else (st, sc, SVal (repeat_value x k))
    | _ => (st, sc, SPanic)
    end)).
Proof. reflexivity. Qed.

Lemma exec_S_IBlock : forall n st sc body,
  E (S n) st sc (IBlock body) =
  match ex_list_def (E n) body st ([] :: sc) with
  | (st, _, Ok vs, _) => (st, sc, SVal (last vs VVoid))
  | (st, _, _, s) => (st, sc, s)
  end.
Proof. reflexivity. Qed.

Lemma exec_S_IDestruct : forall n st sc ids x,
  E (S n) st sc (IDestruct ids x) =
  with_val_def (E n) x st sc (fun st sc v =>
    match v with
    | VTup vs => (st, destruct_bind_def ids vs sc, SVal (VTup vs))
    | _ => (st, sc, SPanic)
    end).
Proof. reflexivity. Qed.

Lemma exec_S_IFieldAccess : forall n st sc x f,
  E (S n) st sc (IFieldAccess x f) =
  with_val_def (E n) x st sc (fun st sc v =>
    match v with
    | VStruct fs => match assoc f fs with
                    | Some r => (st, sc, SVal r) | None => (st, sc, SPanic) end
    | _ => (st, sc, SPanic)
    end).
Proof. reflexivity. Qed.

Lemma exec_S_IIfElse : forall n st sc c t f,
  E (S n) st sc (IIfElse c t f) =
  with_val_def (E n) c st sc (fun st sc v =>
    match v with
    | VBool true => E n st sc t
    | VBool false => E n st sc f
    | _ => (st, sc, SPanic)
    end).
Proof. reflexivity. Qed.

Lemma exec_S_ILoop : forall n st sc b,
  E (S n) st sc (ILoop b) = loop_def (E n) b n st sc.
Proof. reflexivity. Qed.

Lemma exec_S_IMatch : forall n st sc x arms,
  E (S n) st sc (IMatch x arms) =
  with_val_def (E n) x st sc (fun st sc v => match_arms_def (E n) v arms st sc).
Proof. reflexivity. Qed.

Lemma exec_S_IMut : forall n st sc t x,
  E (S n) st sc (IMut t x) =
  with_val_def (E n) x st sc (fun st sc v =>
    let '(st, loc) := alloc_cell st v in (st, sc, SVal (VMut loc t))).
Proof. reflexivity. Qed.

Lemma exec_S_IReduce : forall n st sc it init f,
  E (S n) st sc (IReduce it init f) =
  with_val_def (E n) it st sc (fun st sc itv => with_val_def (E n) init st sc (fun st sc initv =>
  with_val_def (E n) f st sc (fun st sc fv =>
    match itv, fv with
    | VFun _ _ _, VFun _ _ _ => reduce_def (E n) itv fv n st sc initv
    | _, _ => (st, sc, SPanic)
    end))).
Proof. reflexivity. Qed.

Lemma exec_S_ISet : forall n st sc nm x,
  E (S n) st sc (ISet nm x) =
  with_val_def (E n) x st sc (fun st sc v => (st, scopes_insert nm v sc, SVal v)).
Proof. reflexivity. Qed.

Lemma exec_S_ISetIfElse : forall n st sc nm t x ifm els,
  E (S n) st sc (ISetIfElse nm t x ifm els) =
  with_val_def (E n) x st sc (fun st sc v =>
    if matches (as_type v) t then
      match E n st ([(nm, v)] :: sc) ifm with
      | (st, _, s) => (st, sc, s)
      end
    else E n st sc els).
Proof. reflexivity. Qed.

Lemma exec_S_ISlicing : forall n st sc l a b c,
  E (S n) st sc (ISlicing l a b c) =
  with_val_def (E n) l st sc (fun st sc lv =>
  opt_def (E n) a st sc (fun st sc av => opt_def (E n) b st sc (fun st sc bv =>
  opt_def (E n) c st sc (fun st sc cv =>
    sig_of_outcome (slice_exec lv av bv cv) (fun r => (st, sc, SVal r)) st sc)))).
Proof. reflexivity. Qed.

Lemma exec_S_IStruct : forall n st sc fs,
  E (S n) st sc (IStruct fs) = struct_def (E n) fs st sc [].
Proof. reflexivity. Qed.

Lemma exec_S_ITupleAccess : forall n st sc x k,
  E (S n) st sc (ITupleAccess x k) =
  with_val_def (E n) x st sc (fun st sc v =>
    match v with
    | VTup vs => match nth_error vs k with
                 | Some r => (st, sc, SVal r) | None => (st, sc, SPanic) end
    | _ => (st, sc, SPanic)
    end).
Proof. reflexivity. Qed.

Lemma exec_S_ITypeFilter : forall n st sc x t,
  E (S n) st sc (ITypeFilter x t) =
  with_val_def (E n) x st sc (fun st sc itv =>
    match alloc_default t st with
    | None => (st, sc, SPanic)
    | Some (d, st) =>
        let '(st, id) := alloc_fun st (mkClosure None [] (BLang (type_filter_body itv d t)) (TTup [TBool; t])) in
        (st, sc, SVal (VFun id [] (TTup [TBool; t])))
    end).
Proof. reflexivity. Qed.

Lemma exec_S_And : forall n st sc l r,
  E (S n) st sc (IBin And l r) =
  with_val_def (E n) l st sc (fun st sc v =>
    match v with
    | VBool false => (st, sc, SVal (VBool false))
    | VBool true => E n st sc r
    | _ => (st, sc, SPanic)
    end).
Proof. reflexivity. Qed.

Lemma exec_S_Or : forall n st sc l r,
  E (S n) st sc (IBin Or l r) =
  with_val_def (E n) l st sc (fun st sc v =>
    match v with
    | VBool true => (st, sc, SVal (VBool true))
    | VBool false => E n st sc r
    | _ => (st, sc, SPanic)
    end).
Proof. reflexivity. Qed.

Lemma exec_S_IBin : forall n st sc op l r, op <> And -> op <> Or ->
  E (S n) st sc (IBin op l r) =
  with_val_def (E n) l st sc (fun st sc lv => with_val_def (E n) r st sc (fun st sc rv =>
    bin_dispatch powf pre (E n) n op lv rv st sc)).
Proof. intros n st sc op l r HA HO. destruct op; try congruence; reflexivity. Qed.

Lemma exec_S_IUn : forall n st sc op x,
  E (S n) st sc (IUn op x) =
  with_val_def (E n) x st sc (fun st sc v => un_dispatch pre (E n) n (sty x) op v st sc).
Proof. reflexivity. Qed.

End Unfold.

(* ================================================================= *)
(* B. Reasoning through the equations only                            *)
(* ================================================================= *)
Arguments exec : simpl never.

Definition sig (r : res) : signal := snd r.
Definition scs (r : res) : scopes := snd (fst r).
Definition sto (r : res) : store := fst (fst r).

(* a signal that is not a value: Break, Continue, Return, Error, Panic, Fuel *)
Definition nonval (s : signal) : Prop :=
  match s with SVal _ => False | _ => True end.

Lemma nonval_not_val : forall s, nonval s <-> (forall v, s <> SVal v).
Proof.
  intros s; split.
  - intros Hs v Heq. subst s. exact Hs.
  - intros Hs. destruct s; simpl; auto. exact (Hs v eq_refl).
Qed.

(* ---------- identifiers ---------- *)
Lemma ident_eqb_refl : forall a, ident_eqb a a = true.
Proof. induction a as [|x a IH]; simpl; [reflexivity|]. rewrite Z.eqb_refl. exact IH. Qed.

Lemma ident_eqb_true : forall a b, ident_eqb a b = true -> a = b.
Proof.
  induction a as [|x a IH]; intros [|y b] H; simpl in H; try discriminate; [reflexivity|].
  apply andb_true_iff in H. destruct H as [Hx Hab].
  apply Z.eqb_eq in Hx. apply IH in Hab. subst. reflexivity.
Qed.

Lemma ident_eqb_neq : forall a b, a <> b -> ident_eqb a b = false.
Proof.
  intros a b Hne. destruct (ident_eqb a b) eqn:Hab; [|reflexivity].
  apply ident_eqb_true in Hab. contradiction.
Qed.

(* ================================================================= *)
(* Generic facts about the helpers (any [ex])                         *)
(* ================================================================= *)
Section Generic.
Variable powf : fbits -> fbits -> fbits.
Variable pre : prelude.
Variable ex : store -> scopes -> instr -> res.

Lemma with_val_val : forall x st sc k st1 sc1 v,
  ex st sc x = (st1, sc1, SVal v) -> with_val_def ex x st sc k = k st1 sc1 v.
Proof. intros x st sc k st1 sc1 v Hx. unfold with_val_def. rewrite Hx. reflexivity. Qed.

Lemma with_val_sig : forall x st sc k st1 sc1 s,
  ex st sc x = (st1, sc1, s) -> nonval s -> with_val_def ex x st sc k = (st1, sc1, s).
Proof.
  intros x st sc k st1 sc1 s Hx Hs. unfold with_val_def. rewrite Hx.
  destruct s; simpl in Hs; try contradiction; reflexivity.
Qed.

(* ---------- statement lists ---------- *)
Lemma ex_list_nil : forall st sc, ex_list_def ex [] st sc = (st, sc, Ok [], SVal VVoid).
Proof. reflexivity. Qed.

Lemma ex_list_cons : forall x l st sc,
  ex_list_def ex (x :: l) st sc =
  match ex st sc x with
  | (st, sc, SVal v) =>
      match ex_list_def ex l st sc with
      | (st, sc, Ok vs, s) => (st, sc, Ok (v :: vs), s)
      | r => r
      end
  | (st, sc, s) => (st, sc, Panic, s)
  end.
Proof. reflexivity. Qed.

Lemma ex_list_cons_val : forall x l st sc st1 sc1 v,
  ex st sc x = (st1, sc1, SVal v) ->
  ex_list_def ex (x :: l) st sc =
  match ex_list_def ex l st1 sc1 with
  | (st, sc, Ok vs, s) => (st, sc, Ok (v :: vs), s)
  | r => r
  end.
Proof. intros x l st sc st1 sc1 v Hx. rewrite ex_list_cons, Hx. reflexivity. Qed.

Lemma ex_list_cons_sig : forall x l st sc st1 sc1 s,
  ex st sc x = (st1, sc1, s) -> nonval s ->
  ex_list_def ex (x :: l) st sc = (st1, sc1, Panic, s).
Proof.
  intros x l st sc st1 sc1 s Hx Hs. rewrite ex_list_cons, Hx.
  destruct s; simpl in Hs; try contradiction; reflexivity.
Qed.

(* the two possible shapes of a list result *)
Lemma ex_list_shape : forall l st sc st' sc' o s,
  ex_list_def ex l st sc = (st', sc', o, s) ->
  (exists vs, o = Ok vs /\ s = SVal VVoid /\ length vs = length l) \/ (o = Panic /\ nonval s).
Proof.
  induction l as [|x l IH]; intros st sc st' sc' o s H.
  - rewrite ex_list_nil in H. inversion H; subst. left. exists []. auto.
  - rewrite ex_list_cons in H.
    destruct (ex st sc x) as [[st1 sc1] s1] eqn:Hx.
    destruct s1; try (inversion H; subst; right; split; [reflexivity|exact I]).
    destruct (ex_list_def ex l st1 sc1) as [[[st2 sc2] o2] s2] eqn:Hl.
    destruct (IH _ _ _ _ _ _ Hl) as [[vs [Ho [Hs Hlen]]]|[Ho Hs]]; subst o2.
    + inversion H; subst. left. exists (v :: vs). simpl. auto.
    + inversion H; subst. right. auto.
Qed.

(* "every statement of [l] yields a value": the values and the final state *)
Inductive runs : list instr -> store -> scopes -> list value -> store -> scopes -> Prop :=
| runs_nil : forall st sc, runs [] st sc [] st sc
| runs_cons : forall x l st sc st1 sc1 v vs st2 sc2,
    ex st sc x = (st1, sc1, SVal v) ->
    runs l st1 sc1 vs st2 sc2 ->
    runs (x :: l) st sc (v :: vs) st2 sc2.

Lemma runs_ex_list : forall l st sc vs st' sc',
  runs l st sc vs st' sc' -> ex_list_def ex l st sc = (st', sc', Ok vs, SVal VVoid).
Proof.
  intros l st sc vs st' sc' H. induction H as [|x l st sc st1 sc1 v vs st2 sc2 Hx Hr IH].
  - reflexivity.
  - rewrite (ex_list_cons_val _ _ _ _ _ _ _ Hx), IH. reflexivity.
Qed.

Lemma ex_list_runs : forall l st sc vs st' sc' s,
  ex_list_def ex l st sc = (st', sc', Ok vs, s) -> runs l st sc vs st' sc'.
Proof.
  induction l as [|x l IH]; intros st sc vs st' sc' s H.
  - rewrite ex_list_nil in H. inversion H; subst. constructor.
  - rewrite ex_list_cons in H.
    destruct (ex st sc x) as [[st1 sc1] s1] eqn:Hx.
    destruct s1; try discriminate.
    destruct (ex_list_def ex l st1 sc1) as [[[st2 sc2] o2] s2] eqn:Hl.
    destruct o2; try discriminate.
    inversion H; subst. econstructor; [exact Hx|]. eapply IH. exact Hl.
Qed.

(* the first non-value stops the list: prefix of values, then the signal *)
Lemma ex_list_stops_at_first_signal : forall l1 x l2 st sc vs st1 sc1 st2 sc2 s,
  runs l1 st sc vs st1 sc1 ->
  ex st1 sc1 x = (st2, sc2, s) -> nonval s ->
  ex_list_def ex (l1 ++ x :: l2) st sc = (st2, sc2, Panic, s).
Proof.
  intros l1 x l2 st sc vs st1 sc1 st2 sc2 s Hr Hx Hs.
  induction Hr as [|y l st sc st1' sc1' v vs st1 sc1 Hy Hr IH].
  - cbn [app]. exact (ex_list_cons_sig _ _ _ _ _ _ _ Hx Hs).
  - cbn [app]. rewrite (ex_list_cons_val _ _ _ _ _ _ _ Hy), (IH Hx). reflexivity.
Qed.

Lemma with_list_runs : forall l st sc k vs st' sc',
  runs l st sc vs st' sc' -> with_list_def ex l st sc k = k st' sc' vs.
Proof.
  intros l st sc k vs st' sc' Hr. unfold with_list_def.
  rewrite (runs_ex_list _ _ _ _ _ _ Hr). reflexivity.
Qed.

Lemma with_list_sig : forall l st sc k st' sc' o s,
  ex_list_def ex l st sc = (st', sc', o, s) -> nonval s ->
  with_list_def ex l st sc k = (st', sc', s).
Proof.
  intros l st sc k st' sc' o s Hl Hs. unfold with_list_def. rewrite Hl.
  destruct (ex_list_shape _ _ _ _ _ _ _ Hl) as [[vs [Ho [Hs' _]]]|[Ho _]]; subst.
  - contradiction.
  - reflexivity.
Qed.

(* ---------- loops ---------- *)
Lemma loop_def_O : forall b st sc, loop_def ex b 0 st sc = (st, sc, SFuel).
Proof. reflexivity. Qed.

Lemma loop_def_S : forall b m st sc,
  loop_def ex b (S m) st sc =
  match ex st sc b with
  | (st, sc, SVal _) | (st, sc, SContinue) => loop_def ex b m st sc
  | (st, sc, SBreak) => (st, sc, SVal VVoid)
  | r => r
  end.
Proof. reflexivity. Qed.

Lemma loop_iter_next : forall b m st sc st1 sc1 s,
  ex st sc b = (st1, sc1, s) -> (s = SContinue \/ exists v, s = SVal v) ->
  loop_def ex b (S m) st sc = loop_def ex b m st1 sc1.
Proof.
  intros b m st sc st1 sc1 s Hb [Hs|[v Hs]]; subst s; rewrite loop_def_S, Hb; reflexivity.
Qed.

Lemma loop_iter_break : forall b m st sc st1 sc1,
  ex st sc b = (st1, sc1, SBreak) ->
  loop_def ex b (S m) st sc = (st1, sc1, SVal VVoid).
Proof. intros b m st sc st1 sc1 Hb. rewrite loop_def_S, Hb. reflexivity. Qed.

(* signals a loop lets through: Return, Error, Panic (and the model's Fuel) *)
Definition loop_exit (s : signal) : Prop :=
  match s with SReturn _ | SError _ | SPanic | SFuel => True | _ => False end.

Lemma loop_iter_exit : forall b m st sc st1 sc1 s,
  ex st sc b = (st1, sc1, s) -> loop_exit s ->
  loop_def ex b (S m) st sc = (st1, sc1, s).
Proof.
  intros b m st sc st1 sc1 s Hb Hs. rewrite loop_def_S, Hb.
  destruct s; simpl in Hs; try contradiction; reflexivity.
Qed.

(* every loop result comes from one body iteration: a Break (giving Void) or an exit signal *)
Lemma loop_def_result : forall b m st sc st' sc' s,
  loop_def ex b m st sc = (st', sc', s) ->
  s = SFuel \/
  exists st0 sc0 s0, ex st0 sc0 b = (st', sc', s0) /\
    ((s0 = SBreak /\ s = SVal VVoid) \/ (s0 = s /\ loop_exit s)).
Proof.
  intros b. induction m as [|m IH]; intros st sc st' sc' s H.
  - rewrite loop_def_O in H. inversion H. left. reflexivity.
  - rewrite loop_def_S in H.
    destruct (ex st sc b) as [[st1 sc1] s1] eqn:Hb.
    destruct s1.
    + exact (IH _ _ _ _ _ H).
    + inversion H; subst. right. exists st, sc, SBreak. split; [exact Hb|]. left. auto.
    + exact (IH _ _ _ _ _ H).
    + inversion H; subst. right. exists st, sc, (SReturn v). split; [exact Hb|]. right. simpl. auto.
    + inversion H; subst. right. exists st, sc, (SError e). split; [exact Hb|]. right. simpl. auto.
    + inversion H; subst. right. exists st, sc, SPanic. split; [exact Hb|]. right. simpl. auto.
    + inversion H; subst. left. reflexivity.
Qed.

Lemma loop_def_signal : forall b m st sc,
  sig (loop_def ex b m st sc) = SVal VVoid \/ loop_exit (sig (loop_def ex b m st sc)).
Proof.
  intros b m st sc.
  destruct (loop_def ex b m st sc) as [[st' sc'] s] eqn:H. unfold sig; simpl.
  destruct (loop_def_result _ _ _ _ _ _ _ H) as [Hs|[st0 [sc0 [s0 [_ [[_ Hs]|[_ Hs]]]]]]].
  - subst. right. exact I.
  - left. exact Hs.
  - right. exact Hs.
Qed.

Lemma loop_def_never_break_continue : forall b m st sc,
  sig (loop_def ex b m st sc) <> SBreak /\ sig (loop_def ex b m st sc) <> SContinue.
Proof.
  intros b m st sc. destruct (loop_def_signal b m st sc) as [H|H].
  - rewrite H. split; discriminate.
  - destruct (sig (loop_def ex b m st sc)); simpl in H; try contradiction; split; discriminate.
Qed.

Lemma loop_def_value_void : forall b m st sc st' sc' v,
  loop_def ex b m st sc = (st', sc', SVal v) -> v = VVoid.
Proof.
  intros b m st sc st' sc' v H.
  destruct (loop_def_signal b m st sc) as [Hs|Hs]; rewrite H in Hs; unfold sig in Hs; simpl in Hs.
  - inversion Hs. reflexivity.
  - contradiction.
Qed.

(* ---------- function bodies and calls ---------- *)
Lemma run_body_lang : forall c body st sc, c_body c = BLang body ->
  run_body_def ex c st sc =
  match ex_list_def ex body st sc with
  | (st, sc, Ok _, _) => (st, sc, SVal VVoid)
  | (st, sc, _, SReturn v) => (st, sc, SVal v)
  | (st, sc, _, SError e) => (st, sc, SError e)
  | (st, sc, _, SBreak) | (st, sc, _, SContinue) => (st, sc, SPanic)
  | (st, sc, _, s) => (st, sc, s)
  end.
Proof. intros c body st sc Hc. unfold run_body_def. rewrite Hc. reflexivity. Qed.

(* what a function body may yield: a value, an error, a panic (or Fuel) *)
Definition body_exit (s : signal) : Prop :=
  match s with SVal _ | SError _ | SPanic | SFuel => True | _ => False end.

Lemma run_body_signal : forall c st sc, body_exit (sig (run_body_def ex c st sc)).
Proof.
  intros c st sc. unfold run_body_def.
  destruct (c_body c) as [body|id].
  - destruct (ex_list_def ex body st sc) as [[[st1 sc1] o] s].
    destruct o; destruct s; exact I.
  - destruct (scopes_get n_variable sc) as [v|]; [|exact I].
    destruct (len_exec v); exact I.
Qed.

Lemma run_body_completes : forall c body st sc st' sc' vs s,
  c_body c = BLang body ->
  ex_list_def ex body st sc = (st', sc', Ok vs, s) ->
  run_body_def ex c st sc = (st', sc', SVal VVoid).
Proof.
  intros c body st sc st' sc' vs s Hc Hl. rewrite (run_body_lang _ _ _ _ Hc), Hl. reflexivity.
Qed.

Lemma run_body_signal_cases : forall c body st sc st' sc' o s,
  c_body c = BLang body ->
  ex_list_def ex body st sc = (st', sc', o, s) -> nonval s ->
  run_body_def ex c st sc =
  (st', sc', match s with
             | SReturn v => SVal v
             | SBreak | SContinue => SPanic
             | s => s
             end).
Proof.
  intros c body st sc st' sc' o s Hc Hl Hs. rewrite (run_body_lang _ _ _ _ Hc), Hl.
  destruct (ex_list_shape _ _ _ _ _ _ _ Hl) as [[vs [Ho [Hs' _]]]|[Ho _]]; subst.
  - contradiction.
  - destruct s; simpl in Hs; try contradiction; reflexivity.
Qed.

Lemma call_def_some : forall fid args st sc c,
  nth_error (s_funs st) fid = Some c ->
  call_def ex fid args st sc =
  match run_body_def ex c (log_event st (EvCall fid args)) [frame_def fid c args] with
  | (st, _, s) => (st, sc, s)
  end.
Proof. intros fid args st sc c Hc. unfold call_def. rewrite Hc. reflexivity. Qed.

Lemma call_def_none : forall fid args st sc,
  nth_error (s_funs st) fid = None -> call_def ex fid args st sc = (st, sc, SPanic).
Proof. intros fid args st sc Hc. unfold call_def. rewrite Hc. reflexivity. Qed.

Lemma call_def_scs : forall fid args st sc, scs (call_def ex fid args st sc) = sc.
Proof.
  intros fid args st sc. unfold call_def.
  destruct (nth_error (s_funs st) fid) as [c|]; [|reflexivity].
  destruct (run_body_def ex c (log_event st (EvCall fid args)) [frame_def fid c args]) as [[st1 sc1] s].
  reflexivity.
Qed.

Lemma call_def_signal : forall fid args st sc, body_exit (sig (call_def ex fid args st sc)).
Proof.
  intros fid args st sc. unfold call_def.
  destruct (nth_error (s_funs st) fid) as [c|]; [|exact I].
  pose proof (run_body_signal c (log_event st (EvCall fid args)) [frame_def fid c args]) as H.
  destruct (run_body_def ex c (log_event st (EvCall fid args)) [frame_def fid c args]) as [[st1 sc1] s].
  exact H.
Qed.

Lemma call_v_def_scs : forall f args st sc, scs (call_v_def ex f args st sc) = sc.
Proof. intros f args st sc. destruct f; try reflexivity. apply call_def_scs. Qed.

Lemma call_v_def_signal : forall f args st sc, body_exit (sig (call_v_def ex f args st sc)).
Proof. intros f args st sc. destruct f; try exact I. apply call_def_signal. Qed.

Lemma call_def_return : forall fid args st sc c body st' sc' o v,
  nth_error (s_funs st) fid = Some c -> c_body c = BLang body ->
  ex_list_def ex body (log_event st (EvCall fid args)) [frame_def fid c args] = (st', sc', o, SReturn v) ->
  call_def ex fid args st sc = (st', sc, SVal v).
Proof.
  intros fid args st sc c body st' sc' o v Hf Hc Hl.
  rewrite (call_def_some _ _ _ _ _ Hf), (run_body_signal_cases _ _ _ _ _ _ _ _ Hc Hl I). reflexivity.
Qed.

Lemma call_def_completes : forall fid args st sc c body st' sc' vs,
  nth_error (s_funs st) fid = Some c -> c_body c = BLang body ->
  runs body (log_event st (EvCall fid args)) [frame_def fid c args] vs st' sc' ->
  call_def ex fid args st sc = (st', sc, SVal VVoid).
Proof.
  intros fid args st sc c body st' sc' vs Hf Hc Hr.
  rewrite (call_def_some _ _ _ _ _ Hf), (run_body_completes _ _ _ _ _ _ _ _ Hc (runs_ex_list _ _ _ _ _ _ Hr)).
  reflexivity.
Qed.

Lemma call_def_break_continue_panics : forall fid args st sc c body st' sc' o s,
  nth_error (s_funs st) fid = Some c -> c_body c = BLang body ->
  ex_list_def ex body (log_event st (EvCall fid args)) [frame_def fid c args] = (st', sc', o, s) ->
  s = SBreak \/ s = SContinue ->
  call_def ex fid args st sc = (st', sc, SPanic).
Proof.
  intros fid args st sc c body st' sc' o s Hf Hc Hl Hs.
  rewrite (call_def_some _ _ _ _ _ Hf).
  assert (Hn : nonval s) by (destruct Hs; subst; exact I).
  rewrite (run_body_signal_cases _ _ _ _ _ _ _ _ Hc Hl Hn).
  destruct Hs; subst; reflexivity.
Qed.

Lemma call_def_error_propagates : forall fid args st sc c body st' sc' o s,
  nth_error (s_funs st) fid = Some c -> c_body c = BLang body ->
  ex_list_def ex body (log_event st (EvCall fid args)) [frame_def fid c args] = (st', sc', o, s) ->
  (s = SPanic \/ s = SFuel \/ exists e, s = SError e) ->
  call_def ex fid args st sc = (st', sc, s).
Proof.
  intros fid args st sc c body st' sc' o s Hf Hc Hl Hs.
  rewrite (call_def_some _ _ _ _ _ Hf).
  assert (Hn : nonval s) by (destruct Hs as [Hs|[Hs|[e Hs]]]; subst; exact I).
  rewrite (run_body_signal_cases _ _ _ _ _ _ _ _ Hc Hl Hn).
  destruct Hs as [Hs|[Hs|[e Hs]]]; subst; reflexivity.
Qed.

(* ---------- match ---------- *)
Lemma match_arms_nil : forall v st sc, match_arms_def ex v [] st sc = (st, sc, SPanic).
Proof. reflexivity. Qed.

Lemma match_arms_other : forall v b rest st sc,
  match_arms_def ex v (ArmOther b :: rest) st sc = ex st sc b.
Proof. reflexivity. Qed.

Lemma match_arms_type : forall v nm t b rest st sc,
  match_arms_def ex v (ArmType nm t b :: rest) st sc =
  if matches (as_type v) t then
    match ex st ([(nm, v)] :: sc) b with (st2, _, s) => (st2, sc, s) end
  else match_arms_def ex v rest st sc.
Proof. reflexivity. Qed.

Lemma match_arms_value : forall v cands b rest st sc,
  match_arms_def ex v (ArmValue cands b :: rest) st sc =
  match_cands_def ex v b (match_arms_def ex v rest) cands st sc.
Proof. reflexivity. Qed.

Lemma match_cands_nil : forall v b k st sc, match_cands_def ex v b k [] st sc = k st sc.
Proof. reflexivity. Qed.

Lemma match_cands_cons : forall v b k c cs st sc,
  match_cands_def ex v b k (c :: cs) st sc =
  match ex st sc c with
  | (st, sc, SVal w) => if val_eqb w v then ex st sc b else match_cands_def ex v b k cs st sc
  | r => r
  end.
Proof. reflexivity. Qed.

Lemma match_cands_hit : forall v b k c cs st sc st1 sc1 w,
  ex st sc c = (st1, sc1, SVal w) -> val_eqb w v = true ->
  match_cands_def ex v b k (c :: cs) st sc = ex st1 sc1 b.
Proof. intros v b k c cs st sc st1 sc1 w Hc Hw. rewrite match_cands_cons, Hc, Hw. reflexivity. Qed.

Lemma match_cands_miss : forall v b k c cs st sc st1 sc1 w,
  ex st sc c = (st1, sc1, SVal w) -> val_eqb w v = false ->
  match_cands_def ex v b k (c :: cs) st sc = match_cands_def ex v b k cs st1 sc1.
Proof. intros v b k c cs st sc st1 sc1 w Hc Hw. rewrite match_cands_cons, Hc, Hw. reflexivity. Qed.

Lemma match_cands_sig : forall v b k c cs st sc st1 sc1 s,
  ex st sc c = (st1, sc1, s) -> nonval s ->
  match_cands_def ex v b k (c :: cs) st sc = (st1, sc1, s).
Proof.
  intros v b k c cs st sc st1 sc1 s Hc Hs. rewrite match_cands_cons, Hc.
  destruct s; simpl in Hs; try contradiction; reflexivity.
Qed.

(* candidates in order until the first equal one: [pre_] all differ, then [c] hits *)
Inductive cands_miss (v : value) : list instr -> store -> scopes -> store -> scopes -> Prop :=
| cands_miss_nil : forall st sc, cands_miss v [] st sc st sc
| cands_miss_cons : forall c cs st sc st1 sc1 w st2 sc2,
    ex st sc c = (st1, sc1, SVal w) -> val_eqb w v = false ->
    cands_miss v cs st1 sc1 st2 sc2 ->
    cands_miss v (c :: cs) st sc st2 sc2.

Lemma match_cands_first_hit : forall v b k pre_ c post st sc st1 sc1 st2 sc2 w,
  cands_miss v pre_ st sc st1 sc1 ->
  ex st1 sc1 c = (st2, sc2, SVal w) -> val_eqb w v = true ->
  match_cands_def ex v b k (pre_ ++ c :: post) st sc = ex st2 sc2 b.
Proof.
  intros v b k pre_ c post st sc st1 sc1 st2 sc2 w Hm Hc Hw.
  induction Hm as [|c0 cs st sc st1' sc1' w0 st1 sc1 Hc0 Hw0 Hm IH]; cbn [app].
  - exact (match_cands_hit _ _ _ _ _ _ _ _ _ _ Hc Hw).
  - rewrite (match_cands_miss _ _ _ _ _ _ _ _ _ _ Hc0 Hw0). exact (IH Hc).
Qed.

Lemma match_cands_all_miss : forall v b k cs st sc st1 sc1,
  cands_miss v cs st sc st1 sc1 ->
  match_cands_def ex v b k cs st sc = k st1 sc1.
Proof.
  intros v b k cs st sc st1 sc1 Hm.
  induction Hm as [|c0 cs st sc st1' sc1' w0 st1 sc1 Hc0 Hw0 Hm IH].
  - reflexivity.
  - rewrite (match_cands_miss _ _ _ _ _ _ _ _ _ _ Hc0 Hw0). exact IH.
Qed.

(* ---------- struct literals, optional slice bounds ---------- *)
Lemma struct_def_nil : forall st sc acc, struct_def ex [] st sc acc = (st, sc, SVal (VStruct acc)).
Proof. reflexivity. Qed.

Lemma struct_def_cons : forall k x l st sc acc,
  struct_def ex ((k, x) :: l) st sc acc =
  with_val_def ex x st sc (fun st sc v => struct_def ex l st sc (struct_val_insert k v acc)).
Proof. reflexivity. Qed.

Lemma struct_def_cons_val : forall k x l st sc acc st1 sc1 v,
  ex st sc x = (st1, sc1, SVal v) ->
  struct_def ex ((k, x) :: l) st sc acc = struct_def ex l st1 sc1 (struct_val_insert k v acc).
Proof. intros k x l st sc acc st1 sc1 v Hx. rewrite struct_def_cons. exact (with_val_val _ _ _ _ _ _ _ Hx). Qed.

Lemma struct_def_cons_sig : forall k x l st sc acc st1 sc1 s,
  ex st sc x = (st1, sc1, s) -> nonval s ->
  struct_def ex ((k, x) :: l) st sc acc = (st1, sc1, s).
Proof. intros k x l st sc acc st1 sc1 s Hx Hs. rewrite struct_def_cons. exact (with_val_sig _ _ _ _ _ _ _ Hx Hs). Qed.

Lemma opt_def_none : forall st sc k, opt_def ex None st sc k = k st sc None.
Proof. reflexivity. Qed.

Lemma opt_def_int : forall x st sc k st1 sc1 z,
  ex st sc x = (st1, sc1, SVal (VInt z)) ->
  opt_def ex (Some x) st sc k = k st1 sc1 (Some (VInt z)).
Proof. intros x st sc k st1 sc1 z Hx. unfold opt_def. rewrite (with_val_val _ _ _ _ _ _ _ Hx). reflexivity. Qed.

Lemma opt_def_sig : forall x st sc k st1 sc1 s,
  ex st sc x = (st1, sc1, s) -> nonval s ->
  opt_def ex (Some x) st sc k = (st1, sc1, s).
Proof. intros x st sc k st1 sc1 s Hx Hs. unfold opt_def. exact (with_val_sig _ _ _ _ _ _ _ Hx Hs). Qed.

End Generic.

(* ================================================================= *)
(* C12 — control flow                                                 *)
(* ================================================================= *)
Section ControlFlow.
Variable powf : fbits -> fbits -> fbits.
Variable pre : prelude.
Notation E := (exec powf pre).

(* --- 1. if/else --- *)
Lemma if_true : forall n st sc c t f st1 sc1,
  E n st sc c = (st1, sc1, SVal (VBool true)) ->
  E (S n) st sc (IIfElse c t f) = E n st1 sc1 t.
Proof. intros n st sc c t f st1 sc1 Hc. rewrite exec_S_IIfElse, (with_val_val _ _ _ _ _ _ _ _ Hc). reflexivity. Qed.

Lemma if_false : forall n st sc c t f st1 sc1,
  E n st sc c = (st1, sc1, SVal (VBool false)) ->
  E (S n) st sc (IIfElse c t f) = E n st1 sc1 f.
Proof. intros n st sc c t f st1 sc1 Hc. rewrite exec_S_IIfElse, (with_val_val _ _ _ _ _ _ _ _ Hc). reflexivity. Qed.

Lemma if_non_bool_condition_panics : forall n st sc c t f st1 sc1 v,
  E n st sc c = (st1, sc1, SVal v) -> (forall b, v <> VBool b) ->
  E (S n) st sc (IIfElse c t f) = (st1, sc1, SPanic).
Proof.
  intros n st sc c t f st1 sc1 v Hc Hv. rewrite exec_S_IIfElse, (with_val_val _ _ _ _ _ _ _ _ Hc).
  destruct v; try reflexivity. exfalso. exact (Hv b eq_refl).
Qed.

Lemma if_cond_signal : forall n st sc c t f st1 sc1 s,
  E n st sc c = (st1, sc1, s) -> nonval s ->
  E (S n) st sc (IIfElse c t f) = (st1, sc1, s).
Proof. intros n st sc c t f st1 sc1 s Hc Hs. rewrite exec_S_IIfElse. exact (with_val_sig _ _ _ _ _ _ _ _ Hc Hs). Qed.

(* --- 2. loops --- *)
Lemma loop_unfold : forall n st sc b, E (S n) st sc (ILoop b) = loop_def (E n) b n st sc.
Proof. exact (exec_S_ILoop powf pre). Qed.

Lemma loop_never_yields_break_continue : forall n st sc b,
  sig (E n st sc (ILoop b)) <> SBreak /\ sig (E n st sc (ILoop b)) <> SContinue.
Proof.
  intros [|n] st sc b.
  - rewrite exec_O. split; discriminate.
  - rewrite loop_unfold. apply loop_def_never_break_continue.
Qed.

Lemma loop_value_void : forall n st sc b st' sc' v,
  E n st sc (ILoop b) = (st', sc', SVal v) -> v = VVoid.
Proof.
  intros [|n] st sc b st' sc' v H.
  - rewrite exec_O in H. discriminate.
  - rewrite loop_unfold in H. exact (loop_def_value_void _ _ _ _ _ _ _ _ H).
Qed.

(* the only signals a loop can yield *)
Lemma loop_signal : forall n st sc b,
  sig (E n st sc (ILoop b)) = SVal VVoid \/ loop_exit (sig (E n st sc (ILoop b))).
Proof.
  intros [|n] st sc b.
  - rewrite exec_O. right. exact I.
  - rewrite loop_unfold. apply loop_def_signal.
Qed.

(* first iteration *)
Lemma loop_first_exit : forall n st sc b st1 sc1 s,
  E (S n) st sc b = (st1, sc1, s) -> loop_exit s ->
  E (S (S n)) st sc (ILoop b) = (st1, sc1, s).
Proof. intros n st sc b st1 sc1 s Hb Hs. rewrite loop_unfold. exact (loop_iter_exit _ _ _ _ _ _ _ _ Hb Hs). Qed.

Lemma loop_propagates_return : forall n st sc b st1 sc1 v,
  E (S n) st sc b = (st1, sc1, SReturn v) ->
  E (S (S n)) st sc (ILoop b) = (st1, sc1, SReturn v).
Proof. intros n st sc b st1 sc1 v Hb. exact (loop_first_exit _ _ _ _ _ _ _ Hb I). Qed.

Lemma loop_propagates_error : forall n st sc b st1 sc1 e,
  E (S n) st sc b = (st1, sc1, SError e) ->
  E (S (S n)) st sc (ILoop b) = (st1, sc1, SError e).
Proof. intros n st sc b st1 sc1 e Hb. exact (loop_first_exit _ _ _ _ _ _ _ Hb I). Qed.

Lemma loop_propagates_panic : forall n st sc b st1 sc1,
  E (S n) st sc b = (st1, sc1, SPanic) ->
  E (S (S n)) st sc (ILoop b) = (st1, sc1, SPanic).
Proof. intros n st sc b st1 sc1 Hb. exact (loop_first_exit _ _ _ _ _ _ _ Hb I). Qed.

Lemma loop_first_break : forall n st sc b st1 sc1,
  E (S n) st sc b = (st1, sc1, SBreak) ->
  E (S (S n)) st sc (ILoop b) = (st1, sc1, SVal VVoid).
Proof. intros n st sc b st1 sc1 Hb. rewrite loop_unfold. exact (loop_iter_break _ _ _ _ _ _ _ Hb). Qed.

(* any iteration: the loop result is that of some body run (Break becomes Void) *)
Lemma loop_result_from_body : forall n st sc b st' sc' s,
  E (S n) st sc (ILoop b) = (st', sc', s) ->
  s = SFuel \/
  exists st0 sc0 s0, E n st0 sc0 b = (st', sc', s0) /\
    ((s0 = SBreak /\ s = SVal VVoid) \/ (s0 = s /\ loop_exit s)).
Proof. intros n st sc b st' sc' s H. rewrite loop_unfold in H. exact (loop_def_result _ _ _ _ _ _ _ _ H). Qed.

(* --- 3./4. blocks and the other compound statements --- *)
Lemma block_propagates : forall n st sc body st' sc' o s,
  ex_list_def (E n) body st ([] :: sc) = (st', sc', o, s) -> nonval s ->
  E (S n) st sc (IBlock body) = (st', sc, s).
Proof.
  intros n st sc body st' sc' o s Hl Hs. rewrite exec_S_IBlock, Hl.
  destruct (ex_list_shape _ _ _ _ _ _ _ _ Hl) as [[vs [Ho [Hs' _]]]|[Ho _]]; subst.
  - contradiction.
  - reflexivity.
Qed.

(* in terms of the statements: a prefix of values, then the signal *)
Lemma block_stops_at_first_signal : forall n st sc l1 x l2 vs st1 sc1 st2 sc2 s,
  runs (E n) l1 st ([] :: sc) vs st1 sc1 ->
  E n st1 sc1 x = (st2, sc2, s) -> nonval s ->
  E (S n) st sc (IBlock (l1 ++ x :: l2)) = (st2, sc, s).
Proof.
  intros n st sc l1 x l2 vs st1 sc1 st2 sc2 s Hr Hx Hs.
  exact (block_propagates _ _ _ _ _ _ _ _ (ex_list_stops_at_first_signal _ _ _ _ _ _ _ _ _ _ _ _ Hr Hx Hs) Hs).
Qed.

Lemma block_value_last : forall n st sc body vs st' sc',
  runs (E n) body st ([] :: sc) vs st' sc' ->
  E (S n) st sc (IBlock body) = (st', sc, SVal (last vs VVoid)).
Proof.
  intros n st sc body vs st' sc' Hr. rewrite exec_S_IBlock, (runs_ex_list _ _ _ _ _ _ _ Hr). reflexivity.
Qed.

Lemma set_propagates : forall n st sc nm x st1 sc1 s,
  E n st sc x = (st1, sc1, s) -> nonval s ->
  E (S n) st sc (ISet nm x) = (st1, sc1, s).
Proof. intros n st sc nm x st1 sc1 s Hx Hs. rewrite exec_S_ISet. exact (with_val_sig _ _ _ _ _ _ _ _ Hx Hs). Qed.

Lemma destruct_propagates : forall n st sc ids x st1 sc1 s,
  E n st sc x = (st1, sc1, s) -> nonval s ->
  E (S n) st sc (IDestruct ids x) = (st1, sc1, s).
Proof. intros n st sc ids x st1 sc1 s Hx Hs. rewrite exec_S_IDestruct. exact (with_val_sig _ _ _ _ _ _ _ _ Hx Hs). Qed.

Lemma if_branch_propagates : forall n st sc c t f b st1 sc1 st2 sc2 s,
  E n st sc c = (st1, sc1, SVal (VBool b)) ->
  E n st1 sc1 (if b then t else f) = (st2, sc2, s) ->
  E (S n) st sc (IIfElse c t f) = (st2, sc2, s).
Proof.
  intros n st sc c t f [|] st1 sc1 st2 sc2 s Hc Hb.
  - rewrite (if_true _ _ _ _ _ _ _ _ Hc). exact Hb.
  - rewrite (if_false _ _ _ _ _ _ _ _ Hc). exact Hb.
Qed.

(* --- 7. if-set --- *)
Lemma ifset_match : forall n st sc nm t x ifm els st1 sc1 v,
  E n st sc x = (st1, sc1, SVal v) -> matches (as_type v) t = true ->
  E (S n) st sc (ISetIfElse nm t x ifm els) =
  let '(st2, _, s) := E n st1 ([(nm, v)] :: sc1) ifm in (st2, sc1, s).
Proof.
  intros n st sc nm t x ifm els st1 sc1 v Hx Hm.
  rewrite exec_S_ISetIfElse, (with_val_val _ _ _ _ _ _ _ _ Hx), Hm. reflexivity.
Qed.

Lemma ifset_else : forall n st sc nm t x ifm els st1 sc1 v,
  E n st sc x = (st1, sc1, SVal v) -> matches (as_type v) t = false ->
  E (S n) st sc (ISetIfElse nm t x ifm els) = E n st1 sc1 els.
Proof.
  intros n st sc nm t x ifm els st1 sc1 v Hx Hm.
  rewrite exec_S_ISetIfElse, (with_val_val _ _ _ _ _ _ _ _ Hx), Hm. reflexivity.
Qed.

Lemma ifset_by_tag : forall n st sc nm t x ifm els st1 sc1 v,
  E n st sc x = (st1, sc1, SVal v) ->
  E (S n) st sc (ISetIfElse nm t x ifm els) =
  if matches (as_type v) t
  then let '(st2, _, s) := E n st1 ([(nm, v)] :: sc1) ifm in (st2, sc1, s)
  else E n st1 sc1 els.
Proof.
  intros n st sc nm t x ifm els st1 sc1 v Hx.
  destruct (matches (as_type v) t) eqn:Hm.
  - exact (ifset_match _ _ _ _ _ _ _ _ _ _ _ Hx Hm).
  - exact (ifset_else _ _ _ _ _ _ _ _ _ _ _ Hx Hm).
Qed.

Lemma ifset_cond_signal : forall n st sc nm t x ifm els st1 sc1 s,
  E n st sc x = (st1, sc1, s) -> nonval s ->
  E (S n) st sc (ISetIfElse nm t x ifm els) = (st1, sc1, s).
Proof. intros n st sc nm t x ifm els st1 sc1 s Hx Hs. rewrite exec_S_ISetIfElse. exact (with_val_sig _ _ _ _ _ _ _ _ Hx Hs). Qed.

Lemma ifset_branch_propagates : forall n st sc nm t x ifm els st1 sc1 v st2 sc2 s,
  E n st sc x = (st1, sc1, SVal v) -> matches (as_type v) t = true ->
  E n st1 ([(nm, v)] :: sc1) ifm = (st2, sc2, s) ->
  E (S n) st sc (ISetIfElse nm t x ifm els) = (st2, sc1, s).
Proof.
  intros n st sc nm t x ifm els st1 sc1 v st2 sc2 s Hx Hm Hb.
  rewrite (ifset_match _ _ _ _ _ _ _ _ _ _ _ Hx Hm), Hb. reflexivity.
Qed.

(* --- 6. match --- *)
Lemma match_unfold : forall n st sc x arms st1 sc1 v,
  E n st sc x = (st1, sc1, SVal v) ->
  E (S n) st sc (IMatch x arms) = match_arms_def (E n) v arms st1 sc1.
Proof. intros n st sc x arms st1 sc1 v Hx. rewrite exec_S_IMatch. exact (with_val_val _ _ _ _ _ _ _ _ Hx). Qed.

Lemma match_scrutinee_signal : forall n st sc x arms st1 sc1 s,
  E n st sc x = (st1, sc1, s) -> nonval s ->
  E (S n) st sc (IMatch x arms) = (st1, sc1, s).
Proof. intros n st sc x arms st1 sc1 s Hx Hs. rewrite exec_S_IMatch. exact (with_val_sig _ _ _ _ _ _ _ _ Hx Hs). Qed.

Lemma match_type_arm_selected : forall n st sc x nm t b rest st1 sc1 v,
  E n st sc x = (st1, sc1, SVal v) -> matches (as_type v) t = true ->
  E (S n) st sc (IMatch x (ArmType nm t b :: rest)) =
  let '(st2, _, s) := E n st1 ([(nm, v)] :: sc1) b in (st2, sc1, s).
Proof.
  intros n st sc x nm t b rest st1 sc1 v Hx Hm.
  rewrite (match_unfold _ _ _ _ _ _ _ _ Hx), match_arms_type, Hm. reflexivity.
Qed.

Lemma match_type_arm_skipped : forall n st sc x nm t b rest st1 sc1 v,
  E n st sc x = (st1, sc1, SVal v) -> matches (as_type v) t = false ->
  E (S n) st sc (IMatch x (ArmType nm t b :: rest)) = match_arms_def (E n) v rest st1 sc1.
Proof.
  intros n st sc x nm t b rest st1 sc1 v Hx Hm.
  rewrite (match_unfold _ _ _ _ _ _ _ _ Hx), match_arms_type, Hm. reflexivity.
Qed.

Lemma match_other_arm : forall n st sc x b rest st1 sc1 v,
  E n st sc x = (st1, sc1, SVal v) ->
  E (S n) st sc (IMatch x (ArmOther b :: rest)) = E n st1 sc1 b.
Proof. intros n st sc x b rest st1 sc1 v Hx. rewrite (match_unfold _ _ _ _ _ _ _ _ Hx). reflexivity. Qed.

Lemma match_no_arm_panics : forall n st sc x st1 sc1 v,
  E n st sc x = (st1, sc1, SVal v) ->
  E (S n) st sc (IMatch x []) = (st1, sc1, SPanic).
Proof. intros n st sc x st1 sc1 v Hx. rewrite (match_unfold _ _ _ _ _ _ _ _ Hx). reflexivity. Qed.

(* value arm: candidates in order; the first one equal to the scrutinee selects the arm *)
Lemma match_value_arm : forall n st sc x pre_ c post b rest st1 sc1 v st2 sc2 st3 sc3 w,
  E n st sc x = (st1, sc1, SVal v) ->
  cands_miss (E n) v pre_ st1 sc1 st2 sc2 ->
  E n st2 sc2 c = (st3, sc3, SVal w) -> val_eqb w v = true ->
  E (S n) st sc (IMatch x (ArmValue (pre_ ++ c :: post) b :: rest)) = E n st3 sc3 b.
Proof.
  intros n st sc x pre_ c post b rest st1 sc1 v st2 sc2 st3 sc3 w Hx Hm Hc Hw.
  rewrite (match_unfold _ _ _ _ _ _ _ _ Hx), match_arms_value.
  exact (match_cands_first_hit _ _ _ _ _ _ _ _ _ _ _ _ _ _ Hm Hc Hw).
Qed.

Lemma match_value_arm_skipped : forall n st sc x cands b rest st1 sc1 v st2 sc2,
  E n st sc x = (st1, sc1, SVal v) ->
  cands_miss (E n) v cands st1 sc1 st2 sc2 ->
  E (S n) st sc (IMatch x (ArmValue cands b :: rest)) = match_arms_def (E n) v rest st2 sc2.
Proof.
  intros n st sc x cands b rest st1 sc1 v st2 sc2 Hx Hm.
  rewrite (match_unfold _ _ _ _ _ _ _ _ Hx), match_arms_value.
  exact (match_cands_all_miss _ _ _ _ _ _ _ _ _ Hm).
Qed.

Lemma match_value_arm_candidate_signal : forall n st sc x pre_ c post b rest st1 sc1 v st2 sc2 st3 sc3 s,
  E n st sc x = (st1, sc1, SVal v) ->
  cands_miss (E n) v pre_ st1 sc1 st2 sc2 ->
  E n st2 sc2 c = (st3, sc3, s) -> nonval s ->
  E (S n) st sc (IMatch x (ArmValue (pre_ ++ c :: post) b :: rest)) = (st3, sc3, s).
Proof.
  intros n st sc x pre_ c post b rest st1 sc1 v st2 sc2 st3 sc3 s Hx Hm Hc Hs.
  rewrite (match_unfold _ _ _ _ _ _ _ _ Hx), match_arms_value. clear Hx.
  induction Hm as [|c0 cs st1 sc1 st1' sc1' w0 st2 sc2 Hc0 Hw0 Hm IH]; cbn [app].
  - exact (match_cands_sig _ _ _ _ _ _ _ _ _ _ _ Hc Hs).
  - rewrite (match_cands_miss _ _ _ _ _ _ _ _ _ _ _ Hc0 Hw0). apply IH; assumption.
Qed.

Lemma match_arm_body_propagates : forall n st sc x nm t b rest st1 sc1 v st2 sc2 s,
  E n st sc x = (st1, sc1, SVal v) -> matches (as_type v) t = true ->
  E n st1 ([(nm, v)] :: sc1) b = (st2, sc2, s) ->
  E (S n) st sc (IMatch x (ArmType nm t b :: rest)) = (st2, sc1, s).
Proof.
  intros n st sc x nm t b rest st1 sc1 v st2 sc2 s Hx Hm Hb.
  rewrite (match_type_arm_selected _ _ _ _ _ _ _ _ _ _ _ Hx Hm), Hb. reflexivity.
Qed.

(* --- 5. function calls --- *)
Lemma call_unfold : forall n st sc fid ps r args,
  E (S (S n)) st sc (IBin FunctionCall (IVar (VFun fid ps r)) (IVar (VTup args))) =
  call_def (E (S n)) fid args st sc.
Proof.
  intros n st sc fid ps r args.
  rewrite exec_S_IBin by discriminate.
  rewrite (with_val_val _ _ _ _ _ _ _ _ (exec_S_IVar powf pre n st sc _)).
  rewrite (with_val_val _ _ _ _ _ _ _ _ (exec_S_IVar powf pre n st sc _)).
  reflexivity.
Qed.

Lemma call_low_fuel : forall st sc f a,
  E 1 st sc (IBin FunctionCall f a) = (st, sc, SFuel).
Proof.
  intros st sc f a. rewrite exec_S_IBin by discriminate.
  exact (with_val_sig _ _ _ _ _ _ _ _ (exec_O powf pre st sc f) I).
Qed.

Lemma call_never_yields_return_break_continue : forall n st sc fid ps r args,
  let s := sig (E n st sc (IBin FunctionCall (IVar (VFun fid ps r)) (IVar (VTup args)))) in
  (forall v, s <> SReturn v) /\ s <> SBreak /\ s <> SContinue.
Proof.
  intros [|[|n]] st sc fid ps r args; cbv zeta.
  - rewrite exec_O. repeat split; try intros v; discriminate.
  - rewrite call_low_fuel. repeat split; try intros v; discriminate.
  - rewrite call_unfold.
    pose proof (call_def_signal (E (S n)) fid args st sc) as H.
    destruct (sig (call_def (E (S n)) fid args st sc)); simpl in H; try contradiction;
      repeat split; try intros v0; discriminate.
Qed.

(* stronger: whatever [f] and [a] are, a call expression never yields Return/Break/Continue
   that did not come from evaluating [f] or [a] themselves *)
Lemma call_return_becomes_value : forall n st sc fid ps r args c body st' sc' o v,
  nth_error (s_funs st) fid = Some c -> c_body c = BLang body ->
  ex_list_def (E (S n)) body (log_event st (EvCall fid args)) [frame_def fid c args] = (st', sc', o, SReturn v) ->
  E (S (S n)) st sc (IBin FunctionCall (IVar (VFun fid ps r)) (IVar (VTup args))) = (st', sc, SVal v).
Proof.
  intros n st sc fid ps r args c body st' sc' o v Hf Hc Hl.
  rewrite call_unfold. exact (call_def_return _ _ _ _ _ _ _ _ _ _ _ Hf Hc Hl).
Qed.

Lemma call_completes_void : forall n st sc fid ps r args c body st' sc' vs,
  nth_error (s_funs st) fid = Some c -> c_body c = BLang body ->
  runs (E (S n)) body (log_event st (EvCall fid args)) [frame_def fid c args] vs st' sc' ->
  E (S (S n)) st sc (IBin FunctionCall (IVar (VFun fid ps r)) (IVar (VTup args))) = (st', sc, SVal VVoid).
Proof.
  intros n st sc fid ps r args c body st' sc' vs Hf Hc Hr.
  rewrite call_unfold. exact (call_def_completes _ _ _ _ _ _ _ _ _ _ Hf Hc Hr).
Qed.

Lemma call_break_continue_panics : forall n st sc fid ps r args c body st' sc' o s,
  nth_error (s_funs st) fid = Some c -> c_body c = BLang body ->
  ex_list_def (E (S n)) body (log_event st (EvCall fid args)) [frame_def fid c args] = (st', sc', o, s) ->
  s = SBreak \/ s = SContinue ->
  E (S (S n)) st sc (IBin FunctionCall (IVar (VFun fid ps r)) (IVar (VTup args))) = (st', sc, SPanic).
Proof.
  intros n st sc fid ps r args c body st' sc' o s Hf Hc Hl Hs.
  rewrite call_unfold. exact (call_def_break_continue_panics _ _ _ _ _ _ _ _ _ _ _ Hf Hc Hl Hs).
Qed.

Lemma call_error_propagates : forall n st sc fid ps r args c body st' sc' o s,
  nth_error (s_funs st) fid = Some c -> c_body c = BLang body ->
  ex_list_def (E (S n)) body (log_event st (EvCall fid args)) [frame_def fid c args] = (st', sc', o, s) ->
  (s = SPanic \/ s = SFuel \/ exists e, s = SError e) ->
  E (S (S n)) st sc (IBin FunctionCall (IVar (VFun fid ps r)) (IVar (VTup args))) = (st', sc, s).
Proof.
  intros n st sc fid ps r args c body st' sc' o s Hf Hc Hl Hs.
  rewrite call_unfold. exact (call_def_error_propagates _ _ _ _ _ _ _ _ _ _ _ Hf Hc Hl Hs).
Qed.

Lemma call_unknown_function_panics : forall n st sc fid ps r args,
  nth_error (s_funs st) fid = None ->
  E (S (S n)) st sc (IBin FunctionCall (IVar (VFun fid ps r)) (IVar (VTup args))) = (st, sc, SPanic).
Proof. intros n st sc fid ps r args Hf. rewrite call_unfold. exact (call_def_none _ _ _ _ _ Hf). Qed.

(* --- 8. while c b  ==  loop { if c b else break } --- *)
Lemma while_body_false : forall n st sc c b st1 sc1,
  E n st sc c = (st1, sc1, SVal (VBool false)) ->
  E (S n) st sc (IIfElse c b IBreak) = (st1, sc1, SBreak).
Proof.
  intros [|n] st sc c b st1 sc1 Hc.
  - rewrite exec_O in Hc. discriminate.
  - rewrite (if_false _ _ _ _ _ _ _ _ Hc). apply exec_S_IBreak.
Qed.

Lemma while_false_stops : forall n st sc c b st1 sc1,
  E n st sc c = (st1, sc1, SVal (VBool false)) ->
  E (S (S n)) st sc (ILoop (IIfElse c b IBreak)) = (st1, sc1, SVal VVoid).
Proof.
  intros n st sc c b st1 sc1 Hc. rewrite loop_unfold.
  exact (loop_iter_break _ _ _ _ _ _ _ (while_body_false _ _ _ _ _ _ _ Hc)).
Qed.

(* one iteration with a true condition: the body runs, then the loop goes on from its state *)
Lemma while_true_unroll : forall n st sc c b st1 sc1 st2 sc2 s,
  E n st sc c = (st1, sc1, SVal (VBool true)) ->
  E n st1 sc1 b = (st2, sc2, s) -> (s = SContinue \/ exists v, s = SVal v) ->
  E (S (S n)) st sc (ILoop (IIfElse c b IBreak)) =
  loop_def (E (S n)) (IIfElse c b IBreak) n st2 sc2.
Proof.
  intros n st sc c b st1 sc1 st2 sc2 s Hc Hb Hs. rewrite loop_unfold.
  apply (loop_iter_next _ _ _ _ _ _ _ s); [|exact Hs].
  rewrite (if_true _ _ _ _ _ _ _ _ Hc). exact Hb.
Qed.

Lemma while_true_break : forall n st sc c b st1 sc1 st2 sc2,
  E n st sc c = (st1, sc1, SVal (VBool true)) ->
  E n st1 sc1 b = (st2, sc2, SBreak) ->
  E (S (S n)) st sc (ILoop (IIfElse c b IBreak)) = (st2, sc2, SVal VVoid).
Proof.
  intros n st sc c b st1 sc1 st2 sc2 Hc Hb. rewrite loop_unfold.
  apply loop_iter_break. rewrite (if_true _ _ _ _ _ _ _ _ Hc). exact Hb.
Qed.

Lemma while_true_exit : forall n st sc c b st1 sc1 st2 sc2 s,
  E n st sc c = (st1, sc1, SVal (VBool true)) ->
  E n st1 sc1 b = (st2, sc2, s) -> loop_exit s ->
  E (S (S n)) st sc (ILoop (IIfElse c b IBreak)) = (st2, sc2, s).
Proof.
  intros n st sc c b st1 sc1 st2 sc2 s Hc Hb Hs. rewrite loop_unfold.
  apply loop_iter_exit; [|exact Hs]. rewrite (if_true _ _ _ _ _ _ _ _ Hc). exact Hb.
Qed.

End ControlFlow.

(* ================================================================= *)
(* C06 — scoping                                                      *)
(* ================================================================= *)

(* ---------- lookup and insertion ---------- *)
Lemma assoc_scope_insert_same : forall nm v (s : scope), assoc nm (scope_insert nm v s) = Some v.
Proof. intros nm v s. unfold scope_insert. cbn [assoc]. rewrite ident_eqb_refl. reflexivity. Qed.

Lemma assoc_scope_insert_other : forall k nm v (s : scope),
  ident_eqb k nm = false -> assoc k (scope_insert nm v s) = assoc k s.
Proof.
  intros k nm v s Hk. unfold scope_insert. cbn [assoc]. rewrite Hk.
  induction s as [|[k' w] s IH]; [reflexivity|].
  cbn [filter fst]. destruct (ident_eqb nm k') eqn:Hn; cbn [negb assoc].
  - apply ident_eqb_true in Hn. subst k'. rewrite Hk. exact IH.
  - destruct (ident_eqb k k'); [reflexivity|exact IH].
Qed.

Lemma scopes_get_insert_same : forall nm v sc, scopes_get nm (scopes_insert nm v sc) = Some v.
Proof.
  intros nm v [|s sc]; cbn [scopes_insert scopes_get].
  - cbn [assoc]. rewrite ident_eqb_refl. reflexivity.
  - rewrite assoc_scope_insert_same. reflexivity.
Qed.

Lemma scopes_get_insert_other : forall nm nm' v sc, nm <> nm' ->
  scopes_get nm' (scopes_insert nm v sc) = scopes_get nm' sc.
Proof.
  intros nm nm' v [|s sc] Hne; cbn [scopes_insert scopes_get].
  - cbn [assoc]. rewrite ident_eqb_neq by congruence. reflexivity.
  - rewrite assoc_scope_insert_other by (apply ident_eqb_neq; congruence). reflexivity.
Qed.

Lemma scopes_get_nearest : forall nm s sc v,
  assoc nm s = Some v -> scopes_get nm (s :: sc) = Some v.
Proof. intros nm s sc v H. cbn [scopes_get]. rewrite H. reflexivity. Qed.

Lemma scopes_get_outer : forall nm s sc,
  assoc nm s = None -> scopes_get nm (s :: sc) = scopes_get nm sc.
Proof. intros nm s sc H. cbn [scopes_get]. rewrite H. reflexivity. Qed.

(* insertion only touches the innermost layer *)
Lemma scopes_insert_tail : forall nm v s rest, exists top, scopes_insert nm v (s :: rest) = top :: rest.
Proof. intros nm v s rest. eexists. reflexivity. Qed.

(* ---------- the callee's frame ---------- *)
(* the argument bound to parameter [k]: the LAST parameter of that name wins *)
Fixpoint param_lookup (k : name) (ps : params) (args : list value) : option value :=
  match ps, args with
  | (n, _) :: ps, a :: args =>
      match param_lookup k ps args with
      | Some v => Some v
      | None => if ident_eqb k n then Some a else None
      end
  | _, _ => None
  end.

Lemma bind_def_assoc : forall ps args s k,
  assoc k (bind_def ps args s) =
  match param_lookup k ps args with Some v => Some v | None => assoc k s end.
Proof.
  induction ps as [|[n t] ps IH]; intros args s k.
  - destruct args; reflexivity.
  - destruct args as [|a args]; [reflexivity|].
    change (bind_def ((n, t) :: ps) (a :: args) s) with (bind_def ps args (scope_insert n a s)).
    rewrite IH. cbn [param_lookup].
    destruct (param_lookup k ps args) as [w|]; [reflexivity|].
    destruct (ident_eqb k n) eqn:Hk.
    + apply ident_eqb_true in Hk. subst k. apply assoc_scope_insert_same.
    + apply assoc_scope_insert_other. exact Hk.
Qed.

Lemma callee_sees_only_frame : forall fid c args k,
  assoc k (frame_def fid c args) =
  match param_lookup k (c_params c) args with
  | Some v => Some v                                   (* a parameter (shadows the function's name) *)
  | None =>
      match c_name c with
      | Some n => if ident_eqb k n then Some (VFun fid (map snd (c_params c)) (c_ret c)) else None
      | None => None
      end
  end.
Proof.
  intros fid c args k. unfold frame_def. rewrite bind_def_assoc.
  destruct (param_lookup k (c_params c) args); [reflexivity|].
  unfold base_def. destruct (c_name c); reflexivity.
Qed.

Lemma frame_lookup : forall fid c args k,
  scopes_get k [frame_def fid c args] = assoc k (frame_def fid c args).
Proof. intros fid c args k. cbn [scopes_get]. destruct (assoc k (frame_def fid c args)); reflexivity. Qed.

(* ---------- "only the innermost layer changes" ---------- *)
Definition rtail (rest : scopes) (r : res) : Prop := exists top, scs r = top :: rest.
Definition tailp (ex : store -> scopes -> instr -> res) : Prop :=
  forall st s rest i, rtail rest (ex st (s :: rest) i).

Lemma rtail_here : forall st s rest sg, rtail rest (st, s :: rest, sg).
Proof. intros st s rest sg. exists s. reflexivity. Qed.

Lemma rtail_scs : forall r s rest, scs r = s :: rest -> rtail rest r.
Proof. intros r s rest H. exists s. exact H. Qed.

Lemma sig_of_outcome_scs : forall A (o : outcome A) k st sc,
  (forall a, scs (k a) = sc) -> scs (sig_of_outcome o k st sc) = sc.
Proof. intros A o k st sc Hk. destruct o; try reflexivity. apply Hk. Qed.

Section Tail.
Variable powf : fbits -> fbits -> fbits.
Variable pre : prelude.
Variable ex : store -> scopes -> instr -> res.

Lemma pull_def_S : forall n it st sc acc,
  pull_def ex (S n) it st sc acc =
  match call_v_def ex it [] st sc with
  | (st, sc, SVal (VTup (c :: rest))) =>
      if is_false c then (st, sc, Ok (rev acc), SVal VVoid)
      else match rest with
           | x :: _ => pull_def ex n it st sc (x :: acc)
           | [] => (st, sc, Panic, SPanic)
           end
  | (st, sc, SVal (VTup [])) => (st, sc, Panic, SPanic)
  | (st, sc, SVal _) => (st, sc, Ok (rev acc), SVal VVoid)
  | (st, sc, s) => (st, sc, Panic, s)
  end.
Proof. reflexivity. Qed.

Lemma pull_def_scs : forall n it st sc acc, snd (fst (fst (pull_def ex n it st sc acc))) = sc.
Proof.
  induction n as [|n IH]; intros it st sc acc; [reflexivity|].
  rewrite pull_def_S.
  pose proof (call_v_def_scs ex it [] st sc) as H.
  destruct (call_v_def ex it [] st sc) as [[st1 sc1] sg]. unfold scs in H; cbn [fst snd] in H. subst sc1.
  destruct sg; try reflexivity.
  destruct v; try reflexivity.
  destruct vs as [|c rest]; [reflexivity|].
  destruct (is_false c); [reflexivity|].
  destruct rest; [reflexivity|]. apply IH.
Qed.

Lemma reduce_def_S : forall itv fv n st sc acc,
  reduce_def ex itv fv (S n) st sc acc =
  match call_v_def ex itv [] st sc with
  | (st, sc, SVal (VTup (c :: rest))) =>
      if is_false c then (st, sc, SVal acc)
      else match rest with
           | x :: _ =>
               match call_v_def ex fv [acc; x] st sc with
               | (st, sc, SVal acc) => reduce_def ex itv fv n st sc acc
               | r => r
               end
           | [] => (st, sc, SPanic)
           end
  | (st, sc, SVal (VTup [])) => (st, sc, SPanic)
  | (st, sc, SVal _) => (st, sc, SVal acc)
  | r => r
  end.
Proof. reflexivity. Qed.

Lemma reduce_def_scs : forall itv fv n st sc acc, scs (reduce_def ex itv fv n st sc acc) = sc.
Proof.
  intros itv fv. induction n as [|n IH]; intros st sc acc; [reflexivity|].
  rewrite reduce_def_S.
  pose proof (call_v_def_scs ex itv [] st sc) as H.
  destruct (call_v_def ex itv [] st sc) as [[st1 sc1] sg]. unfold scs in H; cbn [fst snd] in H. subst sc1.
  destruct sg; try reflexivity.
  destruct v; try reflexivity.
  destruct vs as [|c rest]; [reflexivity|].
  destruct (is_false c); [reflexivity|].
  destruct rest as [|x rest]; [reflexivity|].
  pose proof (call_v_def_scs ex fv [acc; x] st1 sc) as H2.
  destruct (call_v_def ex fv [acc; x] st1 sc) as [[st2 sc2] sg2]. unfold scs in H2; cbn [fst snd] in H2. subst sc2.
  destruct sg2; try reflexivity. apply IH.
Qed.

Lemma part_def_S : forall lv rv n st sc yes no,
  part_def ex lv rv (S n) st sc yes no =
  match call_v_def ex lv [] st sc with
  | (st, sc, SVal (VTup (c :: rest))) =>
      if is_false c then
        match iter_element (as_type lv) with
        | Some et => (st, sc, SVal (VTup [VArr et (rev yes); VArr et (rev no)]))
        | None => (st, sc, SPanic)
        end
      else match rest with
           | x :: _ =>
               match call_v_def ex rv [x] st sc with
               | (st, sc, SVal (VBool true)) => part_def ex lv rv n st sc (x :: yes) no
               | (st, sc, SVal _) => part_def ex lv rv n st sc yes (x :: no)
               | r => r
               end
           | [] => (st, sc, SPanic)
           end
  | (st, sc, SVal (VTup [])) => (st, sc, SPanic)
  | (st, sc, SVal _) =>
      match iter_element (as_type lv) with
      | Some et => (st, sc, SVal (VTup [VArr et (rev yes); VArr et (rev no)]))
      | None => (st, sc, SPanic)
      end
  | r => r
  end.
Proof. reflexivity. Qed.

Lemma part_def_scs : forall lv rv n st sc yes no, scs (part_def ex lv rv n st sc yes no) = sc.
Proof.
  intros lv rv. induction n as [|n IH]; intros st sc yes no; [reflexivity|].
  rewrite part_def_S.
  pose proof (call_v_def_scs ex lv [] st sc) as H.
  destruct (call_v_def ex lv [] st sc) as [[st1 sc1] sg]. unfold scs in H; cbn [fst snd] in H. subst sc1.
  destruct sg; try reflexivity.
  destruct v; try (destruct (iter_element (as_type lv)); reflexivity).
  destruct vs as [|c rest]; [reflexivity|].
  destruct (is_false c); [destruct (iter_element (as_type lv)); reflexivity|].
  destruct rest as [|x rest]; [reflexivity|].
  pose proof (call_v_def_scs ex rv [x] st1 sc) as H2.
  destruct (call_v_def ex rv [x] st1 sc) as [[st2 sc2] sg2]. unfold scs in H2; cbn [fst snd] in H2. subst sc2.
  destruct sg2; try reflexivity.
  destruct v; try apply IH. destruct b; apply IH.
Qed.

Lemma retyped_def_scs : forall f ret st sc, scs (retyped_def f ret st sc) = sc.
Proof.
  intros f ret st sc. unfold retyped_def. destruct f; try reflexivity.
  destruct (nth_error (s_funs st) id); reflexivity.
Qed.

Lemma call_then_retyped_scs : forall fid args ret st sc,
  scs (match call_def ex fid args st sc with
       | (st, sc, SVal f) => retyped_def f ret st sc
       | r => r
       end) = sc.
Proof.
  intros fid args ret st sc.
  pose proof (call_def_scs ex fid args st sc) as H.
  destruct (call_def ex fid args st sc) as [[st1 sc1] sg]. unfold scs in H; cbn [fst snd] in H. subst sc1.
  destruct sg; try reflexivity. apply retyped_def_scs.
Qed.

(* operators never touch the scopes once both operands are values *)
Lemma bin_dispatch_scs : forall fuel op lv rv st sc,
  scs (bin_dispatch powf pre ex fuel op lv rv st sc) = sc.
Proof.
  intros fuel op lv rv st sc.
  destruct op; unfold bin_dispatch; cbn [assign_base];
    try (apply sig_of_outcome_scs; intros; reflexivity);
    try (destruct lv; try reflexivity;
         destruct (nth_error (s_cells st) loc); try reflexivity;
         apply sig_of_outcome_scs; intros; reflexivity).
  - (* Filter *) destruct (fn_return_type (as_type lv)); [|reflexivity]. apply call_then_retyped_scs.
  - (* Map *) destruct (fn_return_type (as_type rv)); [|reflexivity]. apply call_then_retyped_scs.
  - (* FunctionCall *) destruct rv; try reflexivity. apply call_v_def_scs.
  - (* Partition *) destruct lv; try reflexivity. destruct rv; try reflexivity. apply part_def_scs.
Qed.

Hypothesis Hex : tailp ex.

Lemma with_val_tail : forall x st s rest k,
  (forall st1 s1 v, rtail rest (k st1 (s1 :: rest) v)) ->
  rtail rest (with_val_def ex x st (s :: rest) k).
Proof.
  intros x st s rest k Hk. unfold with_val_def.
  destruct (Hex st s rest x) as [top Ht].
  destruct (ex st (s :: rest) x) as [[st1 sc1] sg]. unfold scs in Ht; cbn [fst snd] in Ht. subst sc1.
  destruct sg; try apply rtail_here. apply Hk.
Qed.

Lemma ex_list_tail : forall rest l st s,
  exists top, snd (fst (fst (ex_list_def ex l st (s :: rest)))) = top :: rest.
Proof.
  intros rest. induction l as [|x l IH]; intros st s.
  - exists s. reflexivity.
  - rewrite ex_list_cons.
    destruct (Hex st s rest x) as [top Ht].
    destruct (ex st (s :: rest) x) as [[st1 sc1] sg]. unfold scs in Ht; cbn [fst snd] in Ht. subst sc1.
    destruct sg; try (exists top; reflexivity).
    destruct (IH st1 top) as [top2 H2].
    destruct (ex_list_def ex l st1 (top :: rest)) as [[[st2 sc2] o2] s2]. cbn [fst snd] in H2. subst sc2.
    destruct o2; exists top2; reflexivity.
Qed.

Lemma with_list_tail : forall l st s rest k,
  (forall st1 s1 vs, rtail rest (k st1 (s1 :: rest) vs)) ->
  rtail rest (with_list_def ex l st (s :: rest) k).
Proof.
  intros l st s rest k Hk. unfold with_list_def.
  destruct (ex_list_tail rest l st s) as [top Ht].
  destruct (ex_list_def ex l st (s :: rest)) as [[[st1 sc1] o] sg]. cbn [fst snd] in Ht. subst sc1.
  destruct o; try apply rtail_here. apply Hk.
Qed.

Lemma run_body_tail : forall c st s rest, rtail rest (run_body_def ex c st (s :: rest)).
Proof.
  intros c st s rest. unfold run_body_def. destruct (c_body c) as [body|id].
  - destruct (ex_list_tail rest body st s) as [top Ht].
    destruct (ex_list_def ex body st (s :: rest)) as [[[st1 sc1] o] sg]. cbn [fst snd] in Ht. subst sc1.
    destruct o; destruct sg; apply rtail_here.
  - destruct (scopes_get n_variable (s :: rest)); [|apply rtail_here].
    destruct (len_exec v); apply rtail_here.
Qed.

Lemma loop_def_tail : forall b rest m st s, rtail rest (loop_def ex b m st (s :: rest)).
Proof.
  intros b rest. induction m as [|m IH]; intros st s.
  - apply rtail_here.
  - rewrite loop_def_S.
    destruct (Hex st s rest b) as [top Ht].
    destruct (ex st (s :: rest) b) as [[st1 sc1] sg]. unfold scs in Ht; cbn [fst snd] in Ht. subst sc1.
    destruct sg; try apply rtail_here; apply IH.
Qed.

Lemma match_cands_tail : forall v b rest k,
  (forall st s, rtail rest (k st (s :: rest))) ->
  forall cs st s, rtail rest (match_cands_def ex v b k cs st (s :: rest)).
Proof.
  intros v b rest k Hk. induction cs as [|c cs IH]; intros st s.
  - apply Hk.
  - rewrite match_cands_cons.
    destruct (Hex st s rest c) as [top Ht].
    destruct (ex st (s :: rest) c) as [[st1 sc1] sg]. unfold scs in Ht; cbn [fst snd] in Ht. subst sc1.
    destruct sg; try apply rtail_here.
    destruct (val_eqb v0 v); [apply Hex|apply IH].
Qed.

Lemma match_arms_tail : forall v rest arms st s, rtail rest (match_arms_def ex v arms st (s :: rest)).
Proof.
  intros v rest. induction arms as [|a arms IH]; intros st s.
  - apply rtail_here.
  - destruct a as [nm t b|cands b|b].
    + rewrite match_arms_type. destruct (matches (as_type v) t); [|apply IH].
      destruct (ex st ([(nm, v)] :: s :: rest) b) as [[st2 sc2] sg]. apply rtail_here.
    + rewrite match_arms_value. apply match_cands_tail. exact IH.
    + rewrite match_arms_other. apply Hex.
Qed.

Lemma struct_def_tail : forall rest l st s acc, rtail rest (struct_def ex l st (s :: rest) acc).
Proof.
  intros rest. induction l as [|[k x] l IH]; intros st s acc.
  - apply rtail_here.
  - rewrite struct_def_cons. apply with_val_tail. intros st1 s1 v. apply IH.
Qed.

Lemma opt_def_tail : forall o st s rest k,
  (forall st1 s1 v, rtail rest (k st1 (s1 :: rest) v)) ->
  rtail rest (opt_def ex o st (s :: rest) k).
Proof.
  intros o st s rest k Hk. destruct o as [x|]; [|apply Hk].
  unfold opt_def. apply with_val_tail. intros st1 s1 v. destruct v; try apply rtail_here. apply Hk.
Qed.

Lemma destruct_bind_tail : forall ids vs s rest,
  exists top, destruct_bind_def ids vs (s :: rest) = top :: rest.
Proof.
  induction ids as [|n ids IH]; intros vs s rest.
  - exists s. destruct vs; reflexivity.
  - destruct vs as [|v vs]; [exists s; reflexivity|].
    change (destruct_bind_def (n :: ids) (v :: vs) (s :: rest))
      with (destruct_bind_def ids vs (scopes_insert n v (s :: rest))).
    cbn [scopes_insert]. apply IH.
Qed.

Lemma un_dispatch_tail : forall fuel sx op v st s rest,
  rtail rest (un_dispatch pre ex fuel sx op v st (s :: rest)).
Proof.
  intros fuel sx op v st s rest.
  destruct op; unfold un_dispatch; try apply rtail_here;
    try (apply (rtail_scs _ s); apply sig_of_outcome_scs; intros; reflexivity).
  - (* UIndirection *)
    destruct v; try apply rtail_here. destruct (nth_error (s_cells st) loc); apply rtail_here.
  - (* UFunctionCall *)
    destruct v; try apply rtail_here. destruct (nth_error (s_funs st) id); [|apply rtail_here].
    apply run_body_tail.
  - (* UCollect *)
    destruct v; try apply rtail_here.
    pose proof (pull_def_scs fuel (VFun id ps r) st (s :: rest) []) as H.
    destruct (pull_def ex fuel (VFun id ps r) st (s :: rest) []) as [[[st1 sc1] o] sg].
    cbn [fst snd] in H. subst sc1. destruct o; apply rtail_here.
  - (* UIter *)
    destruct (element_type (as_type v)) as [et|]; [|apply rtail_here]. cbv zeta.
    destruct (match alloc_default et st with Some ds => ds | None => (VVoid, st) end) as [d st0].
    pose proof (call_def_scs ex (p_iter pre) [v; d] st0 (s :: rest)) as H.
    destruct (call_def ex (p_iter pre) [v; d] st0 (s :: rest)) as [[st1 sc1] sg].
    unfold scs in H; cbn [fst snd] in H. subst sc1.
    destruct sg; try apply rtail_here. apply (rtail_scs _ s). apply retyped_def_scs.
Qed.

End Tail.

Section Scoping.
Variable powf : fbits -> fbits -> fbits.
Variable pre : prelude.
Notation E := (exec powf pre).

(* --- 9. blocks and binding branches drop their layer --- *)
Lemma block_restores_scopes : forall n st sc body, scs (E n st sc (IBlock body)) = sc.
Proof.
  intros [|n] st sc body.
  - reflexivity.
  - rewrite exec_S_IBlock.
    destruct (ex_list_def (E n) body st ([] :: sc)) as [[[st1 sc1] o] sg].
    destruct o; reflexivity.
Qed.

Lemma ifset_restores_scopes : forall n st sc nm t x ifm els st1 sc1 v,
  E n st sc x = (st1, sc1, SVal v) -> matches (as_type v) t = true ->
  scs (E (S n) st sc (ISetIfElse nm t x ifm els)) = sc1.
Proof.
  intros n st sc nm t x ifm els st1 sc1 v Hx Hm.
  rewrite (ifset_match _ _ _ _ _ _ _ _ _ _ _ _ _ Hx Hm).
  destruct (E n st1 ([(nm, v)] :: sc1) ifm) as [[st2 sc2] sg]. reflexivity.
Qed.

Lemma match_type_arm_restores_scopes : forall n st sc x nm t b rest st1 sc1 v,
  E n st sc x = (st1, sc1, SVal v) -> matches (as_type v) t = true ->
  scs (E (S n) st sc (IMatch x (ArmType nm t b :: rest))) = sc1.
Proof.
  intros n st sc x nm t b rest st1 sc1 v Hx Hm.
  rewrite (match_type_arm_selected _ _ _ _ _ _ _ _ _ _ _ _ _ Hx Hm).
  destruct (E n st1 ([(nm, v)] :: sc1) b) as [[st2 sc2] sg]. reflexivity.
Qed.

(* --- 10. calls --- *)
Lemma call_isolated : forall n fid args st sc, scs (call_def (E n) fid args st sc) = sc.
Proof. intros n. exact (call_def_scs (E n)). Qed.

Lemma call_restores_scopes : forall n st sc f a st1 sc1 fv st2 sc2 av,
  E n st sc f = (st1, sc1, SVal fv) -> E n st1 sc1 a = (st2, sc2, SVal av) ->
  scs (E (S n) st sc (IBin FunctionCall f a)) = sc2.
Proof.
  intros n st sc f a st1 sc1 fv st2 sc2 av Hf Ha.
  rewrite exec_S_IBin by discriminate.
  rewrite (with_val_val _ _ _ _ _ _ _ _ Hf), (with_val_val _ _ _ _ _ _ _ _ Ha).
  apply bin_dispatch_scs.
Qed.

(* every binary operator (other than And/Or) leaves the scopes as its operands left them *)
Lemma bin_restores_scopes : forall n st sc op l r st1 sc1 lv st2 sc2 rv,
  op <> And -> op <> Or ->
  E n st sc l = (st1, sc1, SVal lv) -> E n st1 sc1 r = (st2, sc2, SVal rv) ->
  scs (E (S n) st sc (IBin op l r)) = sc2.
Proof.
  intros n st sc op l r st1 sc1 lv st2 sc2 rv HA HO Hl Hr.
  rewrite exec_S_IBin by assumption.
  rewrite (with_val_val _ _ _ _ _ _ _ _ Hl), (with_val_val _ _ _ _ _ _ _ _ Hr).
  apply bin_dispatch_scs.
Qed.

(* --- 12. set --- *)
Lemma set_binds_innermost : forall n st sc nm x st1 sc1 v,
  E n st sc x = (st1, sc1, SVal v) ->
  E (S n) st sc (ISet nm x) = (st1, scopes_insert nm v sc1, SVal v).
Proof. intros n st sc nm x st1 sc1 v Hx. rewrite exec_S_ISet. exact (with_val_val _ _ _ _ _ _ _ _ Hx). Qed.

(* --- 11. the key invariant --- *)
Theorem scopes_tail_preserved : forall n, tailp (E n).
Proof.
  induction n as [|n IH]; intros st s rest i.
  - rewrite exec_O. apply rtail_here.
  - destruct i.
    + (* IAnonFn *) rewrite exec_S_IAnonFn. apply (rtail_scs _ s). apply sig_of_outcome_scs. intros a. reflexivity.
    + (* IArray *) rewrite exec_S_IArray. apply with_list_tail; [exact IH|]. intros; apply rtail_here.
    + (* IArrayRepeat *) rewrite exec_S_IArrayRepeat.
      apply with_val_tail; [exact IH|]. intros st1 s1 v1.
      apply with_val_tail; [exact IH|]. intros st2 s2 v2.
      destruct v2; try apply rtail_here. destruct (z <? 0)%Z; apply rtail_here.
    + (* IBlock *) apply (rtail_scs _ s). apply block_restores_scopes.
    + rewrite exec_S_IBreak. apply rtail_here.
    + rewrite exec_S_IContinue. apply rtail_here.
    + (* IDestruct *) rewrite exec_S_IDestruct.
      apply with_val_tail; [exact IH|]. intros st1 s1 v1.
      destruct v1; try apply rtail_here.
      destruct (destruct_bind_tail ids vs s1 rest) as [top Ht]. rewrite Ht. apply rtail_here.
    + (* IFieldAccess *) rewrite exec_S_IFieldAccess.
      apply with_val_tail; [exact IH|]. intros st1 s1 v1.
      destruct v1; try apply rtail_here. destruct (assoc f fs); apply rtail_here.
    + (* IFnDecl *) rewrite exec_S_IFnDecl.
      destruct (recreate_body powf (s :: rest) _ body) as [b'| | |]; apply rtail_here.
    + (* IIfElse *) rewrite exec_S_IIfElse.
      apply with_val_tail; [exact IH|]. intros st1 s1 v1.
      destruct v1; try apply rtail_here. destruct b; apply IH.
    + (* ILocal *) rewrite exec_S_ILocal. destruct (scopes_get n0 (s :: rest)); apply rtail_here.
    + (* ILoop *) rewrite exec_S_ILoop. apply loop_def_tail. exact IH.
    + (* IMatch *) rewrite exec_S_IMatch.
      apply with_val_tail; [exact IH|]. intros st1 s1 v1. apply match_arms_tail. exact IH.
    + (* IMut *) rewrite exec_S_IMut.
      apply with_val_tail; [exact IH|]. intros st1 s1 v1. apply rtail_here.
    + (* IReduce *) rewrite exec_S_IReduce.
      apply with_val_tail; [exact IH|]. intros st1 s1 v1.
      apply with_val_tail; [exact IH|]. intros st2 s2 v2.
      apply with_val_tail; [exact IH|]. intros st3 s3 v3.
      destruct v1; try apply rtail_here. destruct v3; try apply rtail_here.
      apply (rtail_scs _ s3). apply reduce_def_scs.
    + (* ISet *) rewrite exec_S_ISet.
      apply with_val_tail; [exact IH|]. intros st1 s1 v1. apply rtail_here.
    + (* ISetIfElse *) rewrite exec_S_ISetIfElse.
      apply with_val_tail; [exact IH|]. intros st1 s1 v1.
      destruct (matches (as_type v1) t); [|apply IH].
      destruct (E n st1 ([(n0, v1)] :: s1 :: rest) i2) as [[st2 sc2] sg]. apply rtail_here.
    + (* ISlicing *) rewrite exec_S_ISlicing.
      apply with_val_tail; [exact IH|]. intros st1 s1 v1.
      apply opt_def_tail; [exact IH|]. intros st2 s2 v2.
      apply opt_def_tail; [exact IH|]. intros st3 s3 v3.
      apply opt_def_tail; [exact IH|]. intros st4 s4 v4.
      apply (rtail_scs _ s4). apply sig_of_outcome_scs. intros; reflexivity.
    + (* IStruct *) rewrite exec_S_IStruct. apply struct_def_tail. exact IH.
    + (* ITuple *) rewrite exec_S_ITuple. apply with_list_tail; [exact IH|]. intros; apply rtail_here.
    + (* ITupleAccess *) rewrite exec_S_ITupleAccess.
      apply with_val_tail; [exact IH|]. intros st1 s1 v1.
      destruct v1; try apply rtail_here. destruct (nth_error vs k); apply rtail_here.
    + (* ITypeFilter *) rewrite exec_S_ITypeFilter.
      apply with_val_tail; [exact IH|]. intros st1 s1 v1.
      destruct (alloc_default t st1) as [[d st2]|]; apply rtail_here.
    + rewrite exec_S_IVar. apply rtail_here.
    + (* IBin *)
      assert (Hgen : op <> And -> op <> Or -> rtail rest (E (S n) st (s :: rest) (IBin op i1 i2))).
      { intros HA HO. rewrite exec_S_IBin by assumption.
        apply with_val_tail; [exact IH|]. intros st1 s1 v1.
        apply with_val_tail; [exact IH|]. intros st2 s2 v2.
        apply (rtail_scs _ s2). apply bin_dispatch_scs. }
      destruct op; try (apply Hgen; discriminate).
      * rewrite exec_S_And. apply with_val_tail; [exact IH|]. intros st1 s1 v1.
        destruct v1; try apply rtail_here. destruct b; [apply IH|apply rtail_here].
      * rewrite exec_S_Or. apply with_val_tail; [exact IH|]. intros st1 s1 v1.
        destruct v1; try apply rtail_here. destruct b; [apply rtail_here|apply IH].
    + (* IUn *) rewrite exec_S_IUn.
      apply with_val_tail; [exact IH|]. intros st1 s1 v1. apply un_dispatch_tail. exact IH.
Qed.

Corollary enclosing_scopes_untouched : forall n st s rest i,
  tl (scs (E n st (s :: rest) i)) = rest.
Proof.
  intros n st s rest i. destruct (scopes_tail_preserved n st s rest i) as [top H].
  rewrite H. reflexivity.
Qed.

End Scoping.

(* ================================================================= *)
(* C07 — evaluation order                                             *)
(* ================================================================= *)
Section Generic2.
Variable ex : store -> scopes -> instr -> res.

(* an optional slice bound: absent, or an instruction yielding an int *)
Inductive opt_runs : option instr -> store -> scopes -> option value -> store -> scopes -> Prop :=
| opt_runs_none : forall st sc, opt_runs None st sc None st sc
| opt_runs_some : forall x st sc st1 sc1 z,
    ex st sc x = (st1, sc1, SVal (VInt z)) ->
    opt_runs (Some x) st sc (Some (VInt z)) st1 sc1.

Lemma opt_def_runs : forall o st sc k ov st1 sc1,
  opt_runs o st sc ov st1 sc1 -> opt_def ex o st sc k = k st1 sc1 ov.
Proof.
  intros o st sc k ov st1 sc1 H. destruct H as [st sc|x st sc st1 sc1 z Hx].
  - reflexivity.
  - exact (opt_def_int _ _ _ _ _ _ _ _ Hx).
Qed.

Lemma opt_def_non_int : forall x st sc k st1 sc1 v,
  ex st sc x = (st1, sc1, SVal v) -> (forall z, v <> VInt z) ->
  opt_def ex (Some x) st sc k = (st1, sc1, SPanic).
Proof.
  intros x st sc k st1 sc1 v Hx Hv. unfold opt_def. rewrite (with_val_val _ _ _ _ _ _ _ _ Hx).
  destruct v; try reflexivity. exfalso. exact (Hv z eq_refl).
Qed.

Definition struct_fold (kvs : list (ident * value)) (acc : list (ident * value)) : list (ident * value) :=
  fold_left (fun acc kv => struct_val_insert (fst kv) (snd kv) acc) kvs acc.

Lemma struct_def_runs : forall fs st sc acc vs st' sc',
  runs ex (map snd fs) st sc vs st' sc' ->
  struct_def ex fs st sc acc = (st', sc', SVal (VStruct (struct_fold (combine (map fst fs) vs) acc))).
Proof.
  induction fs as [|[k x] fs IH]; intros st sc acc vs st' sc' Hr.
  - inversion Hr; subst. reflexivity.
  - cbn [map snd] in Hr. inversion Hr as [|x0 l0 st0 sc0 st1 sc1 v vs0 st2 sc2 Hx Hr']; subst.
    rewrite (struct_def_cons_val _ _ _ _ _ _ _ _ _ _ Hx).
    rewrite (IH _ _ _ _ _ _ Hr'). reflexivity.
Qed.

Lemma struct_def_stops : forall fs1 k x fs2 st sc acc vs st1 sc1 st2 sc2 s,
  runs ex (map snd fs1) st sc vs st1 sc1 ->
  ex st1 sc1 x = (st2, sc2, s) -> nonval s ->
  struct_def ex (fs1 ++ (k, x) :: fs2) st sc acc = (st2, sc2, s).
Proof.
  induction fs1 as [|[k1 x1] fs1 IH]; intros k x fs2 st sc acc vs st1 sc1 st2 sc2 s Hr Hx Hs.
  - inversion Hr; subst. cbn [app]. exact (struct_def_cons_sig _ _ _ _ _ _ _ _ _ _ Hx Hs).
  - cbn [map snd] in Hr. inversion Hr as [|x0 l0 st0 sc0 st1' sc1' v vs0 st2' sc2' Hx1 Hr']; subst.
    cbn [app]. rewrite (struct_def_cons_val _ _ _ _ _ _ _ _ _ _ Hx1).
    exact (IH _ _ _ _ _ _ _ _ _ _ _ _ Hr' Hx Hs).
Qed.

End Generic2.

Section EvalOrder.
Variable powf : fbits -> fbits -> fbits.
Variable pre : prelude.
Notation E := (exec powf pre).

(* --- 14. binary operators: left, then right, then the operation --- *)
Lemma bin_lhs_signal : forall n st sc op l r st1 sc1 s,
  E n st sc l = (st1, sc1, s) -> nonval s ->
  E (S n) st sc (IBin op l r) = (st1, sc1, s).
Proof.
  intros n st sc op l r st1 sc1 s Hl Hs.
  assert (Hgen : op <> And -> op <> Or -> E (S n) st sc (IBin op l r) = (st1, sc1, s)).
  { intros HA HO. rewrite exec_S_IBin by assumption. exact (with_val_sig _ _ _ _ _ _ _ _ Hl Hs). }
  destruct op; try (apply Hgen; discriminate).
  - rewrite exec_S_And. exact (with_val_sig _ _ _ _ _ _ _ _ Hl Hs).
  - rewrite exec_S_Or. exact (with_val_sig _ _ _ _ _ _ _ _ Hl Hs).
Qed.

Lemma bin_rhs_signal : forall n st sc op l r st1 sc1 lv st2 sc2 s,
  op <> And -> op <> Or ->
  E n st sc l = (st1, sc1, SVal lv) ->
  E n st1 sc1 r = (st2, sc2, s) -> nonval s ->
  E (S n) st sc (IBin op l r) = (st2, sc2, s).
Proof.
  intros n st sc op l r st1 sc1 lv st2 sc2 s HA HO Hl Hr Hs.
  rewrite exec_S_IBin by assumption. rewrite (with_val_val _ _ _ _ _ _ _ _ Hl).
  exact (with_val_sig _ _ _ _ _ _ _ _ Hr Hs).
Qed.

Lemma bin_both : forall n st sc op l r st1 sc1 lv st2 sc2 rv,
  op <> And -> op <> Or ->
  E n st sc l = (st1, sc1, SVal lv) ->
  E n st1 sc1 r = (st2, sc2, SVal rv) ->
  E (S n) st sc (IBin op l r) = bin_dispatch powf pre (E n) n op lv rv st2 sc2.
Proof.
  intros n st sc op l r st1 sc1 lv st2 sc2 rv HA HO Hl Hr.
  rewrite exec_S_IBin by assumption. rewrite (with_val_val _ _ _ _ _ _ _ _ Hl).
  exact (with_val_val _ _ _ _ _ _ _ _ Hr).
Qed.

(* a pure operator (no assignment, call, iterator): the result is op_exec on the two values *)
Lemma bin_pure : forall n st sc op l r st1 sc1 lv st2 sc2 rv,
  match op with
  | And | Or | At | FunctionCall | Map | Filter | Partition | Assign => False
  | _ => assign_base op = None
  end ->
  E n st sc l = (st1, sc1, SVal lv) ->
  E n st1 sc1 r = (st2, sc2, SVal rv) ->
  E (S n) st sc (IBin op l r) =
  sig_of_outcome (op_exec powf op lv rv) (fun v => (st2, sc2, SVal v)) st2 sc2.
Proof.
  intros n st sc op l r st1 sc1 lv st2 sc2 rv Hop Hl Hr.
  destruct op; try contradiction; try discriminate Hop;
    (rewrite (bin_both _ _ _ _ _ _ _ _ _ _ _ _) with (3 := Hl) (4 := Hr) by discriminate);
    reflexivity.
Qed.

(* --- 15. short circuit --- *)
Lemma and_short_circuit : forall n st sc l r st1 sc1,
  E n st sc l = (st1, sc1, SVal (VBool false)) ->
  E (S n) st sc (IBin And l r) = (st1, sc1, SVal (VBool false)).
Proof. intros n st sc l r st1 sc1 Hl. rewrite exec_S_And. exact (with_val_val _ _ _ _ _ _ _ _ Hl). Qed.

Lemma and_true_runs_rhs : forall n st sc l r st1 sc1,
  E n st sc l = (st1, sc1, SVal (VBool true)) ->
  E (S n) st sc (IBin And l r) = E n st1 sc1 r.
Proof. intros n st sc l r st1 sc1 Hl. rewrite exec_S_And. exact (with_val_val _ _ _ _ _ _ _ _ Hl). Qed.

Lemma or_short_circuit : forall n st sc l r st1 sc1,
  E n st sc l = (st1, sc1, SVal (VBool true)) ->
  E (S n) st sc (IBin Or l r) = (st1, sc1, SVal (VBool true)).
Proof. intros n st sc l r st1 sc1 Hl. rewrite exec_S_Or. exact (with_val_val _ _ _ _ _ _ _ _ Hl). Qed.

Lemma or_false_runs_rhs : forall n st sc l r st1 sc1,
  E n st sc l = (st1, sc1, SVal (VBool false)) ->
  E (S n) st sc (IBin Or l r) = E n st1 sc1 r.
Proof. intros n st sc l r st1 sc1 Hl. rewrite exec_S_Or. exact (with_val_val _ _ _ _ _ _ _ _ Hl). Qed.

Lemma and_or_non_bool_panics : forall n st sc op l r st1 sc1 v,
  op = And \/ op = Or ->
  E n st sc l = (st1, sc1, SVal v) -> (forall b, v <> VBool b) ->
  E (S n) st sc (IBin op l r) = (st1, sc1, SPanic).
Proof.
  intros n st sc op l r st1 sc1 v [Hop|Hop] Hl Hv; subst op.
  - rewrite exec_S_And, (with_val_val _ _ _ _ _ _ _ _ Hl).
    destruct v; try reflexivity. exfalso. exact (Hv b eq_refl).
  - rewrite exec_S_Or, (with_val_val _ _ _ _ _ _ _ _ Hl).
    destruct v; try reflexivity. exfalso. exact (Hv b eq_refl).
Qed.

(* --- 16. lists, structs, slices, repeat, reduce --- *)
Lemma list_left_to_right : forall n x l st sc,
  ex_list_def (E n) (x :: l) st sc =
  match E n st sc x with
  | (st1, sc1, SVal v) =>
      match ex_list_def (E n) l st1 sc1 with
      | (st2, sc2, Ok vs, s) => (st2, sc2, Ok (v :: vs), s)
      | r => r
      end
  | (st1, sc1, s) => (st1, sc1, Panic, s)
  end.
Proof. intros n. exact (ex_list_cons (E n)). Qed.

Lemma tuple_values : forall n st sc es vs st' sc',
  runs (E n) es st sc vs st' sc' ->
  E (S n) st sc (ITuple es) = (st', sc', SVal (VTup vs)).
Proof. intros n st sc es vs st' sc' Hr. rewrite exec_S_ITuple. exact (with_list_runs _ _ _ _ _ _ _ _ Hr). Qed.

Lemma tuple_stops_at_first_signal : forall n st sc l1 x l2 vs st1 sc1 st2 sc2 s,
  runs (E n) l1 st sc vs st1 sc1 ->
  E n st1 sc1 x = (st2, sc2, s) -> nonval s ->
  E (S n) st sc (ITuple (l1 ++ x :: l2)) = (st2, sc2, s).
Proof.
  intros n st sc l1 x l2 vs st1 sc1 st2 sc2 s Hr Hx Hs. rewrite exec_S_ITuple.
  exact (with_list_sig _ _ _ _ _ _ _ _ _ (ex_list_stops_at_first_signal _ _ _ _ _ _ _ _ _ _ _ _ Hr Hx Hs) Hs).
Qed.

Lemma array_values : forall n st sc es et vs st' sc',
  runs (E n) es st sc vs st' sc' ->
  E (S n) st sc (IArray es et) = (st', sc', SVal (arr_of vs)).
Proof. intros n st sc es et vs st' sc' Hr. rewrite exec_S_IArray. exact (with_list_runs _ _ _ _ _ _ _ _ Hr). Qed.

Lemma array_stops_at_first_signal : forall n st sc et l1 x l2 vs st1 sc1 st2 sc2 s,
  runs (E n) l1 st sc vs st1 sc1 ->
  E n st1 sc1 x = (st2, sc2, s) -> nonval s ->
  E (S n) st sc (IArray (l1 ++ x :: l2) et) = (st2, sc2, s).
Proof.
  intros n st sc et l1 x l2 vs st1 sc1 st2 sc2 s Hr Hx Hs. rewrite exec_S_IArray.
  exact (with_list_sig _ _ _ _ _ _ _ _ _ (ex_list_stops_at_first_signal _ _ _ _ _ _ _ _ _ _ _ _ Hr Hx Hs) Hs).
Qed.

Lemma struct_fields_in_order : forall n st sc fs vs st' sc',
  runs (E n) (map snd fs) st sc vs st' sc' ->
  E (S n) st sc (IStruct fs) = (st', sc', SVal (VStruct (struct_fold (combine (map fst fs) vs) []))).
Proof. intros n st sc fs vs st' sc' Hr. rewrite exec_S_IStruct. exact (struct_def_runs _ _ _ _ _ _ _ _ Hr). Qed.

Lemma struct_stops_at_first_signal : forall n st sc fs1 k x fs2 vs st1 sc1 st2 sc2 s,
  runs (E n) (map snd fs1) st sc vs st1 sc1 ->
  E n st1 sc1 x = (st2, sc2, s) -> nonval s ->
  E (S n) st sc (IStruct (fs1 ++ (k, x) :: fs2)) = (st2, sc2, s).
Proof.
  intros n st sc fs1 k x fs2 vs st1 sc1 st2 sc2 s Hr Hx Hs. rewrite exec_S_IStruct.
  exact (struct_def_stops _ _ _ _ _ _ _ _ _ _ _ _ _ _ Hr Hx Hs).
Qed.

Lemma slicing_order : forall n st sc l a b c st1 sc1 lv av st2 sc2 bv st3 sc3 cv st4 sc4,
  E n st sc l = (st1, sc1, SVal lv) ->
  opt_runs (E n) a st1 sc1 av st2 sc2 ->
  opt_runs (E n) b st2 sc2 bv st3 sc3 ->
  opt_runs (E n) c st3 sc3 cv st4 sc4 ->
  E (S n) st sc (ISlicing l a b c) =
  sig_of_outcome (slice_exec lv av bv cv) (fun r => (st4, sc4, SVal r)) st4 sc4.
Proof.
  intros n st sc l a b c st1 sc1 lv av st2 sc2 bv st3 sc3 cv st4 sc4 Hl Ha Hb Hc.
  rewrite exec_S_ISlicing, (with_val_val _ _ _ _ _ _ _ _ Hl).
  rewrite (opt_def_runs _ _ _ _ _ _ _ _ Ha), (opt_def_runs _ _ _ _ _ _ _ _ Hb), (opt_def_runs _ _ _ _ _ _ _ _ Hc).
  reflexivity.
Qed.

Lemma slicing_l_signal : forall n st sc l a b c st1 sc1 s,
  E n st sc l = (st1, sc1, s) -> nonval s ->
  E (S n) st sc (ISlicing l a b c) = (st1, sc1, s).
Proof. intros n st sc l a b c st1 sc1 s Hl Hs. rewrite exec_S_ISlicing. exact (with_val_sig _ _ _ _ _ _ _ _ Hl Hs). Qed.

Lemma slicing_a_signal : forall n st sc l a b c st1 sc1 lv st2 sc2 s,
  E n st sc l = (st1, sc1, SVal lv) ->
  E n st1 sc1 a = (st2, sc2, s) -> nonval s ->
  E (S n) st sc (ISlicing l (Some a) b c) = (st2, sc2, s).
Proof.
  intros n st sc l a b c st1 sc1 lv st2 sc2 s Hl Ha Hs.
  rewrite exec_S_ISlicing, (with_val_val _ _ _ _ _ _ _ _ Hl). exact (opt_def_sig _ _ _ _ _ _ _ _ Ha Hs).
Qed.

Lemma slicing_b_signal : forall n st sc l a b c st1 sc1 lv av st2 sc2 st3 sc3 s,
  E n st sc l = (st1, sc1, SVal lv) ->
  opt_runs (E n) a st1 sc1 av st2 sc2 ->
  E n st2 sc2 b = (st3, sc3, s) -> nonval s ->
  E (S n) st sc (ISlicing l a (Some b) c) = (st3, sc3, s).
Proof.
  intros n st sc l a b c st1 sc1 lv av st2 sc2 st3 sc3 s Hl Ha Hb Hs.
  rewrite exec_S_ISlicing, (with_val_val _ _ _ _ _ _ _ _ Hl), (opt_def_runs _ _ _ _ _ _ _ _ Ha).
  exact (opt_def_sig _ _ _ _ _ _ _ _ Hb Hs).
Qed.

Lemma slicing_c_signal : forall n st sc l a b c st1 sc1 lv av st2 sc2 bv st3 sc3 st4 sc4 s,
  E n st sc l = (st1, sc1, SVal lv) ->
  opt_runs (E n) a st1 sc1 av st2 sc2 ->
  opt_runs (E n) b st2 sc2 bv st3 sc3 ->
  E n st3 sc3 c = (st4, sc4, s) -> nonval s ->
  E (S n) st sc (ISlicing l a b (Some c)) = (st4, sc4, s).
Proof.
  intros n st sc l a b c st1 sc1 lv av st2 sc2 bv st3 sc3 st4 sc4 s Hl Ha Hb Hc Hs.
  rewrite exec_S_ISlicing, (with_val_val _ _ _ _ _ _ _ _ Hl).
  rewrite (opt_def_runs _ _ _ _ _ _ _ _ Ha), (opt_def_runs _ _ _ _ _ _ _ _ Hb).
  exact (opt_def_sig _ _ _ _ _ _ _ _ Hc Hs).
Qed.

Lemma arrayrepeat_value_then_length : forall n st sc v len st1 sc1 x st2 sc2 k,
  E n st sc v = (st1, sc1, SVal x) ->
  E n st1 sc1 len = (st2, sc2, SVal (VInt k)) ->
  E (S n) st sc (IArrayRepeat v len) =
  if (k <? 0)%Z then (st2, sc2, SError E_NegativeLength) else (st2, sc2, SVal (repeat_value x k)).
Proof.
  intros n st sc v len st1 sc1 x st2 sc2 k Hv Hl.
  rewrite exec_S_IArrayRepeat, (with_val_val _ _ _ _ _ _ _ _ Hv), (with_val_val _ _ _ _ _ _ _ _ Hl).
  reflexivity.
Qed.

Lemma arrayrepeat_value_signal : forall n st sc v len st1 sc1 s,
  E n st sc v = (st1, sc1, s) -> nonval s ->
  E (S n) st sc (IArrayRepeat v len) = (st1, sc1, s).
Proof. intros n st sc v len st1 sc1 s Hv Hs. rewrite exec_S_IArrayRepeat. exact (with_val_sig _ _ _ _ _ _ _ _ Hv Hs). Qed.

Lemma arrayrepeat_length_signal : forall n st sc v len st1 sc1 x st2 sc2 s,
  E n st sc v = (st1, sc1, SVal x) ->
  E n st1 sc1 len = (st2, sc2, s) -> nonval s ->
  E (S n) st sc (IArrayRepeat v len) = (st2, sc2, s).
Proof.
  intros n st sc v len st1 sc1 x st2 sc2 s Hv Hl Hs.
  rewrite exec_S_IArrayRepeat, (with_val_val _ _ _ _ _ _ _ _ Hv). exact (with_val_sig _ _ _ _ _ _ _ _ Hl Hs).
Qed.

Lemma reduce_order : forall n st sc it init f st1 sc1 itv st2 sc2 initv st3 sc3 fv,
  E n st sc it = (st1, sc1, SVal itv) ->
  E n st1 sc1 init = (st2, sc2, SVal initv) ->
  E n st2 sc2 f = (st3, sc3, SVal fv) ->
  E (S n) st sc (IReduce it init f) =
  match itv, fv with
  | VFun _ _ _, VFun _ _ _ => reduce_def (E n) itv fv n st3 sc3 initv
  | _, _ => (st3, sc3, SPanic)
  end.
Proof.
  intros n st sc it init f st1 sc1 itv st2 sc2 initv st3 sc3 fv Hit Hinit Hf.
  rewrite exec_S_IReduce, (with_val_val _ _ _ _ _ _ _ _ Hit), (with_val_val _ _ _ _ _ _ _ _ Hinit),
    (with_val_val _ _ _ _ _ _ _ _ Hf). reflexivity.
Qed.

Lemma reduce_it_signal : forall n st sc it init f st1 sc1 s,
  E n st sc it = (st1, sc1, s) -> nonval s ->
  E (S n) st sc (IReduce it init f) = (st1, sc1, s).
Proof. intros n st sc it init f st1 sc1 s Hit Hs. rewrite exec_S_IReduce. exact (with_val_sig _ _ _ _ _ _ _ _ Hit Hs). Qed.

Lemma reduce_init_signal : forall n st sc it init f st1 sc1 itv st2 sc2 s,
  E n st sc it = (st1, sc1, SVal itv) ->
  E n st1 sc1 init = (st2, sc2, s) -> nonval s ->
  E (S n) st sc (IReduce it init f) = (st2, sc2, s).
Proof.
  intros n st sc it init f st1 sc1 itv st2 sc2 s Hit Hinit Hs.
  rewrite exec_S_IReduce, (with_val_val _ _ _ _ _ _ _ _ Hit). exact (with_val_sig _ _ _ _ _ _ _ _ Hinit Hs).
Qed.

Lemma reduce_f_signal : forall n st sc it init f st1 sc1 itv st2 sc2 initv st3 sc3 s,
  E n st sc it = (st1, sc1, SVal itv) ->
  E n st1 sc1 init = (st2, sc2, SVal initv) ->
  E n st2 sc2 f = (st3, sc3, s) -> nonval s ->
  E (S n) st sc (IReduce it init f) = (st3, sc3, s).
Proof.
  intros n st sc it init f st1 sc1 itv st2 sc2 initv st3 sc3 s Hit Hinit Hf Hs.
  rewrite exec_S_IReduce, (with_val_val _ _ _ _ _ _ _ _ Hit), (with_val_val _ _ _ _ _ _ _ _ Hinit).
  exact (with_val_sig _ _ _ _ _ _ _ _ Hf Hs).
Qed.

(* --- 17. calls and assignments --- *)
Lemma call_function_then_args : forall n st sc f args st1 sc1 fv vs st2 sc2,
  E (S n) st sc f = (st1, sc1, SVal fv) ->
  runs (E n) args st1 sc1 vs st2 sc2 ->
  E (S (S n)) st sc (IBin FunctionCall f (ITuple args)) = call_v_def (E (S n)) fv vs st2 sc2.
Proof.
  intros n st sc f args st1 sc1 fv vs st2 sc2 Hf Hr.
  rewrite (bin_both _ _ _ _ _ _ _ _ _ _ _ _) with (3 := Hf) (4 := tuple_values _ _ _ _ _ _ _ Hr) by discriminate.
  reflexivity.
Qed.

Lemma call_function_signal : forall n st sc f a st1 sc1 s,
  E n st sc f = (st1, sc1, s) -> nonval s ->
  E (S n) st sc (IBin FunctionCall f a) = (st1, sc1, s).
Proof. intros n st sc f a. apply bin_lhs_signal. Qed.

Lemma call_argument_signal : forall n st sc f l1 x l2 st1 sc1 fv vs st2 sc2 st3 sc3 s,
  E (S n) st sc f = (st1, sc1, SVal fv) ->
  runs (E n) l1 st1 sc1 vs st2 sc2 ->
  E n st2 sc2 x = (st3, sc3, s) -> nonval s ->
  E (S (S n)) st sc (IBin FunctionCall f (ITuple (l1 ++ x :: l2))) = (st3, sc3, s).
Proof.
  intros n st sc f l1 x l2 st1 sc1 fv vs st2 sc2 st3 sc3 s Hf Hr Hx Hs.
  apply (bin_rhs_signal _ _ _ _ _ _ _ _ _ _ _ _) with (3 := Hf); try discriminate; [|exact Hs].
  exact (tuple_stops_at_first_signal _ _ _ _ _ _ _ _ _ _ _ _ Hr Hx Hs).
Qed.

Lemma assign_target_then_value : forall n st sc l r st1 sc1 loc t st2 sc2 rv cur,
  E n st sc l = (st1, sc1, SVal (VMut loc t)) ->
  E n st1 sc1 r = (st2, sc2, SVal rv) ->
  nth_error (s_cells st2) loc = Some cur ->
  E (S n) st sc (IBin Assign l r) = (write_cell st2 loc rv, sc2, SVal rv).
Proof.
  intros n st sc l r st1 sc1 loc t st2 sc2 rv cur Hl Hr Hcell.
  rewrite (bin_both _ _ _ _ _ _ _ _ _ _ _ _) with (3 := Hl) (4 := Hr) by discriminate.
  unfold bin_dispatch. rewrite Hcell. reflexivity.
Qed.

(* compound assignment: the cell is read in the store AFTER the right operand ran *)
Lemma opassign_reads_after_rhs : forall n st sc op bop l r st1 sc1 loc t st2 sc2 rv cur,
  assign_base op = Some bop ->
  E n st sc l = (st1, sc1, SVal (VMut loc t)) ->
  E n st1 sc1 r = (st2, sc2, SVal rv) ->
  nth_error (s_cells st2) loc = Some cur ->
  E (S n) st sc (IBin op l r) =
  sig_of_outcome (op_exec powf bop cur rv) (fun v => (write_cell st2 loc v, sc2, SVal v)) st2 sc2.
Proof.
  intros n st sc op bop l r st1 sc1 loc t st2 sc2 rv cur Hop Hl Hr Hcell.
  destruct op; try discriminate Hop;
    (rewrite (bin_both _ _ _ _ _ _ _ _ _ _ _ _) with (3 := Hl) (4 := Hr) by discriminate);
    unfold bin_dispatch; rewrite Hop, Hcell; reflexivity.
Qed.

Lemma assign_non_cell_panics : forall n st sc l r st1 sc1 lv st2 sc2 rv,
  E n st sc l = (st1, sc1, SVal lv) -> (forall loc t, lv <> VMut loc t) ->
  E n st1 sc1 r = (st2, sc2, SVal rv) ->
  E (S n) st sc (IBin Assign l r) = (st2, sc2, SPanic).
Proof.
  intros n st sc l r st1 sc1 lv st2 sc2 rv Hl Hlv Hr.
  rewrite (bin_both _ _ _ _ _ _ _ _ _ _ _ _) with (3 := Hl) (4 := Hr) by discriminate.
  unfold bin_dispatch. destruct lv; try reflexivity. exfalso. exact (Hlv loc t eq_refl).
Qed.

(* --- 18. only the chosen branch runs --- *)
Lemma if_true_store : forall n st sc c t f st1 sc1,
  E n st sc c = (st1, sc1, SVal (VBool true)) ->
  sto (E (S n) st sc (IIfElse c t f)) = sto (E n st1 sc1 t).
Proof. intros n st sc c t f st1 sc1 Hc. rewrite (if_true _ _ _ _ _ _ _ _ _ _ Hc). reflexivity. Qed.

Lemma if_false_store : forall n st sc c t f st1 sc1,
  E n st sc c = (st1, sc1, SVal (VBool false)) ->
  sto (E (S n) st sc (IIfElse c t f)) = sto (E n st1 sc1 f).
Proof. intros n st sc c t f st1 sc1 Hc. rewrite (if_false _ _ _ _ _ _ _ _ _ _ Hc). reflexivity. Qed.

(* the branch not taken is irrelevant: it can be replaced by anything *)
Lemma if_true_ignores_else : forall n st sc c t f f' st1 sc1,
  E n st sc c = (st1, sc1, SVal (VBool true)) ->
  E (S n) st sc (IIfElse c t f) = E (S n) st sc (IIfElse c t f').
Proof.
  intros n st sc c t f f' st1 sc1 Hc.
  rewrite (if_true _ _ _ _ _ _ _ _ _ _ Hc), (if_true _ _ _ _ _ _ _ _ _ _ Hc). reflexivity.
Qed.

Lemma if_false_ignores_then : forall n st sc c t t' f st1 sc1,
  E n st sc c = (st1, sc1, SVal (VBool false)) ->
  E (S n) st sc (IIfElse c t f) = E (S n) st sc (IIfElse c t' f).
Proof.
  intros n st sc c t t' f st1 sc1 Hc.
  rewrite (if_false _ _ _ _ _ _ _ _ _ _ Hc), (if_false _ _ _ _ _ _ _ _ _ _ Hc). reflexivity.
Qed.

Lemma and_false_ignores_rhs : forall n st sc l r r' st1 sc1,
  E n st sc l = (st1, sc1, SVal (VBool false)) ->
  E (S n) st sc (IBin And l r) = E (S n) st sc (IBin And l r').
Proof.
  intros n st sc l r r' st1 sc1 Hl.
  rewrite (and_short_circuit _ _ _ _ _ _ _ Hl), (and_short_circuit _ _ _ _ _ _ _ Hl). reflexivity.
Qed.

Lemma or_true_ignores_rhs : forall n st sc l r r' st1 sc1,
  E n st sc l = (st1, sc1, SVal (VBool true)) ->
  E (S n) st sc (IBin Or l r) = E (S n) st sc (IBin Or l r').
Proof.
  intros n st sc l r r' st1 sc1 Hl.
  rewrite (or_short_circuit _ _ _ _ _ _ _ Hl), (or_short_circuit _ _ _ _ _ _ _ Hl). reflexivity.
Qed.

Lemma match_selected_ignores_rest : forall n st sc x nm t b rest rest' st1 sc1 v,
  E n st sc x = (st1, sc1, SVal v) -> matches (as_type v) t = true ->
  E (S n) st sc (IMatch x (ArmType nm t b :: rest)) = E (S n) st sc (IMatch x (ArmType nm t b :: rest')).
Proof.
  intros n st sc x nm t b rest rest' st1 sc1 v Hx Hm.
  rewrite (match_type_arm_selected _ _ _ _ _ _ _ _ _ _ _ _ _ Hx Hm),
          (match_type_arm_selected _ _ _ _ _ _ _ _ _ _ _ _ _ Hx Hm). reflexivity.
Qed.

Lemma ifset_match_ignores_else : forall n st sc nm t x ifm els els' st1 sc1 v,
  E n st sc x = (st1, sc1, SVal v) -> matches (as_type v) t = true ->
  E (S n) st sc (ISetIfElse nm t x ifm els) = E (S n) st sc (ISetIfElse nm t x ifm els').
Proof.
  intros n st sc nm t x ifm els els' st1 sc1 v Hx Hm.
  rewrite (ifset_match _ _ _ _ _ _ _ _ _ _ _ _ _ Hx Hm), (ifset_match _ _ _ _ _ _ _ _ _ _ _ _ _ Hx Hm).
  reflexivity.
Qed.

Lemma ifset_else_ignores_match : forall n st sc nm t x ifm ifm' els st1 sc1 v,
  E n st sc x = (st1, sc1, SVal v) -> matches (as_type v) t = false ->
  E (S n) st sc (ISetIfElse nm t x ifm els) = E (S n) st sc (ISetIfElse nm t x ifm' els).
Proof.
  intros n st sc nm t x ifm ifm' els st1 sc1 v Hx Hm.
  rewrite (ifset_else _ _ _ _ _ _ _ _ _ _ _ _ _ Hx Hm), (ifset_else _ _ _ _ _ _ _ _ _ _ _ _ _ Hx Hm).
  reflexivity.
Qed.

End EvalOrder.

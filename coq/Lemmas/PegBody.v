(* PegBody.v — reasoning interface to the PEG interpreter of Model/Peg.v.
   [peg_call] is a fixpoint on the fuel whose body contains a local fixpoint over the
   rule body; for proofs the local fixpoint is restated as the top-level [peg_body]
   (same text) and one unfolding step of [peg_call] as [call_step]:
   [peg_call_S : peg_call g t (S f) r .. = call_step g t f r ..] holds by computation. *)
From SSL.Model Require Import Base Peg.

(* standalone copy of the body interpreter *)
Section Body.
  Variable g : peg_grammar.
  Variable callf : N -> atomicity -> bool -> list Z -> nat -> list tree -> pres.
  Variable f : nat.
  Variable na : bool.
  Variable atom_body : atomicity.
  Definition bskip (look : bool) (rest : list Z) (pos : nat) (acc : list tree) : pres :=
    if na then peg_skip_with g f (fun w => callf w atom_body look) atom_body rest pos acc
    else POk rest pos acc.
  Fixpoint peg_body (e : peg) (look : bool) (rest : list Z) (pos : nat) (acc : list tree) {struct e} : pres :=
            match e with
            | PLit s => peg_of_match (peg_match_lit s rest pos) acc
            | PInsens s => peg_of_match (peg_match_insens s rest pos) acc
            | PRange lo hi => peg_match_char (peg_in_range lo hi) rest pos acc
            | PSeq a b =>
                pres_bind (peg_body a look rest pos acc) (fun r1 p1 a1 =>
                  pres_bind (bskip look r1 p1 a1) (fun r2 p2 a2 => peg_body b look r2 p2 a2))
            | PChoice a b =>
                match peg_body a look rest pos acc with
                | PFail => peg_body b look rest pos acc
                | x => x
                end
            | POpt a =>
                match peg_body a look rest pos acc with
                | PFail => POk rest pos acc
                | x => x
                end
            | PStar a =>
                if na then
                  match peg_body a look rest pos acc with
                  | PFail => POk rest pos acc
                  | PFuel => PFuel
                  | POk r1 p1 a1 =>
                      peg_rep_loop f (fun r p ac =>
                                    pres_bind (bskip look r p ac)
                                              (fun r2 p2 a2 => peg_body a look r2 p2 a2))
                               r1 p1 a1
                  end
                else peg_rep_loop f (peg_body a look) rest pos acc
            | PPlus a =>
                pres_bind (peg_body a look rest pos acc) (fun r0 p0 a0 =>
                  if na then
                    pres_bind (bskip look r0 p0 a0)
                      (fun r0' p0' a0' =>
                         match peg_body a look r0' p0' a0' with
                         | PFail => POk r0' p0' a0'
                         | PFuel => PFuel
                         | POk r1 p1 a1 =>
                             peg_rep_loop f (fun r p ac =>
                                           pres_bind (bskip look r p ac)
                                                     (fun r2 p2 a2 => peg_body a look r2 p2 a2))
                                      r1 p1 a1
                         end)
                  else peg_rep_loop f (peg_body a look) r0 p0 a0)
            | PNot a =>
                match peg_body a true rest pos [] with
                | PFail => POk rest pos acc
                | PFuel => PFuel
                | POk _ _ _ => PFail
                end
            | PAnd a =>
                match peg_body a true rest pos [] with
                | POk _ _ _ => POk rest pos acc
                | x => x
                end
            | PCall r' => callf r' atom_body look rest pos acc
            | PBuiltin B_SOI => match pos with O => POk rest pos acc | S _ => PFail end
            | PBuiltin B_EOI =>
                match rest with
                | [] => if negb look && negb (peg_is_atomic atom_body)
                        then POk rest pos (Node (g_eoi g) pos pos [] :: acc)
                        else POk rest pos acc
                | _ :: _ => PFail
                end
            | PBuiltin B_NEWLINE => peg_match_newline rest pos acc
            | PBuiltin b => peg_match_char (peg_builtin_char b) rest pos acc
            end.
End Body.

Definition call_step (g : peg_grammar) (t : ptrie (modifier * peg)) (f : nat) (r : N) (atom : atomicity) (look : bool)
           (rest : list Z) (pos : nat) (acc : list tree) : pres :=
      match peg_rule_find t r with
      | None => PFail
      | Some (m, body) =>
        let sk := peg_is_skip_rule g r in
        let na :=
          match m with
          | Atomic | CompoundAtomic => false
          | Normal | Silent | NonAtomic => negb sk
          end in
        let atom_rule :=
          match m with
          | CompoundAtomic => AtCompound
          | NonAtomic => AtNonAtomic
          | Normal | Silent | Atomic => atom
          end in
        let atom_body :=
          match m with
          | Atomic => AtAtomic
          | CompoundAtomic => AtCompound
          | Normal | Silent | NonAtomic => if sk then AtAtomic else atom_rule
          end in
        let token :=
          match m with
          | Silent => false
          | _ => negb look && negb (peg_is_atomic atom_rule)
          end in
        if token then
          match peg_body g (peg_call g t f) f na atom_body body look rest pos [] with
          | POk rest' pos' kids => POk rest' pos' (Node r pos pos' (rev' kids) :: acc)
          | x => x
          end
        else peg_body g (peg_call g t f) f na atom_body body look rest pos acc
      end.

Lemma peg_call_S g t f r atom look rest pos acc :
  peg_call g t (S f) r atom look rest pos acc = call_step g t f r atom look rest pos acc.
Proof.
  unfold call_step. cbn [peg_call]. destruct (peg_rule_find t r) as [[m body]|]; reflexivity.
Qed.


(* ---------------------------------------------------------------- small facts *)

Lemma pres_bind_ok r p a k : pres_bind (POk r p a) k = k r p a.
Proof. reflexivity. Qed.

Lemma match_lit_app s rest pos :
  peg_match_lit s (s ++ rest) pos = Some (rest, length s + pos).
Proof.
  revert pos. induction s as [|c s IH]; intros pos; [reflexivity|].
  cbn [app peg_match_lit length]. rewrite Z.eqb_refl, IH. f_equal. f_equal. lia.
Qed.

(* a repetition over a list of chunks: every chunk is accepted by the loop body, what
   follows the last chunk is refused *)
Section Loop.
  Variable body : list Z -> nat -> list tree -> pres.

  Definition step_ok (text tail : list Z) (tr : tree) : Prop :=
    forall pos acc, exists pos', body (text ++ tail) pos acc = POk tail pos' (tr :: acc).

  Fixpoint chunks_text (cs : list (list Z * tree)) : list Z :=
    match cs with [] => [] | (t, _) :: cs' => t ++ chunks_text cs' end.

  Fixpoint chunks_ok (cs : list (list Z * tree)) (rest : list Z) : Prop :=
    match cs with
    | [] => True
    | (t, tr) :: cs' => step_ok t (chunks_text cs' ++ rest) tr /\ chunks_ok cs' rest
    end.

  Lemma rep_loop_chunks cs : forall k rest pos acc,
    (length cs < k)%nat -> chunks_ok cs rest ->
    (forall pos acc, body rest pos acc = PFail) ->
    exists pos', peg_rep_loop k body (chunks_text cs ++ rest) pos acc =
                 POk rest pos' (rev (map snd cs) ++ acc).
  Proof.
    induction cs as [|[t tr] cs IH]; intros k rest pos acc Hk Hok Hend.
    - destruct k as [|k]; [cbn in Hk; lia|].
      exists pos. cbn [chunks_text app peg_rep_loop]. rewrite Hend. reflexivity.
    - destruct k as [|k]; [cbn in Hk; lia|].
      destruct Hok as [Hstep Hok].
      cbn [chunks_text]. rewrite <- app_assoc. cbn [peg_rep_loop].
      destruct (Hstep pos acc) as (p1 & ->).
      destruct (IH k rest p1 (tr :: acc)) as (p2 & ->); [cbn in Hk; lia | exact Hok | exact Hend |].
      exists p2. cbn [map snd rev]. rewrite <- app_assoc. reflexivity.
  Qed.
End Loop.

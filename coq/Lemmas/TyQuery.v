(* TyQuery.v — the Option-returning queries of M2 return well-formed types
   when asked about a well-formed type. *)
From SSL.Model Require Import Base Ty.
From SSL.Lemmas Require Import TyFuel TyEq TyMatches TyJoin.

Lemma fold_opt_step_none {A} (f : A -> A -> option A) rest :
  fold_left (fun acc c => match acc, c with
                          | Some a, Some c => f a c
                          | _, _ => None end) rest None = None.
Proof. induction rest as [|c rest IH]; cbn [fold_left]; [reflexivity|exact IH]. Qed.

Lemma fold_opt_inv {A} (P : A -> Prop) (f : A -> A -> option A) l r :
  (forall a c x, P a -> P c -> f a c = Some x -> P x) ->
  (forall t, In (Some t) l -> P t) ->
  fold_opt f l = Some r -> P r.
Proof.
  intros Hf Hl. destruct l as [|first rest]; cbn [fold_opt]; [discriminate|].
  assert (Hfirst : forall t, first = Some t -> P t)
    by (intros t ->; apply Hl; left; reflexivity).
  assert (Hrest : forall t, In (Some t) rest -> P t)
    by (intros t Ht; apply Hl; right; exact Ht).
  clear Hl. revert first Hfirst.
  induction rest as [|c rest IH]; intros acc Hacc; cbn [fold_left].
  - intros ->. apply Hacc. reflexivity.
  - destruct acc as [a|]; [|rewrite fold_opt_step_none; discriminate].
    destruct c as [c|]; [|rewrite fold_opt_step_none; discriminate].
    apply IH.
    + intros t Ht. apply Hrest. right. exact Ht.
    + intros t Ht. apply (Hf a c t); [apply Hacc; reflexivity| |exact Ht].
      apply Hrest. left. reflexivity.
Qed.

Lemma fold_concat_wf_some l r :
  (forall t, In (Some t) l -> wf_ty t = true) -> fold_concat l = Some r -> wf_ty r = true.
Proof.
  unfold fold_concat. apply (fold_opt_inv (fun t => wf_ty t = true)).
  intros a c x Wa Wc H. injection H as <-. apply concat_wf; assumption.
Qed.

Lemma query_multi_wf (q : ty -> option ty) ms r :
  (forall m x, In m ms -> q m = Some x -> wf_ty x = true) ->
  fold_concat (map q ms) = Some r -> wf_ty r = true.
Proof.
  intros H. apply fold_concat_wf_some. intros t Ht. apply in_map_iff in Ht.
  destruct Ht as [m [Hq Hm]]. apply (H m t Hm Hq).
Qed.

Ltac multi_case IH W :=
  apply wf_multi_inv in W; destruct W as [_ [_ [W _]]];
  apply query_multi_wf; intros m x Hm Hq; apply (IH m); [szs|apply W; exact Hm|exact Hq].

Lemma index_result_wf t r : wf_ty t = true -> index_result t = Some r -> wf_ty r = true.
Proof.
  revert r. induction t as [t IH] using ty_size_ind. intros r W.
  destruct t as [| | | | | | |ps r0|e|ts|ms|e|fs]; cbn [index_result]; try discriminate.
  - intros H. injection H as <-. reflexivity.
  - intros H. injection H as <-. exact W.
  - multi_case IH W.
Qed.

Lemma element_type_wf t r : wf_ty t = true -> element_type t = Some r -> wf_ty r = true.
Proof.
  revert r. induction t as [t IH] using ty_size_ind. intros r W.
  destruct t as [| | | | | | |ps r0|e|ts|ms|e|fs]; cbn [element_type]; try discriminate.
  - intros H. injection H as <-. exact W.
  - multi_case IH W.
Qed.

Lemma fn_return_type_wf t r : wf_ty t = true -> fn_return_type t = Some r -> wf_ty r = true.
Proof.
  revert r. induction t as [t IH] using ty_size_ind. intros r W.
  destruct t as [| | | | | | |ps r0|e|ts|ms|e|fs]; cbn [fn_return_type]; try discriminate.
  - intros H. injection H as <-. apply wf_fun_inv in W. apply W.
  - multi_case IH W.
Qed.

Lemma mut_element_type_spec_wf t r :
  wf_ty t = true -> mut_element_type_spec t = Some r -> wf_ty r = true.
Proof.
  revert r. induction t as [t IH] using ty_size_ind. intros r W.
  destruct t as [| | | | | | |ps r0|e|ts|ms|e|fs]; cbn [mut_element_type_spec]; try discriminate.
  - multi_case IH W.
  - intros H. injection H as <-. exact W.
Qed.

Lemma mut_element_type_wf t r :
  wf_ty t = true -> mut_element_type t = Some r -> wf_ty r = true.
Proof.
  revert r. induction t as [t IH] using ty_size_ind. intros r W.
  destruct t as [| | | | | | |ps r0|e|ts|ms|e|fs]; cbn [mut_element_type]; try discriminate.
  - destruct ms as [|m0 rest]; [discriminate|].
    apply wf_multi_inv in W. destruct W as [_ [_ [W _]]].
    apply fold_concat_wf_some. intros t [Ht|Ht].
    + apply (element_type_wf m0 t); [apply W; left; reflexivity|exact Ht].
    + apply in_map_iff in Ht. destruct Ht as [m [Hq Hm]].
      assert (Hm' : In m (m0 :: rest)) by (right; exact Hm). clear Hm.
      apply (IH m); [szs|apply W; exact Hm'|exact Hq].
  - intros H. injection H as <-. exact W.
Qed.

Lemma tuple_element_at_wf i t r :
  wf_ty t = true -> tuple_element_at i t = Some r -> wf_ty r = true.
Proof.
  revert r. induction t as [t IH] using ty_size_ind. intros r W.
  destruct t as [| | | | | | |ps r0|e|ts|ms|e|fs]; cbn [tuple_element_at]; try discriminate.
  - intros H. apply nth_error_In in H. apply (wf_tup_inv _ W). exact H.
  - multi_case IH W.
Qed.

Lemma field_type_wf k t r : wf_ty t = true -> field_type k t = Some r -> wf_ty r = true.
Proof.
  revert r. induction t as [t IH] using ty_size_ind. intros r W.
  destruct t as [| | | | | | |ps r0|e|ts|ms|e|fs]; cbn [field_type]; try discriminate.
  - multi_case IH W.
  - intros H. apply assoc_in in H. cbn [wf_ty] in W. apply andb_true_iff in W.
    destruct W as [_ W]. rewrite forallb_forall in W. apply (W (k, r)). exact H.
Qed.

(* list-valued queries *)
Lemma params_wf t l : wf_ty t = true -> params t = Some l -> forallb wf_ty l = true.
Proof.
  revert l. induction t as [t IH] using ty_size_ind. intros l W.
  destruct t as [| | | | | | |ps r0|e|ts|ms|e|fs]; cbn [params]; try discriminate.
  - intros H. injection H as <-. apply wf_fun_inv in W. apply forallb_forall. apply W.
  - apply wf_multi_inv in W. destruct W as [_ [_ [W _]]].
    apply (fold_opt_inv (fun l => forallb wf_ty l = true)).
    + intros a c x Wa Wc. destruct (Nat.eqb (length a) (length c)); [|discriminate].
      intros H. injection H as <-. rewrite forallb_forall in Wa, Wc.
      apply forallb_zip_with. intros x y Hx Hy. apply conjoin_wf; [apply Wa; exact Hx|apply Wc; exact Hy].
    + intros x Hx. apply in_map_iff in Hx. destruct Hx as [m [Hq Hm]].
      apply (IH m); [szs|apply W; exact Hm|exact Hq].
Qed.

Lemma flatten_tuple_wf t l : wf_ty t = true -> flatten_tuple t = Some l -> forallb wf_ty l = true.
Proof.
  revert l. induction t as [t IH] using ty_size_ind. intros l W.
  destruct t as [| | | | | | |ps r0|e|ts|ms|e|fs]; cbn [flatten_tuple]; try discriminate.
  - intros H. injection H as <-. exact W.
  - apply wf_multi_inv in W. destruct W as [_ [_ [W _]]].
    apply (fold_opt_inv (fun l => forallb wf_ty l = true)).
    + intros a c x Wa Wc. destruct (Nat.eqb (length a) (length c)); [|discriminate].
      intros H. injection H as <-. rewrite forallb_forall in Wa, Wc.
      apply forallb_zip_with. intros x y Hx Hy. apply concat_wf; [apply Wa; exact Hx|apply Wc; exact Hy].
    + intros x Hx. apply in_map_iff in Hx. destruct Hx as [m [Hq Hm]].
      apply (IH m); [szs|apply W; exact Hm|exact Hq].
Qed.

Lemma iter_element_wf t r : wf_ty t = true -> iter_element t = Some r -> wf_ty r = true.
Proof.
  revert r. induction t as [t IH] using ty_size_ind. intros r W.
  destruct t as [| | | | | | |ps r0|e|ts|ms|e|fs]; cbn [iter_element]; try discriminate.
  - destruct ps as [|p ps]; [|discriminate].
    destruct (flatten_tuple r0) as [l|] eqn:Ef; [|discriminate].
    destruct l as [|t0 [|t1 [|t2 l]]]; try discriminate.
    destruct (ty_eqb t0 TBool); [|discriminate].
    intros H. injection H as <-.
    apply wf_fun_inv in W. destruct W as [_ W].
    pose proof (flatten_tuple_wf r0 _ W Ef) as Hl. cbn [forallb] in Hl.
    apply andb_true_iff in Hl. destruct Hl as [_ Hl].
    apply andb_true_iff in Hl. destruct Hl as [Hl _]. exact Hl.
  - multi_case IH W.
Qed.

(* RecrComp1.v — the pass composed with itself, part 1 (definitions, expressions).

   A closure literal is recreated TWICE: at parse time with the rest of the program (pass 1,
   environment e1, empty creating scopes), and when the closure is created at run time
   (pass 2, a fresh environment e2 holding only the parameters, creating scopes = the
   run-time scopes sc: this is how the closure captures).  The theorem of RecrComp2:

       pass 2 applied to the result of pass 1   =   pass 2 applied to the original

   (same instruction, same environment, same error), provided the two environments are
   related by [Rel e1 e2]: whatever pass 1 knows as a constant, pass 2 knows as the same
   constant or finds bound to it in sc.  Hence closure creation in the folded program and in
   the original program allocates literally the same closure.

   Fuel: any fuels g1 >= isize i1 and g >= isize i. *)
From SSL.Model Require Import Base Ty Float Value Ops Seq Syntax Rt Recreate Exec Check.
From SSL.Lemmas Require Import ExecLemmas FoldLemmas RecrUnfold RecrMono RecrDefs RecrKeeps RecrSim1 RecrSyn.

Arguments matches : simpl never.
Local Open Scope Z_scope.

Section Comp.
Variable powf : fbits -> fbits -> fbits.
Variable cl : bool.
Variable sc : scopes.
Notation R1 f := (recreate powf f []).
Notation R2 g := (recreate powf g sc).

Definition Rel (e1 e2 : lenv) : Prop :=
  forall n v, lenv_get n e1 = Some (LVariable v) ->
    match lenv_get n e2 with
    | Some lv2 => lv2 = LVariable v
    | None => scopes_get n sc = Some v
    end.

Lemma Rel_push e1 e2 : Rel e1 e2 -> Rel (lenv_push e1) (lenv_push e2).
Proof. intros H n v Hn. exact (H n v Hn). Qed.

Lemma Rel_insert e1 e2 n lv1 lv2 :
  (forall v, lv1 = LVariable v -> lv2 = LVariable v) -> Rel e1 e2 ->
  Rel (lenv_insert n lv1 e1) (lenv_insert n lv2 e2).
Proof.
  intros Hl H m v Hm. destruct (ident_eq_dec m n) as [->|Hne].
  - rewrite lget_insert_same in Hm |- *. injection Hm as ->. apply Hl. reflexivity.
  - rewrite lget_insert_other in Hm |- * by exact Hne. exact (H m v Hm).
Qed.

Lemma Rel_bind e1 e2 n t : Rel e1 e2 ->
  Rel (lenv_insert n (LOther t) (lenv_push e1)) (lenv_insert n (LOther t) (lenv_push e2)).
Proof. intros H. apply Rel_insert; [intros v C; discriminate C|apply Rel_push; exact H]. Qed.

Lemma Rel_push_fn e1 e2 vars fn1 fn2 r1 r2 : Rel e1 e2 ->
  Rel (lenv_push_fn vars fn1 r1 e1) (lenv_push_fn vars fn2 r2 e2).
Proof.
  intros H n v Hn. rewrite lenv_get_push_fn in Hn |- *.
  destruct (assoc n vars) as [lv|]; [injection Hn as ->; reflexivity|exact (H n v Hn)].
Qed.

Definition cexpr (f : nat) : Prop := forall e1 i i1 e1',
  R1 f e1 i = Ok (i1, e1') -> wfi cl false i = true -> dok i1 = true ->
  forall e2, Rel e1 e2 -> forall g1 g, (isize i1 <= g1)%nat -> (isize i <= g)%nat ->
  R2 g1 e2 i1 = R2 g e2 i.

(* what pass 1 does to the environment of an expression: nothing *)
Lemma p1_same f e1 i i1 e1' : R1 f e1 i = Ok (i1, e1') -> wfi cl false i = true -> e1' = e1.
Proof. apply (rec_same_env powf [] cl f). Qed.
Lemma p2_same g e2 i i2 e2' : R2 g e2 i = Ok (i2, e2') -> wfi cl false i = true -> e2' = e2.
Proof. apply (rec_same_env powf sc cl g). Qed.

Lemma fuel_S i g : (isize i <= g)%nat -> exists g', g = S g'.
Proof. intros H. pose proof (isize_pos i). destruct g as [|g']; [lia|eauto]. Qed.

Lemma R2_const g e2 v : (1 <= g)%nat -> R2 g e2 (IVar v) = Ok (IVar v, e2).
Proof. intros H. destruct g as [|g]; [lia|]. apply recreate_S_IVar. Qed.

(* pass 1 folded x to the constant v: the direct pass finds the same constant *)
Lemma direct_const f (IH : cexpr f) e1 x v e1' e2 g :
  R1 f e1 x = Ok (IVar v, e1') -> wfi cl false x = true -> Rel e1 e2 -> (isize x <= g)%nat ->
  R2 g e2 x = Ok (IVar v, e2).
Proof.
  intros H W HR Hg. rewrite <- (IH _ _ _ _ H W eq_refl e2 HR 1%nat g); [|cbn [isize]; lia|exact Hg].
  apply R2_const. lia.
Qed.

(* ================================================================= *)
(* expression lists                                                   *)
(* ================================================================= *)
Lemma clist f (IH : cexpr f) : forall l e1 l1 e1',
  rec_list_def (R1 f) l e1 = Ok (l1, e1') ->
  forallb (wfi cl false) l = true -> forallb dok l1 = true ->
  forall e2, Rel e1 e2 -> forall g1 g, (list_isize l1 <= g1)%nat -> (list_isize l <= g)%nat ->
  rec_list_def (R2 g1) l1 e2 = rec_list_def (R2 g) l e2.
Proof.
  induction l as [|x l IHl]; intros e1 l1 e1' H W D e2 HR g1 g G1 G.
  - injection H as <- <-. reflexivity.
  - cbn [rec_list_def] in H. fold (rec_list_def (R1 f)) in H.
    inv_bind H p Hp. destruct p as [x1 e1a]. inv_bind H q Hq. destruct q as [l1' e1b].
    injection H as <- <-.
    cbn [forallb] in W, D. apply andb_true_iff in W. apply andb_true_iff in D.
    destruct W as [Wx Wl]. destruct D as [Dx Dl].
    pose proof (p1_same _ _ _ _ _ Hp Wx) as ->.
    rewrite list_isize_cons in G1, G.
    cbn [rec_list_def]. fold (rec_list_def (R2 g1)). fold (rec_list_def (R2 g)).
    rewrite (IH _ _ _ _ Hp Wx Dx e2 HR g1 g) by lia.
    destruct (R2 g e2 x) as [[x2 e2a]| | |] eqn:E2; try reflexivity. cbn [obind].
    pose proof (p2_same _ _ _ _ _ E2 Wx) as ->.
    rewrite (IHl _ _ _ Hq Wl Dl e2 HR g1 g) by lia. reflexivity.
Qed.

Lemma list_isize_consts vs : list_isize (map IVar vs) = length vs.
Proof. induction vs as [|v vs IH]; [reflexivity|]. cbn [map list_isize isize]. rewrite IH. reflexivity. Qed.

(* pass 1 folded the list to constants: so does the direct pass *)
Lemma direct_consts f (IH : cexpr f) l e1 vs e1' e2 g :
  rec_list_def (R1 f) l e1 = Ok (map IVar vs, e1') -> forallb (wfi cl false) l = true ->
  Rel e1 e2 -> (list_isize l <= g)%nat -> (1 <= g)%nat ->
  rec_list_def (R2 g) l e2 = Ok (map IVar vs, e2).
Proof.
  intros H W HR Hg Hp.
  rewrite <- (clist f IH _ _ _ _ H W (dok_consts vs) e2 HR (S (length vs)) g);
    [|rewrite list_isize_consts; lia|exact Hg].
  apply rec_list_consts.
Qed.

(* ================================================================= *)
(* constants, names                                                   *)
(* ================================================================= *)
Lemma cc_local f e1 nm lv i1 e1' :
  R1 (S f) e1 (ILocal nm lv) = Ok (i1, e1') ->
  forall e2, Rel e1 e2 -> forall g1 g, (isize i1 <= g1)%nat -> (1 <= g)%nat ->
  R2 g1 e2 i1 = R2 g e2 (ILocal nm lv).
Proof.
  intros H e2 HR g1 g G1 G. destruct g as [|g]; [lia|].
  rewrite recreate_S_ILocal in H |- *. unfold resolve_name in H.
  destruct (lenv_get nm e1) as [[ps r|v|t]|] eqn:Hg; cbn [obind scopes_get] in H; try discriminate H;
    injection H as <- <-.
  - destruct (fuel_S _ _ G1) as [g1' ->]. rewrite recreate_S_ILocal. reflexivity.
  - rewrite R2_const by (cbn [isize] in G1; lia). specialize (HR nm v Hg). unfold resolve_name.
    destruct (lenv_get nm e2) as [lv2|]; [subst lv2; reflexivity|rewrite HR; reflexivity].
  - destruct (fuel_S _ _ G1) as [g1' ->]. rewrite recreate_S_ILocal. reflexivity.
Qed.

(* ================================================================= *)
(* one operand                                                        *)
(* ================================================================= *)
Section Wrap.
Variable C : instr -> instr.
Hypothesis HR1 : forall f e x, R1 (S f) e (C x) = obind (R1 f e x) (fun '(x', e) => Ok (C x', e)).
Hypothesis HR2 : forall g e x, R2 (S g) e (C x) = obind (R2 g e x) (fun '(x', e) => Ok (C x', e)).
Hypothesis Hsz : forall x, isize (C x) = S (isize x).
Hypothesis Hdok : forall x, dok (C x) = dok x.

Lemma cc_wrap f (IH : cexpr f) e1 x i1 e1' :
  R1 (S f) e1 (C x) = Ok (i1, e1') -> wfi cl false x = true -> dok i1 = true ->
  forall e2, Rel e1 e2 -> forall g1 g, (isize i1 <= g1)%nat -> (isize (C x) <= g)%nat ->
  R2 g1 e2 i1 = R2 g e2 (C x).
Proof.
  intros H W D e2 HR g1 g G1 G. rewrite HR1 in H. inv_bind H p Hp. destruct p as [x1 e1a].
  injection H as <- <-. rewrite Hsz in G1, G. rewrite Hdok in D.
  destruct g1 as [|g1]; [lia|]. destruct g as [|g]; [lia|]. rewrite !HR2.
  rewrite (IH _ _ _ _ Hp W D e2 HR g1 g) by lia. reflexivity.
Qed.
End Wrap.

(* ================================================================= *)
(* prefix operators                                                   *)
(* ================================================================= *)
Lemma cc_un f (IH : cexpr f) e1 op x i1 e1' :
  R1 (S f) e1 (IUn op x) = Ok (i1, e1') -> wfi cl false x = true -> dok i1 = true ->
  forall e2, Rel e1 e2 -> forall g1 g, (isize i1 <= g1)%nat -> (isize (IUn op x) <= g)%nat ->
  R2 g1 e2 i1 = R2 g e2 (IUn op x).
Proof.
  intros H W D e2 HR g1 g G1 G. rewrite recreate_S_IUn in H. inv_bind H p Hp. destruct p as [x1 e1a].
  inv_bind H r Hr. injection H as <- <-. cbn [isize] in G.
  destruct g as [|g]; [lia|]. rewrite recreate_S_IUn.
  destruct (fold_un_cases _ _ _ Hr) as [[v [w [-> [Hop [Hu ->]]]]]| ->].
  - rewrite R2_const by (cbn [isize] in G1; lia).
    rewrite (direct_const f IH _ _ _ _ e2 g Hp W HR) by lia. cbn [obind]. rewrite Hr. reflexivity.
  - cbn [isize] in G1. cbn [dok] in D. destruct g1 as [|g1]; [lia|]. rewrite recreate_S_IUn.
    rewrite (IH _ _ _ _ Hp W D e2 HR g1 g) by lia. reflexivity.
Qed.

(* ================================================================= *)
(* binary operators                                                   *)
(* ================================================================= *)
Lemma cc_bin f (IH : cexpr f) e1 op l r i1 e1' : op <> And -> op <> Or ->
  R1 (S f) e1 (IBin op l r) = Ok (i1, e1') ->
  wfi cl false l = true -> wfi cl false r = true -> dok i1 = true ->
  forall e2, Rel e1 e2 -> forall g1 g, (isize i1 <= g1)%nat -> (isize (IBin op l r) <= g)%nat ->
  R2 g1 e2 i1 = R2 g e2 (IBin op l r).
Proof.
  intros NA NO H Wl Wr D e2 HR g1 g G1 G. rewrite recreate_S_IBin in H by assumption.
  inv_bind H p Hp. destruct p as [l1 e1a]. inv_bind H q Hq. destruct q as [r1 e1b].
  inv_bind H x Hx. injection H as <- <-.
  pose proof (p1_same _ _ _ _ _ Hp Wl) as ->. cbn [isize] in G.
  destruct g as [|g]; [lia|]. rewrite (recreate_S_IBin powf sc g e2 op l r NA NO).
  destruct (fold_bin_cases _ _ _ _ _ Hx) as [[a [b [v [-> [-> [Hf [Hv ->]]]]]]]| ->].
  - rewrite R2_const by (cbn [isize] in G1; lia).
    rewrite (direct_const f IH _ _ _ _ e2 g Hp Wl HR) by lia. cbn [obind].
    rewrite (direct_const f IH _ _ _ _ e2 g Hq Wr HR) by lia. cbn [obind].
    rewrite Hx. reflexivity.
  - cbn [isize] in G1. cbn [dok] in D. apply andb_true_iff in D. destruct D as [Dl Dr].
    destruct g1 as [|g1]; [lia|]. rewrite (recreate_S_IBin powf sc g1 e2 op l1 r1 NA NO).
    rewrite (IH _ _ _ _ Hp Wl Dl e2 HR g1 g) by lia.
    destruct (R2 g e2 l) as [[l2 e2a]| | |] eqn:E2; try reflexivity. cbn [obind].
    pose proof (p2_same _ _ _ _ _ E2 Wl) as ->.
    rewrite (IH _ _ _ _ Hq Wr Dr e2 HR g1 g) by lia. reflexivity.
Qed.

Lemma cc_and f (IH : cexpr f) e1 l r i1 e1' :
  R1 (S f) e1 (IBin And l r) = Ok (i1, e1') ->
  wfi cl false l = true -> wfi cl false r = true -> dok i1 = true ->
  forall e2, Rel e1 e2 -> forall g1 g, (isize i1 <= g1)%nat -> (isize (IBin And l r) <= g)%nat ->
  R2 g1 e2 i1 = R2 g e2 (IBin And l r).
Proof.
  intros H Wl Wr D e2 HR g1 g G1 G. rewrite recreate_S_And in H.
  inv_bind H p Hp. destruct p as [l1 e1a]. pose proof (p1_same _ _ _ _ _ Hp Wl) as ->.
  cbn [isize] in G. destruct g as [|g]; [lia|]. rewrite recreate_S_And.
  assert (Hc : (exists v, l1 = IVar v) \/ is_const l1 = false)
    by (destruct l1; try (right; reflexivity); left; eauto).
  destruct Hc as [[v ->]|Hc].
  - rewrite (direct_const f IH _ _ _ _ e2 g Hp Wl HR) by lia. cbn [obind].
    destruct v as [[|]| | | | | | | | |];
      try (injection H as <- <-; rewrite R2_const by (cbn [isize] in G1; lia); reflexivity).
    apply (IH _ _ _ _ H Wr D e2 HR g1 g); lia.
  - assert (H' : obind (R1 f e1 r) (fun '(r', e) => Ok (IBin And l1 r', e)) = Ok (i1, e1'))
      by (destruct l1; try exact H; discriminate Hc).
    clear H. inv_bind H' q Hq. destruct q as [r1 e1b]. injection H' as <- <-.
    cbn [dok] in D. apply andb_true_iff in D. destruct D as [Dl Dr].
    cbn [isize] in G1. destruct g1 as [|g1]; [lia|]. rewrite recreate_S_And.
    rewrite (IH _ _ _ _ Hp Wl Dl e2 HR g1 g) by lia.
    destruct (R2 g e2 l) as [[l2 e2a]| | |] eqn:E2; try reflexivity. cbn [obind].
    pose proof (p2_same _ _ _ _ _ E2 Wl) as ->.
    rewrite (IH _ _ _ _ Hq Wr Dr e2 HR g1 g) by lia. reflexivity.
Qed.

Lemma cc_or f (IH : cexpr f) e1 l r i1 e1' :
  R1 (S f) e1 (IBin Or l r) = Ok (i1, e1') ->
  wfi cl false l = true -> wfi cl false r = true -> dok i1 = true ->
  forall e2, Rel e1 e2 -> forall g1 g, (isize i1 <= g1)%nat -> (isize (IBin Or l r) <= g)%nat ->
  R2 g1 e2 i1 = R2 g e2 (IBin Or l r).
Proof.
  intros H Wl Wr D e2 HR g1 g G1 G. rewrite recreate_S_Or in H.
  inv_bind H p Hp. destruct p as [l1 e1a]. pose proof (p1_same _ _ _ _ _ Hp Wl) as ->.
  cbn [isize] in G. destruct g as [|g]; [lia|]. rewrite recreate_S_Or.
  assert (Hc : (exists v, l1 = IVar v) \/ is_const l1 = false)
    by (destruct l1; try (right; reflexivity); left; eauto).
  destruct Hc as [[v ->]|Hc].
  - rewrite (direct_const f IH _ _ _ _ e2 g Hp Wl HR) by lia. cbn [obind].
    destruct v as [[|]| | | | | | | | |];
      try (apply (IH _ _ _ _ H Wr D e2 HR g1 g); lia).
    injection H as <- <-. rewrite R2_const by (cbn [isize] in G1; lia). reflexivity.
  - assert (H' : obind (R1 f e1 r) (fun '(r', e) => Ok (IBin Or l1 r', e)) = Ok (i1, e1'))
      by (destruct l1; try exact H; discriminate Hc).
    clear H. inv_bind H' q Hq. destruct q as [r1 e1b]. injection H' as <- <-.
    cbn [dok] in D. apply andb_true_iff in D. destruct D as [Dl Dr].
    cbn [isize] in G1. destruct g1 as [|g1]; [lia|]. rewrite recreate_S_Or.
    rewrite (IH _ _ _ _ Hp Wl Dl e2 HR g1 g) by lia.
    destruct (R2 g e2 l) as [[l2 e2a]| | |] eqn:E2; try reflexivity. cbn [obind].
    pose proof (p2_same _ _ _ _ _ E2 Wl) as ->.
    rewrite (IH _ _ _ _ Hq Wr Dr e2 HR g1 g) by lia. reflexivity.
Qed.

(* ================================================================= *)
(* tuples, arrays                                                     *)
(* ================================================================= *)
Lemma cc_tuple f (IH : cexpr f) e1 es i1 e1' :
  R1 (S f) e1 (ITuple es) = Ok (i1, e1') -> forallb (wfi cl false) es = true -> dok i1 = true ->
  forall e2, Rel e1 e2 -> forall g1 g, (isize i1 <= g1)%nat -> (isize (ITuple es) <= g)%nat ->
  R2 g1 e2 i1 = R2 g e2 (ITuple es).
Proof.
  intros H W D e2 HR g1 g G1 G. rewrite recreate_S_ITuple in H. inv_bind H p Hp. destruct p as [es1 e1a].
  rewrite isize_ITuple in G. destruct g as [|g]; [lia|]. rewrite recreate_S_ITuple.
  destruct (all_vars es1) as [vs|] eqn:Hv; injection H as <- <-.
  - apply all_vars_map in Hv. subst es1.
    rewrite R2_const by (cbn [isize] in G1; lia).
    destruct g as [|g].
    + (* g = 0: the list is empty *)
      destruct es as [|x es]; [|rewrite list_isize_cons in G; pose proof (isize_pos x); lia].
      injection Hp as Hvs _. destruct vs; [reflexivity|discriminate Hvs].
    + rewrite (direct_consts f IH _ _ _ _ e2 (S g) Hp W HR) by lia. cbn [obind].
      rewrite all_vars_consts. reflexivity.
  - cbn [dok] in D. rewrite isize_ITuple in G1. destruct g1 as [|g1]; [lia|]. rewrite recreate_S_ITuple.
    rewrite (clist f IH _ _ _ _ Hp W D e2 HR g1 g) by lia. reflexivity.
Qed.

Lemma cc_array f (IH : cexpr f) e1 es et i1 e1' :
  R1 (S f) e1 (IArray es et) = Ok (i1, e1') -> forallb (wfi cl false) es = true -> dok i1 = true ->
  forall e2, Rel e1 e2 -> forall g1 g, (isize i1 <= g1)%nat -> (isize (IArray es et) <= g)%nat ->
  R2 g1 e2 i1 = R2 g e2 (IArray es et).
Proof.
  intros H W D e2 HR g1 g G1 G. rewrite recreate_S_IArray in H. inv_bind H p Hp. destruct p as [es1 e1a].
  rewrite isize_IArray in G. destruct g as [|g]; [lia|]. rewrite recreate_S_IArray.
  destruct (all_vars es1) as [vs|] eqn:Hv; injection H as <- <-.
  - apply all_vars_map in Hv. subst es1.
    rewrite R2_const by (cbn [isize] in G1; lia).
    destruct g as [|g].
    + destruct es as [|x es]; [|rewrite list_isize_cons in G; pose proof (isize_pos x); lia].
      injection Hp as Hvs _. destruct vs; [reflexivity|discriminate Hvs].
    + rewrite (direct_consts f IH _ _ _ _ e2 (S g) Hp W HR) by lia. cbn [obind].
      rewrite all_vars_consts. reflexivity.
  - cbn [dok] in D. rewrite isize_IArray in G1. destruct g1 as [|g1]; [lia|]. rewrite recreate_S_IArray.
    rewrite (clist f IH _ _ _ _ Hp W D e2 HR g1 g) by lia. reflexivity.
Qed.

(* ================================================================= *)
(* [v; n]                                                             *)
(* ================================================================= *)
Lemma cc_repeat f (IH : cexpr f) e1 v len i1 e1' :
  R1 (S f) e1 (IArrayRepeat v len) = Ok (i1, e1') ->
  wfi cl false v = true -> wfi cl false len = true -> dok i1 = true ->
  forall e2, Rel e1 e2 -> forall g1 g, (isize i1 <= g1)%nat -> (isize (IArrayRepeat v len) <= g)%nat ->
  R2 g1 e2 i1 = R2 g e2 (IArrayRepeat v len).
Proof.
  intros H Wv Wl D e2 HR g1 g G1 G. rewrite recreate_S_IArrayRepeat in H.
  inv_bind H p Hp. destruct p as [v1 e1a]. inv_bind H q Hq. destruct q as [len1 e1b].
  inv_bind H r Hr. injection H as <- <-.
  pose proof (p1_same _ _ _ _ _ Hp Wv) as ->. cbn [isize] in G.
  destruct g as [|g]; [lia|]. rewrite recreate_S_IArrayRepeat.
  destruct (fold_repeat_cases _ _ _ Hr) as [[x [n [-> [-> [Hn ->]]]]]| ->].
  - rewrite R2_const by (cbn [isize] in G1; lia).
    rewrite (direct_const f IH _ _ _ _ e2 g Hp Wv HR) by lia. cbn [obind].
    rewrite (direct_const f IH _ _ _ _ e2 g Hq Wl HR) by lia. cbn [obind].
    rewrite Hr. reflexivity.
  - cbn [isize] in G1. cbn [dok] in D. apply andb_true_iff in D. destruct D as [Dv Dl].
    destruct g1 as [|g1]; [lia|]. rewrite recreate_S_IArrayRepeat.
    rewrite (IH _ _ _ _ Hp Wv Dv e2 HR g1 g) by lia.
    destruct (R2 g e2 v) as [[v2 e2a]| | |] eqn:E2; try reflexivity. cbn [obind].
    pose proof (p2_same _ _ _ _ _ E2 Wv) as ->.
    rewrite (IH _ _ _ _ Hq Wl Dl e2 HR g1 g) by lia. reflexivity.
Qed.

(* ================================================================= *)
(* struct literals, slices, reduce                                    *)
(* ================================================================= *)
Lemma cfields f (IH : cexpr f) : forall l e1 l1 e1',
  rec_fields_def (R1 f) l e1 = Ok (l1, e1') ->
  forallb (fun kv => wfi cl false (snd kv)) l = true -> forallb (fun kv => dok (snd kv)) l1 = true ->
  forall e2, Rel e1 e2 -> forall g1 g, (fields_isize l1 <= g1)%nat -> (fields_isize l <= g)%nat ->
  rec_fields_def (R2 g1) l1 e2 = rec_fields_def (R2 g) l e2.
Proof.
  induction l as [|[k x] l IHl]; intros e1 l1 e1' H W D e2 HR g1 g G1 G.
  - injection H as <- <-. reflexivity.
  - cbn [rec_fields_def] in H. fold (rec_fields_def (R1 f)) in H.
    inv_bind H p Hp. destruct p as [x1 e1a]. inv_bind H q Hq. destruct q as [l1' e1b].
    injection H as <- <-.
    cbn [forallb snd] in W, D. apply andb_true_iff in W. apply andb_true_iff in D.
    destruct W as [Wx Wl]. destruct D as [Dx Dl].
    pose proof (p1_same _ _ _ _ _ Hp Wx) as ->.
    cbn [fields_isize] in G1, G.
    cbn [rec_fields_def]. fold (rec_fields_def (R2 g1)). fold (rec_fields_def (R2 g)).
    rewrite (IH _ _ _ _ Hp Wx Dx e2 HR g1 g) by lia.
    destruct (R2 g e2 x) as [[x2 e2a]| | |] eqn:E2; try reflexivity. cbn [obind].
    pose proof (p2_same _ _ _ _ _ E2 Wx) as ->.
    rewrite (IHl _ _ _ Hq Wl Dl e2 HR g1 g) by lia. reflexivity.
Qed.

Lemma cc_struct f (IH : cexpr f) e1 fs i1 e1' :
  R1 (S f) e1 (IStruct fs) = Ok (i1, e1') ->
  forallb (fun kv => wfi cl false (snd kv)) fs = true -> dok i1 = true ->
  forall e2, Rel e1 e2 -> forall g1 g, (isize i1 <= g1)%nat -> (isize (IStruct fs) <= g)%nat ->
  R2 g1 e2 i1 = R2 g e2 (IStruct fs).
Proof.
  intros H W D e2 HR g1 g G1 G. rewrite recreate_S_IStruct in H. inv_bind H p Hp. destruct p as [fs1 e1a].
  injection H as <- <-. cbn [dok] in D. rewrite isize_IStruct in G1, G.
  destruct g1 as [|g1]; [lia|]. destruct g as [|g]; [lia|]. rewrite !recreate_S_IStruct.
  rewrite (cfields f IH _ _ _ _ Hp W D e2 HR g1 g) by lia. reflexivity.
Qed.

Lemma copt f (IH : cexpr f) o e1 o1 e1' :
  rec_opt_def (R1 f) o e1 = Ok (o1, e1') -> wf_opt cl o = true -> dok_opt o1 = true ->
  forall e2, Rel e1 e2 -> forall g1 g, (opt_isize o1 <= g1)%nat -> (opt_isize o <= g)%nat ->
  (1 <= g1)%nat -> (1 <= g)%nat ->
  rec_opt_def (R2 g1) o1 e2 = rec_opt_def (R2 g) o e2.
Proof.
  destruct o as [x|]; cbn [rec_opt_def]; intros H W D e2 HR g1 g G1 G P1 P.
  - inv_bind H p Hp. destruct p as [x1 e1a]. injection H as <- <-. cbn [rec_opt_def opt_isize] in *.
    rewrite (IH _ _ _ _ Hp W D e2 HR g1 g) by lia. reflexivity.
  - injection H as <- <-. reflexivity.
Qed.

Lemma p2_same_opt g e2 o o2 e2' : rec_opt_def (R2 g) o e2 = Ok (o2, e2') -> wf_opt cl o = true -> e2' = e2.
Proof. apply (same_env_opt powf sc cl g (rec_same_env powf sc cl g)). Qed.
Lemma p1_same_opt f e1 o o1 e1' : rec_opt_def (R1 f) o e1 = Ok (o1, e1') -> wf_opt cl o = true -> e1' = e1.
Proof. apply (same_env_opt powf [] cl f (rec_same_env powf [] cl f)). Qed.

Lemma cc_slicing f (IH : cexpr f) e1 l a b c i1 e1' :
  R1 (S f) e1 (ISlicing l a b c) = Ok (i1, e1') ->
  wfi cl false l = true -> wf_opt cl a = true -> wf_opt cl b = true -> wf_opt cl c = true ->
  dok i1 = true ->
  forall e2, Rel e1 e2 -> forall g1 g, (isize i1 <= g1)%nat -> (isize (ISlicing l a b c) <= g)%nat ->
  R2 g1 e2 i1 = R2 g e2 (ISlicing l a b c).
Proof.
  intros H Wl Wa Wb Wc D e2 HR g1 g G1 G. rewrite recreate_S_ISlicing in H.
  inv_bind H p Hp. destruct p as [l1 e1a]. inv_bind H qa Ha. destruct qa as [a1 e1b].
  inv_bind H qb Hb. destruct qb as [b1 e1c]. inv_bind H qc Hc. destruct qc as [c1 e1d].
  injection H as <- <-. cbn [dok] in D.
  fold (dok_opt a1) in D. fold (dok_opt b1) in D. fold (dok_opt c1) in D.
  repeat rewrite andb_true_iff in D. destruct D as [[[Dl Da] Db] Dc].
  pose proof (p1_same _ _ _ _ _ Hp Wl) as ->.
  pose proof (p1_same_opt _ _ _ _ _ Ha Wa) as ->.
  pose proof (p1_same_opt _ _ _ _ _ Hb Wb) as ->.
  rewrite isize_ISlicing in G1, G.
  destruct g1 as [|g1]; [lia|]. destruct g as [|g]; [lia|]. rewrite !recreate_S_ISlicing.
  pose proof (isize_pos l1). pose proof (isize_pos l).
  rewrite (IH _ _ _ _ Hp Wl Dl e2 HR g1 g) by lia.
  destruct (R2 g e2 l) as [[l2 e2a]| | |] eqn:E2; try reflexivity. cbn [obind].
  pose proof (p2_same _ _ _ _ _ E2 Wl) as ->.
  rewrite (copt f IH _ _ _ _ Ha Wa Da e2 HR g1 g) by lia.
  destruct (rec_opt_def (R2 g) a e2) as [[a2 e2b]| | |] eqn:Ea; try reflexivity. cbn [obind].
  pose proof (p2_same_opt _ _ _ _ _ Ea Wa) as ->.
  rewrite (copt f IH _ _ _ _ Hb Wb Db e2 HR g1 g) by lia.
  destruct (rec_opt_def (R2 g) b e2) as [[b2 e2c]| | |] eqn:Eb; try reflexivity. cbn [obind].
  pose proof (p2_same_opt _ _ _ _ _ Eb Wb) as ->.
  rewrite (copt f IH _ _ _ _ Hc Wc Dc e2 HR g1 g) by lia. reflexivity.
Qed.

Lemma cc_reduce f (IH : cexpr f) e1 a b c i1 e1' :
  R1 (S f) e1 (IReduce a b c) = Ok (i1, e1') ->
  wfi cl false a = true -> wfi cl false b = true -> wfi cl false c = true -> dok i1 = true ->
  forall e2, Rel e1 e2 -> forall g1 g, (isize i1 <= g1)%nat -> (isize (IReduce a b c) <= g)%nat ->
  R2 g1 e2 i1 = R2 g e2 (IReduce a b c).
Proof.
  intros H Wa Wb Wc D e2 HR g1 g G1 G. rewrite recreate_S_IReduce in H.
  inv_bind H p Hp. destruct p as [a1 e1a]. inv_bind H q Hq. destruct q as [b1 e1b].
  inv_bind H r Hr. destruct r as [c1 e1c]. injection H as <- <-.
  cbn [dok] in D. repeat rewrite andb_true_iff in D. destruct D as [[Da Db] Dc].
  pose proof (p1_same _ _ _ _ _ Hp Wa) as ->. pose proof (p1_same _ _ _ _ _ Hq Wb) as ->.
  cbn [isize] in G1, G.
  destruct g1 as [|g1]; [lia|]. destruct g as [|g]; [lia|]. rewrite !recreate_S_IReduce.
  rewrite (IH _ _ _ _ Hp Wa Da e2 HR g1 g) by lia.
  destruct (R2 g e2 a) as [[a2 e2a]| | |] eqn:E2; try reflexivity. cbn [obind].
  pose proof (p2_same _ _ _ _ _ E2 Wa) as ->.
  rewrite (IH _ _ _ _ Hq Wb Db e2 HR g1 g) by lia.
  destruct (R2 g e2 b) as [[b2 e2b]| | |] eqn:E3; try reflexivity. cbn [obind].
  pose proof (p2_same _ _ _ _ _ E3 Wb) as ->.
  rewrite (IH _ _ _ _ Hr Wc Dc e2 HR g1 g) by lia. reflexivity.
Qed.

End Comp.

(* Sound3.v — layer 3, stage 3 (cells: `mut`, `*c`, `c = e`, `c op= e`) and the
   preservation theorem for the whole judgement of SoundTyping.v, by induction on
   the fuel of the interpreter. *)
From SSL.Model Require Import Base Ty Float Value Ops Seq Syntax Rt Recreate Exec Check.
From SSL.Lemmas Require Import TyLemmas ValueLemmas SeqLemmas ExecLemmas SoundLemmas CellLemmas
  SoundDefs SoundVals SoundTyping Sound1 Sound2.

Arguments matches : simpl never.
Arguments ty_eqb : simpl never.
Arguments concat : simpl never.

Local Open Scope Z_scope.

Section WithFlag.
Context {FL : Policy}.

(* ================================================================= *)
(* the store invariant under allocation and assignment                *)
(* ================================================================= *)
Lemma body_ok_mono W W' c : ext W W' -> body_ok W c -> body_ok W' c.
Proof.
  intros E H. unfold body_ok in *. destruct (c_body c); [|exact H].
  destruct H as [W0 [G' [Ts [HE H]]]]. exists W0, G', Ts. split; [|exact H].
  apply (ext_trans W0 W W'); assumption.
Qed.

Lemma funs_ok_mono W W' st st' :
  ext W W' -> funs_t W' = funs_t W -> s_funs st' = s_funs st -> funs_ok W st -> funs_ok W' st'.
Proof.
  intros E EF ES [HL H]. unfold funs_ok. rewrite EF, ES. split; [exact HL|].
  intros id c sg Hc Hsg. destruct (H id c sg Hc Hsg) as [A [B C]]. split; [exact A|]. split; [exact B|].
  apply (body_ok_mono W W'); assumption.
Qed.

Definition W_alloc (W : sty) (t : ty) : sty := mkW (cells_t W ++ [t]) (funs_t W).

Lemma ext_alloc W t : ext W (W_alloc W t).
Proof.
  split; [|auto]. intros loc u H. cbn [W_alloc cells_t].
  rewrite nth_error_app1; [exact H|]. apply nth_error_Some. congruence.
Qed.

Lemma store_ok_alloc W st v t :
  store_ok W st -> gv W v t -> wf_ty t = true ->
  store_ok (W_alloc W t) (fst (alloc_cell st v)) /\
  gv (W_alloc W t) (VMut (snd (alloc_cell st v)) t) (TMut t).
Proof.
  intros [[HL HC] HF] Hv Wt. pose proof (ext_alloc W t) as HE.
  unfold alloc_cell. cbn [fst snd]. split; [split|].
  - split; cbn [W_alloc cells_t s_cells]; [rewrite !app_length, HL; reflexivity|].
    intros loc u Hu. destruct (Nat.lt_ge_cases loc (length (cells_t W))) as [Hlt|Hge].
    + rewrite nth_error_app1 in Hu by exact Hlt. destruct (HC loc u Hu) as [c [Hc Hg]].
      exists c. split; [|apply (gv_mono W _ c u HE Hg)].
      rewrite nth_error_app1; [exact Hc|]. rewrite <- HL. exact Hlt.
    + rewrite nth_error_app2 in Hu by exact Hge.
      destruct (loc - length (cells_t W))%nat as [|k] eqn:Ek; [|destruct k; discriminate Hu].
      cbn [nth_error] in Hu. injection Hu as <-. exists v.
      split; [|apply (gv_mono W _ v t HE Hv)].
      assert (loc = length (s_cells st)) as -> by lia.
      rewrite nth_error_app2 by lia. rewrite Nat.sub_diag. reflexivity.
  - apply (funs_ok_mono W _ st); [exact HE|reflexivity|reflexivity|exact HF].
  - split.
    + apply has_type_intro; cbn [as_type].
      * rewrite matches_mut. apply ty_eqb_refl. exact Wt.
      * rewrite content_in_mut. apply ty_eqb_refl. exact Wt.
    + cbn [vgood W_alloc cells_t]. split; [exact Wt|].
      rewrite nth_error_app2 by lia. rewrite HL, Nat.sub_diag. reflexivity.
Qed.

Lemma store_ok_write W st loc t v :
  store_ok W st -> nth_error (cells_t W) loc = Some t -> gv W v t ->
  store_ok W (write_cell st loc v).
Proof.
  intros [[HL HC] HF] Ht Hv. split.
  - split; [rewrite write_preserves_length; exact HL|].
    intros l u Hu. destruct (Nat.eq_dec l loc) as [->|Hne].
    + rewrite Ht in Hu. injection Hu as <-. exists v. split; [|exact Hv].
      apply read_after_write. rewrite <- HL. apply nth_error_Some. congruence.
    + rewrite write_other_unchanged by exact Hne. apply HC. exact Hu.
  - apply (funs_ok_mono W W st); [apply ext_refl|reflexivity|reflexivity|exact HF].
Qed.

Lemma store_ok_cell W st loc t :
  store_ok W st -> nth_error (cells_t W) loc = Some t ->
  exists c, nth_error (s_cells st) loc = Some c /\ gv W c t.
Proof. intros [[_ HC] _] H. apply HC. exact H. Qed.

(* a value of a cell type is a reference to a cell declared with an equal type *)
Lemma mut_value_shape W v t :
  gv W v (TMut t) ->
  exists loc ct, v = VMut loc ct /\ ty_eqb ct t = true /\ nth_error (cells_t W) loc = Some ct.
Proof.
  intros [Hv Hg]. pose proof (has_type_content _ _ Hv) as Cn.
  destruct v; try discriminate Cn. rewrite content_in_mut in Cn.
  exists loc, t0. split; [reflexivity|]. split; [exact Cn|]. apply Hg.
Qed.

Section Sound.
Variable powf : fbits -> fbits -> fbits.
Variable pre : prelude.
Notation E := (exec powf pre).
Notation sound_at := (sound_at powf pre).
Notation sound_line_at := (sound_line_at powf pre).

Lemma case_mut n (IH : sound_at n) W0 G K t x T W st sc :
  wf_ty t = true -> typed W0 G K x T -> matches T t = true -> ctx_ok W0 W st sc G ->
  concl W K (TMut t) sc (E (S n) st sc (IMut t x)).
Proof.
  intros Wt Hx Hm HC. rewrite exec_S_IMut.
  apply (with_val_sound powf pre n IH W0 G K x T); [exact Hx|exact HC|].
  intros W1 st1 v HE1 HC1 Hv. apply (gv_sub W1 v T t) in Hv; [|exact Hm].
  destruct (store_ok_alloc W1 st1 v t (ctx_store _ _ _ _ _ HC1) Hv Wt) as [HS Hg].
  destruct (alloc_cell st1 v) as [st2 loc]. cbn [fst snd] in *.
  apply (concl_ext W1 (W_alloc W1 t)); [apply ext_alloc|]. apply concl_val; assumption.
Qed.

Lemma case_deref n (IH : sound_at n) W0 G K x T R W st sc :
  typed W0 G K x T -> qres mut_element_type_spec T R -> ctx_ok W0 W st sc G ->
  concl W K R sc (E (S n) st sc (IUn UIndirection x)).
Proof.
  intros Hx Hq HC. rewrite exec_S_IUn.
  apply (with_val_sound powf pre n IH W0 G K x T); [exact Hx|exact HC|].
  intros W1 st1 v HE1 HC1 [Hv Hg]. cbn [un_dispatch].
  destruct Hq as [Hq|[-> _]]; [|rewrite has_type_never in Hv; discriminate Hv].
  pose proof (typed_wf _ _ _ _ _ Hx (ctx_wf _ _ _ _ _ HC)) as Wt.
  destruct (deref_sound T v R Wt (has_type_content _ _ Hv) Hq) as [loc [ct [-> Hm]]].
  destruct Hg as [_ Hl].
  destruct (store_ok_cell W1 st1 loc ct (ctx_store _ _ _ _ _ HC1) Hl) as [c [Hc Hgc]].
  rewrite Hc. apply concl_val; [apply (ctx_store _ _ _ _ _ HC1)|].
  apply (gv_sub W1 c ct R); assumption.
Qed.

(* every assignment operator tests its target with [assign_ok], with the same two
   functions whatever the target *)
Lemma assign_op_shape aop T2 :
  aop = Assign \/ (exists bop, assign_base aop = Some bop) ->
  exists cbu rtf, forall X, can_be_used aop X T2 = assign_ok X T2 cbu rtf.
Proof.
  intros [->|[bop H]]; [eexists; eexists; intros X; reflexivity|].
  destruct aop; try discriminate H; eexists; eexists; intros X; reflexivity.
Qed.

Lemma assign_ok_single_some m T cbu rtf :
  assign_ok_single m T cbu rtf = Ok true -> exists vt, mut_element_type_spec m = Some vt.
Proof.
  unfold assign_ok_single. destruct (mut_element_type_spec m) as [vt|]; [eauto|discriminate].
Qed.

Lemma simple_mut_shape m vt : simple m = true -> mut_element_type_spec m = Some vt -> m = TMut vt.
Proof. destruct m; intros S H; try discriminate S; try discriminate H. injection H as <-. reflexivity. Qed.

(* the value of an accepted assignment target: a reference to a cell declared with a type
   equal to the content type e of ONE member `mut e` of the static type, and that member
   passes the checker's test on its own (cells are invariant) *)
Lemma assign_target aop L T2 lv :
  aop = Assign \/ (exists bop, assign_base aop = Some bop) ->
  wf_ty L = true -> content_in lv L = true -> can_be_used aop L T2 = Ok true ->
  exists loc ct e, lv = VMut loc ct /\ ty_eqb ct e = true /\ wf_ty e = true /\
    can_be_used aop (TMut e) T2 = Ok true /\
    (forall R, mut_element_type_spec L = Some R -> matches e R = true).
Proof.
  intros Hop Wl Cn Hc. destruct (assign_op_shape aop T2 Hop) as [cbu [rtf Hs]].
  rewrite Hs in Hc.
  assert (D : (exists ms, L = TMulti ms) \/ is_multi L = false).
  { destruct L; try (right; reflexivity). left. eauto. }
  destruct D as [[ms ->]|NM].
  - rewrite content_in_multi in Cn. apply existsb_exists in Cn. destruct Cn as [m [Hm Cm]].
    pose proof (assign_ok_multi_member ms T2 cbu rtf m Hc Hm) as Hcm.
    destruct (assign_ok_single_some _ _ _ _ Hcm) as [vt Hvt].
    destruct (wf_multi_inv _ Wl) as [_ [Sm [Wm _]]].
    pose proof (simple_mut_shape m vt (Sm m Hm) Hvt) as ->.
    destruct lv; try discriminate Cm. rewrite content_in_mut in Cm.
    exists loc, t, vt. split; [reflexivity|]. split; [exact Cm|].
    split; [exact (Wm _ Hm)|]. split.
    + rewrite Hs. rewrite assign_ok_nonmulti by reflexivity. exact Hcm.
    + intros R HR. pose proof (mut_element_type_spec_wf _ _ Wl HR) as WR.
      cbn [mut_element_type_spec] in HR.
      destruct (query_member_upper mut_element_type_spec ms R (TMut vt) WR HR Hm) as [rm [Em Mr]].
      cbn [mut_element_type_spec] in Em. injection Em as <-. exact Mr.
  - rewrite assign_ok_nonmulti in Hc by exact NM.
    destruct (assign_ok_single_some _ _ _ _ Hc) as [vt Hvt].
    assert (L = TMut vt) as ->.
    { destruct L; try discriminate Hvt; try discriminate NM. cbn in Hvt. injection Hvt as <-. reflexivity. }
    destruct lv; try discriminate Cn. rewrite content_in_mut in Cn.
    exists loc, t, vt. split; [reflexivity|]. split; [exact Cn|]. split; [exact Wl|]. split.
    + rewrite Hs. rewrite assign_ok_nonmulti by reflexivity. exact Hc.
    + intros R HR. cbn in HR. injection HR as <-. apply matches_refl. exact Wl.
Qed.

Lemma case_assign n (IH : sound_at n) W0 G K l r L T2 W st sc :
  typed W0 G K l L -> typed W0 G K r T2 ->
  can_be_used Assign L T2 = Ok true \/ L = TNever -> ctx_ok W0 W st sc G ->
  concl W K T2 sc (E (S n) st sc (IBin Assign l r)).
Proof.
  intros Hl Hr Hc HC. rewrite exec_S_IBin by discriminate.
  apply (with_val_sound powf pre n IH W0 G K l L); [exact Hl|exact HC|].
  intros W1 st1 lv HE1 HC1 Hlv.
  apply (with_val_sound powf pre n IH W0 G K r T2); [exact Hr|exact HC1|].
  intros W2 st2 rv HE2 HC2 Hrv.
  apply (gv_mono W1 W2) in Hlv; [|exact HE2]. destruct Hlv as [Hlv Hlg].
  destruct Hc as [Hc|HLn]; [|subst L; rewrite has_type_never in Hlv; discriminate Hlv].
  pose proof (typed_wf _ _ _ _ _ Hl (ctx_wf _ _ _ _ _ HC)) as Wl.
  destruct (assign_target Assign L T2 lv (or_introl eq_refl) Wl (has_type_content _ _ Hlv) Hc)
    as [loc [ct [e [-> [Heq [_ [Hce _]]]]]]].
  destruct Hlg as [_ Hloc]. cbn [bin_dispatch].
  destruct (store_ok_cell W2 st2 loc ct (ctx_store _ _ _ _ _ HC2) Hloc) as [c [Hcell _]].
  rewrite Hcell.
  assert (Hw : gv W2 rv ct).
  { destruct Hrv as [Hrv Hrg]. split; [|exact Hrg].
    apply (has_type_sound rv e ct).
    - apply (assign_sound (TMut e) e T2 rv eq_refl eq_refl Hce Hrv).
    - apply ty_eqb_matches. rewrite ty_eqb_sym. exact Heq. }
  apply concl_val; [|exact Hrv].
  apply (store_ok_write W2 st2 loc ct rv (ctx_store _ _ _ _ _ HC2) Hloc Hw).
Qed.

Lemma bin_dispatch_opassign ex fuel aop bop lv rv st sc :
  assign_base aop = Some bop ->
  bin_dispatch powf pre ex fuel aop lv rv st sc =
  match lv with
  | VMut loc _ =>
      match nth_error (s_cells st) loc with
      | Some cur =>
          sig_of_outcome (op_exec powf bop cur rv)
            (fun v => (write_cell st loc v, sc, SVal v)) st sc
      | None => (st, sc, SPanic)
      end
  | _ => (st, sc, SPanic)
  end.
Proof. destruct aop; intros H; try discriminate H; injection H as <-; reflexivity. Qed.

Lemma opassign_not_logic aop bop : assign_base aop = Some bop -> aop <> And /\ aop <> Or.
Proof. destruct aop; intros H; try discriminate H; split; discriminate. Qed.

Lemma case_opassign n (IH : sound_at n) W0 G K aop bop l r L R T2 W st sc :
  assign_base aop = Some bop -> typed W0 G K l L -> typed W0 G K r T2 ->
  (can_be_used aop L T2 = Ok true /\ mut_element_type_spec L = Some R) \/
  (L = TNever /\ R = TNever) ->
  ctx_ok W0 W st sc G ->
  concl W K R sc (E (S n) st sc (IBin aop l r)).
Proof.
  intros Hb Hl Hr Hor HC. destruct (opassign_not_logic aop bop Hb) as [NA NO].
  rewrite exec_S_IBin by assumption.
  apply (with_val_sound powf pre n IH W0 G K l L); [exact Hl|exact HC|].
  intros W1 st1 lv HE1 HC1 Hlv.
  apply (with_val_sound powf pre n IH W0 G K r T2); [exact Hr|exact HC1|].
  intros W2 st2 rv HE2 HC2 [Hrv Hrg].
  apply (gv_mono W1 W2) in Hlv; [|exact HE2]. destruct Hlv as [Hlv Hlg].
  destruct Hor as [[Hc HR]|[-> _]]; [|rewrite has_type_never in Hlv; discriminate Hlv].
  pose proof (typed_wf _ _ _ _ _ Hl (ctx_wf _ _ _ _ _ HC)) as Wl.
  pose proof (typed_wf _ _ _ _ _ Hr (ctx_wf _ _ _ _ _ HC)) as Wt2.
  destruct (assign_target aop L T2 lv (or_intror (ex_intro _ bop Hb)) Wl (has_type_content _ _ Hlv) Hc)
    as [loc [ct [e [-> [Heq [We [Hce HeR]]]]]]].
  specialize (HeR R HR). destruct Hlg as [Wct Hloc].
  rewrite (bin_dispatch_opassign _ _ aop bop) by exact Hb.
  pose proof (ctx_store _ _ _ _ _ HC2) as HS2.
  destruct (store_ok_cell W2 st2 loc ct HS2 Hloc) as [cur [Hcell [Hcur Hcg]]].
  rewrite Hcell.
  assert (Hcur' : has_type cur e = true).
  { apply (has_type_sound cur ct e Hcur). apply ty_eqb_matches. exact Heq. }
  destruct (compound_assign_sound powf aop bop (TMut e) e T2 rv cur Hb We Wt2 eq_refl eq_refl Hce
              Hrv Hcur') as [NP [_ [HV HErr]]].
  apply concl_sig_of_outcome; [exact HS2|exact NP| |].
  - intros x He. apply (doc_error_doc_err bop). apply HErr. exact He.
  - intros v Hv.
    assert (Hg : vgood W2 v) by (apply (vgood_op_exec W2 powf bop cur rv v Hv); assumption).
    apply concl_val.
    + apply (store_ok_write W2 st2 loc ct v HS2 Hloc). split; [|exact Hg].
      apply (has_type_sound v e ct); [apply HV; exact Hv|].
      apply ty_eqb_matches. rewrite ty_eqb_sym. exact Heq.
    + split; [|exact Hg]. apply (has_type_sound v e R); [apply HV; exact Hv|exact HeR].
Qed.

End Sound.

End WithFlag.

(* Sound2.v — layer 3, stage 2: statements (blocks, `:=`, destructuring, if, if-set,
   match, loop, break, continue, return).
   [sound_line_at n]  a statement of a list (which may extend the environment).
   [covers_fire]      an accepted match always has an arm for the scrutinee: with
                      the coverage test of the checker (Check.match_covers) the
                      arm loop of the interpreter never reaches its `[] => panic`. *)
From SSL.Model Require Import Base Ty Float Value Ops Seq Syntax Rt Recreate Exec Check.
From SSL.Lemmas Require Import TyLemmas ValueLemmas SeqLemmas ExecLemmas SoundLemmas CellLemmas
  SoundDefs SoundVals SoundTyping Sound1.

Arguments matches : simpl never.
Arguments ty_eqb : simpl never.
Arguments concat : simpl never.

Local Open Scope Z_scope.

Section WithFlag.
Context {FL : Policy}.

(* ---- environments ---- *)
Lemma env_ok_push W sc G : env_ok W sc G -> env_ok W ([] :: sc) G.
Proof. intros H n T Hn. exact (H n T Hn). Qed.

Lemma env_ok_bind_layer W sc G nm v t :
  env_ok W sc G -> wf_ty t = true -> gv W v t -> env_ok W ([(nm, v)] :: sc) ((nm, t) :: G).
Proof.
  intros H Wt Hv m T Hm. cbn [assoc scopes_get] in *. destruct (ident_eqb m nm).
  - injection Hm as <-. split; [exact Wt|]. exists v. split; [reflexivity|exact Hv].
  - exact (H m T Hm).
Qed.

Lemma env_ok_insert W sc G nm v t :
  env_ok W sc G -> wf_ty t = true -> gv W v t -> env_ok W (scopes_insert nm v sc) ((nm, t) :: G).
Proof.
  intros H Wt Hv m T Hm. cbn [assoc] in Hm. destruct (ident_eqb m nm) eqn:E.
  - injection Hm as <-. apply ident_eqb_true in E. subst m. split; [exact Wt|].
    exists v. split; [apply scopes_get_insert_same|exact Hv].
  - destruct (H m T Hm) as [WT [w [Hw Hg]]]. split; [exact WT|]. exists w. split; [|exact Hg].
    rewrite scopes_get_insert_other; [exact Hw|]. intros ->. rewrite ident_eqb_refl in E. discriminate.
Qed.

Lemma env_ok_destruct W ids : forall vs ts sc G,
  env_ok W sc G -> Forall2 (gv W) vs ts -> forallb wf_ty ts = true ->
  env_ok W (destruct_bind_def ids vs sc) (bind_tys ids ts G).
Proof.
  induction ids as [|n ids IH]; intros vs ts sc G H HF Wts; [exact H|].
  destruct HF as [|v t vs ts Hv HF]; [exact H|]. cbn [destruct_bind_def bind_tys].
  cbn [forallb] in Wts. apply andb_true_iff in Wts. destruct Wts as [Wt Wts].
  apply IH; [|exact HF|exact Wts]. apply env_ok_insert; assumption.
Qed.

Lemma all2_has_type_Forall2 W vs ts :
  all2 has_type vs ts = true -> Forall (vgood W) vs -> Forall2 (gv W) vs ts.
Proof.
  revert ts. induction vs as [|v vs IH]; intros [|t ts] H HG; cbn [all2] in H; try discriminate H;
    [constructor|].
  apply andb_true_iff in H. destruct H as [Hv H]. inversion HG; subst.
  constructor; [split; assumption|apply IH; assumption].
Qed.

(* ---- coverage ---- *)
Definition arm_fires (v : value) (a : arm) : bool :=
  match a with
  | ArmOther _ => true
  | ArmType _ t _ => matches (as_type v) t
  | ArmValue _ _ => false
  end.

Lemma arm_covers_fire v arms m :
  matches (as_type v) m = true -> arm_covers arms m = true -> existsb (arm_fires v) arms = true.
Proof.
  intros M H. unfold arm_covers in H. apply existsb_exists in H. destruct H as [a [Ha Hc]].
  apply existsb_exists. exists a. split; [exact Ha|]. destruct a; cbn [arm_fires]; try discriminate Hc.
  - apply (matches_trans _ m t M Hc).
  - reflexivity.
Qed.

Theorem covers_fire v T arms :
  has_type v T = true -> match_covers arms T = true -> existsb (arm_fires v) arms = true.
Proof.
  intros Hv Hc. pose proof (has_type_tag _ _ Hv) as M.
  assert (D : (exists ms, T = TMulti ms) \/ match_covers arms T = arm_covers arms T).
  { destruct T; try (right; reflexivity). left. eauto. }
  destruct D as [[ms ->]|D]; [|rewrite D in Hc; apply (arm_covers_fire v arms T M Hc)].
  cbn [match_covers] in Hc. rewrite matches_multi_r_nm in M by apply as_type_nm.
  apply existsb_exists in M. destruct M as [m [Hm Mm]].
  rewrite forallb_forall in Hc. specialize (Hc m Hm).
  assert (D : (exists ms', m = TMulti ms') \/
              (match m with TMulti ms' => forallb (arm_covers arms) ms' | _ => arm_covers arms m end)
              = arm_covers arms m).
  { destruct m; try (right; reflexivity). left. eauto. }
  destruct D as [[ms' ->]|D]; [|rewrite D in Hc; apply (arm_covers_fire v arms m Mm Hc)].
  rewrite matches_multi_r_nm in Mm by apply as_type_nm.
  apply existsb_exists in Mm. destruct Mm as [m' [Hm' Mm']].
  rewrite forallb_forall in Hc. apply (arm_covers_fire v arms m' Mm' (Hc m' Hm')).
Qed.

Section Sound.
Variable powf : fbits -> fbits -> fbits.
Variable pre : prelude.
Notation E := (exec powf pre).
Notation sound_at := (sound_at powf pre).

(* ---- one statement of a list ---- *)
Definition line_concl (W : sty) (K : kctx) (T : ty) (G' : genv) (r : res) : Prop :=
  exists W', ext W W' /\ store_ok W' (sto r) /\
    match sig r with
    | SVal v => gv W' v T /\ env_ok W' (scs r) G'
    | s => sig_ok W' K T s
    end.

Definition sound_line_at (n : nat) : Prop :=
  forall W0 G K i T G', typed_line W0 G K i T G' ->
  forall W st sc, ctx_ok W0 W st sc G -> line_concl W K T G' (E n st sc i).

Lemma concl_line W K T G sc r : env_ok W sc G -> concl W K T sc r -> line_concl W K T G r.
Proof.
  intros HG [Hsc [W' [HE [HS Hs]]]]. exists W'. split; [exact HE|]. split; [exact HS|].
  destruct (sig r); try exact Hs. split; [exact Hs|]. rewrite Hsc. apply (env_ok_mono W W'); assumption.
Qed.

Lemma line_sound_O : sound_line_at 0.
Proof.
  intros W0 G K i T G' _ W st sc HC. rewrite exec_O. exists W. split; [apply ext_refl|].
  split; [apply (ctx_store _ _ _ _ _ HC)|exact I].
Qed.

(* `f := (..) {..}` creates a closure; its soundness (Sound5.v) does not need the
   induction hypothesis, since the body is not run *)
Definition fndecl_sound_at (n : nat) : Prop :=
  forall W0 G K nm ps body r G' Ts,
    closure_ok W0 G (Some nm) ps body r -> wf_ty (TFun (map snd ps) r) = true ->
    existsb (fun p => ident_eqb nm (fst p)) ps = false ->
    typed_list W0 (closure_env (Some nm) ps r ++ G) (mkK false (Some r)) body G' Ts ->
    (matches TVoid r = true \/ In TNever Ts) ->
    forall W st sc, ctx_ok W0 W st sc G ->
    line_concl W K (TFun (map snd ps) r) ((nm, TFun (map snd ps) r) :: G)
      (E n st sc (IFnDecl nm ps body r)).

Lemma line_sound_S n :
  sound_at n -> sound_at (S n) -> fndecl_sound_at (S n) -> sound_line_at (S n).
Proof.
  intros IH IHS IHF W0 G K i T G' H W st sc HC.
  destruct H as [G K x T Hx|G K nm x T Hx|G K ids x T ts Hx Hfl
                |G K nm ps body r G' Ts Hfl Hwf Hnm Hbody Hend].
  4:{ apply (IHF W0 G K nm ps body r G' Ts); assumption. }
  - apply (concl_line W K T G sc); [apply (ctx_env _ _ _ _ _ HC)|]. apply (IHS _ _ _ _ _ Hx _ _ _ HC).
  - rewrite exec_S_ISet. pose proof (IH _ _ _ _ _ Hx _ _ _ HC) as C.
    unfold with_val_def. destruct (E n st sc x) as [[st1 sc1] s1].
    destruct C as [Hsc [W1 [HE [HS Hs]]]]. unfold scs, sto, sig in *. cbn [fst snd] in *. subst sc1.
    exists W1. split; [exact HE|]. split; [destruct s1; exact HS|].
    destruct s1; try exact Hs. cbn [fst snd]. split; [exact Hs|].
    apply env_ok_insert; [apply (env_ok_mono W W1); [exact HE|apply (ctx_env _ _ _ _ _ HC)]| |exact Hs].
    apply (typed_wf _ _ _ _ _ Hx (ctx_wf _ _ _ _ _ HC)).
  - rewrite exec_S_IDestruct. pose proof (IH _ _ _ _ _ Hx _ _ _ HC) as C.
    unfold with_val_def. destruct (E n st sc x) as [[st1 sc1] s1].
    destruct C as [Hsc [W1 [HE [HS Hs]]]]. unfold scs, sto, sig in *. cbn [fst snd] in *. subst sc1.
    pose proof (typed_wf _ _ _ _ _ Hx (ctx_wf _ _ _ _ _ HC)) as Wt.
    destruct s1; try (exists W1; split; [exact HE|]; split; [exact HS|exact Hs]).
    cbn [sig_ok] in Hs. destruct Hs as [Hv Hg].
    destruct Hfl as [[Hf Hl]|[-> _]]; [|rewrite has_type_never in Hv; discriminate Hv].
    destruct (flatten_sound T v ts Wt Hv Hf) as [vs [-> Hvs]].
    exists W1. split; [exact HE|]. split; [exact HS|]. cbn [fst snd]. split; [split; assumption|].
    apply env_ok_destruct.
    + apply (env_ok_mono W W1); [exact HE|apply (ctx_env _ _ _ _ _ HC)].
    + apply all2_has_type_Forall2; [exact Hvs|]. rewrite vgood_tup in Hg. exact Hg.
    + apply (flatten_tuple_wf T ts Wt Hf).
Qed.

(* ---- statement lists ---- *)
Definition sconcl (W : sty) (K : kctx) (Ts : list ty) (G' : genv) (r : lres) : Prop :=
  let '(st', sc', o, s) := r in
  exists W', ext W W' /\ store_ok W' st' /\
    match o with
    | Ok vs => Forall2 (gv W') vs Ts /\ env_ok W' sc' G'
    | _ => nonval s /\ sig_ok W' K TNever s
    end.

Lemma stmts_sound n (IHl : sound_line_at n) W0 G K l G' Ts :
  typed_list W0 G K l G' Ts ->
  forall W st sc, ctx_ok W0 W st sc G -> sconcl W K Ts G' (ex_list_def (E n) l st sc).
Proof.
  intros H. induction H as [G K|G K x l T G1 G' Ts Hx Hl IHlist]; intros W st sc HC.
  - rewrite ex_list_nil. exists W. split; [apply ext_refl|]. split; [apply (ctx_store _ _ _ _ _ HC)|].
    split; [constructor|apply (ctx_env _ _ _ _ _ HC)].
  - rewrite ex_list_cons. pose proof (IHl _ _ _ _ _ _ Hx _ _ _ HC) as C.
    destruct (E n st sc x) as [[st1 sc1] s1].
    destruct C as [W1 [HE [HS Hs]]]. unfold scs, sto, sig in *. cbn [fst snd] in *.
    assert (NV : forall s, s = s1 -> nonval s -> sconcl W K (T :: Ts) G' (st1, sc1, Panic, s)).
    { intros s -> N. exists W1. split; [exact HE|]. split; [exact HS|].
      split; [exact N|]. destruct s1; try contradiction; exact Hs. }
    destruct s1; try (apply NV; [reflexivity|exact I]).
    destruct Hs as [Hv HG1].
    assert (HC1 : ctx_ok W0 W1 st1 sc1 G1).
    { split; [apply (ext_trans W0 W W1); [apply (ctx_ext _ _ _ _ _ HC)|exact HE]|]. split; assumption. }
    specialize (IHlist W1 st1 sc1 HC1).
    destruct (ex_list_def (E n) l st1 sc1) as [[[st2 sc2] o2] s2].
    destruct IHlist as [W2 [HE2 [HS2 Ho]]].
    destruct o2 as [vs|e| |]; exists W2;
      (split; [apply (ext_trans W W1 W2); assumption|]); (split; [exact HS2|]); try exact Ho.
    destruct Ho as [Hvs HG']. split; [|exact HG'].
    constructor; [apply (gv_mono W1 W2); assumption|exact Hvs].
Qed.

Lemma last_gv W vs Ts : Forall2 (gv W) vs Ts -> gv W (last vs VVoid) (last Ts TVoid).
Proof.
  intros H. induction H as [|v T vs Ts Hv H IH]; [apply gv_void|].
  destruct H as [|w U vs Ts Hw H]; [exact Hv|exact IH].
Qed.

Lemma case_block n (IHl : sound_line_at n) W0 G K body G' Ts W st sc :
  typed_list W0 G K body G' Ts -> ctx_ok W0 W st sc G ->
  concl W K (last Ts TVoid) sc (E (S n) st sc (IBlock body)).
Proof.
  intros Hb HC. rewrite exec_S_IBlock.
  assert (HC' : ctx_ok W0 W st ([] :: sc) G).
  { destruct HC as [A [B C]]. split; [exact A|]. split; [exact B|]. apply env_ok_push. exact C. }
  pose proof (stmts_sound n IHl _ _ _ _ _ _ Hb _ _ _ HC') as C.
  destruct (ex_list_def (E n) body st ([] :: sc)) as [[[st1 sc1] o] s1].
  destruct C as [W1 [HE [HS Ho]]].
  destruct o as [vs|e| |];
    try (destruct Ho as [N Hs]; apply (concl_ext W W1); [exact HE|];
         apply concl_intro; [exact HS|apply (sig_ok_nonval W1 K TNever); assumption]).
  destruct Ho as [Hvs _]. apply (concl_ext W W1); [exact HE|].
  apply concl_val; [exact HS|apply last_gv; exact Hvs].
Qed.

Lemma case_if n (IH : sound_at n) W0 G K c t f Tc Tt Tf W st sc :
  typed W0 G K c Tc -> matches Tc TBool = true -> typed W0 G K t Tt -> typed W0 G K f Tf ->
  ctx_ok W0 W st sc G ->
  concl W K (concat Tt Tf) sc (E (S n) st sc (IIfElse c t f)).
Proof.
  intros Hc Hb Ht Hf HC. rewrite exec_S_IIfElse.
  apply (with_val_sound powf pre n IH W0 G K c Tc); [exact Hc|exact HC|].
  intros W1 st1 v HE1 HC1 Hv. apply (gv_sub W1 v Tc TBool) in Hv; [|exact Hb].
  destruct (in_TBool v (proj1 Hv)) as [b ->]. destruct b.
  - apply (concl_map W1 K Tt); [intros W' w; apply gv_union_l|]. apply (IH _ _ _ _ _ Ht _ _ _ HC1).
  - apply (concl_map W1 K Tf); [intros W' w; apply gv_union_r|]. apply (IH _ _ _ _ _ Hf _ _ _ HC1).
Qed.

(* a body run in one extra layer holding the binding nm := v *)
Lemma bound_body_sound n (IH : sound_at n) W0 G K nm t b Tb W st sc v :
  typed W0 ((nm, t) :: G) K b Tb -> wf_ty t = true -> ctx_ok W0 W st sc G ->
  vgood W v -> matches (as_type v) t = true ->
  concl W K Tb sc (match E n st ([(nm, v)] :: sc) b with (st2, _, s) => (st2, sc, s) end).
Proof.
  intros Hb Wt HC Hg Hm.
  assert (HC' : ctx_ok W0 W st ([(nm, v)] :: sc) ((nm, t) :: G)).
  { destruct HC as [A [B C]]. split; [exact A|]. split; [exact B|].
    apply env_ok_bind_layer; [exact C|exact Wt|apply gv_by_tag; assumption]. }
  pose proof (IH _ _ _ _ _ Hb _ _ _ HC') as C.
  destruct (E n st ([(nm, v)] :: sc) b) as [[st2 sc2] s2].
  destruct C as [_ C]. split; [reflexivity|exact C].
Qed.

Lemma case_setif n (IH : sound_at n) W0 G K nm t x ifm els Tx Ta Tb W st sc :
  wf_ty t = true -> typed W0 G K x Tx ->
  typed W0 ((nm, t) :: G) K ifm Ta -> typed W0 G K els Tb ->
  ctx_ok W0 W st sc G ->
  concl W K (concat Ta Tb) sc (E (S n) st sc (ISetIfElse nm t x ifm els)).
Proof.
  intros Wt Hx Hi He HC. rewrite exec_S_ISetIfElse.
  apply (with_val_sound powf pre n IH W0 G K x Tx); [exact Hx|exact HC|].
  intros W1 st1 v HE1 HC1 [Hv Hg]. destruct (matches (as_type v) t) eqn:Hm.
  - apply (concl_map W1 K Ta); [intros W' w; apply gv_union_l|].
    apply (bound_body_sound n IH W0 G K nm t ifm Ta); assumption.
  - apply (concl_map W1 K Tb); [intros W' w; apply gv_union_r|]. apply (IH _ _ _ _ _ He _ _ _ HC1).
Qed.

(* ---- match ---- *)
Lemma match_cands_sound n (IH : sound_at n) W0 G K cs Tcs b Tb T v kont sc :
  typed_all W0 G K cs Tcs -> typed W0 G K b Tb ->
  (forall W' w, gv W' w Tb -> gv W' w T) ->
  forall W st, ctx_ok W0 W st sc G ->
  (forall W1 st1, ext W W1 -> ctx_ok W0 W1 st1 sc G -> concl W1 K T sc (kont st1 sc)) ->
  concl W K T sc (match_cands_def (E n) v b kont cs st sc).
Proof.
  intros Hcs Hb Hsub. induction Hcs as [G K|G K c cs Tc Tcs Hc Hcs IHcs]; intros W st HC Hk.
  - rewrite match_cands_nil. apply (Hk W st); [apply ext_refl|exact HC].
  - rewrite match_cands_cons. pose proof (IH _ _ _ _ _ Hc _ _ _ HC) as C.
    destruct (E n st sc c) as [[st1 sc1] s1].
    destruct C as [Hsc [W1 [HE [HS Hs]]]]. unfold scs, sto, sig in *. cbn [fst snd] in *. subst sc1.
    pose proof (ctx_step _ _ _ _ _ _ _ HC HE HS) as HC1.
    destruct s1; try (apply (concl_ext W W1); [exact HE|]; apply concl_intro; [exact HS|];
                      apply (sig_ok_nonval W1 K Tc T); [exact I|exact Hs]).
    apply (concl_ext W W1); [exact HE|]. destruct (val_eqb v0 v).
    + apply (concl_map W1 K Tb T); [exact Hsub|]. apply (IH _ _ _ _ _ Hb _ _ _ HC1).
    + apply (IHcs Hb W1 st1 HC1). intros W2 st2 HE2 HC2. apply Hk; [|exact HC2].
      apply (ext_trans W W1 W2); assumption.
Qed.

Lemma match_arms_sound n (IH : sound_at n) W0 G K arms Ts T v sc :
  typed_arms W0 G K arms Ts ->
  (forall Tb, In Tb Ts -> forall W' w, gv W' w Tb -> gv W' w T) ->
  existsb (arm_fires v) arms = true ->
  forall W st, ctx_ok W0 W st sc G -> vgood W v ->
  concl W K T sc (match_arms_def (E n) v arms st sc).
Proof.
  intros Ha. induction Ha as [G K|G K nm t b arms Tb Ts Wt Hb Ha IHa
                              |G K cs Tcs b arms Tb Ts Hcs Hb Ha IHa
                              |G K b arms Tb Ts Hb Ha IHa]; intros Hsub Hf W st HC Hg.
  - discriminate Hf.
  - rewrite match_arms_type. cbn [existsb arm_fires] in Hf.
    destruct (matches (as_type v) t) eqn:Hm.
    + apply (concl_map W K Tb T); [apply Hsub; left; reflexivity|].
      apply (bound_body_sound n IH W0 G K nm t b Tb); assumption.
    + cbn [orb] in Hf. apply IHa; try assumption. intros U HU. apply Hsub. right. exact HU.
  - rewrite match_arms_value. cbn [existsb arm_fires orb] in Hf.
    apply (match_cands_sound n IH W0 G K cs Tcs b Tb T v); try assumption.
    + apply Hsub. left. reflexivity.
    + intros W1 st1 HE1 HC1. apply IHa; try assumption.
      * intros U HU. apply Hsub. right. exact HU.
      * apply (vgood_mono W W1); assumption.
  - rewrite match_arms_other. apply (concl_map W K Tb T); [apply Hsub; left; reflexivity|].
    apply (IH _ _ _ _ _ Hb _ _ _ HC).
Qed.

Lemma gv_fold_concat W v t ts t0 :
  gv W v t -> In t (t0 :: ts) -> gv W v (fold_left concat ts t0).
Proof. intros [Hv Hg] Hin. split; [apply (has_type_fold_concat v t); assumption|exact Hg]. Qed.

Lemma case_match n (IH : sound_at n) W0 G K x arms Tx Ta Ts W st sc :
  typed W0 G K x Tx -> typed_arms W0 G K arms (Ta :: Ts) ->
  match_covers arms Tx = true -> ctx_ok W0 W st sc G ->
  concl W K (fold_left concat Ts Ta) sc (E (S n) st sc (IMatch x arms)).
Proof.
  intros Hx Ha Hc HC. rewrite exec_S_IMatch.
  apply (with_val_sound powf pre n IH W0 G K x Tx); [exact Hx|exact HC|].
  intros W1 st1 v HE1 HC1 [Hv Hg].
  apply (match_arms_sound n IH W0 G K arms (Ta :: Ts)); try assumption.
  - intros Tb HTb W' w Hw. apply (gv_fold_concat W' w Tb); assumption.
  - apply (covers_fire v Tx arms Hv Hc).
Qed.

(* an accepted match never reaches the panicking `[]` arm of the interpreter *)
Theorem match_total_arms n (IH : sound_at n) W0 G K arms Ts Tx v W st sc :
  typed_arms W0 G K arms Ts -> match_covers arms Tx = true -> gv W v Tx ->
  ctx_ok W0 W st sc G ->
  sig (match_arms_def (E n) v arms st sc) <> SPanic.
Proof.
  intros Ha Hc [Hv Hg] HC.
  assert (C : concl W K TAny sc (match_arms_def (E n) v arms st sc)).
  { apply (match_arms_sound n IH W0 G K arms Ts); try assumption.
    - intros Tb _ W' w [Hw Hgw]. split; [apply has_type_any_all|exact Hgw].
    - apply (covers_fire v Tx arms Hv Hc). }
  destruct C as [_ [W' [_ [_ Hs]]]]. intros E. rewrite E in Hs. exact Hs.
Qed.

(* ---- loops ---- *)
Lemma loop_sound n (IH : sound_at n) W0 G K b Tb sc :
  typed W0 G (mkK true (ret K)) b Tb ->
  forall m W st, ctx_ok W0 W st sc G -> concl W K TVoid sc (loop_def (E n) b m st sc).
Proof.
  intros Hb. induction m as [|m IHm]; intros W st HC.
  - rewrite loop_def_O. apply concl_intro; [apply (ctx_store _ _ _ _ _ HC)|exact I].
  - rewrite loop_def_S. pose proof (IH _ _ _ _ _ Hb _ _ _ HC) as C.
    destruct (E n st sc b) as [[st1 sc1] s1].
    destruct C as [Hsc [W1 [HE [HS Hs]]]]. unfold scs, sto, sig in *. cbn [fst snd] in *. subst sc1.
    pose proof (ctx_step _ _ _ _ _ _ _ HC HE HS) as HC1.
    apply (concl_ext W W1); [exact HE|]. destruct s1.
    + apply IHm. exact HC1.
    + apply concl_val; [exact HS|apply gv_void].
    + apply IHm. exact HC1.
    + apply concl_intro; [exact HS|exact Hs].
    + apply concl_intro; [exact HS|exact Hs].
    + destruct Hs.
    + apply concl_intro; [exact HS|exact I].
Qed.

Lemma case_loop n (IH : sound_at n) W0 G K b Tb W st sc :
  typed W0 G (mkK true (ret K)) b Tb -> ctx_ok W0 W st sc G ->
  concl W K TVoid sc (E (S n) st sc (ILoop b)).
Proof. intros Hb HC. rewrite exec_S_ILoop. apply (loop_sound n IH W0 G K b Tb); assumption. Qed.

Lemma case_break n W0 G K W st sc :
  in_loop K = true -> ctx_ok W0 W st sc G -> concl W K TNever sc (E (S n) st sc IBreak).
Proof. intros H HC. rewrite exec_S_IBreak. apply concl_intro; [apply (ctx_store _ _ _ _ _ HC)|exact H]. Qed.

Lemma case_continue n W0 G K W st sc :
  in_loop K = true -> ctx_ok W0 W st sc G -> concl W K TNever sc (E (S n) st sc IContinue).
Proof. intros H HC. rewrite exec_S_IContinue. apply concl_intro; [apply (ctx_store _ _ _ _ _ HC)|exact H]. Qed.

Lemma case_return n (IH : sound_at n) W0 G K x T Tr W st sc :
  typed W0 G K x T -> ret K = Some Tr -> matches T Tr = true -> ctx_ok W0 W st sc G ->
  concl W K TNever sc (E (S n) st sc (IUn UReturn x)).
Proof.
  intros Hx Hr Hm HC. rewrite exec_S_IUn.
  apply (with_val_sound powf pre n IH W0 G K x T); [exact Hx|exact HC|].
  intros W1 st1 v HE1 HC1 Hv. cbn [un_dispatch].
  apply concl_intro; [apply (ctx_store _ _ _ _ _ HC1)|]. exists Tr. split; [exact Hr|].
  apply (gv_sub W1 v T Tr); assumption.
Qed.

End Sound.

End WithFlag.

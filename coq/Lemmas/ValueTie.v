(* ValueTie.v — T10: the description of the value-level functions that translators/valuefns2coq.py
   REGENERATES from the Rust sources on every run (Gen/GenValueFns.v: stdlib::len, at::exec,
   at::range, at::create_from_instructions, Slicing::exec_index, Slicing::exec, the PartialEq of
   Variable and Array, Variable::of_type; Function::of_type through its pinned reading) coincides
   with the hand-written model (Model/Seq.v: len_exec, at_exec, slice_exec; Model/Recreate.v:
   fold_bin At; Model/Value.v: val_eqb, of_type).  All equalities are for ALL arguments (the panic
   arms agree too); the two facts about slicing that need it say so: the length of the sequence is
   below i64::MAX (every sequence in memory), and — for the order in which a panic and an error
   of two different operands surface — the bounds evaluate to integers (every checked program). *)
From SSL.Model Require Import Base Ty Float Value Ops Seq Syntax Rt Recreate.
From SSL.Lemmas Require Import TyFuel ValueLemmas SeqLemmas.
From SSL.Gen Require Import GenValueFns.
From Coq Require Import ZArith Lia List.
Local Open Scope Z_scope.

(* ---------- stdlib::len ---------- *)
Lemma gen_stdlib_len_eq v : obind (gen_stdlib_len v) (fun n => Ok (Z.of_nat n)) = len_exec v.
Proof. destruct v; reflexivity. Qed.

(* ---------- at::exec ---------- *)
Lemma nth_error_beyond {A} (l : list A) k : (length l <= k)%nat -> nth_error l k = None.
Proof. apply nth_error_None. Qed.

Lemma at_resolve {A B} (l : list A) (i : Z) (f : A -> B) :
  (let k := fun index : nat => rs_result_map f (rs_ok_or (nth_error l index) E_IndexOutOfBounds) in
   if Z.leb 0 i then k (rs_i64_as_usize i)
   else obind (Ok (length l)) (fun n =>
        let index := rs_i64_add (rs_usize_as_i64 n) i in
        if Z.ltb index 0 then Err E_IndexOutOfBounds else k (rs_i64_as_usize index)))
  = match at_index (zlen l) i with
    | Some k => match nth_error l k with Some x => Ok (f x) | None => Err E_IndexOutOfBounds end
    | None => Err E_IndexOutOfBounds
    end.
Proof.
  cbv zeta. unfold at_index, zlen, rs_i64_as_usize, rs_usize_as_i64, rs_i64_add, obind.
  destruct (Z.leb_spec 0 i) as [Hi|Hi].
  - destruct (Z.ltb_spec i (Z.of_nat (length l))) as [Hl|Hl].
    + destruct (nth_error l (Z.to_nat i)); reflexivity.
    + rewrite nth_error_beyond by lia. reflexivity.
  - destruct (Z.ltb_spec (Z.of_nat (length l) + i) 0) as [Hn|Hn];
      destruct (Z.leb_spec 0 (Z.of_nat (length l) + i)) as [Hm|Hm]; try lia; try reflexivity.
    destruct (nth_error l (Z.to_nat (Z.of_nat (length l) + i))); reflexivity.
Qed.

Lemma rs_result_map_id {A} (r : outcome A) : rs_result_map (fun x => x) r = r.
Proof. destruct r; reflexivity. Qed.

Lemma gen_at_exec_eq v index : gen_at_exec v index = at_exec v index.
Proof.
  unfold gen_at_exec, at_exec.
  destruct index as [b|i|f|s|id ps r|et vs|vs|loc t|fs|]; try reflexivity.
  cbn [rs_into_int].
  destruct v as [b|z|f|s|id ps r|et vs|vs|loc t|fs|];
    try (cbv zeta; destruct (Z.leb 0 i); reflexivity).
  - (* strings *) exact (at_resolve s i (fun ch => VString [ch])).
  - (* arrays *)
    pose proof (at_resolve vs i (fun x => x)) as H. cbv zeta in H.
    cbv zeta. cbn [gen_stdlib_len].
    destruct (at_index (zlen vs) i) as [k|].
    + destruct (nth_error vs k); rewrite <- H;
        destruct (Z.leb 0 i); try (rewrite rs_result_map_id; reflexivity);
        cbn [obind]; destruct (Z.ltb _ 0); try reflexivity; rewrite rs_result_map_id; reflexivity.
    + rewrite <- H. destruct (Z.leb 0 i); try (rewrite rs_result_map_id; reflexivity).
      cbn [obind]. destruct (Z.ltb _ 0); try reflexivity. rewrite rs_result_map_id. reflexivity.
Qed.

(* ---------- at::range, at::create_from_instructions ---------- *)
Lemma gen_at_range_eq n : gen_at_range n = (- Z.of_nat n, Z.of_nat n).
Proof. reflexivity. Qed.

Lemma gen_at_create_from_instructions_eq powf l r :
  gen_at_create_from_instructions l r = fold_bin powf At l r.
Proof.
  unfold gen_at_create_from_instructions, fold_bin, lift_val.
  destruct l; try reflexivity; destruct r; try reflexivity.
  - (* an array literal indexed by a constant *)
    destruct v; try reflexivity.
    rewrite gen_at_range_eq.
    destruct ((- Z.of_nat (length es) <=? z) && (z <? Z.of_nat (length es)))%bool; reflexivity.
  - (* two constants *) rewrite gen_at_exec_eq. reflexivity.
Qed.

(* ---------- Slicing::exec_index, Slicing::exec ---------- *)
(* an optional operand is evaluated when present *)
Definition eval_opt (ev : instr -> outcome value) (o : option instr) : outcome (option value) :=
  match o with None => Ok None | Some i => obind (ev i) (fun v => Ok (Some v)) end.

(* `i.max(-i64::MAX)`: slyce negates negative indices and isize::MIN cannot be negated *)
Definition clamp_index (i : option Z) : option Z := option_map (fun i => Z.max i (- MAX_INT)) i.

Lemma gen_Slicing_exec_index_eq ev o :
  gen_Slicing_exec_index o ev =
  obind (eval_opt ev o) (fun v => obind (opt_int v) (fun i => Ok (clamp_index i))).
Proof.
  unfold gen_Slicing_exec_index, eval_opt, clamp_index, rs_transpose, rs_i64_neg.
  destruct o as [i|]; cbn [option_map]; [|reflexivity].
  destruct (ev i) as [v| | |]; try reflexivity. cbn [obind option_map rs_transpose_opt].
  destruct v; reflexivity.
Qed.

(* the selection of a sequence by a slice, after the operands are integers *)
Definition slice_ints (v : value) (a b c : option Z) : outcome value :=
  match v with
  | VString s => match select s (slyce_indices (zlen s) a b c) with Some r => Ok (VString r) | None => Panic end
  | VArr _ vs => match select vs (slyce_indices (zlen vs) a b c) with Some r => Ok (arr_of r) | None => Panic end
  | _ => Panic
  end.

Lemma slice_exec_ints v a b c :
  slice_exec v (option_map VInt a) (option_map VInt b) (option_map VInt c) = slice_ints v a b c.
Proof. unfold slice_exec. rewrite !opt_int_int. reflexivity. Qed.

(* the generated function, exactly: lhs, then for start, stop, step in this order: evaluate,
   demand an integer, clamp; then slyce *)
Lemma gen_Slicing_exec_eq ev l a b c :
  gen_Slicing_exec l a b c ev =
  obind (ev l) (fun lv =>
  obind (eval_opt ev a) (fun av => obind (opt_int av) (fun ai =>
  obind (eval_opt ev b) (fun bv => obind (opt_int bv) (fun bi =>
  obind (eval_opt ev c) (fun cv => obind (opt_int cv) (fun ci =>
  slice_ints lv (clamp_index ai) (clamp_index bi) (clamp_index ci)))))))).
Proof.
  unfold gen_Slicing_exec. rewrite !gen_Slicing_exec_index_eq.
  destruct (ev l) as [lv| | |]; try reflexivity. cbn [obind].
  destruct (eval_opt ev a) as [av| | |]; try reflexivity. cbn [obind].
  destruct (opt_int av) as [ai| | |]; try reflexivity. cbn [obind].
  destruct (eval_opt ev b) as [bv| | |]; try reflexivity. cbn [obind].
  destruct (opt_int bv) as [bi| | |]; try reflexivity. cbn [obind].
  destruct (eval_opt ev c) as [cv| | |]; try reflexivity. cbn [obind].
  destruct (opt_int cv) as [ci| | |]; try reflexivity. cbn [obind].
  unfold slice_ints, rs_slyce_apply, rs_into_array.
  destruct lv; try reflexivity.
  - destruct (select s _); reflexivity.
  - destruct (select vs _); reflexivity.
Qed.

(* clamping at -i64::MAX changes nothing for a sequence shorter than i64::MAX *)
Lemma slyce_bound_clamp len lo hi i def :
  0 <= len < MAX_INT -> -1 <= lo ->
  slyce_bound len lo hi (clamp_index i) def = slyce_bound len lo hi i def.
Proof.
  intros Hlen Hlo. destruct i as [i|]; [|reflexivity].
  cbn [clamp_index option_map slyce_bound]. unfold clampZ, MAX_INT, two63 in *.
  destruct (Z.ltb_spec (Z.max i (- (9223372036854775808 - 1))) 0);
    destruct (Z.ltb_spec i 0); lia.
Qed.

Lemma slyce_iter_big_step fuel i e st st' :
  st < 0 -> st' < 0 -> i + st < e -> i + st' < e -> -1 <= e ->
  slyce_iter fuel i e st = slyce_iter fuel i e st'.
Proof.
  intros Hs Hs' H1 H2 He. destruct fuel as [|f]; [reflexivity|].
  cbn [slyce_iter].
  destruct (Z.leb_spec 0 st); [lia|]. destruct (Z.leb_spec 0 st'); [lia|].
  destruct (Z.ltb_spec e i); [|reflexivity]. f_equal.
  destruct f as [|f]; [reflexivity|]. cbn [slyce_iter].
  destruct (Z.leb_spec 0 st); [lia|]. destruct (Z.leb_spec 0 st'); [lia|].
  destruct (Z.ltb_spec e (i + st)); [lia|]. destruct (Z.ltb_spec e (i + st')); [lia|]. reflexivity.
Qed.

Lemma slyce_indices_clamp len a b c :
  0 <= len < MAX_INT ->
  slyce_indices len (clamp_index a) (clamp_index b) (clamp_index c) = slyce_indices len a b c.
Proof.
  intros Hlen.
  destruct c as [st|]; cbn [clamp_index option_map].
  2:{ unfold slyce_indices. cbn [Z.eqb Z.leb]. cbv zeta.
      rewrite !(slyce_bound_clamp len 0 len) by lia. reflexivity. }
  destruct (Z.leb_spec (- MAX_INT) st) as [Hst|Hst].
  - (* the step is not clamped *)
    rewrite Z.max_l by lia. unfold slyce_indices.
    destruct (st =? 0); [reflexivity|]. cbv zeta.
    destruct (0 <=? st); rewrite !slyce_bound_clamp by lia; reflexivity.
  - (* a step below -i64::MAX: at most one element either way *)
    rewrite Z.max_r by lia. unfold slyce_indices.
    assert (Hm : MAX_INT = 9223372036854775807) by reflexivity.
    destruct (Z.eqb_spec (- MAX_INT) 0); [lia|]. destruct (Z.eqb_spec st 0); [lia|].
    cbv zeta.
    destruct (Z.leb_spec 0 (- MAX_INT)); [lia|]. destruct (Z.leb_spec 0 st); [lia|].
    rewrite !slyce_bound_clamp by lia.
    set (i := slyce_bound len (-1) (len - 1) a (len - 1)).
    set (e := slyce_bound len (-1) (len - 1) b (-1)).
    assert (Hi : -1 <= i <= len - 1).
    { subst i. destruct a as [x|]; cbn [slyce_bound]; unfold clampZ; lia. }
    assert (He : -1 <= e <= len - 1).
    { subst e. destruct b as [x|]; cbn [slyce_bound]; unfold clampZ; lia. }
    apply slyce_iter_big_step; lia.
Qed.

Lemma slice_ints_clamp v a b c :
  match v with VString s => zlen s < MAX_INT | VArr _ vs => zlen vs < MAX_INT | _ => True end ->
  slice_ints v (clamp_index a) (clamp_index b) (clamp_index c) = slice_ints v a b c.
Proof.
  intros H. destruct v; try reflexivity; cbn [slice_ints];
    rewrite slyce_indices_clamp by (unfold zlen in *; lia); reflexivity.
Qed.

(* in a checked program the bounds evaluate to integers: then the generated function is the
   model's slice_exec applied to the operands evaluated left to right *)
Definition is_int_opt (v : option value) : Prop :=
  match v with None => True | Some (VInt _) => True | Some _ => False end.
Definition short_seq (v : value) : Prop :=
  match v with VString s => zlen s < MAX_INT | VArr _ vs => zlen vs < MAX_INT | _ => True end.

Lemma opt_int_is_int v : is_int_opt v -> exists i, v = option_map VInt i /\ opt_int v = Ok i.
Proof.
  destruct v as [[]|]; cbn [is_int_opt]; intros H; try contradiction.
  - exists (Some z). split; reflexivity.
  - exists None. split; reflexivity.
Qed.

Lemma gen_Slicing_exec_model ev l a b c :
  (forall lv, ev l = Ok lv -> short_seq lv) ->
  (forall v, eval_opt ev a = Ok v -> is_int_opt v) ->
  (forall v, eval_opt ev b = Ok v -> is_int_opt v) ->
  (forall v, eval_opt ev c = Ok v -> is_int_opt v) ->
  gen_Slicing_exec l a b c ev =
  obind (ev l) (fun lv => obind (eval_opt ev a) (fun av => obind (eval_opt ev b) (fun bv =>
  obind (eval_opt ev c) (fun cv => slice_exec lv av bv cv)))).
Proof.
  intros Hl Ha Hb Hc. rewrite gen_Slicing_exec_eq.
  destruct (ev l) as [lv| | |]; try reflexivity. cbn [obind].
  destruct (eval_opt ev a) as [av| | |]; try reflexivity. cbn [obind].
  destruct (opt_int_is_int av (Ha av eq_refl)) as [ai [-> ->]]. cbn [obind].
  destruct (eval_opt ev b) as [bv| | |]; try reflexivity. cbn [obind].
  destruct (opt_int_is_int bv (Hb bv eq_refl)) as [bi [-> ->]]. cbn [obind].
  destruct (eval_opt ev c) as [cv| | |]; try reflexivity. cbn [obind].
  destruct (opt_int_is_int cv (Hc cv eq_refl)) as [ci [-> ->]]. cbn [obind].
  rewrite slice_exec_ints. apply slice_ints_clamp. exact (Hl lv eq_refl).
Qed.

(* ---------- PartialEq for Variable / Array ---------- *)
Local Close Scope Z_scope.

Lemma value_size_pos v : 1 <= rs_value_size v.
Proof. destruct v; cbn [rs_value_size]; lia. Qed.

Lemma in_value_sizes x (l : list value) :
  In x l -> rs_value_size x <= fold_right (fun x acc => rs_value_size x + acc) 0 l.
Proof.
  induction l as [|y l IH]; cbn [In fold_right]; [contradiction|].
  intros [->|H]; [lia|]. specialize (IH H). lia.
Qed.

Lemma in_field_sizes (kv : ident * value) (l : list (ident * value)) :
  In kv l -> rs_value_size (snd kv) <= fold_right (fun kv acc => rs_value_size (snd kv) + acc) 0 l.
Proof.
  induction l as [|y l IH]; cbn [In fold_right]; [contradiction|].
  intros [->|H]; [lia|]. specialize (IH H). lia.
Qed.

(* the element-wise comparison written inside val_eqb is rs_slice_eqb *)
Lemma slice_eqb_val (E : value -> value -> bool) l1 l2 :
  (forall x, In x l1 -> forall y, E x y = val_eqb x y) ->
  rs_slice_eqb E l1 l2 =
  (fix go (l1 l2 : list value) : bool :=
     match l1, l2 with
     | [], [] => true
     | x :: l1, y :: l2 => val_eqb x y && go l1 l2
     | _, _ => false
     end) l1 l2.
Proof.
  revert l2. induction l1 as [|x l1 IH]; intros [|y l2] H; cbn [rs_slice_eqb]; try reflexivity.
  rewrite (H x (or_introl eq_refl)), IH; [reflexivity|].
  intros z Hz. apply H. right. exact Hz.
Qed.

Lemma gen_Variable_eq_f_eq : forall n a b,
  rs_value_size a <= n -> gen_Variable_eq_f n a b = val_eqb a b.
Proof.
  induction n as [|n IH]; intros a b Hn; [pose proof (value_size_pos a); lia|].
  cbn [gen_Variable_eq_f]. unfold gen_Variable_eq_step.
  destruct a as [x|x|x|x|i1 p1 r1|t1 l1|l1|i1 t1|f1|], b as [y|y|y|y|i2 p2 r2|t2 l2|l2|i2 t2|f2|];
    try reflexivity; cbn [rs_value_size] in Hn.
  - (* arrays *)
    unfold gen_Array_eq_open. cbn [val_eqb]. apply slice_eqb_val.
    intros z Hz w. apply IH. pose proof (in_value_sizes z l1 Hz). lia.
  - (* tuples *)
    cbn [val_eqb]. apply slice_eqb_val.
    intros z Hz w. apply IH. pose proof (in_value_sizes z l1 Hz). lia.
  - (* structs *)
    cbn [val_eqb]. unfold rs_hashmap_eqb. f_equal.
    apply forallb_ext_in. intros kv Hkv.
    destruct (assoc (fst kv) f2); [|reflexivity].
    apply IH. pose proof (in_field_sizes kv f1 Hkv). lia.
Qed.

Lemma gen_Variable_eq_eq a b : gen_Variable_eq a b = val_eqb a b.
Proof. apply gen_Variable_eq_f_eq. lia. Qed.

Lemma gen_Array_eq_eq t1 l1 t2 l2 : gen_Array_eq t1 l1 t2 l2 = val_eqb (VArr t1 l1) (VArr t2 l2).
Proof.
  unfold gen_Array_eq, gen_Array_eq_open. cbn [val_eqb]. apply slice_eqb_val.
  intros x _ y. apply gen_Variable_eq_eq.
Qed.

(* ---------- Variable::of_type (Function::of_type through its pinned reading) ---------- *)
Lemma collect_of_types (F : ty -> option value) ts :
  (forall t, In t ts -> F t = of_type t) -> rs_collect_option (map F ts) = of_types ts.
Proof.
  induction ts as [|t ts IH]; intros H; cbn [map rs_collect_option of_types]; [reflexivity|].
  rewrite (H t (or_introl eq_refl)), IH; [reflexivity|].
  intros u Hu. apply H. right. exact Hu.
Qed.

Lemma collect_of_fields (F : ty -> option value) fs :
  (forall kv, In kv fs -> F (snd kv) = of_type (snd kv)) ->
  rs_collect_option (map (fun '(key, value) => match F value with
                                               | Some x => Some (key, x) | None => None end) fs)
  = of_fields fs.
Proof.
  induction fs as [|[k t] fs IH]; intros H; cbn [map rs_collect_option of_fields]; [reflexivity|].
  pose proof (H (k, t) (or_introl eq_refl)) as Hk. cbn [snd] in Hk. rewrite Hk.
  rewrite IH by (intros kv Hkv; apply H; right; exact Hkv).
  destruct (of_type t), (of_fields fs); reflexivity.
Qed.

Lemma gen_Variable_of_type_f_eq : forall n t, size t <= n -> gen_Variable_of_type_f n t = of_type t.
Proof.
  induction n as [|n IH]; intros t Hn; [pose proof (size_pos t); lia|].
  cbn [gen_Variable_of_type_f]. unfold gen_Variable_of_type_step.
  destruct t as [| | | | | | |ps r|e|ts|ms|e|fs]; try reflexivity.
  - (* functions: the pinned reading of Function::of_type *)
    unfold pinned_Function_of_type. rewrite (IH r) by (cbn [size] in Hn; lia). cbn [of_type].
    destruct (of_type r); reflexivity.
  - (* tuples *)
    rewrite of_type_tup, (collect_of_types (gen_Variable_of_type_f n) ts).
    + destruct (of_types ts); reflexivity.
    + intros u Hu. apply IH. pose proof (in_sizes _ _ Hu). cbn [size] in Hn. lia.
  - (* unions: the first member in iteration order *)
    destruct ms as [|m ms]; [reflexivity|]. cbn [hd_error rs_and_then of_type]. apply IH.
    cbn [size sizes_with fold_right] in Hn. lia.
  - (* cells *)
    rewrite (IH e) by (cbn [size] in Hn; lia). cbn [of_type]. destruct (of_type e); reflexivity.
  - (* structs *)
    rewrite of_type_struct. cbv zeta.
    rewrite (collect_of_fields (gen_Variable_of_type_f n) fs).
    + destruct (of_fields fs); reflexivity.
    + intros kv Hkv. apply IH. pose proof (in_fsizes _ _ Hkv). cbn [size] in Hn. lia.
Qed.

Lemma gen_Variable_of_type_eq t : gen_Variable_of_type t = of_type t.
Proof. apply gen_Variable_of_type_f_eq. lia. Qed.

Lemma gen_Function_of_type_eq ps r : gen_Function_of_type ps r = of_type (TFun ps r).
Proof.
  unfold gen_Function_of_type, pinned_Function_of_type. rewrite gen_Variable_of_type_eq.
  cbn [of_type]. destruct (of_type r); reflexivity.
Qed.

(* ---------- the table the translator wrote ---------- *)
Section Table.
Import Coq.Strings.String.
Local Open Scope string_scope.
Import GenValueFnsTable.

Lemma covered_value_functions_table :
  map fst gen_translated =
  [ "stdlib::len"; "at::exec"; "at::range"; "at::create_from_instructions"; "Slicing::exec_index";
    "Slicing::exec"; "Variable::eq"; "Array::eq"; "Variable::of_type"; "Function::of_type" ].
Proof. reflexivity. Qed.

Lemma pinned_value_functions_table :
  map fst gen_pinned =
  [ "Function::of_type"; "Array::from (impl From < T >)";
    "Variable::from (impl From < Arc < [ Variable ] > >)"; "Array::deref (impl Deref)";
    "Slicing::recreate (impl Recreate)"; "Slicing::return_type (impl ReturnType)"; "Slicing::create";
    "crate slyce 0.3.1" ].
Proof. reflexivity. Qed.
End Table.

(* SoundRec3.v — layer 3, the constant-propagation pass (3/3): [recreate] preserves
   typing, up to narrowing.

   [rec_at n]   every typed instruction, recreated with fuel n in an environment that
                agrees with the typing environment ([renv]), either runs out of fuel,
                reports a documented error, or yields an instruction typed under the new
                environment with a type BELOW the old one; never a panic.
   One lemma [rc_*] per instruction form, then the knot by induction on the fuel; the
   closure-creation hypothesis of Sound5 ([recreate_ok]) follows for EVERY typed body. *)
From SSL.Model Require Import Base Ty Float Value Ops Seq Syntax Rt Recreate Exec Check.
From SSL.Lemmas Require Import TyLemmas ValueLemmas SeqLemmas ExecLemmas SoundLemmas CellLemmas
  FoldLemmas SoundDefs SoundVals SoundTyping Sound1 Sound2 Sound3 Sound4 Sound5 SoundRec1 SoundRec2.

Arguments matches : simpl never.
Arguments ty_eqb : simpl never.
Arguments concat : simpl never.

Local Open Scope Z_scope.

Lemma early_err_doc o l r x : early_err o l r = Some x -> doc_err x.
Proof.
  intros H. apply early_err_iff in H. unfold early_error in H. unfold doc_err. cbn [In].
  destruct H as [[_ [_ ->]]|[[_ [_ ->]]|[[_ [s [_ [_ ->]]]]|[_ [es [t [i [_ [_ [_ ->]]]]]]]]]]; tauto.
Qed.

Lemma all_vars_spec es vs : all_vars es = Some vs -> es = map IVar vs.
Proof.
  revert vs. induction es as [|x es IH]; intros vs H; cbn [all_vars fold_right] in H.
  - injection H as <-. reflexivity.
  - fold (all_vars es) in H. destruct x; try discriminate H.
    destruct (all_vars es) as [r|]; [|discriminate H]. injection H as <-.
    cbn [map]. rewrite (IH r eq_refl). reflexivity.
Qed.

Section WithFlag.
Context {FL : Policy}.
(* the closure policy accepts every literal: the rules T_AnonFn / Ln_fndecl carry no
   premise beyond the typing of the body *)
Hypothesis pol_all : forall W0 G nm ps body r, closure_ok W0 G nm ps body r.

Section Rec.
Variable powf : fbits -> fbits -> fbits.
Variable sc : scopes.
Variable W : sty.
Notation RC n := (recreate powf n sc).

Definition rres (G2 : genv) (K : kctx) (T : ty) (e : lenv) (p : instr * lenv) : Prop :=
  snd p = e /\ exists T', typed W G2 K (fst p) T' /\ matches T' T = true.

Definition rec_at (n : nat) : Prop :=
  forall W0 G K i T, typed W0 G K i T -> ext W0 W ->
  forall e G2, renv W sc e G G2 -> ogood (rres G2 K T e) (RC n e i).

Lemma rec_bind n (IH : rec_at n) W0 G K x Tx e G2 {B} (Q : B -> Prop)
    (k : instr * lenv -> outcome B) :
  typed W0 G K x Tx -> ext W0 W -> renv W sc e G G2 ->
  (forall x' T', typed W G2 K x' T' -> matches T' Tx = true -> ogood Q (k (x', e))) ->
  ogood Q (obind (RC n e x) k).
Proof.
  intros Hx HE HR Hk. apply (ogood_bind (rres G2 K Tx e)); [apply (IH W0 G K x Tx); assumption|].
  intros [x' e'] [He [T' [Ht M]]]. cbn [fst snd] in *. subst e'. apply (Hk x' T'); assumption.
Qed.

Lemma rres_intro G2 K T e i' T' :
  typed W G2 K i' T' -> matches T' T = true -> ogood (rres G2 K T e) (Ok (i', e)).
Proof. intros Ht M. cbn [ogood]. split; [reflexivity|]. exists T'. auto. Qed.

(* a constant of a good value *)
Lemma typed_const G2 K v T :
  gv W v T -> exists T', typed W G2 K (IVar v) T' /\ matches T' T = true.
Proof.
  intros [Hv Hg]. exists (as_type v). split; [apply T_Var; exact Hg|apply (has_type_tag _ _ Hv)].
Qed.

Lemma typed_var_inv G2 K v T : typed W G2 K (IVar v) T -> T = as_type v /\ vgood W v.
Proof. intros H. inversion H; subst. auto. Qed.

(* ---- leaves ---- *)
Lemma rc_var n W0 G2 K v e :
  vgood W0 v -> ext W0 W -> ogood (rres G2 K (as_type v) e) (RC (S n) e (IVar v)).
Proof.
  intros Hv HE. rewrite recreate_S_IVar.
  assert (Hg : vgood W v) by (apply (vgood_mono W0 W); assumption).
  apply (rres_intro G2 K _ e (IVar v) (as_type v)); [apply T_Var; exact Hg|].
  apply matches_refl. apply (vgood_wf_ty W). exact Hg.
Qed.

Lemma rc_local n G G2 K nm lv e :
  assoc nm G = Some (lvar_type lv) -> renv W sc e G G2 ->
  ogood (rres G2 K (lvar_type lv) e) (RC (S n) e (ILocal nm lv)).
Proof.
  intros Hn [_ [_ HR]]. rewrite recreate_S_ILocal. unfold resolve_name.
  specialize (HR nm _ Hn).
  destruct (lenv_get nm e) as [[ps r|v|t]|]; cbn [obind].
  - destruct HR as [A B]. apply (rres_intro G2 K _ e _ (lvar_type (LFunction ps r))); [|exact B].
    apply T_Local; [reflexivity|exact A].
  - destruct (typed_const G2 K v _ HR) as [T' [Ht M]]. apply (rres_intro G2 K _ e _ T'); assumption.
  - destruct HR as [A B]. apply (rres_intro G2 K _ e _ (lvar_type (LOther t))); [|exact B].
    apply T_Local; [reflexivity|exact A].
  - destruct HR as [v [Hs Hv]]. rewrite Hs. cbn [obind].
    destruct (typed_const G2 K v _ Hv) as [T' [Ht M]]. apply (rres_intro G2 K _ e _ T'); assumption.
Qed.

(* ---- lists of expressions ---- *)
Definition rres_all (G2 : genv) (K : kctx) (Ts : list ty) (e : lenv) (p : list instr * lenv) : Prop :=
  snd p = e /\ exists Ts', typed_all W G2 K (fst p) Ts' /\ all2 matches Ts' Ts = true.

Lemma rec_all n (IH : rec_at n) W0 G K es Ts :
  typed_all W0 G K es Ts -> ext W0 W ->
  forall e G2, renv W sc e G G2 -> ogood (rres_all G2 K Ts e) (rec_list_def (RC n) es e).
Proof.
  intros H HE. induction H as [G K|G K x es T Ts Hx Hes IHes]; intros e G2 HR.
  - cbn [rec_list_def ogood]. split; [reflexivity|]. exists []. split; [constructor|reflexivity].
  - cbn [rec_list_def]. apply (rec_bind n IH W0 G K x T e G2); try assumption.
    intros x' T' Hx' M. apply (ogood_bind (rres_all G2 K Ts e)); [apply IHes; exact HR|].
    intros [es' e'] [He [Ts' [Hes' Ms]]]. cbn [fst snd] in *. subst e'. cbn [ogood].
    split; [reflexivity|]. exists (T' :: Ts'). split; [constructor; assumption|].
    cbn [all2]. rewrite M, Ms. reflexivity.
Qed.

Lemma typed_all_consts G2 K vs Ts :
  typed_all W G2 K (map IVar vs) Ts -> Ts = map as_type vs /\ Forall (vgood W) vs.
Proof.
  revert Ts. induction vs as [|v vs IH]; intros Ts H; inversion H; subst.
  - split; [reflexivity|constructor].
  - match goal with Hv : typed W G2 K (IVar v) _, Hr : typed_all W G2 K (map IVar vs) _ |- _ =>
      destruct (typed_var_inv _ _ _ _ Hv) as [-> Hg]; destruct (IH _ Hr) as [-> Hgs] end.
    split; [reflexivity|constructor; assumption].
Qed.

Lemma rc_tuple n (IH : rec_at n) W0 G K es Ts :
  typed_all W0 G K es Ts -> ext W0 W ->
  forall e G2, renv W sc e G G2 -> ogood (rres G2 K (TTup Ts) e) (RC (S n) e (ITuple es)).
Proof.
  intros Hes HE e G2 HR. rewrite recreate_S_ITuple.
  apply (ogood_bind (rres_all G2 K Ts e)); [apply (rec_all n IH W0 G K es Ts); assumption|].
  intros [es' e'] [He [Ts' [Hes' Ms]]]. cbn [fst snd] in *. subst e'.
  destruct (all_vars es') as [vs|] eqn:Ev.
  - apply all_vars_spec in Ev. subst es'. destruct (typed_all_consts _ _ _ _ Hes') as [-> Hg].
    apply (rres_intro G2 K _ e _ (as_type (VTup vs))).
    + apply T_Var. rewrite vgood_tup. exact Hg.
    + cbn [as_type]. rewrite matches_tup. exact Ms.
  - apply (rres_intro G2 K _ e _ (TTup Ts')); [apply T_Tuple; exact Hes'|].
    rewrite matches_tup. exact Ms.
Qed.

Lemma rc_array n (IH : rec_at n) W0 G K es Ts et :
  typed_all W0 G K es Ts -> wf_ty et = true -> matches (join_all Ts) et = true -> ext W0 W ->
  forall e G2, renv W sc e G G2 -> ogood (rres G2 K (TArr et) e) (RC (S n) e (IArray es et)).
Proof.
  intros Hes Wet Met HE e G2 HR. rewrite recreate_S_IArray.
  pose proof (typed_all_wf _ _ _ _ _ Hes (renv_wf _ _ _ _ _ HR)) as WTs.
  apply (ogood_bind (rres_all G2 K Ts e)); [apply (rec_all n IH W0 G K es Ts); assumption|].
  intros [es' e'] [He [Ts' [Hes' Ms]]]. cbn [fst snd] in *. subst e'.
  pose proof (join_all_mono Ts' Ts et WTs Ms Met) as Mj.
  destruct (all_vars es') as [vs|] eqn:Ev.
  - apply all_vars_spec in Ev. subst es'. destruct (typed_all_consts _ _ _ _ Hes') as [-> Hg].
    apply (rres_intro G2 K _ e _ (as_type (arr_of vs))).
    + apply T_Var. apply vgood_arr_of. exact Hg.
    + unfold arr_of. cbn [as_type]. rewrite matches_arr. exact Mj.
  - apply (rres_intro G2 K _ e _ (TArr et)); [apply T_Array with (Ts := Ts'); assumption|].
    apply matches_refl. exact Wet.
Qed.

Lemma fold_repeat_cases v len :
  (exists n, len = IVar (VInt n) /\ n < 0 /\ fold_repeat v len = Err E_NegativeLength) \/
  (exists x n, v = IVar x /\ len = IVar (VInt n) /\ fold_repeat v len = Ok (IVar (repeat_value x n))) \/
  fold_repeat v len = Ok (IArrayRepeat v len).
Proof.
  assert (D : (exists n, len = IVar (VInt n)) \/ (forall n, len <> IVar (VInt n))).
  { destruct len; try (right; intros n0 H0; discriminate H0).
    destruct v0; try (right; intros n0 H0; discriminate H0). left. eauto. }
  destruct D as [[n ->]|D]; [|right; right; apply fold_repeat_other; exact D].
  destruct (Z.ltb_spec n 0) as [Hn|Hn].
  - left. exists n. split; [reflexivity|]. split; [exact Hn|apply fold_repeat_neg; exact Hn].
  - assert (Dv : (exists x, v = IVar x) \/ FoldLemmas.is_const v = false)
      by (destruct v; try (right; reflexivity); left; eauto).
    destruct Dv as [[x ->]|Dv].
    + right. left. exists x, n. split; [reflexivity|]. split; [reflexivity|].
      apply fold_repeat_const. exact Hn.
    + right. right. apply fold_repeat_nonconst; assumption.
Qed.

Lemma rc_repeat n (IH : rec_at n) W0 G K v len T Tl :
  typed W0 G K v T -> typed W0 G K len Tl -> matches Tl TInt = true -> ext W0 W ->
  forall e G2, renv W sc e G G2 -> ogood (rres G2 K (TArr T) e) (RC (S n) e (IArrayRepeat v len)).
Proof.
  intros Hv Hl Hm HE e G2 HR. rewrite recreate_S_IArrayRepeat.
  apply (rec_bind n IH W0 G K v T e G2); try assumption. intros v' T' Hv' Mv.
  apply (rec_bind n IH W0 G K len Tl e G2); try assumption. intros len' Tl' Hl' Ml.
  destruct (fold_repeat_cases v' len') as [[k [-> [Hk E]]]|[[x [k [-> [-> E]]]]|E]]; rewrite E;
    cbn [obind].
  - cbn [ogood]. unfold doc_err. cbn. tauto.
  - destruct (typed_var_inv _ _ _ _ Hv') as [-> Hg].
    apply (rres_intro G2 K _ e _ (as_type (repeat_value x k))).
    + apply T_Var. apply vgood_repeat. exact Hg.
    + unfold repeat_value. cbn [as_type]. rewrite matches_arr. exact Mv.
  - apply (rres_intro G2 K _ e _ (TArr T')).
    + apply (T_Repeat W G2 K v' len' T' Tl' Hv' Hl'). apply (matches_trans _ _ _ Ml Hm).
    + rewrite matches_arr. exact Mv.
Qed.

(* ---- struct literals ---- *)
Lemma rec_fields n (IH : rec_at n) W0 G K fs acc out :
  typed_fields W0 G K fs acc out -> ext W0 W ->
  forall e G2 acc', renv W sc e G G2 -> srel acc' acc ->
  ogood (fun p => snd p = e /\ exists out', typed_fields W G2 K (fst p) acc' out' /\ srel out' out)
        (rec_fields_def (RC n) fs e).
Proof.
  intros H HE. induction H as [G K acc|G K k x fs T acc out Hx Hfs IHfs]; intros e G2 acc' HR Hs.
  - cbn [rec_fields_def ogood fst snd]. split; [reflexivity|]. exists acc'. split; [constructor|exact Hs].
  - cbn [rec_fields_def]. apply (rec_bind n IH W0 G K x T e G2); try assumption.
    intros x' T' Hx' M.
    apply (ogood_bind (fun p => snd p = e /\ exists out', typed_fields W G2 K (fst p) (struct_ty_insert k T' acc') out' /\ srel out' out)).
    + apply IHfs; [exact HR|apply srel_insert; assumption].
    + intros [fs' e'] [He [out' [Hfs' Hso]]]. cbn [fst snd] in *. subst e'. cbn [ogood fst snd].
      split; [reflexivity|]. exists out'. split; [econstructor; eassumption|exact Hso].
Qed.

Lemma typed_fields_nodup G2 K fs acc out :
  typed_fields W G2 K fs acc out -> nodup_keys acc = true -> nodup_keys out = true.
Proof.
  intros H. induction H as [|G K k x fs T acc out Hx Hfs IH]; intros Hn; [exact Hn|].
  apply IH. apply nodup_struct_ty_insert. exact Hn.
Qed.

Lemma rc_struct n (IH : rec_at n) W0 G K fs out :
  typed_fields W0 G K fs [] out -> ext W0 W ->
  forall e G2, renv W sc e G G2 -> ogood (rres G2 K (TStruct out) e) (RC (S n) e (IStruct fs)).
Proof.
  intros Hfs HE e G2 HR. rewrite recreate_S_IStruct.
  eapply ogood_bind; [apply (rec_fields n IH W0 G K fs [] out Hfs HE e G2 [] HR); constructor|].
  intros [fs' e'] [He [out' [Hfs' Hso]]]. cbn [fst snd] in *. subst e'.
  apply (rres_intro G2 K _ e _ (TStruct out')); [apply T_Struct; exact Hfs'|].
  apply srel_matches; [exact Hso|]. apply (typed_fields_nodup _ _ _ _ _ Hfs'). reflexivity.
Qed.

(* ---- access forms: a query on the operand type ---- *)
Lemma rc_query n (IH : rec_at n) W0 G K x T R (q : ty -> option ty)
    (mk : instr -> instr)
    (Hmono : forall T', wf_ty T' = true -> wf_ty T = true -> matches T' T = true -> qres q T R ->
               exists R', qres q T' R' /\ matches R' R = true)
    (Hrule : forall G2 x' T' R', typed W G2 K x' T' -> qres q T' R' -> typed W G2 K (mk x') R') :
  typed W0 G K x T -> qres q T R -> ext W0 W ->
  forall e G2, renv W sc e G G2 ->
  ogood (rres G2 K R e) (obind (RC n e x) (fun '(x', e) => Ok (mk x', e))).
Proof.
  intros Hx Hq HE e G2 HR.
  apply (rec_bind n IH W0 G K x T e G2); try assumption. intros x' T' Hx' M.
  pose proof (typed_wf _ _ _ _ _ Hx (renv_wf _ _ _ _ _ HR)) as WT.
  pose proof (typed_wf _ _ _ _ _ Hx' (renv_wf2 _ _ _ _ _ HR)) as WT'.
  destruct (Hmono T' WT' WT M Hq) as [R' [Hq' MR]].
  apply (rres_intro G2 K _ e _ R'); [apply (Hrule G2 x' T' R'); assumption|exact MR].
Qed.

Lemma rc_tuple_access n (IH : rec_at n) W0 G K x k T R :
  typed W0 G K x T -> qres (tuple_element_at k) T R -> ext W0 W ->
  forall e G2, renv W sc e G G2 -> ogood (rres G2 K R e) (RC (S n) e (ITupleAccess x k)).
Proof.
  intros Hx Hq HE e G2 HR. rewrite recreate_S_ITupleAccess.
  apply (rc_query n IH W0 G K x T R (tuple_element_at k) (fun x' => ITupleAccess x' k)); try assumption.
  - intros T' W' WT M Hq'. apply (qres_tuple_mono k T' T R); assumption.
  - intros G3 x' T' R' Hx' Hq'. apply (T_TupleAccess W G3 K x' k T' R'); assumption.
Qed.

Lemma rc_field_access n (IH : rec_at n) W0 G K x f T R :
  typed W0 G K x T -> qres (field_type f) T R -> ext W0 W ->
  forall e G2, renv W sc e G G2 -> ogood (rres G2 K R e) (RC (S n) e (IFieldAccess x f)).
Proof.
  intros Hx Hq HE e G2 HR. rewrite recreate_S_IFieldAccess.
  apply (rc_query n IH W0 G K x T R (field_type f) (fun x' => IFieldAccess x' f)); try assumption.
  - intros T' W' WT M Hq'. apply (qres_field_mono f T' T R); assumption.
  - intros G3 x' T' R' Hx' Hq'. apply (T_FieldAccess W G3 K x' f T' R'); assumption.
Qed.

(* ---- prefix operators ---- *)
Lemma instr_var_dec (x : instr) : (exists v, x = IVar v) \/ FoldLemmas.is_const x = false.
Proof. destruct x; try (right; reflexivity). left. eauto. Qed.

Lemma rc_unfold n (IH : rec_at n) W0 G K x T (u : unop) (ACC : ty)
    (Hrule : forall G2 x' T', typed W G2 K x' T' -> matches T' ACC = true -> typed W G2 K (IUn u x') T')
    (Hexec : forall T' v, matches T' ACC = true -> has_type v T' = true ->
               exists r, unop_exec u v = Ok r /\ has_type r T' = true) :
  u = UNot \/ u = UUnaryMinus ->
  typed W0 G K x T -> matches T ACC = true -> ext W0 W ->
  forall e G2, renv W sc e G G2 -> ogood (rres G2 K T e) (RC (S n) e (IUn u x)).
Proof.
  intros Hu Hx Hm HE e G2 HR. rewrite recreate_S_IUn.
  apply (rec_bind n IH W0 G K x T e G2); try assumption. intros x' T' Hx' M.
  pose proof (matches_trans _ _ _ M Hm) as Hm'.
  destruct (instr_var_dec x') as [[v ->]|Hc].
  - destruct (typed_var_inv _ _ _ _ Hx') as [-> Hg].
    destruct (Hexec (as_type v) v Hm' (vgood_self W v Hg)) as [r [Hr Ht]].
    assert (E : fold_un u (IVar v) = Ok (IVar r)).
    { destruct Hu as [->| ->]; cbn [fold_un]; rewrite Hr; reflexivity. }
    rewrite E. cbn [obind].
    apply (rres_intro G2 K _ e _ (as_type r)).
    + apply T_Var. apply (vgood_unop_exec W u v r Hr).
    + apply (matches_trans _ (as_type v)); [apply (has_type_tag _ _ Ht)|exact M].
  - rewrite fold_un_other by (right; exact Hc). cbn [obind].
    apply (rres_intro G2 K _ e _ T'); [apply Hrule; assumption|exact M].
Qed.

Lemma rc_not n (IH : rec_at n) W0 G K x T :
  typed W0 G K x T -> matches T ACC_NOT = true -> ext W0 W ->
  forall e G2, renv W sc e G G2 -> ogood (rres G2 K T e) (RC (S n) e (IUn UNot x)).
Proof.
  apply (rc_unfold n IH W0 G K x T UNot ACC_NOT); [| |left; reflexivity].
  - intros G2 x' T'. apply T_Not.
  - intros T' v. apply not_sound.
Qed.

Lemma rc_neg n (IH : rec_at n) W0 G K x T :
  typed W0 G K x T -> matches T ACC_NEG = true -> ext W0 W ->
  forall e G2, renv W sc e G G2 -> ogood (rres G2 K T e) (RC (S n) e (IUn UUnaryMinus x)).
Proof.
  apply (rc_unfold n IH W0 G K x T UUnaryMinus ACC_NEG); [| |right; reflexivity].
  - intros G2 x' T'. apply T_Neg.
  - intros T' v. apply neg_sound.
Qed.

Lemma rc_deref n (IH : rec_at n) W0 G K x T R :
  typed W0 G K x T -> qres mut_element_type_spec T R -> ext W0 W ->
  forall e G2, renv W sc e G G2 -> ogood (rres G2 K R e) (RC (S n) e (IUn UIndirection x)).
Proof.
  intros Hx Hq HE e G2 HR. rewrite recreate_S_IUn.
  assert (E : forall x', fold_un UIndirection x' = Ok (IUn UIndirection x'))
    by (intros x'; apply fold_un_other; left; split; discriminate).
  apply (rec_bind n IH W0 G K x T e G2); try assumption. intros x' T' Hx' M.
  rewrite E. cbn [obind].
  pose proof (typed_wf _ _ _ _ _ Hx (renv_wf _ _ _ _ _ HR)) as WT.
  pose proof (typed_wf _ _ _ _ _ Hx' (renv_wf2 _ _ _ _ _ HR)) as WT'.
  destruct (qres_mut_mono T' T R WT' WT M Hq) as [R' [Hq' MR]].
  apply (rres_intro G2 K _ e _ R'); [apply (T_Deref W G2 K x' T' R'); assumption|exact MR].
Qed.

Lemma rc_return n (IH : rec_at n) W0 G K x T Tr :
  typed W0 G K x T -> ret K = Some Tr -> matches T Tr = true -> ext W0 W ->
  forall e G2, renv W sc e G G2 -> ogood (rres G2 K TNever e) (RC (S n) e (IUn UReturn x)).
Proof.
  intros Hx Hr Hm HE e G2 HR. rewrite recreate_S_IUn.
  assert (E : forall x', fold_un UReturn x' = Ok (IUn UReturn x'))
    by (intros x'; apply fold_un_other; left; split; discriminate).
  apply (rec_bind n IH W0 G K x T e G2); try assumption. intros x' T' Hx' M.
  rewrite E. cbn [obind].
  apply (rres_intro G2 K _ e _ TNever); [|reflexivity].
  apply (T_Return W G2 K x' T' Tr Hx' Hr). apply (matches_trans _ _ _ M Hm).
Qed.

(* ---- binary operators ---- *)
Lemma exec_bin_op o a b : o <> At -> exec_bin powf o a b = op_exec powf o a b.
Proof. intros H. destruct o; try reflexivity. contradiction. Qed.

Lemma const_dec (l r : instr) :
  (exists a b, l = IVar a /\ r = IVar b) \/ FoldLemmas.is_const l && FoldLemmas.is_const r = false.
Proof.
  destruct (instr_var_dec l) as [[a ->]|Hl]; [|right; rewrite Hl; reflexivity].
  destruct (instr_var_dec r) as [[b ->]|Hr]; [left; eauto|right; rewrite Hr; apply andb_false_r].
Qed.

Lemma rc_bin_pure n (IH : rec_at n) W0 G K op l r T1 T2 R :
  pure_op op = true -> typed W0 G K l T1 -> typed W0 G K r T2 ->
  can_be_used op T1 T2 = Ok true -> bin_rt op T1 T2 = Ok R -> ext W0 W ->
  forall e G2, renv W sc e G G2 -> ogood (rres G2 K R e) (RC (S n) e (IBin op l r)).
Proof.
  intros Hp Hl Hr Hc Hrt HE e G2 HR. destruct (pure_not_logic op Hp) as [NA NO].
  rewrite recreate_S_IBin by assumption.
  apply (rec_bind n IH W0 G K l T1 e G2); try assumption. intros l' T1' Hl' M1.
  apply (rec_bind n IH W0 G K r T2 e G2); try assumption. intros r' T2' Hr' M2.
  pose proof (typed_wf _ _ _ _ _ Hl (renv_wf _ _ _ _ _ HR)) as W1.
  pose proof (typed_wf _ _ _ _ _ Hr (renv_wf _ _ _ _ _ HR)) as W2.
  pose proof (typed_wf _ _ _ _ _ Hl' (renv_wf2 _ _ _ _ _ HR)) as W1'.
  pose proof (typed_wf _ _ _ _ _ Hr' (renv_wf2 _ _ _ _ _ HR)) as W2'.
  pose proof (can_be_used_pure_mono op T1 T2 T1' T2' Hp Hc M1 M2) as Hc'.
  destruct (bin_rt_pure_mono op T1 T2 T1' T2' R Hp W1 W2 W1' W2' Hc Hrt M1 M2) as [R' [Hrt' MR]].
  assert (Unch : ogood (rres G2 K R e) (Ok (IBin op l' r', e))).
  { apply (rres_intro G2 K _ e _ R'); [|exact MR].
    apply (T_BinPure W G2 K op l' r' T1' T2' R'); assumption. }
  destruct (const_dec l' r') as [[a [b [-> ->]]]|Hnc].
  - destruct (foldable op) eqn:Hf.
    + rewrite (fold_bin_const_eq powf op a b (or_introl Hf)).
      rewrite exec_bin_op by (intros ->; discriminate Hp).
      destruct (typed_var_inv _ _ _ _ Hl') as [-> Hga]. destruct (typed_var_inv _ _ _ _ Hr') as [-> Hgb].
      destruct (binop_sound powf op (as_type a) (as_type b) R' a b Hp W1' W2'
                  (vgood_self W a Hga) (vgood_self W b Hgb) Hc' Hrt') as [NP [_ [HV HErr]]].
      destruct (op_exec powf op a b) as [v|x| |] eqn:Eo; cbn [lift_val obind ogood].
      * apply (rres_intro G2 K _ e _ (as_type v)).
        -- apply T_Var. apply (vgood_op_exec W powf op a b v Eo Hga Hgb).
        -- apply (matches_trans _ R'); [apply (has_type_tag _ _ (HV v eq_refl))|exact MR].
      * apply (doc_error_doc_err op). apply HErr. reflexivity.
      * congruence.
      * exact I.
    + rewrite (fold_bin_unfolded powf op _ _ Hf) by (intros ->; discriminate Hp). exact Unch.
  - rewrite (fold_bin_nonconst_eq powf op l' r' Hnc).
    destruct (early_err op l' r') as [x|] eqn:Ee; cbn [obind].
    + cbn [ogood]. apply (early_err_doc _ _ _ _ Ee).
    + exact Unch.
Qed.

Lemma rc_at n (IH : rec_at n) W0 G K l r T Ti R :
  typed W0 G K l T -> typed W0 G K r Ti -> matches Ti TInt = true ->
  can_be_indexed T = true -> qres index_result T R -> ext W0 W ->
  forall e G2, renv W sc e G G2 -> ogood (rres G2 K R e) (RC (S n) e (IBin At l r)).
Proof.
  intros Hl Hr Hi Hci Hq HE e G2 HR. rewrite recreate_S_IBin by discriminate.
  apply (rec_bind n IH W0 G K l T e G2); try assumption. intros l' T' Hl' M1.
  apply (rec_bind n IH W0 G K r Ti e G2); try assumption. intros r' Ti' Hr' M2.
  pose proof (typed_wf _ _ _ _ _ Hl (renv_wf _ _ _ _ _ HR)) as W1.
  pose proof (typed_wf _ _ _ _ _ Hl' (renv_wf2 _ _ _ _ _ HR)) as W1'.
  destruct (qres_index_mono T' T R W1' W1 M1 Hq) as [R' [Hq' MR]].
  pose proof (matches_trans _ _ _ M2 Hi) as Hi'.
  assert (Hci' : can_be_indexed T' = true) by (unfold can_be_indexed in *; apply (matches_trans _ _ _ M1 Hci)).
  assert (Unch : ogood (rres G2 K R e) (Ok (IBin At l' r', e))).
  { apply (rres_intro G2 K _ e _ R'); [|exact MR].
    apply (T_At W G2 K l' r' T' Ti' R'); assumption. }
  destruct (const_dec l' r') as [[a [b [-> ->]]]|Hnc].
  - rewrite (fold_bin_const_eq powf At a b (or_intror eq_refl)). cbn [exec_bin].
    destruct (typed_var_inv _ _ _ _ Hl') as [-> Hga]. destruct (typed_var_inv _ _ _ _ Hr') as [-> Hgb].
    assert (Hb : has_type b TInt = true) by (apply (has_type_sound b _ TInt (vgood_self W b Hgb) Hi')).
    destruct (at_no_panic (as_type a) a b Hci' (vgood_self W a Hga) Hb) as [NP [_ HErr]].
    destruct (at_exec a b) as [v|x| |] eqn:Eo; cbn [lift_val obind ogood].
    + destruct Hq' as [Hq'|[Hn _]]; [|exfalso; destruct a; discriminate Hn].
      apply (rres_intro G2 K _ e _ (as_type v)).
      * apply T_Var. apply (vgood_at W a b v Eo Hga).
      * apply (matches_trans _ R'); [|exact MR]. apply has_type_tag.
        apply (at_sound (as_type a) R' a b v W1'); try assumption.
        -- apply vwf_elems_typed. apply (vgood_vwf W). exact Hga.
        -- apply (vgood_self W). exact Hga.
    + rewrite (HErr x eq_refl). unfold doc_err. cbn. tauto.
    + congruence.
    + exact I.
  - rewrite (fold_bin_nonconst_eq powf At l' r' Hnc).
    destruct (early_err At l' r') as [x|] eqn:Ee; cbn [obind].
    + cbn [ogood]. apply (early_err_doc _ _ _ _ Ee).
    + exact Unch.
Qed.

Lemma rc_logic n (IH : rec_at n) W0 G K op l r T1 T2 :
  logic_op op = true -> typed W0 G K l T1 -> typed W0 G K r T2 ->
  matches T1 TBool = true -> matches T2 TBool = true -> ext W0 W ->
  forall e G2, renv W sc e G G2 -> ogood (rres G2 K TBool e) (RC (S n) e (IBin op l r)).
Proof.
  intros Hop Hl Hr E1 E2 HE e G2 HR.
  assert (HRr : ogood (rres G2 K TBool e) (RC n e r)).
  { eapply ogood_impl; [|apply (IH W0 G K r T2 Hr HE e G2 HR)].
    intros [r' e'] [He [T' [Ht M]]]. split; [exact He|]. exists T'. split; [exact Ht|].
    apply (matches_trans _ _ _ M E2). }
  assert (Hboth : forall l' T1', typed W G2 K l' T1' -> matches T1' T1 = true ->
            ogood (rres G2 K TBool e) (obind (RC n e r) (fun '(r', e0) => Ok (IBin op l' r', e0)))).
  { intros l' T1' Hl' M1. apply (rec_bind n IH W0 G K r T2 e G2); try assumption.
    intros r' T2' Hr' M2. apply (rres_intro G2 K _ e _ TBool); [|reflexivity].
    apply (T_Logic W G2 K op l' r' T1' T2' Hop Hl' Hr');
      [apply (matches_trans _ _ _ M1 E1)|apply (matches_trans _ _ _ M2 E2)]. }
  assert (Hconst : forall b, ogood (rres G2 K TBool e) (Ok (IVar (VBool b), e))).
  { intros b. apply (rres_intro G2 K _ e _ TBool); [|reflexivity].
    apply (T_Var W G2 K (VBool b)). exact I. }
  destruct op; try discriminate Hop; [rewrite recreate_S_And|rewrite recreate_S_Or];
    (apply (rec_bind n IH W0 G K l T1 e G2); try assumption); intros l' T1' Hl' M1;
    destruct l'; try (apply (Hboth _ T1'); assumption);
    destruct v; try apply Hconst; try exact HRr;
    destruct b; try apply Hconst; exact HRr.
Qed.

(* ---- assignment ---- *)
Lemma rc_assign n (IH : rec_at n) W0 G K l r L T2 :
  typed W0 G K l L -> typed W0 G K r T2 ->
  can_be_used Assign L T2 = Ok true \/ L = TNever -> ext W0 W ->
  forall e G2, renv W sc e G G2 -> ogood (rres G2 K T2 e) (RC (S n) e (IBin Assign l r)).
Proof.
  intros Hl Hr Hc HE e G2 HR. rewrite recreate_S_IBin by discriminate.
  apply (rec_bind n IH W0 G K l L e G2); try assumption. intros l' L' Hl' M1.
  apply (rec_bind n IH W0 G K r T2 e G2); try assumption. intros r' T2' Hr' M2.
  rewrite (fold_bin_unfolded powf Assign) by (reflexivity || discriminate). cbn [obind].
  pose proof (typed_wf _ _ _ _ _ Hl (renv_wf _ _ _ _ _ HR)) as W1.
  pose proof (typed_wf _ _ _ _ _ Hr (renv_wf _ _ _ _ _ HR)) as W2.
  pose proof (typed_wf _ _ _ _ _ Hl' (renv_wf2 _ _ _ _ _ HR)) as W1'.
  pose proof (typed_wf _ _ _ _ _ Hr' (renv_wf2 _ _ _ _ _ HR)) as W2'.
  apply (rres_intro G2 K _ e _ T2'); [|exact M2].
  apply (T_Assign W G2 K l' r' L' T2' Hl' Hr').
  destruct Hc as [Hc|HLn].
  - apply (assign_mono Assign L T2 L' T2' (or_introl eq_refl)); assumption.
  - subst L. right. apply (below_never L' W1' M1).
Qed.

Lemma rc_opassign n (IH : rec_at n) W0 G K aop bop l r L R T2 :
  assign_base aop = Some bop -> typed W0 G K l L -> typed W0 G K r T2 ->
  (can_be_used aop L T2 = Ok true /\ mut_element_type_spec L = Some R) \/
  (L = TNever /\ R = TNever) -> ext W0 W ->
  forall e G2, renv W sc e G G2 -> ogood (rres G2 K R e) (RC (S n) e (IBin aop l r)).
Proof.
  intros Hb Hl Hr Hor HE e G2 HR. destruct (opassign_not_logic aop bop Hb) as [NA NO].
  rewrite recreate_S_IBin by assumption.
  apply (rec_bind n IH W0 G K l L e G2); try assumption. intros l' L' Hl' M1.
  apply (rec_bind n IH W0 G K r T2 e G2); try assumption. intros r' T2' Hr' M2.
  assert (Hf : foldable aop = false /\ aop <> At) by (destruct aop; try discriminate Hb; split; (reflexivity || discriminate)).
  rewrite (fold_bin_unfolded powf aop _ _ (proj1 Hf) (proj2 Hf)). cbn [obind].
  pose proof (typed_wf _ _ _ _ _ Hl (renv_wf _ _ _ _ _ HR)) as W1.
  pose proof (typed_wf _ _ _ _ _ Hr (renv_wf _ _ _ _ _ HR)) as W2.
  pose proof (typed_wf _ _ _ _ _ Hl' (renv_wf2 _ _ _ _ _ HR)) as W1'.
  pose proof (typed_wf _ _ _ _ _ Hr' (renv_wf2 _ _ _ _ _ HR)) as W2'.
  assert (Never : L' = TNever -> ogood (rres G2 K R e) (Ok (IBin aop l' r', e))).
  { intros ->. apply (rres_intro G2 K _ e _ TNever); [|apply matches_never_l].
    apply (T_OpAssign W G2 K aop bop l' r' TNever TNever T2' Hb Hl' Hr'). right. auto. }
  destruct Hor as [[Hc HRq]|[-> ->]]; [|apply Never; apply (below_never L' W1' M1)].
  destruct (assign_mono aop L T2 L' T2' (or_intror (ex_intro _ bop Hb)) W1 W2 W1' W2' M1 M2 Hc)
    as [Hc'|HN]; [|apply Never; exact HN].
  destruct (qres_mut_mono L' L R W1' W1 M1 (or_introl HRq)) as [R' [[HR'|[HN _]] MR]];
    [|apply Never; exact HN].
  apply (rres_intro G2 K _ e _ R'); [|exact MR].
  apply (T_OpAssign W G2 K aop bop l' r' L' R' T2' Hb Hl' Hr'). left. auto.
Qed.

(* ---- calls ---- *)
Lemma rec_args_shape a : is_args a = true ->
  forall n e, match RC n e a with Ok p => is_args (fst p) = true | _ => True end.
Proof.
  intros Ha n e. destruct n as [|n]; [rewrite recreate_O; exact I|].
  destruct a; try discriminate Ha.
  - rewrite recreate_S_ITuple. destruct (rec_list_def (RC n) es e) as [[es' e']| | |]; cbn [obind]; try exact I.
    destruct (all_vars es'); reflexivity.
  - destruct v; try discriminate Ha. rewrite recreate_S_IVar. reflexivity.
Qed.

Lemma args_type_shape G2 K a T : is_args a = true -> typed W G2 K a T -> exists Ta, T = TTup Ta.
Proof.
  intros Ha H. destruct a; try discriminate Ha.
  - inversion H; subst. eauto.
  - destruct v; try discriminate Ha. inversion H; subst. cbn [as_type]. eauto.
Qed.

Lemma rc_call n (IH : rec_at n) W0 G K f a Tf Ta R :
  typed W0 G K f Tf -> is_args a = true -> typed W0 G K a (TTup Ta) ->
  (call_ok Tf Ta = true /\ fn_return_type Tf = Some R) \/ (Tf = TNever /\ R = TNever) ->
  ext W0 W ->
  forall e G2, renv W sc e G G2 -> ogood (rres G2 K R e) (RC (S n) e (IBin FunctionCall f a)).
Proof.
  intros Hf Hia Ha Hor HE e G2 HR. rewrite recreate_S_IBin by discriminate.
  apply (rec_bind n IH W0 G K f Tf e G2); try assumption. intros f' Tf' Hf' M1.
  pose proof (IH W0 G K a (TTup Ta) Ha HE e G2 HR) as Ca.
  pose proof (rec_args_shape a Hia n e) as Sa.
  destruct (RC n e a) as [[a' e']| | |]; cbn [obind ogood] in *; try assumption.
  destruct Ca as [He [Ta0 [Ha' M2]]]. cbn [fst snd] in *. subst e'.
  destruct (args_type_shape G2 K a' Ta0 Sa Ha') as [Ta' ->]. rewrite matches_tup in M2.
  rewrite (fold_bin_unfolded powf FunctionCall) by (reflexivity || discriminate). cbn [obind ogood].
  pose proof (typed_wf _ _ _ _ _ Hf (renv_wf _ _ _ _ _ HR)) as W1.
  pose proof (typed_wf _ _ _ _ _ Hf' (renv_wf2 _ _ _ _ _ HR)) as W1'.
  assert (Never : Tf' = TNever -> rres G2 K R e (IBin FunctionCall f' a', e)).
  { intros ->. split; [reflexivity|]. exists TNever. split; [|apply matches_never_l].
    apply (T_Call W G2 K f' a' TNever Ta' TNever Hf' Sa Ha'). right. auto. }
  destruct Hor as [[Hok Hret]|[-> ->]]; [|apply Never; apply (below_never Tf' W1' M1)].
  destruct (call_mono Tf Tf' Ta Ta' W1 W1' M1 M2 Hok) as [Hok'|HN]; [|apply Never; exact HN].
  destruct (qres_ret_mono Tf' Tf R W1' W1 M1 (or_introl Hret)) as [R' [[HR'|[HN _]] MR]];
    [|apply Never; exact HN].
  split; [reflexivity|]. exists R'. split; [|exact MR].
  apply (T_Call W G2 K f' a' Tf' Ta' R' Hf' Sa Ha'). left. auto.
Qed.

(* ---- slicing ---- *)
Lemma rec_opt n (IH : rec_at n) W0 G K o :
  typed_opt W0 G K o -> ext W0 W ->
  forall e G2, renv W sc e G G2 ->
  ogood (fun p => snd p = e /\ typed_opt W G2 K (fst p)) (rec_opt_def (RC n) o e).
Proof.
  intros Ho HE e G2 HR. destruct Ho as [G K|G K x T Hx Hi]; cbn [rec_opt_def].
  - cbn [ogood fst snd]. split; [reflexivity|constructor].
  - apply (rec_bind n IH W0 G K x T e G2); try assumption. intros x' T' Hx' M.
    cbn [ogood fst snd]. split; [reflexivity|].
    apply (TO_some W G2 K x' T' Hx'). apply (matches_trans _ _ _ M Hi).
Qed.

Lemma rc_slice n (IH : rec_at n) W0 G K l a b c T :
  typed W0 G K l T -> can_be_indexed T = true ->
  typed_opt W0 G K a -> typed_opt W0 G K b -> typed_opt W0 G K c -> ext W0 W ->
  forall e G2, renv W sc e G G2 -> ogood (rres G2 K T e) (RC (S n) e (ISlicing l a b c)).
Proof.
  intros Hl Hci Ha Hb Hc HE e G2 HR. rewrite recreate_S_ISlicing.
  apply (rec_bind n IH W0 G K l T e G2); try assumption. intros l' T' Hl' M.
  eapply ogood_bind; [apply (rec_opt n IH W0 G K a Ha HE e G2 HR)|].
  intros [a' e1] [He1 Ha']. cbn [fst snd] in *. subst e1.
  eapply ogood_bind; [apply (rec_opt n IH W0 G K b Hb HE e G2 HR)|].
  intros [b' e1] [He1 Hb']. cbn [fst snd] in *. subst e1.
  eapply ogood_bind; [apply (rec_opt n IH W0 G K c Hc HE e G2 HR)|].
  intros [c' e1] [He1 Hc']. cbn [fst snd] in *. subst e1.
  apply (rres_intro G2 K _ e _ T'); [|exact M].
  apply (T_Slice W G2 K l' a' b' c' T' Hl'); try assumption.
  unfold can_be_indexed in *. apply (matches_trans _ _ _ M Hci).
Qed.

(* ---- control flow ---- *)
Lemma rc_if n (IH : rec_at n) W0 G K c t f Tc Tt Tf :
  typed W0 G K c Tc -> matches Tc TBool = true -> typed W0 G K t Tt -> typed W0 G K f Tf ->
  ext W0 W ->
  forall e G2, renv W sc e G G2 ->
  ogood (rres G2 K (concat Tt Tf) e) (RC (S n) e (IIfElse c t f)).
Proof.
  intros Hc Hb Ht Hf HE e G2 HR. rewrite recreate_S_IIfElse.
  pose proof (typed_wf _ _ _ _ _ Ht (renv_wf _ _ _ _ _ HR)) as Wt.
  pose proof (typed_wf _ _ _ _ _ Hf (renv_wf _ _ _ _ _ HR)) as Wf.
  assert (HT : ogood (rres G2 K (concat Tt Tf) e) (RC n e t)).
  { eapply ogood_impl; [|apply (IH W0 G K t Tt Ht HE e G2 HR)].
    intros [t' e'] [He [T' [Ht' M]]]. split; [exact He|]. exists T'. split; [exact Ht'|].
    apply (matches_trans _ _ _ M). apply concat_upper_l. exact Wt. }
  assert (HF : ogood (rres G2 K (concat Tt Tf) e) (RC n e f)).
  { eapply ogood_impl; [|apply (IH W0 G K f Tf Hf HE e G2 HR)].
    intros [f' e'] [He [T' [Hf' M]]]. split; [exact He|]. exists T'. split; [exact Hf'|].
    apply (matches_trans _ _ _ M). apply concat_upper_r. exact Wf. }
  apply (rec_bind n IH W0 G K c Tc e G2); try assumption. intros c' Tc' Hc' Mc.
  assert (Both : ogood (rres G2 K (concat Tt Tf) e)
            (obind (RC n e t) (fun '(t', e0) => obind (RC n e0 f) (fun '(f', e1) =>
               Ok (IIfElse c' t' f', e1))))).
  { apply (rec_bind n IH W0 G K t Tt e G2); try assumption. intros t' Tt' Ht' Mt.
    apply (rec_bind n IH W0 G K f Tf e G2); try assumption. intros f' Tf' Hf' Mf.
    apply (rres_intro G2 K _ e _ (concat Tt' Tf')).
    - apply (T_If W G2 K c' t' f' Tc' Tt' Tf' Hc'); try assumption.
      apply (matches_trans _ _ _ Mc Hb).
    - apply concat_mono; try (apply wf_keys_ok); assumption. }
  destruct c'; try exact Both. destruct v; try exact Both. destruct b; assumption.
Qed.

Lemma renv_bind_layer e G G2 nm t :
  renv W sc e G G2 -> wf_ty t = true ->
  renv W sc (lenv_insert nm (LOther t) (lenv_push e)) ((nm, t) :: G) ((nm, t) :: G2).
Proof.
  intros HR Wt. apply (renv_insert W sc (lenv_push e) G G2 nm (LOther t) t);
    [apply renv_push; exact HR|exact Wt|exact Wt|intros v Hv; discriminate Hv
    |apply matches_refl; exact Wt].
Qed.

Lemma rc_setif n (IH : rec_at n) W0 G K nm t x ifm els Tx Ta Tb :
  wf_ty t = true -> typed W0 G K x Tx ->
  typed W0 ((nm, t) :: G) K ifm Ta -> typed W0 G K els Tb -> ext W0 W ->
  forall e G2, renv W sc e G G2 ->
  ogood (rres G2 K (concat Ta Tb) e) (RC (S n) e (ISetIfElse nm t x ifm els)).
Proof.
  intros Wt Hx Hi He HE e G2 HR. rewrite recreate_S_ISetIfElse.
  apply (rec_bind n IH W0 G K x Tx e G2); try assumption. intros x' Tx' Hx' Mx.
  pose proof (renv_bind_layer e G G2 nm t HR Wt) as HR'.
  apply (rec_bind n IH W0 ((nm, t) :: G) K ifm Ta _ ((nm, t) :: G2)); try assumption.
  intros i' Ta' Hi' Ma.
  apply (rec_bind n IH W0 G K els Tb e G2); try assumption. intros e' Tb' He' Mb.
  pose proof (typed_wf _ _ _ _ _ Hi (renv_wf _ _ _ _ _ HR')) as Wa.
  pose proof (typed_wf _ _ _ _ _ He (renv_wf _ _ _ _ _ HR)) as Wb.
  apply (rres_intro G2 K _ e _ (concat Ta' Tb')).
  - apply (T_SetIf W G2 K nm t x' i' e' Tx' Ta' Tb'); assumption.
  - apply concat_mono; try (apply wf_keys_ok); assumption.
Qed.

Definition rres_arms (G2 : genv) (K : kctx) (Ts : list ty) (arms : list arm) (e : lenv)
    (p : list arm * lenv) : Prop :=
  snd p = e /\ exists Ts', typed_arms W G2 K (fst p) Ts' /\ all2 matches Ts' Ts = true /\
                           map arm_pat (fst p) = map arm_pat arms.

Definition rres_arm (G2 : genv) (K : kctx) (Tb : ty) (a : arm) (e : lenv) (p : arm * lenv) : Prop :=
  snd p = e /\ exists Tb', matches Tb' Tb = true /\ arm_pat (fst p) = arm_pat a /\
    forall arms' Ts', typed_arms W G2 K arms' Ts' -> typed_arms W G2 K (fst p :: arms') (Tb' :: Ts').

Lemma rec_arms_step G2 K Tb Ts a arms e (o : outcome (arm * lenv))
    (rest : lenv -> outcome (list arm * lenv)) :
  ogood (rres_arm G2 K Tb a e) o ->
  ogood (rres_arms G2 K Ts arms e) (rest e) ->
  ogood (rres_arms G2 K (Tb :: Ts) (a :: arms) e)
        (obind o (fun '(a', e0) => obind (rest e0) (fun '(l', e1) => Ok (a' :: l', e1)))).
Proof.
  intros Ho Hr. apply (ogood_bind (rres_arm G2 K Tb a e)); [exact Ho|].
  intros [a' e'] [He [Tb' [Mb [Hp Hcons]]]]. cbn [fst snd] in *. subst e'.
  apply (ogood_bind (rres_arms G2 K Ts arms e)); [exact Hr|].
  intros [arms' e'] [He [Ts' [Ha' [Ms Hps]]]]. cbn [fst snd] in *. subst e'. cbn [ogood].
  split; [reflexivity|]. exists (Tb' :: Ts'). cbn [fst all2 map].
  rewrite Mb, Ms, Hp, Hps. repeat split. apply Hcons. exact Ha'.
Qed.

Lemma rec_arms n (IH : rec_at n) W0 G K arms Ts :
  typed_arms W0 G K arms Ts -> ext W0 W ->
  forall e G2, renv W sc e G G2 -> ogood (rres_arms G2 K Ts arms e) (rec_arms_def (RC n) arms e).
Proof.
  intros H HE. induction H as [G K|G K nm t b arms Tb Ts Wt Hb Ha IHa
                             |G K cs Tcs b arms Tb Ts Hcs Hb Ha IHa
                             |G K b arms Tb Ts Hb Ha IHa]; intros e G2 HR.
  - cbn [rec_arms_def ogood]. split; [reflexivity|]. exists []. repeat split; constructor.
  - cbn [rec_arms_def]. apply rec_arms_step; [|apply IHa; exact HR]. cbn [rec_arm_def].
    pose proof (renv_bind_layer e G G2 nm t HR Wt) as HR'.
    apply (rec_bind n IH W0 ((nm, t) :: G) K b Tb _ ((nm, t) :: G2)); try assumption.
    intros b' Tb' Hb' Mb. cbn [ogood]. split; [reflexivity|]. exists Tb'.
    split; [exact Mb|]. split; [reflexivity|]. intros arms' Ts' Ha'. cbn [fst].
    constructor; assumption.
  - cbn [rec_arms_def]. apply rec_arms_step; [|apply IHa; exact HR]. cbn [rec_arm_def].
    apply (ogood_bind (rres_all G2 K Tcs e)); [apply (rec_all n IH W0 G K cs Tcs); assumption|].
    intros [cs' e1] [He1 [Tcs' [Hcs' _]]]. cbn [fst snd] in *. subst e1.
    apply (rec_bind n IH W0 G K b Tb e G2); try assumption.
    intros b' Tb' Hb' Mb. cbn [ogood]. split; [reflexivity|]. exists Tb'.
    split; [exact Mb|]. split; [reflexivity|]. intros arms' Ts' Ha'. cbn [fst].
    econstructor; eassumption.
  - cbn [rec_arms_def]. apply rec_arms_step; [|apply IHa; exact HR]. cbn [rec_arm_def].
    apply (rec_bind n IH W0 G K b Tb e G2); try assumption.
    intros b' Tb' Hb' Mb. cbn [ogood]. split; [reflexivity|]. exists Tb'.
    split; [exact Mb|]. split; [reflexivity|]. intros arms' Ts' Ha'. cbn [fst].
    constructor; assumption.
Qed.

Lemma fold_concat_mono Ts' Ts Ta' Ta :
  wf_ty Ta = true -> Forall (fun T => wf_ty T = true) Ts ->
  matches Ta' Ta = true -> all2 matches Ts' Ts = true ->
  matches (fold_left concat Ts' Ta') (fold_left concat Ts Ta) = true.
Proof.
  intros Wa Ws Ma Ms.
  assert (Wf : wf_ty (fold_left concat Ts Ta) = true) by (apply fold_concat_wf_Forall; assumption).
  pose proof (matches_refl _ Wf) as Rf. rewrite fold_concat_least in Rf.
  apply andb_true_iff in Rf. destruct Rf as [Ra Rs]. rewrite forallb_forall in Rs.
  rewrite fold_concat_least. apply andb_true_iff. split; [apply (matches_trans _ _ _ Ma Ra)|].
  apply forallb_forall. intros t' Ht'. destruct (all2_in_l _ _ _ _ Ms Ht') as [t [Ht Mt]].
  apply (matches_trans _ _ _ Mt). apply Rs. exact Ht.
Qed.

Lemma typed_arms_wf W1 G K arms Ts :
  typed_arms W1 G K arms Ts -> genv_wf G -> Forall (fun T => wf_ty T = true) Ts.
Proof. apply (typed_wf_all W1). Qed.

Lemma typed_list_wf W1 G K l G' Ts :
  typed_list W1 G K l G' Ts -> genv_wf G -> Forall (fun T => wf_ty T = true) Ts.
Proof. apply (typed_wf_all W1). Qed.

Lemma rc_match n (IH : rec_at n) W0 G K x a arms Tx Ta Ts :
  typed W0 G K x Tx -> typed_arms W0 G K (a :: arms) (Ta :: Ts) ->
  match_covers (a :: arms) Tx = true -> ext W0 W ->
  forall e G2, renv W sc e G G2 ->
  ogood (rres G2 K (fold_left concat Ts Ta) e) (RC (S n) e (IMatch x (a :: arms))).
Proof.
  intros Hx Ha Hc HE e G2 HR. rewrite recreate_S_IMatch.
  apply (rec_bind n IH W0 G K x Tx e G2); try assumption. intros x' Tx' Hx' Mx.
  apply (ogood_bind (rres_arms G2 K (Ta :: Ts) (a :: arms) e));
    [apply (rec_arms n IH W0 G K (a :: arms) (Ta :: Ts)); assumption|].
  intros [arms' e'] [He [Ts' [Ha' [Ms Hp]]]]. cbn [fst snd] in *. subst e'.
  destruct arms' as [|a' arms']; [discriminate Hp|]. destruct Ts' as [|Ta' Ts']; [discriminate Ms|].
  cbn [all2] in Ms. apply andb_true_iff in Ms. destruct Ms as [Ma Ms].
  pose proof (typed_wf _ _ _ _ _ Hx (renv_wf _ _ _ _ _ HR)) as Wx.
  pose proof (typed_wf _ _ _ _ _ Hx' (renv_wf2 _ _ _ _ _ HR)) as Wx'.
  pose proof (typed_arms_wf _ _ _ _ _ Ha (renv_wf _ _ _ _ _ HR)) as WTs. inversion WTs; subst.
  apply (rres_intro G2 K _ e _ (fold_left concat Ts' Ta')).
  - apply (T_Match W G2 K x' a' arms' Tx' Ta' Ts' Hx' Ha').
    apply (covers_mono (a :: arms) (a' :: arms') Tx' Tx Hp Wx' Wx Mx Hc).
  - apply fold_concat_mono; assumption.
Qed.

Lemma rc_loop n (IH : rec_at n) W0 G K b Tb :
  typed W0 G (mkK true (ret K)) b Tb -> ext W0 W ->
  forall e G2, renv W sc e G G2 -> ogood (rres G2 K TVoid e) (RC (S n) e (ILoop b)).
Proof.
  intros Hb HE e G2 HR. rewrite recreate_S_ILoop.
  apply (rec_bind n IH W0 G (mkK true (ret K)) b Tb e G2); try assumption. intros b' Tb' Hb' M.
  apply (rres_intro G2 K _ e _ TVoid); [apply (T_Loop W G2 K b' Tb' Hb')|reflexivity].
Qed.

Lemma rc_mut n (IH : rec_at n) W0 G K t x T :
  wf_ty t = true -> typed W0 G K x T -> matches T t = true -> ext W0 W ->
  forall e G2, renv W sc e G G2 -> ogood (rres G2 K (TMut t) e) (RC (S n) e (IMut t x)).
Proof.
  intros Wt Hx Hm HE e G2 HR. rewrite recreate_S_IMut.
  apply (rec_bind n IH W0 G K x T e G2); try assumption. intros x' T' Hx' M.
  apply (rres_intro G2 K _ e _ (TMut t)).
  - apply (T_Mut W G2 K t x' T' Wt Hx'). apply (matches_trans _ _ _ M Hm).
  - apply matches_refl. exact Wt.
Qed.

(* ---- statements ---- *)
Definition rres_line (G2 : genv) (K : kctx) (T : ty) (G' : genv) (p : instr * lenv) : Prop :=
  exists T' G2', typed_line W G2 K (fst p) T' G2' /\ matches T' T = true /\
                 renv W sc (snd p) G' G2'.

Definition rline_at (n : nat) : Prop :=
  forall W0 G K i T G', typed_line W0 G K i T G' -> ext W0 W ->
  forall e G2, renv W sc e G G2 -> ogood (rres_line G2 K T G') (RC n e i).

Definition rres_list (G2 : genv) (K : kctx) (Ts : list ty) (G' : genv) (p : list instr * lenv) : Prop :=
  exists Ts' G2', typed_list W G2 K (fst p) G2' Ts' /\ all2 matches Ts' Ts = true /\
                  renv W sc (snd p) G' G2'.

Lemma rec_stmts n (IHl : rline_at n) W0 G K l G' Ts :
  typed_list W0 G K l G' Ts -> ext W0 W ->
  forall e G2, renv W sc e G G2 -> ogood (rres_list G2 K Ts G') (rec_list_def (RC n) l e).
Proof.
  intros H HE. induction H as [G K|G K x l T G1 G' Ts Hx Hl IH]; intros e G2 HR.
  - cbn [rec_list_def ogood]. exists [], G2. split; [constructor|]. split; [reflexivity|exact HR].
  - cbn [rec_list_def]. apply (ogood_bind (rres_line G2 K T G1)); [apply (IHl W0 G K x T G1); assumption|].
    intros [x' e1] [T' [G21 [Hx' [M HR1]]]]. cbn [fst snd] in *.
    apply (ogood_bind (rres_list G21 K Ts G')); [apply IH; exact HR1|].
    intros [l' e2] [Ts' [G22 [Hl' [Ms HR2]]]]. cbn [fst snd] in *. cbn [ogood].
    exists (T' :: Ts'), G22. cbn [fst snd all2]. rewrite M, Ms.
    split; [econstructor; eassumption|]. split; [reflexivity|exact HR2].
Qed.

Lemma last_matches Ts' Ts : all2 matches Ts' Ts = true -> matches (last Ts' TVoid) (last Ts TVoid) = true.
Proof.
  revert Ts. induction Ts' as [|t' Ts' IH]; intros [|t Ts] H; cbn [all2] in H; try discriminate H;
    [reflexivity|]. apply andb_true_iff in H. destruct H as [M H].
  destruct Ts' as [|u' Ts'], Ts as [|u Ts]; cbn [all2] in H; try discriminate H; [exact M|].
  exact (IH (u :: Ts) H).
Qed.

Lemma rc_block n (IHl : rline_at n) W0 G K body G' Ts :
  typed_list W0 G K body G' Ts -> ext W0 W ->
  forall e G2, renv W sc e G G2 -> ogood (rres G2 K (last Ts TVoid) e) (RC (S n) e (IBlock body)).
Proof.
  intros Hb HE e G2 HR. rewrite recreate_S_IBlock.
  apply (ogood_bind (rres_list G2 K Ts G'));
    [apply (rec_stmts n IHl W0 G K body G' Ts Hb HE); apply renv_push; exact HR|].
  intros [body' e'] [Ts' [G2' [Hb' [Ms _]]]]. cbn [fst snd] in *.
  apply (rres_intro G2 K _ e _ (last Ts' TVoid)); [apply (T_Block W G2 K body' G2' Ts' Hb')|].
  apply last_matches. exact Ms.
Qed.

(* the body cannot fall off its end: preserved *)
Lemma end_condition r Ts' Ts :
  Forall (fun T => wf_ty T = true) Ts' -> all2 matches Ts' Ts = true ->
  (matches TVoid r = true \/ In TNever Ts) -> (matches TVoid r = true \/ In TNever Ts').
Proof.
  intros Wf Ms [H|H]; [left; exact H|right].
  revert Ts Ms H. induction Wf as [|t' Ts' Wt' _ IH]; intros [|t Ts] Ms H; cbn [all2] in Ms;
    try discriminate Ms; [destruct H|].
  apply andb_true_iff in Ms. destruct Ms as [M Ms]. destruct H as [->|H].
  - left. apply (below_never t' Wt' M).
  - right. apply (IH Ts Ms H).
Qed.

Lemma rc_body n (IHl : rline_at n) W0 G G2 e lay ps r body G' Ts :
  l_vars lay = params_layer ps ->
  wf_ty (TFun (map snd ps) r) = true ->
  typed_list W0 (closure_env None ps r ++ G) (mkK false (Some r)) body G' Ts ->
  (matches TVoid r = true \/ In TNever Ts) -> ext W0 W -> renv W sc e G G2 ->
  ogood (fun p => exists G'' Ts', typed_list W (closure_env None ps r ++ G2) (mkK false (Some r))
                                     (fst p) G'' Ts' /\ (matches TVoid r = true \/ In TNever Ts'))
        (rec_list_def (RC n) body (lay :: e)).
Proof.
  intros Hl Wf Hb Hend HE HR. destruct (wf_fun_parts _ _ Wf) as [Wps _].
  pose proof (renv_fn_layer W sc e G G2 lay ps r Hl HR Wps) as HR'.
  eapply ogood_impl; [|apply (rec_stmts n IHl W0 _ _ body G' Ts Hb HE _ _ HR')].
  intros [body' e'] [Ts' [G2' [Hb' [Ms _]]]]. cbn [fst snd] in *. exists G2', Ts'.
  split; [exact Hb'|]. apply (end_condition r Ts' Ts); try assumption.
  apply (typed_list_wf _ _ _ _ _ _ Hb'). apply (renv_wf2 _ _ _ _ _ HR').
Qed.

Lemma rc_anonfn n (IHl : rline_at n) W0 G K ps body r G' Ts :
  wf_ty (TFun (map snd ps) r) = true ->
  typed_list W0 (closure_env None ps r ++ G) (mkK false (Some r)) body G' Ts ->
  (matches TVoid r = true \/ In TNever Ts) -> ext W0 W ->
  forall e G2, renv W sc e G G2 ->
  ogood (rres G2 K (TFun (map snd ps) r) e) (RC (S n) e (IAnonFn ps body r)).
Proof.
  intros Wf Hb Hend HE e G2 HR. rewrite recreate_S_IAnonFn. unfold lenv_push_fn.
  eapply ogood_bind;
    [apply (rc_body n IHl W0 G G2 e (mkLayer (params_layer ps) (Some (None, r)) false) ps r body G' Ts
              eq_refl Wf Hb Hend HE HR)|].
  intros [body' e'] [G'' [Ts' [Hb' Hend']]]. cbn [fst snd] in *.
  apply (rres_intro G2 K _ e _ (TFun (map snd ps) r)); [|apply matches_refl; exact Wf].
  apply (T_AnonFn W G2 K ps body' r G'' Ts'); try assumption. apply pol_all.
Qed.

(* ---- `x := e` ---- *)
Lemma lvar_of_instr_typed G2 K x T :
  typed W G2 K x T ->
  exists lv, lvar_of_instr x = Ok lv /\ lvar_type lv = T /\
             (forall v, lv = LVariable v -> x = IVar v).
Proof.
  intros H. pose proof (typed_rt _ _ _ _ _ H) as Hrt.
  destruct x; try (exists (LOther T); cbn [lvar_of_instr]; rewrite Hrt; cbn [obind];
                   split; [reflexivity|]; split; [reflexivity|]; intros v0 Hv0; discriminate Hv0).
  - cbn [rt] in Hrt. injection Hrt as <-. exists (LFunction ps ret).
    split; [reflexivity|]. split; [reflexivity|]. intros v Hv. discriminate Hv.
  - inversion H; subst. exists lv. split; [reflexivity|]. split; [reflexivity|].
    intros v ->. match goal with Hc : lvar_const _ = false |- _ => discriminate Hc end.
  - cbn [rt] in Hrt. injection Hrt as <-. exists (LVariable v).
    split; [reflexivity|]. split; [reflexivity|]. intros w Hw. injection Hw as <-. reflexivity.
Qed.

(* extending the relation by one binding *)
Lemma renv_bind1 e G G2 nm lv t' t :
  renv W sc e G G2 -> lvar_type lv = t' -> wf_ty t' = true -> wf_ty t = true ->
  matches t' t = true -> (forall v, lv = LVariable v -> gv W v t) ->
  renv W sc (lenv_insert nm lv e) ((nm, t) :: G) ((nm, t') :: G2).
Proof.
  intros HR <- Wt' Wt M Hv.
  assert (D : (exists v, lv = LVariable v) \/ (forall v, lv <> LVariable v))
    by (destruct lv; [right; intros v0 H0; discriminate H0|left; eauto|right; intros v0 H0; discriminate H0]).
  destruct D as [[v ->]|D].
  - apply renv_insert_var; try assumption. apply Hv. reflexivity.
  - apply renv_insert; assumption.
Qed.

Lemma gv_of_const v T' T G2 K :
  typed W G2 K (IVar v) T' -> matches T' T = true -> gv W v T.
Proof.
  intros H M. destruct (typed_var_inv _ _ _ _ H) as [-> Hg]. apply gv_by_tag; assumption.
Qed.

Lemma rl_set n (IH : rec_at n) W0 G K nm x T :
  typed W0 G K x T -> ext W0 W ->
  forall e G2, renv W sc e G G2 ->
  ogood (rres_line G2 K T ((nm, T) :: G)) (RC (S n) e (ISet nm x)).
Proof.
  intros Hx HE e G2 HR. rewrite recreate_S_ISet.
  apply (rec_bind n IH W0 G K x T e G2); try assumption. intros x' T' Hx' M.
  destruct (lvar_of_instr_typed G2 K x' T' Hx') as [lv [El [Et Hc]]]. rewrite El. cbn [obind ogood].
  exists T', ((nm, T') :: G2). cbn [fst snd]. split; [apply Ln_set; exact Hx'|]. split; [exact M|].
  pose proof (typed_wf _ _ _ _ _ Hx (renv_wf _ _ _ _ _ HR)) as WT.
  pose proof (typed_wf _ _ _ _ _ Hx' (renv_wf2 _ _ _ _ _ HR)) as WT'.
  apply (renv_bind1 e G G2 nm lv T' T); try assumption.
  intros v ->. rewrite (Hc v eq_refl) in Hx'. apply (gv_of_const v T' T G2 K); assumption.
Qed.

(* ---- `(a, b, ..) := e` ---- *)
Lemma zip_insert_nil {A} (f : A -> outcome lvar) xs e : zip_insert f [] xs e = Ok e.
Proof. reflexivity. Qed.
Lemma zip_insert_cons_nil {A} (f : A -> outcome lvar) n ids e : zip_insert f (n :: ids) [] e = Ok e.
Proof. reflexivity. Qed.
Lemma zip_insert_cons {A} (f : A -> outcome lvar) n ids x xs e :
  zip_insert f (n :: ids) (x :: xs) e = obind (f x) (fun lv => zip_insert f ids xs (lenv_insert n lv e)).
Proof. reflexivity. Qed.

Inductive zrel {A} (f : A -> outcome lvar) : list A -> list ty -> list ty -> Prop :=
| zrel_nil : zrel f [] [] []
| zrel_cons x xs t' ts' t ts lv :
    f x = Ok lv -> lvar_type lv = t' -> wf_ty t' = true -> wf_ty t = true ->
    matches t' t = true -> (forall v, lv = LVariable v -> gv W v t) ->
    zrel f xs ts' ts -> zrel f (x :: xs) (t' :: ts') (t :: ts).

Lemma zip_renv {A} (f : A -> outcome lvar) ids : forall xs ts' ts e G G2,
  zrel f xs ts' ts -> renv W sc e G G2 ->
  exists e', zip_insert f ids xs e = Ok e' /\ renv W sc e' (bind_tys ids ts G) (bind_tys ids ts' G2).
Proof.
  induction ids as [|n ids IH]; intros xs ts' ts e G G2 HZ HR.
  - exists e. split; [reflexivity|]. destruct ts, ts'; exact HR.
  - destruct HZ as [|x xs t' ts' t ts lv Hf Ht Wt' Wt M Hv HZ].
    + exists e. split; [reflexivity|exact HR].
    + rewrite zip_insert_cons, Hf. cbn [obind bind_tys]. apply (IH xs ts' ts); [exact HZ|].
      apply (renv_bind1 e G G2 n lv t' t); assumption.
Qed.

Lemma zrel_consts vs ts :
  Forall (vgood W) vs -> all2 matches (map as_type vs) ts = true ->
  Forall (fun t => wf_ty t = true) ts ->
  zrel (fun v : value => Ok (LVariable v)) vs (map as_type vs) ts.
Proof.
  intros Hg. revert ts. induction Hg as [|v vs Hv _ IH]; intros [|t ts] M Wts; cbn [map all2] in M;
    try discriminate M; [constructor|].
  apply andb_true_iff in M. destruct M as [Mv M]. inversion Wts; subst.
  apply (zrel_cons _ v vs (as_type v) (map as_type vs) t ts (LVariable v)); try assumption.
  - reflexivity.
  - reflexivity.
  - apply (vgood_wf_ty W). exact Hv.
  - intros w Hw. injection Hw as <-. apply gv_by_tag; assumption.
  - apply IH; assumption.
Qed.

Lemma zrel_instrs G2 K es Ts' ts :
  typed_all W G2 K es Ts' -> genv_wf G2 -> all2 matches Ts' ts = true ->
  Forall (fun t => wf_ty t = true) ts ->
  zrel lvar_of_instr es Ts' ts.
Proof.
  intros H WG. revert ts. induction H as [G2 K|G2 K x es T' Ts' Hx Hes IH]; intros [|t ts] M Wts;
    cbn [all2] in M; try discriminate M; [constructor|].
  apply andb_true_iff in M. destruct M as [Mx M]. inversion Wts; subst.
  destruct (lvar_of_instr_typed G2 K x T' Hx) as [lv [El [Et Hc]]].
  apply (zrel_cons _ x es T' Ts' t ts lv); try assumption.
  - apply (typed_wf _ _ _ _ _ Hx WG).
  - intros v ->. rewrite (Hc v eq_refl) in Hx. apply (gv_of_const v T' t G2 K); assumption.
  - apply IH; assumption.
Qed.

Lemma zrel_types ts' ts :
  all2 matches ts' ts = true -> forallb wf_ty ts' = true -> Forall (fun t => wf_ty t = true) ts ->
  zrel (fun t : ty => Ok (LOther t)) ts' ts' ts.
Proof.
  revert ts. induction ts' as [|t' ts' IH]; intros [|t ts] M W' Wts; cbn [all2 forallb] in *;
    try discriminate M; [constructor|].
  apply andb_true_iff in M. destruct M as [Mt M]. apply andb_true_iff in W'. destruct W' as [Wt' W'].
  inversion Wts; subst.
  apply (zrel_cons _ t' ts' t' ts' t ts (LOther t')); try assumption; try reflexivity.
  - intros v Hv. discriminate Hv.
  - apply IH; assumption.
Qed.

Lemma destruct_insert_generic ids x e :
  (forall vs, x <> IVar (VTup vs)) -> (forall es, x <> ITuple es) ->
  destruct_insert ids x e =
  obind (rt x) (fun t =>
    match flatten_tuple t with
    | Some ts => zip_insert (fun t => Ok (LOther t)) ids ts e
    | None => zip_insert (fun t => Ok (LOther t)) ids (map (fun _ => TNever) ids) e
    end).
Proof.
  intros H1 H2. destruct x; try reflexivity.
  - exfalso. apply (H2 es). reflexivity.
  - destruct v; try reflexivity. exfalso. apply (H1 vs). reflexivity.
Qed.

Lemma nevers_wf (ids : list name) : forallb wf_ty (map (fun _ : name => TNever) ids) = true.
Proof. induction ids; [reflexivity|assumption]. Qed.

Lemma nevers_below (ids : list name) ts :
  length ts = length ids -> all2 matches (map (fun _ : name => TNever) ids) ts = true.
Proof.
  revert ts. induction ids as [|n ids IH]; intros [|t ts] H; cbn [length] in H; try discriminate H;
    [reflexivity|]. cbn [map all2]. rewrite matches_never_l. cbn [andb]. apply IH. lia.
Qed.

Lemma forallb_Forall_wf ts : forallb wf_ty ts = true -> Forall (fun t => wf_ty t = true) ts.
Proof. intros H. apply Forall_forall. rewrite forallb_forall in H. exact H. Qed.

Lemma rl_destruct n (IH : rec_at n) W0 G K ids x T ts :
  typed W0 G K x T ->
  (flatten_tuple T = Some ts /\ length ts = length ids) \/
  (T = TNever /\ ts = map (fun _ => TNever) ids) ->
  ext W0 W ->
  forall e G2, renv W sc e G G2 ->
  ogood (rres_line G2 K T (bind_tys ids ts G)) (RC (S n) e (IDestruct ids x)).
Proof.
  intros Hx Hor HE e G2 HR. rewrite recreate_S_IDestruct.
  apply (rec_bind n IH W0 G K x T e G2); try assumption. intros x' T' Hx' M.
  pose proof (typed_wf _ _ _ _ _ Hx (renv_wf _ _ _ _ _ HR)) as WT.
  pose proof (typed_wf _ _ _ _ _ Hx' (renv_wf2 _ _ _ _ _ HR)) as WT'.
  (* the types bound in the source are well-formed, as many as the names *)
  assert (Wts : Forall (fun t => wf_ty t = true) ts /\ length ts = length ids).
  { destruct Hor as [[Hf Hl]|[_ ->]].
    - split; [apply forallb_Forall_wf; apply (flatten_tuple_wf T ts WT Hf)|exact Hl].
    - split; [apply forallb_Forall_wf; apply nevers_wf|apply map_length]. }
  destruct Wts as [Wts Hlen].
  (* what the recreated right-hand side offers *)
  assert (Shape : T' = TNever \/ exists ts', flatten_tuple T' = Some ts' /\ all2 matches ts' ts = true).
  { destruct Hor as [[Hf _]|[-> _]].
    - apply (flatten_mono T' T ts WT' WT M Hf).
    - left. apply (below_never T' WT' M). }
  (* common conclusion from a zip *)
  assert (Fin : forall {A} (f : A -> outcome lvar) xs ts',
            zrel f xs ts' ts ->
            (flatten_tuple T' = Some ts' /\ length ts' = length ids) \/
            (T' = TNever /\ ts' = map (fun _ => TNever) ids) ->
            ogood (rres_line G2 K T (bind_tys ids ts G))
                  (obind (zip_insert f ids xs e) (fun e0 => Ok (IDestruct ids x', e0)))).
  { intros A f xs ts' HZ Hor'. destruct (zip_renv f ids xs ts' ts e G G2 HZ HR) as [e' [Ez HR']].
    rewrite Ez. cbn [obind ogood]. exists T', (bind_tys ids ts' G2). cbn [fst snd].
    split; [apply (Ln_destruct W G2 K ids x' T' ts' Hx' Hor')|]. split; [exact M|exact HR']. }
  assert (D : (exists vs, x' = IVar (VTup vs)) \/ (exists es, x' = ITuple es) \/
              ((forall vs, x' <> IVar (VTup vs)) /\ (forall es, x' <> ITuple es))).
  { destruct x'; try (right; right; split; intros ? H0; discriminate H0).
    - right. left. eauto.
    - destruct v; try (right; right; split; intros ? H0; discriminate H0). left. eauto. }
  destruct D as [[vs ->]|[[es ->]|[N1 N2]]].
  - (* a constant tuple *)
    destruct (typed_var_inv _ _ _ _ Hx') as [-> Hg]. cbn [as_type] in *. rewrite vgood_tup in Hg.
    destruct Shape as [HN|[ts' [Hf' Ms]]]; [discriminate HN|].
    cbn [flatten_tuple] in Hf'. injection Hf' as <-. cbn [destruct_insert].
    apply (Fin value (fun v => Ok (LVariable v)) vs (map as_type vs)).
    + apply zrel_consts; assumption.
    + left. split; [reflexivity|]. rewrite (all2_length _ _ _ Ms). exact Hlen.
  - (* a tuple literal *)
    inversion Hx'; subst.
    destruct Shape as [HN|[ts' [Hf' Ms]]]; [discriminate HN|].
    cbn [flatten_tuple] in Hf'. injection Hf' as <-. cbn [destruct_insert].
    apply (Fin instr lvar_of_instr es Ts).
    + apply (zrel_instrs G2 K es Ts ts); try assumption. apply (renv_wf2 _ _ _ _ _ HR).
    + left. split; [reflexivity|]. rewrite (all2_length _ _ _ Ms). exact Hlen.
  - rewrite (destruct_insert_generic ids x' e N1 N2), (typed_rt _ _ _ _ _ Hx'). cbn [obind].
    destruct Shape as [->|[ts' [Hf' Ms]]].
    + cbn [flatten_tuple].
      apply (Fin ty (fun t => Ok (LOther t)) _ (map (fun _ => TNever) ids)).
      * apply zrel_types; [apply nevers_below; exact Hlen|apply nevers_wf|exact Wts].
      * right. auto.
    + rewrite Hf'. apply (Fin ty (fun t => Ok (LOther t)) ts' ts').
      * apply zrel_types; [exact Ms|apply (flatten_tuple_wf T' ts' WT' Hf')|exact Wts].
      * left. split; [exact Hf'|]. rewrite (all2_length _ _ _ Ms). exact Hlen.
Qed.

(* ---- `f := (..) {..}` ---- *)
Lemma rl_fndecl n (IHl : rline_at n) W0 G K nm ps body r G' Ts :
  wf_ty (TFun (map snd ps) r) = true ->
  existsb (fun p => ident_eqb nm (fst p)) ps = false ->
  typed_list W0 (closure_env (Some nm) ps r ++ G) (mkK false (Some r)) body G' Ts ->
  (matches TVoid r = true \/ In TNever Ts) -> ext W0 W ->
  forall e G2, renv W sc e G G2 ->
  ogood (rres_line G2 K (TFun (map snd ps) r) ((nm, TFun (map snd ps) r) :: G))
        (RC (S n) e (IFnDecl nm ps body r)).
Proof.
  intros Wf Hnm Hb Hend HE e G2 HR. rewrite recreate_S_IFnDecl. unfold lenv_push_fn.
  set (F := TFun (map snd ps) r) in *.
  assert (HR1 : renv W sc (lenv_insert nm (LFunction ps r) e) ((nm, F) :: G) ((nm, F) :: G2)).
  { apply (renv_bind1 e G G2 nm (LFunction ps r) F F); try assumption; try reflexivity.
    - apply matches_refl. exact Wf.
    - intros v Hv. discriminate Hv. }
  rewrite closure_env_split, <- app_assoc in Hb. cbn [app] in Hb.
  eapply ogood_bind;
    [apply (rc_body n IHl W0 ((nm, F) :: G) ((nm, F) :: G2) _
              (mkLayer (params_layer ps) (Some (Some nm, r)) false) ps r body G' Ts
              eq_refl Wf Hb Hend HE HR1)|].
  intros [body' e'] [G'' [Ts' [Hb' Hend']]]. cbn [fst snd ogood] in *.
  exists F, ((nm, F) :: G2). cbn [fst snd]. split; [|split; [apply matches_refl; exact Wf|exact HR1]].
  apply (Ln_fndecl W G2 K nm ps body' r G'' Ts'); try assumption; [apply pol_all|].
  rewrite closure_env_split, <- app_assoc. exact Hb'.
Qed.

(* ================================================================= *)
(* the knot                                                           *)
(* ================================================================= *)
Lemma rec_O : rec_at 0.
Proof. intros W0 G K i T _ _ e G2 _. rewrite recreate_O. exact I. Qed.

Lemma rline_O : rline_at 0.
Proof. intros W0 G K i T G' _ _ e G2 _. rewrite recreate_O. exact I. Qed.

Lemma rec_S n : rec_at n -> rline_at n -> rec_at (S n).
Proof.
  intros IH IHl W0 G K i T H HE.
  destruct H; intros e G2 HR.
  - eapply rc_var; eassumption.
  - eapply rc_local; eassumption.
  - eapply rc_tuple; eassumption.
  - eapply rc_array; eassumption.
  - eapply rc_repeat; eassumption.
  - eapply rc_struct; eassumption.
  - eapply rc_tuple_access; eassumption.
  - eapply rc_field_access; eassumption.
  - eapply rc_bin_pure; eassumption.
  - eapply rc_at; eassumption.
  - eapply rc_logic; eassumption.
  - eapply rc_not; eassumption.
  - eapply rc_neg; eassumption.
  - eapply rc_slice; eassumption.
  - eapply rc_block; eassumption.
  - eapply rc_if; eassumption.
  - eapply rc_setif; eassumption.
  - eapply rc_match; eassumption.
  - eapply rc_loop; eassumption.
  - rewrite recreate_S_IBreak. apply (rres_intro G2 K _ e _ TNever); [constructor; assumption|reflexivity].
  - rewrite recreate_S_IContinue. apply (rres_intro G2 K _ e _ TNever); [constructor; assumption|reflexivity].
  - eapply rc_return; eassumption.
  - eapply rc_mut; eassumption.
  - eapply rc_deref; eassumption.
  - eapply rc_assign; eassumption.
  - eapply rc_opassign; eassumption.
  - eapply rc_call; eassumption.
  - eapply rc_anonfn; eassumption.
  - exfalso. match goal with H : iter_gate _ _ _ |- _ => apply H; apply pol_all end.
  - exfalso. match goal with H : iter_gate _ _ _ |- _ => apply H; apply pol_all end.
  - exfalso. match goal with H : iter_gate _ _ _ |- _ => apply H; apply pol_all end.
  - exfalso. match goal with H : iter_gate _ _ _ |- _ => apply H; apply pol_all end.
Qed.

Lemma rline_S n : rec_at n -> rline_at n -> rec_at (S n) -> rline_at (S n).
Proof.
  intros IH IHl IHS W0 G K i T G' H HE e G2 HR.
  destruct H as [G K x T Hx|G K nm x T Hx|G K ids x T ts Hx Hfl
                |G K nm ps body r G' Ts Hok Hwf Hnm Hbody Hend].
  - eapply ogood_impl; [|apply (IHS W0 G K x T Hx HE e G2 HR)].
    intros [x' e'] [He [T' [Hx' M]]]. cbn [fst snd] in *. subst e'.
    exists T', G2. cbn [fst snd]. split; [apply Ln_stm; exact Hx'|]. split; [exact M|exact HR].
  - apply (rl_set n IH W0 G K nm x T); assumption.
  - apply (rl_destruct n IH W0 G K ids x T ts); assumption.
  - apply (rl_fndecl n IHl W0 G K nm ps body r G' Ts); assumption.
Qed.

Theorem rec_all_fuel : forall n, rec_at n /\ rline_at n.
Proof.
  induction n as [|n [IH IHl]]; [split; [exact rec_O|exact rline_O]|].
  pose proof (rec_S n IH IHl) as S1. split; [exact S1|apply rline_S; assumption].
Qed.

End Rec.
End WithFlag.

(* ================================================================= *)
(* closure creation, unconditionally                                  *)
(* ================================================================= *)
(* the policy that accepts every closure literal *)
Definition all_policy : Policy := fun _ _ _ _ _ _ => True.

Lemma recreate_body_unfold powf sc e body :
  recreate_body powf sc e body =
  obind (rec_list_def (recreate powf (S (list_isize body)) sc) body (lenv_push e))
        (fun '(body', _) => Ok body').
Proof.
  unfold recreate_body. rewrite recreate_S_IBlock.
  destruct (rec_list_def _ body (lenv_push e)) as [[body' e']| | |]; reflexivity.
Qed.

(* [recreate_body] preserves typing (with narrowing): every typed closure literal satisfies
   the property the closure-creation rules need *)
Theorem recreate_ok_all powf : @policy_ok all_policy powf.
Proof.
  intros W0 G nm ps body r G' Ts _ Wf Hnm Hb Hend W sc HE HG.
  destruct (wf_fun_parts _ _ Wf) as [Wps _].
  assert (HR : renv W sc [fn_layer nm ps r] (closure_env nm ps r ++ G) (closure_env nm ps r)).
  { destruct nm as [f|]; cbn [fn_layer].
    - apply renv_fn_layer_named; assumption.
    - rewrite <- (app_nil_r (closure_env None ps r)) at 2.
      apply (renv_fn_layer W sc [] G [] (mkLayer (params_layer ps) None false) ps r eq_refl);
        [apply renv_nil; exact HG|exact Wps]. }
  set (n := S (list_isize body)).
  assert (pol : forall W1 G1 nm1 ps1 body1 r1, @closure_ok all_policy W1 G1 nm1 ps1 body1 r1)
    by (intros; exact I).
  pose proof (proj2 (@rec_all_fuel all_policy pol powf sc W n)) as IHl.
  pose proof (@rec_stmts all_policy powf sc W n IHl W0 _ _ body G' Ts Hb HE _ _
                (renv_push W sc _ _ _ HR)) as C.
  rewrite recreate_body_unfold. fold n.
  destruct (rec_list_def (recreate powf n sc) body (lenv_push [fn_layer nm ps r]))
    as [[body' e']|x| |]; cbn [obind ogood] in *.
  - split; [discriminate|]. split; [intros x Hx; discriminate Hx|].
    intros b Hb'. injection Hb' as <-. destruct C as [Ts' [G2' [Hl' [Ms HR']]]]. cbn [fst snd] in *.
    exists G2', Ts'. split; [exact Hl'|].
    apply (end_condition r Ts' Ts); try assumption.
    apply (typed_list_wf _ _ _ _ _ _ Hl'). apply (renv_wf2 _ _ _ _ _ HR).
  - split; [discriminate|]. split; [intros y Hy; injection Hy as <-; exact C|].
    intros b Hb'. discriminate Hb'.
  - destruct C.
  - split; [discriminate|]. split; [intros y Hy; discriminate Hy|]. intros b Hb'. discriminate Hb'.
Qed.

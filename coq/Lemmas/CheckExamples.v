From SSL.Model Require Import Base Ty Float Value Ops Seq Syntax Rt Recreate Check.
From SSL.Lemmas Require Import TyLemmas SoundLemmas CheckUnfold CheckBase CheckTotal.
(* ================================================================= *)
(* what is false, with the smallest witnesses                          *)
(* ================================================================= *)
Definition red0 : reducers :=
  mkReducers (VFun 1 [TFun [] (TTup [TBool; TBool])] TBool)
             (VFun 2 [TFun [] (TTup [TBool; TBool])] TBool)
             (VFun 3 [TFun [] (TTup [TBool; TInt])] TInt)
             (VFun 4 [TFun [] (TTup [TBool; TInt])] TInt)
             [(TFun [] (TTup [TBool; TInt]), VFun 5 [TFun [] (TTup [TBool; TInt])] TInt);
              (TFun [] (TTup [TBool; TFloat]), VFun 6 [TFun [] (TTup [TBool; TFloat])] TFloat);
              (TFun [] (TTup [TBool; TString]), VFun 7 [TFun [] (TTup [TBool; TString])] TString)]
             [(TFun [] (TTup [TBool; TInt]), VFun 8 [TFun [] (TTup [TBool; TInt])] TInt);
              (TFun [] (TTup [TBool; TFloat]), VFun 9 [TFun [] (TTup [TBool; TFloat])] TFloat)].
Lemma red0_wf : wf_red red0.
Proof. reflexivity. Qed.

(* `[1]~ @ [][0]` : the mapper has type `!`, which matches (int) -> any *)
Definition x_map_never : sx :=
  XInfix Map (XPostfix UIter (XArray [XConst (VInt 1)])) (XAt (XArray []) (XConst (VInt 0))).

(* before repair 15efcc4 this was accepted and the static type of what was built was an
   unwrap() on None; now it is accepted at type `() -> (bool, !)` *)
Example ex_map_never_accepted :
  wf_sx x_map_never = true /\
  check_x red0 5 [] [] x_map_never =
    Ok (IBin Map (IUn UIter (IArray [IVar (VInt 1)] TInt))
                 (IBin At (IArray [] TNever) (IVar (VInt 0)))) /\
  obind (check_x red0 5 [] [] x_map_never) rt = Ok (TFun [] (TTup [TBool; TNever])).
Proof. repeat split; vm_compute; reflexivity. Qed.

(* `x := [1]~ @ [][0];` : Set asks for that type while checking; it used to panic *)
Example ex_map_never_set :
  obind (check_lines red0 8 [] [] [LSet [120%Z] (SExpr x_map_never)]) (fun p => rtl_def (fst p)) =
  Ok [TFun [] (TTup [TBool; TNever])].
Proof. vm_compute. reflexivity. Qed.

(* the clause of wf_sx on postfix operators is needed: the model panics on a postfix
   operator outside the grammar, which no parser output contains *)
Example wf_sx_postfix_needed :
  check_x red0 3 [] [] (XPostfix UNot (XConst (VInt 1))) = Panic.
Proof. vm_compute. reflexivity. Qed.

(* ================================================================= *)
(* non-vacuity: a program that exercises most of the checker           *)
(* ================================================================= *)
(*  f := (x: int|string) -> int {
      return match x { i: int => { i + 1; }, "a" => { 0; }, => { 2; }, };
    };
    s := struct{ a := 1, b := [1, 2, 3] };
    t := s.b[0:2];
    n := len(t);
    for y in s.b~ @ (v: int) -> int { return v * 2; } { f(y); };                *)
Local Open Scope Z_scope.
Definition nf : name := [102]. Definition nx : name := [120]. Definition ni : name := [105].
Definition ns : name := [115]. Definition na : name := [97].  Definition nb : name := [98].
Definition nt : name := [116]. Definition ny : name := [121]. Definition nv : name := [118].
Definition nn : name := [110]. Definition nlen : name := [108; 101; 110].
Local Close Scope Z_scope.

Definition ex_sc : scopes := [[(nlen, VFun 7 [TArr TAny] TInt)]].

Definition ex_prog : list sline :=
  [ LFnDecl nf [(nx, TMulti [TInt; TString])] (Some TInt)
      [LStm (SRet (Some (SMatch (XIdent nx)
         [AType ni TInt (SBlock [LStm (SExpr (XInfix Add (XIdent ni) (XConst (VInt 1))))]);
          AValue [XConst (VString [97%Z])] (SBlock [LStm (SExpr (XConst (VInt 0)))]);
          AOther (SBlock [LStm (SExpr (XConst (VInt 2)))])])))];
    LSet ns (SExpr (XStruct [(na, Some (XConst (VInt 1)));
                             (nb, Some (XArray [XConst (VInt 1); XConst (VInt 2); XConst (VInt 3)]))]));
    LSet nt (SExpr (XSlice (XFieldAccess (XIdent ns) nb)
                           (Some (XConst (VInt 0))) (Some (XConst (VInt 2))) None));
    LSet nn (SExpr (XCall (XIdent nlen) [XIdent nt]));
    LStm (SFor ny
            (XInfix Map (XPostfix UIter (XFieldAccess (XIdent ns) nb))
               (XFunction [(nv, TInt)] (Some TInt)
                  [LStm (SRet (Some (SExpr (XInfix Multiply (XIdent nv) (XConst (VInt 2))))))]))
            (SBlock [LStm (SExpr (XCall (XIdent nf) [XIdent ny]))])) ].

(* all the hypotheses of the theorems hold of it ... *)
Example ex_prog_hyps :
  forallb wf_sline ex_prog = true /\ wf_lenv [] /\ wf_scopes ex_sc /\ wf_red red0 /\
  lines_size ex_prog < 100.
Proof.
  repeat split; try (vm_compute; reflexivity).
  apply Nat.ltb_lt. vm_compute. reflexivity.
Qed.

(* ... it is accepted, and these are the static types of its five statements *)
Example ex_prog_accepted :
  obind (check_lines red0 100 ex_sc [] ex_prog) (fun p => rtl_def (fst p)) =
  Ok [TFun [TMulti [TInt; TString]] TInt;
      TStruct [(na, TInt); (nb, TArr TInt)];
      TArr TInt;
      TInt;
      TVoid].
Proof. vm_compute. reflexivity. Qed.

(* the theorem applied to it *)
Example ex_prog_rt_defined :
  exists is e', check_lines red0 100 ex_sc [] ex_prog = Ok (is, e') /\
    Forall (fun i => exists T, rt i = Ok T /\ wf_ty T = true) is /\ wf_lenv e'.
Proof.
  destruct ex_prog_hyps as [W [We [Wsc [Wred Hsz]]]].
  destruct (check_lines_total red0 Wred 100 ex_sc [] ex_prog We Wsc W Hsz)
    as [[[is e'] E]|[z E]].
  - exists is, e'. split; [exact E|].
    exact (check_lines_rt_wf red0 Wred 100 ex_sc [] ex_prog is e' We Wsc W E).
  - exfalso. pose proof ex_prog_accepted as A. rewrite E in A. discriminate A.
Qed.

(* rejection is still possible: the theorems are not about accepting everything *)
Example ex_rejected :
  check_lines red0 10 ex_sc [] [LStm (SExpr (XInfix Add (XConst (VInt 1)) (XConst (VString []))))]
  = Err E_Reject.
Proof. vm_compute. reflexivity. Qed.

(* RecrTyped2.v — preservation for TYPED programs: every hypothesis of the preservation
   theorems (binder discipline, arity of destructurings, no panic) follows from the typing
   judgement of layer 3, which the checker establishes (Bridge1) and the pass preserves
   (SoundRec3), and from execution soundness (Soundness).  What remains:

     the instruction (line, program) is typed, the pass accepted it, the store is typed, the
     scopes are typed and agree with the pass's environment

   and then, for EVERY fuel n:
     - if the un-folded one finishes with fuel n, the folded one finishes with fuel n, with
       literally the same result;
     - if the folded one finishes with fuel n, the un-folded one finishes with fuel n + f
       (f = the fuel the pass ran with), with literally the same result.               *)
From SSL.Model Require Import Base Ty Float Value Ops Seq Syntax Rt Recreate Exec Check Top.
From SSL.Lemmas Require Import TyLemmas ValueLemmas ExecLemmas SoundLemmas SoundDefs SoundVals SoundTyping
  Sound1 Sound5 Soundness SoundRec2 SoundRec3
  RecrUnfold RecrMono RecrDefs RecrMain RecrClos RecrBack1 RecrBack2 RecrTyped.

Arguments matches : simpl never.

Section Typed.
Existing Instance all_policy.
Variable powf : fbits -> fbits -> fbits.
Variable pre : prelude.
Notation E := (exec powf pre).
Notation RC f := (recreate powf f []).

Lemma cl_all : forall W0 G nm ps body r,
  closure_ok W0 G nm ps body r -> wf_ty (TFun (map snd ps) r) = true -> true = true.
Proof. reflexivity. Qed.

Lemma pol_all : forall W1 G1 nm1 ps1 body1 r1, @closure_ok all_policy W1 G1 nm1 ps1 body1 r1.
Proof. intros; exact I. Qed.

(* the pass's output is typed, hence [dok] *)
Lemma typed_line_out_dok W0 W G K i T G' e G2 f i' e' :
  typed_line W0 G K i T G' -> ext W0 W -> renv W [] e G G2 ->
  RC f e i = Ok (i', e') -> dok i' = true.
Proof.
  intros Ht HE HR H.
  pose proof (proj2 (@rec_all_fuel all_policy pol_all powf [] W f) W0 G K i T G' Ht HE e G2 HR) as C.
  rewrite H in C. cbn [ogood] in C. destruct C as [T' [G2' [Ht' _]]]. cbn [fst] in Ht'.
  apply (typed_line_dok W G2 K i' T' G2' Ht').
Qed.

Lemma typed_line_no_panic n W0 G K i T G' W st sc :
  typed_line W0 G K i T G' -> ext W0 W -> store_ok W st -> env_ok W sc G ->
  sig (E n st sc i) <> SPanic.
Proof.
  intros Ht HE HS HG. destruct (E n st sc i) as [[st' sc'] s] eqn:Hex.
  destruct (exec_sound_line powf pre (recreate_ok_all powf) n W0 G K i T G' W st sc st' sc' s Ht HE HS HG Hex)
    as [W' [_ [_ [[NP _] _]]]]. exact NP.
Qed.

Theorem recreate_line_typed W0 W G K i T G' e G2 f i' e' :
  typed_line W0 G K i T G' -> ext W0 W -> renv W [] e G G2 ->
  RC f e i = Ok (i', e') ->
  forall st sc, store_ok W st -> env_ok W sc G -> agree e sc ->
  forall n,
    (sig (E n st sc i) <> SFuel -> E n st sc i' = E n st sc i) /\
    (sig (E n st sc i') <> SFuel -> E (n + f) st sc i = E n st sc i').
Proof.
  intros Ht HE HR H st sc HS HG Ha n.
  pose proof (typed_line_wfi true cl_all W0 G K i T G' Ht) as W1.
  pose proof (typed_line_out_dok _ _ _ _ _ _ _ _ _ _ _ _ Ht HE HR H) as D.
  split.
  - intros Hf. apply (proj1 (sim_line1 powf pre f e i i' e' H W1 D sc Ha) n st).
    split; [exact Hf|apply (typed_line_no_panic n W0 G K i T G' W st sc Ht HE HS HG)].
  - intros Hf.
    destruct (back_line1 powf pre f e i i' e' H W1 D sc Ha n (n + f) st ltac:(lia) Hf) as [P|P]; [|exact P].
    exfalso. exact (typed_line_no_panic (n + f) W0 G K i T G' W st sc Ht HE HS HG P).
Qed.

End Typed.

(* Sound5.v — layer 3, stage 4b: closure creation (`(x: int) -> int { .. }` and
   `f := (..) {..}`).

   A closure is created by running the constant-propagation pass over its body
   ([recreate_body]: free names are looked up in the creating scopes and substituted
   as constants — this is how closures capture) and storing the result.
   [recreate_ok powf W0 G nm ps body r] states what is needed of that pass for ONE
   closure literal: in any scopes that agree with the typing environment G it does not
   panic, reports only documented errors, and returns a body that is typed under the
   closure's own environment (its name and parameters) alone.
   The lemmas below take "the policy implies recreate_ok" ([policy_ok]) as an explicit
   hypothesis, not an axiom; SoundRec1-3.v prove it for the policy that accepts every
   literal: the pass preserves typing, up to narrowing of the types.  (Narrowing can go all
   the way to `!`: `y := if true { return 1 } else { c }` is recreated with y : `!`; the
   rules of the judgement tolerate operands of type `!` for that reason.  Before its repair
   the implementation panicked there, inside Code::parse: C01b.recreate_narrows_to_never.) *)
From SSL.Model Require Import Base Ty Float Value Ops Seq Syntax Rt Recreate Exec Check.
From SSL.Lemmas Require Import TyLemmas ValueLemmas SeqLemmas ExecLemmas SoundLemmas CellLemmas
  SoundDefs SoundVals SoundTyping Sound1 Sound2 Sound3 Sound4.

Arguments matches : simpl never.
Arguments ty_eqb : simpl never.
Arguments concat : simpl never.

Local Open Scope Z_scope.

Definition W_fun (W : sty) (sg : list ty * ty) : sty := mkW (cells_t W) (funs_t W ++ [Some sg]).

Lemma ext_fun W sg : ext W (W_fun W sg).
Proof.
  split; [auto|]. intros id x H. cbn [W_fun funs_t].
  rewrite nth_error_app1; [exact H|]. apply nth_error_Some. congruence.
Qed.

(* the (single) layer of LocalVariables a closure body is recreated in *)
Definition fn_layer (nm : option name) (ps : params) (r : ty) : layer :=
  match nm with
  | None => mkLayer (params_layer ps) None false
  | Some n => layer_insert n (LFunction ps r) (mkLayer (params_layer ps) None false)
  end.

Section WithFlag.
Context {FL : Policy}.

Lemma store_ok_alloc_fun W st c :
  store_ok W st ->
  wf_ty (TFun (map snd (c_params c)) (c_ret c)) = true ->
  body_ok (W_fun W (map snd (c_params c), c_ret c)) c ->
  store_ok (W_fun W (map snd (c_params c), c_ret c)) (fst (alloc_fun st c)) /\
  gv (W_fun W (map snd (c_params c), c_ret c))
     (VFun (snd (alloc_fun st c)) (map snd (c_params c)) (c_ret c))
     (TFun (map snd (c_params c)) (c_ret c)).
Proof.
  intros [[HL HC] [HFL HF]] Wf Hb. set (sg := (map snd (c_params c), c_ret c)) in *.
  pose proof (ext_fun W sg) as HE. unfold alloc_fun. cbn [fst snd].
  assert (Hg : vgood (W_fun W sg) (VFun (length (s_funs st)) (map snd (c_params c)) (c_ret c))).
  { split; [exact Wf|]. cbn [W_fun funs_t]. rewrite nth_error_app2 by lia.
    rewrite HFL, Nat.sub_diag. reflexivity. }
  split; [split|].
  - split; [exact HL|]. intros loc t Ht. destruct (HC loc t Ht) as [v [Hv Hgv]].
    exists v. split; [exact Hv|apply (gv_mono W _ v t HE Hgv)].
  - split; cbn [W_fun funs_t s_funs]; [rewrite !app_length, HFL; reflexivity|].
    intros id c' sg' Hc' Hsg'. destruct (Nat.lt_ge_cases id (length (s_funs st))) as [Hlt|Hge].
    + rewrite nth_error_app1 in Hc' by exact Hlt.
      rewrite nth_error_app1 in Hsg' by (rewrite HFL; exact Hlt).
      destruct (HF id c' sg' Hc' Hsg') as [A [B C]].
      split; [exact A|split; [exact B|apply (body_ok_mono W _ c' HE C)]].
    + rewrite nth_error_app2 in Hc' by exact Hge.
      destruct (id - length (s_funs st))%nat as [|k] eqn:Ek; [|destruct k; discriminate Hc'].
      cbn [nth_error] in Hc'. injection Hc' as <-.
      assert (id = length (funs_t W)) as -> by lia.
      rewrite nth_error_app2 in Hsg' by lia. rewrite Nat.sub_diag in Hsg'.
      cbn [nth_error] in Hsg'. injection Hsg' as <-.
      split; [reflexivity|split; [exact Wf|exact Hb]].
  - split; [apply (vgood_self _ _ Hg)|exact Hg].
Qed.

Section Sound.
Variable powf : fbits -> fbits -> fbits.
Variable pre : prelude.
Notation E := (exec powf pre).

Definition recreate_ok (W0 : sty) (G : genv) (nm : option name) (ps : params)
    (body : list instr) (r : ty) : Prop :=
  forall W sc, ext W0 W -> env_ok W sc G ->
    recreate_body powf sc [fn_layer nm ps r] body <> Panic /\
    (forall e, recreate_body powf sc [fn_layer nm ps r] body = Err e -> doc_err e) /\
    (forall body', recreate_body powf sc [fn_layer nm ps r] body = Ok body' ->
       exists G'' Ts',
         typed_list W (closure_env nm ps r) (mkK false (Some r)) body' G'' Ts' /\
         (matches TVoid r = true \/ In TNever Ts')).

(* the policy is sound for the pass: on a literal it accepts, and that satisfies the other
   premises of the closure-creation rules, the pass behaves *)
Definition policy_ok : Prop :=
  forall W0 G nm ps body r G' Ts,
    closure_ok W0 G nm ps body r ->
    wf_ty (TFun (map snd ps) r) = true ->
    match nm with
    | Some n => existsb (fun p => ident_eqb n (fst p)) ps = false
    | None => True
    end ->
    typed_list W0 (closure_env nm ps r ++ G) (mkK false (Some r)) body G' Ts ->
    (matches TVoid r = true \/ In TNever Ts) ->
    recreate_ok W0 G nm ps body r.

(* storing the recreated body *)
Lemma closure_alloc_sound W st nm ps body' r G'' Ts' :
  store_ok W st -> wf_ty (TFun (map snd ps) r) = true ->
  typed_list W (closure_env nm ps r) (mkK false (Some r)) body' G'' Ts' ->
  (matches TVoid r = true \/ In TNever Ts') ->
  let c := mkClosure nm ps (BLang body') r in
  let W' := W_fun W (map snd ps, r) in
  ext W W' /\ store_ok W' (fst (alloc_fun st c)) /\
  gv W' (VFun (snd (alloc_fun st c)) (map snd ps) r) (TFun (map snd ps) r).
Proof.
  intros HS Wf Hb Hend c W'. split; [apply ext_fun|].
  apply (store_ok_alloc_fun W st c HS Wf).
  unfold body_ok. cbn [c c_body c_ret c_params]. exists W, G'', Ts'.
  split; [apply ext_fun|]. split; [|exact Hend]. exact Hb.
Qed.

Lemma case_anonfn n W0 G K ps body r W st sc :
  recreate_ok W0 G None ps body r ->
  wf_ty (TFun (map snd ps) r) = true ->
  ctx_ok W0 W st sc G ->
  concl W K (TFun (map snd ps) r) sc (E (S n) st sc (IAnonFn ps body r)).
Proof.
  intros Hrec Wf HC. rewrite exec_S_IAnonFn.
  destruct (Hrec W sc (ctx_ext _ _ _ _ _ HC) (ctx_env _ _ _ _ _ HC)) as [NP [HErr HOk]].
  change (mkLayer (params_layer ps) None false) with (fn_layer None ps r).
  apply concl_sig_of_outcome; [apply (ctx_store _ _ _ _ _ HC)|exact NP|exact HErr|].
  intros body' Hb'. destruct (HOk body' Hb') as [G'' [Ts' [Hl' Hend']]].
  destruct (closure_alloc_sound W st None ps body' r G'' Ts' (ctx_store _ _ _ _ _ HC) Wf Hl' Hend')
    as [HE [HS Hg]].
  destruct (alloc_fun st (mkClosure None ps (BLang body') r)) as [st1 id]. cbn [fst snd] in *.
  apply (concl_ext W (W_fun W (map snd ps, r))); [exact HE|]. apply concl_val; assumption.
Qed.

Lemma fndecl_sound (Hpol : policy_ok) : forall n, fndecl_sound_at powf pre n.
Proof.
  intros n W0 G K nm ps body r G' Ts Hok Wf Hnm Hb Hend W st sc HC.
  pose proof (Hpol _ _ _ _ _ _ _ _ Hok Wf Hnm Hb Hend) as Hrec.
  destruct n as [|n].
  - rewrite exec_O. exists W. split; [apply ext_refl|]. split; [apply (ctx_store _ _ _ _ _ HC)|exact I].
  - rewrite exec_S_IFnDecl.
    destruct (Hrec W sc (ctx_ext _ _ _ _ _ HC) (ctx_env _ _ _ _ _ HC)) as [NP [HErr HOk]].
    change (layer_insert nm (LFunction ps r) (mkLayer (params_layer ps) None false))
      with (fn_layer (Some nm) ps r).
    destruct (recreate_body powf sc [fn_layer (Some nm) ps r] body) as [body'|e| |];
      cbn [sig_of_outcome].
    + destruct (HOk body' eq_refl) as [G'' [Ts' [Hl' Hend']]].
      destruct (closure_alloc_sound W st (Some nm) ps body' r G'' Ts'
                  (ctx_store _ _ _ _ _ HC) Wf Hl' Hend') as [HE [HS Hg]].
      unfold alloc_fun in *. cbn [fst snd] in *. exists (W_fun W (map snd ps, r)). split; [exact HE|].
      unfold sto, sig, scs. cbn [fst snd]. split; [exact HS|]. split; [exact Hg|].
      apply env_ok_insert; [|exact Wf|exact Hg].
      apply (env_ok_mono W _ sc G HE). apply (ctx_env _ _ _ _ _ HC).
    + exists W. split; [apply ext_refl|]. split; [apply (ctx_store _ _ _ _ _ HC)|].
      apply (HErr e eq_refl).
    + congruence.
    + exists W. split; [apply ext_refl|]. split; [apply (ctx_store _ _ _ _ _ HC)|exact I].
Qed.

End Sound.

End WithFlag.

(* TyEq.v — ty_eqb (Rust `==` on Type) is an equivalence relation. *)
From SSL.Model Require Import Base Ty.
From SSL.Lemmas Require Import TyFuel.

(* ---------- more list facts ---------- *)
Lemma all2_flip {A B} (f : A -> B -> bool) l1 l2 :
  all2 f l1 l2 = all2 (fun y x => f x y) l2 l1.
Proof.
  revert l2. induction l1 as [|x l1 IH]; intros [|y l2]; cbn [all2]; try reflexivity.
  rewrite IH. reflexivity.
Qed.

Lemma all2_refl_in {A} (f : A -> A -> bool) l :
  (forall x, In x l -> f x x = true) -> all2 f l l = true.
Proof.
  induction l as [|x l IH]; intros H; cbn [all2]; [reflexivity|].
  rewrite (H x) by (left; reflexivity). cbn [andb]. apply IH.
  intros y Hy. apply H. right. exact Hy.
Qed.

Lemma all2_trans_in {A B C} (f : A -> B -> bool) (g : B -> C -> bool) (h : A -> C -> bool) l1 l2 l3 :
  (forall x y z, In x l1 -> In y l2 -> In z l3 -> f x y = true -> g y z = true -> h x z = true) ->
  all2 f l1 l2 = true -> all2 g l2 l3 = true -> all2 h l1 l3 = true.
Proof.
  revert l2 l3. induction l1 as [|x l1 IH]; intros [|y l2] [|z l3] H H1 H2; cbn [all2] in *;
    try reflexivity; try discriminate.
  apply andb_true_iff in H1. destruct H1 as [H1a H1b].
  apply andb_true_iff in H2. destruct H2 as [H2a H2b].
  apply andb_true_iff. split.
  - apply (H x y z); try (left; reflexivity); assumption.
  - apply (IH l2 l3); try assumption.
    intros x' y' z' Hx Hy Hz. apply H; right; assumption.
Qed.

Lemma all2_impl_in {A B} (f g : A -> B -> bool) l1 l2 :
  (forall x y, In x l1 -> In y l2 -> f x y = true -> g x y = true) ->
  all2 f l1 l2 = true -> all2 g l1 l2 = true.
Proof.
  revert l2. induction l1 as [|x l1 IH]; intros [|y l2] H H1; cbn [all2] in *;
    try reflexivity; try discriminate.
  apply andb_true_iff in H1. destruct H1 as [H1a H1b].
  apply andb_true_iff. split.
  - apply H; try (left; reflexivity). exact H1a.
  - apply IH; [|exact H1b]. intros x' y' Hx Hy. apply H; right; assumption.
Qed.

Lemma all2_length {A B} (f : A -> B -> bool) l1 l2 :
  all2 f l1 l2 = true -> length l1 = length l2.
Proof.
  revert l2. induction l1 as [|x l1 IH]; intros [|y l2] H; cbn [all2 length] in *;
    try reflexivity; try discriminate.
  apply andb_true_iff in H. destruct H as [_ H]. f_equal. apply IH. exact H.
Qed.

Lemma all2_forall {A B} (f : A -> B -> bool) l1 l2 :
  all2 f l1 l2 = true ->
  forall x y, In (x, y) (combine l1 l2) -> f x y = true.
Proof.
  revert l2. induction l1 as [|a l1 IH]; intros [|b l2] H x y Hin; cbn [all2 combine In] in *;
    try tauto; try discriminate.
  apply andb_true_iff in H. destruct H as [Ha Hb].
  destruct Hin as [Heq|Hin].
  - injection Heq as -> ->. exact Ha.
  - apply (IH l2); assumption.
Qed.

(* ---------- hereditarily distinct struct keys ---------- *)
Fixpoint keys_ok (t : ty) : bool :=
  match t with
  | TFun ps r => forallb keys_ok ps && keys_ok r
  | TArr e | TMut e => keys_ok e
  | TTup ts | TMulti ts => forallb keys_ok ts
  | TStruct fs => nodup_keys fs && forallb (fun kv => keys_ok (snd kv)) fs
  | _ => true
  end.

Lemma forallb_impl_in {A} (f g : A -> bool) l :
  (forall x, In x l -> f x = true -> g x = true) -> forallb f l = true -> forallb g l = true.
Proof.
  intros H Hf. apply forallb_forall. intros x Hx. apply H; [exact Hx|].
  rewrite forallb_forall in Hf. apply Hf. exact Hx.
Qed.

Lemma wf_keys_ok a : wf_ty a = true -> keys_ok a = true.
Proof.
  induction a as [a IH] using ty_size_ind. intros Hwf.
  destruct a as [| | | | | | |ps r|e|ts|ms|e|fs]; cbn [wf_ty keys_ok] in *; try reflexivity.
  - apply andb_true_iff in Hwf. destruct Hwf as [H1 H2]. apply andb_true_iff. split.
    + revert H1. apply forallb_impl_in. intros x Hx. apply IH. szs.
    + apply IH; [szs|exact H2].
  - apply IH; [szs|exact Hwf].
  - revert Hwf. apply forallb_impl_in. intros x Hx. apply IH. szs.
  - apply andb_true_iff in Hwf. destruct Hwf as [Hwf _].
    apply andb_true_iff in Hwf. destruct Hwf as [_ Hwf].
    revert Hwf. apply forallb_impl_in. intros x Hx. apply IH. szs.
  - apply IH; [szs|exact Hwf].
  - apply andb_true_iff in Hwf. destruct Hwf as [H1 H2]. apply andb_true_iff. split; [exact H1|].
    revert H2. apply forallb_impl_in. intros x Hx. apply IH. szs.
Qed.

(* ---------- reflexivity ---------- *)
Lemma ty_eqb_refl_keys a : keys_ok a = true -> ty_eqb a a = true.
Proof.
  induction a as [a IH] using ty_size_ind. intros Hk. rewrite ty_eqb_unfold.
  destruct a as [| | | | | | |ps r|e|ts|ms|e|fs]; cbn [keys_ok] in Hk; try reflexivity.
  - apply andb_true_iff in Hk. destruct Hk as [H1 H2]. rewrite forallb_forall in H1.
    apply andb_true_iff. split.
    + apply all2_refl_in. intros x Hx. apply IH; [szs|apply H1; exact Hx].
    + apply IH; [szs|exact H2].
  - apply IH; [szs|exact Hk].
  - rewrite forallb_forall in Hk. apply all2_refl_in. intros x Hx. apply IH; [szs|apply Hk; exact Hx].
  - rewrite forallb_forall in Hk. rewrite Nat.eqb_refl. cbn [andb].
    assert (Hs : forallb (fun x => existsb (fun y => ty_eqb x y) ms) ms = true).
    { apply forallb_forall. intros x Hx. apply existsb_exists. exists x. split; [exact Hx|].
      apply IH; [szs|apply Hk; exact Hx]. }
    rewrite Hs. reflexivity.
  - apply IH; [szs|exact Hk].
  - apply andb_true_iff in Hk. destruct Hk as [H1 H2]. rewrite forallb_forall in H2.
    rewrite Nat.eqb_refl. cbn [andb].
    assert (Hs : forallb (fun x => match assoc (fst x) fs with
                                   | Some t => ty_eqb (snd x) t | None => false end) fs = true).
    { apply forallb_forall. intros [k v] Hx. cbn [fst snd].
      rewrite (in_assoc_nodup k v fs H1 Hx).
      apply IH; [szs|]. apply (H2 (k, v)). exact Hx. }
    rewrite Hs. reflexivity.
Qed.

Lemma ty_eqb_refl a : wf_ty a = true -> ty_eqb a a = true.
Proof. intros H. apply ty_eqb_refl_keys. apply wf_keys_ok. exact H. Qed.

(* ---------- symmetry (no hypothesis) ---------- *)
Lemma ty_eqb_sym a b : ty_eqb a b = ty_eqb b a.
Proof.
  revert a b. apply (ty_size_ind2 (fun a b => ty_eqb a b = ty_eqb b a)). intros a b IH.
  rewrite (ty_eqb_unfold a b), (ty_eqb_unfold b a).
  destruct a as [| | | | | | |p1 r1|e1|t1|m1|e1|f1], b as [| | | | | | |p2 r2|e2|t2|m2|e2|f2];
    try reflexivity.
  - rewrite (all2_flip ty_eqb p2 p1). f_equal.
    + apply all2_ext_in. intros x y Hx Hy. apply IH. szs.
    + apply IH. szs.
  - apply IH. szs.
  - rewrite (all2_flip ty_eqb t2 t1). apply all2_ext_in. intros x y Hx Hy. apply IH. szs.
  - rewrite (Nat.eqb_sym (length m2)). rewrite <- !andb_assoc. f_equal. apply andb_comm.
  - apply IH. szs.
  - rewrite (Nat.eqb_sym (length f2)). rewrite <- !andb_assoc. f_equal. apply andb_comm.
Qed.

(* ---------- transitivity (no hypothesis) ---------- *)
Lemma sub_trans (l1 l2 l3 : list ty) :
  (forall x y z, In x l1 -> In y l2 -> In z l3 ->
     ty_eqb x y = true -> ty_eqb y z = true -> ty_eqb x z = true) ->
  forallb (fun x => existsb (fun y => ty_eqb x y) l2) l1 = true ->
  forallb (fun x => existsb (fun y => ty_eqb x y) l3) l2 = true ->
  forallb (fun x => existsb (fun y => ty_eqb x y) l3) l1 = true.
Proof.
  intros H H1 H2. rewrite forallb_forall in *. intros x Hx.
  specialize (H1 x Hx). apply existsb_exists in H1. destruct H1 as [y [Hy Hxy]].
  specialize (H2 y Hy). apply existsb_exists in H2. destruct H2 as [z [Hz Hyz]].
  apply existsb_exists. exists z. split; [exact Hz|]. apply (H x y z); assumption.
Qed.

Lemma fsub_trans (l1 l2 l3 : list (ident * ty)) :
  (forall x y z, In x l1 -> In y l2 -> In z l3 ->
     ty_eqb (snd x) (snd y) = true -> ty_eqb (snd y) (snd z) = true ->
     ty_eqb (snd x) (snd z) = true) ->
  forallb (fun x => match assoc (fst x) l2 with
                    | Some t => ty_eqb (snd x) t | None => false end) l1 = true ->
  forallb (fun x => match assoc (fst x) l3 with
                    | Some t => ty_eqb (snd x) t | None => false end) l2 = true ->
  forallb (fun x => match assoc (fst x) l3 with
                    | Some t => ty_eqb (snd x) t | None => false end) l1 = true.
Proof.
  intros H H1 H2. rewrite forallb_forall in *. intros x Hx.
  specialize (H1 x Hx). destruct (assoc (fst x) l2) as [t|] eqn:Ea; [|discriminate].
  apply assoc_in in Ea. specialize (H2 _ Ea). cbn [fst snd] in H2.
  destruct (assoc (fst x) l3) as [u|] eqn:Eb; [|discriminate].
  apply assoc_in in Eb.
  apply (H x (fst x, t) (fst x, u)); assumption.
Qed.

Lemma ty_eqb_trans a b c : ty_eqb a b = true -> ty_eqb b c = true -> ty_eqb a c = true.
Proof.
  revert a b c.
  apply (ty_size_ind3 (fun a b c => ty_eqb a b = true -> ty_eqb b c = true -> ty_eqb a c = true)).
  intros a b c IH.
  rewrite (ty_eqb_unfold a b), (ty_eqb_unfold b c), (ty_eqb_unfold a c).
  destruct a as [| | | | | | |p1 r1|e1|t1|m1|e1|f1], b as [| | | | | | |p2 r2|e2|t2|m2|e2|f2];
    try discriminate;
    destruct c as [| | | | | | |p3 r3|e3|t3|m3|e3|f3]; try discriminate; try reflexivity;
    intros H1 H2.
  - apply andb_true_iff in H1. destruct H1 as [H1a H1b].
    apply andb_true_iff in H2. destruct H2 as [H2a H2b].
    apply andb_true_iff. split.
    + apply (all2_trans_in ty_eqb ty_eqb ty_eqb p1 p2 p3); try assumption.
      intros x y z Hx Hy Hz. apply IH. szs.
    + apply (IH r1 r2 r3); [szs|assumption|assumption].
  - apply (IH e1 e2 e3); [szs|assumption|assumption].
  - apply (all2_trans_in ty_eqb ty_eqb ty_eqb t1 t2 t3); try assumption.
    intros x y z Hx Hy Hz. apply IH. szs.
  - apply andb_true_iff in H1. destruct H1 as [H1 H1c].
    apply andb_true_iff in H1. destruct H1 as [H1a H1b].
    apply andb_true_iff in H2. destruct H2 as [H2 H2c].
    apply andb_true_iff in H2. destruct H2 as [H2a H2b].
    apply Nat.eqb_eq in H1a. apply Nat.eqb_eq in H2a.
    apply andb_true_iff. split; [apply andb_true_iff; split|].
    + apply Nat.eqb_eq. congruence.
    + apply (sub_trans m1 m2 m3); try assumption. intros x y z Hx Hy Hz. apply IH. szs.
    + apply (sub_trans m3 m2 m1); try assumption. intros x y z Hx Hy Hz. apply IH. szs.
  - apply (IH e1 e2 e3); [szs|assumption|assumption].
  - apply andb_true_iff in H1. destruct H1 as [H1 H1c].
    apply andb_true_iff in H1. destruct H1 as [H1a H1b].
    apply andb_true_iff in H2. destruct H2 as [H2 H2c].
    apply andb_true_iff in H2. destruct H2 as [H2a H2b].
    apply Nat.eqb_eq in H1a. apply Nat.eqb_eq in H2a.
    apply andb_true_iff. split; [apply andb_true_iff; split|].
    + apply Nat.eqb_eq. congruence.
    + apply (fsub_trans f1 f2 f3); try assumption. intros x y z Hx Hy Hz. apply IH. szs.
    + apply (fsub_trans f3 f2 f1); try assumption. intros x y z Hx Hy Hz. apply IH. szs.
Qed.

(* ---------- per-constructor equations ---------- *)
Lemma ty_eqb_mut a b : ty_eqb (TMut a) (TMut b) = ty_eqb a b.
Proof. rewrite ty_eqb_unfold. reflexivity. Qed.
Lemma ty_eqb_arr a b : ty_eqb (TArr a) (TArr b) = ty_eqb a b.
Proof. rewrite ty_eqb_unfold. reflexivity. Qed.
Lemma ty_eqb_tup l1 l2 : ty_eqb (TTup l1) (TTup l2) = all2 ty_eqb l1 l2.
Proof. rewrite ty_eqb_unfold. reflexivity. Qed.
Lemma ty_eqb_fun p1 r1 p2 r2 :
  ty_eqb (TFun p1 r1) (TFun p2 r2) = all2 ty_eqb p1 p2 && ty_eqb r1 r2.
Proof. rewrite ty_eqb_unfold. reflexivity. Qed.
Lemma ty_eqb_multi m1 m2 :
  ty_eqb (TMulti m1) (TMulti m2) =
  Nat.eqb (length m1) (length m2)
  && forallb (fun x => existsb (fun y => ty_eqb x y) m2) m1
  && forallb (fun x => existsb (fun y => ty_eqb x y) m1) m2.
Proof. rewrite ty_eqb_unfold. reflexivity. Qed.
Lemma ty_eqb_struct f1 f2 :
  ty_eqb (TStruct f1) (TStruct f2) =
  Nat.eqb (length f1) (length f2)
  && forallb (fun x => match assoc (fst x) f2 with
                       | Some t => ty_eqb (snd x) t | None => false end) f1
  && forallb (fun x => match assoc (fst x) f1 with
                       | Some t => ty_eqb (snd x) t | None => false end) f2.
Proof. rewrite ty_eqb_unfold. reflexivity. Qed.

(* a ty_eqb-equal pair has the same head constructor class *)
Lemma ty_eqb_simple a b : ty_eqb a b = true -> simple a = simple b.
Proof.
  rewrite ty_eqb_unfold. destruct a, b; try discriminate; reflexivity.
Qed.

(* mem_ty respects ty_eqb *)
Lemma mem_ty_eqb x y l : ty_eqb x y = true -> mem_ty x l = mem_ty y l.
Proof.
  intros H. unfold mem_ty. apply existsb_ext_in. intros z Hz.
  destruct (ty_eqb x z) eqn:E1, (ty_eqb y z) eqn:E2; try reflexivity.
  - rewrite ty_eqb_sym in H. rewrite (ty_eqb_trans y x z H E1) in E2. discriminate.
  - rewrite (ty_eqb_trans x y z H E2) in E1. discriminate.
Qed.

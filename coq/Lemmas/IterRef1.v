(* IterRef1.v — C11b, part 1: the refinement relation between the PROGRAM model (Exec.v: iterators
   are function values, the operators call them through [call_def]) and the ABSTRACT iterator
   model (Model/Iter.v: iterators are pull functions over a world), and the consumers
   `it $]`, `it $ init f`, `it \ p`.

   The world of the abstract model is instantiated with the program STORE (closures, cells,
   effect log): an abstract iterator [it : iter store value] maps the store before a call to
   the answer and the store after it.

   [represents N F v it]: the function value v, called with no argument in any store satisfying
   the footprint F and with any fuel >= N, answers exactly as [it] says — `(true, x)` and the
   store [it] reaches for [Yield x _], an end marker `(false, _)` for [Done _] — and the
   footprint holds again afterwards.  Nothing is claimed where [it] says [NoFuel].
   [cb_refines N F D enc f k]: the same for a one-argument callback f and an abstract callback k,
   on arguments in the domain D ([enc] embeds the abstract result: the identity for values,
   [VBool] for predicates); [cb2_refines] for the two-argument callback of a reduction;
   [yields_in F it D]: the elements [it] yields lie in D.
   The footprint F is whatever the represented objects need of the store (their closures are
   still there, the counter cell of an array iterator still holds an integer, ...); that user
   callbacks keep it is part of [cb_refines] — the effects of callbacks are whatever the
   abstract callback says. *)
From SSL.Model Require Import Base Ty Float Value Ops Seq Syntax Rt Recreate Exec Iter.
From SSL.Lemmas Require Import ExecLemmas.
Local Open Scope Z_scope.

Section Ref.
Variable powf : fbits -> fbits -> fbits.
Variable pre : prelude.
Notation E := (exec powf pre).

Definition is_fun (v : value) : Prop := exists fid ps r, v = VFun fid ps r.

(* the closure table only grows (closures are never changed or removed) *)
Definition funs_ext (st st' : store) : Prop :=
  forall k c, nth_error (s_funs st) k = Some c -> nth_error (s_funs st') k = Some c.

Lemma funs_ext_refl st : funs_ext st st.
Proof. intros k c H. exact H. Qed.
Lemma funs_ext_trans a b c : funs_ext a b -> funs_ext b c -> funs_ext a c.
Proof. intros H1 H2 k x H. apply H2, H1, H. Qed.
Lemma funs_ext_same st st' : s_funs st' = s_funs st -> funs_ext st st'.
Proof. intros H k c Hk. rewrite H. exact Hk. Qed.
Lemma funs_ext_alloc_fun st c : funs_ext st (fst (alloc_fun st c)).
Proof.
  intros k x Hk. cbn [alloc_fun fst s_funs]. rewrite nth_error_app1; [exact Hk|].
  apply nth_error_Some. congruence.
Qed.

Definition represents (N : nat) (F : store -> Prop) (v : value) (it : iter store value) : Prop :=
  is_fun v /\
  forall n sc st, (N <= n)%nat -> F st ->
    match it st with
    | Yield x st' =>
        call_v_def (E n) v [] st sc = (st', sc, SVal (VTup [VBool true; x])) /\ F st' /\
        funs_ext st st'
    | Done st' =>
        (exists d, call_v_def (E n) v [] st sc = (st', sc, SVal (VTup [VBool false; d]))) /\ F st' /\
        funs_ext st st'
    | NoFuel => True
    end.

(* callbacks are only required to behave on a domain D of arguments (a closure declared
   `(x: int) -> ..` panics on a string; the call itself checks nothing) *)
Definition cb_refines {B} (N : nat) (F : store -> Prop) (D : value -> Prop) (enc : B -> value)
    (f : value) (k : cb store value B) : Prop :=
  is_fun f /\
  forall n sc st x, (N <= n)%nat -> F st -> D x ->
    call_v_def (E n) f [x] st sc = (snd (k x st), sc, SVal (enc (fst (k x st)))) /\
    F (snd (k x st)) /\ funs_ext st (snd (k x st)).

(* accumulators in Da, elements in Dx; the result is an accumulator again *)
Definition cb2_refines (N : nat) (F : store -> Prop) (Da Dx : value -> Prop) (f : value)
    (k : cb2 store value value) : Prop :=
  is_fun f /\
  forall n sc st a x, (N <= n)%nat -> F st -> Da a -> Dx x ->
    call_v_def (E n) f [a; x] st sc = (snd (k a x st), sc, SVal (fst (k a x st))) /\
    F (snd (k a x st)) /\ funs_ext st (snd (k a x st)) /\ Da (fst (k a x st)).

(* the elements an iterator yields lie in D *)
Definition yields_in (F : store -> Prop) (it : iter store value) (D : value -> Prop) : Prop :=
  forall st x st', F st -> it st = Yield x st' -> D x.

(* a larger threshold, a stronger footprint that the steps keep *)
Lemma represents_le N N' F v it : (N <= N')%nat -> represents N F v it -> represents N' F v it.
Proof.
  intros HN [Hf H]. split; [exact Hf|]. intros n sc st Hn HF. apply H; [lia|exact HF].
Qed.

(* ================================================================= *)
(* it $]                                                              *)
(* ================================================================= *)
Lemma collect_refines N F v it (R : represents N F v it) :
  forall m n sc st acc out st', (N <= n)%nat -> F st ->
  collect_loop m it (rev acc) st = Some (out, st') ->
  pull_def (E n) m v st sc acc = (st', sc, Ok out, SVal VVoid) /\ F st'.
Proof.
  destruct R as [_ R].
  induction m as [|m IH]; intros n sc st acc out st' Hn HF H; [discriminate H|].
  cbn [collect_loop] in H. rewrite pull_def_S. specialize (R n sc st Hn HF).
  destruct (it st) as [x st1|st1|]; [| |discriminate H].
  - destruct R as [-> [HF1 _]]. cbn [is_false].
    change (rev acc ++ [x]) with (rev (x :: acc)) in H. apply (IH n sc st1 (x :: acc) out st' Hn HF1 H).
  - destruct R as [[d ->] [HF1 _]]. cbn [is_false]. injection H as <- <-. auto.
Qed.

(* `v $]` once the operand is the value v: the array of the elements the abstract collect gives
   (the pull loop of the interpreter runs on the fuel of the interpreter) *)
Theorem collect_correct N F v it (R : represents N F v it) n sx sc st vec st' :
  (N <= n)%nat -> F st -> collect n it st = Some (vec, st') ->
  un_dispatch pre (E n) n sx UCollect v st sc = (st', sc, SVal (arr_of vec)) /\ F st'.
Proof.
  intros Hn HF H. destruct (collect_refines N F v it R n n sc st [] vec st' Hn HF H) as [Hp HF'].
  destruct R as [[fid [ps [r ->]]] _]. cbn [un_dispatch]. rewrite Hp. auto.
Qed.

Corollary collect_instr N F v it (R : represents N F v it) n x sc st st1 vec st' :
  E n st sc x = (st1, sc, SVal v) ->
  (N <= n)%nat -> F st1 -> collect n it st1 = Some (vec, st') ->
  E (S n) st sc (IUn UCollect x) = (st', sc, SVal (arr_of vec)) /\ F st'.
Proof.
  intros Hx Hn HF H. rewrite exec_S_IUn. unfold with_val_def. rewrite Hx.
  apply (collect_correct N F v it R); assumption.
Qed.

(* ================================================================= *)
(* it $ init f                                                        *)
(* ================================================================= *)
Theorem reduce_correct N F Da Dx v it fv k (R : represents N F v it)
    (Rf : cb2_refines N F Da Dx fv k) (Hin : yields_in F it Dx) :
  forall m n sc st acc acc' st', (N <= n)%nat -> F st -> Da acc ->
  reduce m k acc it st = Some (acc', st') ->
  reduce_def (E n) v fv m st sc acc = (st', sc, SVal acc') /\ F st' /\ Da acc'.
Proof.
  destruct R as [_ R]. destruct Rf as [_ Rf].
  induction m as [|m IH]; intros n sc st acc acc' st' Hn HF Ha H; [discriminate H|].
  cbn [reduce] in H. rewrite reduce_def_S. specialize (R n sc st Hn HF).
  pose proof (Hin st) as Hin'.
  destruct (it st) as [x st1|st1|]; [| |discriminate H].
  - destruct R as [-> [HF1 _]]. cbn [is_false].
    destruct (Rf n sc st1 acc x Hn HF1 Ha (Hin' x st1 HF eq_refl)) as [-> [HF2 [_ Ha2]]].
    destruct (k acc x st1) as [a2 st2]. cbn [fst snd] in *.
    apply (IH n sc st2 a2 acc' st' Hn HF2 Ha2 H).
  - destruct R as [[d ->] [HF1 _]]. cbn [is_false]. injection H as <- <-. auto.
Qed.

Corollary reduce_instr N F Da Dx v it fv k (R : represents N F v it)
    (Rf : cb2_refines N F Da Dx fv k) (Hin : yields_in F it Dx)
    n xi xa xf sc st st1 st2 st3 a acc' st' :
  E n st sc xi = (st1, sc, SVal v) -> E n st1 sc xa = (st2, sc, SVal a) ->
  E n st2 sc xf = (st3, sc, SVal fv) ->
  (N <= n)%nat -> F st3 -> Da a -> reduce n k a it st3 = Some (acc', st') ->
  E (S n) st sc (IReduce xi xa xf) = (st', sc, SVal acc') /\ F st' /\ Da acc'.
Proof.
  intros H1 H2 H3 Hn HF Ha H. rewrite exec_S_IReduce. unfold with_val_def. rewrite H1, H2, H3.
  destruct (proj1 R) as [fid [ps [r ->]]]. destruct (proj1 Rf) as [gid [qs [q ->]]].
  apply (reduce_correct N F Da Dx _ it _ k R Rf Hin); assumption.
Qed.

(* ================================================================= *)
(* it \ p                                                             *)
(* ================================================================= *)
Theorem partition_correct N F D v it pv p (R : represents N F v it)
    (Rp : cb_refines N F D VBool pv p) (Hin : yields_in F it D) et :
  iter_element (as_type v) = Some et ->
  forall m n sc st yes no l r st', (N <= n)%nat -> F st ->
  partition_loop m p it (rev yes) (rev no) st = Some ((l, r), st') ->
  part_def (E n) v pv m st sc yes no = (st', sc, SVal (VTup [VArr et l; VArr et r])) /\ F st'.
Proof.
  intros Het. destruct R as [_ R]. destruct Rp as [_ Rp].
  induction m as [|m IH]; intros n sc st yes no l r st' Hn HF H; [discriminate H|].
  cbn [partition_loop] in H. rewrite part_def_S. specialize (R n sc st Hn HF).
  pose proof (Hin st) as Hin'.
  destruct (it st) as [x st1|st1|]; [| |discriminate H].
  - destruct R as [-> [HF1 _]]. cbn [is_false].
    destruct (Rp n sc st1 x Hn HF1 (Hin' x st1 HF eq_refl)) as [-> [HF2 _]].
    destruct (p x st1) as [b st2]. cbn [fst snd] in *. destruct b.
    + change (rev yes ++ [x]) with (rev (x :: yes)) in H. apply (IH n sc st2 _ _ l r st' Hn HF2 H).
    + change (rev no ++ [x]) with (rev (x :: no)) in H. apply (IH n sc st2 _ _ l r st' Hn HF2 H).
  - destruct R as [[d ->] [HF1 _]]. cbn [is_false]. rewrite Het. injection H as <- <- <-. auto.
Qed.

Corollary partition_instr N F D v it pv p (R : represents N F v it)
    (Rp : cb_refines N F D VBool pv p) (Hin : yields_in F it D)
    et n xl xr sc st st1 st2 l r st' :
  iter_element (as_type v) = Some et ->
  E n st sc xl = (st1, sc, SVal v) -> E n st1 sc xr = (st2, sc, SVal pv) ->
  (N <= n)%nat -> F st2 -> partition_iter n p it st2 = Some ((l, r), st') ->
  E (S n) st sc (IBin Partition xl xr) = (st', sc, SVal (VTup [VArr et l; VArr et r])) /\ F st'.
Proof.
  intros Het H1 H2 Hn HF H. rewrite exec_S_IBin by discriminate. unfold with_val_def.
  rewrite H1, H2. destruct (proj1 R) as [fid [ps [rr ->]]]. destruct (proj1 Rp) as [gid [qs [q ->]]].
  cbn [bin_dispatch].
  apply (partition_correct N F D _ it _ p R Rp Hin et Het n n sc st2 [] [] l r st' Hn HF H).
Qed.

End Ref.

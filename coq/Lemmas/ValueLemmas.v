(* ValueLemmas.v — lemmas about Model/Value.v:
   A. value soundness of [matches] (membership by contents is monotone along
      the subtype relation), typing of built arrays and default values;
   B. equality by content ([val_eqb]): symmetry, reflexivity away from NaN,
      kind separation, independence of the stored element type. *)
From SSL.Model Require Import Base Ty Float Value.
From SSL.Lemmas Require Import TyLemmas.
From Flocq Require Import IEEE754.Binary IEEE754.Bits.
From Flocq Require Core.Raux.

Arguments feq : simpl never.
Arguments f_is_nan : simpl never.
Arguments fcmp : simpl never.
Arguments fneg : simpl never.
Arguments matches : simpl never.
Arguments ty_eqb : simpl never.

(* ================================================================= *)
(* Induction principle for the nested inductive [value]              *)
(* ================================================================= *)
Section ValueInd.
  Variable P : value -> Prop.
  Hypothesis HBool : forall b, P (VBool b).
  Hypothesis HInt : forall z, P (VInt z).
  Hypothesis HFloat : forall f, P (VFloat f).
  Hypothesis HString : forall s, P (VString s).
  Hypothesis HFun : forall i ps r, P (VFun i ps r).
  Hypothesis HArr : forall et vs, Forall P vs -> P (VArr et vs).
  Hypothesis HTup : forall vs, Forall P vs -> P (VTup vs).
  Hypothesis HMut : forall l t, P (VMut l t).
  Hypothesis HStruct : forall fs, Forall (fun kv => P (snd kv)) fs -> P (VStruct fs).
  Hypothesis HVoid : P VVoid.

  Fixpoint value_ind' (v : value) : P v :=
    match v with
    | VBool b => HBool b
    | VInt z => HInt z
    | VFloat f => HFloat f
    | VString s => HString s
    | VFun i ps r => HFun i ps r
    | VArr et vs =>
        HArr et vs
          ((fix go (l : list value) : Forall P l :=
              match l with
              | [] => Forall_nil P
              | x :: l => Forall_cons x (value_ind' x) (go l)
              end) vs)
    | VTup vs =>
        HTup vs
          ((fix go (l : list value) : Forall P l :=
              match l with
              | [] => Forall_nil P
              | x :: l => Forall_cons x (value_ind' x) (go l)
              end) vs)
    | VMut l t => HMut l t
    | VStruct fs =>
        HStruct fs
          ((fix go (l : list (ident * value)) : Forall (fun kv => P (snd kv)) l :=
              match l with
              | [] => Forall_nil _
              | (k, x) :: l => Forall_cons (k, x) (value_ind' x) (go l)
              end) fs)
    | VVoid => HVoid
    end.
End ValueInd.

(* ================================================================= *)
(* A.1  Unfolding equations of [content_in]                          *)
(* ================================================================= *)
Lemma content_in_any v : content_in v TAny = true.
Proof. destruct v; reflexivity. Qed.

Lemma content_in_multi v ms : content_in v (TMulti ms) = existsb (content_in v) ms.
Proof. destruct v; reflexivity. Qed.

Lemma content_in_never v : content_in v TNever = false.
Proof. destruct v; reflexivity. Qed.

Lemma content_in_arr et vs e :
  content_in (VArr et vs) (TArr e) = forallb (fun x => content_in x e) vs.
Proof. reflexivity. Qed.

Lemma content_in_tup vs ts :
  content_in (VTup vs) (TTup ts) = all2 content_in vs ts.
Proof.
  cbn [content_in]. revert ts.
  induction vs as [|x vs IH]; intros [|t ts]; cbn [all2]; try reflexivity.
  rewrite IH. reflexivity.
Qed.

(* the [look] loop of the struct arm is [assoc] *)
Lemma content_in_struct fs fts :
  content_in (VStruct fs) (TStruct fts) =
  forallb (fun kt => match assoc (fst kt) fs with
                     | Some x => content_in x (snd kt) | None => false end) fts.
Proof.
  cbn [content_in]. apply forallb_ext_in. intros kt _.
  induction fs as [|[k x] fs IH]; cbn [assoc]; [reflexivity|].
  destruct (ident_eqb (fst kt) k); [reflexivity|exact IH].
Qed.

Lemma content_in_fun i ps r p1 r1 :
  content_in (VFun i ps r) (TFun p1 r1) = matches (TFun ps r) (TFun p1 r1).
Proof. reflexivity. Qed.

Lemma content_in_mut l ct e : content_in (VMut l ct) (TMut e) = ty_eqb ct e.
Proof. reflexivity. Qed.

Lemma content_in_bool b : content_in (VBool b) TBool = true.
Proof. reflexivity. Qed.
Lemma content_in_int z : content_in (VInt z) TInt = true.
Proof. reflexivity. Qed.
Lemma content_in_float f : content_in (VFloat f) TFloat = true.
Proof. reflexivity. Qed.
Lemma content_in_string s : content_in (VString s) TString = true.
Proof. reflexivity. Qed.
Lemma content_in_void : content_in VVoid TVoid = true.
Proof. reflexivity. Qed.

(* the shape of a simple type a value can inhabit: its own kind *)
Definition kind (v : value) : nat :=
  match v with
  | VBool _ => 0 | VInt _ => 1 | VFloat _ => 2 | VString _ => 3 | VFun _ _ _ => 4
  | VArr _ _ => 5 | VTup _ => 6 | VMut _ _ => 7 | VStruct _ => 8 | VVoid => 9
  end.

Definition tkind (t : ty) : option nat :=
  match t with
  | TBool => Some 0 | TInt => Some 1 | TFloat => Some 2 | TString => Some 3
  | TFun _ _ => Some 4 | TArr _ => Some 5 | TTup _ => Some 6 | TMut _ => Some 7
  | TStruct _ => Some 8 | TVoid => Some 9
  | TAny | TNever | TMulti _ => None
  end.

(* a value is in a simple type only if the kinds agree *)
Lemma content_in_kind v t : simple t = true -> content_in v t = true -> tkind t = Some (kind v).
Proof.
  intros Hs H. destruct t; try discriminate Hs; destruct v; try discriminate H; reflexivity.
Qed.

(* ================================================================= *)
(* A.2  Value soundness of [matches]                                 *)
(* ================================================================= *)
Lemma all2_content_sound vs t1 t2 :
  (forall x y v, In x t1 -> In y t2 ->
     content_in v x = true -> matches x y = true -> content_in v y = true) ->
  all2 content_in vs t1 = true -> all2 matches t1 t2 = true -> all2 content_in vs t2 = true.
Proof.
  revert t1 t2. induction vs as [|v vs IHvs]; intros [|x t1] [|y t2] IH Hc Hm;
    cbn [all2] in *; try reflexivity; try discriminate.
  apply andb_true_iff in Hc. destruct Hc as [Hc1 Hc2].
  apply andb_true_iff in Hm. destruct Hm as [Hm1 Hm2].
  apply andb_true_iff. split.
  - apply (IH x y v); [left; reflexivity|left; reflexivity|exact Hc1|exact Hm1].
  - apply (IHvs t1 t2); [|exact Hc2|exact Hm2].
    intros x' y' v' Hx Hy. apply IH; right; assumption.
Qed.

Theorem content_sound : forall a b v,
  content_in v a = true -> matches a b = true -> content_in v b = true.
Proof.
  apply (ty_size_ind2 (fun a b => forall v,
    content_in v a = true -> matches a b = true -> content_in v b = true)).
  intros a b IH v Hva Hab.
  destruct (nm a) eqn:Na.
  2: { destruct a as [| | | | | | |p1 r1|e1|t1|m1|e1|f1]; try discriminate Na.
       - rewrite content_in_never in Hva. discriminate Hva.
       - rewrite content_in_multi in Hva. apply existsb_exists in Hva.
         destruct Hva as [m [Hm Hvm]].
         rewrite matches_multi_l in Hab. rewrite forallb_forall in Hab.
         apply (IH m b); [szs|exact Hvm|apply Hab; exact Hm]. }
  destruct (nm b) eqn:Nb.
  2: { destruct b as [| | | | | | |p2 r2|e2|t2|m2|e2|f2]; try discriminate Nb.
       - rewrite matches_nm_never in Hab by exact Na. discriminate Hab.
       - rewrite matches_multi_r_nm in Hab by exact Na.
         apply existsb_exists in Hab. destruct Hab as [m [Hm Ham]].
         rewrite content_in_multi. apply existsb_exists. exists m. split; [exact Hm|].
         apply (IH a m); [szs|exact Hva|exact Ham]. }
  destruct (simple b) eqn:Sb.
  2: { destruct b; try discriminate Sb; try discriminate Nb. apply content_in_any. }
  destruct (simple a) eqn:Sa.
  2: { destruct a; try discriminate Sa; try discriminate Na.
       rewrite matches_any_simple in Hab by exact Sb. discriminate Hab. }
  clear Na Nb.
  destruct a as [| | | | | | |p1 r1|e1|t1|m1|e1|f1]; try discriminate Sa;
  destruct b as [| | | | | | |p2 r2|e2|t2|m2|e2|f2]; try discriminate Sb;
  rewrite matches_unfold in Hab;
  try (rewrite ty_eqb_unfold in Hab; discriminate Hab);
  try exact Hva;
  destruct v as [bb|z|f|s|i ps r|et vs|vs|l ct|fs|]; try discriminate Hva.
  - (* TFun *)
    rewrite content_in_fun in *.
    apply (matches_trans _ _ _ Hva). rewrite matches_unfold. exact Hab.
  - (* TArr *)
    rewrite content_in_arr in *. rewrite forallb_forall in *.
    intros x Hx. apply (IH e1 e2); [szs|apply Hva; exact Hx|exact Hab].
  - (* TTup *)
    rewrite content_in_tup in *.
    apply (all2_content_sound vs t1 t2); [|exact Hva|exact Hab].
    intros x y v Hx Hy. apply IH. szs.
  - (* TMut *)
    rewrite content_in_mut in *. rewrite ty_eqb_mut in Hab.
    apply (ty_eqb_trans _ _ _ Hva Hab).
  - (* TStruct *)
    rewrite content_in_struct in *. rewrite forallb_forall in *.
    intros kv2 H2. specialize (Hab kv2 H2).
    destruct (assoc (fst kv2) f1) as [u1|] eqn:E1; [|discriminate Hab].
    pose proof (assoc_in _ _ _ E1) as In1.
    specialize (Hva _ In1). cbn [fst snd] in Hva.
    destruct (assoc (fst kv2) fs) as [x|]; [|discriminate Hva].
    apply (IH u1 (snd kv2)); [szs|exact Hva|exact Hab].
Qed.

(* A.3 *)
Theorem has_type_sound : forall v a b,
  has_type v a = true -> matches a b = true -> has_type v b = true.
Proof.
  intros v a b Hva Hab. unfold has_type in *.
  apply andb_true_iff in Hva. destruct Hva as [Hm Hc].
  apply andb_true_iff. split.
  - apply (matches_trans _ _ _ Hm Hab).
  - apply (content_sound _ _ _ Hc Hab).
Qed.

(* for a well-formed value the runtime tag decides membership: the contents follow *)
Theorem has_type_wf v t : wf_val v = true -> has_type v t = matches (as_type v) t.
Proof.
  intros W. unfold has_type. destruct (matches (as_type v) t) eqn:E; [|reflexivity].
  cbn [andb]. apply (content_sound _ _ _ W E).
Qed.

(* content membership respects Rust equality of types *)
Lemma content_in_eqb v a b : ty_eqb a b = true -> content_in v a = content_in v b.
Proof.
  intros E.
  destruct (content_in v a) eqn:Ea, (content_in v b) eqn:Eb; try reflexivity.
  - rewrite (content_sound a b v Ea (ty_eqb_matches _ _ E)) in Eb. discriminate Eb.
  - rewrite ty_eqb_sym in E.
    rewrite (content_sound b a v Eb (ty_eqb_matches _ _ E)) in Ea. discriminate Ea.
Qed.

(* ================================================================= *)
(* A.4  top, bottom, unions                                          *)
(* ================================================================= *)
Lemma has_type_any_all v : has_type v TAny = true.
Proof. unfold has_type. rewrite matches_any_r, content_in_any. reflexivity. Qed.

Lemma has_type_any v : wf_val v = true -> has_type v TAny = true.
Proof. intros _. apply has_type_any_all. Qed.

Lemma has_type_never v : has_type v TNever = false.
Proof. unfold has_type. rewrite content_in_never. apply andb_false_r. Qed.

Lemma has_type_union_l_keys v a b :
  keys_ok a = true -> has_type v a = true -> has_type v (concat a b) = true.
Proof. intros Ka H. apply (has_type_sound v a _ H). apply concat_upper_l_keys. exact Ka. Qed.

Lemma has_type_union_r_keys v a b :
  keys_ok b = true -> has_type v b = true -> has_type v (concat a b) = true.
Proof. intros Kb H. apply (has_type_sound v b _ H). apply concat_upper_r_keys. exact Kb. Qed.

Lemma has_type_union_l v a b :
  wf_ty a = true -> has_type v a = true -> has_type v (concat a b) = true.
Proof. intros W. apply has_type_union_l_keys. apply wf_keys_ok. exact W. Qed.

Lemma has_type_union_r v a b :
  wf_ty b = true -> has_type v b = true -> has_type v (concat a b) = true.
Proof. intros W. apply has_type_union_r_keys. apply wf_keys_ok. exact W. Qed.

(* ---- the union bounds need no hypothesis on values: a direct argument ---- *)
Section ConcatPred.
  Variable P : ty -> bool.
  Hypothesis P_multi : forall ms, P (TMulti ms) = existsb P ms.
  Hypothesis P_any : P TAny = true.
  Hypothesis P_never : P TNever = false.
  Hypothesis P_eqb : forall x y, ty_eqb x y = true -> P x = true -> P y = true.

  Lemma P_in_multi m ms : In m ms -> P m = true -> P (TMulti ms) = true.
  Proof. intros Hin H. rewrite P_multi. apply existsb_exists. exists m. split; assumption. Qed.

  Lemma P_multi_app_l m1 l : P (TMulti m1) = true -> P (TMulti (m1 ++ l)) = true.
  Proof.
    rewrite !P_multi, existsb_app. intros H. rewrite H. reflexivity.
  Qed.

  Lemma P_mem x ms : mem_ty x ms = true -> P x = true -> P (TMulti ms) = true.
  Proof.
    intros Hm Hx. apply mem_ty_true in Hm. destruct Hm as [y [Hy Hxy]].
    apply (P_in_multi y ms Hy). apply (P_eqb x y Hxy Hx).
  Qed.

  Lemma concat_pred_l a b : P a = true -> P (concat a b) = true.
  Proof.
    intros Ha.
    destruct (concat_view a b) as [Ea|Eb|Hab|He|m1 m2 Ea Eb|m1 Ea Sb|m2 Sa Eb|Sa Sb He].
    - subst a. rewrite P_never in Ha. discriminate Ha.
    - exact Ha.
    - exact P_any.
    - exact Ha.
    - subst a b. apply P_multi_app_l. exact Ha.
    - subst a. destruct (mem_ty b m1); [exact Ha|]. apply P_multi_app_l. exact Ha.
    - subst b. destruct (mem_ty a m2) eqn:Em.
      + apply (P_mem a m2 Em Ha).
      + apply (P_in_multi a); [apply in_or_app; right; left; reflexivity|exact Ha].
    - apply (P_in_multi a); [left; reflexivity|exact Ha].
  Qed.

  Lemma concat_pred_r a b : P b = true -> P (concat a b) = true.
  Proof.
    intros Hb.
    destruct (concat_view a b) as [Ea|Eb|Hab|He|m1 m2 Ea Eb|m1 Ea Sb|m2 Sa Eb|Sa Sb He].
    - exact Hb.
    - subst b. rewrite P_never in Hb. discriminate Hb.
    - exact P_any.
    - rewrite ty_eqb_sym in He. apply (P_eqb b a He Hb).
    - subst a b. rewrite P_multi in Hb. apply existsb_exists in Hb. destruct Hb as [m [Hm HPm]].
      destruct (mem_ty m m1) eqn:Em.
      + apply mem_ty_true in Em. destruct Em as [y [Hy Hmy]].
        apply (P_in_multi y); [apply in_or_app; left; exact Hy|]. apply (P_eqb m y Hmy HPm).
      + apply (P_in_multi m); [|exact HPm].
        apply in_or_app. right. apply filter_In. split; [exact Hm|]. rewrite Em. reflexivity.
    - subst a. destruct (mem_ty b m1) eqn:Em.
      + apply (P_mem b m1 Em Hb).
      + apply (P_in_multi b); [apply in_or_app; right; left; reflexivity|exact Hb].
    - subst b. destruct (mem_ty a m2); [exact Hb|]. apply P_multi_app_l. exact Hb.
    - apply (P_in_multi b); [right; left; reflexivity|exact Hb].
  Qed.

  Lemma fold_concat_pred xs : forall acc x,
    x = acc \/ In x xs -> P x = true -> P (fold_left concat xs acc) = true.
  Proof.
    induction xs as [|y xs IH]; intros acc x Hx HP; cbn [fold_left].
    - destruct Hx as [->|[]]. exact HP.
    - destruct Hx as [->|[->|Hx]].
      + apply (IH (concat acc y) (concat acc y)); [left; reflexivity|]. apply concat_pred_l. exact HP.
      + apply (IH (concat acc x) (concat acc x)); [left; reflexivity|]. apply concat_pred_r. exact HP.
      + apply (IH (concat acc y) x); [right; exact Hx|exact HP].
  Qed.
End ConcatPred.

Lemma as_type_nm v : nm (as_type v) = true.
Proof. destruct v; reflexivity. Qed.

Lemma has_type_union_l_all v a b : has_type v a = true -> has_type v (concat a b) = true.
Proof.
  unfold has_type. intros H. apply andb_true_iff in H. destruct H as [H1 H2].
  apply andb_true_iff. split.
  - apply (concat_pred_l (matches (as_type v))); [| | | |exact H1].
    + intros ms. apply matches_multi_r_nm. apply as_type_nm.
    + apply matches_any_r.
    + apply matches_nm_never. apply as_type_nm.
    + intros x y E Hx. rewrite <- (matches_eqb_r _ x y E). exact Hx.
  - apply (concat_pred_l (content_in v)); [| | | |exact H2].
    + apply content_in_multi.
    + apply content_in_any.
    + apply content_in_never.
    + intros x y E Hx. rewrite <- (content_in_eqb v x y E). exact Hx.
Qed.

Lemma has_type_union_r_all v a b : has_type v b = true -> has_type v (concat a b) = true.
Proof.
  unfold has_type. intros H. apply andb_true_iff in H. destruct H as [H1 H2].
  apply andb_true_iff. split.
  - apply (concat_pred_r (matches (as_type v))); [| | | |exact H1].
    + intros ms. apply matches_multi_r_nm. apply as_type_nm.
    + apply matches_any_r.
    + apply matches_nm_never. apply as_type_nm.
    + intros x y E Hx. rewrite <- (matches_eqb_r _ x y E). exact Hx.
  - apply (concat_pred_r (content_in v)); [| | | |exact H2].
    + apply content_in_multi.
    + apply content_in_any.
    + apply content_in_never.
    + intros x y E Hx. rewrite <- (content_in_eqb v x y E). exact Hx.
Qed.

(* membership in a union written out is membership in one of its members *)
Lemma has_type_multi_intro v m ms :
  In m ms -> has_type v m = true -> has_type v (TMulti ms) = true.
Proof.
  intros Hin H. unfold has_type in *. apply andb_true_iff in H. destruct H as [H1 H2].
  apply andb_true_iff. split.
  - apply (matches_in_multi _ m ms Hin H1).
  - rewrite content_in_multi. apply existsb_exists. exists m. split; assumption.
Qed.

(* a well-formed value has its own tag as a type *)
Lemma wf_val_has_type_keys v :
  keys_ok (as_type v) = true -> wf_val v = true -> has_type v (as_type v) = true.
Proof.
  intros K W. unfold has_type. rewrite (matches_refl_keys _ K). exact W.
Qed.

(* ================================================================= *)
(* A.5  Array::from builds well-formed arrays                        *)
(* ================================================================= *)
Lemma fold_concat_keys xs acc :
  keys_ok acc = true -> (forall x, In x xs -> keys_ok x = true) ->
  keys_ok (fold_left concat xs acc) = true.
Proof.
  revert acc. induction xs as [|x xs IH]; intros acc Kacc Kxs; cbn [fold_left]; [exact Kacc|].
  apply IH.
  - apply concat_keys_ok; [exact Kacc|]. apply Kxs. left. reflexivity.
  - intros y Hy. apply Kxs. right. exact Hy.
Qed.

Lemma concat_all_upper_keys l x :
  (forall y, In y l -> keys_ok y = true) -> In x l ->
  matches x (match concat_all l with Some t => t | None => TNever end) = true.
Proof.
  intros K Hx. destruct l as [|x0 rest]; [destruct Hx|]. cbn [concat_all].
  assert (KT : keys_ok (fold_left concat rest x0) = true).
  { apply fold_concat_keys; [apply K; left; reflexivity|].
    intros y Hy. apply K. right. exact Hy. }
  pose proof (matches_refl_keys _ KT) as HT.
  rewrite fold_concat_least in HT. apply andb_true_iff in HT. destruct HT as [H0 Hr].
  destruct Hx as [<-|Hx]; [exact H0|].
  rewrite forallb_forall in Hr. apply Hr. exact Hx.
Qed.

Lemma concat_all_upper l x :
  (forall y, In y l -> wf_ty y = true) -> In x l ->
  matches x (match concat_all l with Some t => t | None => TNever end) = true.
Proof.
  intros W. apply concat_all_upper_keys. intros y Hy. apply wf_keys_ok. apply W. exact Hy.
Qed.

Lemma wf_val_arr_of_keys vs :
  forallb wf_val vs = true ->
  forallb (fun x => keys_ok (as_type x)) vs = true ->
  wf_val (arr_of vs) = true.
Proof.
  intros W K. unfold wf_val, arr_of. cbn [as_type]. rewrite content_in_arr.
  rewrite forallb_forall in *. intros x Hx.
  apply (content_sound (as_type x)); [apply W; exact Hx|].
  apply concat_all_upper_keys.
  - intros y Hy. apply in_map_iff in Hy. destruct Hy as [z [<- Hz]]. apply K. exact Hz.
  - apply in_map. exact Hx.
Qed.

(* in fact no hypothesis on the element types is needed *)
Lemma wf_val_arr_of_all vs : forallb wf_val vs = true -> wf_val (arr_of vs) = true.
Proof.
  intros W. unfold wf_val, arr_of. cbn [as_type]. rewrite content_in_arr.
  rewrite forallb_forall in *. intros x Hx.
  destruct vs as [|x0 rest]; [destruct Hx|]. cbn [map concat_all].
  apply (fold_concat_pred (content_in x)) with (x := as_type x).
  - apply content_in_multi.
  - apply content_in_any.
  - apply content_in_never.
  - intros a b E Ha. rewrite <- (content_in_eqb x a b E). exact Ha.
  - destruct Hx as [->|Hx]; [left; reflexivity|right; apply in_map; exact Hx].
  - apply W. exact Hx.
Qed.

Lemma wf_val_arr_of vs :
  forallb wf_val vs = true ->
  forallb (fun x => wf_ty (as_type x)) vs = true ->
  wf_val (arr_of vs) = true.
Proof.
  intros W K. apply wf_val_arr_of_keys; [exact W|].
  rewrite forallb_forall in *. intros x Hx. apply wf_keys_ok. apply K. exact Hx.
Qed.

(* every element of a built array has the array's element type *)
Lemma arr_of_elem_has_type vs x :
  forallb wf_val vs = true ->
  forallb (fun x => keys_ok (as_type x)) vs = true ->
  In x vs ->
  has_type x (match concat_all (map as_type vs) with Some t => t | None => TNever end) = true.
Proof.
  intros W K Hx. rewrite forallb_forall in *.
  apply (has_type_sound x (as_type x)).
  - apply wf_val_has_type_keys; [apply K|apply W]; exact Hx.
  - apply concat_all_upper_keys.
    + intros y Hy. apply in_map_iff in Hy. destruct Hy as [z [<- Hz]]. apply K. exact Hz.
    + apply in_map. exact Hx.
Qed.

Lemma arr_of_type_wf vs :
  forallb (fun x => wf_ty (as_type x)) vs = true -> wf_ty (as_type (arr_of vs)) = true.
Proof.
  intros K. unfold arr_of. cbn [as_type wf_ty]. apply concat_all_wf.
  rewrite forallb_forall in K.
  intros y Hy. apply in_map_iff in Hy. destruct Hy as [z [<- Hz]]. apply K. exact Hz.
Qed.

(* ================================================================= *)
(* A.6  default values inhabit their type                            *)
(* ================================================================= *)
Fixpoint of_types (ts : list ty) : option (list value) :=
  match ts with
  | [] => Some []
  | t :: ts => match of_type t, of_types ts with
               | Some v, Some vs => Some (v :: vs) | _, _ => None end
  end.

Fixpoint of_fields (fs : list (ident * ty)) : option (list (ident * value)) :=
  match fs with
  | [] => Some []
  | (k, t) :: fs => match of_type t, of_fields fs with
                    | Some v, Some vs => Some ((k, v) :: vs) | _, _ => None end
  end.

Lemma of_type_tup ts : of_type (TTup ts) = option_map VTup (of_types ts).
Proof.
  reflexivity.
Qed.

Lemma of_type_struct fs : of_type (TStruct fs) = option_map VStruct (of_fields fs).
Proof.
  reflexivity.
Qed.

Lemma has_type_tup vs ts :
  has_type (VTup vs) (TTup ts) = all2 matches (map as_type vs) ts && all2 content_in vs ts.
Proof. unfold has_type. cbn [as_type]. rewrite matches_tup, content_in_tup. reflexivity. Qed.

Lemma all2_has_type vs ts :
  all2 has_type vs ts = all2 matches (map as_type vs) ts && all2 content_in vs ts.
Proof.
  revert ts. induction vs as [|v vs IH]; intros [|t ts]; cbn [all2 map]; try reflexivity.
  rewrite IH. unfold has_type.
  destruct (matches (as_type v) t), (content_in v t),
    (all2 matches (map as_type vs) ts), (all2 content_in vs ts); reflexivity.
Qed.

Lemma has_type_tup_all2 vs ts : has_type (VTup vs) (TTup ts) = all2 has_type vs ts.
Proof. rewrite has_type_tup, all2_has_type. reflexivity. Qed.

Lemma assoc_map_as_type k (fs : list (ident * value)) :
  assoc k (map (fun kv => (fst kv, as_type (snd kv))) fs) = option_map as_type (assoc k fs).
Proof.
  induction fs as [|[k' x] fs IH]; cbn [map assoc fst snd]; [reflexivity|].
  destruct (ident_eqb k k'); [reflexivity|exact IH].
Qed.

(* struct membership: every field of the type is present with a member value *)
Lemma has_type_struct fs fts :
  has_type (VStruct fs) (TStruct fts) =
  forallb (fun kt => match assoc (fst kt) fs with
                     | Some x => has_type x (snd kt) | None => false end) fts.
Proof.
  unfold has_type. cbn [as_type]. rewrite matches_struct, content_in_struct.
  induction fts as [|kt fts IH]; cbn [forallb]; [reflexivity|].
  rewrite <- IH. rewrite assoc_map_as_type.
  destruct (assoc (fst kt) fs) as [x|]; cbn [option_map]; [|reflexivity].
  destruct (matches (as_type x) (snd kt)), (content_in x (snd kt)); cbn [andb];
    try reflexivity; try (rewrite andb_false_r; reflexivity).
Qed.

Lemma of_fields_assoc fs vfs :
  of_fields fs = Some vfs -> nodup_keys fs = true ->
  forall k t, In (k, t) fs -> exists x, assoc k vfs = Some x /\ of_type t = Some x.
Proof.
  revert vfs. induction fs as [|[k0 t0] fs IH]; intros vfs Hof Hnd k t Hin; [destruct Hin|].
  cbn [of_fields] in Hof.
  destruct (of_type t0) as [v0|] eqn:E0; [|discriminate Hof].
  destruct (of_fields fs) as [vs|] eqn:Es; [|discriminate Hof].
  injection Hof as <-.
  cbn [nodup_keys] in Hnd. apply andb_true_iff in Hnd. destruct Hnd as [Hn1 Hn2].
  destruct Hin as [Heq|Hin].
  - injection Heq as <- <-. exists v0. cbn [assoc]. rewrite ident_eqb_refl. split; [reflexivity|exact E0].
  - cbn [assoc]. destruct (ident_eqb k k0) eqn:Ek.
    + exfalso. apply ident_eqb_eq in Ek. subst k0. apply negb_true_iff in Hn1.
      assert (Hex : existsb (fun kv : ident * ty => ident_eqb k (fst kv)) fs = true).
      { apply existsb_exists. exists (k, t). split; [exact Hin|]. cbn [fst]. apply ident_eqb_refl. }
      rewrite Hex in Hn1. discriminate Hn1.
    + apply (IH vs eq_refl Hn2 k t Hin).
Qed.

Lemma of_types_all2 ts vs :
  of_types ts = Some vs ->
  (forall t v, In t ts -> of_type t = Some v -> has_type v t = true) ->
  all2 has_type vs ts = true.
Proof.
  revert vs. induction ts as [|t ts IH]; intros vs Hof H; cbn [of_types] in Hof.
  - injection Hof as <-. reflexivity.
  - destruct (of_type t) as [v|] eqn:E; [|discriminate Hof].
    destruct (of_types ts) as [vs'|] eqn:Es; [|discriminate Hof].
    injection Hof as <-. cbn [all2]. apply andb_true_iff. split.
    + apply H; [left; reflexivity|exact E].
    + apply IH; [reflexivity|]. intros t' v' Ht'. apply H. right. exact Ht'.
Qed.

Theorem of_type_has_type_keys : forall t v,
  keys_ok t = true -> of_type t = Some v -> has_type v t = true.
Proof.
  induction t as [t IH] using ty_size_ind. intros v K Hof.
  destruct t as [| | | | | | |ps r|e|ts|ms|e|fs].
  - injection Hof as <-. reflexivity.
  - injection Hof as <-. reflexivity.
  - injection Hof as <-. reflexivity.
  - injection Hof as <-. reflexivity.
  - injection Hof as <-. reflexivity.
  - injection Hof as <-. reflexivity.
  - discriminate Hof.
  - cbn [of_type] in Hof. destruct (of_type r) as [w|]; [|discriminate Hof].
    cbn [option_map] in Hof. injection Hof as <-. unfold has_type. cbn [as_type].
    rewrite content_in_fun. rewrite (matches_refl_keys _ K). reflexivity.
  - cbn [of_type] in Hof. injection Hof as <-. unfold has_type. cbn [as_type].
    rewrite content_in_arr. rewrite (matches_refl_keys _ K). reflexivity.
  - rewrite of_type_tup in Hof. destruct (of_types ts) as [vs|] eqn:E; [|discriminate Hof].
    cbn [option_map] in Hof. injection Hof as <-. rewrite has_type_tup_all2.
    apply (of_types_all2 ts vs E). intros t v Ht Hv.
    apply IH; [szs| |exact Hv]. apply (keys_tup_inv ts K t Ht).
  - cbn [of_type] in Hof. destruct ms as [|m ms]; [discriminate Hof|].
    apply (has_type_multi_intro v m); [left; reflexivity|].
    apply IH; [cbn [size sizes_with fold_right]; lia| |exact Hof].
    apply (keys_multi_inv _ K). left. reflexivity.
  - cbn [of_type] in Hof. destruct (of_type e) as [w|]; [|discriminate Hof].
    cbn [option_map] in Hof. injection Hof as <-. unfold has_type. cbn [as_type].
    rewrite content_in_mut, matches_mut. cbn [keys_ok] in K.
    rewrite (ty_eqb_refl_keys _ K). reflexivity.
  - rewrite of_type_struct in Hof. destruct (of_fields fs) as [vfs|] eqn:E; [|discriminate Hof].
    cbn [option_map] in Hof. injection Hof as <-. rewrite has_type_struct.
    cbn [keys_ok] in K. apply andb_true_iff in K. destruct K as [K1 K2].
    rewrite forallb_forall in K2. apply forallb_forall. intros [k t] Hkt. cbn [fst snd].
    destruct (of_fields_assoc fs vfs E K1 k t Hkt) as [x [Hx1 Hx2]]. rewrite Hx1.
    apply IH; [szs| |exact Hx2]. apply (K2 (k, t) Hkt).
Qed.

Theorem of_type_has_type : forall t v,
  wf_ty t = true -> of_type t = Some v -> has_type v t = true.
Proof. intros t v W. apply of_type_has_type_keys. apply wf_keys_ok. exact W. Qed.

(* ================================================================= *)
(* B.  Equality by content                                           *)
(* ================================================================= *)

(* all struct values inside have pairwise distinct keys *)
Fixpoint vkeys_ok (v : value) : bool :=
  match v with
  | VArr _ vs | VTup vs => forallb vkeys_ok vs
  | VStruct fs => nodup_keys fs && forallb (fun kv => vkeys_ok (snd kv)) fs
  | _ => true
  end.

(* no NaN occurs in the value *)
Fixpoint nan_free (v : value) : bool :=
  match v with
  | VFloat f => negb (f_is_nan f)
  | VArr _ vs | VTup vs => forallb nan_free vs
  | VStruct fs => forallb (fun kv => nan_free (snd kv)) fs
  | _ => true
  end.

(* ---------- IEEE equality ---------- *)
Lemma feq_sym x y : feq x y = feq y x.
Proof.
  unfold feq, fcmp, b64_compare.
  rewrite (Bcompare_swap _ _ (f_of_bits y) (f_of_bits x)).
  destruct (Bcompare 53 1024 (f_of_bits y) (f_of_bits x)) as [[| |]|]; reflexivity.
Qed.

Lemma Bcompare_refl (x : binary64) : is_nan 53 1024 x = false -> b64_compare x x = Some Eq.
Proof.
  intros Hn. unfold b64_compare.
  destruct x as [s|s|s pl Hpl|s m e Hb].
  - reflexivity.
  - destruct s; reflexivity.
  - discriminate Hn.
  - rewrite Bcompare_correct by reflexivity. f_equal. apply Raux.Rcompare_Eq. reflexivity.
Qed.

Lemma feq_refl f : f_is_nan f = false -> feq f f = true.
Proof.
  unfold f_is_nan, feq, fcmp. intros Hn. rewrite (Bcompare_refl _ Hn). reflexivity.
Qed.

Lemma feq_nan_l f g : f_is_nan f = true -> feq f g = false.
Proof.
  unfold f_is_nan, feq, fcmp, b64_compare. intros Hn.
  destruct (f_of_bits f); try discriminate Hn. reflexivity.
Qed.

Lemma feq_nan_r f g : f_is_nan g = true -> feq f g = false.
Proof. intros Hn. rewrite feq_sym. apply feq_nan_l. exact Hn. Qed.

Lemma feq_nan f : f_is_nan f = true -> feq f f = false.
Proof. apply feq_nan_l. Qed.

Lemma Bcompare_eq_trans (x y z : binary64) :
  b64_compare x y = Some Eq -> b64_compare y z = Some Eq -> b64_compare x z = Some Eq.
Proof.
  unfold b64_compare.
  destruct (Binary.is_finite 53 1024 x) eqn:Fx, (Binary.is_finite 53 1024 y) eqn:Fy,
           (Binary.is_finite 53 1024 z) eqn:Fz.
  - rewrite !Binary.Bcompare_correct by assumption.
    intros H1 H2. injection H1 as H1. injection H2 as H2.
    apply Raux.Rcompare_Eq_inv in H1. apply Raux.Rcompare_Eq_inv in H2.
    f_equal. apply Raux.Rcompare_Eq. congruence.
  - destruct y as [s|s|s pl Hpl|s m e Hb], z as [s'|s'|s' pl' Hpl'|s' m' e' Hb'];
      try discriminate; intros _; cbn; try discriminate; destruct s, s'; discriminate.
  - destruct x as [s|s|s pl Hpl|s m e Hb], y as [s'|s'|s' pl' Hpl'|s' m' e' Hb'];
      try discriminate; cbn; try discriminate; destruct s, s'; discriminate.
  - destruct x as [s|s|s pl Hpl|s m e Hb], y as [s'|s'|s' pl' Hpl'|s' m' e' Hb'];
      try discriminate; cbn; try discriminate; destruct s, s'; discriminate.
  - destruct x as [s|s|s pl Hpl|s m e Hb], y as [s'|s'|s' pl' Hpl'|s' m' e' Hb'];
      try discriminate; cbn; try discriminate; destruct s, s'; discriminate.
  - destruct x as [s|s|s pl Hpl|s m e Hb], y as [s'|s'|s' pl' Hpl'|s' m' e' Hb'];
      try discriminate; cbn; try discriminate; destruct s, s'; discriminate.
  - destruct y as [s|s|s pl Hpl|s m e Hb], z as [s'|s'|s' pl' Hpl'|s' m' e' Hb'];
      try discriminate; intros _; cbn; try discriminate; destruct s, s'; discriminate.
  - destruct x as [s|s|s pl Hpl|s m e Hb], y as [s'|s'|s' pl' Hpl'|s' m' e' Hb'],
             z as [s''|s''|s'' pl'' Hpl''|s'' m'' e'' Hb''];
      try discriminate; cbn; try discriminate; destruct s, s', s''; try discriminate; reflexivity.
Qed.

Lemma feq_trans x y z : feq x y = true -> feq y z = true -> feq x z = true.
Proof.
  unfold feq, fcmp. intros H1 H2.
  destruct (b64_compare (f_of_bits x) (f_of_bits y)) as [[| |]|] eqn:E1; try discriminate H1.
  destruct (b64_compare (f_of_bits y) (f_of_bits z)) as [[| |]|] eqn:E2; try discriminate H2.
  rewrite (Bcompare_eq_trans _ _ _ E1 E2). reflexivity.
Qed.

(* reflexive exactly away from NaN *)
Lemma feq_refl_iff f : feq f f = negb (f_is_nan f).
Proof.
  destruct (f_is_nan f) eqn:E; cbn [negb]; [apply feq_nan|apply feq_refl]; exact E.
Qed.

(* ---------- B.11  unfolding equations of val_eqb ---------- *)
Lemma val_eqb_arr t1 l1 t2 l2 : val_eqb (VArr t1 l1) (VArr t2 l2) = all2 val_eqb l1 l2.
Proof.
  revert l2. induction l1 as [|x l1 IH]; intros [|y l2]; try reflexivity.
  cbn [all2]. rewrite <- IH. reflexivity.
Qed.

Lemma val_eqb_tup l1 l2 : val_eqb (VTup l1) (VTup l2) = all2 val_eqb l1 l2.
Proof.
  revert l2. induction l1 as [|x l1 IH]; intros [|y l2]; try reflexivity.
  cbn [all2]. rewrite <- IH. reflexivity.
Qed.

Lemma val_eqb_struct f1 f2 :
  val_eqb (VStruct f1) (VStruct f2) =
  Nat.eqb (length f1) (length f2) &&
  forallb (fun kv => match assoc (fst kv) f2 with
                     | Some w => val_eqb (snd kv) w | None => false end) f1.
Proof. reflexivity. Qed.

Lemma val_eqb_bool x y : val_eqb (VBool x) (VBool y) = Bool.eqb x y.
Proof. reflexivity. Qed.
Lemma val_eqb_int x y : val_eqb (VInt x) (VInt y) = Z.eqb x y.
Proof. reflexivity. Qed.
Lemma val_eqb_float x y : val_eqb (VFloat x) (VFloat y) = feq x y.
Proof. reflexivity. Qed.
Lemma val_eqb_string x y : val_eqb (VString x) (VString y) = ident_eqb x y.
Proof. reflexivity. Qed.
Lemma val_eqb_fun i p r j p' r' : val_eqb (VFun i p r) (VFun j p' r') = Nat.eqb i j.
Proof. reflexivity. Qed.
Lemma val_eqb_mut i t j t' : val_eqb (VMut i t) (VMut j t') = Nat.eqb i j.
Proof. reflexivity. Qed.
Lemma val_eqb_void : val_eqb VVoid VVoid = true.
Proof. reflexivity. Qed.

Lemma val_eqb_bool_iff x y : val_eqb (VBool x) (VBool y) = true <-> x = y.
Proof. rewrite val_eqb_bool. apply Bool.eqb_true_iff. Qed.
Lemma val_eqb_int_iff x y : val_eqb (VInt x) (VInt y) = true <-> x = y.
Proof. rewrite val_eqb_int. apply Z.eqb_eq. Qed.
Lemma val_eqb_string_iff x y : val_eqb (VString x) (VString y) = true <-> x = y.
Proof. rewrite val_eqb_string. apply ident_eqb_eq. Qed.
Lemma val_eqb_fun_iff i p r j p' r' : val_eqb (VFun i p r) (VFun j p' r') = true <-> i = j.
Proof. rewrite val_eqb_fun. apply Nat.eqb_eq. Qed.
Lemma val_eqb_mut_iff i t j t' : val_eqb (VMut i t) (VMut j t') = true <-> i = j.
Proof. rewrite val_eqb_mut. apply Nat.eqb_eq. Qed.

Lemma val_eqb_float_zero : val_eqb (VFloat F_ZERO) (VFloat (fneg F_ZERO)) = true.
Proof. vm_compute. reflexivity. Qed.

Lemma val_eqb_nan f : f_is_nan f = true -> val_eqb (VFloat f) (VFloat f) = false.
Proof. intros H. rewrite val_eqb_float. apply feq_nan. exact H. Qed.

Lemma val_eqb_nan_any f g : f_is_nan f = true -> val_eqb (VFloat f) (VFloat g) = false.
Proof. intros H. rewrite val_eqb_float. apply feq_nan_l. exact H. Qed.

(* ---------- B.9  different kinds are unequal ---------- *)
Lemma val_eqb_kinds a b : kind a <> kind b -> val_eqb a b = false.
Proof.
  intros H. destruct a, b; cbn [kind] in H;
    try (exfalso; apply H; reflexivity); reflexivity.
Qed.

Lemma val_eqb_true_kind a b : val_eqb a b = true -> kind a = kind b.
Proof.
  intros H. destruct (Nat.eq_dec (kind a) (kind b)) as [E|E]; [exact E|].
  rewrite (val_eqb_kinds a b E) in H. discriminate H.
Qed.

(* ---------- B.10  the stored element type never matters ---------- *)
Lemma val_eqb_ignores_elem_type t1 t2 t1' t2' l l' :
  val_eqb (VArr t1 l) (VArr t2 l') = val_eqb (VArr t1' l) (VArr t2' l').
Proof. rewrite !val_eqb_arr. reflexivity. Qed.

Lemma derived_eq_refuted : exists a b, val_eqb a b = true /\ val_eqb_derived a b = false.
Proof. exists (VArr TFloat []), (VArr TNever []). split; vm_compute; reflexivity. Qed.

(* the old equality was finer: whatever it equated is equal by content *)
Lemma val_eqb_derived_arr t1 l1 t2 l2 :
  val_eqb_derived (VArr t1 l1) (VArr t2 l2) = ty_eqb t1 t2 && all2 val_eqb_derived l1 l2.
Proof.
  cbn [val_eqb_derived]. f_equal.
  revert l2. induction l1 as [|x l1 IH]; intros [|y l2]; try reflexivity.
  cbn [all2]. rewrite <- IH. reflexivity.
Qed.

Lemma val_eqb_derived_tup l1 l2 :
  val_eqb_derived (VTup l1) (VTup l2) = all2 val_eqb_derived l1 l2.
Proof.
  revert l2. induction l1 as [|x l1 IH]; intros [|y l2]; try reflexivity.
  cbn [all2]. rewrite <- IH. reflexivity.
Qed.

Lemma all2_Forall_impl {A} (f g : A -> A -> bool) l1 l2 :
  Forall (fun x => forall y, f x y = true -> g x y = true) l1 ->
  all2 f l1 l2 = true -> all2 g l1 l2 = true.
Proof.
  intros HF. revert l2. induction HF as [|x l1 Hx _ IH]; intros [|y l2] H; cbn [all2] in *;
    try reflexivity; try discriminate.
  apply andb_true_iff in H. destruct H as [H1 H2]. apply andb_true_iff. split.
  - apply Hx. exact H1.
  - apply IH. exact H2.
Qed.

Lemma val_eqb_derived_finer : forall a b, val_eqb_derived a b = true -> val_eqb a b = true.
Proof.
  induction a as [x|x|x|x|i ps r|et vs IH|vs IH|l t|fs IH|] using value_ind';
    intros b H; destruct b as [y|y|y|y|j ps' r'|et' vs'|vs'|l' t'|fs'|];
    try discriminate H; try exact H.
  - rewrite val_eqb_derived_arr in H. apply andb_true_iff in H. destruct H as [_ H].
    rewrite val_eqb_arr. apply (all2_Forall_impl _ _ _ _ IH H).
  - rewrite val_eqb_derived_tup in H. rewrite val_eqb_tup.
    apply (all2_Forall_impl _ _ _ _ IH H).
  - rewrite val_eqb_struct. cbn [val_eqb_derived] in H.
    apply andb_true_iff in H. destruct H as [H1 H2]. rewrite H1. cbn [andb].
    rewrite forallb_forall in *. rewrite Forall_forall in IH.
    intros kv Hkv. specialize (H2 kv Hkv). destruct (assoc (fst kv) fs') as [w|]; [|discriminate H2].
    apply (IH kv Hkv). exact H2.
Qed.

(* ---------- B.7  symmetry ---------- *)
Lemma nodup_keys_NoDup {V} (l : list (ident * V)) :
  nodup_keys l = true -> NoDup (map fst l).
Proof.
  induction l as [|[k v] l IH]; cbn [nodup_keys map fst]; intros H; [constructor|].
  apply andb_true_iff in H. destruct H as [H1 H2]. constructor; [|apply IH; exact H2].
  intros Hin. apply in_map_iff in Hin. destruct Hin as [[k' v'] [Hk Hin]]. cbn [fst] in Hk. subst k'.
  apply negb_true_iff in H1.
  assert (Hex : existsb (fun kv : ident * V => ident_eqb k (fst kv)) l = true).
  { apply existsb_exists. exists (k, v'). split; [exact Hin|]. cbn [fst]. apply ident_eqb_refl. }
  rewrite Hex in H1. discriminate H1.
Qed.

Lemma all2_sym_Forall (l1 l2 : list value) :
  Forall (fun x => forall y, vkeys_ok x = true -> vkeys_ok y = true ->
                             val_eqb x y = true -> val_eqb y x = true) l1 ->
  forallb vkeys_ok l1 = true -> forallb vkeys_ok l2 = true ->
  all2 val_eqb l1 l2 = true -> all2 val_eqb l2 l1 = true.
Proof.
  intros HF. revert l2. induction HF as [|x l1 Hx _ IH]; intros [|y l2] K1 K2 H;
    cbn [all2 forallb] in *; try reflexivity; try discriminate.
  apply andb_true_iff in K1. destruct K1 as [K1a K1b].
  apply andb_true_iff in K2. destruct K2 as [K2a K2b].
  apply andb_true_iff in H. destruct H as [H1 H2]. apply andb_true_iff. split.
  - apply Hx; assumption.
  - apply IH; assumption.
Qed.

Lemma val_eqb_sym_imp : forall a b,
  vkeys_ok a = true -> vkeys_ok b = true -> val_eqb a b = true -> val_eqb b a = true.
Proof.
  induction a as [x|x|x|x|i ps r|et vs IH|vs IH|l t|fs IH|] using value_ind';
    intros b Ka Kb H; destruct b as [y|y|y|y|j ps' r'|et' vs'|vs'|l' t'|fs'|];
    try discriminate H; try reflexivity.
  - rewrite val_eqb_bool in *. destruct x, y; try discriminate H; reflexivity.
  - rewrite val_eqb_int in *. rewrite Z.eqb_sym. exact H.
  - rewrite val_eqb_float in *. rewrite feq_sym. exact H.
  - rewrite val_eqb_string in *. rewrite ident_eqb_sym. exact H.
  - rewrite val_eqb_fun in *. rewrite Nat.eqb_sym. exact H.
  - rewrite val_eqb_arr in *. cbn [vkeys_ok] in Ka, Kb. apply (all2_sym_Forall vs vs' IH Ka Kb H).
  - rewrite val_eqb_tup in *. cbn [vkeys_ok] in Ka, Kb. apply (all2_sym_Forall vs vs' IH Ka Kb H).
  - rewrite val_eqb_mut in *. rewrite Nat.eqb_sym. exact H.
  - (* structs: pigeonhole on the key sets *)
    rewrite val_eqb_struct in *. cbn [vkeys_ok] in Ka, Kb.
    apply andb_true_iff in Ka. destruct Ka as [N1 K1].
    apply andb_true_iff in Kb. destruct Kb as [N2 K2].
    apply andb_true_iff in H. destruct H as [HL H].
    apply Nat.eqb_eq in HL.
    rewrite forallb_forall in H, K1, K2. rewrite Forall_forall in IH.
    apply andb_true_iff. split; [apply Nat.eqb_eq; symmetry; exact HL|].
    assert (Hincl : incl (map fst fs) (map fst fs')).
    { intros k Hk. apply in_map_iff in Hk. destruct Hk as [kv [<- Hkv]].
      specialize (H kv Hkv). destruct (assoc (fst kv) fs') as [w|] eqn:E; [|discriminate H].
      apply assoc_in in E. apply in_map_iff. exists (fst kv, w). split; [reflexivity|exact E]. }
    assert (Hincl' : incl (map fst fs') (map fst fs)).
    { apply (NoDup_length_incl (nodup_keys_NoDup fs N1)); [|exact Hincl].
      rewrite !map_length. lia. }
    apply forallb_forall. intros [k w] Hkw. cbn [fst snd].
    assert (Hk : In k (map fst fs)).
    { apply Hincl'. apply in_map_iff. exists (k, w). split; [reflexivity|exact Hkw]. }
    apply in_map_iff in Hk. destruct Hk as [[k' x] [Hkk Hkx]]. cbn [fst] in Hkk. subst k'.
    rewrite (in_assoc_nodup k x fs N1 Hkx).
    pose proof (H (k, x) Hkx) as Hx. cbn [fst snd] in Hx.
    rewrite (in_assoc_nodup k w fs' N2 Hkw) in Hx.
    apply (IH (k, x) Hkx w); [apply (K1 (k, x) Hkx)|apply (K2 (k, w) Hkw)|exact Hx].
Qed.

Theorem val_eqb_sym a b :
  vkeys_ok a = true -> vkeys_ok b = true -> val_eqb a b = val_eqb b a.
Proof.
  intros Ka Kb.
  destruct (val_eqb a b) eqn:E1, (val_eqb b a) eqn:E2; try reflexivity.
  - rewrite (val_eqb_sym_imp a b Ka Kb E1) in E2. discriminate E2.
  - rewrite (val_eqb_sym_imp b a Kb Ka E2) in E1. discriminate E1.
Qed.

(* struct-free values need no hypothesis *)
Fixpoint struct_free (v : value) : bool :=
  match v with
  | VArr _ vs | VTup vs => forallb struct_free vs
  | VStruct _ => false
  | _ => true
  end.

Lemma struct_free_vkeys_ok : forall v, struct_free v = true -> vkeys_ok v = true.
Proof.
  induction v as [x|x|x|x|i ps r|et vs IH|vs IH|l t|fs IH|] using value_ind';
    intros H; try reflexivity; try discriminate H; cbn [struct_free vkeys_ok] in *.
  - rewrite forallb_forall in *. rewrite Forall_forall in IH. intros x Hx. apply IH; [exact Hx|apply H; exact Hx].
  - rewrite forallb_forall in *. rewrite Forall_forall in IH. intros x Hx. apply IH; [exact Hx|apply H; exact Hx].
Qed.

Theorem val_eqb_sym_struct_free a b :
  struct_free a = true -> struct_free b = true -> val_eqb a b = val_eqb b a.
Proof. intros Ha Hb. apply val_eqb_sym; apply struct_free_vkeys_ok; assumption. Qed.

(* ---------- B.8  reflexivity away from NaN ---------- *)
Theorem val_eqb_refl : forall v,
  nan_free v = true -> vkeys_ok v = true -> val_eqb v v = true.
Proof.
  induction v as [x|x|x|x|i ps r|et vs IH|vs IH|l t|fs IH|] using value_ind';
    intros Hn Hk; try reflexivity.
  - rewrite val_eqb_bool. destruct x; reflexivity.
  - rewrite val_eqb_int. apply Z.eqb_refl.
  - rewrite val_eqb_float. cbn [nan_free] in Hn. apply negb_true_iff in Hn. apply feq_refl. exact Hn.
  - rewrite val_eqb_string. apply ident_eqb_refl.
  - rewrite val_eqb_fun. apply Nat.eqb_refl.
  - rewrite val_eqb_arr. cbn [nan_free vkeys_ok] in *. rewrite forallb_forall in *.
    rewrite Forall_forall in IH. apply all2_refl_in. intros x Hx.
    apply IH; [exact Hx|apply Hn; exact Hx|apply Hk; exact Hx].
  - rewrite val_eqb_tup. cbn [nan_free vkeys_ok] in *. rewrite forallb_forall in *.
    rewrite Forall_forall in IH. apply all2_refl_in. intros x Hx.
    apply IH; [exact Hx|apply Hn; exact Hx|apply Hk; exact Hx].
  - rewrite val_eqb_mut. apply Nat.eqb_refl.
  - rewrite val_eqb_struct. cbn [nan_free vkeys_ok] in *.
    apply andb_true_iff in Hk. destruct Hk as [N K].
    rewrite forallb_forall in *. rewrite Forall_forall in IH.
    rewrite Nat.eqb_refl. cbn [andb]. apply forallb_forall. intros [k x] Hkx. cbn [fst snd].
    rewrite (in_assoc_nodup k x fs N Hkx).
    apply (IH (k, x) Hkx); [apply (Hn (k, x) Hkx)|apply (K (k, x) Hkx)].
Qed.

(* the converse: whatever is equal to something contains no NaN *)
Theorem val_eqb_true_nan_free : forall a b, val_eqb a b = true -> nan_free a = true.
Proof.
  induction a as [x|x|x|x|i ps r|et vs IH|vs IH|l t|fs IH|] using value_ind';
    intros b H; destruct b as [y|y|y|y|j ps' r'|et' vs'|vs'|l' t'|fs'|];
    try discriminate H; try reflexivity.
  - rewrite val_eqb_float in H. cbn [nan_free]. destruct (f_is_nan x) eqn:E; [|reflexivity].
    rewrite (feq_nan_l x y E) in H. discriminate H.
  - rewrite val_eqb_arr in H. cbn [nan_free]. revert vs' H.
    induction IH as [|x l Hx _ IHl]; intros [|y l'] H; cbn [all2 forallb] in *;
      try reflexivity; try discriminate H.
    apply andb_true_iff in H. destruct H as [H1 H2].
    rewrite (Hx y H1). cbn [andb]. apply (IHl l' H2).
  - rewrite val_eqb_tup in H. cbn [nan_free]. revert vs' H.
    induction IH as [|x l Hx _ IHl]; intros [|y l'] H; cbn [all2 forallb] in *;
      try reflexivity; try discriminate H.
    apply andb_true_iff in H. destruct H as [H1 H2].
    rewrite (Hx y H1). cbn [andb]. apply (IHl l' H2).
  - rewrite val_eqb_struct in H. cbn [nan_free].
    apply andb_true_iff in H. destruct H as [_ H].
    rewrite forallb_forall in *. rewrite Forall_forall in IH. intros kv Hkv.
    specialize (H kv Hkv). destruct (assoc (fst kv) fs') as [w|]; [|discriminate H].
    apply (IH kv Hkv w H).
Qed.

Theorem val_eqb_refl_iff v :
  vkeys_ok v = true -> (val_eqb v v = true <-> nan_free v = true).
Proof.
  intros K. split.
  - apply val_eqb_true_nan_free.
  - intros N. apply val_eqb_refl; assumption.
Qed.

(* ---------- transitivity (no hypothesis) ---------- *)
Theorem val_eqb_trans : forall a b c,
  val_eqb a b = true -> val_eqb b c = true -> val_eqb a c = true.
Proof.
  induction a as [x|x|x|x|i ps r|et vs IH|vs IH|l t|fs IH|] using value_ind';
    intros b c H1 H2;
    destruct b as [y|y|y|y|j ps' r'|et' vs'|vs'|l' t'|fs'|]; try discriminate H1;
    destruct c as [z|z|z|z|k ps'' r''|et'' vs''|vs''|l'' t''|fs''|]; try discriminate H2;
    try reflexivity.
  - rewrite val_eqb_bool in *. apply Bool.eqb_prop in H1. subst y. exact H2.
  - rewrite val_eqb_int in *. apply Z.eqb_eq in H1. subst y. exact H2.
  - rewrite val_eqb_float in *. apply (feq_trans _ _ _ H1 H2).
  - rewrite val_eqb_string in *. apply ident_eqb_eq in H1. subst y. exact H2.
  - rewrite val_eqb_fun in *. apply Nat.eqb_eq in H1. subst j. exact H2.
  - rewrite val_eqb_arr in *. rewrite Forall_forall in IH.
    apply (all2_trans_in val_eqb val_eqb val_eqb vs vs' vs''); [|exact H1|exact H2].
    intros x y z Hx _ _. apply IH. exact Hx.
  - rewrite val_eqb_tup in *. rewrite Forall_forall in IH.
    apply (all2_trans_in val_eqb val_eqb val_eqb vs vs' vs''); [|exact H1|exact H2].
    intros x y z Hx _ _. apply IH. exact Hx.
  - rewrite val_eqb_mut in *. apply Nat.eqb_eq in H1. subst l'. exact H2.
  - rewrite val_eqb_struct in *.
    apply andb_true_iff in H1. destruct H1 as [L1 H1].
    apply andb_true_iff in H2. destruct H2 as [L2 H2].
    apply Nat.eqb_eq in L1. apply Nat.eqb_eq in L2.
    apply andb_true_iff. split; [apply Nat.eqb_eq; congruence|].
    rewrite forallb_forall in *. rewrite Forall_forall in IH. intros kv Hkv.
    specialize (H1 kv Hkv). destruct (assoc (fst kv) fs') as [w|] eqn:E1; [|discriminate H1].
    apply assoc_in in E1. specialize (H2 _ E1). cbn [fst snd] in H2.
    destruct (assoc (fst kv) fs'') as [u|]; [|discriminate H2].
    apply (IH kv Hkv w u H1 H2).
Qed.

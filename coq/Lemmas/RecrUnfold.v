(* RecrUnfold.v — unfolding equations of [recreate] (one per instruction form, with
   standalone copies of its local helpers), proved by reflexivity.  Same text as in
   Lemmas/SoundRec2.v, repeated here so that the C04 development (Lemmas/Recr*.v) depends on
   the model only (the helpers are convertible with those of SoundRec2). *)
From SSL.Model Require Import Base Ty Float Value Ops Seq Syntax Rt Recreate.

(* ================================================================= *)
(* standalone helpers and unfolding equations                         *)
(* ================================================================= *)
Section Defs.
Variable powf : fbits -> fbits -> fbits.
Variable rec : lenv -> instr -> R.

Definition rec_list_def : list instr -> lenv -> outcome (list instr * lenv) :=
  fix go (l : list instr) (e : lenv) : outcome (list instr * lenv) :=
    match l with
    | [] => Ok ([], e)
    | x :: l => obind (rec e x) (fun '(x', e) =>
                obind (go l e) (fun '(l', e) => Ok (x' :: l', e)))
    end.

Definition rec_opt_def (o : option instr) (e : lenv) : outcome (option instr * lenv) :=
  match o with
  | None => Ok (None, e)
  | Some x => obind (rec e x) (fun '(x', e) => Ok (Some x', e))
  end.

Definition rec_arm_def (a : arm) (e : lenv) : outcome (arm * lenv) :=
  match a with
  | ArmType n t b =>
      obind (rec (lenv_insert n (LOther t) (lenv_push e)) b) (fun '(b', _) =>
      Ok (ArmType n t b', e))
  | ArmValue vs b =>
      obind (rec_list_def vs e) (fun '(vs', e) =>
      obind (rec e b) (fun '(b', e) => Ok (ArmValue vs' b', e)))
  | ArmOther b => obind (rec e b) (fun '(b', e) => Ok (ArmOther b', e))
  end.

Definition rec_arms_def : list arm -> lenv -> outcome (list arm * lenv) :=
  fix go (l : list arm) (e : lenv) : outcome (list arm * lenv) :=
    match l with
    | [] => Ok ([], e)
    | a :: l =>
        obind (rec_arm_def a e) (fun '(a', e) =>
        obind (go l e) (fun '(l', e) => Ok (a' :: l', e)))
    end.

Definition rec_fields_def : list (name * instr) -> lenv -> outcome (list (name * instr) * lenv) :=
  fix go (l : list (name * instr)) (e : lenv) : outcome (list (name * instr) * lenv) :=
    match l with
    | [] => Ok ([], e)
    | (k, x) :: l => obind (rec e x) (fun '(x', e) =>
                     obind (go l e) (fun '(l', e) => Ok ((k, x') :: l', e)))
    end.

End Defs.

Section Unfold.
Variable powf : fbits -> fbits -> fbits.
Variable sc : scopes.
Notation RC n := (recreate powf n sc).

Lemma recreate_O e i : RC 0 e i = OutOfFuel.
Proof. reflexivity. Qed.

Lemma recreate_S_ILocal n e nm lv :
  RC (S n) e (ILocal nm lv) = obind (resolve_name sc e nm) (fun i' => Ok (i', e)).
Proof. reflexivity. Qed.
Lemma recreate_S_IVar n e v : RC (S n) e (IVar v) = Ok (IVar v, e).
Proof. reflexivity. Qed.
Lemma recreate_S_IBreak n e : RC (S n) e IBreak = Ok (IBreak, e).
Proof. reflexivity. Qed.
Lemma recreate_S_IContinue n e : RC (S n) e IContinue = Ok (IContinue, e).
Proof. reflexivity. Qed.

Lemma recreate_S_IAnonFn n e ps body ret :
  RC (S n) e (IAnonFn ps body ret) =
  obind (rec_list_def (RC n) body (lenv_push_fn (params_layer ps) None ret e)) (fun '(body', _) =>
  Ok (IAnonFn ps body' ret, e)).
Proof. reflexivity. Qed.

Lemma recreate_S_IFnDecl n e nm ps body ret :
  RC (S n) e (IFnDecl nm ps body ret) =
  obind (rec_list_def (RC n) body
           (lenv_push_fn (params_layer ps) (Some nm) ret (lenv_insert nm (LFunction ps ret) e)))
        (fun '(body', _) => Ok (IFnDecl nm ps body' ret, lenv_insert nm (LFunction ps ret) e)).
Proof. reflexivity. Qed.

Lemma recreate_S_IArray n e es et :
  RC (S n) e (IArray es et) =
  obind (rec_list_def (RC n) es e) (fun '(es', e) =>
  match all_vars es' with
  | Some vs => Ok (IVar (arr_of vs), e)
  | None => Ok (IArray es' et, e)
  end).
Proof. reflexivity. Qed.

Lemma recreate_S_ITuple n e es :
  RC (S n) e (ITuple es) =
  obind (rec_list_def (RC n) es e) (fun '(es', e) =>
  match all_vars es' with
  | Some vs => Ok (IVar (VTup vs), e)
  | None => Ok (ITuple es', e)
  end).
Proof. reflexivity. Qed.

Lemma recreate_S_IArrayRepeat n e v len :
  RC (S n) e (IArrayRepeat v len) =
  obind (RC n e v) (fun '(v', e) => obind (RC n e len) (fun '(len', e) =>
  obind (fold_repeat v' len') (fun r => Ok (r, e)))).
Proof. reflexivity. Qed.

Lemma recreate_S_IBlock n e body :
  RC (S n) e (IBlock body) =
  obind (rec_list_def (RC n) body (lenv_push e)) (fun '(body', _) => Ok (IBlock body', e)).
Proof. reflexivity. Qed.

Lemma recreate_S_IDestruct n e ids x :
  RC (S n) e (IDestruct ids x) =
  obind (RC n e x) (fun '(x', e) =>
  obind (destruct_insert ids x' e) (fun e => Ok (IDestruct ids x', e))).
Proof. reflexivity. Qed.

Lemma recreate_S_IFieldAccess n e x f :
  RC (S n) e (IFieldAccess x f) = obind (RC n e x) (fun '(x', e) => Ok (IFieldAccess x' f, e)).
Proof. reflexivity. Qed.

Lemma recreate_S_ITupleAccess n e x k :
  RC (S n) e (ITupleAccess x k) = obind (RC n e x) (fun '(x', e) => Ok (ITupleAccess x' k, e)).
Proof. reflexivity. Qed.

Lemma recreate_S_IIfElse n e c t f :
  RC (S n) e (IIfElse c t f) =
  obind (RC n e c) (fun '(c', e) =>
  match c' with
  | IVar (VBool true) => RC n e t
  | IVar (VBool false) => RC n e f
  | _ => obind (RC n e t) (fun '(t', e) => obind (RC n e f) (fun '(f', e) =>
         Ok (IIfElse c' t' f', e)))
  end).
Proof. reflexivity. Qed.

Lemma recreate_S_ILoop n e b :
  RC (S n) e (ILoop b) = obind (RC n e b) (fun '(b', e) => Ok (ILoop b', e)).
Proof. reflexivity. Qed.

Lemma recreate_S_IMatch n e x arms :
  RC (S n) e (IMatch x arms) =
  obind (RC n e x) (fun '(x', e) =>
  obind (rec_arms_def (RC n) arms e) (fun '(arms', e) => Ok (IMatch x' arms', e))).
Proof. reflexivity. Qed.

Lemma recreate_S_IMut n e t x :
  RC (S n) e (IMut t x) = obind (RC n e x) (fun '(x', e) => Ok (IMut t x', e)).
Proof. reflexivity. Qed.

Lemma recreate_S_ISet n e nm x :
  RC (S n) e (ISet nm x) =
  obind (RC n e x) (fun '(x', e) =>
  obind (lvar_of_instr x') (fun lv => Ok (ISet nm x', lenv_insert nm lv e))).
Proof. reflexivity. Qed.

Lemma recreate_S_ISetIfElse n e nm t x ifm els :
  RC (S n) e (ISetIfElse nm t x ifm els) =
  obind (RC n e x) (fun '(x', e) =>
  obind (RC n (lenv_insert nm (LOther t) (lenv_push e)) ifm) (fun '(ifm', _) =>
  obind (RC n e els) (fun '(els', e) => Ok (ISetIfElse nm t x' ifm' els', e)))).
Proof. reflexivity. Qed.

Lemma recreate_S_ISlicing n e l a b c :
  RC (S n) e (ISlicing l a b c) =
  obind (RC n e l) (fun '(l', e) => obind (rec_opt_def (RC n) a e) (fun '(a', e) =>
  obind (rec_opt_def (RC n) b e) (fun '(b', e) => obind (rec_opt_def (RC n) c e) (fun '(c', e) =>
  Ok (ISlicing l' a' b' c', e))))).
Proof. reflexivity. Qed.

Lemma recreate_S_IStruct n e fs :
  RC (S n) e (IStruct fs) =
  obind (rec_fields_def (RC n) fs e) (fun '(fs', e) => Ok (IStruct fs', e)).
Proof. reflexivity. Qed.

Lemma recreate_S_And n e l r :
  RC (S n) e (IBin And l r) =
  obind (RC n e l) (fun '(l', e) =>
  match l' with
  | IVar (VBool true) => RC n e r
  | IVar _ => Ok (IVar (VBool false), e)
  | _ => obind (RC n e r) (fun '(r', e) => Ok (IBin And l' r', e))
  end).
Proof. reflexivity. Qed.

Lemma recreate_S_Or n e l r :
  RC (S n) e (IBin Or l r) =
  obind (RC n e l) (fun '(l', e) =>
  match l' with
  | IVar (VBool true) => Ok (IVar (VBool true), e)
  | IVar _ => RC n e r
  | _ => obind (RC n e r) (fun '(r', e) => Ok (IBin Or l' r', e))
  end).
Proof. reflexivity. Qed.

Lemma recreate_S_IBin n e op l r : op <> And -> op <> Or ->
  RC (S n) e (IBin op l r) =
  obind (RC n e l) (fun '(l', e) => obind (RC n e r) (fun '(r', e) =>
  obind (fold_bin powf op l' r') (fun x => Ok (x, e)))).
Proof. intros HA HO. destruct op; try congruence; reflexivity. Qed.

Lemma recreate_S_IUn n e op x :
  RC (S n) e (IUn op x) =
  obind (RC n e x) (fun '(x', e) => obind (fold_un op x') (fun r => Ok (r, e))).
Proof. reflexivity. Qed.

Lemma recreate_S_IReduce n e a b c :
  RC (S n) e (IReduce a b c) =
  obind (RC n e a) (fun '(it', e) => obind (RC n e b) (fun '(init', e) =>
  obind (RC n e c) (fun '(f', e) => Ok (IReduce it' init' f', e)))).
Proof. reflexivity. Qed.

Lemma recreate_S_ITypeFilter n e x t :
  RC (S n) e (ITypeFilter x t) = obind (RC n e x) (fun '(x', e) => Ok (ITypeFilter x' t, e)).
Proof. reflexivity. Qed.

End Unfold.

Arguments recreate : simpl never.

Lemma lenv_get_push_fn n vars fn ret e :
  lenv_get n (lenv_push_fn vars fn ret e) =
  match assoc n vars with Some v => Some v | None => lenv_get n e end.
Proof. reflexivity. Qed.



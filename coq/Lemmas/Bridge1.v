(* Bridge1.v — from the checker to the typing judgement of layer 3.

   What Model/Check.v accepts and builds is derivable in [typed] (Lemmas/SoundTyping.v):
   [check_x_typed], [check_s_typed], [check_lines_typed], by induction on the checker's
   fuel, one rule of the judgement per construct of the checker.

   [cenv W0 e G]   the checker's LocalVariables e against the typing environment G: a
                   local that is a known constant is a good value ([vgood W0]); any other
                   local has in G exactly the type e records for it.
   [kof e]         the context the judgement needs, read off e: inside a loop?  result
                   type of the enclosing function?
   [bfrag] ..      the surface fragment: no iterator operator (`~ $] $+ $* $&& $|| $& $|
                   @ ? \ $`, `? T`), no `for` (its expansion calls the hidden `$iter`
                   variable at a declared type the judgement has no rule for), no module;
                   constants of the program text are scalar literals; a declared function
                   is not named like one of its parameters (the judgement asks for it;
                   the implementation does not need it). *)
From SSL.Model Require Import Base Ty Float Value Ops Seq Syntax Rt Recreate Exec Check.
From SSL.Lemmas Require Import TyLemmas ValueLemmas SeqLemmas ExecLemmas SoundLemmas CellLemmas
  SoundDefs SoundVals SoundTyping Sound3 Sound4 SoundRec2 CheckUnfold CheckBase CheckTotal
  RecreateTotal.
From SSL.Lemmas Require TyFuel TyEq TyMatches TyJoin TyQuery.
Import TyFuel TyEq TyMatches TyJoin TyQuery.

(* ================================================================= *)
(* 1. the surface fragment                                             *)
(* ================================================================= *)
Definition vlit (v : value) : bool :=
  match v with VBool _ | VInt _ | VFloat _ | VString _ | VVoid => true | _ => false end.

Definition is_assign (op : binop) : bool :=
  match op with
  | Assign => true
  | _ => match assign_base op with Some _ => true | None => false end
  end.
Definition binfix (op : binop) : bool := pure_op op || logic_op op || is_assign op.

Definition fname_ok (n : name) (ps : params) : bool :=
  negb (existsb (fun p => ident_eqb n (fst p)) ps).

Fixpoint bfrag (x : sx) : bool :=
  match x with
  | XIdent _ => true
  | XConst v => vlit v
  | XMut _ y | XPrefix _ y | XTupleAccess y _ | XFieldAccess y _ => bfrag y
  | XTuple es | XArray es => forallb bfrag es
  | XArrayRepeat a b | XAt a b => bfrag a && bfrag b
  | XInfix op a b => binfix op && bfrag a && bfrag b
  | XFunction _ _ body => forallb blfrag body
  | XStruct fs => forallb (fun kv => match kv with
                                     | (_, Some y) => bfrag y
                                     | (_, None) => true end) fs
  | XSlice y a b c =>
      bfrag y && match a with Some y => bfrag y | None => true end
              && match b with Some y => bfrag y | None => true end
              && match c with Some y => bfrag y | None => true end
  | XCall f args => bfrag f && forallb bfrag args
  | XMod _ | XReduce _ _ _ | XTypeFilter _ _ | XPostfix _ _ => false
  end
with bsfrag (s : sstm) : bool :=
  match s with
  | SExpr e => bfrag e
  | SBlock body => forallb blfrag body
  | SIfElse c t f => bfrag c && bsfrag t && match f with Some f => bsfrag f | None => true end
  | SSetIfElse _ _ e i els =>
      bfrag e && bsfrag i && match els with Some f => bsfrag f | None => true end
  | SMatch e arms => bfrag e && forallb bafrag arms
  | SRet r => match r with Some s => bsfrag s | None => true end
  | SLoop b => bsfrag b
  | SWhile c b | SWhileSet _ _ c b => bfrag c && bsfrag b
  | SFor _ _ _ => false
  | SBrk | SCont => true
  end
with blfrag (l : sline) : bool :=
  match l with
  | LFnDecl n ps _ body => fname_ok n ps && forallb blfrag body
  | LSet _ s | LDestruct _ s | LStm s => bsfrag s
  end
with bafrag (a : sarm) : bool :=
  match a with
  | AType _ _ b | AOther b => bsfrag b
  | AValue vs b => forallb bfrag vs && bsfrag b
  end.

(* ================================================================= *)
(* 2. environments and contexts                                        *)
(* ================================================================= *)
Definition kof (e : lenv) : kctx := mkK (lenv_in_loop e) (option_map snd (lenv_function e)).

Lemma lenv_function_insert n lv e : lenv_function (lenv_insert n lv e) = lenv_function e.
Proof. destruct e; reflexivity. Qed.
Lemma lenv_in_loop_insert n lv e : lenv_in_loop (lenv_insert n lv e) = lenv_in_loop e.
Proof. destruct e; reflexivity. Qed.
Lemma kof_insert n lv e : kof (lenv_insert n lv e) = kof e.
Proof. unfold kof. rewrite lenv_function_insert, lenv_in_loop_insert. reflexivity. Qed.
Lemma kof_push e : kof (lenv_push e) = kof e.
Proof. reflexivity. Qed.
Lemma lenv_function_set_loop b e : lenv_function (lenv_set_loop b e) = lenv_function e.
Proof. destruct e; reflexivity. Qed.
Lemma lenv_in_loop_set_loop b e : lenv_in_loop (lenv_set_loop b e) = b.
Proof. destruct e; reflexivity. Qed.
Lemma kof_set_loop b e : kof (lenv_set_loop b e) = mkK b (ret (kof e)).
Proof. unfold kof. rewrite lenv_function_set_loop, lenv_in_loop_set_loop. reflexivity. Qed.
Lemma kof_push_fn vars f r e : kof (lenv_push_fn vars f r e) = mkK false (Some r).
Proof. reflexivity. Qed.
Lemma kof_eta e : mkK (in_loop (kof e)) (ret (kof e)) = kof e.
Proof. reflexivity. Qed.

Section Bridge.
Context {FL : Policy}.
Hypothesis pol : forall W G nm ps body r, closure_ok W G nm ps body r.
Variable W0 : sty.

Definition cenv (e : lenv) (G : genv) : Prop :=
  genv_wf G /\
  forall n lv, lenv_get n e = Some lv ->
    match lv with
    | LVariable v => vgood W0 v
    | _ => assoc n G = Some (lvar_type lv)
    end.
Definition sgood (sc : scopes) : Prop := forall n v, scopes_get n sc = Some v -> vgood W0 v.

Lemma cenv_leq e1 e2 G : leq e1 e2 -> cenv e2 G -> cenv e1 G.
Proof. intros L [Wg H]. split; [exact Wg|]. intros n lv Hn. rewrite L in Hn. apply H, Hn. Qed.

Lemma cenv_insert n lv T e G :
  cenv e G -> wf_ty T = true ->
  match lv with LVariable v => vgood W0 v | _ => lvar_type lv = T end ->
  cenv (lenv_insert n lv e) ((n, T) :: G).
Proof.
  intros [Wg H] Wt Hl. split; [apply genv_wf_cons; assumption|].
  intros m lv0 Hm. rewrite lenv_get_insert in Hm. cbn [assoc].
  destruct (ident_eqb m n) eqn:E.
  - injection Hm as <-. destruct lv; try exact Hl; rewrite Hl; reflexivity.
  - apply H in Hm. exact Hm.
Qed.

Lemma cenv_push_fn nm ps r e G :
  cenv e G -> forallb wf_ty (map snd ps) = true ->
  cenv (lenv_push_fn (params_layer ps) nm r e) (closure_env None ps r ++ G).
Proof.
  intros [Wg H] Wp. split.
  - intros n T Hn. rewrite assoc_app in Hn.
    destruct (assoc n (closure_env None ps r)) as [t|] eqn:E.
    + injection Hn as <-. apply (closure_env_param_wf ps r n t Wp E).
    + apply (Wg n T Hn).
  - intros n lv Hn. cbn [lenv_push_fn lenv_get l_vars] in Hn. rewrite assoc_app.
    rewrite (params_layer_get ps r n) in Hn.
    destruct (assoc n (closure_env None ps r)) as [t|]; cbn [option_map] in Hn.
    + injection Hn as <-. reflexivity.
    + apply H, Hn.
Qed.

(* constants the checker may put in a tree are good; it never builds a local-variable
   node for a known constant *)
Definition cinv (i : instr) : Prop :=
  (forall v, i = IVar v -> vgood W0 v) /\ (forall n v, i <> ILocal n (LVariable v)).
Lemma cinv_nonleaf i : (forall v, i <> IVar v) -> (forall n lv, i <> ILocal n lv) -> cinv i.
Proof. intros H1 H2. split; [intros v E; exfalso; exact (H1 v E)|intros n v E; exact (H2 n _ E)]. Qed.

(* expressions are typed in every context (break / continue / return are statements) *)
Definition XR (G : genv) (i : instr) : Prop := exists T, (forall K, typed W0 G K i T) /\ cinv i.

Lemma vlit_vgood v : vlit v = true -> vgood W0 v.
Proof. destruct v; try discriminate; intros _; exact I. Qed.

Lemma matches_refl_wf T : wf_ty T = true -> matches T T = true.
Proof. apply matches_refl. Qed.

(* ---------- what the checker's tests give the rules ---------- *)
Lemma qres_some (q : ty -> option ty) T : q T <> None -> exists R, qres q T R.
Proof. destruct (q T) as [R|] eqn:E; [exists R; left; exact E|congruence]. Qed.

Lemma opassign_some aop bop L T2 :
  assign_base aop = Some bop -> wf_ty L = true -> can_be_used aop L T2 = Ok true ->
  exists R, mut_element_type_spec L = Some R.
Proof.
  intros Hb Wl Hc.
  destruct (assign_op_shape aop T2 (or_intror (ex_intro _ bop Hb))) as [cbu [rtf Hs]].
  rewrite Hs in Hc.
  assert (D : (exists ms, L = TMulti ms) \/ is_multi L = false).
  { destruct L; try (right; reflexivity). left. eauto. }
  destruct D as [[ms ->]|NM].
  - destruct (wf_multi_inv _ Wl) as [Len [Sm _]].
    destruct (mut_element_type_spec (TMulti ms)) as [R|] eqn:E; [eauto|exfalso].
    revert E. cbn [mut_element_type_spec]. apply fold_concat_map_some.
    + destruct ms; [cbn in Len; lia|discriminate].
    + intros m Hm. pose proof (assign_ok_multi_member ms T2 cbu rtf m Hc Hm) as Hcm.
      destruct (assign_ok_single_some _ _ _ _ Hcm) as [vt ->]. discriminate.
  - rewrite assign_ok_nonmulti in Hc by exact NM. apply (assign_ok_single_some _ _ _ _ Hc).
Qed.

Lemma ty_eqb_matches_refl T U : ty_eqb T U = true -> matches T U = true.
Proof. apply ty_eqb_matches. Qed.

(* ---------- statement lists: a chain that remembers which lines bind nothing ---------- *)
Inductive tchain : genv -> kctx -> list instr -> genv -> list ty -> Prop :=
| tc_nil G K : tchain G K [] G []
| tc_cons G K i T G1 is G' Ts :
    typed_line W0 G K i T G1 -> (Check.is_const i = true -> G1 = G) ->
    tchain G1 K is G' Ts -> tchain G K (i :: is) G' (T :: Ts).

Lemma tchain_list G K is G' Ts : tchain G K is G' Ts -> typed_list W0 G K is G' Ts.
Proof. induction 1; econstructor; eassumption. Qed.

Lemma tchain_filter G K is G' Ts :
  tchain G K is G' Ts ->
  exists Ts', typed_list W0 G K (filter (fun i => negb (Check.is_const i)) is) G' Ts'.
Proof.
  induction 1 as [G K|G K i T G1 is G' Ts Hl Hc _ [Ts' IH]]; [eexists; constructor|].
  cbn [filter]. destruct (Check.is_const i) eqn:E; cbn [negb].
  - rewrite (Hc eq_refl) in IH. eauto.
  - eexists. econstructor; eassumption.
Qed.

Lemma tchain_split G K l1 l2 G' Ts :
  tchain G K (l1 ++ l2) G' Ts ->
  exists G1 Ts1 Ts2, tchain G K l1 G1 Ts1 /\ tchain G1 K l2 G' Ts2.
Proof.
  revert G Ts. induction l1 as [|i l1 IH]; intros G Ts H; cbn [app] in H.
  - exists G, [], Ts. split; [constructor|exact H].
  - inversion H as [|? ? ? T G1 ? ? Ts0 Hl Hc Hr]; subst.
    destruct (IH _ _ Hr) as [G2 [Ts1 [Ts2 [A B]]]].
    exists G2, (T :: Ts1), Ts2. split; [econstructor; eassumption|exact B].
Qed.

Lemma typed_list_app G K l1 G1 Ts1 l2 G' Ts2 :
  typed_list W0 G K l1 G1 Ts1 -> typed_list W0 G1 K l2 G' Ts2 ->
  typed_list W0 G K (l1 ++ l2) G' (Ts1 ++ Ts2).
Proof.
  revert G Ts1. induction l1 as [|i l1 IH]; intros G Ts1 H1 H2.
  - inversion H1; subst. exact H2.
  - inversion H1 as [|? ? ? ? T G0 ? Ts0 Hl Hr]; subst. cbn [app].
    econstructor; [exact Hl|]. apply IH; assumption.
Qed.

Lemma tchain_drop G K is G' Ts :
  tchain G K is G' Ts -> exists Ts', typed_list W0 G K (drop_consts is) G' Ts'.
Proof.
  intros H. destruct is as [|x is] using rev_ind.
  - inversion H; subst. eexists. constructor.
  - clear IHis. rewrite drop_consts_snoc. destruct (tchain_split _ _ _ _ _ _ H) as [G1 [Ts1 [Ts2 [A B]]]].
    destruct (tchain_filter _ _ _ _ _ A) as [Ts1' A']. eexists.
    eapply typed_list_app; [exact A'|apply tchain_list, B].
Qed.

Lemma has_never_in l Ts :
  has_never l = Ok true -> Forall2 (fun x T => rt x = Ok T) l Ts -> In TNever Ts.
Proof.
  intros H F. induction F as [|x T l Ts Hx _ IH]; [discriminate H|].
  cbn [has_never] in H. rewrite Hx in H. cbn [obind] in H.
  destruct (ty_eqb T TNever) eqn:E.
  - left. apply CheckBase.ty_eqb_never, E.
  - right. apply IH, H.
Qed.

Lemma missing_return_false r l Ts G K G' :
  missing_return r l = Ok false -> typed_list W0 G K l G' Ts ->
  matches TVoid r = true \/ In TNever Ts.
Proof.
  intros H Hl. unfold missing_return in H. destruct (matches TVoid r); [left; reflexivity|right].
  apply obind_ok in H. destruct H as [h [Hh H]]. injection H as H.
  destruct h; [|discriminate H].
  apply (has_never_in l Ts Hh).
  exact (proj1 (proj2 (proj2 (proj2 (proj2 (proj2 (typed_rt_all W0)))))) G K l G' Ts Hl).
Qed.

(* ================================================================= *)
(* 3. one fuel step of the checker                                     *)
(* ================================================================= *)
Definition SXR (G : genv) (K : kctx) (i : instr) : Prop := exists T, typed W0 G K i T /\ cinv i.
Definition SR (e : lenv) (G : genv) (i : instr) (e1 : lenv) : Prop :=
  leq e1 e /\ kof e1 = kof e /\ SXR G (kof e) i.
Definition LR (e : lenv) (G : genv) (is : list instr) (e1 : lenv) : Prop :=
  exists G1 Ts, tchain G (kof e) is G1 Ts /\ cenv e1 G1 /\ kof e1 = kof e.

Lemma XR_SXR G K i : XR G i -> SXR G K i.
Proof. intros [T [H C]]. exists T. split; [apply H|exact C]. Qed.

Section BStep.
Variable red : reducers.
Variable cxf : scopes -> lenv -> sx -> outcome instr.
Variable csf : scopes -> lenv -> sstm -> C.
Variable clf : scopes -> lenv -> list sline -> outcome (list instr * lenv).
Variable sc : scopes.
Hypothesis Ssc : sgood sc.

Hypothesis IHx : forall e G x i, cenv e G -> wf_sx x = true -> bfrag x = true ->
  cxf sc e x = Ok i -> XR G i.
Hypothesis IHs : forall e G s i e1, cenv e G -> wf_sstm s = true -> bsfrag s = true ->
  csf sc e s = Ok (i, e1) -> SR e G i e1.
Hypothesis IHl : forall e G l is e1, cenv e G -> forallb wf_sline l = true ->
  forallb blfrag l = true -> clf sc e l = Ok (is, e1) -> LR e G is e1.

Ltac invb H a E := apply obind_ok in H; destruct H as [a [E H]].
Definition K0 : kctx := mkK false None.

Lemma cxl_typed e G es is :
  cenv e G -> forallb wf_sx es = true -> forallb bfrag es = true ->
  cxl_def (cxf sc e) es = Ok is -> exists Ts, forall K, typed_all W0 G K is Ts.
Proof.
  intros HE W F H. apply cxl_inv in H. induction H as [|y i es is Ey _ IH].
  - eexists. constructor.
  - cbn [forallb] in W, F. apply andb_true_iff in W. destruct W as [W1 W2].
    apply andb_true_iff in F. destruct F as [F1 F2].
    destruct (IHx e G y i HE W1 F1 Ey) as [T [Ht _]]. destruct (IH W2 F2) as [Ts Hts].
    exists (T :: Ts). intros K. econstructor; [apply Ht|apply Hts].
Qed.

Lemma rtl_typed G K is Ts : typed_all W0 G K is Ts -> rtl_def is = Ok Ts.
Proof. intros H. exact (proj1 (proj2 (typed_rt_all W0)) G K is Ts H). Qed.

Definition OT (G : genv) (oi : option instr) : Prop :=
  match oi with Some i => exists T, forall K, typed W0 G K i T | None => True end.

Lemma cxo_typed e G o oi :
  cenv e G -> match o with Some y => wf_sx y | None => true end = true ->
  match o with Some y => bfrag y | None => true end = true ->
  cxo_def (cxf sc e) o = Ok oi -> OT G oi.
Proof.
  intros HE W F H. destruct o as [y|]; cbn [cxo_def] in H.
  - invb H i Ei. injection H as <-. destruct (IHx e G y i HE W F Ei) as [T [Ht _]]. exists T. exact Ht.
  - injection H as <-. exact I.
Qed.

Lemma chk_int_typed G oi oa :
  OT G oi -> chk_int oi = Ok oa -> oa = true -> forall K, typed_opt W0 G K oi.
Proof.
  intros Ht H -> K. destruct oi as [i|]; [|constructor]. destruct Ht as [T Ht].
  cbn [chk_int] in H. rewrite (typed_rt _ _ _ _ _ (Ht K)) in H. cbn [obind] in H. injection H as H.
  econstructor; [apply Ht|apply ty_eqb_matches, H].
Qed.

Lemma cxf_typed e G fs fs' : forall acc,
  cenv e G ->
  forallb (fun kv : name * option sx => match kv with
             | (_, Some y) => wf_sx y | (_, None) => true end) fs = true ->
  forallb (fun kv : name * option sx => match kv with
             | (_, Some y) => bfrag y | (_, None) => true end) fs = true ->
  cxf_def (cxf sc e) fs = Ok fs' -> exists out, forall K, typed_fields W0 G K fs' acc out.
Proof.
  revert fs'. induction fs as [|[k o] l IH]; intros fs' acc HE W F H.
  - injection H as <-. eexists. constructor.
  - cbn [forallb] in W, F. apply andb_true_iff in W. destruct W as [W1 W2].
    apply andb_true_iff in F. destruct F as [F1 F2]. destruct o as [y|].
    + change (cxf_def (cxf sc e) ((k, Some y) :: l)) with
        (obind (cxf sc e y) (fun i => obind (cxf_def (cxf sc e) l) (fun r => Ok ((k, i) :: r)))) in H.
      invb H i Ei. invb H r Er. injection H as <-.
      destruct (IHx e G y i HE W1 F1 Ei) as [T [Ht _]].
      destruct (IH r (struct_ty_insert k T acc) HE W2 F2 Er) as [out Ho].
      exists out. intros K. econstructor; [apply Ht|apply Ho].
    + change (cxf_def (cxf sc e) ((k, None) :: l)) with
        (obind (cxf sc e (XIdent k)) (fun i => obind (cxf_def (cxf sc e) l) (fun r => Ok ((k, i) :: r)))) in H.
      invb H i Ei. invb H r Er. injection H as <-.
      destruct (IHx e G (XIdent k) i HE eq_refl eq_refl Ei) as [T [Ht _]].
      destruct (IH r (struct_ty_insert k T acc) HE W2 F2 Er) as [out Ho].
      exists out. intros K. econstructor; [apply Ht|apply Ho].
Qed.

Ltac sub_x H y yi yt Ht Ey :=
  invb H yi Ey;
  match goal with
  | HE : cenv ?e ?G, Wy : wf_sx y = true, Fy : bfrag y = true |- _ =>
      let Cv := fresh "Cv" in
      destruct (IHx e G y yi HE Wy Fy Ey) as [yt [Ht Cv]]
  end.
Ltac use_rt H Ht := rewrite (typed_rt _ _ _ _ _ (Ht K0)) in H; cbn [obind] in H.
Ltac done_nonleaf := apply cinv_nonleaf; discriminate.
(* finish: the result is typed in every context by rule [tac] *)
Ltac fin tac := eexists; split; [let K := fresh "K" in intros K; tac|done_nonleaf].

Lemma x_body_typed e G x i :
  cenv e G -> wf_sx x = true -> bfrag x = true ->
  x_body red cxf clf sc e x = Ok i -> XR G i.
Proof.
  intros HE Wx Fx H. pose proof HE as [Wg Hg].
  destruct x as [nm|v|t y|es|es|v len|ps rty body|fs|body|op y|op l r|it init f|y ix|y a b c|f args
                 |y k|y f|y t|op y];
    cbv beta iota zeta delta [x_body] in H; cbn [wf_sx bfrag] in Wx, Fx; try discriminate Fx.
  - (* XIdent *)
    destruct (lenv_get nm e) as [lv|] eqn:Gn.
    + pose proof (Hg nm lv Gn) as Hl. destruct lv; injection H as <-.
      * eexists. split; [intros K; apply T_Local; [reflexivity|exact Hl]|]. split; discriminate.
      * eexists. split; [intros K; apply T_Var, Hl|].
        split; [intros w E; injection E as <-; exact Hl|discriminate].
      * eexists. split; [intros K; apply T_Local; [reflexivity|exact Hl]|]. split; discriminate.
    + destruct (scopes_get nm sc) as [v|] eqn:Gs; [|discriminate H]. injection H as <-.
      pose proof (Ssc nm v Gs) as Hv.
      eexists. split; [intros K; apply T_Var, Hv|].
      split; [intros w E; injection E as <-; exact Hv|discriminate].
  - (* XConst *)
    injection H as <-. pose proof (vlit_vgood v Fx) as Hv.
    eexists. split; [intros K; apply T_Var, Hv|].
    split; [intros w E; injection E as <-; exact Hv|discriminate].
  - (* XMut *)
    andb_split Wx. destruct t as [t|]; sub_x H y yi yt Ht Ey; use_rt H Ht.
    + destruct (matches yt t) eqn:M; [|discriminate H]. injection H as <-.
      fin ltac:(eapply T_Mut; [exact Wx|apply Ht|exact M]).
    + injection H as <-. pose proof (typed_wf _ _ _ _ _ (Ht K0) Wg) as Wt.
      fin ltac:(eapply T_Mut; [exact Wt|apply Ht|apply matches_refl, Wt]).
  - (* XTuple *)
    invb H is Ei. injection H as <-. destruct (cxl_typed e G es is HE Wx Fx Ei) as [Ts Hts].
    fin ltac:(apply T_Tuple, Hts).
  - (* XArray *)
    invb H is Ei. destruct (cxl_typed e G es is HE Wx Fx Ei) as [Ts Hts].
    rewrite (rtl_typed _ _ _ _ (Hts K0)) in H. cbn [obind] in H. injection H as <-.
    pose proof (join_all_wf Ts (typed_all_wf _ _ _ _ _ (Hts K0) Wg)) as Wj.
    fin ltac:(eapply T_Array; [apply Hts|exact Wj|apply matches_refl, Wj]).
  - (* XArrayRepeat *)
    andb_split Wx. andb_split Fx. sub_x H v vi vt Hv Ev. sub_x H len li lty Hl El. use_rt H Hl.
    destruct (matches lty TInt) eqn:M; [|discriminate H]. injection H as <-.
    fin ltac:(eapply T_Repeat; [apply Hv|apply Hl|exact M]).
  - (* XFunction *)
    andb_split Wx. pose proof (wf_ret _ Wx1) as Wr.
    set (r := match rty with Some t => t | None => TVoid end) in *.
    invb H q Eq0. destruct q as [is e1]. invb H miss Em. destruct miss; [discriminate H|].
    injection H as <-.
    pose proof (wf_params_map ps Wx) as Wp.
    destruct (IHl _ _ body is e1 (cenv_push_fn None ps r e G HE Wp) Wx0 Fx Eq0) as [G1 [Ts [Hc _]]].
    rewrite kof_push_fn in Hc. destruct (tchain_drop _ _ _ _ _ Hc) as [Ts' Hl].
    fin ltac:(eapply T_AnonFn; [apply pol|apply wf_fun_ty; assumption|exact Hl|
                                apply (missing_return_false r _ Ts' _ _ _ Em Hl)]).
  - (* XStruct *)
    invb H fs' Ef. injection H as <-. destruct (cxf_typed e G fs fs' [] HE Wx Fx Ef) as [out Ho].
    fin ltac:(apply T_Struct, Ho).
  - (* XPrefix *)
    sub_x H y yi yt Ht Ey. use_rt H Ht. pose proof (typed_wf _ _ _ _ _ (Ht K0) Wg) as Wt. destruct op.
    + destruct (matches yt ACC_NOT) eqn:M; [|discriminate H]. injection H as <-.
      fin ltac:(apply T_Not; [apply Ht|exact M]).
    + destruct (matches yt ACC_NEG) eqn:M; [|discriminate H]. injection H as <-.
      fin ltac:(apply T_Neg; [apply Ht|exact M]).
    + destruct (is_mut yt) eqn:M; [|discriminate H]. injection H as <-.
      destruct (qres_some mut_element_type_spec yt (mut_guard_spec yt Wt M)) as [R HR].
      fin ltac:(eapply T_Deref; [apply Ht|exact HR]).
  - (* XInfix *)
    andb_split Wx. andb_split Fx. sub_x H l li Tl Hl El. sub_x H r ri Tr Hr Er.
    use_rt H Hl. use_rt H Hr. invb H ok Eok. destruct ok; [|discriminate H]. injection H as <-.
    pose proof (typed_wf _ _ _ _ _ (Hl K0) Wg) as Wl.
    unfold binfix in Fx. apply orb_true_iff in Fx. destruct Fx as [Fx|Fa].
    + apply orb_true_iff in Fx. destruct Fx as [Fp|Fl].
      * destruct (bin_rt_total op Tl Tr) as [R HR].
        fin ltac:(eapply T_BinPure; [exact Fp|apply Hl|apply Hr|exact Eok|exact HR]).
      * assert (Hb : matches Tl TBool = true /\ matches Tr TBool = true).
        { destruct op; try discriminate Fl; cbn [can_be_used] in Eok; injection Eok as Eok;
            apply andb_true_iff in Eok; destruct Eok as [A B]; split; apply ty_eqb_matches; assumption. }
        destruct Hb as [A B].
        fin ltac:(eapply T_Logic; [exact Fl|apply Hl|apply Hr|exact A|exact B]).
    + unfold is_assign in Fa. destruct (assign_base op) as [bop|] eqn:Eb.
      * destruct (opassign_some op bop Tl Tr Eb Wl Eok) as [R HR].
        fin ltac:(eapply T_OpAssign; [exact Eb|apply Hl|apply Hr|left; split; [exact Eok|exact HR]]).
      * destruct op; try discriminate Fa; try discriminate Eb.
        fin ltac:(eapply T_Assign; [apply Hl|apply Hr|left; exact Eok]).
  - (* XAt *)
    andb_split Wx. andb_split Fx. sub_x H y yi yt Hy Ey. sub_x H ix ii it Hi Ei.
    use_rt H Hy. use_rt H Hi. pose proof (typed_wf _ _ _ _ _ (Hy K0) Wg) as Wt.
    destruct (ty_eqb it TInt) eqn:TI; [|discriminate H]. cbn [negb] in H.
    destruct (ty_eqb yt TNever || negb (can_be_indexed yt)) eqn:Gd; [discriminate H|].
    injection H as <-.
    destruct (qres_some index_result yt (index_guard_repaired yt Wt Gd)) as [R HR].
    apply orb_false_iff in Gd. destruct Gd as [_ Gd].
    assert (Ci : can_be_indexed yt = true) by (destruct (can_be_indexed yt); [reflexivity|discriminate Gd]).
    fin ltac:(eapply T_At; [apply Hy|apply Hi|apply ty_eqb_matches, TI|exact Ci|exact HR]).
  - (* XSlice *)
    andb_split Wx. andb_split Fx. sub_x H y yi yt Hy Ey. use_rt H Hy.
    destruct (can_be_indexed yt) eqn:Ci; [|discriminate H]. cbn [negb] in H.
    invb H ai Ea. invb H bi Eb. invb H ci Ec.
    pose proof (cxo_typed e G a ai HE Wx2 Fx2 Ea) as Ta.
    pose proof (cxo_typed e G b bi HE Wx1 Fx1 Eb) as Tb.
    pose proof (cxo_typed e G c ci HE Wx0 Fx0 Ec) as Tc.
    assert (Gn : obind (chk_int ai) (fun oa => obind (chk_int bi) (fun ob => obind (chk_int ci) (fun oc =>
         if oa && ob && oc then Ok (ISlicing yi ai bi ci) else reject))) = Ok i -> XR G i).
    { intros Gn. invb Gn oa Eoa. invb Gn ob Eob. invb Gn oc Eoc.
      destruct (oa && ob && oc) eqn:A; [|discriminate Gn]. injection Gn as <-.
      apply andb_true_iff in A. destruct A as [A C0]. apply andb_true_iff in A. destruct A as [A B0].
      fin ltac:(eapply T_Slice; [apply Hy|exact Ci|eapply chk_int_typed; eassumption..]). }
    destruct ai, bi, ci; try (apply Gn; exact H). injection H as <-. exists yt. split; assumption.
  - (* XCall *)
    andb_split Wx. andb_split Fx. sub_x H f fi Tf Hf Ef.
    invb H ais Ea. destruct (cxl_typed e G args ais HE Wx0 Fx0 Ea) as [Ta Hta].
    rewrite (rtl_typed _ _ _ _ (Hta K0)) in H. cbn [obind] in H.
    pose proof (typed_wf _ _ _ _ _ (Hf K0) Wg) as Wf.
    pose proof (typed_rt _ _ _ _ _ (Hf K0)) as Rf.
    assert (Bld : call_ok Tf Ta = true -> fn_return_type Tf <> None ->
                  XR G (IBin FunctionCall fi (ITuple ais))).
    { intros Hc Hr. destruct (fn_return_type Tf) as [R|] eqn:ER; [|congruence].
      fin ltac:(eapply T_Call; [apply Hf|reflexivity|apply T_Tuple, Hta|left; split; [exact Hc|exact ER]]). }
    assert (Ggen : obind (rt fi) (fun ft =>
         if negb (is_function ft) then reject else
         match Ty.params ft with
         | None => reject
         | Some ps => if args_ok ps Ta then Ok (IBin FunctionCall fi (ITuple ais)) else reject
         end) = Ok i -> XR G i).
    { intros Gn. rewrite Rf in Gn. cbn [obind] in Gn.
      destruct (is_function Tf) eqn:IF; [|discriminate Gn]. cbn [negb] in Gn.
      destruct (Ty.params Tf) as [ps|] eqn:EP; [|discriminate Gn].
      destruct (args_ok ps Ta) eqn:AO; [|discriminate Gn]. injection Gn as <-.
      apply Bld; [apply (params_call_ok Tf ps Ta Wf EP AO)|apply fn_guard; assumption]. }
    destruct fi as [ps0 b0 r0| | | | | | | | | |nm0 lv0| | | | | | | | | | | |v0| |]; try (apply Ggen; exact H).
    + destruct lv0; apply Ggen; exact H.
    + destruct v0; apply Ggen; exact H.
  - (* XTupleAccess *)
    sub_x H y yi yt Hy Ey. use_rt H Hy. pose proof (typed_wf _ _ _ _ _ (Hy K0) Wg) as Wt.
    destruct (is_tuple yt) eqn:IT; [|discriminate H]. cbn [negb] in H.
    destruct (min_tuple_len yt) as [len|] eqn:ML; [|discriminate H].
    destruct (Nat.leb len k) eqn:Lk; [discriminate H|]. injection H as <-.
    apply Nat.leb_gt in Lk.
    destruct (qres_some (tuple_element_at k) yt (tuple_guard k len yt Wt IT ML Lk)) as [R HR].
    fin ltac:(eapply T_TupleAccess; [apply Hy|exact HR]).
  - (* XFieldAccess *)
    sub_x H y yi yt Hy Ey. use_rt H Hy. pose proof (typed_wf _ _ _ _ _ (Hy K0) Wg) as Wt.
    destruct (negb (is_struct yt)); [discriminate H|].
    destruct (has_field f yt) eqn:HF; [|discriminate H]. cbn [negb] in H. injection H as <-.
    destruct (qres_some (field_type f) yt (field_guard f yt Wt HF)) as [R HR].
    fin ltac:(eapply T_FieldAccess; [apply Hy|exact HR]).
Qed.

(* ---------- statements ---------- *)
Lemma SXR_void G K : SXR G K (IVar VVoid).
Proof.
  exists TVoid. split; [apply (T_Var W0 G K VVoid); exact I|].
  split; [intros v E; injection E as <-; exact I|discriminate].
Qed.

Lemma else_typed e G f i e1 :
  cenv e G -> match f with Some f => wf_sstm f | None => true end = true ->
  match f with Some f => bsfrag f | None => true end = true ->
  else_def (csf sc) e f = Ok (i, e1) -> SR e G i e1.
Proof.
  intros HE W F H. destruct f as [f|]; cbn [else_def] in H; [apply (IHs e G f); assumption|].
  injection H as <- <-. split; [apply leq_refl|]. split; [reflexivity|apply SXR_void].
Qed.

Definition AR (e : lenv) (G : genv) (arms' : list arm) (e1 : lenv) : Prop :=
  leq e1 e /\ kof e1 = kof e /\ exists Ts, typed_arms W0 G (kof e) arms' Ts.

Lemma arm_typed e G a a' e2 :
  cenv e G -> wf_sarm a = true -> bafrag a = true ->
  arm_def (cxf sc) (csf sc) e a = Ok (a', e2) ->
  leq e2 e /\ kof e2 = kof e /\
  forall l' Ts, typed_arms W0 G (kof e) l' Ts -> exists Ts', typed_arms W0 G (kof e) (a' :: l') Ts'.
Proof.
  intros HE Wa Fa Ea. destruct a as [nm t b|vs b|b]; cbn [arm_def wf_sarm bafrag] in *.
  - andb_split Wa. invb Ea q Eb. destruct q as [bi e4]. injection Ea as <- <-.
    assert (HE1 : cenv (lenv_insert nm (LOther t) (lenv_push e)) ((nm, t) :: G)).
    { apply cenv_insert; [apply (cenv_leq _ e), HE; apply leq_push|exact Wa|reflexivity]. }
    destruct (IHs _ _ b bi e4 HE1 Wa0 Fa Eb) as [_ [_ [Tb [Hb _]]]].
    rewrite kof_insert, kof_push in Hb.
    split; [apply leq_refl|]. split; [reflexivity|]. intros l' Ts Hts.
    eexists. eapply TA_type; eassumption.
  - andb_split Wa. andb_split Fa. invb Ea vis Ev. invb Ea q Eb. destruct q as [bi e4].
    injection Ea as <- <-.
    destruct (cxl_typed e G vs vis HE Wa Fa Ev) as [Tcs Hcs].
    destruct (IHs _ _ b bi e4 HE Wa0 Fa0 Eb) as [L1 [K1 [Tb [Hb _]]]].
    split; [exact L1|]. split; [exact K1|]. intros l' Ts Hts.
    eexists. eapply TA_value; [apply Hcs|exact Hb|exact Hts].
  - invb Ea q Eb. destruct q as [bi e4]. injection Ea as <- <-.
    destruct (IHs _ _ b bi e4 HE Wa Fa Eb) as [L1 [K1 [Tb [Hb _]]]].
    split; [exact L1|]. split; [exact K1|]. intros l' Ts Hts.
    eexists. eapply TA_other; eassumption.
Qed.

Lemma arms_typed arms : forall e G arms' e1,
  cenv e G -> forallb wf_sarm arms = true -> forallb bafrag arms = true ->
  arms_def (cxf sc) (csf sc) arms e = Ok (arms', e1) -> AR e G arms' e1.
Proof.
  induction arms as [|a l IH]; intros e G arms' e1 HE Wa Fa H.
  - injection H as <- <-. split; [apply leq_refl|]. split; [reflexivity|]. eexists. constructor.
  - cbn [forallb] in Wa, Fa. andb_split Wa. andb_split Fa.
    change (arms_def (cxf sc) (csf sc) (a :: l) e) with
      (obind (arm_def (cxf sc) (csf sc) e a) (fun '(a', e) =>
       obind (arms_def (cxf sc) (csf sc) l e) (fun '(l', e) => Ok (a' :: l', e)))) in H.
    invb H q Ea. destruct q as [a' e2]. invb H q El. destruct q as [l' e3]. injection H as <- <-.
    destruct (arm_typed e G a a' e2 HE Wa Fa Ea) as [L1 [K1 A]].
    destruct (IH e2 G l' e3 (cenv_leq _ _ _ L1 HE) Wa0 Fa0 El) as [L2 [K2 [Ts Hts]]].
    rewrite K1 in Hts. destruct (A l' Ts Hts) as [Ts' Hts'].
    split; [eapply leq_trans; eassumption|]. split; [congruence|]. eauto.
Qed.

Ltac finS tac := eexists; split; [tac|done_nonleaf].

Lemma s_body_typed e G s i e1 :
  cenv e G -> wf_sstm s = true -> bsfrag s = true ->
  s_body cxf csf clf sc e s = Ok (i, e1) -> SR e G i e1.
Proof.
  intros HE Ws Fs H. pose proof HE as [Wg Hg].
  destruct s as [x|body|c t f|nm t x ifm els|x arms|r|b|c b|nm t x b|nm x b| |];
    cbv beta iota zeta delta [s_body] in H; cbn [wf_sstm bsfrag] in Ws, Fs; try discriminate Fs.
  - (* SExpr *)
    invb H xi Ex. injection H as <- <-.
    split; [apply leq_refl|]. split; [reflexivity|apply XR_SXR, (IHx e G x xi HE Ws Fs Ex)].
  - (* SBlock *)
    invb H q Eq0. destruct q as [is e2]. injection H as <- <-.
    destruct (IHl _ G body is e2 (cenv_leq _ e _ (leq_push e) HE) Ws Fs Eq0) as [G1 [Ts [Hc _]]].
    rewrite kof_push in Hc. destruct (tchain_drop _ _ _ _ _ Hc) as [Ts' Hl].
    split; [apply leq_refl|]. split; [reflexivity|]. finS ltac:(eapply T_Block, Hl).
  - (* SIfElse *)
    andb_split Ws. andb_split Fs. sub_x H c ci ct Hc Ec. use_rt H Hc.
    destruct (ty_eqb ct TBool) eqn:TB; [|discriminate H]. cbn [negb] in H.
    invb H q Et. destruct q as [ti e2]. invb H q Ef. destruct q as [fi e3]. injection H as <- <-.
    destruct (IHs e G t ti e2 HE Ws1 Fs1 Et) as [L1 [K1 [Tt [Ht _]]]].
    destruct (else_typed e2 G f fi e3 (cenv_leq _ _ _ L1 HE) Ws0 Fs0 Ef) as [L2 [K2 [Tf [Hf _]]]].
    rewrite K1 in Hf.
    split; [eapply leq_trans; eassumption|]. split; [congruence|].
    finS ltac:(eapply T_If; [apply Hc|apply ty_eqb_matches, TB|exact Ht|exact Hf]).
  - (* SSetIfElse *)
    andb_split Ws. andb_split Fs. sub_x H x xi Tx Hx Ex.
    invb H q Em. destruct q as [mi e2]. invb H q Ee. destruct q as [ei e3]. injection H as <- <-.
    assert (HE1 : cenv (lenv_insert nm (LOther t) (lenv_push e)) ((nm, t) :: G)).
    { apply cenv_insert; [apply (cenv_leq _ e), HE; apply leq_push|exact Ws|reflexivity]. }
    destruct (IHs _ _ ifm mi e2 HE1 Ws1 Fs1 Em) as [_ [_ [Ta [Ha _]]]].
    rewrite kof_insert, kof_push in Ha.
    destruct (else_typed e G els ei e3 HE Ws0 Fs0 Ee) as [L2 [K2 [Tb [Hb _]]]].
    split; [exact L2|]. split; [exact K2|].
    finS ltac:(eapply T_SetIf; [exact Ws|apply Hx|exact Ha|exact Hb]).
  - (* SMatch *)
    andb_split Ws. andb_split Fs. sub_x H x xi Tx Hx Ex. use_rt H Hx.
    invb H q Ea. destruct q as [arms' e2].
    destruct (match_covers arms' Tx) eqn:Mc; [|discriminate H]. injection H as <- <-.
    destruct (arms_typed arms e G arms' e2 HE Ws0 Fs0 Ea) as [L1 [K1 [Ts Hts]]].
    split; [exact L1|]. split; [exact K1|].
    destruct arms' as [|a' arms'].
    { rewrite match_covers_nil in Mc by (apply (typed_wf _ _ _ _ _ (Hx K0) Wg)). discriminate Mc. }
    destruct Ts as [|Ta Ts]; [inversion Hts|].
    finS ltac:(eapply T_Match; [apply Hx|exact Hts|exact Mc]).
  - (* SRet *)
    destruct (lenv_function e) as [[fnm fret]|] eqn:Lf; [|discriminate H].
    invb H q Er. destruct q as [ri e2]. invb H t Et.
    destruct (matches t fret) eqn:M; [|discriminate H]. injection H as <- <-.
    destruct (else_typed e G r ri e2 HE Ws Fs Er) as [L1 [K1 [Tr [Hr _]]]].
    rewrite (typed_rt _ _ _ _ _ Hr) in Et. injection Et as <-.
    split; [exact L1|]. split; [exact K1|].
    finS ltac:(eapply T_Return; [exact Hr| |exact M]; unfold kof; rewrite Lf; reflexivity).
  - (* SLoop *)
    invb H q Eb. destruct q as [bi e2]. injection H as <- <-.
    destruct (IHs _ G b bi e2 (cenv_leq _ e _ (leq_set_loop true e) HE) Ws Fs Eb) as [L1 [K1 [Tb [Hb _]]]].
    rewrite kof_set_loop in Hb, K1.
    split; [|split].
    + eapply leq_trans; [apply leq_set_loop|]. eapply leq_trans; [exact L1|apply leq_set_loop].
    + rewrite kof_set_loop, K1. reflexivity.
    + finS ltac:(eapply T_Loop, Hb).
  - (* SWhile *)
    andb_split Ws. andb_split Fs. sub_x H c ci ct Hc Ec. use_rt H Hc.
    destruct (ty_eqb ct TBool) eqn:TB; [|discriminate H]. cbn [negb] in H.
    invb H q Eb. destruct q as [bi e2].
    destruct (IHs _ G b bi e2 (cenv_leq _ e _ (leq_set_loop true e) HE) Ws0 Fs0 Eb) as [L1 [K1 [Tb [Hb _]]]].
    rewrite kof_set_loop in Hb, K1.
    assert (L2 : leq (lenv_set_loop (lenv_in_loop e) e2) e).
    { eapply leq_trans; [apply leq_set_loop|]. eapply leq_trans; [exact L1|apply leq_set_loop]. }
    assert (K2 : kof (lenv_set_loop (lenv_in_loop e) e2) = kof e)
      by (rewrite kof_set_loop, K1; reflexivity).
    assert (Gen : SXR G (kof e) (ILoop (IIfElse ci bi IBreak))).
    { finS ltac:(eapply T_Loop, T_If; [apply Hc|apply ty_eqb_matches, TB|exact Hb|apply T_Break; reflexivity]). }
    assert (Lp : SXR G (kof e) (ILoop bi)) by (finS ltac:(eapply T_Loop, Hb)).
    destruct ci; try (injection H as <- <-; split; [exact L2|]; split; [exact K2|exact Gen]).
    destruct (val_eqb v (VBool true)); injection H as <- <-;
      (split; [exact L2|]; split; [exact K2|]); [exact Lp|apply SXR_void].
  - (* SWhileSet *)
    andb_split Ws. andb_split Fs.
    pose proof (cenv_leq _ e _ (leq_set_loop true e) HE) as HE1.
    invb H xi Ex. destruct (IHx _ G x xi HE1 Ws1 Fs Ex) as [Tx [Hx _]].
    invb H q Eb. destruct q as [bi e2]. injection H as <- <-.
    assert (HE2 : cenv (lenv_insert nm (LOther t) (lenv_push (lenv_set_loop true e))) ((nm, t) :: G)).
    { apply cenv_insert; [apply (cenv_leq _ (lenv_set_loop true e)), HE1; apply leq_push|exact Ws|reflexivity]. }
    destruct (IHs _ _ b bi e2 HE2 Ws0 Fs0 Eb) as [_ [_ [Tb [Hb _]]]].
    rewrite kof_insert, kof_push, kof_set_loop in Hb.
    split; [|split].
    + eapply leq_trans; apply leq_set_loop.
    + rewrite !kof_set_loop. reflexivity.
    + finS ltac:(eapply T_Loop, T_SetIf; [exact Ws|apply Hx|exact Hb|apply T_Break; reflexivity]).
  - (* SBrk *)
    destruct (lenv_in_loop e) eqn:Il; [|discriminate H]. injection H as <- <-.
    split; [apply leq_refl|]. split; [reflexivity|]. finS ltac:(apply T_Break; exact Il).
  - (* SCont *)
    destruct (lenv_in_loop e) eqn:Il; [|discriminate H]. injection H as <- <-.
    split; [apply leq_refl|]. split; [reflexivity|]. finS ltac:(apply T_Continue; exact Il).
Qed.

(* ---------- lines ---------- *)
Lemma typed_cinv G K i T : typed W0 G K i T -> cinv i.
Proof.
  intros H. split.
  - intros v ->. inversion H; assumption.
  - intros n v ->. inversion H.
    match goal with Hc : lvar_const (LVariable v) = false |- _ => discriminate Hc end.
Qed.

Definition lv_ok (lv : lvar) (T : ty) : Prop :=
  match lv with LVariable v => vgood W0 v | _ => lvar_type lv = T end.

Lemma lvar_of_instr_spec i T lv :
  rt i = Ok T -> cinv i -> lvar_of_instr i = Ok lv -> lv_ok lv T.
Proof.
  intros R [Cv Nl] H. destruct i; cbn [lvar_of_instr] in H;
    try (rewrite R in H; cbn [obind] in H; injection H as <-; reflexivity).
  - injection H as <-. cbn [rt] in R. injection R as <-. reflexivity.
  - injection H as ->. cbn [rt] in R. injection R as <-.
    destruct lv; try reflexivity. exfalso. exact (Nl n v eq_refl).
  - injection H as <-. apply Cv. reflexivity.
Qed.

Lemma zip_cenv {A} (f : A -> outcome lvar) xs ts :
  Forall2 (fun x t => wf_ty t = true /\ forall lv, f x = Ok lv -> lv_ok lv t) xs ts ->
  forall ids e G e2, cenv e G -> zip_insert f ids xs e = Ok e2 ->
  cenv e2 (bind_tys ids ts G) /\ kof e2 = kof e.
Proof.
  induction 1 as [|x t xs ts [Wt Hx] _ IH]; intros ids e G e2 HE H.
  - unfold zip_insert in H. destruct ids; injection H as <-; cbn [bind_tys]; split; auto.
  - destruct ids as [|n ids].
    + unfold zip_insert in H. injection H as <-. split; auto.
    + change (zip_insert f (n :: ids) (x :: xs) e) with
        (obind (f x) (fun lv => zip_insert f ids xs (lenv_insert n lv e))) in H.
      apply obind_ok in H. destruct H as [lv [El H]]. cbn [bind_tys].
      destruct (IH ids _ ((n, t) :: G) e2 (cenv_insert n lv t e G HE Wt (Hx lv El)) H) as [Ca Cb].
      split; [exact Ca|]. rewrite Cb. apply kof_insert.
Qed.

Lemma typed_all_Forall2 G K es Ts :
  typed_all W0 G K es Ts -> Forall2 (fun x T => typed W0 G K x T) es Ts.
Proof. induction 1; constructor; assumption. Qed.

Lemma typed_all_lv G K es Ts :
  typed_all W0 G K es Ts -> genv_wf G ->
  Forall2 (fun x t => wf_ty t = true /\ forall lv, lvar_of_instr x = Ok lv -> lv_ok lv t) es Ts.
Proof.
  intros Hall Wg. pose proof (typed_all_wf _ _ _ _ _ Hall Wg) as Wts.
  apply typed_all_Forall2 in Hall. induction Hall as [|x t es0 Ts0 Hx _ IH]; constructor.
  - cbn [forallb] in Wts. apply andb_true_iff in Wts. split; [apply Wts|].
    intros lv El. apply (lvar_of_instr_spec x t lv (typed_rt _ _ _ _ _ Hx) (typed_cinv _ _ _ _ Hx) El).
  - apply IH. cbn [forallb] in Wts. apply andb_true_iff in Wts. apply Wts.
Qed.

Lemma destruct_cenv G K ids i T ts e e2 :
  typed W0 G K i T -> genv_wf G -> flatten_tuple T = Some ts ->
  cenv e G -> destruct_insert ids i e = Ok e2 ->
  cenv e2 (bind_tys ids ts G) /\ kof e2 = kof e.
Proof.
  intros Ht Wg Hf HE H. pose proof (typed_rt _ _ _ _ _ Ht) as R.
  pose proof (typed_wf _ _ _ _ _ Ht Wg) as Wt.
  assert (Gen : obind (rt i) (fun t => match flatten_tuple t with
       | Some ts => zip_insert (fun t => Ok (LOther t)) ids ts e
       | None => zip_insert (fun t => Ok (LOther t)) ids (map (fun _ => TNever) ids) e end) = Ok e2 ->
       cenv e2 (bind_tys ids ts G) /\ kof e2 = kof e).
  { intros Gn. rewrite R in Gn. cbn [obind] in Gn. rewrite Hf in Gn.
    apply (zip_cenv (fun t => Ok (LOther t)) ts ts); [|exact HE|exact Gn].
    pose proof (flatten_tuple_wf T ts Wt Hf) as Wts. rewrite forallb_forall in Wts.
    clear - Wts. induction ts as [|t ts IH]; constructor.
    - split; [apply Wts; left; reflexivity|]. intros lv E. injection E as <-. reflexivity.
    - apply IH. intros x Hx. apply Wts. right. exact Hx. }
  destruct i; try (apply Gen; exact H).
  - (* ITuple *)
    cbn [destruct_insert] in H.
    inversion Ht; subst.
    match goal with Hall : typed_all W0 G K es ?Ts1 |- _ =>
      cbn [flatten_tuple] in Hf; injection Hf as <-;
      apply (zip_cenv lvar_of_instr es Ts1); [apply (typed_all_lv _ _ _ _ Hall Wg)|exact HE|exact H]
    end.
  - (* IVar *)
    destruct v; try (apply Gen; exact H). cbn [destruct_insert] in H.
    cbn [rt as_type] in R. injection R as <-. cbn [flatten_tuple] in Hf. injection Hf as <-.
    destruct (typed_cinv _ _ _ _ Ht) as [Cv _]. pose proof (Cv _ eq_refl) as Vg.
    rewrite vgood_tup in Vg.
    apply (zip_cenv (fun v => Ok (LVariable v)) vs (map as_type vs)); [|exact HE|exact H].
    clear - Vg. induction Vg as [|v vs Hv _ IH]; constructor; [|exact IH].
    split; [apply (vgood_wf_ty W0), Hv|]. intros lv E. injection E as <-. exact Hv.
Qed.

(* which rule a line was typed by, with the premise the top-level driver needs *)
Definition LK (ln : sline) (G : genv) (K : kctx) (i : instr) (T : ty) (G1 : genv) : Prop :=
  (typed W0 G K i T /\ G1 = G) \/
  (exists n xi, i = ISet n xi /\ typed W0 G K xi T /\ G1 = (n, T) :: G) \/
  (exists n ps b r, i = IFnDecl n ps b r /\ T = TFun (map snd ps) r /\ G1 = (n, T) :: G) \/
  (exists ids s xi, ln = LDestruct ids s /\ i = IDestruct ids xi).

Definition LnR (ln : sline) (e : lenv) (G : genv) (i : instr) (e1 : lenv) : Prop :=
  exists T G1, typed_line W0 G (kof e) i T G1 /\ (Check.is_const i = true -> G1 = G) /\
               cenv e1 G1 /\ kof e1 = kof e /\ LK ln G (kof e) i T G1.

Lemma line_body_typed e G ln i e1 :
  cenv e G -> wf_sline ln = true -> blfrag ln = true ->
  line_body csf clf sc e ln = Ok (i, e1) -> LnR ln e G i e1.
Proof.
  intros HE Wl Fl H. pose proof HE as [Wg Hg].
  destruct ln as [nm ps rty body|nm s|ids s|s]; cbv beta iota zeta delta [line_body] in H;
    cbn [wf_sline blfrag] in Wl, Fl.
  - (* LFnDecl *)
    andb_split Wl. andb_split Fl. pose proof (wf_ret _ Wl1) as Wr.
    set (r := match rty with Some t => t | None => TVoid end) in *.
    pose proof (wf_params_map ps Wl) as Wp.
    pose proof (wf_fun_ty ps r Wl Wr) as Wf.
    invb H q Eq0. destruct q as [is e2]. invb H miss Em. destruct miss; [discriminate H|].
    injection H as <- <-.
    assert (HE0 : cenv (lenv_insert nm (LFunction ps r) e) ((nm, TFun (map snd ps) r) :: G))
      by (apply cenv_insert; [exact HE|exact Wf|reflexivity]).
    destruct (IHl _ _ body is e2 (cenv_push_fn (Some nm) ps r _ _ HE0 Wp) Wl0 Fl0 Eq0) as [G1 [Ts [Hc _]]].
    rewrite kof_push_fn in Hc. destruct (tchain_drop _ _ _ _ _ Hc) as [Ts' Hl].
    assert (Eenv : closure_env None ps r ++ (nm, TFun (map snd ps) r) :: G =
                   closure_env (Some nm) ps r ++ G)
      by (rewrite closure_env_split, <- app_assoc; reflexivity).
    rewrite Eenv in Hl.
    exists (TFun (map snd ps) r), ((nm, TFun (map snd ps) r) :: G).
    split; [|split; [discriminate|split; [exact HE0|split; [apply kof_insert|]]]].
    2:{ right. right. left. exists nm, ps, (drop_consts is), r. repeat split. }
    eapply Ln_fndecl; [apply pol|exact Wf| |exact Hl|apply (missing_return_false r _ Ts' _ _ _ Em Hl)].
    unfold fname_ok in Fl. apply negb_true_iff in Fl. exact Fl.
  - (* LSet *)
    invb H q Es. destruct q as [xi e2]. invb H lv El. injection H as <- <-.
    destruct (IHs e G s xi e2 HE Wl Fl Es) as [L1 [K1 [T [Ht Cv]]]].
    pose proof (typed_wf _ _ _ _ _ Ht Wg) as Wt.
    exists T, ((nm, T) :: G). split; [apply Ln_set, Ht|]. split; [discriminate|]. split; [|split].
    + apply cenv_insert; [apply (cenv_leq _ _ _ L1 HE)|exact Wt|].
      apply (lvar_of_instr_spec xi T lv (typed_rt _ _ _ _ _ Ht) Cv El).
    + rewrite kof_insert. exact K1.
    + right. left. exists nm, xi. repeat split. exact Ht.
  - (* LDestruct *)
    invb H q Es. destruct q as [xi e2]. invb H t Et.
    destruct (IHs e G s xi e2 HE Wl Fl Es) as [L1 [K1 [T [Ht Cv]]]].
    rewrite (typed_rt _ _ _ _ _ Ht) in Et. injection Et as <-.
    destruct (is_tuple T) eqn:IT; [|discriminate H]. cbn [negb] in H.
    destruct (tuple_len T) as [len|] eqn:TL; [|discriminate H].
    destruct (Nat.eqb len (length ids)) eqn:EL; [|discriminate H]. cbn [negb] in H.
    invb H e3 Ed. injection H as <- <-. apply Nat.eqb_eq in EL.
    destruct (destruct_guard T len TL) as [ts [Hf Hlen]].
    destruct (destruct_cenv G (kof e) ids xi T ts e2 e3 Ht Wg Hf (cenv_leq _ _ _ L1 HE) Ed) as [A B].
    exists T, (bind_tys ids ts G).
    split; [|split; [discriminate|split; [exact A|split; [congruence|]]]].
    2:{ right. right. right. exists ids, s, xi. split; reflexivity. }
    eapply Ln_destruct; [exact Ht|left; split; [exact Hf|congruence]].
  - (* LStm *)
    destruct (IHs e G s i e1 HE Wl Fl H) as [L1 [K1 [T [Ht Cv]]]].
    exists T, G. split; [apply Ln_stm, Ht|]. split; [reflexivity|].
    split; [apply (cenv_leq _ _ _ L1 HE)|]. split; [exact K1|]. left. split; [exact Ht|reflexivity].
Qed.

Lemma l_body_typed e G l is e1 :
  cenv e G -> forallb wf_sline l = true -> forallb blfrag l = true ->
  l_body csf clf sc e l = Ok (is, e1) -> LR e G is e1.
Proof.
  intros HE Wl Fl H. destruct l as [|ln l]; cbn [l_body] in H.
  - injection H as <- <-. exists G, []. split; [constructor|]. split; [exact HE|reflexivity].
  - cbn [forallb] in Wl, Fl. andb_split Wl. andb_split Fl.
    invb H q Eq0. destruct q as [i e2]. invb H q El. destruct q as [is' e3]. injection H as <- <-.
    destruct (line_body_typed e G ln i e2 HE Wl Fl Eq0) as [T [G1 [Hl [Hc [HE1 [K1 _]]]]]].
    destruct (IHl e2 G1 l is' e3 HE1 Wl0 Fl0 El) as [G2 [Ts [Hch [HE2 K2]]]].
    rewrite K1 in Hch.
    exists G2, (T :: Ts). split; [econstructor; eassumption|]. split; [exact HE2|congruence].
Qed.

End BStep.

(* ================================================================= *)
(* 4. induction on the checker's fuel                                  *)
(* ================================================================= *)
Lemma bridge_all red n sc :
  sgood sc ->
  (forall e G x i, cenv e G -> wf_sx x = true -> bfrag x = true ->
     check_x red n sc e x = Ok i -> XR G i) /\
  (forall e G s i e1, cenv e G -> wf_sstm s = true -> bsfrag s = true ->
     check_s red n sc e s = Ok (i, e1) -> SR e G i e1) /\
  (forall e G l is e1, cenv e G -> forallb wf_sline l = true -> forallb blfrag l = true ->
     check_lines red n sc e l = Ok (is, e1) -> LR e G is e1).
Proof.
  intros Ssc. induction n as [|n [IHx [IHs IHl]]].
  - repeat split; intros; discriminate.
  - split; [|split].
    + intros e G x i HE Wx Fx H. rewrite check_x_S in H.
      apply (x_body_typed red (check_x red n) (check_lines red n) sc Ssc IHx IHl e G x i HE Wx Fx H).
    + intros e G s i e1 HE Ws Fs H. rewrite check_s_S in H.
      apply (s_body_typed (check_x red n) (check_s red n) (check_lines red n) sc IHx IHs IHl
               e G s i e1 HE Ws Fs H).
    + intros e G l is e1 HE Wl Fl H. rewrite check_lines_S in H.
      apply (l_body_typed (check_s red n) (check_lines red n) sc IHs IHl e G l is e1 HE Wl Fl H).
Qed.

(* an accepted expression is typed, in every context, at the type the checker computes *)
Theorem check_x_typed red fuel sc e G x i :
  sgood sc -> cenv e G -> wf_sx x = true -> bfrag x = true ->
  check_x red fuel sc e x = Ok i ->
  exists T, rt i = Ok T /\ forall K, typed W0 G K i T.
Proof.
  intros Ssc HE Wx Fx H.
  destruct (proj1 (bridge_all red fuel sc Ssc) e G x i HE Wx Fx H) as [T [Ht _]].
  exists T. split; [apply (typed_rt _ _ _ _ _ (Ht (mkK false None)))|exact Ht].
Qed.

(* an accepted statement is typed in the context of its environment *)
Theorem check_s_typed red fuel sc e G s i e1 :
  sgood sc -> cenv e G -> wf_sstm s = true -> bsfrag s = true ->
  check_s red fuel sc e s = Ok (i, e1) ->
  (exists T, rt i = Ok T /\ typed W0 G (kof e) i T) /\ cenv e1 G /\ kof e1 = kof e.
Proof.
  intros Ssc HE Ws Fs H.
  destruct (proj1 (proj2 (bridge_all red fuel sc Ssc)) e G s i e1 HE Ws Fs H) as [L1 [K1 [T [Ht _]]]].
  split; [exists T; split; [apply (typed_rt _ _ _ _ _ Ht)|exact Ht]|].
  split; [apply (cenv_leq _ _ _ L1 HE)|exact K1].
Qed.

(* an accepted statement list is a typed list; so is what remains of it in a block or a
   function body (constant statements other than the last are dropped) *)
Theorem check_lines_typed red fuel sc e G l is e1 :
  sgood sc -> cenv e G -> forallb wf_sline l = true -> forallb blfrag l = true ->
  check_lines red fuel sc e l = Ok (is, e1) ->
  exists G1 Ts, typed_list W0 G (kof e) is G1 Ts /\
                (exists Ts', typed_list W0 G (kof e) (drop_consts is) G1 Ts') /\
                cenv e1 G1 /\ kof e1 = kof e.
Proof.
  intros Ssc HE Wl Fl H.
  destruct (proj2 (proj2 (bridge_all red fuel sc Ssc)) e G l is e1 HE Wl Fl H) as [G1 [Ts [Hc [HE1 K1]]]].
  exists G1, Ts. split; [apply tchain_list, Hc|]. split; [apply (tchain_drop _ _ _ _ _ Hc)|].
  split; assumption.
Qed.

(* one line, as Code::parse checks it: the instruction, its rule, the environment after *)
Theorem check_line_typed red fuel sc e G ln is e1 :
  sgood sc -> cenv e G -> wf_sline ln = true -> blfrag ln = true ->
  check_lines red fuel sc e [ln] = Ok (is, e1) ->
  exists i T G1, is = [i] /\ typed_line W0 G (kof e) i T G1 /\ LK ln G (kof e) i T G1 /\ cenv e1 G1.
Proof.
  intros Ssc HE Wl Fl H. destruct fuel as [|f]; [discriminate H|].
  rewrite check_lines_S in H. cbn [l_body] in H.
  apply obind_ok in H. destruct H as [[i e2] [Eq0 H]].
  apply obind_ok in H. destruct H as [[is' e3] [El H]]. injection H as <- <-.
  destruct f as [|f]; [discriminate El|]. rewrite check_lines_S in El. cbn [l_body] in El.
  injection El as <- <-.
  destruct (bridge_all red (S f) sc Ssc) as [IHx [IHs IHl]].
  destruct (line_body_typed (check_s red (S f)) (check_lines red (S f)) sc IHs IHl e G ln i e2
              HE Wl Fl Eq0) as [T [G1 [Hl [_ [HE1 [_ Hk]]]]]].
  exists i, T, G1. split; [reflexivity|]. split; [exact Hl|]. split; [exact Hk|exact HE1].
Qed.

End Bridge.

(* Lemmas about Model/Seq.v *)
From SSL.Model Require Import Base Ty Float Value Seq.
From Coq Require Import ZArith Lia List.
Import ListNotations.
Local Open Scope Z_scope.

Lemma len_arr t vs : len_exec (VArr t vs) = Ok (Z.of_nat (length vs)).
Proof. reflexivity. Qed.
Lemma len_str s : len_exec (VString s) = Ok (Z.of_nat (length s)).
Proof. reflexivity. Qed.

(* ------------------------------------------------------------------ *)
(* generic list helpers                                                *)
(* ------------------------------------------------------------------ *)

Lemma nth_error_ext_eq {A} (l1 l2 : list A) :
  length l1 = length l2 ->
  (forall j, (j < length l1)%nat -> nth_error l1 j = nth_error l2 j) ->
  l1 = l2.
Proof.
  revert l2. induction l1 as [|x l1 IH]; intros [|y l2] Hlen Hnth;
    cbn [length] in *; try discriminate; [reflexivity|].
  f_equal.
  - specialize (Hnth O ltac:(lia)). cbn in Hnth. congruence.
  - apply IH; [lia|]. intros j Hj. apply (Hnth (S j)). lia.
Qed.

Lemma nth_error_lt_some {A} (l : list A) k :
  (k < length l)%nat -> exists x, nth_error l k = Some x.
Proof.
  intros Hk. destruct (nth_error l k) as [x|] eqn:E; [eauto|].
  apply nth_error_None in E. lia.
Qed.

(* ------------------------------------------------------------------ *)
(* 1. indexing                                                         *)
(* ------------------------------------------------------------------ *)

Lemma neg_index_mod n i : -n <= i < 0 -> i mod n = n + i.
Proof.
  intros H. symmetry. apply (Z.mod_unique i n (-1) (n + i)); lia.
Qed.

Lemma at_index_in n i :
  -n <= i < n -> at_index n i = Some (Z.to_nat (i mod n)).
Proof.
  intros H. unfold at_index.
  destruct (0 <=? i) eqn:E0.
  - apply Z.leb_le in E0.
    destruct (i <? n) eqn:E1; [|apply Z.ltb_ge in E1; lia].
    rewrite Z.mod_small by lia. reflexivity.
  - apply Z.leb_gt in E0.
    destruct (0 <=? n + i) eqn:E1; [|apply Z.leb_gt in E1; lia].
    rewrite neg_index_mod by lia. reflexivity.
Qed.

Lemma at_index_out n i :
  ~ (-n <= i < n) -> at_index n i = None.
Proof.
  intros H. unfold at_index.
  destruct (0 <=? i) eqn:E0.
  - apply Z.leb_le in E0.
    destruct (i <? n) eqn:E1; [apply Z.ltb_lt in E1; lia|reflexivity].
  - apply Z.leb_gt in E0.
    destruct (0 <=? n + i) eqn:E1; [apply Z.leb_le in E1; lia|reflexivity].
Qed.

Lemma index_mod_lt {A} (l : list A) i :
  - zlen l <= i < zlen l -> (Z.to_nat (i mod zlen l) < length l)%nat.
Proof.
  unfold zlen. intros H.
  assert (Hm : 0 <= i mod Z.of_nat (length l) < Z.of_nat (length l))
    by (apply Z.mod_pos_bound; lia).
  lia.
Qed.

Lemma in_range_dec n i : {-n <= i < n} + {~ (-n <= i < n)}.
Proof.
  destruct (Z_le_dec (-n) i); destruct (Z_lt_dec i n); (left; lia) || (right; lia).
Qed.

(* arrays *)
Lemma at_arr_some t vs i x :
  - Z.of_nat (length vs) <= i < Z.of_nat (length vs) ->
  nth_error vs (Z.to_nat (i mod Z.of_nat (length vs))) = Some x ->
  at_exec (VArr t vs) (VInt i) = Ok x.
Proof.
  intros Hr Hn. cbn [at_exec]. unfold zlen.
  rewrite at_index_in by exact Hr. rewrite Hn. reflexivity.
Qed.

Lemma at_arr_ok t vs i d :
  - Z.of_nat (length vs) <= i < Z.of_nat (length vs) ->
  at_exec (VArr t vs) (VInt i)
  = Ok (nth (Z.to_nat (i mod Z.of_nat (length vs))) vs d).
Proof.
  intros Hr.
  destruct (nth_error_lt_some vs _ (index_mod_lt vs i Hr)) as [x Hx].
  unfold zlen in Hx.
  rewrite (at_arr_some t vs i x Hr Hx).
  f_equal. symmetry. apply nth_error_nth. exact Hx.
Qed.

Lemma at_arr_oob t vs i :
  ~ (- Z.of_nat (length vs) <= i < Z.of_nat (length vs)) ->
  at_exec (VArr t vs) (VInt i) = Err E_IndexOutOfBounds.
Proof.
  intros Hr. cbn [at_exec]. unfold zlen.
  rewrite at_index_out by exact Hr. reflexivity.
Qed.

Lemma at_arr_iff t vs i x :
  at_exec (VArr t vs) (VInt i) = Ok x <->
  - Z.of_nat (length vs) <= i < Z.of_nat (length vs) /\
  nth_error vs (Z.to_nat (i mod Z.of_nat (length vs))) = Some x.
Proof.
  split.
  - intros H.
    destruct (in_range_dec (Z.of_nat (length vs)) i) as [Hr|Hr].
    + split; [exact Hr|].
      destruct (nth_error_lt_some vs _ (index_mod_lt vs i Hr)) as [y Hy].
      unfold zlen in Hy.
      rewrite (at_arr_some t vs i y Hr Hy) in H. congruence.
    + rewrite (at_arr_oob t vs i Hr) in H. discriminate.
  - intros [Hr Hn]. exact (at_arr_some t vs i x Hr Hn).
Qed.

Lemma at_arr_no_panic t vs i : at_exec (VArr t vs) (VInt i) <> Panic.
Proof.
  destruct (in_range_dec (Z.of_nat (length vs)) i) as [Hr|Hr].
  - rewrite (at_arr_ok t vs i VVoid Hr). discriminate.
  - rewrite (at_arr_oob t vs i Hr). discriminate.
Qed.

Lemma at_arr_no_fuel t vs i : at_exec (VArr t vs) (VInt i) <> OutOfFuel.
Proof.
  destruct (in_range_dec (Z.of_nat (length vs)) i) as [Hr|Hr].
  - rewrite (at_arr_ok t vs i VVoid Hr). discriminate.
  - rewrite (at_arr_oob t vs i Hr). discriminate.
Qed.

(* strings *)
Lemma at_str_some s i c :
  - Z.of_nat (length s) <= i < Z.of_nat (length s) ->
  nth_error s (Z.to_nat (i mod Z.of_nat (length s))) = Some c ->
  at_exec (VString s) (VInt i) = Ok (VString [c]).
Proof.
  intros Hr Hn. cbn [at_exec]. unfold zlen.
  rewrite at_index_in by exact Hr. rewrite Hn. reflexivity.
Qed.

Lemma at_str_ok s i d :
  - Z.of_nat (length s) <= i < Z.of_nat (length s) ->
  at_exec (VString s) (VInt i)
  = Ok (VString [nth (Z.to_nat (i mod Z.of_nat (length s))) s d]).
Proof.
  intros Hr.
  destruct (nth_error_lt_some s _ (index_mod_lt s i Hr)) as [x Hx].
  unfold zlen in Hx.
  rewrite (at_str_some s i x Hr Hx).
  do 3 f_equal. symmetry. apply nth_error_nth. exact Hx.
Qed.

Lemma at_str_oob s i :
  ~ (- Z.of_nat (length s) <= i < Z.of_nat (length s)) ->
  at_exec (VString s) (VInt i) = Err E_IndexOutOfBounds.
Proof.
  intros Hr. cbn [at_exec]. unfold zlen.
  rewrite at_index_out by exact Hr. reflexivity.
Qed.

Lemma at_str_iff s i x :
  at_exec (VString s) (VInt i) = Ok x <->
  - Z.of_nat (length s) <= i < Z.of_nat (length s) /\
  exists c, nth_error s (Z.to_nat (i mod Z.of_nat (length s))) = Some c /\
            x = VString [c].
Proof.
  split.
  - intros H.
    destruct (in_range_dec (Z.of_nat (length s)) i) as [Hr|Hr].
    + split; [exact Hr|].
      destruct (nth_error_lt_some s _ (index_mod_lt s i Hr)) as [y Hy].
      unfold zlen in Hy.
      rewrite (at_str_some s i y Hr Hy) in H. exists y. split; congruence.
    + rewrite (at_str_oob s i Hr) in H. discriminate.
  - intros [Hr [c [Hn Hx]]]. subst x. exact (at_str_some s i c Hr Hn).
Qed.

Lemma at_str_no_panic s i : at_exec (VString s) (VInt i) <> Panic.
Proof.
  destruct (in_range_dec (Z.of_nat (length s)) i) as [Hr|Hr].
  - rewrite (at_str_ok s i 0 Hr). discriminate.
  - rewrite (at_str_oob s i Hr). discriminate.
Qed.

Lemma at_str_no_fuel s i : at_exec (VString s) (VInt i) <> OutOfFuel.
Proof.
  destruct (in_range_dec (Z.of_nat (length s)) i) as [Hr|Hr].
  - rewrite (at_str_ok s i 0 Hr). discriminate.
  - rewrite (at_str_oob s i Hr). discriminate.
Qed.

(* non-negative / negative index, stated without mod *)
Lemma at_arr_nonneg t vs i :
  0 <= i < Z.of_nat (length vs) ->
  at_exec (VArr t vs) (VInt i) =
  match nth_error vs (Z.to_nat i) with Some x => Ok x | None => Panic end.
Proof.
  intros Hr.
  destruct (nth_error_lt_some vs (Z.to_nat i) ltac:(lia)) as [x Hx].
  rewrite Hx. apply at_arr_some; [lia|].
  rewrite Z.mod_small by lia. exact Hx.
Qed.

Lemma at_arr_neg t vs i :
  - Z.of_nat (length vs) <= i < 0 ->
  at_exec (VArr t vs) (VInt i) = at_exec (VArr t vs) (VInt (Z.of_nat (length vs) + i)).
Proof.
  intros Hr.
  rewrite (at_arr_ok t vs i VVoid) by lia.
  rewrite (at_arr_ok t vs (Z.of_nat (length vs) + i) VVoid) by lia.
  rewrite neg_index_mod by lia.
  rewrite (Z.mod_small (Z.of_nat (length vs) + i)) by lia. reflexivity.
Qed.

Lemma at_str_neg s i :
  - Z.of_nat (length s) <= i < 0 ->
  at_exec (VString s) (VInt i) = at_exec (VString s) (VInt (Z.of_nat (length s) + i)).
Proof.
  intros Hr.
  rewrite (at_str_ok s i 0) by lia.
  rewrite (at_str_ok s (Z.of_nat (length s) + i) 0) by lia.
  rewrite neg_index_mod by lia.
  rewrite (Z.mod_small (Z.of_nat (length s) + i)) by lia. reflexivity.
Qed.

(* ------------------------------------------------------------------ *)
(* 2. the slyce iterator = arithmetic progression                      *)
(* ------------------------------------------------------------------ *)

(* i, i+st, ..., i+(c-1)*st *)
Definition arith_prog (i st : Z) (c : nat) : list Z :=
  map (fun k => i + Z.of_nat k * st) (seq 0 c).

Lemma arith_prog_S i st c :
  arith_prog i st (S c) = i :: arith_prog (i + st) st c.
Proof.
  unfold arith_prog. cbn [seq map]. f_equal.
  - lia.
  - rewrite <- seq_shift, map_map. apply map_ext. intros k. lia.
Qed.

Lemma arith_prog_length i st c : length (arith_prog i st c) = c.
Proof. unfold arith_prog. rewrite map_length, seq_length. reflexivity. Qed.

Lemma arith_prog_nth i st c j d :
  (j < c)%nat -> nth j (arith_prog i st c) d = i + Z.of_nat j * st.
Proof.
  revert i c. induction j as [|j IH]; intros i [|c] Hj; try lia;
    rewrite arith_prog_S; cbn [nth].
  - lia.
  - rewrite IH by lia. lia.
Qed.

Lemma arith_prog_in i st c k :
  In k (arith_prog i st c) <-> exists j, (j < c)%nat /\ k = i + Z.of_nat j * st.
Proof.
  unfold arith_prog. rewrite in_map_iff. split.
  - intros [j [Hj Hin]]. apply in_seq in Hin. exists j. split; [lia|congruence].
  - intros [j [Hj Hk]]. exists j. split; [congruence|]. apply in_seq. lia.
Qed.

(* Positive step: c items are produced as soon as the fuel is at least c. *)
Lemma slyce_iter_pos_nat e st : 0 < st ->
  forall c fuel i,
    (c <= fuel)%nat ->
    ((0 < c)%nat -> i + (Z.of_nat c - 1) * st < e) ->
    e <= i + Z.of_nat c * st ->
    slyce_iter fuel i e st = arith_prog i st c.
Proof.
  intros Hst. induction c as [|c IH]; intros fuel i Hfuel Hlast Hstop.
  - destruct fuel as [|fuel]; [reflexivity|].
    cbn [slyce_iter].
    destruct (0 <=? st) eqn:E0; [|apply Z.leb_gt in E0; lia].
    destruct (i <? e) eqn:E1; [apply Z.ltb_lt in E1; lia|reflexivity].
  - destruct fuel as [|fuel]; [lia|].
    rewrite arith_prog_S. cbn [slyce_iter].
    destruct (0 <=? st) eqn:E0; [|apply Z.leb_gt in E0; lia].
    specialize (Hlast ltac:(lia)).
    assert (Hc : 0 <= Z.of_nat c * st) by (apply Z.mul_nonneg_nonneg; lia).
    replace ((Z.of_nat (S c) - 1) * st) with (Z.of_nat c * st) in Hlast
      by (f_equal; lia).
    replace (Z.of_nat (S c) * st) with (st + Z.of_nat c * st) in Hstop
      by (rewrite Nat2Z.inj_succ; ring).
    destruct (i <? e) eqn:E1; [|apply Z.ltb_ge in E1; lia].
    f_equal. apply IH.
    + lia.
    + intros _.
      replace (i + st + (Z.of_nat c - 1) * st) with (i + Z.of_nat c * st) by ring.
      exact Hlast.
    + lia.
Qed.

Lemma slyce_iter_neg_nat e st : st < 0 ->
  forall c fuel i,
    (c <= fuel)%nat ->
    ((0 < c)%nat -> e < i + (Z.of_nat c - 1) * st) ->
    i + Z.of_nat c * st <= e ->
    slyce_iter fuel i e st = arith_prog i st c.
Proof.
  intros Hst. induction c as [|c IH]; intros fuel i Hfuel Hlast Hstop.
  - destruct fuel as [|fuel]; [reflexivity|].
    cbn [slyce_iter].
    destruct (0 <=? st) eqn:E0; [apply Z.leb_le in E0; lia|].
    destruct (e <? i) eqn:E1; [apply Z.ltb_lt in E1; lia|reflexivity].
  - destruct fuel as [|fuel]; [lia|].
    rewrite arith_prog_S. cbn [slyce_iter].
    destruct (0 <=? st) eqn:E0; [apply Z.leb_le in E0; lia|].
    specialize (Hlast ltac:(lia)).
    assert (Hc : Z.of_nat c * st <= 0) by (apply Z.mul_nonneg_nonpos; lia).
    replace ((Z.of_nat (S c) - 1) * st) with (Z.of_nat c * st) in Hlast
      by (f_equal; lia).
    replace (Z.of_nat (S c) * st) with (st + Z.of_nat c * st) in Hstop
      by (rewrite Nat2Z.inj_succ; ring).
    destruct (e <? i) eqn:E1; [|apply Z.ltb_ge in E1; lia].
    f_equal. apply IH.
    + lia.
    + intros _.
      replace (i + st + (Z.of_nat c - 1) * st) with (i + Z.of_nat c * st) by ring.
      exact Hlast.
    + lia.
Qed.

(* the closed-form count of py_slice *)
Definition py_count (s0 e0 st : Z) : Z :=
  if st <? 0 then (if e0 <? s0 then (s0 - e0 - 1) / (- st) + 1 else 0)
  else (if s0 <? e0 then (e0 - s0 - 1) / st + 1 else 0).

Lemma py_count_pos_spec s0 e0 st : 0 < st ->
  let c := py_count s0 e0 st in
  0 <= c /\ (0 < c -> s0 + (c - 1) * st < e0) /\ e0 <= s0 + c * st /\
  (0 < c -> c <= e0 - s0).
Proof.
  intros Hst. unfold py_count.
  destruct (st <? 0) eqn:E0; [apply Z.ltb_lt in E0; lia|].
  destruct (s0 <? e0) eqn:E1.
  - apply Z.ltb_lt in E1. cbv zeta.
    pose proof (Z.div_mod (e0 - s0 - 1) st ltac:(lia)) as Hdm.
    pose proof (Z.mod_pos_bound (e0 - s0 - 1) st Hst) as Hmb.
    pose proof (Z.div_pos (e0 - s0 - 1) st ltac:(lia) Hst) as Hq.
    set (q := (e0 - s0 - 1) / st) in *.
    set (r := (e0 - s0 - 1) mod st) in *.
    replace ((q + 1 - 1) * st) with (st * q) by ring.
    replace ((q + 1) * st) with (st * q + st) by ring.
    assert (Hqq : q <= st * q) by nia.
    repeat split; try lia.
  - apply Z.ltb_ge in E1. cbv zeta. repeat split; lia.
Qed.

Lemma py_count_neg_spec s0 e0 st : st < 0 ->
  let c := py_count s0 e0 st in
  0 <= c /\ (0 < c -> e0 < s0 + (c - 1) * st) /\ s0 + c * st <= e0 /\
  (0 < c -> c <= s0 - e0).
Proof.
  intros Hst. unfold py_count.
  destruct (st <? 0) eqn:E0; [|apply Z.ltb_ge in E0; lia].
  destruct (e0 <? s0) eqn:E1.
  - apply Z.ltb_lt in E1. cbv zeta.
    assert (Hst' : 0 < - st) by lia.
    pose proof (Z.div_mod (s0 - e0 - 1) (- st) ltac:(lia)) as Hdm.
    pose proof (Z.mod_pos_bound (s0 - e0 - 1) (- st) Hst') as Hmb.
    pose proof (Z.div_pos (s0 - e0 - 1) (- st) ltac:(lia) Hst') as Hq.
    set (q := (s0 - e0 - 1) / (- st)) in *.
    set (r := (s0 - e0 - 1) mod (- st)) in *.
    replace ((q + 1 - 1) * st) with (- (- st * q)) by ring.
    replace ((q + 1) * st) with (- (- st * q) + st) by ring.
    assert (Hqq : q <= - st * q) by nia.
    repeat split; try lia.
  - apply Z.ltb_ge in E1. cbv zeta. repeat split; lia.
Qed.

(* The fuel never cuts the iterator short: any fuel >= count is enough. *)
Lemma slyce_iter_count fuel i e st :
  st <> 0 ->
  (Z.to_nat (py_count i e st) <= fuel)%nat ->
  slyce_iter fuel i e st = arith_prog i st (Z.to_nat (py_count i e st)).
Proof.
  intros Hst Hfuel.
  destruct (Z_lt_dec 0 st) as [Hpos|Hnpos].
  - destruct (py_count_pos_spec i e st Hpos) as [H0 [H1 [H2 _]]].
    apply (slyce_iter_pos_nat e st Hpos); [exact Hfuel| |];
      rewrite Z2Nat.id by exact H0; [intros Hc; apply H1; lia|exact H2].
  - assert (Hneg : st < 0) by lia.
    destruct (py_count_neg_spec i e st Hneg) as [H0 [H1 [H2 _]]].
    apply (slyce_iter_neg_nat e st Hneg); [exact Hfuel| |];
      rewrite Z2Nat.id by exact H0; [intros Hc; apply H1; lia|exact H2].
Qed.

Lemma py_count_le_len len i e st :
  0 <= len -> st <> 0 ->
  (0 < st -> 0 <= i <= len /\ 0 <= e <= len) ->
  (st < 0 -> -1 <= i <= len - 1 /\ -1 <= e <= len - 1) ->
  0 <= py_count i e st <= len.
Proof.
  intros Hlen Hst Hp Hn.
  destruct (Z_lt_dec 0 st) as [Hpos|Hnpos].
  - destruct (py_count_pos_spec i e st Hpos) as [H0 [_ [_ H3]]].
    specialize (Hp Hpos).
    destruct (Z_lt_dec 0 (py_count i e st)); [specialize (H3 ltac:(lia))|]; lia.
  - assert (Hneg : st < 0) by lia.
    destruct (py_count_neg_spec i e st Hneg) as [H0 [_ [_ H3]]].
    specialize (Hn Hneg).
    destruct (Z_lt_dec 0 (py_count i e st)); [specialize (H3 ltac:(lia))|]; lia.
Qed.

(* Statement of step 2: with the model's own fuel S len, in the clamping range *)
Lemma slyce_iter_spec_l len i e st :
  0 <= len -> st <> 0 ->
  (0 < st -> 0 <= i <= len /\ 0 <= e <= len) ->
  (st < 0 -> -1 <= i <= len - 1 /\ -1 <= e <= len - 1) ->
  slyce_iter (S (Z.to_nat len)) i e st
  = map (fun k => i + Z.of_nat k * st) (seq 0 (Z.to_nat (py_count i e st))).
Proof.
  intros Hlen Hst Hp Hn.
  pose proof (py_count_le_len len i e st Hlen Hst Hp Hn) as Hc.
  apply slyce_iter_count; [exact Hst|]. lia.
Qed.

(* any larger fuel gives the same list *)
Lemma slyce_iter_fuel_enough_l len i e st fuel :
  0 <= len -> st <> 0 ->
  (0 < st -> 0 <= i <= len /\ 0 <= e <= len) ->
  (st < 0 -> -1 <= i <= len - 1 /\ -1 <= e <= len - 1) ->
  (Z.to_nat len <= fuel)%nat ->
  slyce_iter fuel i e st = slyce_iter (S (Z.to_nat len)) i e st.
Proof.
  intros Hlen Hst Hp Hn Hf.
  pose proof (py_count_le_len len i e st Hlen Hst Hp Hn) as Hc.
  rewrite !slyce_iter_count by (try exact Hst; lia). reflexivity.
Qed.

Lemma slyce_iter_length_le_l len i e st :
  0 <= len -> st <> 0 ->
  (0 < st -> 0 <= i <= len /\ 0 <= e <= len) ->
  (st < 0 -> -1 <= i <= len - 1 /\ -1 <= e <= len - 1) ->
  (length (slyce_iter (S (Z.to_nat len)) i e st) <= Z.to_nat len)%nat.
Proof.
  intros Hlen Hst Hp Hn.
  pose proof (py_count_le_len len i e st Hlen Hst Hp Hn) as Hc.
  rewrite slyce_iter_count by (try exact Hst; lia).
  rewrite arith_prog_length. lia.
Qed.

(* ------------------------------------------------------------------ *)
(* 3. slyce = CPython                                                  *)
(* ------------------------------------------------------------------ *)

Definition step_of (step : option Z) : Z :=
  match step with None => 1 | Some s => s end.

Definition py_start (len st : Z) (start : option Z) : Z :=
  match start with
  | None => if st <? 0 then len - 1 else 0
  | Some i => py_adjust len st i
  end.

Definition py_stop (len st : Z) (stop : option Z) : Z :=
  match stop with
  | None => if st <? 0 then -1 else len
  | Some i => py_adjust len st i
  end.

Lemma py_slice_unfold len start stop step :
  py_slice len start stop step =
  if step_of step =? 0 then []
  else arith_prog (py_start len (step_of step) start) (step_of step)
         (Z.to_nat (py_count (py_start len (step_of step) start)
                             (py_stop len (step_of step) stop) (step_of step))).
Proof. reflexivity. Qed.

Lemma py_adjust_range_pos len st i :
  0 <= len -> 0 < st -> 0 <= py_adjust len st i <= len.
Proof.
  intros Hlen Hst. unfold py_adjust.
  destruct (st <? 0) eqn:Es; [apply Z.ltb_lt in Es; lia|].
  destruct (i <? 0) eqn:E0.
  - apply Z.ltb_lt in E0. cbv zeta.
    destruct (i + len <? 0) eqn:E1;
      [apply Z.ltb_lt in E1|apply Z.ltb_ge in E1]; lia.
  - apply Z.ltb_ge in E0.
    destruct (len <=? i) eqn:E1;
      [apply Z.leb_le in E1|apply Z.leb_gt in E1]; lia.
Qed.

Lemma py_adjust_range_neg len st i :
  0 <= len -> st < 0 -> -1 <= py_adjust len st i <= len - 1.
Proof.
  intros Hlen Hst. unfold py_adjust.
  destruct (st <? 0) eqn:Es; [|apply Z.ltb_ge in Es; lia].
  destruct (i <? 0) eqn:E0.
  - apply Z.ltb_lt in E0. cbv zeta.
    destruct (i + len <? 0) eqn:E1;
      [apply Z.ltb_lt in E1|apply Z.ltb_ge in E1]; lia.
  - apply Z.ltb_ge in E0.
    destruct (len <=? i) eqn:E1;
      [apply Z.leb_le in E1|apply Z.leb_gt in E1]; lia.
Qed.

Lemma py_start_range_pos len st a :
  0 <= len -> 0 < st -> 0 <= py_start len st a <= len.
Proof.
  intros Hlen Hst. destruct a as [i|]; cbn [py_start].
  - apply py_adjust_range_pos; assumption.
  - destruct (st <? 0) eqn:Es; [apply Z.ltb_lt in Es|]; lia.
Qed.

Lemma py_stop_range_pos len st b :
  0 <= len -> 0 < st -> 0 <= py_stop len st b <= len.
Proof.
  intros Hlen Hst. destruct b as [i|]; cbn [py_stop].
  - apply py_adjust_range_pos; assumption.
  - destruct (st <? 0) eqn:Es; [apply Z.ltb_lt in Es|]; lia.
Qed.

Lemma py_start_range_neg len st a :
  0 <= len -> st < 0 -> -1 <= py_start len st a <= len - 1.
Proof.
  intros Hlen Hst. destruct a as [i|]; cbn [py_start].
  - apply py_adjust_range_neg; assumption.
  - destruct (st <? 0) eqn:Es; [|apply Z.ltb_ge in Es]; lia.
Qed.

Lemma py_stop_range_neg len st b :
  0 <= len -> st < 0 -> -1 <= py_stop len st b <= len - 1.
Proof.
  intros Hlen Hst. destruct b as [i|]; cbn [py_stop].
  - apply py_adjust_range_neg; assumption.
  - destruct (st <? 0) eqn:Es; [|apply Z.ltb_ge in Es]; lia.
Qed.

(* Index::from + to_bound (clamp) coincides with PySlice_AdjustIndices *)
Lemma clamp_eq_py_adjust_pos len st i :
  0 <= len -> 0 < st ->
  clampZ (if i <? 0 then len + i else i) 0 len = py_adjust len st i.
Proof.
  intros Hlen Hst. unfold clampZ, py_adjust.
  destruct (st <? 0) eqn:Es; [apply Z.ltb_lt in Es; lia|].
  destruct (i <? 0) eqn:E0.
  - apply Z.ltb_lt in E0. cbv zeta.
    destruct (i + len <? 0) eqn:E1;
      [apply Z.ltb_lt in E1|apply Z.ltb_ge in E1]; lia.
  - apply Z.ltb_ge in E0.
    destruct (len <=? i) eqn:E1;
      [apply Z.leb_le in E1|apply Z.leb_gt in E1]; lia.
Qed.

Lemma clamp_eq_py_adjust_neg len st i :
  0 <= len -> st < 0 ->
  clampZ (if i <? 0 then len + i else i) (-1) (len - 1) = py_adjust len st i.
Proof.
  intros Hlen Hst. unfold clampZ, py_adjust.
  destruct (st <? 0) eqn:Es; [|apply Z.ltb_ge in Es; lia].
  destruct (i <? 0) eqn:E0.
  - apply Z.ltb_lt in E0. cbv zeta.
    destruct (i + len <? 0) eqn:E1;
      [apply Z.ltb_lt in E1|apply Z.ltb_ge in E1]; lia.
  - apply Z.ltb_ge in E0.
    destruct (len <=? i) eqn:E1;
      [apply Z.leb_le in E1|apply Z.leb_gt in E1]; lia.
Qed.

Lemma slyce_bound_start_pos len st a :
  0 <= len -> 0 < st -> slyce_bound len 0 len a 0 = py_start len st a.
Proof.
  intros Hlen Hst. destruct a as [i|]; cbn [slyce_bound py_start].
  - apply clamp_eq_py_adjust_pos; assumption.
  - destruct (st <? 0) eqn:Es; [apply Z.ltb_lt in Es; lia|reflexivity].
Qed.

Lemma slyce_bound_stop_pos len st b :
  0 <= len -> 0 < st -> slyce_bound len 0 len b len = py_stop len st b.
Proof.
  intros Hlen Hst. destruct b as [i|]; cbn [slyce_bound py_stop].
  - apply clamp_eq_py_adjust_pos; assumption.
  - destruct (st <? 0) eqn:Es; [apply Z.ltb_lt in Es; lia|reflexivity].
Qed.

Lemma slyce_bound_start_neg len st a :
  0 <= len -> st < 0 ->
  slyce_bound len (-1) (len - 1) a (len - 1) = py_start len st a.
Proof.
  intros Hlen Hst. destruct a as [i|]; cbn [slyce_bound py_start].
  - apply clamp_eq_py_adjust_neg; assumption.
  - destruct (st <? 0) eqn:Es; [reflexivity|apply Z.ltb_ge in Es; lia].
Qed.

Lemma slyce_bound_stop_neg len st b :
  0 <= len -> st < 0 ->
  slyce_bound len (-1) (len - 1) b (-1) = py_stop len st b.
Proof.
  intros Hlen Hst. destruct b as [i|]; cbn [slyce_bound py_stop].
  - apply clamp_eq_py_adjust_neg; assumption.
  - destruct (st <? 0) eqn:Es; [reflexivity|apply Z.ltb_ge in Es; lia].
Qed.

Lemma slyce_indices_unfold len start stop step :
  slyce_indices len start stop step =
  if step_of step =? 0 then [] else
  slyce_iter (S (Z.to_nat len))
    (slyce_bound len
       (if 0 <=? step_of step then (if 0 <=? step_of step then 0 else len - 1)
        else (if 0 <=? step_of step then len else -1))
       (if 0 <=? step_of step then (if 0 <=? step_of step then len else -1)
        else (if 0 <=? step_of step then 0 else len - 1))
       start (if 0 <=? step_of step then 0 else len - 1))
    (slyce_bound len
       (if 0 <=? step_of step then (if 0 <=? step_of step then 0 else len - 1)
        else (if 0 <=? step_of step then len else -1))
       (if 0 <=? step_of step then (if 0 <=? step_of step then len else -1)
        else (if 0 <=? step_of step then 0 else len - 1))
       stop (if 0 <=? step_of step then len else -1))
    (step_of step).
Proof. reflexivity. Qed.

Lemma slyce_eq_py len :
  0 <= len -> forall start stop step,
  slyce_indices len start stop step = py_slice len start stop step.
Proof.
  intros Hlen start stop step.
  rewrite slyce_indices_unfold, py_slice_unfold.
  set (st := step_of step).
  destruct (st =? 0) eqn:Ez; [reflexivity|].
  apply Z.eqb_neq in Ez.
  destruct (0 <=? st) eqn:Es.
  - apply Z.leb_le in Es. assert (Hst : 0 < st) by lia.
    rewrite (slyce_bound_start_pos len st start Hlen Hst).
    rewrite (slyce_bound_stop_pos len st stop Hlen Hst).
    apply slyce_iter_spec_l; try assumption.
    + intros _. split; [apply py_start_range_pos|apply py_stop_range_pos]; assumption.
    + intros Hn. lia.
  - apply Z.leb_gt in Es.
    rewrite (slyce_bound_start_neg len st start Hlen Es).
    rewrite (slyce_bound_stop_neg len st stop Hlen Es).
    apply slyce_iter_spec_l; try assumption.
    + intros Hp. lia.
    + intros _. split; [apply py_start_range_neg|apply py_stop_range_neg]; assumption.
Qed.

(* ------------------------------------------------------------------ *)
(* 4. every selected index is valid                                    *)
(* ------------------------------------------------------------------ *)

Lemma py_slice_in_range len a b c k :
  0 <= len -> In k (py_slice len a b c) -> 0 <= k < len.
Proof.
  intros Hlen. rewrite py_slice_unfold.
  set (st := step_of c). set (s0 := py_start len st a). set (e0 := py_stop len st b).
  destruct (st =? 0) eqn:Ez; [intros []|].
  apply Z.eqb_neq in Ez.
  intros Hin. apply arith_prog_in in Hin. destruct Hin as [j [Hj Hk]].
  destruct (Z_lt_dec 0 st) as [Hpos|Hnpos].
  - destruct (py_count_pos_spec s0 e0 st Hpos) as [H0 [H1 [H2 H3]]].
    pose proof (py_start_range_pos len st a Hlen Hpos) as Hs.
    pose proof (py_stop_range_pos len st b Hlen Hpos) as He.
    fold s0 in Hs. fold e0 in He.
    specialize (H1 ltac:(lia)).
    assert (Hj1 : 0 <= Z.of_nat j * st) by (apply Z.mul_nonneg_nonneg; lia).
    assert (Hj2 : Z.of_nat j * st <= (py_count s0 e0 st - 1) * st)
      by (apply Z.mul_le_mono_nonneg_r; lia).
    lia.
  - assert (Hneg : st < 0) by lia.
    destruct (py_count_neg_spec s0 e0 st Hneg) as [H0 [H1 [H2 H3]]].
    pose proof (py_start_range_neg len st a Hlen Hneg) as Hs.
    pose proof (py_stop_range_neg len st b Hlen Hneg) as He.
    fold s0 in Hs. fold e0 in He.
    specialize (H1 ltac:(lia)).
    assert (Hj1 : Z.of_nat j * st <= 0) by (apply Z.mul_nonneg_nonpos; lia).
    assert (Hj2 : (py_count s0 e0 st - 1) * st <= Z.of_nat j * st)
      by (apply Z.mul_le_mono_nonpos_r; lia).
    lia.
Qed.

Lemma slyce_indices_in_range_l len a b c k :
  0 <= len -> In k (slyce_indices len a b c) -> 0 <= k < len.
Proof.
  intros Hlen. rewrite slyce_eq_py by exact Hlen. apply py_slice_in_range. exact Hlen.
Qed.

Lemma py_slice_length_le len a b c :
  0 <= len -> (length (py_slice len a b c) <= Z.to_nat len)%nat.
Proof.
  intros Hlen. rewrite py_slice_unfold.
  set (st := step_of c).
  destruct (st =? 0) eqn:Ez; [cbn; lia|].
  apply Z.eqb_neq in Ez. rewrite arith_prog_length.
  assert (H : 0 <= py_count (py_start len st a) (py_stop len st b) st <= len).
  { apply py_count_le_len; try assumption.
    - intros Hp. split; [apply py_start_range_pos|apply py_stop_range_pos]; assumption.
    - intros Hn. split; [apply py_start_range_neg|apply py_stop_range_neg]; assumption. }
  lia.
Qed.

Lemma select_nil {A} (l : list A) : select l [] = Some [].
Proof. reflexivity. Qed.

Lemma select_cons {A} (l : list A) i idx :
  select l (i :: idx) =
  match nth_error l (Z.to_nat i), select l idx with
  | Some x, Some r => if 0 <=? i then Some (x :: r) else None
  | _, _ => None
  end.
Proof. reflexivity. Qed.

Lemma select_total_l {A} (l : list A) idx :
  (forall k, In k idx -> 0 <= k < Z.of_nat (length l)) ->
  exists r, select l idx = Some r /\ length r = length idx /\
            forall j, (j < length idx)%nat ->
                      nth_error r j = nth_error l (Z.to_nat (nth j idx 0)).
Proof.
  induction idx as [|i idx IH]; intros Hin.
  - exists []. split; [reflexivity|]. split; [reflexivity|].
    intros j Hj. cbn in Hj. lia.
  - destruct IH as [r [Hsel [Hlen Hnth]]].
    { intros k Hk. apply Hin. right. exact Hk. }
    pose proof (Hin i (or_introl eq_refl)) as Hi.
    destruct (nth_error_lt_some l (Z.to_nat i) ltac:(lia)) as [x Hx].
    exists (x :: r). rewrite select_cons, Hx, Hsel.
    destruct (0 <=? i) eqn:E0; [|apply Z.leb_gt in E0; lia].
    split; [reflexivity|]. split; [cbn [length]; lia|].
    intros [|j] Hj; cbn [nth nth_error].
    + symmetry. exact Hx.
    + apply Hnth. cbn [length] in Hj. lia.
Qed.

(* converse: select succeeds only on valid indices *)
Lemma select_some_valid {A} (l : list A) idx r :
  select l idx = Some r ->
  forall k, In k idx -> 0 <= k < Z.of_nat (length l).
Proof.
  revert r. induction idx as [|i idx IH]; intros r Hsel k Hk; [destruct Hk|].
  rewrite select_cons in Hsel.
  destruct (nth_error l (Z.to_nat i)) as [x|] eqn:Ex; [|discriminate].
  destruct (select l idx) as [r'|] eqn:Er; [|discriminate].
  destruct (0 <=? i) eqn:E0; [|discriminate].
  apply Z.leb_le in E0.
  destruct Hk as [Hk|Hk].
  - subst k. assert (nth_error l (Z.to_nat i) <> None) as Hn by congruence.
    apply nth_error_Some in Hn. lia.
  - exact (IH r' eq_refl k Hk).
Qed.

Lemma at_str_nonneg s i :
  0 <= i < Z.of_nat (length s) ->
  at_exec (VString s) (VInt i) =
  match nth_error s (Z.to_nat i) with Some c => Ok (VString [c]) | None => Panic end.
Proof.
  intros Hr.
  destruct (nth_error_lt_some s (Z.to_nat i) ltac:(lia)) as [x Hx].
  rewrite Hx. apply at_str_some; [lia|].
  rewrite Z.mod_small by lia. exact Hx.
Qed.

(* ---- slicing is total on arrays and strings ---- *)

Lemma opt_int_int a : opt_int (option_map VInt a) = Ok a.
Proof. destruct a; reflexivity. Qed.

Lemma slice_exec_arr t vs a b c :
  slice_exec (VArr t vs) (option_map VInt a) (option_map VInt b) (option_map VInt c)
  = match select vs (py_slice (Z.of_nat (length vs)) a b c) with
    | Some r => Ok (arr_of r) | None => Panic end.
Proof.
  unfold slice_exec. rewrite !opt_int_int. cbn [obind]. unfold zlen.
  rewrite slyce_eq_py by lia. reflexivity.
Qed.

Lemma slice_exec_str s a b c :
  slice_exec (VString s) (option_map VInt a) (option_map VInt b) (option_map VInt c)
  = match select s (py_slice (Z.of_nat (length s)) a b c) with
    | Some r => Ok (VString r) | None => Panic end.
Proof.
  unfold slice_exec. rewrite !opt_int_int. cbn [obind]. unfold zlen.
  rewrite slyce_eq_py by lia. reflexivity.
Qed.

Lemma select_py_slice {A} (l : list A) a b c :
  exists r, select l (py_slice (Z.of_nat (length l)) a b c) = Some r /\
    length r = length (py_slice (Z.of_nat (length l)) a b c) /\
    forall j, (j < length (py_slice (Z.of_nat (length l)) a b c))%nat ->
      nth_error r j
      = nth_error l (Z.to_nat (nth j (py_slice (Z.of_nat (length l)) a b c) 0)).
Proof.
  apply select_total_l. intros k Hk.
  apply (py_slice_in_range _ a b c); [lia|exact Hk].
Qed.

Lemma slice_arr_total t vs a b c :
  exists r,
    slice_exec (VArr t vs) (option_map VInt a) (option_map VInt b) (option_map VInt c)
    = Ok (arr_of r) /\
    length r = length (py_slice (Z.of_nat (length vs)) a b c) /\
    forall j, (j < length (py_slice (Z.of_nat (length vs)) a b c))%nat ->
      nth_error r j
      = nth_error vs (Z.to_nat (nth j (py_slice (Z.of_nat (length vs)) a b c) 0)).
Proof.
  destruct (select_py_slice vs a b c) as [r [Hsel [Hlen Hnth]]].
  exists r. rewrite slice_exec_arr, Hsel. auto.
Qed.

Lemma slice_str_total s a b c :
  exists r,
    slice_exec (VString s) (option_map VInt a) (option_map VInt b) (option_map VInt c)
    = Ok (VString r) /\
    length r = length (py_slice (Z.of_nat (length s)) a b c) /\
    forall j, (j < length (py_slice (Z.of_nat (length s)) a b c))%nat ->
      nth_error r j
      = nth_error s (Z.to_nat (nth j (py_slice (Z.of_nat (length s)) a b c) 0)).
Proof.
  destruct (select_py_slice s a b c) as [r [Hsel [Hlen Hnth]]].
  exists r. rewrite slice_exec_str, Hsel. auto.
Qed.

(* the result is determined by the elements: inversion form *)
Lemma slice_arr_elements t vs a b c w :
  slice_exec (VArr t vs) (option_map VInt a) (option_map VInt b) (option_map VInt c) = Ok w ->
  exists r, w = arr_of r /\
    length r = length (py_slice (Z.of_nat (length vs)) a b c) /\
    forall j, (j < length (py_slice (Z.of_nat (length vs)) a b c))%nat ->
      nth_error r j
      = nth_error vs (Z.to_nat (nth j (py_slice (Z.of_nat (length vs)) a b c) 0)).
Proof.
  destruct (slice_arr_total t vs a b c) as [r [Hex H]].
  rewrite Hex. intros Hw. exists r. split; [congruence|exact H].
Qed.

Lemma slice_str_elements s a b c w :
  slice_exec (VString s) (option_map VInt a) (option_map VInt b) (option_map VInt c) = Ok w ->
  exists r, w = VString r /\
    length r = length (py_slice (Z.of_nat (length s)) a b c) /\
    forall j, (j < length (py_slice (Z.of_nat (length s)) a b c))%nat ->
      nth_error r j
      = nth_error s (Z.to_nat (nth j (py_slice (Z.of_nat (length s)) a b c) 0)).
Proof.
  destruct (slice_str_total s a b c) as [r [Hex H]].
  rewrite Hex. intros Hw. exists r. split; [congruence|exact H].
Qed.

Lemma slice_arr_no_panic t vs a b c :
  slice_exec (VArr t vs) (option_map VInt a) (option_map VInt b) (option_map VInt c) <> Panic.
Proof. destruct (slice_arr_total t vs a b c) as [r [Hex _]]. rewrite Hex. discriminate. Qed.

Lemma slice_str_no_panic s a b c :
  slice_exec (VString s) (option_map VInt a) (option_map VInt b) (option_map VInt c) <> Panic.
Proof. destruct (slice_str_total s a b c) as [r [Hex _]]. rewrite Hex. discriminate. Qed.

Lemma slice_arr_no_err t vs a b c e :
  slice_exec (VArr t vs) (option_map VInt a) (option_map VInt b) (option_map VInt c) <> Err e.
Proof. destruct (slice_arr_total t vs a b c) as [r [Hex _]]. rewrite Hex. discriminate. Qed.

Lemma slice_str_no_err s a b c e :
  slice_exec (VString s) (option_map VInt a) (option_map VInt b) (option_map VInt c) <> Err e.
Proof. destruct (slice_str_total s a b c) as [r [Hex _]]. rewrite Hex. discriminate. Qed.

(* step 0 *)
Lemma py_slice_step_zero len a b : py_slice len a b (Some 0) = [].
Proof. reflexivity. Qed.

Lemma slice_arr_step_zero t vs a b :
  slice_exec (VArr t vs) (option_map VInt a) (option_map VInt b) (Some (VInt 0))
  = Ok (arr_of []).
Proof. exact (slice_exec_arr t vs a b (Some 0)). Qed.

Lemma slice_str_step_zero s a b :
  slice_exec (VString s) (option_map VInt a) (option_map VInt b) (Some (VInt 0))
  = Ok (VString []).
Proof. exact (slice_exec_str s a b (Some 0)). Qed.

(* ------------------------------------------------------------------ *)
(* 5. mutual consistency of slicing, len and indexing                  *)
(* ------------------------------------------------------------------ *)

Lemma len_arr_of r : len_exec (arr_of r) = Ok (Z.of_nat (length r)).
Proof. reflexivity. Qed.

Lemma slice_arr_len t vs a b c w :
  slice_exec (VArr t vs) (option_map VInt a) (option_map VInt b) (option_map VInt c) = Ok w ->
  len_exec w = Ok (Z.of_nat (length (py_slice (Z.of_nat (length vs)) a b c))).
Proof.
  intros Hw. destruct (slice_arr_elements t vs a b c w Hw) as [r [Hr [Hlen _]]].
  subst w. rewrite len_arr_of, Hlen. reflexivity.
Qed.

Lemma slice_str_len s a b c w :
  slice_exec (VString s) (option_map VInt a) (option_map VInt b) (option_map VInt c) = Ok w ->
  len_exec w = Ok (Z.of_nat (length (py_slice (Z.of_nat (length s)) a b c))).
Proof.
  intros Hw. destruct (slice_str_elements s a b c w Hw) as [r [Hr [Hlen _]]].
  subst w. rewrite len_str, Hlen. reflexivity.
Qed.

(* a slice is never longer than its source *)
Lemma slice_arr_len_le t vs a b c w m :
  slice_exec (VArr t vs) (option_map VInt a) (option_map VInt b) (option_map VInt c) = Ok w ->
  len_exec w = Ok m -> 0 <= m <= Z.of_nat (length vs).
Proof.
  intros Hw Hm. rewrite (slice_arr_len t vs a b c w Hw) in Hm.
  injection Hm as <-.
  pose proof (py_slice_length_le (Z.of_nat (length vs)) a b c ltac:(lia)). lia.
Qed.

Lemma slice_str_len_le s a b c w m :
  slice_exec (VString s) (option_map VInt a) (option_map VInt b) (option_map VInt c) = Ok w ->
  len_exec w = Ok m -> 0 <= m <= Z.of_nat (length s).
Proof.
  intros Hw Hm. rewrite (slice_str_len s a b c w Hw) in Hm.
  injection Hm as <-.
  pose proof (py_slice_length_le (Z.of_nat (length s)) a b c ltac:(lia)). lia.
Qed.

Lemma slice_arr_at t vs a b c w j :
  slice_exec (VArr t vs) (option_map VInt a) (option_map VInt b) (option_map VInt c) = Ok w ->
  0 <= j < Z.of_nat (length (py_slice (Z.of_nat (length vs)) a b c)) ->
  at_exec w (VInt j)
  = at_exec (VArr t vs) (VInt (nth (Z.to_nat j) (py_slice (Z.of_nat (length vs)) a b c) 0)).
Proof.
  intros Hw Hj. destruct (slice_arr_elements t vs a b c w Hw) as [r [Hr [Hlen Hnth]]].
  subst w. unfold arr_of.
  set (idx := py_slice (Z.of_nat (length vs)) a b c) in *.
  assert (Hk : 0 <= nth (Z.to_nat j) idx 0 < Z.of_nat (length vs)).
  { apply (py_slice_in_range (Z.of_nat (length vs)) a b c); [lia|]. apply nth_In. subst idx. lia. }
  rewrite at_arr_nonneg by lia.
  rewrite at_arr_nonneg by exact Hk.
  rewrite Hnth by lia. reflexivity.
Qed.

Lemma slice_str_at s a b c w j :
  slice_exec (VString s) (option_map VInt a) (option_map VInt b) (option_map VInt c) = Ok w ->
  0 <= j < Z.of_nat (length (py_slice (Z.of_nat (length s)) a b c)) ->
  at_exec w (VInt j)
  = at_exec (VString s) (VInt (nth (Z.to_nat j) (py_slice (Z.of_nat (length s)) a b c) 0)).
Proof.
  intros Hw Hj. destruct (slice_str_elements s a b c w Hw) as [r [Hr [Hlen Hnth]]].
  subst w.
  set (idx := py_slice (Z.of_nat (length s)) a b c) in *.
  assert (Hk : 0 <= nth (Z.to_nat j) idx 0 < Z.of_nat (length s)).
  { apply (py_slice_in_range (Z.of_nat (length s)) a b c); [lia|]. apply nth_In. subst idx. lia. }
  rewrite at_str_nonneg by lia.
  rewrite at_str_nonneg by exact Hk.
  rewrite Hnth by lia. reflexivity.
Qed.

(* indexing the slice result fails exactly outside [-m, m), m = its len *)
Lemma slice_arr_at_oob t vs a b c w j :
  slice_exec (VArr t vs) (option_map VInt a) (option_map VInt b) (option_map VInt c) = Ok w ->
  ~ (- Z.of_nat (length (py_slice (Z.of_nat (length vs)) a b c)) <= j
     < Z.of_nat (length (py_slice (Z.of_nat (length vs)) a b c))) ->
  at_exec w (VInt j) = Err E_IndexOutOfBounds.
Proof.
  intros Hw Hj. destruct (slice_arr_elements t vs a b c w Hw) as [r [Hr [Hlen _]]].
  subst w. unfold arr_of. apply at_arr_oob. rewrite Hlen. exact Hj.
Qed.

Lemma slice_str_at_oob s a b c w j :
  slice_exec (VString s) (option_map VInt a) (option_map VInt b) (option_map VInt c) = Ok w ->
  ~ (- Z.of_nat (length (py_slice (Z.of_nat (length s)) a b c)) <= j
     < Z.of_nat (length (py_slice (Z.of_nat (length s)) a b c))) ->
  at_exec w (VInt j) = Err E_IndexOutOfBounds.
Proof.
  intros Hw Hj. destruct (slice_str_elements s a b c w Hw) as [r [Hr [Hlen _]]].
  subst w. apply at_str_oob. rewrite Hlen. exact Hj.
Qed.

(* ---- full slice and reversal ---- *)

Lemma py_count_full n : 0 <= n -> py_count 0 n 1 = n.
Proof.
  intros Hn. unfold py_count. change (1 <? 0) with false. cbv iota.
  destruct (0 <? n) eqn:E; [apply Z.ltb_lt in E|apply Z.ltb_ge in E].
  - rewrite Z.div_1_r. lia.
  - lia.
Qed.

Lemma py_count_rev n : 0 <= n -> py_count (n - 1) (-1) (-1) = n.
Proof.
  intros Hn. unfold py_count. change (-1 <? 0) with true. cbv iota.
  change (- (-1)) with 1.
  destruct (-1 <? n - 1) eqn:E; [apply Z.ltb_lt in E|apply Z.ltb_ge in E].
  - rewrite Z.div_1_r. lia.
  - lia.
Qed.

Lemma py_slice_full_prog n :
  0 <= n -> py_slice n None None None = arith_prog 0 1 (Z.to_nat n).
Proof.
  intros Hn. rewrite py_slice_unfold. cbn [step_of].
  change (1 =? 0) with false. cbv iota.
  change (py_start n 1 None) with 0. change (py_stop n 1 None) with n.
  rewrite py_count_full by exact Hn. reflexivity.
Qed.

Lemma py_slice_full n :
  0 <= n -> py_slice n None None None = map Z.of_nat (seq 0 (Z.to_nat n)).
Proof.
  intros Hn. rewrite py_slice_full_prog by exact Hn. unfold arith_prog.
  apply map_ext. intros k. lia.
Qed.

Lemma py_slice_rev_prog n :
  0 <= n -> py_slice n None None (Some (-1)) = arith_prog (n - 1) (-1) (Z.to_nat n).
Proof.
  intros Hn. rewrite py_slice_unfold. cbn [step_of].
  change (-1 =? 0) with false. cbv iota.
  change (py_start n (-1) None) with (n - 1). change (py_stop n (-1) None) with (-1).
  rewrite py_count_rev by exact Hn. reflexivity.
Qed.

Lemma py_slice_rev n :
  0 <= n ->
  py_slice n None None (Some (-1))
  = map (fun k => n - 1 - Z.of_nat k) (seq 0 (Z.to_nat n)).
Proof.
  intros Hn. rewrite py_slice_rev_prog by exact Hn. unfold arith_prog.
  apply map_ext. intros k. lia.
Qed.

Lemma select_full {A} (l : list A) :
  select l (py_slice (Z.of_nat (length l)) None None None) = Some l.
Proof.
  destruct (select_py_slice l None None None) as [r [Hsel [Hlen Hnth]]].
  rewrite Hsel. f_equal.
  rewrite py_slice_full_prog in Hlen, Hnth by lia.
  rewrite arith_prog_length, Nat2Z.id in Hlen, Hnth.
  apply nth_error_ext_eq; [exact Hlen|].
  intros j Hj. rewrite Hnth by lia.
  rewrite arith_prog_nth by lia.
  f_equal. lia.
Qed.

Lemma nth_error_rev {A} (l : list A) j :
  (j < length l)%nat -> nth_error (rev l) j = nth_error l (length l - S j).
Proof.
  intros Hj. destruct l as [|d l']; [cbn in Hj; lia|].
  set (l := d :: l') in *.
  rewrite (nth_error_nth' (rev l) d) by (rewrite rev_length; exact Hj).
  rewrite (nth_error_nth' l d) by lia.
  f_equal. apply rev_nth. exact Hj.
Qed.

Lemma select_rev {A} (l : list A) :
  select l (py_slice (Z.of_nat (length l)) None None (Some (-1))) = Some (rev l).
Proof.
  destruct (select_py_slice l None None (Some (-1))) as [r [Hsel [Hlen Hnth]]].
  rewrite Hsel. f_equal.
  rewrite py_slice_rev_prog in Hlen, Hnth by lia.
  rewrite arith_prog_length, Nat2Z.id in Hlen, Hnth.
  apply nth_error_ext_eq; [rewrite rev_length; exact Hlen|].
  intros j Hj. rewrite Hnth by lia.
  rewrite arith_prog_nth by lia.
  rewrite nth_error_rev by lia.
  f_equal. lia.
Qed.

Lemma slice_arr_full t vs :
  slice_exec (VArr t vs) None None None = Ok (arr_of vs).
Proof.
  pose proof (slice_exec_arr t vs None None None) as H. cbn [option_map] in H.
  rewrite H, select_full. reflexivity.
Qed.

Lemma slice_str_full s :
  slice_exec (VString s) None None None = Ok (VString s).
Proof.
  pose proof (slice_exec_str s None None None) as H. cbn [option_map] in H.
  rewrite H, select_full. reflexivity.
Qed.

Lemma slice_arr_rev t vs :
  slice_exec (VArr t vs) None None (Some (VInt (-1))) = Ok (arr_of (rev vs)).
Proof.
  pose proof (slice_exec_arr t vs None None (Some (-1))) as H. cbn [option_map] in H.
  rewrite H, select_rev. reflexivity.
Qed.

Lemma slice_str_rev s :
  slice_exec (VString s) None None (Some (VInt (-1))) = Ok (VString (rev s)).
Proof.
  pose proof (slice_exec_str s None None (Some (-1))) as H. cbn [option_map] in H.
  rewrite H, select_rev. reflexivity.
Qed.

(* a non-integer slice operand is the only way to reach Panic on a sequence *)
Lemma slice_exec_seq_ok_iff v a b c :
  (exists t vs, v = VArr t vs) \/ (exists s, v = VString s) ->
  (exists w, slice_exec v a b c = Ok w) <->
  (exists a' b' c', a = option_map VInt a' /\ b = option_map VInt b' /\ c = option_map VInt c').
Proof.
  intros Hv. split.
  - intros [w Hw]. unfold slice_exec in Hw.
    assert (Hopt : forall o, (exists z, opt_int o = Ok z) -> exists o', o = option_map VInt o').
    { intros [[] |] [zz Hz]; cbn in Hz; try discriminate;
        [eexists (Some _)|exists None]; reflexivity. }
    destruct (opt_int a) as [a'| | |] eqn:Ea; try discriminate.
    destruct (opt_int b) as [b'| | |] eqn:Eb; try discriminate.
    destruct (opt_int c) as [c'| | |] eqn:Ec; try discriminate.
    destruct (Hopt a (ex_intro _ a' Ea)) as [a'' ->].
    destruct (Hopt b (ex_intro _ b' Eb)) as [b'' ->].
    destruct (Hopt c (ex_intro _ c' Ec)) as [c'' ->].
    exists a'', b'', c''. repeat split; reflexivity.
  - intros [a' [b' [c' [-> [-> ->]]]]].
    destruct Hv as [[t [vs ->]]|[s ->]].
    + destruct (slice_arr_total t vs a' b' c') as [r [Hex _]]. eauto.
    + destruct (slice_str_total s a' b' c') as [r [Hex _]]. eauto.
Qed.

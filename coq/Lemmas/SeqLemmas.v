(* Lemmas about Model/Seq.v *)
From SSL.Model Require Import Base Ty Float Value Seq.
From Coq Require Import ZArith Lia.
Local Open Scope Z_scope.

Lemma len_arr t vs : len_exec (VArr t vs) = Ok (Z.of_nat (length vs)).
Proof. reflexivity. Qed.
Lemma len_str s : len_exec (VString s) = Ok (Z.of_nat (length s)).
Proof. reflexivity. Qed.

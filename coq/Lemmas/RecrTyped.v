(* RecrTyped.v — the hypotheses of the preservation theorems follow from the typing
   judgement of layer 3 (Lemmas/SoundTyping.v), i.e. from what the checker guarantees
   (Lemmas/Bridge1.v):
     typed i      ->  wfi cl false i   (closures only if the policy admits them)
     typed_line i ->  wfi cl true i
     typed i'     ->  dok i'
   and, with execution soundness (C01b), typed programs never panic, so the side condition
   "not SPanic" of the preservation theorems disappears ([sim_line_typed]). *)
From SSL.Model Require Import Base Ty Float Value Ops Seq Syntax Rt Recreate Exec Check Top.
From SSL.Lemmas Require Import TyLemmas ValueLemmas ExecLemmas SoundLemmas SoundDefs SoundVals SoundTyping
  RecrMono RecrDefs.

Arguments matches : simpl never.

Section WithFlag.
Context {FL : Policy}.
Variable cl : bool.
(* closure creation only if cl = true *)
Hypothesis cl_ok : forall W0 G nm ps body r,
  closure_ok W0 G nm ps body r -> wf_ty (TFun (map snd ps) r) = true -> cl = true.

Theorem typed_wfi_all W0 :
  (forall G K i T, typed W0 G K i T -> wfi cl false i = true) /\
  (forall G K es Ts, typed_all W0 G K es Ts -> forallb (wfi cl false) es = true) /\
  (forall G K fs acc out, typed_fields W0 G K fs acc out ->
     forallb (fun kv => wfi cl false (snd kv)) fs = true) /\
  (forall G K o, typed_opt W0 G K o -> wf_opt cl o = true) /\
  (forall G K i T G', typed_line W0 G K i T G' -> wfi cl true i = true) /\
  (forall G K l G' Ts, typed_list W0 G K l G' Ts -> forallb (wfi cl true) l = true) /\
  (forall G K arms Ts, typed_arms W0 G K arms Ts -> forallb (wf_arm cl) arms = true).
Proof.
  apply typed_mutind; intros; cbn [wfi wf_opt wf_arm forallb snd un_ok andb];
    fold (wf_opt cl); fold (wf_arm cl);
    repeat match goal with H : _ = true |- _ => rewrite H end;
    try reflexivity.
  - (* slice *)
    change (match a with Some x => wfi cl false x | None => true end) with (wf_opt cl a).
    change (match b with Some x => wfi cl false x | None => true end) with (wf_opt cl b).
    change (match c with Some x => wfi cl false x | None => true end) with (wf_opt cl c).
    repeat match goal with H : _ = true |- _ => rewrite H end. reflexivity.
  - (* match *)
    match goal with |- context [match a with ArmValue _ _ => _ | ArmType _ _ _ => _ | ArmOther _ => _ end] =>
      fold (wf_arm cl a) end.
    match goal with H : forallb (wf_arm cl) (_ :: _) = true |- _ =>
      cbn [forallb] in H; rewrite H end. reflexivity.
  - (* anon fn *) erewrite cl_ok by eassumption. reflexivity.
  - (* line: statement *) apply wfi_line. assumption.
  - (* fn decl *) erewrite cl_ok by eassumption. reflexivity.
Qed.

Theorem typed_wfi W0 G K i T : typed W0 G K i T -> wfi cl false i = true.
Proof. apply (typed_wfi_all W0). Qed.
Theorem typed_line_wfi W0 G K i T G' : typed_line W0 G K i T G' -> wfi cl true i = true.
Proof. apply (typed_wfi_all W0). Qed.
Theorem typed_list_wfi W0 G K l G' Ts : typed_list W0 G K l G' Ts -> forallb (wfi cl true) l = true.
Proof. apply (typed_wfi_all W0). Qed.

Theorem typed_dok_all W0 :
  (forall G K i T, typed W0 G K i T -> dok i = true) /\
  (forall G K es Ts, typed_all W0 G K es Ts -> forallb dok es = true) /\
  (forall G K fs acc out, typed_fields W0 G K fs acc out ->
     forallb (fun kv => dok (snd kv)) fs = true) /\
  (forall G K o, typed_opt W0 G K o -> dok_opt o = true) /\
  (forall G K i T G', typed_line W0 G K i T G' -> dok i = true) /\
  (forall G K l G' Ts, typed_list W0 G K l G' Ts -> forallb dok l = true) /\
  (forall G K arms Ts, typed_arms W0 G K arms Ts -> forallb dok_arm arms = true).
Proof.
  apply typed_mutind; intros; cbn [dok dok_opt dok_arm forallb snd andb];
    fold dok_opt; fold dok_arm;
    repeat match goal with H : _ = true |- _ => rewrite H end;
    try reflexivity.
  - (* slice *)
    change (match a with Some x => dok x | None => true end) with (dok_opt a).
    change (match b with Some x => dok x | None => true end) with (dok_opt b).
    change (match c with Some x => dok x | None => true end) with (dok_opt c).
    repeat match goal with H : _ = true |- _ => rewrite H end. reflexivity.
  - (* match *)
    match goal with |- context [match a with ArmValue _ _ => _ | ArmType _ _ _ => _ | ArmOther _ => _ end] =>
      fold (dok_arm a) end.
    match goal with H : forallb dok_arm (_ :: _) = true |- _ =>
      cbn [forallb] in H; rewrite H end. reflexivity.
  - (* destructuring *)
    rewrite andb_true_r.
    match goal with Hx : typed W0 G K x T |- _ => pose proof (typed_rt W0 G K x T Hx) as HR end.
    unfold dcond. rewrite HR.
    match goal with H : _ \/ _ |- _ => destruct H as [[Hf Hl]|[-> _]] end.
    + rewrite Hf, Hl, Nat.leb_refl. destruct x; try reflexivity.
    + cbn [flatten_tuple]. destruct x; reflexivity.
Qed.

Theorem typed_dok W0 G K i T : typed W0 G K i T -> dok i = true.
Proof. apply (typed_dok_all W0). Qed.
Theorem typed_line_dok W0 G K i T G' : typed_line W0 G K i T G' -> dok i = true.
Proof. apply (typed_dok_all W0). Qed.
Theorem typed_list_dok W0 G K l G' Ts : typed_list W0 G K l G' Ts -> forallb dok l = true.
Proof. apply (typed_dok_all W0). Qed.

End WithFlag.

(* SoundTyping.v — layer 3: the typing judgement for instructions and the typing
   of run-time configurations.

   [typed W0 G K i T]   instruction i has static type T in environment G (names ->
                        types, innermost binding first) and context K (inside a loop?
                        result type of the enclosing function?).  One rule per
                        construct, with exactly the side conditions the checker
                        (Model/Check.v) tests before it builds the instruction.  W0
                        types the constants that occur in the tree.
   [typed_list W0 G K l G' Ts]  a statement list; `x := e` and `(a, b) := e` extend
                        the environment for the FOLLOWING statements.
   [typed_rt]           rt i = Ok T   (the judgement agrees with ReturnType).
   [typed_wf]           T is a well-formed type. *)
From SSL.Model Require Import Base Ty Float Value Ops Seq Syntax Rt Recreate Exec Check.
From SSL.Lemmas Require Import TyLemmas ValueLemmas SeqLemmas ExecLemmas SoundLemmas CellLemmas
  SoundDefs SoundVals.

Arguments matches : simpl never.
Arguments ty_eqb : simpl never.
Arguments concat : simpl never.

Record kctx : Type := mkK { in_loop : bool; ret : option ty }.
Definition genv := list (name * ty).

(* (a, b, ..) := e : the names are bound left to right (a later duplicate wins) *)
Fixpoint bind_tys (ids : list name) (ts : list ty) (G : genv) : genv :=
  match ids, ts with
  | n :: ids, t :: ts => bind_tys ids ts ((n, t) :: G)
  | _, _ => G
  end.

Definition logic_op (o : binop) : bool := match o with And | Or => true | _ => false end.

(* a query of Ty.v answers on the operand type — or the operand has type `!` (it never
   yields a value), and then so has the result (ReturnType: `.unwrap_or(!)`) *)
Definition qres (q : ty -> option ty) (T R : ty) : Prop :=
  q T = Some R \/ (T = TNever /\ R = TNever).

(* f(args): the arguments fit the parameters of EVERY function type f may have
   (implied by the checker's test against Type::params, the meet of those parameter lists) *)
Definition fun_member_ok (Ta : list ty) (m : ty) : bool :=
  match m with TFun p _ => args_ok p Ta | _ => false end.
Definition call_ok (Tf : ty) (Ta : list ty) : bool :=
  match Tf with
  | TMulti ms => forallb (fun_member_ok Ta) ms
  | _ => fun_member_ok Ta Tf
  end.
(* a local-variable node never carries a constant: the checker and the constant-propagation
   pass replace such names by the constant itself *)
Definition lvar_const (lv : lvar) : bool := match lv with LVariable _ => true | _ => false end.
(* the argument list of a call is a tuple literal (or the constant it was folded to) *)
Definition is_args (a : instr) : bool :=
  match a with ITuple _ => true | IVar (VTup _) => true | _ => false end.

(* the environment a closure body runs in: own name (if any), then the parameters *)
Definition param_env (c : closure) : genv :=
  fold_left (fun g p => (fst p, snd p) :: g) (c_params c)
    (match c_name c with
     | Some n => [(n, TFun (map snd (c_params c)) (c_ret c))]
     | None => []
     end).

(* the environment of a closure that is being created: like [param_env] *)
Definition closure_env (nm : option name) (ps : params) (r : ty) : genv :=
  fold_left (fun g p => (fst p, snd p) :: g) ps
    (match nm with Some n => [(n, TFun (map snd ps) r)] | None => [] end).

Lemma param_env_closure_env c : param_env c = closure_env (c_name c) (c_params c) (c_ret c).
Proof. reflexivity. Qed.

(* [closure_ok W0 G nm ps body r]: a POLICY saying which closure literals (name, parameters,
   body, result type, in environment G) the closure-CREATION rules (IAnonFn, IFnDecl) accept.
   Creating a closure runs the constant-propagation pass over its body; the soundness of
   the two rules rests on a property of that pass on the accepted bodies
   (Sound5.recreate_ok).  With the empty policy the rules are absent; for the policy that
   accepts every literal the property is proved (SoundRec3.recreate_ok_all). *)
Class Policy : Type :=
  closure_ok : sty -> genv -> option name -> params -> list instr -> ty -> Prop.

(* ---- stage 6: the iterator operators ---- *)
Definition it_of (E : ty) : ty := TFun [] (TTup [TBool; E]).
(* the element type ReturnType computes for an iterator type (`.unwrap_or(!)`) *)
Definition ielem (T : ty) : ty := match iter_element T with Some e => e | None => TNever end.
(* `$+`, `$*` are not instructions of a checked program any more: the checker plants the
   reducer call chosen by the STATIC type of the operand (Check.plant_reducer), a plain call
   (T_Call), or a `match` over the iterator types the static type allows (T_Match). *)

(* the policy without closure creation and without iterator operators: it accepts the
   reserved key only (see [iter_gate] below) *)
Definition no_fn_policy : Policy := fun _ _ nm _ _ r => nm = Some [] /\ r = TMulti [].

Section WithFlag.
Context {FL : Policy}.

(* the iterator operators go through the closure policy as well: they are allowed when the
   policy REJECTS a reserved key (a "literal" named by the empty name, holding the operation,
   with the ill-formed result type `TMulti []` that no closure rule can carry).  A policy that
   accepts everything thus has no iterator rules (the proof that the constant-propagation
   pass preserves typing needs that: it does NOT preserve the rules that read the element
   type off the static type, C01b.recreate_iterator_refuted); Sound7.policy6 rejects the key. *)
Definition iter_gate (W0 : sty) (G : genv) (i : instr) : Prop :=
  ~ closure_ok W0 G (Some []) [] [i] (TMulti []).

Inductive typed (W0 : sty) : genv -> kctx -> instr -> ty -> Prop :=
(* ---- stage 1: expressions without store effects ---- *)
| T_Var G K v : vgood W0 v -> typed W0 G K (IVar v) (as_type v)
| T_Local G K n lv :
    lvar_const lv = false ->
    assoc n G = Some (lvar_type lv) -> typed W0 G K (ILocal n lv) (lvar_type lv)
| T_Tuple G K es Ts : typed_all W0 G K es Ts -> typed W0 G K (ITuple es) (TTup Ts)
| T_Array G K es Ts et :
    typed_all W0 G K es Ts -> wf_ty et = true -> matches (join_all Ts) et = true ->
    typed W0 G K (IArray es et) (TArr et)
| T_Repeat G K v len T Tl :
    typed W0 G K v T -> typed W0 G K len Tl -> matches Tl TInt = true ->
    typed W0 G K (IArrayRepeat v len) (TArr T)
| T_Struct G K fs acc :
    typed_fields W0 G K fs [] acc -> typed W0 G K (IStruct fs) (TStruct acc)
| T_TupleAccess G K x k T R :
    typed W0 G K x T -> qres (tuple_element_at k) T R -> typed W0 G K (ITupleAccess x k) R
| T_FieldAccess G K x f T R :
    typed W0 G K x T -> qres (field_type f) T R -> typed W0 G K (IFieldAccess x f) R
| T_BinPure G K op l r T1 T2 R :
    pure_op op = true -> typed W0 G K l T1 -> typed W0 G K r T2 ->
    can_be_used op T1 T2 = Ok true -> bin_rt op T1 T2 = Ok R ->
    typed W0 G K (IBin op l r) R
| T_At G K l r T Ti R :
    typed W0 G K l T -> typed W0 G K r Ti -> matches Ti TInt = true ->
    can_be_indexed T = true -> qres index_result T R ->
    typed W0 G K (IBin At l r) R
| T_Logic G K op l r T1 T2 :
    logic_op op = true -> typed W0 G K l T1 -> typed W0 G K r T2 ->
    matches T1 TBool = true -> matches T2 TBool = true ->
    typed W0 G K (IBin op l r) TBool
| T_Not G K x T :
    typed W0 G K x T -> matches T ACC_NOT = true -> typed W0 G K (IUn UNot x) T
| T_Neg G K x T :
    typed W0 G K x T -> matches T ACC_NEG = true -> typed W0 G K (IUn UUnaryMinus x) T
| T_Slice G K l a b c T :
    typed W0 G K l T -> can_be_indexed T = true ->
    typed_opt W0 G K a -> typed_opt W0 G K b -> typed_opt W0 G K c ->
    typed W0 G K (ISlicing l a b c) T
(* ---- stage 2: statements ---- *)
| T_Block G K body G' Ts :
    typed_list W0 G K body G' Ts -> typed W0 G K (IBlock body) (last Ts TVoid)
| T_If G K c t f Tc Tt Tf :
    typed W0 G K c Tc -> matches Tc TBool = true -> typed W0 G K t Tt -> typed W0 G K f Tf ->
    typed W0 G K (IIfElse c t f) (concat Tt Tf)
| T_SetIf G K n t x ifm els Tx Ta Tb :
    wf_ty t = true -> typed W0 G K x Tx ->
    typed W0 ((n, t) :: G) K ifm Ta -> typed W0 G K els Tb ->
    typed W0 G K (ISetIfElse n t x ifm els) (concat Ta Tb)
| T_Match G K x a arms Tx Ta Ts :
    typed W0 G K x Tx -> typed_arms W0 G K (a :: arms) (Ta :: Ts) ->
    match_covers (a :: arms) Tx = true ->
    typed W0 G K (IMatch x (a :: arms)) (fold_left concat Ts Ta)
| T_Loop G K b Tb :
    typed W0 G (mkK true (ret K)) b Tb -> typed W0 G K (ILoop b) TVoid
| T_Break G K : in_loop K = true -> typed W0 G K IBreak TNever
| T_Continue G K : in_loop K = true -> typed W0 G K IContinue TNever
| T_Return G K x T Tr :
    typed W0 G K x T -> ret K = Some Tr -> matches T Tr = true ->
    typed W0 G K (IUn UReturn x) TNever
(* ---- stage 3: cells ---- *)
| T_Mut G K t x T :
    wf_ty t = true -> typed W0 G K x T -> matches T t = true -> typed W0 G K (IMut t x) (TMut t)
| T_Deref G K x T R :
    typed W0 G K x T -> qres mut_element_type_spec T R -> typed W0 G K (IUn UIndirection x) R
| T_Assign G K l r L T2 :
    typed W0 G K l L -> typed W0 G K r T2 ->
    can_be_used Assign L T2 = Ok true \/ L = TNever ->
    typed W0 G K (IBin Assign l r) T2
| T_OpAssign G K aop bop l r L R T2 :
    assign_base aop = Some bop -> typed W0 G K l L -> typed W0 G K r T2 ->
    (can_be_used aop L T2 = Ok true /\ mut_element_type_spec L = Some R) \/
    (L = TNever /\ R = TNever) ->
    typed W0 G K (IBin aop l r) R
(* ---- stage 4: calls ---- *)
| T_Call G K f a Tf Ta R :
    typed W0 G K f Tf -> is_args a = true -> typed W0 G K a (TTup Ta) ->
    (call_ok Tf Ta = true /\ fn_return_type Tf = Some R) \/ (Tf = TNever /\ R = TNever) ->
    typed W0 G K (IBin FunctionCall f a) R
(* ---- stage 4b: closure creation (only with [allow_fn]) ---- *)
| T_AnonFn G K ps body r G' Ts :
    closure_ok W0 G None ps body r -> wf_ty (TFun (map snd ps) r) = true ->
    typed_list W0 (closure_env None ps r ++ G) (mkK false (Some r)) body G' Ts ->
    (matches TVoid r = true \/ In TNever Ts) ->
    typed W0 G K (IAnonFn ps body r) (TFun (map snd ps) r)
(* ---- stage 6: iterator operators ---- *)
| T_Collect G K x T :
    iter_gate W0 G (IUn UCollect x) -> typed W0 G K x T ->
    matches T (it_of (ielem T)) = true ->
    typed W0 G K (IUn UCollect x) (TArr (ielem T))
| T_Reduce G K it init f Ti T0 Tf El R :
    iter_gate W0 G (IReduce it init f) ->
    typed W0 G K it Ti -> typed W0 G K init T0 -> typed W0 G K f Tf ->
    wf_ty El = true -> matches Ti (it_of El) = true -> fn_return_type Tf = Some R ->
    matches Tf (TFun [concat (concat T0 El) R; El] R) = true ->
    typed W0 G K (IReduce it init f) (concat R T0)
| T_TypeFilter G K x t T d :
    iter_gate W0 G (ITypeFilter x t) -> typed W0 G K x T -> wf_ty t = true ->
    is_iterator T = true -> of_type t = Some d ->
    typed W0 G K (ITypeFilter x t) (it_of t)
(* it \ p (partition): the checker's test [filter_ok], and the operand is an iterator *)
| T_Partition G K l r Tl Tr El :
    iter_gate W0 G (IBin Partition l r) -> typed W0 G K l Tl -> typed W0 G K r Tr ->
    iter_element Tl = Some El -> matches Tl (it_of El) = true -> matches Tr (TFun [El] TBool) = true ->
    typed W0 G K (IBin Partition l r) (TTup [TArr El; TArr El])

with typed_all (W0 : sty) : genv -> kctx -> list instr -> list ty -> Prop :=
| TAll_nil G K : typed_all W0 G K [] []
| TAll_cons G K x es T Ts :
    typed W0 G K x T -> typed_all W0 G K es Ts -> typed_all W0 G K (x :: es) (T :: Ts)

with typed_fields (W0 : sty) : genv -> kctx -> list (name * instr) -> list (ident * ty) -> list (ident * ty) -> Prop :=
| TF_nil G K acc : typed_fields W0 G K [] acc acc
| TF_cons G K k x fs T acc out :
    typed W0 G K x T -> typed_fields W0 G K fs (struct_ty_insert k T acc) out ->
    typed_fields W0 G K ((k, x) :: fs) acc out

with typed_opt (W0 : sty) : genv -> kctx -> option instr -> Prop :=
| TO_none G K : typed_opt W0 G K None
| TO_some G K x T : typed W0 G K x T -> matches T TInt = true -> typed_opt W0 G K (Some x)

with typed_line (W0 : sty) : genv -> kctx -> instr -> ty -> genv -> Prop :=
| Ln_stm G K x T : typed W0 G K x T -> typed_line W0 G K x T G
| Ln_set G K n x T : typed W0 G K x T -> typed_line W0 G K (ISet n x) T ((n, T) :: G)
| Ln_destruct G K ids x T ts :
    typed W0 G K x T ->
    (flatten_tuple T = Some ts /\ length ts = length ids) \/
    (T = TNever /\ ts = map (fun _ => TNever) ids) ->
    typed_line W0 G K (IDestruct ids x) T (bind_tys ids ts G)
| Ln_fndecl G K n ps body r G' Ts :
    closure_ok W0 G (Some n) ps body r -> wf_ty (TFun (map snd ps) r) = true ->
    existsb (fun p => ident_eqb n (fst p)) ps = false ->
    typed_list W0 (closure_env (Some n) ps r ++ G) (mkK false (Some r)) body G' Ts ->
    (matches TVoid r = true \/ In TNever Ts) ->
    typed_line W0 G K (IFnDecl n ps body r) (TFun (map snd ps) r) ((n, TFun (map snd ps) r) :: G)

with typed_list (W0 : sty) : genv -> kctx -> list instr -> genv -> list ty -> Prop :=
| TL_nil G K : typed_list W0 G K [] G []
| TL_cons G K x l T G1 G' Ts :
    typed_line W0 G K x T G1 -> typed_list W0 G1 K l G' Ts ->
    typed_list W0 G K (x :: l) G' (T :: Ts)

with typed_arms (W0 : sty) : genv -> kctx -> list arm -> list ty -> Prop :=
| TA_nil G K : typed_arms W0 G K [] []
| TA_type G K n t b arms Tb Ts :
    wf_ty t = true -> typed W0 ((n, t) :: G) K b Tb -> typed_arms W0 G K arms Ts ->
    typed_arms W0 G K (ArmType n t b :: arms) (Tb :: Ts)
| TA_value G K cs Tcs b arms Tb Ts :
    typed_all W0 G K cs Tcs -> typed W0 G K b Tb -> typed_arms W0 G K arms Ts ->
    typed_arms W0 G K (ArmValue cs b :: arms) (Tb :: Ts)
| TA_other G K b arms Tb Ts :
    typed W0 G K b Tb -> typed_arms W0 G K arms Ts ->
    typed_arms W0 G K (ArmOther b :: arms) (Tb :: Ts).

Scheme typed_mut := Minimality for typed Sort Prop
  with typed_all_mut := Minimality for typed_all Sort Prop
  with typed_fields_mut := Minimality for typed_fields Sort Prop
  with typed_opt_mut := Minimality for typed_opt Sort Prop
  with typed_line_mut := Minimality for typed_line Sort Prop
  with typed_list_mut := Minimality for typed_list Sort Prop
  with typed_arms_mut := Minimality for typed_arms Sort Prop.
Combined Scheme typed_mutind from
  typed_mut, typed_all_mut, typed_fields_mut, typed_opt_mut, typed_line_mut, typed_list_mut,
  typed_arms_mut.

(* ================================================================= *)
(* typed configurations                                               *)
(* ================================================================= *)
Definition cells_ok (W : sty) (st : store) : Prop :=
  length (cells_t W) = length (s_cells st) /\
  forall loc t, nth_error (cells_t W) loc = Some t ->
    exists c, nth_error (s_cells st) loc = Some c /\ gv W c t.

(* a closure body: a typed statement list in function context; it cannot fall off
   its end unless `()` inhabits the result type (Check.missing_return) *)
Definition body_ok (W : sty) (c : closure) : Prop :=
  match c_body c with
  | BLang body =>
      exists W0 G' Ts, ext W0 W /\
        typed_list W0 (param_env c) (mkK false (Some (c_ret c))) body G' Ts /\
        (matches TVoid (c_ret c) = true \/ In TNever Ts)
  | BNative _ =>
      exists T, c_params c = [(n_variable, T)] /\ can_be_indexed T = true /\ c_ret c = TInt
  end.

Definition funs_ok (W : sty) (st : store) : Prop :=
  length (funs_t W) = length (s_funs st) /\
  forall id c sg, nth_error (s_funs st) id = Some c ->
    nth_error (funs_t W) id = Some (Some sg) ->
    sg = (map snd (c_params c), c_ret c) /\
    wf_ty (TFun (map snd (c_params c)) (c_ret c)) = true /\
    body_ok W c.

Definition store_ok (W : sty) (st : store) : Prop := cells_ok W st /\ funs_ok W st.

Definition env_ok (W : sty) (sc : scopes) (G : genv) : Prop :=
  forall n T, assoc n G = Some T ->
    wf_ty T = true /\ exists v, scopes_get n sc = Some v /\ gv W v T.

Definition genv_wf (G : genv) : Prop := forall n T, assoc n G = Some T -> wf_ty T = true.

Lemma env_ok_wf W sc G : env_ok W sc G -> genv_wf G.
Proof. intros H n T Hn. apply (H n T Hn). Qed.

Lemma env_ok_mono W W' sc G : ext W W' -> env_ok W sc G -> env_ok W' sc G.
Proof.
  intros E H n T Hn. destruct (H n T Hn) as [Wt [v [Hv Hg]]]. split; [exact Wt|].
  exists v. split; [exact Hv|]. apply (gv_mono W W'); assumption.
Qed.

Lemma genv_wf_cons n T G : wf_ty T = true -> genv_wf G -> genv_wf ((n, T) :: G).
Proof.
  intros Wt H m U Hm. cbn [assoc] in Hm. destruct (ident_eqb m n).
  - injection Hm as <-. exact Wt.
  - apply (H m U Hm).
Qed.

Lemma genv_wf_bind ids : forall ts G,
  forallb wf_ty ts = true -> genv_wf G -> genv_wf (bind_tys ids ts G).
Proof.
  induction ids as [|n ids IH]; intros [|t ts] G Hts HG; cbn [bind_tys]; try exact HG.
  cbn [forallb] in Hts. apply andb_true_iff in Hts. destruct Hts as [Ht Hts].
  apply IH; [exact Hts|]. apply genv_wf_cons; assumption.
Qed.

(* ================================================================= *)
(* the judgement agrees with ReturnType::return_type                  *)
(* ================================================================= *)
Definition rts_def : list instr -> outcome (list ty) :=
  fix go (l : list instr) : outcome (list ty) :=
    match l with
    | [] => Ok []
    | x :: l => obind (rt x) (fun t => obind (go l) (fun ts => Ok (t :: ts)))
    end.

Definition rt_fields_def : list (name * instr) -> list (ident * ty) -> oty :=
  fix go (l : list (name * instr)) (acc : list (ident * ty)) : oty :=
    match l with
    | [] => Ok (TStruct acc)
    | (k, i) :: l => obind (rt i) (fun t => go l (struct_ty_insert k t acc))
    end.

Definition rt_last_def : list instr -> oty :=
  fix last (l : list instr) : oty :=
    match l with
    | [] => Ok TVoid
    | [x] => rt x
    | _ :: l => last l
    end.

Definition arm_body (a : arm) : instr :=
  match a with ArmType _ _ i | ArmValue _ i | ArmOther i => i end.

Definition rt_arms_def : list arm -> option ty -> oty :=
  fix go (l : list arm) (acc : option ty) : oty :=
    match l with
    | [] => lift_opt acc
    | a :: l =>
        obind (match a with ArmType _ _ i | ArmValue _ i | ArmOther i => rt i end)
              (fun t => go l (Some (match acc with Some u => concat u t | None => t end)))
    end.

Lemma rt_ITuple es : rt (ITuple es) = obind (rts_def es) (fun ts => Ok (TTup ts)).
Proof. reflexivity. Qed.
Lemma rt_IStruct fs : rt (IStruct fs) = rt_fields_def fs [].
Proof. reflexivity. Qed.
Lemma rt_IBlock body : rt (IBlock body) = rt_last_def body.
Proof. reflexivity. Qed.
Lemma rt_IMatch x arms : rt (IMatch x arms) = rt_arms_def arms None.
Proof. reflexivity. Qed.

Lemma rt_last_Forall2 l Ts :
  Forall2 (fun x T => rt x = Ok T) l Ts -> rt_last_def l = Ok (last Ts TVoid).
Proof.
  intros H. induction H as [|x T l Ts Hx H IH]; [reflexivity|].
  destruct H as [|y U l Ts Hy H]; [exact Hx|]. exact IH.
Qed.

Lemma rt_arms_Forall2 arms Ts : forall acc,
  Forall2 (fun a T => rt (arm_body a) = Ok T) arms Ts ->
  rt_arms_def arms (Some acc) = Ok (fold_left concat Ts acc).
Proof.
  intros acc H. revert acc. induction H as [|a T arms Ts Ha H IH]; intros acc; [reflexivity|].
  destruct a; cbn [rt_arms_def fold_left arm_body] in *; rewrite Ha; cbn [obind]; apply IH.
Qed.

Lemma opassign_rt aop bop L T2 :
  assign_base aop = Some bop -> bin_rt aop L T2 = lift_opt (mut_element_type_spec L).
Proof. destruct aop; intros H; try discriminate H; reflexivity. Qed.

Lemma logic_rt op T1 T2 : logic_op op = true -> bin_rt op T1 T2 = Ok TBool.
Proof. destruct op; intros H; try discriminate H; reflexivity. Qed.

Lemma qres_lift (q : ty -> option ty) T R :
  q TNever = None -> qres q T R -> lift_opt (q T) = Ok R.
Proof. intros Hn [H|[-> ->]]; [rewrite H|rewrite Hn]; reflexivity. Qed.

Theorem typed_rt_all W0 :
  (forall G K i T, typed W0 G K i T -> rt i = Ok T) /\
  (forall G K es Ts, typed_all W0 G K es Ts -> rts_def es = Ok Ts) /\
  (forall G K fs acc out, typed_fields W0 G K fs acc out -> rt_fields_def fs acc = Ok (TStruct out)) /\
  (forall G K o, typed_opt W0 G K o -> True) /\
  (forall G K i T G', typed_line W0 G K i T G' -> rt i = Ok T) /\
  (forall G K l G' Ts, typed_list W0 G K l G' Ts -> Forall2 (fun x T => rt x = Ok T) l Ts) /\
  (forall G K arms Ts, typed_arms W0 G K arms Ts ->
     Forall2 (fun a T => rt (arm_body a) = Ok T) arms Ts).
Proof.
  apply typed_mutind; intros; try exact I; try (constructor; assumption);
    try (rewrite ?rt_ITuple, ?rt_IStruct, ?rt_IBlock; cbn [rt];
         repeat match goal with H : rt _ = Ok _ |- _ => rewrite H; clear H end;
         repeat match goal with H : rts_def _ = Ok _ |- _ => rewrite H; clear H end;
         cbn [obind bin_rt un_rt];
         first [ reflexivity
               | assumption
               | apply qres_lift; [reflexivity|assumption]
               | apply logic_rt; assumption
               | apply rt_last_Forall2; assumption ]).
  - (* match *) rewrite rt_IMatch.
    match goal with H : Forall2 _ (a :: arms) (Ta :: Ts) |- _ =>
      inversion H as [|a0 T0 l0 l1 Ha Hr]; subst end.
    destruct a; cbn [rt_arms_def arm_body] in *; rewrite Ha; cbn [obind];
      apply rt_arms_Forall2; exact Hr.
  - (* op-assign *) cbn [rt].
    repeat match goal with H : rt _ = Ok _ |- _ => rewrite H; clear H end. cbn [obind].
    match goal with Hb : assign_base aop = Some _ |- _ => rewrite (opassign_rt aop _ _ _ Hb) end.
    match goal with H : _ \/ _ |- _ => destruct H as [[_ HR]|[-> ->]]; [rewrite HR|]; reflexivity end.
  - (* call *) cbn [rt].
    repeat match goal with H : rt _ = Ok _ |- _ => rewrite H; clear H end. cbn [obind bin_rt].
    match goal with H : _ \/ _ |- _ => destruct H as [[_ HR]|[-> ->]]; [rewrite HR|]; reflexivity end.
  - (* collect *) cbn [rt].
    repeat match goal with H : rt _ = Ok _ |- _ => rewrite H; clear H end. cbn [obind un_rt].
    unfold ielem. destruct (iter_element T); reflexivity.
  - (* reduce *) cbn [rt].
    repeat match goal with H : rt _ = Ok _ |- _ => rewrite H; clear H end. cbn [obind].
    match goal with H : fn_return_type _ = Some _ |- _ => rewrite H end. reflexivity.
  - (* partition *) cbn [rt].
    repeat match goal with H : rt _ = Ok _ |- _ => rewrite H; clear H end. cbn [obind bin_rt].
    match goal with H : iter_element _ = Some _ |- _ => rewrite H end. reflexivity.
  - (* all cons *) cbn [rts_def]. fold rts_def.
    repeat match goal with H : _ = Ok _ |- _ => rewrite H; clear H end. reflexivity.
  - (* fields cons *) cbn [rt_fields_def]. fold rt_fields_def.
    match goal with H : rt x = Ok _ |- _ => rewrite H end. cbn [obind]. assumption.
Qed.

Theorem typed_rt W0 G K i T : typed W0 G K i T -> rt i = Ok T.
Proof. apply (typed_rt_all W0). Qed.

(* ================================================================= *)
(* every derivable type is well-formed                                *)
(* ================================================================= *)
Lemma join_all_wf Ts : forallb wf_ty Ts = true -> wf_ty (join_all Ts) = true.
Proof.
  intros H. unfold join_all, concat_all. destruct Ts as [|T Ts]; [reflexivity|].
  cbn [forallb] in H. apply andb_true_iff in H. destruct H as [HT H].
  apply fold_concat_wf; [exact HT|]. rewrite forallb_forall in H. exact H.
Qed.

Lemma add_return_type_wf l r R :
  wf_ty l = true -> wf_ty r = true -> add_return_type l r = Ok R -> wf_ty R = true.
Proof.
  intros Wl Wr. unfold add_return_type.
  destruct (element_type l) as [le|] eqn:El.
  - pose proof (element_type_wf _ _ Wl El) as Wle.
    destruct (element_type r) as [re|] eqn:Er; intros H; injection H as <-; cbn [wf_ty].
    + apply concat_wf; [exact Wle|apply (element_type_wf _ _ Wr Er)].
    + apply concat_wf; [exact Wle|reflexivity].
  - intros H. injection H as <-. exact Wl.
Qed.

Lemma bin_rt_pure_wf op T1 T2 R :
  pure_op op = true -> wf_ty T1 = true -> wf_ty T2 = true -> bin_rt op T1 T2 = Ok R ->
  wf_ty R = true.
Proof.
  intros P W1 W2 H. destruct op; try discriminate P; cbn [bin_rt] in H;
    try (injection H as <-; first [exact W1|reflexivity]).
  apply (add_return_type_wf T1 T2 R W1 W2 H).
Qed.

Lemma struct_ty_insert_wf k t acc :
  wf_ty t = true -> wf_ty (TStruct acc) = true -> wf_ty (TStruct (struct_ty_insert k t acc)) = true.
Proof.
  cbn [wf_ty]. intros Wt H. apply andb_true_iff in H. destruct H as [Hn Hf].
  apply andb_true_iff. split; [apply nodup_struct_ty_insert; exact Hn|].
  unfold struct_ty_insert. rewrite forallb_app. apply andb_true_iff. split.
  - rewrite forallb_forall in *. intros kv Hkv. apply filter_In in Hkv. apply Hf. apply Hkv.
  - cbn [forallb snd]. rewrite Wt. reflexivity.
Qed.

Lemma last_wf Ts : Forall (fun T => wf_ty T = true) Ts -> wf_ty (last Ts TVoid) = true.
Proof.
  intros H. induction H as [|T Ts HT H IH]; [reflexivity|].
  destruct Ts as [|U Ts]; [exact HT|exact IH].
Qed.

Lemma fold_concat_wf_Forall Ts T :
  wf_ty T = true -> Forall (fun T => wf_ty T = true) Ts -> wf_ty (fold_left concat Ts T) = true.
Proof.
  intros HT H. apply fold_concat_wf; [exact HT|]. rewrite Forall_forall in H. exact H.
Qed.

Lemma ielem_wf T : wf_ty T = true -> wf_ty (ielem T) = true.
Proof.
  intros W. unfold ielem. destruct (iter_element T) as [e|] eqn:E; [|reflexivity].
  apply (iter_element_wf _ _ W E).
Qed.

Theorem typed_wf_all W0 :
  (forall G K i T, typed W0 G K i T -> genv_wf G -> wf_ty T = true) /\
  (forall G K es Ts, typed_all W0 G K es Ts -> genv_wf G -> forallb wf_ty Ts = true) /\
  (forall G K fs acc out, typed_fields W0 G K fs acc out -> genv_wf G ->
     wf_ty (TStruct acc) = true -> wf_ty (TStruct out) = true) /\
  (forall G K o, typed_opt W0 G K o -> True) /\
  (forall G K i T G', typed_line W0 G K i T G' -> genv_wf G -> wf_ty T = true /\ genv_wf G') /\
  (forall G K l G' Ts, typed_list W0 G K l G' Ts -> genv_wf G ->
     Forall (fun T => wf_ty T = true) Ts) /\
  (forall G K arms Ts, typed_arms W0 G K arms Ts -> genv_wf G ->
     Forall (fun T => wf_ty T = true) Ts).
Proof.
  apply typed_mutind; intros; try exact I; try reflexivity.
  - (* IVar *) apply (vgood_wf_ty W0). assumption.
  - (* ILocal *) match goal with HG : genv_wf _ |- _ => apply (HG n) end. assumption.
  - (* ITuple *) cbn [wf_ty]. auto.
  - (* IArray *) cbn [wf_ty]. assumption.
  - (* IArrayRepeat *) cbn [wf_ty]. auto.
  - (* IStruct *) auto.
  - (* x.k *)
    match goal with H : qres _ _ _ |- _ => destruct H as [H|[-> ->]]; [|reflexivity] end.
    eapply tuple_element_at_wf; [|eassumption]. auto.
  - (* x.f *)
    match goal with H : qres _ _ _ |- _ => destruct H as [H|[-> ->]]; [|reflexivity] end.
    eapply field_type_wf; [|eassumption]. auto.
  - (* pure *) eapply bin_rt_pure_wf; [eassumption| | |eassumption]; auto.
  - (* at *)
    match goal with H : qres _ _ _ |- _ => destruct H as [H|[-> ->]]; [|reflexivity] end.
    eapply index_result_wf; [|eassumption]. auto.
  - (* not *) auto.
  - (* neg *) auto.
  - (* slice *) auto.
  - (* block *) apply last_wf. auto.
  - (* if *) apply concat_wf; auto.
  - (* if-set *) apply concat_wf; [|auto].
    match goal with IH : genv_wf ((n, t) :: G) -> _ |- _ => apply IH end.
    apply genv_wf_cons; assumption.
  - (* match *)
    match goal with IH : genv_wf G -> Forall _ (Ta :: Ts) |- _ =>
      let X := fresh in assert (X := IH ltac:(assumption)); inversion X; subst end.
    apply fold_concat_wf_Forall; assumption.
  - (* mut *) cbn [wf_ty]. assumption.
  - (* deref *)
    match goal with H : qres _ _ _ |- _ => destruct H as [H|[-> ->]]; [|reflexivity] end.
    eapply mut_element_type_spec_wf; [|eassumption]. auto.
  - (* assign *) auto.
  - (* op-assign *)
    match goal with H : _ \/ _ |- _ => destruct H as [[_ H]|[-> ->]]; [|reflexivity] end.
    eapply mut_element_type_spec_wf; [|eassumption]. auto.
  - (* call *)
    match goal with H : _ \/ _ |- _ => destruct H as [[_ H]|[-> ->]]; [|reflexivity] end.
    eapply fn_return_type_wf; [|eassumption]. auto.
  - (* anon fn *) assumption.
  - (* collect *) cbn [wf_ty]. apply ielem_wf. auto.
  - (* reduce *) apply concat_wf; [|auto]. eapply fn_return_type_wf; [|eassumption]. auto.
  - (* type filter *) cbn [it_of wf_ty forallb]. rewrite andb_true_r. assumption.
  - (* partition *)
    assert (We : wf_ty El = true).
    { match goal with H : iter_element ?T = Some El |- _ =>
        pose proof (ielem_wf T) as X; unfold ielem in X; rewrite H in X; apply X end. auto. }
    cbn [wf_ty forallb]. rewrite We. reflexivity.
  - (* typed_all cons *) cbn [forallb]. apply andb_true_iff. split; auto.
  - (* fields nil *) assumption.
  - (* fields cons *)
    match goal with IH : genv_wf G -> wf_ty (TStruct (struct_ty_insert _ _ _)) = true -> _ |- _ =>
      apply IH; [assumption|] end.
    apply struct_ty_insert_wf; auto.
  - (* line stm *) split; auto.
  - (* line set *) split; [auto|]. apply genv_wf_cons; auto.
  - (* line destruct *) split; [auto|]. apply genv_wf_bind; [|assumption].
    match goal with H : _ \/ _ |- _ => destruct H as [[H _]|[_ ->]] end.
    + eapply flatten_tuple_wf; [|eassumption]. auto.
    + clear. induction ids as [|n ids IH]; [reflexivity|exact IH].
  - (* line fn decl *) split; [assumption|]. apply genv_wf_cons; assumption.
  - (* list nil *) constructor.
  - (* list cons *)
    match goal with IH : genv_wf G -> wf_ty T = true /\ genv_wf G1 |- _ =>
      destruct (IH ltac:(assumption)) as [? ?] end.
    constructor; auto.
  - (* arms nil *) constructor.
  - (* arm type *) constructor; [|auto].
    match goal with IH : genv_wf ((n, t) :: G) -> _ |- _ => apply IH end.
    apply genv_wf_cons; assumption.
  - (* arm value *) constructor; auto.
  - (* arm other *) constructor; auto.
Qed.

Theorem typed_wf W0 G K i T : typed W0 G K i T -> genv_wf G -> wf_ty T = true.
Proof. apply (typed_wf_all W0). Qed.

Lemma typed_line_wf W0 G K i T G' :
  typed_line W0 G K i T G' -> genv_wf G -> wf_ty T = true /\ genv_wf G'.
Proof. apply (typed_wf_all W0). Qed.

Lemma typed_all_wf W0 G K es Ts :
  typed_all W0 G K es Ts -> genv_wf G -> forallb wf_ty Ts = true.
Proof. apply (typed_wf_all W0). Qed.

End WithFlag.

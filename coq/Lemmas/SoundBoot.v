(* SoundBoot.v — layer 3, stage 6: the booted helper table is well typed.
   [the_boot] (SoundHelpers.v) is the store, prelude and reducers the driver builds from the
   helper sources.  [W_boot] records for each of its 13 closures the signature it was
   declared with; [boot_store_ok]: the booted store is typed by it under [policy6] — every
   helper body is a typed statement list (the reducers use `$init f`, MAP / FILTER / ITER
   create a closure) — and [boot_reducers_ok]: the reducer values the checker plants for
   `$+ $* $&& $|| $& $|` are good function values of that store. *)
From SSL.Model Require Import Base Ty Float Value Ops Seq Syntax Rt Recreate Exec Check Top.
From SSL.Lemmas Require Import TyLemmas ValueLemmas ExecLemmas SoundLemmas CellLemmas
  SoundDefs SoundVals SoundTyping Sound1 Sound2 Sound3 Sound4 Sound5 SoundRec1 Sound6
  SoundRec2 SoundRec3 Soundness Sound7 SoundHelpers.
Local Open Scope Z_scope.

Lemma typed_conv (FL : Policy) W0 G K i T T' : typed W0 G K i T -> T = T' -> typed W0 G K i T'.
Proof. intros H <-. exact H. Qed.

Definition bb : booted :=
  match the_boot with Some b => b | None => mkBooted (mkStore [] [] []) dummy_pre dummy_red end.
Definition st_boot : store := Eval vm_compute in b_store bb.
Definition pre_boot : prelude := Eval vm_compute in b_pre bb.
Definition red_boot : reducers := Eval vm_compute in b_red bb.
Definition W_boot : sty :=
  Eval vm_compute in mkW [] (map (fun c => Some (map snd (c_params c), c_ret c)) (s_funs st_boot)).

Lemma boot_eq : the_boot = Some (mkBooted st_boot pre_boot red_boot).
Proof. reflexivity. Qed.

(* the reducer tables of `$+` / `$*` hold good function values of the booted store *)
Theorem boot_reducers_ok :
  Forall (fun kf => vgood W_boot (snd kf)) (r_sums red_boot ++ r_products red_boot) /\
  vgood W_boot (r_all red_boot) /\ vgood W_boot (r_any red_boot) /\
  vgood W_boot (r_and red_boot) /\ vgood W_boot (r_or red_boot).
Proof. repeat constructor. Qed.

(* [T_Reduce] at the element type read off the iterator's type *)
Lemma T_Reduce_i (FL : Policy) W0 G K it init f Ti T0 Tf R :
  iter_gate W0 G (IReduce it init f) ->
  typed W0 G K it Ti -> typed W0 G K init T0 -> typed W0 G K f Tf ->
  wf_ty (ielem Ti) = true -> matches Ti (it_of (ielem Ti)) = true ->
  fn_return_type Tf = Some R ->
  matches Tf (TFun [concat (concat T0 (ielem Ti)) R; ielem Ti] R) = true ->
  typed W0 G K (IReduce it init f) (concat R T0).
Proof. intros. eapply T_Reduce; eassumption. Qed.

Ltac side := first [reflexivity | vm_compute; reflexivity | vm_compute; tauto].
(* the policy premises: [gate] for an iterator operator, [clos] for a closure literal *)
Ltac gate := apply gate6.
Ltac ty :=
  lazymatch goal with
  | |- typed _ _ _ (IVar _) _ =>
      eapply typed_conv; [apply T_Var; vm_compute; tauto|reflexivity]
  | |- typed _ _ _ (ILocal _ _) _ =>
      eapply typed_conv; [apply T_Local; reflexivity|reflexivity]
  | |- typed _ _ _ (ITuple _) _ => eapply T_Tuple; tyall
  | |- typed _ _ _ (IArray _ _) _ => eapply T_Array; [tyall|side|side]
  | |- typed _ _ _ (IArrayRepeat _ _) _ => eapply T_Repeat; [ty|ty|side]
  | |- typed _ _ _ (ITupleAccess _ _) _ => eapply T_TupleAccess; [ty|left; side]
  | |- typed _ _ _ (IFieldAccess _ _) _ => eapply T_FieldAccess; [ty|left; side]
  | |- typed _ _ _ (IStruct _) _ => eapply T_Struct; tyfields
  | |- typed _ _ _ (IBin At _ _) _ => eapply T_At; [ty|ty|side|side|left; side]
  | |- typed _ _ _ (IBin And _ _) _ => eapply T_Logic; [side|ty|ty|side|side]
  | |- typed _ _ _ (IBin Or _ _) _ => eapply T_Logic; [side|ty|ty|side|side]
  | |- typed _ _ _ (IBin Assign _ _) _ => eapply T_Assign; [ty|ty|left; side]
  | |- typed _ _ _ (IBin Partition _ _) _ =>
      eapply T_Partition; [gate|ty|ty|side|side|side]
  | |- typed _ _ _ (IBin FunctionCall _ _) _ =>
      eapply T_Call; [ty|side|ty|left; split; side]
  | |- typed _ _ _ (IBin _ _ _) _ =>
      first [ eapply T_BinPure; [side|ty|ty|side|side]
            | eapply T_OpAssign; [side|ty|ty|left; split; side] ]
  | |- typed _ _ _ (IUn UNot _) _ => eapply T_Not; [ty|side]
  | |- typed _ _ _ (IUn UUnaryMinus _) _ => eapply T_Neg; [ty|side]
  | |- typed _ _ _ (IUn UReturn _) _ => eapply T_Return; [ty|side|side]
  | |- typed _ _ _ (IUn UIndirection _) _ => eapply T_Deref; [ty|left; side]
  | |- typed _ _ _ (ISlicing _ _ _ _) _ => eapply T_Slice; [ty|side|tyopt|tyopt|tyopt]
  | |- typed _ _ _ (IBlock _) _ => eapply T_Block; tylist
  | |- typed _ _ _ (IIfElse _ _ _) _ => eapply T_If; [ty|side|ty|ty]
  | |- typed _ _ _ (ISetIfElse _ _ _ _ _) _ => eapply T_SetIf; [side|ty|ty|ty]
  | |- typed _ _ _ (IMatch _ _) _ => eapply T_Match; [ty|tyarms|side]
  | |- typed _ _ _ (ILoop _) _ => eapply T_Loop; ty
  | |- typed _ _ _ IBreak _ => apply T_Break; reflexivity
  | |- typed _ _ _ IContinue _ => apply T_Continue; reflexivity
  | |- typed _ _ _ (IMut _ _) _ => eapply T_Mut; [side|ty|side]
  | |- typed _ _ _ (IAnonFn _ _ _) _ => eapply T_AnonFn; [clos|side|tylist|side]
  | |- typed _ _ _ (IUn UCollect _) _ => eapply T_Collect; [gate|ty|side]
  | |- typed _ _ _ (IReduce _ _ _) _ => eapply T_Reduce_i; [gate|ty|ty|ty|side|side|side|side]
  | |- typed _ _ _ (ITypeFilter _ _) _ => eapply T_TypeFilter; [gate|ty|side|side|side]
  | |- @typed ?F ?W ?G ?K ?i ?T =>
      let i' := eval hnf in i in progress (change (@typed F W G K i' T)); ty
  end
with tyall :=
  lazymatch goal with
  | |- typed_all _ _ _ [] _ => apply TAll_nil
  | |- typed_all _ _ _ (_ :: _) _ => eapply TAll_cons; [ty|tyall]
  end
with tyfields :=
  lazymatch goal with
  | |- typed_fields _ _ _ [] _ _ => apply TF_nil
  | |- typed_fields _ _ _ (_ :: _) _ _ => eapply TF_cons; [ty|tyfields]
  end
with tyopt :=
  lazymatch goal with
  | |- typed_opt _ _ _ None => apply TO_none
  | |- typed_opt _ _ _ (Some _) => eapply TO_some; [ty|side]
  end
with tyline :=
  lazymatch goal with
  | |- typed_line _ _ _ (ISet _ _) _ _ => eapply Ln_set; ty
  | |- typed_line _ _ _ (IDestruct _ _) _ _ => eapply Ln_destruct; [ty|left; split; side]
  | |- typed_line _ _ _ (IFnDecl _ _ _ _) _ _ => eapply Ln_fndecl; [clos|side|side|tylist|side]
  | |- typed_line _ _ _ _ _ _ => eapply Ln_stm; ty
  end
with tylist :=
  lazymatch goal with
  | |- typed_list _ _ _ [] _ _ => apply TL_nil
  | |- typed_list _ _ _ (_ :: _) _ _ => eapply TL_cons; [tyline|tylist]
  end
with tyarms :=
  lazymatch goal with
  | |- typed_arms _ _ _ [] _ => apply TA_nil
  | |- typed_arms _ _ _ (ArmType _ _ _ :: _) _ => eapply TA_type; [side|ty|tyarms]
  | |- typed_arms _ _ _ (ArmValue _ _ :: _) _ => eapply TA_value; [tyall|ty|tyarms]
  | |- typed_arms _ _ _ (ArmOther _ :: _) _ => eapply TA_other; [ty|tyarms]
  end
with clos :=
  first [ exact I
        | split; [side|eexists; eexists; split; [tylist|side]] ].
Ltac tyc := eapply typed_conv; [ty|vm_compute; reflexivity].

Lemma funs_ok_forall (FL : Policy) W st :
  Forall2 (fun c osg => forall sg, osg = Some sg ->
             sg = (map snd (c_params c), c_ret c) /\
             wf_ty (TFun (map snd (c_params c)) (c_ret c)) = true /\ body_ok W c)
          (s_funs st) (funs_t W) ->
  funs_ok W st.
Proof.
  intros H. split.
  { revert H. generalize (s_funs st) (funs_t W). intros l1 l2 H.
    induction H; cbn; [reflexivity|f_equal; assumption]. }
  revert H. generalize (s_funs st) (funs_t W). intros l1 l2 H.
  induction H as [|c o l1 l2 Hc H IH]; intros id c0 sg H1 H2.
  - destruct id; discriminate H1.
  - destruct id as [|id]; cbn in H1, H2.
    + injection H1 as <-. apply Hc. injection H2 as ->. reflexivity.
    + eapply IH; eassumption.
Qed.

Theorem boot_store_ok : @store_ok policy6 W_boot st_boot.
Proof.
  split.
  - split; [reflexivity|]. intros [|loc] t H; discriminate H.
  - apply funs_ok_forall. cbn [s_funs funs_t st_boot W_boot].
    repeat (apply Forall2_cons; [intros sg Hsg; injection Hsg as <-;
                                  split; [reflexivity|]; split; [reflexivity|]|]);
      [..|apply Forall2_nil].
    1: { (* std.len *) eexists. split; [reflexivity|]. split; reflexivity. }
    all: unfold body_ok; cbn [c_body c_ret];
      exists W_boot; eexists; eexists; (split; [apply ext_refl|]);
      (split; [cbn; tylist|side]).
Qed.

(* IterRef2.v — C11b, part 2: big-step evaluation rules, each an instance of an unfolding equation
   of Lemmas/ExecLemmas.v.  They let the bodies of the helper closures (ITER, MAP, FILTER, the
   reducers) be run on SYMBOLIC stores and values, one node per rule, without ever unfolding
   [exec].  Fuel: a rule for a node at fuel [S n] has its premises at fuel n. *)
From SSL.Model Require Import Base Ty Float Value Ops Seq Syntax Rt Recreate Exec.
From SSL.Lemmas Require Import ExecLemmas SoundLemmas RecrMono.
Local Open Scope Z_scope.

Section Rules.
Variable powf : fbits -> fbits -> fbits.
Variable pre : prelude.
Notation E := (exec powf pre).

Lemma ev_var n st sc v : E (S n) st sc (IVar v) = (st, sc, SVal v).
Proof. apply exec_S_IVar. Qed.

Lemma ev_local n st sc nm lv v :
  scopes_get nm sc = Some v -> E (S n) st sc (ILocal nm lv) = (st, sc, SVal v).
Proof. intros H. rewrite exec_S_ILocal, H. reflexivity. Qed.

Lemma ev_un n st sc op x st1 sc1 v r :
  E n st sc x = (st1, sc1, SVal v) ->
  un_dispatch pre (E n) n (sty x) op v st1 sc1 = r ->
  E (S n) st sc (IUn op x) = r.
Proof. intros Hx Hr. rewrite exec_S_IUn. unfold with_val_def. rewrite Hx. exact Hr. Qed.

Lemma ev_return n st sc x st1 sc1 v :
  E n st sc x = (st1, sc1, SVal v) -> E (S n) st sc (IUn UReturn x) = (st1, sc1, SReturn v).
Proof. intros Hx. apply (ev_un n st sc UReturn x st1 sc1 v); [exact Hx|reflexivity]. Qed.

Lemma ev_deref n st sc x st1 sc1 loc t c :
  E n st sc x = (st1, sc1, SVal (VMut loc t)) -> nth_error (s_cells st1) loc = Some c ->
  E (S n) st sc (IUn UIndirection x) = (st1, sc1, SVal c).
Proof.
  intros Hx Hc. apply (ev_un n st sc UIndirection x st1 sc1 (VMut loc t)); [exact Hx|].
  cbn [un_dispatch]. rewrite Hc. reflexivity.
Qed.

Lemma ev_not n st sc x st1 sc1 b :
  E n st sc x = (st1, sc1, SVal (VBool b)) ->
  E (S n) st sc (IUn UNot x) = (st1, sc1, SVal (VBool (negb b))).
Proof.
  intros Hx. apply (ev_un n st sc UNot x st1 sc1 (VBool b)); [exact Hx|reflexivity].
Qed.

Lemma ev_not_eq n st sc x st1 sc1 b b' :
  E n st sc x = (st1, sc1, SVal (VBool b)) -> b' = negb b ->
  E (S n) st sc (IUn UNot x) = (st1, sc1, SVal (VBool b')).
Proof. intros Hx ->. apply ev_not. exact Hx. Qed.

Lemma ev_bin n st sc op l r st1 sc1 lv st2 sc2 rv res :
  op <> And -> op <> Or ->
  E n st sc l = (st1, sc1, SVal lv) -> E n st1 sc1 r = (st2, sc2, SVal rv) ->
  bin_dispatch powf pre (E n) n op lv rv st2 sc2 = res ->
  E (S n) st sc (IBin op l r) = res.
Proof.
  intros HA HO Hl Hr Hd. rewrite exec_S_IBin by assumption. unfold with_val_def.
  rewrite Hl, Hr. exact Hd.
Qed.

(* a binary operator on values, no store effect *)
Lemma ev_op n st sc op l r st1 sc1 lv st2 sc2 rv w :
  pure_op op = true ->
  E n st sc l = (st1, sc1, SVal lv) -> E n st1 sc1 r = (st2, sc2, SVal rv) ->
  op_exec powf op lv rv = Ok w ->
  E (S n) st sc (IBin op l r) = (st2, sc2, SVal w).
Proof.
  intros Hp Hl Hr Hw.
  apply (ev_bin n st sc op l r st1 sc1 lv st2 sc2 rv); try assumption;
    try (intros ->; discriminate Hp).
  destruct op; try discriminate Hp; cbn [bin_dispatch assign_base]; rewrite Hw; reflexivity.
Qed.

Lemma ev_at n st sc l r st1 sc1 lv st2 sc2 rv w :
  E n st sc l = (st1, sc1, SVal lv) -> E n st1 sc1 r = (st2, sc2, SVal rv) ->
  at_exec lv rv = Ok w ->
  E (S n) st sc (IBin At l r) = (st2, sc2, SVal w).
Proof.
  intros Hl Hr Hw. apply (ev_bin n st sc At l r st1 sc1 lv st2 sc2 rv); try assumption;
    try discriminate. cbn [bin_dispatch]. rewrite Hw. reflexivity.
Qed.

(* c op= e on a cell *)
Lemma ev_opassign n st sc op bop l r st1 sc1 loc t st2 sc2 rv cur w :
  assign_base op = Some bop ->
  E n st sc l = (st1, sc1, SVal (VMut loc t)) -> E n st1 sc1 r = (st2, sc2, SVal rv) ->
  nth_error (s_cells st2) loc = Some cur -> op_exec powf bop cur rv = Ok w ->
  E (S n) st sc (IBin op l r) = (write_cell st2 loc w, sc2, SVal w).
Proof.
  intros Hb Hl Hr Hc Hw.
  apply (ev_bin n st sc op l r st1 sc1 (VMut loc t) st2 sc2 rv); try assumption;
    try (intros ->; discriminate Hb).
  destruct op; try discriminate Hb; cbn [bin_dispatch]; cbn [assign_base] in *;
    injection Hb as <-; rewrite Hc, Hw; reflexivity.
Qed.

Lemma ev_call n st sc f a st1 sc1 fid ps r st2 sc2 args res :
  E n st sc f = (st1, sc1, SVal (VFun fid ps r)) -> E n st1 sc1 a = (st2, sc2, SVal (VTup args)) ->
  call_def (E n) fid args st2 sc2 = res ->
  E (S n) st sc (IBin FunctionCall f a) = res.
Proof.
  intros Hf Ha Hc.
  apply (ev_bin n st sc FunctionCall f a st1 sc1 (VFun fid ps r) st2 sc2 (VTup args));
    try assumption; try discriminate.
Qed.

Lemma ev_set n st sc nm x st1 sc1 v :
  E n st sc x = (st1, sc1, SVal v) ->
  E (S n) st sc (ISet nm x) = (st1, scopes_insert nm v sc1, SVal v).
Proof. intros Hx. rewrite exec_S_ISet. unfold with_val_def. rewrite Hx. reflexivity. Qed.

Lemma ev_mut n st sc t x st1 sc1 v :
  E n st sc x = (st1, sc1, SVal v) ->
  E (S n) st sc (IMut t x) =
  (fst (alloc_cell st1 v), sc1, SVal (VMut (snd (alloc_cell st1 v)) t)).
Proof.
  intros Hx. rewrite exec_S_IMut. unfold with_val_def. rewrite Hx.
  destruct (alloc_cell st1 v). reflexivity.
Qed.

Lemma ev_field n st sc x f st1 sc1 fs r :
  E n st sc x = (st1, sc1, SVal (VStruct fs)) -> assoc f fs = Some r ->
  E (S n) st sc (IFieldAccess x f) = (st1, sc1, SVal r).
Proof.
  intros Hx Hr. rewrite exec_S_IFieldAccess. unfold with_val_def. rewrite Hx, Hr. reflexivity.
Qed.

Lemma ev_destruct n st sc ids x st1 sc1 vs :
  E n st sc x = (st1, sc1, SVal (VTup vs)) ->
  E (S n) st sc (IDestruct ids x) = (st1, destruct_bind_def ids vs sc1, SVal (VTup vs)).
Proof. intros Hx. rewrite exec_S_IDestruct. unfold with_val_def. rewrite Hx. reflexivity. Qed.

Lemma ev_if n st sc c t f st1 sc1 b res :
  E n st sc c = (st1, sc1, SVal (VBool b)) ->
  E n st1 sc1 (if b then t else f) = res ->
  E (S n) st sc (IIfElse c t f) = res.
Proof.
  intros Hc Hr. rewrite exec_S_IIfElse. unfold with_val_def. rewrite Hc. destruct b; exact Hr.
Qed.

Lemma ev_or_true n st sc l r st1 sc1 :
  E n st sc l = (st1, sc1, SVal (VBool true)) ->
  E (S n) st sc (IBin Or l r) = (st1, sc1, SVal (VBool true)).
Proof. intros Hl. rewrite exec_S_Or. unfold with_val_def. rewrite Hl. reflexivity. Qed.

Lemma ev_or_false n st sc l r st1 sc1 res :
  E n st sc l = (st1, sc1, SVal (VBool false)) -> E n st1 sc1 r = res ->
  E (S n) st sc (IBin Or l r) = res.
Proof. intros Hl Hr. rewrite exec_S_Or. unfold with_val_def. rewrite Hl. exact Hr. Qed.

(* statement lists *)
Lemma evl_nil st sc ex : ex_list_def ex [] st sc = (st, sc, Ok [], SVal VVoid).
Proof. reflexivity. Qed.

Lemma evl_val ex x l st sc st1 sc1 v st2 sc2 o s :
  ex st sc x = (st1, sc1, SVal v) -> ex_list_def ex l st1 sc1 = (st2, sc2, o, s) ->
  ex_list_def ex (x :: l) st sc =
  (st2, sc2, match o with Ok vs => Ok (v :: vs) | o' => o' end, s).
Proof.
  intros Hx Hl. cbn [ex_list_def]. rewrite Hx, Hl. destruct o; reflexivity.
Qed.

Lemma evl_val_stop ex x l st sc st1 sc1 v st2 sc2 s :
  ex st sc x = (st1, sc1, SVal v) -> ex_list_def ex l st1 sc1 = (st2, sc2, Panic, s) ->
  ex_list_def ex (x :: l) st sc = (st2, sc2, Panic, s).
Proof. intros Hx Hl. cbn [ex_list_def]. rewrite Hx, Hl. reflexivity. Qed.

Lemma evl_val_ok ex x l st sc st1 sc1 v st2 sc2 vs s :
  ex st sc x = (st1, sc1, SVal v) -> ex_list_def ex l st1 sc1 = (st2, sc2, Ok vs, s) ->
  ex_list_def ex (x :: l) st sc = (st2, sc2, Ok (v :: vs), s).
Proof. intros Hx Hl. cbn [ex_list_def]. rewrite Hx, Hl. reflexivity. Qed.

Lemma evl_stop ex x l st sc st1 sc1 s :
  ex st sc x = (st1, sc1, s) -> (forall v, s <> SVal v) ->
  ex_list_def ex (x :: l) st sc = (st1, sc1, Panic, s).
Proof.
  intros Hx Hs. cbn [ex_list_def]. rewrite Hx. destruct s; try reflexivity.
  exfalso. apply (Hs v). reflexivity.
Qed.

Lemma ev_tuple n st sc es st1 sc1 vs s :
  ex_list_def (E n) es st sc = (st1, sc1, Ok vs, s) ->
  E (S n) st sc (ITuple es) = (st1, sc1, SVal (VTup vs)).
Proof. intros H. rewrite exec_S_ITuple. unfold with_list_def. rewrite H. reflexivity. Qed.

Lemma ev_block_stop n st sc body st1 sc1 s :
  ex_list_def (E n) body st ([] :: sc) = (st1, sc1, Panic, s) ->
  E (S n) st sc (IBlock body) = (st1, sc, s).
Proof. intros H. rewrite exec_S_IBlock, H. reflexivity. Qed.

Lemma ev_block_val n st sc body st1 sc1 vs s :
  ex_list_def (E n) body st ([] :: sc) = (st1, sc1, Ok vs, s) ->
  E (S n) st sc (IBlock body) = (st1, sc, SVal (last vs VVoid)).
Proof. intros H. rewrite exec_S_IBlock, H. reflexivity. Qed.

(* a closure body that returns *)
Lemma run_body_return ex c body st sc st1 sc1 v :
  c_body c = BLang body -> ex_list_def ex body st sc = (st1, sc1, Panic, SReturn v) ->
  run_body_def ex c st sc = (st1, sc1, SVal v).
Proof. intros Hb H. unfold run_body_def. rewrite Hb, H. reflexivity. Qed.

Lemma call_return ex fid args st sc c body st1 sc1 v :
  nth_error (s_funs st) fid = Some c -> c_body c = BLang body ->
  ex_list_def ex body (log_event st (EvCall fid args)) [frame_def fid c args]
    = (st1, sc1, Panic, SReturn v) ->
  call_def ex fid args st sc = (st1, sc, SVal v).
Proof.
  intros Hc Hb H. unfold call_def. rewrite Hc.
  rewrite (run_body_return ex c body _ _ st1 sc1 v Hb H). reflexivity.
Qed.

(* the native std.len *)
Lemma call_native_len ex fid v st sc nm T k R z :
  nth_error (s_funs st) fid = Some (mkClosure (Some nm) [(n_variable, T)] (BNative k) R) ->
  len_exec v = Ok z ->
  call_def ex fid [v] st sc = (log_event st (EvCall fid [v]), sc, SVal (VInt z)).
Proof.
  intros Hc Hz. unfold call_def. rewrite Hc. unfold run_body_def, frame_def, base_def.
  cbn [c_body c_params c_name bind_def].
  assert (Hg : scopes_get n_variable
                 [scope_insert n_variable v
                    [(nm, VFun fid (map snd [(n_variable, T)]) (c_ret (mkClosure (Some nm) [(n_variable, T)] (BNative k) R)))]]
               = Some v) by reflexivity.
  rewrite Hg, Hz. reflexivity.
Qed.

(* ---- fuel: a result that is not "out of fuel" is the result for every larger fuel ---- *)
Lemma le_ex_fuel n m : (n <= m)%nat -> le_ex (E n) (E m).
Proof.
  intros Hle st sc i Hs. apply (exec_fuel_mono powf pre n m st sc i Hle Hs).
Qed.

Lemma call_fuel n m fid args st sc r :
  (n <= m)%nat -> call_def (E n) fid args st sc = r -> sig r <> SFuel ->
  call_def (E m) fid args st sc = r.
Proof.
  intros Hle <- Hs. apply (call_mono (E n) (E m) (le_ex_fuel n m Hle) fid args st sc Hs).
Qed.

Lemma call_v_fuel n m f args st sc r :
  (n <= m)%nat -> call_v_def (E n) f args st sc = r -> sig r <> SFuel ->
  call_v_def (E m) f args st sc = r.
Proof.
  intros Hle <- Hs. apply (call_v_mono (E n) (E m) (le_ex_fuel n m Hle) f args st sc Hs).
Qed.

End Rules.

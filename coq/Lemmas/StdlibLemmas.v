(* StdlibLemmas.v — C18, the signature half: the glue of macros/src/export.rs never panics on
   arguments of the declared types, and what it returns inhabits the declared return type.

   A. [conv_ty c d]: the SimpleSL type whose values a conversion (+ body demand) accepts;
      [accepts_sound]: every value of that type is accepted;
      [params_accepted]: for every parameter of the REGENERATED table the declared type
      `matches` that type (finite, vm_compute) — so the unwraps of the glue are dead.
   B. [image_ty r el]: a type containing the image of `Into<Variable>` for the Rust type r;
      [image_sound]; [returns_declared]: for every export of the table the image type `matches`
      the declared return type (finite); the TypeOf table itself is sound; constants. *)
From SSL.Model Require Import Base Ty Float Value Stdlib.
From SSL.Gen Require Import GenStdlib.
From SSL.Lemmas Require Import TyLemmas ValueLemmas.

Local Open Scope Z_scope.

Arguments matches : simpl never.
Arguments ty_eqb : simpl never.

(* ================================================================= *)
(* A.  Parameters                                                    *)
(* ================================================================= *)
Definition tag_ty (k : vtag) : ty :=
  match k with
  | KBool => TBool | KInt => TInt | KFloat => TFloat | KString => TString | KVoid => TVoid
  | KArr => TArr TAny
  (* functions, tuples, cells and structs have no single type: nothing is promised *)
  | KFun | KTup | KMut | KStruct => TNever
  end.

Definition conv_ty (c : conv) (d : demand) : ty :=
  match c with
  | CvBool => match d with DNone => TBool | _ => TNever end
  | CvI64 => match d with DNone => TInt | _ => TNever end
  | CvF64 => match d with DNone => TFloat | _ => TNever end
  | CvArcStr | CvRefStr => match d with DNone => TString | _ => TNever end
  | CvArcArray | CvRefArray | CvRefSlice =>
      match d with
      | DNone => TArr TAny
      | DElems k => TArr (tag_ty k)
      | DTags _ => TNever
      end
  | CvRefVariable =>
      match d with
      | DNone => TAny
      | DTags ks => TMulti (map tag_ty ks)
      | DElems _ => TNever
      end
  end.

Lemma has_type_content v t : has_type v t = true -> content_in v t = true.
Proof. unfold has_type. intros H. apply andb_true_iff in H. exact (proj2 H). Qed.

(* a value whose contents inhabit the type of a tag carries that tag *)
Lemma content_in_tag v k : content_in v (tag_ty k) = true -> vtag_eqb (tag_of v) k = true.
Proof.
  destruct k; cbn [tag_ty]; intros H;
    try (rewrite content_in_never in H; discriminate H);
    destruct v; try discriminate H; reflexivity.
Qed.

Lemma content_in_string_inv v : content_in v TString = true -> exists s, v = VString s.
Proof. destruct v; try discriminate. intros _. eexists. reflexivity. Qed.
Lemma content_in_int_inv v : content_in v TInt = true -> exists z, v = VInt z.
Proof. destruct v; try discriminate. intros _. eexists. reflexivity. Qed.
Lemma content_in_float_inv v : content_in v TFloat = true -> exists f, v = VFloat f.
Proof. destruct v; try discriminate. intros _. eexists. reflexivity. Qed.
Lemma content_in_bool_inv v : content_in v TBool = true -> exists b, v = VBool b.
Proof. destruct v; try discriminate. intros _. eexists. reflexivity. Qed.
Lemma content_in_void_inv v : content_in v TVoid = true -> v = VVoid.
Proof. destruct v; try discriminate. reflexivity. Qed.
Lemma content_in_arr_inv v e :
  content_in v (TArr e) = true ->
  exists et vs, v = VArr et vs /\ forallb (fun x => content_in x e) vs = true.
Proof.
  destruct v; try discriminate. intros H. eexists. eexists. split; [reflexivity|].
  rewrite content_in_arr in H. exact H.
Qed.

(* the per-pair lemmas the statement of the task names *)
Lemma has_type_string_inv v : has_type v TString = true -> exists s, v = VString s.
Proof. intros H. apply content_in_string_inv. apply has_type_content. exact H. Qed.
Lemma has_type_int_inv v : has_type v TInt = true -> exists z, v = VInt z.
Proof. intros H. apply content_in_int_inv. apply has_type_content. exact H. Qed.
Lemma has_type_float_inv v : has_type v TFloat = true -> exists f, v = VFloat f.
Proof. intros H. apply content_in_float_inv. apply has_type_content. exact H. Qed.
Lemma has_type_bool_inv v : has_type v TBool = true -> exists b, v = VBool b.
Proof. intros H. apply content_in_bool_inv. apply has_type_content. exact H. Qed.
Lemma has_type_arr_any_inv v : has_type v (TArr TAny) = true -> exists et vs, v = VArr et vs.
Proof.
  intros H. apply has_type_content in H. apply content_in_arr_inv in H.
  destruct H as [et [vs [E _]]]. exists et, vs. exact E.
Qed.
(* [has_type] includes the contents: an `[int]` holds only ints, whatever its stored tag *)
Lemma has_type_arr_int_inv v :
  has_type v (TArr TInt) = true ->
  exists et zs, v = VArr et (map VInt zs).
Proof.
  intros H. apply has_type_content in H. apply content_in_arr_inv in H.
  destruct H as [et [vs [E F]]]. subst v. exists et.
  induction vs as [|x vs IH].
  - exists []. reflexivity.
  - cbn [forallb] in F. apply andb_true_iff in F. destruct F as [Fx Fv].
    destruct (IH Fv) as [zs Ez]. destruct (content_in_int_inv x Fx) as [z Ex].
    exists (z :: zs). cbn [map]. injection Ez as Ez. subst x. rewrite <- Ez. reflexivity.
Qed.
Lemma has_type_int_or_float_inv v :
  has_type v (ty_union [TInt; TFloat]) = true -> (exists z, v = VInt z) \/ (exists f, v = VFloat f).
Proof.
  intros H. apply has_type_content in H.
  change (ty_union [TInt; TFloat]) with (TMulti [TInt; TFloat]) in H.
  rewrite content_in_multi in H. cbn [existsb] in H.
  apply orb_true_iff in H. destruct H as [H|H].
  - left. apply content_in_int_inv. exact H.
  - rewrite orb_false_r in H. right. apply content_in_float_inv. exact H.
Qed.
Lemma has_type_arr_or_string_inv v :
  has_type v (ty_union [TArr TAny; TString]) = true ->
  (exists et vs, v = VArr et vs) \/ (exists s, v = VString s).
Proof.
  intros H. apply has_type_content in H.
  change (ty_union [TArr TAny; TString]) with (TMulti [TArr TAny; TString]) in H.
  rewrite content_in_multi in H. cbn [existsb] in H.
  apply orb_true_iff in H. destruct H as [H|H].
  - left. apply content_in_arr_inv in H. destruct H as [et [vs [E _]]]. exists et, vs. exact E.
  - rewrite orb_false_r in H. right. apply content_in_string_inv. exact H.
Qed.

(* every value of [conv_ty c d] passes conversion c and demand d *)
Theorem accepts_sound : forall c d v,
  has_type v (conv_ty c d) = true ->
  conv_accepts c v = true /\ demand_accepts d v = true.
Proof.
  intros c d v H. apply has_type_content in H.
  destruct c; destruct d; cbn [conv_ty] in H;
    try (rewrite content_in_never in H; discriminate H).
  - (* bool *) destruct (content_in_bool_inv v H) as [b ->]. split; reflexivity.
  - (* i64 *) destruct (content_in_int_inv v H) as [z ->]. split; reflexivity.
  - (* f64 *) destruct (content_in_float_inv v H) as [f ->]. split; reflexivity.
  - (* Arc<str> *) destruct (content_in_string_inv v H) as [s ->]. split; reflexivity.
  - (* &str *) destruct (content_in_string_inv v H) as [s ->]. split; reflexivity.
  - (* Arc<Array> *) destruct (content_in_arr_inv v _ H) as [et [vs [-> _]]]. split; reflexivity.
  - destruct (content_in_arr_inv v _ H) as [et [vs [-> F]]]. split; [reflexivity|].
    cbn [demand_accepts]. rewrite forallb_forall in F |- *. intros x Hx.
    apply content_in_tag. apply F. exact Hx.
  - (* &Array *) destruct (content_in_arr_inv v _ H) as [et [vs [-> _]]]. split; reflexivity.
  - destruct (content_in_arr_inv v _ H) as [et [vs [-> F]]]. split; [reflexivity|].
    cbn [demand_accepts]. rewrite forallb_forall in F |- *. intros x Hx.
    apply content_in_tag. apply F. exact Hx.
  - (* &[Variable] *) destruct (content_in_arr_inv v _ H) as [et [vs [-> _]]]. split; reflexivity.
  - destruct (content_in_arr_inv v _ H) as [et [vs [-> F]]]. split; [reflexivity|].
    cbn [demand_accepts]. rewrite forallb_forall in F |- *. intros x Hx.
    apply content_in_tag. apply F. exact Hx.
  - (* &Variable *) split; reflexivity.
  - split; [reflexivity|]. cbn [demand_accepts].
    rewrite content_in_multi in H. apply existsb_exists in H. destruct H as [t [Ht Hc]].
    apply in_map_iff in Ht. destruct Ht as [k [<- Hk]].
    apply existsb_exists. exists k. split; [exact Hk|]. apply content_in_tag. exact Hc.
Qed.

Definition param_checked (p : param) : bool :=
  matches (p_declared p) (conv_ty (p_conv p) (p_demand p)).

Definition export_params_checked (e : export) : bool :=
  match e with
  | EFn _ _ ps _ _ _ _ => forallb param_checked ps
  | _ => true
  end.

(* the finite part: over the regenerated table *)
Lemma params_table_checked : forallb export_params_checked stdlib_exports = true.
Proof. vm_compute. reflexivity. Qed.

Definition params_of (e : export) : list param :=
  match e with EFn _ _ ps _ _ _ _ => ps | _ => [] end.

(* For every export and parameter, every value of the declared SimpleSL parameter type is
   accepted by the conversion the glue applies and by the partial idioms of the body. *)
Theorem params_accepted : forall e p v,
  In e stdlib_exports -> In p (params_of e) ->
  has_type v (p_declared p) = true ->
  param_accepts p v = true.
Proof.
  intros e p v He Hp Hv.
  pose proof params_table_checked as T. rewrite forallb_forall in T. specialize (T e He).
  destruct e as [path name ps ret dret ra re| |]; cbn [params_of] in Hp; try destruct Hp.
  cbn [export_params_checked] in T. rewrite forallb_forall in T. specialize (T p Hp).
  unfold param_checked in T.
  pose proof (has_type_sound v _ _ Hv T) as Hc.
  destruct (accepts_sound _ _ _ Hc) as [A B].
  unfold param_accepts. rewrite A, B. reflexivity.
Qed.

(* parameters without #[var_type] are declared as TypeOf of their Rust type *)
Definition param_decl_coherent (p : param) : bool :=
  if p_from_attr p then true
  else match type_of_rty typeof_table (p_rust p) with
       | Some t => ty_eqb t (p_declared p)
       | None => false
       end.

Lemma params_decl_coherent :
  forallb (fun e => forallb param_decl_coherent (params_of e)) stdlib_exports = true.
Proof. vm_compute. reflexivity. Qed.

(* ================================================================= *)
(* B.  Results                                                       *)
(* ================================================================= *)
Definition scalar_tag (k : vtag) : bool :=
  match k with KBool | KInt | KFloat | KString | KVoid => true | _ => false end.

Fixpoint image_ty (r : rty) (el : option vtag) : ty :=
  match r with
  | RUnit => TVoid
  | RBool => TBool
  | RI32 | RI64 | RU32 | RUsize => TInt
  | RF64 => TFloat
  | RRefStr | RArcStr | RString | RArcRefStr => TString
  | RArcArray | RArray | RRefArray => TArr TAny
  | RRefSlice | RArcSlice =>
      match el with
      | Some k => if scalar_tag k then TArr (tag_ty k) else TArr TAny
      | None => TArr TAny
      end
  | RRefVariable | RVariable => TAny
  | RIoError => io_error_ty
  | ROption t => TMulti [image_ty t el; TVoid]
  | RResult t e => TMulti [image_ty t el; image_ty e el]
  | RResultExec t => image_ty t el
  end.

Lemma has_type_arr_any et vs : has_type (VArr et vs) (TArr TAny) = true.
Proof.
  unfold has_type. cbn [as_type]. rewrite matches_arr, matches_any_r.
  rewrite content_in_arr. cbn [andb]. apply forallb_forall. intros x _. apply content_in_any.
Qed.

(* Array::from over elements that all carry one scalar tag *)
Lemma fold_concat_const t l :
  ty_eqb t t = true -> is_multi t = false -> t <> TAny -> t <> TNever ->
  (forall x, In x l -> x = t) -> fold_left concat l t = t.
Proof.
  intros E M A N. induction l as [|x l IH]; intros H; cbn [fold_left]; [reflexivity|].
  rewrite (H x (or_introl eq_refl)).
  assert (C : concat t t = t).
  { destruct t; try reflexivity; try (exfalso; apply A; reflexivity); try (exfalso; apply N; reflexivity);
      unfold concat; rewrite E; reflexivity. }
  rewrite C. apply IH. intros y Hy. apply H. right. exact Hy.
Qed.

Lemma as_type_of_tag v k : scalar_tag k = true -> vtag_eqb (tag_of v) k = true -> as_type v = tag_ty k.
Proof. destruct k; try discriminate; intros _; destruct v; try discriminate; reflexivity. Qed.

Lemma content_of_tag v k : scalar_tag k = true -> vtag_eqb (tag_of v) k = true -> content_in v (tag_ty k) = true.
Proof. destruct k; try discriminate; intros _; destruct v; try discriminate; reflexivity. Qed.

Lemma arr_of_scalar vs k :
  scalar_tag k = true ->
  forallb (fun x => vtag_eqb (tag_of x) k) vs = true ->
  has_type (arr_of vs) (TArr (tag_ty k)) = true.
Proof.
  intros S F. rewrite forallb_forall in F.
  unfold has_type, arr_of. cbn [as_type]. rewrite matches_arr.
  apply andb_true_iff. split.
  - destruct vs as [|x vs]; cbn [map concat_all]; [apply matches_never_l|].
    rewrite (as_type_of_tag x k S (F x (or_introl eq_refl))).
    rewrite fold_concat_const.
    + destruct k; try discriminate S; reflexivity.
    + destruct k; try discriminate S; reflexivity.
    + destruct k; try discriminate S; reflexivity.
    + destruct k; try discriminate S; discriminate.
    + destruct k; try discriminate S; discriminate.
    + intros t Ht. apply in_map_iff in Ht. destruct Ht as [y [<- Hy]].
      apply as_type_of_tag; [exact S|]. apply F. right. exact Hy.
  - rewrite content_in_arr. apply forallb_forall. intros x Hx.
    apply content_of_tag; [exact S|]. apply F. exact Hx.
Qed.

Lemma arr_of_any vs : has_type (arr_of vs) (TArr TAny) = true.
Proof. unfold arr_of. apply has_type_arr_any. Qed.

Lemma io_error_has_type code msg : has_type (io_error_val code msg) io_error_ty = true.
Proof. reflexivity. Qed.

(* whatever `into()` produces from a Rust value of type r inhabits [image_ty r] *)
Theorem image_sound : forall r el v, into_image r el v -> has_type v (image_ty r el) = true.
Proof.
  induction r as [| | | | | | | | | | | | | | | | | | | t IHt | t IHt e IHe | t IHt];
    intros el v H; cbn [into_image image_ty] in *.
  - subst v. reflexivity.
  - destruct H as [b ->]. reflexivity.
  - destruct H as [z [-> _]]. reflexivity.
  - destruct H as [z [-> _]]. reflexivity.
  - destruct H as [z [-> _]]. reflexivity.
  - destruct H as [z [-> _]]. reflexivity.
  - destruct H as [f ->]. reflexivity.
  - destruct H as [s ->]. reflexivity.
  - destruct H as [s ->]. reflexivity.
  - destruct H as [s ->]. reflexivity.
  - destruct H as [s ->]. reflexivity.
  - destruct H as [et [vs ->]]. apply has_type_arr_any.
  - destruct H as [et [vs ->]]. apply has_type_arr_any.
  - destruct H as [et [vs ->]]. apply has_type_arr_any.
  - destruct H as [vs [-> F]]. destruct el as [k|]; [|apply arr_of_any].
    destruct (scalar_tag k) eqn:S; [apply arr_of_scalar; assumption|apply arr_of_any].
  - destruct H as [vs [-> F]]. destruct el as [k|]; [|apply arr_of_any].
    destruct (scalar_tag k) eqn:S; [apply arr_of_scalar; assumption|apply arr_of_any].
  - apply has_type_any_all.
  - apply has_type_any_all.
  - destruct H as [code [msg ->]]. apply io_error_has_type.
  - destruct H as [->|H].
    + apply (has_type_multi_intro _ TVoid); [right; left; reflexivity|reflexivity].
    + apply (has_type_multi_intro _ (image_ty t el)); [left; reflexivity|]. apply IHt. exact H.
  - destruct H as [H|H].
    + apply (has_type_multi_intro _ (image_ty t el)); [left; reflexivity|]. apply IHt. exact H.
    + apply (has_type_multi_intro _ (image_ty e el)); [right; left; reflexivity|]. apply IHe. exact H.
  - apply IHt. exact H.
Qed.

Definition export_ret_checked (e : export) : bool :=
  match e with
  | EFn _ _ _ ret dret _ el => matches (image_ty ret el) dret
  | _ => true
  end.

Lemma returns_table_checked : forallb export_ret_checked stdlib_exports = true.
Proof. vm_compute. reflexivity. Qed.

(* The Into<Variable> image of the Rust return type of every export is contained in its
   declared SimpleSL return type — by tag (`matches`) and by contents. *)
Theorem returns_declared : forall path name ps ret dret ra el v,
  In (EFn path name ps ret dret ra el) stdlib_exports ->
  into_image ret el v ->
  has_type v dret = true.
Proof.
  intros path name ps ret dret ra el v He Hv.
  pose proof returns_table_checked as T. rewrite forallb_forall in T. specialize (T _ He).
  cbn [export_ret_checked] in T.
  exact (has_type_sound v _ _ (image_sound _ _ _ Hv) T).
Qed.

(* the TypeOf table itself: `<R as TypeOf>::type_of()` contains the image of R *)
Lemma typeof_table_checked :
  forallb (fun rt => matches (image_ty (fst rt) None) (snd rt)) typeof_table = true.
Proof. vm_compute. reflexivity. Qed.

Theorem typeof_table_sound : forall r t v,
  In (r, t) typeof_table -> into_image r None v -> has_type v t = true.
Proof.
  intros r t v Hin Hv.
  pose proof typeof_table_checked as T. rewrite forallb_forall in T. specialize (T _ Hin).
  cbn [fst snd] in T. exact (has_type_sound v _ _ (image_sound _ _ _ Hv) T).
Qed.

(* the generic rule Result<T,S> : T::type_of() | S::type_of() *)
Lemma rty_eqb_eq : forall a b, rty_eqb a b = true -> a = b.
Proof.
  induction a; destruct b; cbn [rty_eqb]; try discriminate; intros K; try reflexivity.
  - f_equal. apply IHa. exact K.
  - apply andb_true_iff in K. destruct K as [K1 K2]. f_equal; [apply IHa1|apply IHa2]; assumption.
  - f_equal. apply IHa. exact K.
Qed.

Lemma lookup_rty_in : forall tbl r t, lookup_rty r tbl = Some t -> In (r, t) tbl.
Proof.
  induction tbl as [|[k x] tbl IH]; intros r t; cbn [lookup_rty]; [discriminate|].
  destruct (rty_eqb r k) eqn:K.
  - intros [= <-]. left. rewrite (rty_eqb_eq _ _ K). reflexivity.
  - intros L. right. apply IH. exact L.
Qed.

Theorem type_of_rty_sound : forall r t v,
  type_of_rty typeof_table r = Some t -> into_image r None v -> has_type v t = true.
Proof.
  induction r as [| | | | | | | | | | | | | | | | | | | t0 IHt | t0 IHt e0 IHe | t0 IHt];
    intros t v E Hv; cbn [type_of_rty] in E;
    match type of E with
    | match lookup_rty ?r ?tbl with _ => _ end = _ =>
        destruct (lookup_rty r tbl) as [t'|] eqn:L;
        [ injection E as <-; exact (typeof_table_sound _ _ _ (lookup_rty_in _ _ _ L) Hv) | ]
    end; try discriminate E.
  (* Result<T,S> without a table entry *)
  fold type_of_rty in E.
  destruct (type_of_rty typeof_table t0) as [a|] eqn:Ea; [|discriminate E].
  destruct (type_of_rty typeof_table e0) as [b|] eqn:Eb; [|discriminate E].
  injection E as <-. cbn [into_image] in Hv. unfold ty_union. cbn [concat_all fold_left].
  destruct Hv as [Hv|Hv].
  - apply has_type_union_l_all. apply (IHt a v eq_refl Hv).
  - apply has_type_union_r_all. apply (IHe b v eq_refl Hv).
Qed.

(* return types without #[return_type] are declared as TypeOf of the Rust return type *)
Definition ret_decl_coherent (e : export) : bool :=
  match e with
  | EFn _ _ _ ret dret false _ =>
      match type_of_rty typeof_table ret with
      | Some t => ty_eqb t dret
      | None => false
      end
  | _ => true
  end.

Lemma returns_decl_coherent : forallb ret_decl_coherent stdlib_exports = true.
Proof. vm_compute. reflexivity. Qed.

(* constants: `(CONST).into()` has the type TypeOf gives the Rust type, and is a value of it *)
Definition const_in_rty (r : rty) (c : cvalue) : bool :=
  match r, c with
  | RI64, CInt z => in_i64b z
  | RF64, CFloat b => (0 <=? b) && (b <? two64)
  | _, _ => false
  end.

Definition export_const_checked (e : export) : bool :=
  match e with
  | EConst _ _ r t c =>
      has_type (const_value c) t && const_in_rty r c &&
      match type_of_rty typeof_table r with Some t' => ty_eqb t' t | None => false end
  | _ => true
  end.

Lemma consts_table_checked : forallb export_const_checked stdlib_exports = true.
Proof. vm_compute. reflexivity. Qed.

Theorem constants_typed : forall path name r t c,
  In (EConst path name r t c) stdlib_exports ->
  has_type (const_value c) t = true /\ const_in_rty r c = true.
Proof.
  intros path name r t c He.
  pose proof consts_table_checked as T. rewrite forallb_forall in T. specialize (T _ He).
  cbn [export_const_checked] in T.
  apply andb_true_iff in T. destruct T as [T _]. apply andb_true_iff in T. exact T.
Qed.

(* the modelled constants are the table's *)
Lemma constants_values :
  In (EConst [n_std; n_math] n_MIN_INT RI64 TInt (CInt MIN_INT)) stdlib_exports /\
  In (EConst [n_std; n_math] n_MAX_INT RI64 TInt (CInt MAX_INT)) stdlib_exports /\
  In (EConst [n_std; n_math] n_E RF64 TFloat (CFloat E_BITS)) stdlib_exports /\
  In (EConst [n_std; n_math] n_PI RF64 TFloat (CFloat PI_BITS)) stdlib_exports.
Proof. vm_compute. tauto. Qed.

(* CheckUnfold.v — the checker of Model/Check.v one fuel step at a time.

   [check_x]/[check_s]/[check_lines] are one mutual Fixpoint on fuel whose local
   helpers are let-bound fixes.  Here the body of one fuel step is written once
   more as three NON-recursive functions of "the checker at the previous fuel"
   ([x_body], [s_body], [l_body]), with the local helpers as standalone
   definitions; [check_x_S] etc. (proved by [reflexivity]) say that the model's
   checker is exactly that body.

   Also: the well-formedness predicates on the surface AST and on the
   environments, and the size of the surface AST (the fuel that suffices). *)
From SSL.Model Require Import Base Ty Float Value Ops Seq Syntax Rt Recreate Check.
Local Open Scope Z_scope.

(* ---------- standalone copies of the local helpers ---------- *)
Definition cxl_def (cx : sx -> outcome instr) :=
  fix go (l : list sx) : outcome (list instr) :=
    match l with
    | [] => Ok []
    | y :: l => obind (cx y) (fun i => obind (go l) (fun is => Ok (i :: is)))
    end.

Definition cxo_def (cx : sx -> outcome instr) (o : option sx) : outcome (option instr) :=
  match o with None => Ok None | Some y => obind (cx y) (fun i => Ok (Some i)) end.

Definition rtl_def :=
  fix go (l : list instr) : outcome (list ty) :=
    match l with
    | [] => Ok []
    | y :: l => obind (rt y) (fun t => obind (go l) (fun ts => Ok (t :: ts)))
    end.

Definition cxf_def (cx : sx -> outcome instr) :=
  fix go (l : list (name * option sx)) : outcome (list (name * instr)) :=
    match l with
    | [] => Ok []
    | (k, None) :: l => obind (cx (XIdent k)) (fun i => obind (go l) (fun r => Ok ((k, i) :: r)))
    | (k, Some y) :: l => obind (cx y) (fun i => obind (go l) (fun r => Ok ((k, i) :: r)))
    end.

Definition chk_int (o : option instr) : outcome bool :=
  match o with
  | None => Ok true
  | Some i => obind (rt i) (fun t => Ok (ty_eqb t TInt))
  end.

Definition arm_def (cx : lenv -> sx -> outcome instr) (cs : lenv -> sstm -> C)
  (e : lenv) (a : sarm) : outcome (arm * lenv) :=
  match a with
  | AType n t b =>
      obind (cs (lenv_insert n (LOther t) (lenv_push e)) b) (fun '(bi, _) =>
      Ok (ArmType n t bi, e))
  | AValue vs b =>
      obind (cxl_def (cx e) vs) (fun vis =>
      obind (cs e b) (fun '(bi, e) => Ok (ArmValue vis bi, e)))
  | AOther b => obind (cs e b) (fun '(bi, e) => Ok (ArmOther bi, e))
  end.

Definition arms_def (cx : lenv -> sx -> outcome instr) (cs : lenv -> sstm -> C) :=
  fix go (l : list sarm) (e : lenv) : outcome (list arm * lenv) :=
    match l with
    | [] => Ok ([], e)
    | a :: l =>
        obind (arm_def cx cs e a) (fun '(a', e) => obind (go l e) (fun '(l', e) => Ok (a' :: l', e)))
    end.

Definition else_def (cs : lenv -> sstm -> C) (e : lenv) (f : option sstm) : C :=
  match f with
  | None => Ok (IVar VVoid, e)
  | Some f => cs e f
  end.

(* ---------- one fuel step ---------- *)
Section Body.
Variable red : reducers.
Variable cxf : scopes -> lenv -> sx -> outcome instr.
Variable csf : scopes -> lenv -> sstm -> C.
Variable clf : scopes -> lenv -> list sline -> outcome (list instr * lenv).

Definition x_body (sc : scopes) (e : lenv) (x : sx) : outcome instr :=
    let cx := cxf sc e in
    let cx_list := cxl_def cx in
    let cx_opt := cxo_def cx in
    let rts := rtl_def in
    match x with
    | XIdent n =>
        match lenv_get n e with
        | Some (LVariable v) => Ok (IVar v)
        | Some lv => Ok (ILocal n lv)
        | None => match scopes_get n sc with Some v => Ok (IVar v) | None => reject end
        end
    | XConst v => Ok (IVar v)
    | XMut None y => obind (cx y) (fun i => obind (rt i) (fun t => Ok (IMut t i)))
    | XMut (Some t) y =>
        obind (cx y) (fun i => obind (rt i) (fun it =>
        if matches it t then Ok (IMut t i) else reject))
    | XTuple es => obind (cx_list es) (fun is => Ok (ITuple is))
    | XArray es =>
        obind (cx_list es) (fun is => obind (rts is) (fun ts =>
        Ok (IArray is (match concat_all ts with Some t => t | None => TNever end))))
    | XArrayRepeat v len =>
        obind (cx v) (fun vi => obind (cx len) (fun li => obind (rt li) (fun lt =>
        if matches lt TInt then Ok (IArrayRepeat vi li) else reject)))
    | XFunction ps ret body =>
        let r := match ret with Some t => t | None => TVoid end in
        obind (clf sc (lenv_push_fn (params_layer ps) None r e) body) (fun '(is, _) =>
        let is := drop_consts is in
        obind (missing_return r is) (fun miss =>
        if miss then reject else Ok (IAnonFn ps is r)))
    | XStruct fs =>
        obind (cxf_def cx fs) (fun fs' => Ok (IStruct fs'))
    | XMod body =>
        obind (clf sc (lenv_push e) body) (fun '(is, e') =>
        let lay := match e' with l :: _ => l_vars l | [] => [] end in
        Ok (IBlock (drop_consts is ++ [IStruct (map (fun kv => (fst kv, ILocal (fst kv) (snd kv))) (rev lay))])))
    | XPrefix op y =>
        obind (cx y) (fun i => obind (rt i) (fun t =>
        match op with
        | PNot => if matches t ACC_NOT then Ok (IUn UNot i) else reject
        | PNeg => if matches t ACC_NEG then Ok (IUn UUnaryMinus i) else reject
        | PDeref => if is_mut t then Ok (IUn UIndirection i) else reject
        end))
    | XInfix op l r =>
        obind (cx l) (fun li => obind (cx r) (fun ri =>
        obind (rt li) (fun lt => obind (rt ri) (fun rtt =>
        obind (can_be_used op lt rtt) (fun ok =>
        if ok then Ok (IBin op li ri) else reject)))))
    | XReduce it init f =>
        obind (cx it) (fun iti => obind (cx f) (fun fi => obind (cx init) (fun ini =>
        obind (rt iti) (fun itt =>
        match iter_element itt with
        | None => reject
        | Some el =>
            obind (rt fi) (fun ft =>
            match fn_return_type ft with
            | None => reject
            | Some r =>
                obind (rt ini) (fun int_ =>
                let acc := concat (concat int_ el) r in
                if matches ft (TFun [acc; el] r) then Ok (IReduce iti ini fi) else reject)
            end)
        end))))
    | XAt y i =>
        obind (cx y) (fun yi => obind (cx i) (fun ii =>
        obind (rt yi) (fun yt => obind (rt ii) (fun it =>
        if negb (ty_eqb it TInt) then reject
        else if ty_eqb yt TNever || negb (can_be_indexed yt) then reject
        else Ok (IBin At yi ii)))))
    | XSlice y a b c =>
        obind (cx y) (fun yi => obind (rt yi) (fun yt =>
        if negb (can_be_indexed yt) then reject else
        obind (cx_opt a) (fun ai => obind (cx_opt b) (fun bi => obind (cx_opt c) (fun ci =>
        match ai, bi, ci with
        | None, None, None => Ok yi
        | _, _, _ =>
            obind (chk_int ai) (fun oa => obind (chk_int bi) (fun ob => obind (chk_int ci) (fun oc =>
            if oa && ob && oc then Ok (ISlicing yi ai bi ci) else reject)))
        end)))))
    | XCall f args =>
        obind (cx f) (fun fi => obind (cx_list args) (fun ais => obind (rts ais) (fun ats =>
        let build := Ok (IBin FunctionCall fi (ITuple ais)) in
        match fi with
        | IVar (VFun _ ps _) => if args_ok ps ats then build else reject
        | ILocal _ (LFunction ps _) => if args_ok (map snd ps) ats then build else reject
        | IAnonFn ps _ _ => if args_ok (map snd ps) ats then build else reject
        | _ =>
            obind (rt fi) (fun ft =>
            if negb (is_function ft) then reject else
            match Ty.params ft with
            | None => reject
            | Some ps => if args_ok ps ats then build else reject
            end)
        end)))
    | XTupleAccess y k =>
        obind (cx y) (fun yi => obind (rt yi) (fun yt =>
        if negb (is_tuple yt) then reject else
        match min_tuple_len yt with
        | None => Panic
        | Some len => if Nat.leb len k then reject else Ok (ITupleAccess yi k)
        end))
    | XFieldAccess y f =>
        obind (cx y) (fun yi => obind (rt yi) (fun yt =>
        if negb (is_struct yt) then reject
        else if negb (has_field f yt) then reject
        else Ok (IFieldAccess yi f)))
    | XTypeFilter y t =>
        obind (cx y) (fun yi => obind (rt yi) (fun yt =>
        if is_iterator yt && (match of_type t with Some _ => true | None => false end)
        then Ok (ITypeFilter yi t) else reject))
    | XPostfix op y =>
        obind (cx y) (fun yi => obind (rt yi) (fun yt =>
        let plant := fun (f : value) => Ok (IBin FunctionCall (IVar f) (ITuple [yi])) in
        let never := ty_eqb yt TNever in
        let noelem := match iter_element yt with Some _ => false | None => true end in
        match op with
        | USum => if negb noelem && matches yt ACC_SUM then plant_reducer (r_sums red) yi yt else reject
        | UProduct => if negb noelem && matches yt ACC_PRODUCT then plant_reducer (r_products red) yi yt else reject
        | UAll => if matches yt (TFun [] (TTup [TBool; TBool])) then plant (r_all red) else reject
        | UAny => if matches yt (TFun [] (TTup [TBool; TBool])) then plant (r_any red) else reject
        | UBitAnd => if matches yt (TFun [] (TTup [TBool; TInt])) then plant (r_and red) else reject
        | UBitOr => if matches yt (TFun [] (TTup [TBool; TInt])) then plant (r_or red) else reject
        | UCollect => if negb noelem && matches yt ITERATOR_TYPE then Ok (IUn UCollect yi) else reject
        | UIter => if negb never && matches yt (TArr TAny) then Ok (IUn UIter yi) else reject
        | _ => Panic
        end))
    end.

Definition s_body (sc : scopes) (e : lenv) (s : sstm) : C :=
    let cs := csf sc in
    let cx := cxf sc in
    match s with
    | SExpr x => obind (cx e x) (fun i => Ok (i, e))
    | SBlock body =>
        obind (clf sc (lenv_push e) body) (fun '(is, _) => Ok (IBlock (drop_consts is), e))
    | SBrk => if lenv_in_loop e then Ok (IBreak, e) else reject
    | SCont => if lenv_in_loop e then Ok (IContinue, e) else reject
    | SIfElse c t f =>
        obind (cx e c) (fun ci => obind (rt ci) (fun ct =>
        if negb (ty_eqb ct TBool) then reject else
        obind (cs e t) (fun '(ti, e) =>
        obind (else_def cs e f) (fun '(fi, e) => Ok (IIfElse ci ti fi, e)))))
    | SSetIfElse n t x ifm els =>
        obind (cx e x) (fun xi =>
        obind (cs (lenv_insert n (LOther t) (lenv_push e)) ifm) (fun '(mi, _) =>
        obind (else_def cs e els) (fun '(ei, e) => Ok (ISetIfElse n t xi mi ei, e))))
    | SMatch x arms =>
        obind (cx e x) (fun xi => obind (rt xi) (fun xt =>
        obind (arms_def cx cs arms e) (fun '(arms', e) =>
        if match_covers arms' xt then Ok (IMatch xi arms', e) else reject)))
    | SRet r =>
        match lenv_function e with
        | None => reject
        | Some (_, fret) =>
            obind (else_def cs e r) (fun '(ri, e) =>
            obind (rt ri) (fun t =>
            if matches t fret then Ok (IUn UReturn ri, e) else reject))
        end
    | SLoop b =>
        let old := lenv_in_loop e in
        obind (cs (lenv_set_loop true e) b) (fun '(bi, e) => Ok (ILoop bi, lenv_set_loop old e))
    | SWhile c b =>
        obind (cx e c) (fun ci => obind (rt ci) (fun ct =>
        if negb (ty_eqb ct TBool) then reject else
        let old := lenv_in_loop e in
        obind (cs (lenv_set_loop true e) b) (fun '(bi, e) =>
        let e := lenv_set_loop old e in
        match ci with
        | IVar v => if val_eqb v (VBool true) then Ok (ILoop bi, e) else Ok (IVar VVoid, e)
        | _ => Ok (ILoop (IIfElse ci bi IBreak), e)
        end)))
    | SWhileSet n t x b =>
        let old := lenv_in_loop e in
        let e1 := lenv_set_loop true e in
        obind (cx e1 x) (fun xi =>
        obind (cs (lenv_insert n (LOther t) (lenv_push e1)) b) (fun '(bi, _) =>
        Ok (ILoop (ISetIfElse n t xi bi IBreak), lenv_set_loop old e1)))
    | SFor n x b =>
        obind (cx e x) (fun xi => obind (rt xi) (fun xt =>
        match iter_element xt with
        | None => reject
        | Some el =>
            let e1 := lenv_insert n (LOther el) (lenv_set_loop true (lenv_push e)) in
            obind (cs e1 b) (fun '(bi, _) =>
            let call := IBin FunctionCall (ILocal n_iter (LOther (TFun [] (TTup [TBool; TAny])))) (IVar (VTup [])) in
            Ok (IBlock [ISet n_iter xi;
                        ILoop (IBlock [IDestruct [n_conv; n] call;
                                       IIfElse (ILocal n_conv (LOther TBool)) bi IBreak])], e))
        end))
    end.

Definition line_body (sc : scopes) (e : lenv) (ln : sline) : C :=
  match ln with
  | LStm s => csf sc e s
  | LSet n s =>
      obind (csf sc e s) (fun '(i, e) =>
      obind (lvar_of_instr i) (fun lv => Ok (ISet n i, lenv_insert n lv e)))
  | LDestruct ids s =>
      obind (csf sc e s) (fun '(i, e) => obind (rt i) (fun t =>
      if negb (is_tuple t) then reject else
      match tuple_len t with
      | None => reject
      | Some len =>
          if negb (Nat.eqb len (length ids)) then reject else
          obind (destruct_insert ids i e) (fun e => Ok (IDestruct ids i, e))
      end))
  | LFnDecl n ps ret body =>
      let r := match ret with Some t => t | None => TVoid end in
      let e := lenv_insert n (LFunction ps r) e in
      obind (clf sc (lenv_push_fn (params_layer ps) (Some n) r e) body) (fun '(is, _) =>
      let is := drop_consts is in
      obind (missing_return r is) (fun miss =>
      if miss then reject else Ok (IFnDecl n ps is r, e)))
  end.

Definition l_body (sc : scopes) (e : lenv) (l : list sline) : outcome (list instr * lenv) :=
    match l with
    | [] => Ok ([], e)
    | ln :: l =>
        obind (line_body sc e ln) (fun '(i, e) =>
        obind (clf sc e l) (fun '(is, e) => Ok (i :: is, e)))
    end.
End Body.

(* ---------- the model's checker is that body ---------- *)
Lemma check_x_S red n sc e x :
  check_x red (S n) sc e x = x_body red (check_x red n) (check_lines red n) sc e x.
Proof. destruct x; reflexivity. Qed.

Lemma check_s_S red n sc e s :
  check_s red (S n) sc e s =
  s_body (check_x red n) (check_s red n) (check_lines red n) sc e s.
Proof. destruct s; reflexivity. Qed.

Lemma check_lines_S red n sc e l :
  check_lines red (S n) sc e l = l_body (check_s red n) (check_lines red n) sc e l.
Proof. destruct l as [|[] l]; reflexivity. Qed.

(* ---------- well-formedness of the inputs ---------- *)
(* binary operators the Pratt parser builds an XInfix for: `[]` and `()` have nodes
   of their own (XAt, XCall); only the folding pass cares (RecreateTotal.frag) *)
Definition infix_ok (op : binop) : bool :=
  match op with At | FunctionCall => false | _ => true end.
(* the postfix operators of the grammar *)
Definition postfix_ok (op : unop) : bool :=
  match op with
  | USum | UProduct | UAll | UAny | UBitAnd | UBitOr | UCollect | UIter => true
  | _ => false
  end.

Definition wf_oty (o : option ty) : bool := match o with Some t => wf_ty t | None => true end.
Definition wf_params (ps : params) : bool := forallb (fun p => wf_ty (snd p)) ps.

Fixpoint wf_sx (x : sx) : bool :=
  match x with
  | XIdent _ => true
  | XConst v => wf_ty (as_type v)
  | XMut t e => wf_oty t && wf_sx e
  | XTuple es | XArray es => forallb wf_sx es
  | XArrayRepeat a b => wf_sx a && wf_sx b
  | XFunction ps ret body => wf_params ps && wf_oty ret && forallb wf_sline body
  | XStruct fs => forallb (fun kv => match kv with
                                     | (_, Some y) => wf_sx y
                                     | (_, None) => true end) fs
  | XMod body => forallb wf_sline body
  | XPrefix _ e => wf_sx e
  | XInfix _ l r => wf_sx l && wf_sx r
  | XReduce a b c => wf_sx a && wf_sx b && wf_sx c
  | XAt a b => wf_sx a && wf_sx b
  | XSlice y a b c =>
      wf_sx y && match a with Some y => wf_sx y | None => true end
              && match b with Some y => wf_sx y | None => true end
              && match c with Some y => wf_sx y | None => true end
  | XCall f args => wf_sx f && forallb wf_sx args
  | XTupleAccess e _ | XFieldAccess e _ => wf_sx e
  | XTypeFilter e t => wf_ty t && wf_sx e
  | XPostfix op e => postfix_ok op && wf_sx e
  end
with wf_sstm (s : sstm) : bool :=
  match s with
  | SExpr e => wf_sx e
  | SBlock body => forallb wf_sline body
  | SIfElse c t f => wf_sx c && wf_sstm t && match f with Some f => wf_sstm f | None => true end
  | SSetIfElse _ t e i els =>
      wf_ty t && wf_sx e && wf_sstm i && match els with Some f => wf_sstm f | None => true end
  | SMatch e arms => wf_sx e && forallb wf_sarm arms
  | SRet r => match r with Some s => wf_sstm s | None => true end
  | SLoop b => wf_sstm b
  | SWhile c b => wf_sx c && wf_sstm b
  | SWhileSet _ t e b => wf_ty t && wf_sx e && wf_sstm b
  | SFor _ e b => wf_sx e && wf_sstm b
  | SBrk | SCont => true
  end
with wf_sline (l : sline) : bool :=
  match l with
  | LFnDecl _ ps ret body => wf_params ps && wf_oty ret && forallb wf_sline body
  | LSet _ s | LDestruct _ s | LStm s => wf_sstm s
  end
with wf_sarm (a : sarm) : bool :=
  match a with
  | AType _ t b => wf_ty t && wf_sstm b
  | AValue vs b => forallb wf_sx vs && wf_sstm b
  | AOther b => wf_sstm b
  end.

Definition wf_lvar (lv : lvar) : bool := wf_ty (lvar_type lv).
Definition wf_vars (vs : list (name * lvar)) : bool := forallb (fun kv => wf_lvar (snd kv)) vs.
Definition wf_layer (l : layer) : bool :=
  wf_vars (l_vars l) && match l_fn l with Some (_, r) => wf_ty r | None => true end.
Definition wf_lenv (e : lenv) : Prop := forallb wf_layer e = true.
Definition wf_scopes (sc : scopes) : Prop :=
  forallb (forallb (fun kv : name * value => wf_ty (as_type (snd kv)))) sc = true.
Definition wf_fun_val (v : value) : bool :=
  match v with VFun _ ps r => wf_ty (TFun ps r) | _ => false end.
(* the reducers `$+` / `$*` choose from: at least one, each a function value with a
   well-formed type, listed with a well-formed iterator type *)
Definition wf_reds (rs : list (ty * value)) : bool :=
  match rs with
  | [] => false
  | _ => forallb (fun kf => wf_ty (fst kf) && wf_fun_val (snd kf)) rs
  end.
Definition wf_red (red : reducers) : Prop :=
  wf_fun_val (r_all red) && wf_fun_val (r_any red) && wf_fun_val (r_and red) && wf_fun_val (r_or red)
  && wf_reds (r_sums red) && wf_reds (r_products red)
  = true.

(* ---------- size of the surface AST: a fuel that suffices ---------- *)
Local Close Scope Z_scope.
Definition sum_with {A} (f : A -> nat) :=
  fix go (l : list A) : nat := match l with [] => 0 | x :: l => f x + go l end.

Fixpoint sx_size (x : sx) : nat :=
  S (match x with
     | XIdent _ | XConst _ => 0
     | XMut _ e | XPrefix _ e | XTupleAccess e _ | XFieldAccess e _ | XTypeFilter e _
     | XPostfix _ e => sx_size e
     | XTuple es | XArray es => sum_with sx_size es
     | XArrayRepeat a b | XInfix _ a b | XAt a b => sx_size a + sx_size b
     | XFunction _ _ body | XMod body => sum_with (fun ln => S (sline_size ln)) body
     | XStruct fs => sum_with (fun kv => match kv with
                                         | (_, Some y) => S (sx_size y)
                                         | (_, None) => 2 end) fs
     | XReduce a b c => sx_size a + sx_size b + sx_size c
     | XSlice y a b c =>
         sx_size y + match a with Some y => sx_size y | None => 0 end
                   + match b with Some y => sx_size y | None => 0 end
                   + match c with Some y => sx_size y | None => 0 end
     | XCall f args => sx_size f + sum_with sx_size args
     end)
with sstm_size (s : sstm) : nat :=
  S (match s with
     | SExpr e => sx_size e
     | SBlock body => sum_with (fun ln => S (sline_size ln)) body
     | SIfElse c t f => sx_size c + sstm_size t + match f with Some f => sstm_size f | None => 0 end
     | SSetIfElse _ _ e i els =>
         sx_size e + sstm_size i + match els with Some f => sstm_size f | None => 0 end
     | SMatch e arms => sx_size e + sum_with (fun a => S (sarm_size a)) arms
     | SRet r => match r with Some s => sstm_size s | None => 0 end
     | SLoop b => sstm_size b
     | SWhile c b | SWhileSet _ _ c b | SFor _ c b => sx_size c + sstm_size b
     | SBrk | SCont => 0
     end)
with sline_size (l : sline) : nat :=
  S (match l with
     | LFnDecl _ _ _ body => sum_with (fun ln => S (sline_size ln)) body
     | LSet _ s | LDestruct _ s | LStm s => sstm_size s
     end)
with sarm_size (a : sarm) : nat :=
  S (match a with
     | AType _ _ b | AOther b => sstm_size b
     | AValue vs b => sum_with sx_size vs + sstm_size b
     end).

Definition lines_size (l : list sline) : nat := sum_with (fun ln => S (sline_size ln)) l.
Definition osx_size (o : option sx) : nat := match o with Some y => sx_size y | None => 0 end.
Definition ostm_size (o : option sstm) : nat := match o with Some y => sstm_size y | None => 0 end.

(* TypeTie.v — T9: the description of the type relation that translators/typefns2coq.py
   REGENERATES from src/variable/{type,function_type,struct_type,multi_type}.rs on every run
   (Gen/GenTypeFns.v: one Coq function per Rust function, arm for arm) coincides with the
   hand-written model Model/Ty.v that C10 / C01 / C05 / C15 talk about.

   For a recursive Rust function X the generator writes
     gen_X_step rec ..   one unfolding of the body, recursive calls through `rec`
     gen_X_f fuel ..     the fuel-indexed fixpoint (false / TNever / None when the fuel is out)
     gen_X ..            fuel := the sizes of the Type arguments.
   The lemmas: [gen_X_step_eq] (= the step functional of Lemmas/TyFuel.v, for every `rec`),
   [gen_X_f_eq] (= Ty.X_f for ALL fuel where the model is fuel-indexed too; = Ty.X for enough
   fuel where the model is a structural fixpoint), [gen_X_eq] (= Ty.X, all arguments).
   Every equality is for ALL arguments (no wf_ty), so the places where the Rust code would
   panic (`next().unwrap()` on an empty union) are read the same way on both sides. *)
From SSL.Model Require Import Base Ty.
From SSL.Lemmas Require Import TyFuel TyEq TyQuery.
From SSL.Gen Require Import GenTypeFns.

(* ---------- list combinators: Rust's spelling vs. the model's ---------- *)
Lemma all2_combine {A B} (f : A -> B -> bool) l1 l2 :
  Nat.eqb (length l1) (length l2) && forallb (fun '(x, y) => f x y) (combine l1 l2) = all2 f l1 l2.
Proof.
  revert l2. induction l1 as [|x l1 IH]; intros [|y l2]; cbn [length Nat.eqb combine forallb all2 andb];
    try reflexivity.
  rewrite <- IH. destruct (f x y), (Nat.eqb (length l1) (length l2)); reflexivity.
Qed.

Lemma map_combine_zip_with {A B C} (f : A -> B -> C) l1 l2 :
  map (fun '(x, y) => f x y) (combine l1 l2) = zip_with f l1 l2.
Proof.
  revert l2. induction l1 as [|x l1 IH]; intros [|y l2]; cbn [combine map zip_with]; try reflexivity.
  rewrite IH. reflexivity.
Qed.

Lemma zip_with_ext {A B C} (f g : A -> B -> C) l1 l2 :
  (forall x y, f x y = g x y) -> zip_with f l1 l2 = zip_with g l1 l2.
Proof. intros H. apply zip_with_ext_in. intros x y _ _. apply H. Qed.

Lemma fold_left_ext {A B} (f g : A -> B -> A) l a :
  (forall x y, f x y = g x y) -> fold_left f l a = fold_left g l a.
Proof. intros H. revert a. induction l as [|x l IH]; intros a; cbn [fold_left]; [reflexivity|]. rewrite H. apply IH. Qed.

(* `first = it.next().unwrap().q()?;  it.map(q).try_fold(first, g)`  is the model's fold_opt *)
Lemma try_fold_fold_opt {A} (f : A -> A -> option A) (g : A -> option A -> option A) l a :
  (forall a c, g a (Some c) = f a c) -> (forall a, g a None = None) ->
  rs_try_fold g a l =
  fold_left (fun acc c => match acc, c with Some a, Some c => f a c | _, _ => None end) l (Some a).
Proof.
  intros Hs Hn. revert a. induction l as [|c l IH]; intros a; cbn [rs_try_fold fold_left]; [reflexivity|].
  destruct c as [c|].
  - rewrite Hs. destruct (f a c) as [a'|]; [apply IH|]. symmetry. apply fold_opt_step_none.
  - rewrite Hn. symmetry. apply fold_opt_step_none.
Qed.

Lemma multi_query_tie {A} (q Q : ty -> option A) (g : A -> option A -> option A) (f : A -> A -> option A) ms :
  (forall m, In m ms -> q m = Q m) ->
  (forall a c, g a (Some c) = f a c) -> (forall a, g a None = None) ->
  match ms with
  | [] => rs_panic None
  | x :: it => match q x with Some first => rs_try_fold g first (map q it) | None => None end
  end = fold_opt f (map Q ms).
Proof.
  intros Hq Hs Hn. destruct ms as [|x it]; [reflexivity|].
  cbn [map fold_opt]. rewrite <- (Hq x (or_introl eq_refl)).
  rewrite <- (map_ext_in' q Q it) by (intros m Hm; apply Hq; right; exact Hm).
  destruct (q x) as [first|]; [|symmetry; apply fold_opt_step_none].
  apply try_fold_fold_opt; assumption.
Qed.

(* ---------- MultiType ---------- *)
Lemma gen_MultiType_iter_eq ms : gen_MultiType_iter ms = ms.
Proof. reflexivity. Qed.

(* HashSet::from([a, b]) for two different types *)
Lemma gen_MultiType_from_pair a b : ty_eqb a b = false -> gen_MultiType_from [a; b] = [a; b].
Proof.
  intros H. unfold gen_MultiType_from, rs_hashset_from, rs_hashset_insert, mem_ty.
  cbn [fold_left existsb app orb]. rewrite (ty_eqb_sym b a), H. reflexivity.
Qed.

(* ---------- Type::concat, `|` ---------- *)
Lemma gen_Type_concat_eq a b : gen_Type_concat a b = concat a b.
Proof.
  unfold gen_Type_concat, concat.
  destruct a, b; try reflexivity;
    (destruct (ty_eqb _ _) eqn:E; [reflexivity|]);
    try (rewrite (gen_MultiType_from_pair _ _ E); reflexivity);
    try (unfold rs_hashset_insert; destruct (mem_ty _ _); reflexivity);
    try reflexivity.
Qed.

Lemma gen_Type_bitor_eq a b : gen_Type_bitor a b = concat a b.
Proof. apply gen_Type_concat_eq. Qed.

Lemma gen_FunctionType_concat_eq p1 r1 p2 r2 :
  gen_FunctionType_concat p1 r1 p2 r2 = concat (TFun p1 r1) (TFun p2 r2).
Proof. apply gen_Type_concat_eq. Qed.

Lemma gen_FunctionType_bitor_eq p r b : gen_FunctionType_bitor p r b = concat (TFun p r) b.
Proof. apply gen_Type_concat_eq. Qed.

Lemma rs_reduce_concat l : rs_reduce gen_Type_concat l = concat_all l.
Proof.
  destruct l as [|x l]; [reflexivity|]. cbn [rs_reduce concat_all]. f_equal.
  apply fold_left_ext. exact gen_Type_concat_eq.
Qed.

(* ---------- Type::matches (with FunctionType::matches, StructType::matches) ---------- *)
Lemma gen_StructType_matches_open_eq M f1 f2 :
  gen_StructType_matches_open M f1 f2 =
  forallb (fun kv2 => match assoc (fst kv2) f1 with
                      | Some t1 => M t1 (snd kv2) | None => false end) f2.
Proof.
  unfold gen_StructType_matches_open.
  induction f2 as [|[k v] f2 IH]; cbn [forallb fst snd]; [reflexivity|].
  destruct (assoc k f1) as [t1|]; [|reflexivity].
  rewrite IH. destruct (M t1 v); reflexivity.
Qed.

Lemma gen_FunctionType_matches_open_eq M p1 r1 p2 r2 :
  gen_FunctionType_matches_open M p1 r1 p2 r2 = all2 (fun x y => M y x) p1 p2 && M r1 r2.
Proof.
  unfold gen_FunctionType_matches_open.
  rewrite <- (all2_combine (fun x y => M y x)). reflexivity.
Qed.

Lemma gen_Type_matches_step_eq M a b : gen_Type_matches_step M a b = matches_step M a b.
Proof.
  destruct a, b; try reflexivity; unfold gen_Type_matches_step, matches_step;
    try apply gen_FunctionType_matches_open_eq;
    try apply gen_StructType_matches_open_eq;
    try (apply (all2_combine M)).
Qed.

Lemma gen_Type_matches_f_eq : forall n a b, gen_Type_matches_f n a b = matches_f n a b.
Proof.
  induction n as [|n IH]; intros a b; [reflexivity|].
  cbn [gen_Type_matches_f]. rewrite gen_Type_matches_step_eq, matches_f_S.
  apply matches_step_ext. intros x y _. apply IH.
Qed.

Lemma gen_Type_matches_eq a b : gen_Type_matches a b = matches a b.
Proof. apply gen_Type_matches_f_eq. Qed.

Lemma gen_Type_matches_fuel n a b : size a + size b <= n -> gen_Type_matches_f n a b = matches a b.
Proof. intros H. rewrite gen_Type_matches_f_eq. apply matches_f_fuel; [exact H|apply Nat.le_refl]. Qed.

Lemma gen_FunctionType_matches_eq p1 r1 p2 r2 :
  gen_FunctionType_matches p1 r1 p2 r2 = matches (TFun p1 r1) (TFun p2 r2).
Proof.
  unfold gen_FunctionType_matches. rewrite gen_FunctionType_matches_open_eq, matches_step_eq.
  cbn [matches_step]. f_equal; [|apply gen_Type_matches_eq].
  apply all2_ext_in. intros x y _ _. apply gen_Type_matches_eq.
Qed.

Lemma gen_StructType_matches_eq f1 f2 :
  gen_StructType_matches f1 f2 = matches (TStruct f1) (TStruct f2).
Proof.
  unfold gen_StructType_matches. rewrite gen_StructType_matches_open_eq, matches_step_eq.
  cbn [matches_step]. apply forallb_ext_in. intros kv _.
  destruct (assoc (fst kv) f1); [apply gen_Type_matches_eq|reflexivity].
Qed.

(* ---------- Type::conjoin ---------- *)
Lemma gen_Type_conjoin_step_eq C a b : gen_Type_conjoin_step C a b = conjoin_step C a b.
Proof.
  unfold gen_Type_conjoin_step, conjoin_step. destruct (ty_eqb a b); [reflexivity|].
  destruct a as [| | | | | | |p1 r1|e1|t1|m1|e1|f1], b as [| | | | | | |p2 r2|e2|t2|m2|e2|f2];
    try reflexivity; unfold gen_MultiType_iter;
    try (rewrite rs_reduce_concat; reflexivity).
  - (* functions *)
    destruct (Nat.eqb (length p1) (length p2)); cbn [negb]; [|reflexivity].
    cbv zeta. destruct (ty_eqb (C r1 r2) TNever); [reflexivity|].
    rewrite (map_combine_zip_with gen_Type_concat).
    rewrite (zip_with_ext gen_Type_concat concat) by exact gen_Type_concat_eq. reflexivity.
  - (* tuples *)
    destruct (Nat.eqb (length t1) (length t2)); cbn [negb]; [|reflexivity].
    cbv zeta. rewrite (map_combine_zip_with C). reflexivity.
Qed.

Lemma gen_Type_conjoin_f_eq : forall n a b, gen_Type_conjoin_f n a b = conjoin_f n a b.
Proof.
  induction n as [|n IH]; intros a b; [reflexivity|].
  cbn [gen_Type_conjoin_f]. rewrite gen_Type_conjoin_step_eq, conjoin_f_S.
  apply conjoin_step_ext. intros x y _. apply IH.
Qed.

Lemma gen_Type_conjoin_eq a b : gen_Type_conjoin a b = conjoin a b.
Proof. apply gen_Type_conjoin_f_eq. Qed.

Lemma gen_Type_conjoin_fuel n a b : size a + size b <= n -> gen_Type_conjoin_f n a b = conjoin a b.
Proof. intros H. rewrite gen_Type_conjoin_f_eq. apply conjoin_f_fuel; [exact H|apply Nat.le_refl]. Qed.

(* ---------- the Option-returning queries: enough fuel = the size of the type ---------- *)
Ltac fuel0 t := pose proof (size_pos t); lia.
Ltac member IH :=
  let m := fresh "m" in let Hm := fresh "Hm" in
  intros m Hm; unfold gen_MultiType_iter in Hm; apply IH; szs.

Lemma gen_Type_index_result_f_eq : forall n t, size t <= n -> gen_Type_index_result_f n t = index_result t.
Proof.
  induction n as [|n IH]; intros t Hn; [fuel0 t|].
  cbn [gen_Type_index_result_f]. unfold gen_Type_index_result_step.
  destruct t; try reflexivity.
  apply (multi_query_tie (gen_Type_index_result_f n) index_result _ (fun a c => Some (concat a c)));
    [member IH|intros a c; rewrite gen_Type_bitor_eq; reflexivity|reflexivity].
Qed.
Lemma gen_Type_index_result_eq t : gen_Type_index_result t = index_result t.
Proof. apply gen_Type_index_result_f_eq, Nat.le_refl. Qed.

Lemma gen_Type_element_type_f_eq : forall n t, size t <= n -> gen_Type_element_type_f n t = element_type t.
Proof.
  induction n as [|n IH]; intros t Hn; [fuel0 t|].
  cbn [gen_Type_element_type_f]. unfold gen_Type_element_type_step.
  destruct t; try reflexivity.
  apply (multi_query_tie (gen_Type_element_type_f n) element_type _ (fun a c => Some (concat a c)));
    [member IH|intros a c; rewrite gen_Type_bitor_eq; reflexivity|reflexivity].
Qed.
Lemma gen_Type_element_type_eq t : gen_Type_element_type t = element_type t.
Proof. apply gen_Type_element_type_f_eq, Nat.le_refl. Qed.

(* Type::mut_element_type: the repaired code is the model's [mut_element_type_spec] *)
Lemma gen_Type_mut_element_type_f_eq : forall n t,
  size t <= n -> gen_Type_mut_element_type_f n t = mut_element_type_spec t.
Proof.
  induction n as [|n IH]; intros t Hn; [fuel0 t|].
  cbn [gen_Type_mut_element_type_f]. unfold gen_Type_mut_element_type_step.
  destruct t; try reflexivity.
  apply (multi_query_tie (gen_Type_mut_element_type_f n) mut_element_type_spec _ (fun a c => Some (concat a c)));
    [member IH|intros a c; rewrite gen_Type_bitor_eq; reflexivity|reflexivity].
Qed.
Lemma gen_Type_mut_element_type_eq t : gen_Type_mut_element_type t = mut_element_type_spec t.
Proof. apply gen_Type_mut_element_type_f_eq, Nat.le_refl. Qed.

Lemma gen_FunctionType_return_type_eq p r : gen_FunctionType_return_type p r = r.
Proof. reflexivity. Qed.

Lemma gen_Type_return_type_f_eq : forall n t, size t <= n -> gen_Type_return_type_f n t = fn_return_type t.
Proof.
  induction n as [|n IH]; intros t Hn; [fuel0 t|].
  cbn [gen_Type_return_type_f]. unfold gen_Type_return_type_step.
  destruct t; try reflexivity.
  apply (multi_query_tie (gen_Type_return_type_f n) fn_return_type _ (fun a c => Some (concat a c)));
    [member IH|intros a c; rewrite gen_Type_bitor_eq; reflexivity|reflexivity].
Qed.
Lemma gen_Type_return_type_eq t : gen_Type_return_type t = fn_return_type t.
Proof. apply gen_Type_return_type_f_eq, Nat.le_refl. Qed.

Lemma gen_Type_tuple_element_at_f_eq : forall n t i,
  size t <= n -> gen_Type_tuple_element_at_f n t i = tuple_element_at i t.
Proof.
  induction n as [|n IH]; intros t i Hn; [fuel0 t|].
  cbn [gen_Type_tuple_element_at_f]. unfold gen_Type_tuple_element_at_step.
  destruct t; try reflexivity.
  apply (multi_query_tie (fun t => gen_Type_tuple_element_at_f n t i) (tuple_element_at i) _
           (fun a c => Some (concat a c)));
    [member IH|intros a c; rewrite gen_Type_bitor_eq; reflexivity|reflexivity].
Qed.
Lemma gen_Type_tuple_element_at_eq t i : gen_Type_tuple_element_at t i = tuple_element_at i t.
Proof. apply gen_Type_tuple_element_at_f_eq, Nat.le_refl. Qed.

Lemma gen_Type_field_type_f_eq : forall n t k,
  size t <= n -> gen_Type_field_type_f n t k = field_type k t.
Proof.
  induction n as [|n IH]; intros t k Hn; [fuel0 t|].
  cbn [gen_Type_field_type_f]. unfold gen_Type_field_type_step.
  destruct t; try reflexivity.
  apply (multi_query_tie (fun t => gen_Type_field_type_f n t k) (field_type k) _
           (fun a c => Some (concat a c)));
    [member IH|intros a c; rewrite gen_Type_bitor_eq; reflexivity|reflexivity].
Qed.
Lemma gen_Type_field_type_eq t k : gen_Type_field_type t k = field_type k t.
Proof. apply gen_Type_field_type_f_eq, Nat.le_refl. Qed.

Lemma gen_Type_tuple_len_f_eq : forall n t, size t <= n -> gen_Type_tuple_len_f n t = tuple_len t.
Proof.
  induction n as [|n IH]; intros t Hn; [fuel0 t|].
  cbn [gen_Type_tuple_len_f]. unfold gen_Type_tuple_len_step.
  destruct t; try reflexivity.
  apply (multi_query_tie (gen_Type_tuple_len_f n) tuple_len _
           (fun acc c => if Nat.eqb acc c then Some acc else None));
    [member IH|reflexivity|reflexivity].
Qed.
Lemma gen_Type_tuple_len_eq t : gen_Type_tuple_len t = tuple_len t.
Proof. apply gen_Type_tuple_len_f_eq, Nat.le_refl. Qed.

Lemma gen_Type_min_tuple_len_eq t : gen_Type_min_tuple_len t = min_tuple_len t.
Proof.
  unfold gen_Type_min_tuple_len, min_tuple_len.
  destruct t; try apply gen_Type_tuple_len_eq.
  apply (multi_query_tie gen_Type_tuple_len tuple_len _
           (fun acc c => if Nat.ltb acc c then Some acc else Some c));
    [intros m _; apply gen_Type_tuple_len_eq|reflexivity|reflexivity].
Qed.

Lemma gen_Type_flatten_tuple_f_eq : forall n t, size t <= n -> gen_Type_flatten_tuple_f n t = flatten_tuple t.
Proof.
  induction n as [|n IH]; intros t Hn; [fuel0 t|].
  cbn [gen_Type_flatten_tuple_f]. unfold gen_Type_flatten_tuple_step.
  destruct t; try reflexivity.
  apply (multi_query_tie (gen_Type_flatten_tuple_f n) flatten_tuple _
           (fun acc c => if Nat.eqb (length acc) (length c) then Some (zip_with concat acc c) else None));
    [member IH| |reflexivity].
  intros a c. destruct (Nat.eqb (length a) (length c)); cbn [negb]; [|reflexivity].
  rewrite (map_combine_zip_with gen_Type_concat).
  rewrite (zip_with_ext gen_Type_concat concat) by exact gen_Type_concat_eq. reflexivity.
Qed.
Lemma gen_Type_flatten_tuple_eq t : gen_Type_flatten_tuple t = flatten_tuple t.
Proof. apply gen_Type_flatten_tuple_f_eq, Nat.le_refl. Qed.

Lemma gen_Type_params_f_eq : forall n t, size t <= n -> gen_Type_params_f n t = params t.
Proof.
  induction n as [|n IH]; intros t Hn; [fuel0 t|].
  cbn [gen_Type_params_f]. unfold gen_Type_params_step.
  destruct t; try reflexivity.
  apply (multi_query_tie (gen_Type_params_f n) params _
           (fun acc c => if Nat.eqb (length acc) (length c) then Some (zip_with conjoin acc c) else None));
    [member IH| |reflexivity].
  intros a c. destruct (Nat.eqb (length a) (length c)); cbn [negb]; [|reflexivity].
  rewrite (map_combine_zip_with gen_Type_conjoin).
  rewrite (zip_with_ext gen_Type_conjoin conjoin) by exact gen_Type_conjoin_eq. reflexivity.
Qed.
Lemma gen_Type_params_eq t : gen_Type_params t = params t.
Proof. apply gen_Type_params_f_eq, Nat.le_refl. Qed.

Lemma gen_Type_iter_element_f_eq : forall n t, size t <= n -> gen_Type_iter_element_f n t = iter_element t.
Proof.
  induction n as [|n IH]; intros t Hn; [fuel0 t|].
  cbn [gen_Type_iter_element_f]. unfold gen_Type_iter_element_step.
  destruct t as [| | | | | | |ps r|e|ts|ms|e|fs]; try reflexivity.
  - (* () -> (bool, T) *)
    cbn [iter_element]. rewrite gen_Type_flatten_tuple_eq.
    destruct ps; [|reflexivity]. cbn [rs_is_empty negb].
    destruct (flatten_tuple r) as [[|t0 [|t1 [|t2 l]]]|]; try reflexivity.
    cbn [length Nat.eqb negb orb nth]. unfold rs_panic.
    destruct (ty_eqb t0 TBool); reflexivity.
  - apply (multi_query_tie (gen_Type_iter_element_f n) iter_element _ (fun a c => Some (concat a c)));
      [member IH|intros a c; rewrite gen_Type_bitor_eq; reflexivity|reflexivity].
Qed.
Lemma gen_Type_iter_element_eq t : gen_Type_iter_element t = iter_element t.
Proof. apply gen_Type_iter_element_f_eq, Nat.le_refl. Qed.

(* ---------- the bool queries ---------- *)
Lemma gen_Type_is_function_f_eq : forall n t, size t <= n -> gen_Type_is_function_f n t = is_function t.
Proof.
  induction n as [|n IH]; intros t Hn; [fuel0 t|].
  cbn [gen_Type_is_function_f]. destruct t; try reflexivity.
  apply forallb_ext_in. member IH.
Qed.
Lemma gen_Type_is_function_eq t : gen_Type_is_function t = is_function t.
Proof. apply gen_Type_is_function_f_eq, Nat.le_refl. Qed.

Lemma gen_Type_is_tuple_f_eq : forall n t, size t <= n -> gen_Type_is_tuple_f n t = is_tuple t.
Proof.
  induction n as [|n IH]; intros t Hn; [fuel0 t|].
  cbn [gen_Type_is_tuple_f]. destruct t; try reflexivity.
  apply forallb_ext_in. member IH.
Qed.
Lemma gen_Type_is_tuple_eq t : gen_Type_is_tuple t = is_tuple t.
Proof. apply gen_Type_is_tuple_f_eq, Nat.le_refl. Qed.

Lemma gen_Type_is_mut_f_eq : forall n t, size t <= n -> gen_Type_is_mut_f n t = is_mut t.
Proof.
  induction n as [|n IH]; intros t Hn; [fuel0 t|].
  cbn [gen_Type_is_mut_f]. destruct t; try reflexivity.
  apply forallb_ext_in. member IH.
Qed.
Lemma gen_Type_is_mut_eq t : gen_Type_is_mut t = is_mut t.
Proof. apply gen_Type_is_mut_f_eq, Nat.le_refl. Qed.

Lemma gen_Type_has_field_f_eq : forall n t k, size t <= n -> gen_Type_has_field_f n t k = has_field k t.
Proof.
  induction n as [|n IH]; intros t k Hn; [fuel0 t|].
  cbn [gen_Type_has_field_f]. destruct t; try reflexivity.
  apply forallb_ext_in. member IH.
Qed.
Lemma gen_Type_has_field_eq t k : gen_Type_has_field t k = has_field k t.
Proof. apply gen_Type_has_field_f_eq, Nat.le_refl. Qed.

(* ---------- the constants and the queries through `matches` ---------- *)
Lemma gen_ITERATOR_TYPE_eq : gen_ITERATOR_TYPE = ITERATOR_TYPE.
Proof. reflexivity. Qed.
Lemma gen_EMPTY_STRUCT_TYPE_eq : gen_EMPTY_STRUCT_TYPE = TStruct [].
Proof. reflexivity. Qed.

Lemma gen_Type_is_iterator_eq t : gen_Type_is_iterator t = is_iterator t.
Proof. apply gen_Type_matches_eq. Qed.
Lemma gen_Type_is_struct_eq t : gen_Type_is_struct t = is_struct t.
Proof. apply gen_Type_matches_eq. Qed.
Lemma gen_Type_can_be_indexed_eq t : gen_Type_can_be_indexed t = can_be_indexed t.
Proof.
  unfold gen_Type_can_be_indexed, can_be_indexed. rewrite gen_Type_bitor_eq. apply gen_Type_matches_eq.
Qed.

(* ---------- the reading of HashSet::extend ----------
   Gen/GenTypeFns.v (as Model/Ty.v) reads `a.extend(b.iter().cloned())` for two SETS as "append
   the members of b that a does not have".  std defines extend as inserting the members one by
   one; for a list b without repetitions (every HashSet) the two coincide: *)
Lemma mem_ty_app x l1 l2 : mem_ty x (l1 ++ l2) = mem_ty x l1 || mem_ty x l2.
Proof. unfold mem_ty. apply existsb_app. Qed.

Lemma rs_hashset_extend_is_insertion m1 m2 :
  pairwise_neq m2 = true -> fold_left rs_hashset_insert m2 m1 = rs_hashset_extend m1 m2.
Proof.
  unfold rs_hashset_extend.
  assert (G : forall l acc, pairwise_neq l = true ->
            (forall x, In x l -> mem_ty x acc = false) ->
            fold_left rs_hashset_insert l (m1 ++ acc)
            = m1 ++ acc ++ filter (fun x => negb (mem_ty x m1)) l).
  { intros l. induction l as [|x l' IH]; intros acc Hp Hacc; cbn [fold_left filter].
    - rewrite app_nil_r. reflexivity.
    - cbn [pairwise_neq] in Hp. apply andb_true_iff in Hp. destruct Hp as [Hx Hp].
      apply negb_true_iff in Hx.
      unfold rs_hashset_insert at 2. rewrite mem_ty_app, (Hacc x (or_introl eq_refl)), orb_false_r.
      destruct (mem_ty x m1) eqn:Em; cbn [negb].
      + apply IH; [exact Hp|]. intros y Hy. apply Hacc. right. exact Hy.
      + rewrite <- app_assoc. rewrite (IH (acc ++ [x]) Hp).
        * rewrite <- app_assoc. reflexivity.
        * intros y Hy. rewrite mem_ty_app, (Hacc y (or_intror Hy)). cbn [orb].
          unfold mem_ty. cbn [existsb]. rewrite orb_false_r.
          rewrite ty_eqb_sym.
          unfold mem_ty in Hx. rewrite <- not_true_iff_false in Hx |- *.
          intros E. apply Hx. apply existsb_exists. exists y. split; assumption. }
  intros Hp. rewrite <- (app_nil_r m1) at 1. rewrite (G m2 [] Hp); [reflexivity|].
  intros x _. reflexivity.
Qed.

(* ---------- the table the translator wrote: which functions were read, which are pinned ---------- *)
Section Table.
Import Coq.Strings.String.
Local Open Scope string_scope.
Import GenTypeFnsTable.

Lemma covered_functions_table :
  map fst gen_translated =
  [ "MultiType::iter"; "Type::matches"; "StructType::matches"; "FunctionType::matches";
    "MultiType::from"; "Type::concat"; "Type::conjoin"; "Type::flatten_tuple"; "Type::bitor";
    "Type::index_result"; "Type::params"; "FunctionType::return_type"; "Type::return_type";
    "Type::element_type"; "Type::mut_element_type"; "Type::is_function"; "Type::is_tuple";
    "Type::is_mut"; "static ITERATOR_TYPE"; "Type::is_iterator"; "static EMPTY_STRUCT_TYPE";
    "Type::is_struct"; "Type::tuple_len"; "Type::min_tuple_len"; "Type::iter_element";
    "Type::tuple_element_at"; "Type::can_be_indexed"; "Type::field_type"; "Type::has_field";
    "FunctionType::concat"; "FunctionType::bitor" ].
Proof. reflexivity. Qed.

Lemma pinned_functions_table : map fst gen_pinned = [ "Type::bitor_assign"; "type_token_from_pair" ].
Proof. reflexivity. Qed.
End Table.

(* TypeRoundtrip.v — C15, unbounded: for every well-formed type without struct members
   whose tuples have at least two members, parsing the printed text gives back the type
   itself (member for member, in the printed order).  By induction on the size of the
   type over the rule lemmas of PegTypeLemmas.v. *)
From SSL.Model Require Import Base Ty Peg Print TypeParse.
From SSL.Gen Require Import GenGrammar.
From SSL.Lemmas Require Import TyFuel TyEq TyJoin TyMatches PegBody PegTypeLemmas.

Local Open Scope Z_scope.

(* the fragment: no struct types; tuples have at least two members (shorter ones cannot be
   written in the language and print as "()" / "(T)") *)
Fixpoint plain (t : ty) : bool :=
  match t with
  | TFun ps r => forallb plain ps && plain r
  | TArr e | TMut e => plain e
  | TTup ts => Nat.leb 2 (length ts) && forallb plain ts
  | TMulti ms => forallb plain ms
  | TStruct _ => false
  | _ => true
  end.

Definition need (t : ty) : nat := 12 * size t.

(* ---------------------------------------------------------------- printed text: first character *)
Definition ty_head (c : Z) : bool :=
  (c =? 98) || (c =? 105) || (c =? 102) || (c =? 115) || (c =? 40) || (c =? 91) || (c =? 97)
  || (c =? 33) || (c =? 109).

Lemma ty_head_facts c : ty_head c = true -> nows c = true /\ c <> 41.
Proof.
  unfold ty_head. intros H.
  repeat (apply orb_prop in H; destruct H as [H|H]); apply Z.eqb_eq in H; subst c;
    (split; [reflexivity | discriminate]).
Qed.

Lemma print_ty_head t : wf_ty t = true -> plain t = true ->
  exists c s, print_ty t = c :: s /\ ty_head c = true.
Proof.
  induction t as [t IH] using ty_size_ind. intros Hwf Hpl.
  destruct t as [| | | | | | |ps r|e|ts|ms|e|fs]; try (eexists _, _; split; reflexivity).
  - (* union: the first member *)
    destruct (wf_multi_inv ms Hwf) as (Hlen & _ & Hwfm & _).
    destruct ms as [|m1 [|m2 more]]; try (cbn in Hlen; lia).
    cbn [plain forallb] in Hpl. apply andb_prop in Hpl. destruct Hpl as [Hp1 _].
    destruct (IH m1) as (c & s & Heq & Hc); [cbn [size sizes_with fold_right]; lia | apply Hwfm; left; reflexivity | exact Hp1 |].
    cbn [print_ty map join_with]. rewrite Heq. cbn [app]. eexists _, _. split; [reflexivity | exact Hc].
Qed.

Lemma print_ty_ne t : wf_ty t = true -> plain t = true -> print_ty t <> [].
Proof. intros Hw Hp. destruct (print_ty_head t Hw Hp) as (c & s & -> & _). discriminate. Qed.

Lemma print_ty_head_ok t : wf_ty t = true -> plain t = true -> head_ok (print_ty t) = true.
Proof.
  intros Hw Hp. destruct (print_ty_head t Hw Hp) as (c & s & -> & Hc). apply ty_head_facts, Hc.
Qed.

(* ---------------------------------------------------------------- joined lists *)
Definition items_of (ts : list ty) : list (list Z * ty) := map (fun t => (print_ty t, t)) ts.

Lemma join_with_comma_tail t ts close :
  join_with s_comma (map print_ty (t :: ts)) ++ close = print_ty t ++ comma_tail (items_of ts) close.
Proof.
  revert t. induction ts as [|t2 ts IH]; intros t.
  - cbn [map join_with items_of comma_tail]. reflexivity.
  - change (join_with s_comma (map print_ty (t :: t2 :: ts)))
      with (print_ty t ++ s_comma ++ join_with s_comma (map print_ty (t2 :: ts))).
    rewrite <- !app_assoc. rewrite IH. reflexivity.
Qed.

Lemma join_comma_text ts close :
  join_with s_comma (map print_ty ts) ++ close = comma_text (items_of ts) close.
Proof. destruct ts as [|t ts]; [reflexivity|]. apply join_with_comma_tail. Qed.

Lemma join_bar_tail t ts rest :
  join_with s_bar (map print_ty (t :: ts)) ++ rest = print_ty t ++ bar_tail (items_of ts) rest.
Proof.
  revert t. induction ts as [|t2 ts IH]; intros t.
  - cbn [map join_with items_of bar_tail]. reflexivity.
  - change (join_with s_bar (map print_ty (t :: t2 :: ts)))
      with (print_ty t ++ s_bar ++ join_with s_bar (map print_ty (t2 :: ts))).
    rewrite <- !app_assoc. rewrite IH. reflexivity.
Qed.

Lemma items_of_snd ts : map snd (items_of ts) = ts.
Proof. unfold items_of. rewrite map_map. cbn [snd]. apply map_id. Qed.

Lemma items_of_length ts : length (items_of ts) = length ts.
Proof. apply map_length. Qed.

(* ---------------------------------------------------------------- unions are rebuilt member for member *)
Lemma ty_eqb_multi_simple m1 t : simple t = true -> ty_eqb (TMulti m1) t = false.
Proof. intros H. rewrite ty_eqb_unfold. destruct t; try discriminate H; reflexivity. Qed.

Lemma concat_simple_pair a b : simple a = true -> simple b = true -> ty_eqb a b = false ->
  concat a b = TMulti [a; b].
Proof.
  intros Ha Hb Hab. unfold concat. rewrite Hab.
  destruct a; try discriminate Ha; destruct b; try discriminate Hb; reflexivity.
Qed.

Lemma concat_multi_snoc m1 t : simple t = true -> mem_ty t m1 = false ->
  concat (TMulti m1) t = TMulti (m1 ++ [t]).
Proof.
  intros Ht Hmem. unfold concat. rewrite (ty_eqb_multi_simple m1 t Ht).
  destruct t; try discriminate Ht; rewrite Hmem; reflexivity.
Qed.

Lemma pairwise_neq_mem_rev x l : pairwise_neq (l ++ [x]) = true -> mem_ty x l = false.
Proof.
  induction l as [|y l IH]; [reflexivity|].
  cbn [app pairwise_neq mem_ty existsb]. intros H. apply andb_prop in H. destruct H as [Hy Hl].
  apply negb_true_iff in Hy. unfold mem_ty in Hy. rewrite existsb_app in Hy.
  apply orb_false_elim in Hy. destruct Hy as [_ Hyx]. cbn [existsb] in Hyx.
  rewrite orb_false_r in Hyx. rewrite ty_eqb_sym, Hyx. cbn [orb]. apply IH, Hl.
Qed.

Lemma pairwise_neq_prefix l1 l2 : pairwise_neq (l1 ++ l2) = true -> pairwise_neq l1 = true.
Proof.
  induction l1 as [|x l1 IH]; [reflexivity|].
  cbn [app pairwise_neq]. intros H. apply andb_prop in H. destruct H as [Hx Hl].
  apply andb_true_intro. split; [|apply IH, Hl].
  apply negb_true_iff. apply negb_true_iff in Hx. unfold mem_ty in *. rewrite existsb_app in Hx.
  apply orb_false_elim in Hx. tauto.
Qed.

Lemma fold_concat_members done todo :
  (2 <= length done)%nat -> (forall m, In m todo -> simple m = true) ->
  pairwise_neq (done ++ todo) = true ->
  fold_left concat todo (TMulti done) = TMulti (done ++ todo).
Proof.
  revert done. induction todo as [|t todo IH]; intros done Hlen Hs Hp.
  - rewrite app_nil_r. reflexivity.
  - cbn [fold_left]. rewrite concat_multi_snoc.
    + replace (done ++ t :: todo) with ((done ++ [t]) ++ todo) by (rewrite <- app_assoc; reflexivity).
      apply IH; [rewrite app_length; cbn; lia | intros m Hm; apply Hs; right; exact Hm |].
      rewrite <- app_assoc. exact Hp.
    + apply Hs. left. reflexivity.
    + apply pairwise_neq_mem_rev. apply pairwise_neq_prefix with (l2 := todo).
      rewrite <- app_assoc. exact Hp.
Qed.

Lemma concat_all_wf_multi ms : wf_ty (TMulti ms) = true -> concat_all ms = Some (TMulti ms).
Proof.
  intros Hwf. destruct (wf_multi_inv ms Hwf) as (Hlen & Hs & _ & Hp).
  destruct ms as [|a [|b more]]; try (cbn in Hlen; lia).
  cbn [concat_all fold_left]. f_equal.
  rewrite concat_simple_pair.
  - apply (fold_concat_members [a; b] more); [cbn; lia | intros m Hm; apply Hs; right; right; exact Hm | exact Hp].
  - apply Hs. left. reflexivity.
  - apply Hs. right. left. reflexivity.
  - cbn [pairwise_neq mem_ty existsb] in Hp. apply andb_prop in Hp. destruct Hp as [Hab _].
    apply negb_true_iff in Hab. apply orb_false_elim in Hab. tauto.
Qed.

(* ---------------------------------------------------------------- sizes, fuel *)
Lemma length_le_sizes (l : list ty) : (length l <= sizes_with size l)%nat.
Proof.
  induction l as [|x l IH]; [apply le_n|]. cbn [length sizes_with fold_right].
  pose proof (size_pos x). unfold sizes_with in IH. lia.
Qed.

Lemma in_size_lt_fun_p ps r x : In x ps -> (size x < size (TFun ps r))%nat.
Proof. intros H. cbn [size]. pose proof (in_sizes x ps H). lia. Qed.

Lemma in_size_lt_tup ts x : In x ts -> (size x < size (TTup ts))%nat.
Proof. intros H. cbn [size]. pose proof (in_sizes x ts H). lia. Qed.

Lemma in_size_lt_multi ms x : In x ms -> (size x < size (TMulti ms))%nat.
Proof. intros H. cbn [size]. pose proof (in_sizes x ms H). lia. Qed.

Lemma matches_never_wf e : wf_ty e = true -> matches e TNever = true -> e = TNever.
Proof.
  intros Hwf Hm. destruct e as [| | | | | | |ps r|e|ts|ms|e|fs]; try reflexivity;
    try (rewrite matches_nm_never in Hm by reflexivity; discriminate Hm).
  destruct (wf_multi_inv ms Hwf) as (Hlen & Hs & _ & _).
  destruct ms as [|m ms]; [cbn in Hlen; lia|].
  rewrite matches_multi_l in Hm. cbn [forallb] in Hm. apply andb_prop in Hm. destruct Hm as [Hm _].
  rewrite matches_nm_never in Hm; [discriminate Hm|]. apply simple_nm, Hs. left. reflexivity.
Qed.

(* ---------------------------------------------------------------- the induction *)
Definition good (t : ty) : Prop := wf_ty t = true /\ plain t = true.

Definition S_ok (t : ty) (f : nat) : Prop :=
  forall rest, follow_s rest = true -> parses_as R_standard_types f (print_ty t) rest t.
Definition M_ok (t : ty) (f : nat) : Prop :=
  forall rest, follow_t rest = true -> parses_as R_multi f (print_ty t) rest t.
Definition T_ok (t : ty) (f : nat) : Prop :=
  forall rest, follow_t rest = true -> parses_as R_type f (print_ty t) rest t.

(* what is printed after "->" and after "mut " *)
Definition rtext (t : ty) : list Z := if is_multi t then paren (print_ty t) else print_ty t.
Definition R_ok (t : ty) (f : nat) : Prop :=
  forall rest, follow_s rest = true ->
  forall pos acc, yields (callr f R_return_type (rtext t ++ rest) pos acc) rest acc t.

Definition SM (t : ty) : Prop :=
  forall f, (need t <= f)%nat ->
  (is_multi t = false -> S_ok t f) /\ (is_multi t = true -> M_ok t f).

Lemma need_ge t : (12 <= need t)%nat.
Proof. unfold need. pose proof (size_pos t). lia. Qed.

Lemma T_of_SM t : SM t -> forall f, (need t + 2 <= f)%nat -> T_ok t f.
Proof.
  intros H f Hf rest Hfol. pose proof (need_ge t). destruct (is_multi t) eqn:E.
  - intros pos acc. apply type_multi; [lia|].
    exact (proj2 (H (f - 1)%nat ltac:(lia)) E rest Hfol).
  - intros pos acc. apply type_plain; [lia | | | exact Hfol].
    + exact (proj1 (H (f - 1)%nat ltac:(lia)) E rest (follow_t_s _ Hfol)).
    + exact (proj1 (H (f - 2)%nat ltac:(lia)) E rest (follow_t_s _ Hfol)).
Qed.

Lemma R_of_SM t : good t -> SM t -> forall f, (need t + 8 <= f)%nat -> R_ok t f.
Proof.
  intros [Hwf Hpl] H f Hf rest Hfol pos acc. pose proof (need_ge t). unfold rtext.
  destruct (is_multi t) eqn:E.
  - unfold paren. cbn [app]. rewrite <- app_assoc. cbn [app].
    destruct (print_ty_head t Hwf Hpl) as (c & s & Heq & Hc).
    destruct (ty_head_facts c Hc) as [Hcw Hc41].
    apply (ret_paren f (need t + 2)%nat); try lia.
    + intros f' Hf'. apply (T_of_SM t H f' Hf'). reflexivity.
    + apply (proj2 (H (f - 1)%nat ltac:(lia)) E). reflexivity.
    + exists c, s. auto.
    + exact Hfol.
  - destruct f as [|f]; [lia|]. apply ret_plain.
    exact (proj1 (H f ltac:(lia)) E rest Hfol).
Qed.

Lemma follow_t_comma_tail more close : follow_t close = true -> follow_t (comma_tail more close) = true.
Proof. destruct more as [|[? ?] ?]; [exact (fun H => H) | reflexivity]. Qed.

Lemma follow_s_bar_tail more rest : follow_s rest = true -> follow_s (bar_tail more rest) = true.
Proof. destruct more as [|[? ?] ?]; [exact (fun H => H) | reflexivity]. Qed.

Lemma items_ok_of ps close k :
  (forall p, In p ps -> good p /\ forall f', (k <= f')%nat -> T_ok p f') ->
  follow_t close = true ->
  forall f', (k <= f')%nat -> items_ok f' (items_of ps) close.
Proof.
  intros Hps Hcl f' Hf'. induction ps as [|p ps IH]; [exact I|].
  cbn [items_of map items_ok]. fold (items_of ps).
  destruct (Hps p (or_introl eq_refl)) as [[Hw Hp] HT]. split; [|split].
  - apply (HT f' Hf'). apply follow_t_comma_tail, Hcl.
  - apply print_ty_head_ok; assumption.
  - apply IH. intros q Hq. apply Hps. right. exact Hq.
Qed.

Lemma bitems_ok_of ms rest f :
  (forall m, In m ms -> good m /\ is_multi m = false /\ S_ok m f) ->
  follow_s rest = true -> bitems_ok f (items_of ms) rest.
Proof.
  intros Hms Hr. induction ms as [|m ms IH]; [exact I|].
  cbn [items_of map bitems_ok]. fold (items_of ms).
  destruct (Hms m (or_introl eq_refl)) as ([Hw Hp] & _ & HS). split; [|split].
  - apply HS. apply follow_s_bar_tail, Hr.
  - apply print_ty_head_ok; assumption.
  - apply IH. intros q Hq. apply Hms. right. exact Hq.
Qed.

Lemma items_of_ne ts : (forall t, In t ts -> good t) -> forall it, In it (items_of ts) -> fst it <> [].
Proof.
  intros H it Hin. unfold items_of in Hin. apply in_map_iff in Hin. destruct Hin as (t & <- & Ht).
  destruct (H t Ht). apply print_ty_ne; assumption.
Qed.

Lemma good_fun_inv ps r : good (TFun ps r) -> (forall p, In p ps -> good p) /\ good r.
Proof.
  intros [Hw Hp]. cbn [wf_ty plain] in *. apply andb_prop in Hw, Hp.
  destruct Hw as [Hw1 Hw2], Hp as [Hp1 Hp2]. split; [|split; assumption].
  intros p Hin. split; [exact (proj1 (forallb_forall _ _) Hw1 p Hin) | exact (proj1 (forallb_forall _ _) Hp1 p Hin)].
Qed.

Lemma good_tup_inv ts : good (TTup ts) -> (2 <= length ts)%nat /\ forall t, In t ts -> good t.
Proof.
  intros [Hw Hp]. cbn [wf_ty plain] in *. apply andb_prop in Hp. destruct Hp as [Hl Hp].
  split; [apply Nat.leb_le, Hl|].
  intros t Hin. split; [exact (proj1 (forallb_forall _ _) Hw t Hin) | exact (proj1 (forallb_forall _ _) Hp t Hin)].
Qed.

Lemma good_multi_inv ms : good (TMulti ms) ->
  (2 <= length ms)%nat /\ forall m, In m ms -> good m /\ is_multi m = false.
Proof.
  intros [Hw Hp]. destruct (wf_multi_inv ms Hw) as (Hlen & Hs & Hwm & _). split; [exact Hlen|].
  intros m Hin. cbn [plain] in Hp. split; [split|].
  - apply Hwm, Hin.
  - exact (proj1 (forallb_forall _ _) Hp m Hin).
  - specialize (Hs m Hin). destruct m; try discriminate Hs; reflexivity.
Qed.

Theorem sm_all t : good t -> SM t.
Proof.
  induction t as [t IH] using ty_size_ind. intros Hg f Hf.
  pose proof (need_ge t) as Hn.
  destruct t as [| | | | | | |ps r|e|ts|ms|e|fs].
  - split; [|discriminate]. intros _ rest Hfol pos acc. apply std_bool. lia.
  - split; [|discriminate]. intros _ rest Hfol pos acc. apply std_int. lia.
  - split; [|discriminate]. intros _ rest Hfol pos acc. apply std_float. lia.
  - split; [|discriminate]. intros _ rest Hfol pos acc. apply std_string. lia.
  - split; [|discriminate]. intros _ rest Hfol pos acc. apply std_void; [lia | exact Hfol].
  - split; [|discriminate]. intros _ rest Hfol pos acc. apply std_any. lia.
  - split; [|discriminate]. intros _ rest Hfol pos acc. apply std_never. lia.
  - (* function *)
    split; [|discriminate]. intros _ rest Hfol pos acc.
    destruct (good_fun_inv ps r Hg) as [Hgp Hgr].
    assert (Hsz : (length ps + 2 <= size (TFun ps r))%nat).
    { cbn [size]. pose proof (length_le_sizes ps). pose proof (size_pos r). lia. }
    assert (Hnr : (need r + 12 <= need (TFun ps r))%nat) by (unfold need; cbn [size]; lia).
    assert (Hnp : forall p, In p ps -> (need p + 12 <= need (TFun ps r))%nat).
    { intros p Hin. unfold need. pose proof (in_size_lt_fun_p ps r p Hin). lia. }
    assert (Htext : print_ty (TFun ps r) ++ rest =
                    40 :: comma_text (items_of ps) (41 :: 45 :: 62 :: rtext r ++ rest)).
    { cbn [print_ty]. fold (rtext r). unfold paren, s_arrow. cbn [app].
      rewrite <- !app_assoc. cbn [app]. rewrite join_comma_text. reflexivity. }
    rewrite Htext. apply std_fun; [lia|].
    assert (Hr : R_ok r (f - 1 - 1)%nat).
    { apply R_of_SM; [exact Hgr | apply IH; [cbn [size]; lia | exact Hgr] | lia]. }
    intros pos' acc'.
    pose proof (function_type_rule (f - 1)%nat (items_of ps) (rtext r) r rest) as Hrule.
    rewrite items_of_snd in Hrule. apply Hrule; clear Hrule.
    + lia.
    + rewrite items_of_length. unfold need in Hf. lia.
    + apply (items_ok_of ps _ (f - 1 - 2)%nat); [| reflexivity | lia].
      intros p Hin. split; [apply Hgp, Hin|]. intros f' Hf'.
      apply T_of_SM; [apply IH; [apply in_size_lt_fun_p, Hin | apply Hgp, Hin] |].
      specialize (Hnp p Hin). lia.
    + apply items_of_ne. exact Hgp.
    + intros p a. apply Hr. exact Hfol.
    + unfold rtext. destruct (is_multi r); [reflexivity|].
      apply head_ok_app; [apply print_ty_ne | apply print_ty_head_ok]; apply Hgr.
  - (* array *)
    split; [|discriminate]. intros _ rest Hfol pos acc.
    destruct Hg as [Hw Hp]. cbn [wf_ty plain] in Hw, Hp.
    cbn [print_ty]. destruct (matches e TNever) eqn:Em.
    + rewrite (matches_never_wf e Hw Em). cbn [app]. apply std_arr_never. lia.
    + cbn [app]. rewrite <- app_assoc. cbn [app].
      apply std_arr; [lia | | apply print_ty_ne; assumption | apply print_ty_head_ok; assumption].
      apply T_of_SM; [apply IH; [cbn [size]; lia | split; assumption] | unfold need in *; cbn [size] in *; lia | reflexivity].
  - (* tuple *)
    split; [|discriminate]. intros _ rest Hfol pos acc.
    destruct (good_tup_inv ts Hg) as [Hlen Hgt].
    destruct ts as [|t1 [|t2 more]]; try (cbn in Hlen; lia).
    assert (Hsz : (length (t1 :: t2 :: more) < size (TTup (t1 :: t2 :: more)))%nat).
    { cbn [size]. pose proof (length_le_sizes (t1 :: t2 :: more)). lia. }
    assert (Htext : print_ty (TTup (t1 :: t2 :: more)) ++ rest =
                    40 :: comma_text (items_of (t1 :: t2 :: more)) (41 :: rest)).
    { cbn [print_ty]. unfold paren. cbn [app]. rewrite <- app_assoc. cbn [app].
      rewrite join_comma_text. reflexivity. }
    rewrite Htext. cbn [items_of map]. fold (items_of more).
    pose proof (std_tuple f (print_ty t1) t1 (print_ty t2) t2 (items_of more) rest) as Hrule.
    rewrite items_of_snd in Hrule. apply Hrule; clear Hrule.
    + lia.
    + rewrite items_of_length. cbn [length] in Hsz. unfold need in Hf. lia.
    + intros f' Hf'. apply (items_ok_of (t1 :: t2 :: more) (41 :: rest) (f - 3)%nat); [| reflexivity | exact Hf'].
      intros p Hin. split; [apply Hgt, Hin|]. intros f'' Hf''.
      assert (Hlt : (size p < size (TTup (t1 :: t2 :: more)))%nat).
      { cbn [size]. pose proof (in_sizes p _ Hin). lia. }
      apply T_of_SM; [apply IH; [exact Hlt | apply Hgt, Hin] | unfold need in *; lia].
    + apply (items_of_ne (t1 :: t2 :: more)). exact Hgt.
    + destruct (Hgt t1 (or_introl eq_refl)) as [Hw1 Hp1].
      destruct (print_ty_head t1 Hw1 Hp1) as (c & s & Heq & Hc).
      exists c, s. split; [exact Heq | apply ty_head_facts, Hc].
    + exact Hfol.
  - (* union *)
    split; [discriminate|]. intros _ rest Hfol pos acc.
    destruct (good_multi_inv ms Hg) as [Hlen Hgm].
    destruct ms as [|m1 [|m2 more]]; try (cbn in Hlen; lia).
    assert (Hsz : (length (m1 :: m2 :: more) < size (TMulti (m1 :: m2 :: more)))%nat).
    { cbn [size]. pose proof (length_le_sizes (m1 :: m2 :: more)). lia. }
    cbn [print_ty]. rewrite join_bar_tail. cbn [items_of map]. fold (items_of more).
    apply (multi_rule f (print_ty m1) m1 (print_ty m2) m2 (items_of more) rest).
    + lia.
    + rewrite items_of_length. cbn [length] in Hsz. unfold need in Hf. lia.
    + apply (bitems_ok_of (m1 :: m2 :: more)); [|apply follow_t_s, Hfol].
      intros m Hin. destruct (Hgm m Hin) as [Hgmm Hnm]. split; [exact Hgmm | split; [exact Hnm|]].
      assert (Hlt : (size m < size (TMulti (m1 :: m2 :: more)))%nat).
      { cbn [size]. pose proof (in_sizes m _ Hin). lia. }
      apply (proj1 (IH m Hlt Hgmm (f - 1)%nat ltac:(unfold need in *; lia)) Hnm).
    + apply (items_of_ne (m1 :: m2 :: more)). intros m Hin. apply Hgm, Hin.
    + rewrite items_of_snd. apply concat_all_wf_multi. apply Hg.
    + exact Hfol.
  - (* mut *)
    split; [|discriminate]. intros _ rest Hfol pos acc.
    destruct Hg as [Hw Hp]. cbn [wf_ty plain] in Hw, Hp.
    cbn [print_ty]. fold (rtext e). rewrite <- app_assoc.
    apply std_mut; [lia | |].
    + intros p a. apply (R_of_SM e); [split; assumption | apply IH; [cbn [size]; lia | split; assumption] | | exact Hfol].
      unfold need in *. cbn [size] in *. lia.
    + unfold rtext. destruct (is_multi e); [reflexivity|].
      apply head_ok_app; [apply print_ty_ne | apply print_ty_head_ok]; assumption.
  - destruct Hg as [_ Hp]. discriminate Hp.
Qed.

(* ---------------------------------------------------------------- enough fuel *)
Lemma join_with_length_ge sep l :
  (fold_right (fun x acc => length x + acc) 0 l + (length l - 1) * length sep <= length (join_with sep l))%nat.
Proof.
  induction l as [|x l IH]; [cbn; lia|].
  destruct l as [|y l]; [cbn [join_with fold_right length]; lia|].
  change (join_with sep (x :: y :: l)) with (x ++ sep ++ join_with sep (y :: l)).
  rewrite !app_length. cbn [fold_right length] in *. lia.
Qed.

Lemma paren_length s : length (paren s) = (2 + length s)%nat.
Proof. unfold paren. cbn [length]. rewrite app_length. cbn [length]. lia. Qed.

Lemma size_le_print t : good t -> (size t <= length (print_ty t))%nat.
Proof.
  induction t as [t IH] using ty_size_ind. intros Hg.
  assert (Hlist : forall l, (forall x, In x l -> (size x < size t)%nat /\ good x) ->
            (sizes_with size l <= fold_right (fun x acc => length x + acc) 0 (map print_ty l))%nat).
  { induction l as [|x l IHl]; intros Hl; [apply le_n|].
    cbn [sizes_with fold_right map]. destruct (Hl x (or_introl eq_refl)) as [Hlt Hgx].
    pose proof (IH x Hlt Hgx). unfold sizes_with in IHl.
    specialize (IHl (fun y Hy => Hl y (or_intror Hy))). lia. }
  destruct t as [| | | | | | |ps r|e|ts|ms|e|fs]; try (cbn; lia).
  - destruct (good_fun_inv ps r Hg) as [Hgp Hgr].
    pose proof (IH r ltac:(cbn [size]; lia) Hgr) as Hr.
    pose proof (Hlist ps (fun x Hx => conj (in_size_lt_fun_p ps r x Hx) (Hgp x Hx))) as Hps.
    pose proof (join_with_length_ge s_comma (map print_ty ps)) as Hj. cbn [s_comma length] in Hj.
    cbn [print_ty size]. rewrite !app_length, paren_length. cbn [s_arrow length].
    assert (length (print_ty r) <= length (if is_multi r then paren (print_ty r) else print_ty r))%nat.
    { destruct (is_multi r); [rewrite paren_length; lia | lia]. }
    lia.
  - destruct Hg as [Hw Hp]. cbn [wf_ty plain] in Hw, Hp. cbn [print_ty size length].
    destruct (matches e TNever) eqn:Em.
    + rewrite (matches_never_wf e Hw Em). cbn. lia.
    + rewrite app_length. cbn [length]. pose proof (IH e ltac:(cbn [size]; lia) (conj Hw Hp)). lia.
  - destruct (good_tup_inv ts Hg) as [Hlen Hgt].
    pose proof (Hlist ts (fun x Hx => conj (in_size_lt_tup ts x Hx) (Hgt x Hx))) as Hts.
    pose proof (join_with_length_ge s_comma (map print_ty ts)) as Hj. cbn [s_comma length] in Hj.
    cbn [print_ty size]. rewrite paren_length. lia.
  - destruct (good_multi_inv ms Hg) as [Hlen Hgm].
    pose proof (Hlist ms (fun x Hx => conj (in_size_lt_multi ms x Hx) (proj1 (Hgm x Hx)))) as Hms.
    pose proof (join_with_length_ge s_bar (map print_ty ms)) as Hj. rewrite map_length in Hj.
    cbn [print_ty size]. cbn [s_bar length] in Hj. lia.
  - destruct Hg as [Hw Hp]. cbn [wf_ty plain] in Hw, Hp. cbn [print_ty size].
    rewrite app_length. cbn [s_mut length].
    pose proof (IH e ltac:(cbn [size]; lia) (conj Hw Hp)).
    assert (length (print_ty e) <= length (if is_multi e then paren (print_ty e) else print_ty e))%nat.
    { destruct (is_multi e); [rewrite paren_length; lia | lia]. }
    lia.
  - destruct Hg as [_ Hp]. discriminate Hp.
Qed.

(* ---------------------------------------------------------------- the theorem *)

(* C15 for the struct-free fragment, unbounded: `Type::from_str(&t.to_string())` is `t`
   itself, union members in the printed order *)
Theorem type_roundtrip_plain t :
  wf_ty t = true -> plain t = true -> tp_parse_type (print_ty t) = Ok t.
Proof.
  intros Hw Hp. assert (Hg : good t) by (split; assumption).
  unfold tp_parse_type, parse_rule, peg_run. rewrite tbl_eq.
  set (f := fuel_for (print_ty t) grammar).
  assert (Hf : (need t + 2 <= f)%nat).
  { subst f. unfold fuel_for, need.
    change (length (g_rules grammar)) with 177%nat.
    pose proof (size_le_print t Hg). nia. }
  pose proof (T_of_SM t (sm_all t Hg) f Hf [] eq_refl 0%nat []) as (p & tr & Heq & Hc).
  rewrite app_nil_r in Heq. rewrite Heq. cbn [rev' rev_append]. apply Hc.
Qed.

(* any text after the type is ignored, provided it cannot continue the type *)
Theorem type_roundtrip_plain_prefix t rest :
  wf_ty t = true -> plain t = true -> follow_t rest = true ->
  tp_parse_type (print_ty t ++ rest) = Ok t.
Proof.
  intros Hw Hp Hfol. assert (Hg : good t) by (split; assumption).
  unfold tp_parse_type, parse_rule, peg_run. rewrite tbl_eq.
  set (f := fuel_for (print_ty t ++ rest) grammar).
  assert (Hf : (need t + 2 <= f)%nat).
  { subst f. unfold fuel_for, need.
    change (length (g_rules grammar)) with 177%nat. rewrite app_length.
    pose proof (size_le_print t Hg). nia. }
  pose proof (T_of_SM t (sm_all t Hg) f Hf rest Hfol 0%nat []) as (p & tr & Heq & Hc).
  rewrite Heq. cbn [rev' rev_append]. apply Hc.
Qed.


(* ---------------------------------------------------------------- every print order *)
From Coq Require Import Permutation.
From SSL.Lemmas Require Import OrderLemmas.

(* [perm_equiv t t'] (Lemmas/OrderLemmas.v): t' is t with the member lists of its unions
   (and the field lists of its structs) permuted, at any depth — the list order stands
   for the hash iteration order, so t' ranges over the print orders of t *)
Theorem type_roundtrip_any_order t t' :
  wf_ty t = true -> perm_equiv t t' -> plain t' = true ->
  exists t'', tp_parse_type (print_ty t') = Ok t'' /\ ty_eqb t'' t = true.
Proof.
  intros Hwf Hpe Hpl. exists t'. split.
  - apply type_roundtrip_plain; [exact (perm_equiv_wf t t' Hpe Hwf) | exact Hpl].
  - rewrite ty_eqb_sym. apply perm_equiv_eqb; assumption.
Qed.

Lemma Forall2_same_length {A B} (R : A -> B -> Prop) l l' : Forall2 R l l' -> length l = length l'.
Proof. induction 1; cbn [length]; congruence. Qed.

Lemma Forall2_forallb_plain (l l' : list ty) :
  Forall2 (fun a b => plain a = true -> plain b = true) l l' ->
  forallb plain l = true -> forallb plain l' = true.
Proof.
  induction 1 as [|a b l l' Hab _ IH]; [exact (fun H => H)|].
  cbn [forallb]. intros H. apply andb_prop in H. destruct H as [Ha Hl].
  rewrite (Hab Ha), (IH Hl). reflexivity.
Qed.

(* the fragment is closed under reordering *)
Theorem perm_equiv_plain : forall a b, perm_equiv a b -> plain a = true -> plain b = true.
Proof.
  induction a as [a IH] using ty_size_ind. intros b Hpe Hp.
  inversion Hpe as [a0 | ps ps' r r' Hps Hr | e e' He | e e' He | ts ts' Hts
                    | ms ms' ms'' Hms HP | fs fs' fs'' Hfs HP]; subst.
  - exact Hp.
  - cbn [plain] in *. apply andb_prop in Hp. destruct Hp as [Hp1 Hp2].
    apply andb_true_intro. split.
    + apply (Forall2_forallb_plain ps ps'); [|exact Hp1].
      eapply Forall2_impl_in; [|exact Hps]. intros x y Hx _ Hxy Hpx.
      apply (IH x); [apply in_size_lt_fun_p, Hx | exact Hxy | exact Hpx].
    + apply (IH r); [cbn [size]; lia | exact Hr | exact Hp2].
  - cbn [plain] in *. apply (IH e); [cbn [size]; lia | exact He | exact Hp].
  - cbn [plain] in *. apply (IH e); [cbn [size]; lia | exact He | exact Hp].
  - cbn [plain] in *. apply andb_prop in Hp. destruct Hp as [Hl Hp].
    apply andb_true_intro. split.
    + rewrite <- (Forall2_same_length _ _ _ Hts). exact Hl.
    + apply (Forall2_forallb_plain ts ts'); [|exact Hp].
      eapply Forall2_impl_in; [|exact Hts]. intros x y Hx _ Hxy Hpx.
      apply (IH x); [apply in_size_lt_tup, Hx | exact Hxy | exact Hpx].
  - cbn [plain] in *. rewrite <- (forallb_perm plain ms' ms'' HP).
    apply (Forall2_forallb_plain ms ms'); [|exact Hp].
    eapply Forall2_impl_in; [|exact Hms]. intros x y Hx _ Hxy Hpx.
    apply (IH x); [apply in_size_lt_multi, Hx | exact Hxy | exact Hpx].
  - discriminate Hp.
Qed.

(* C15, struct-free fragment: whatever order the members are printed in, the text reads
   back as a type equal to the original one *)
Theorem type_roundtrip t t' :
  wf_ty t = true -> plain t = true -> perm_equiv t t' ->
  exists t'', tp_parse_type (print_ty t') = Ok t'' /\ ty_eqb t'' t = true.
Proof.
  intros Hwf Hpl Hpe. apply type_roundtrip_any_order; [exact Hwf | exact Hpe |].
  exact (perm_equiv_plain t t' Hpe Hpl).
Qed.
